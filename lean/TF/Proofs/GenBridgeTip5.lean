import TF.Gen.Tip5Loops
import TF.Model.Tip5
import TF.Proofs.Tip5
/-!
# Bridge: the Tip5 functions *as regenerated from source* = the hand-written model (C02)

`TF/Gen/Tip5Loops.lean` is written by `tools/rs2lean_bfe.py` from the text of `tip5.rs` on every run: the sponge state is
the list of its 16 raw Montgomery words (`self.state[i]` = `self.getD i 0`, `self.state[i] = v` = `self.set i v`),
BFieldElement operators are the translated `bfe_add` / `bfe_mul` (`TF/Gen/BField.lean`), `LOOKUP_TABLE[..]` and
`ROUND_CONSTANTS[..]` read the regenerated tables, `generated_function(&x)` is the straight-line `UInt64` translation,
every `for` loop is a recursion on the number of remaining iterations.  The hand model (`TF/Model/Tip5.lean`) works on
`Vector Nat 16`.  The theorems below say, for **every** state `s` (no bound, no canonicity hypothesis):

    Loops.tip5_f s.toList = (Model.f s).toList

so the C02 theorems (`round_refines_spec`, `permutation_refines_spec`, `trace_spec`, …) are theorems about the current
source text: a one-token change of a translated function changes `Loops.tip5_*`, and these proofs are re-checked or break.

Proof pattern: each generated loop is shown equal to `updRange f n i l` ("for k in i..i+n: l[k] := f k l[k]") by
induction on `n`; `updRange_getD` gives every lane in closed form; lists are compared lane by lane.
Identity wrappers (`bfe_from_raw_u64`) are rewritten away before any `rfl` over terms with 39-digit literals.
-/
namespace TF.GenBridge.Tip5
open TF TF.Gen TF.Model.Tip5 TF.Tip5P

/-- "for k in i .. i+n: l[k] := f k l[k]" -/
def updRange (f : Nat → Nat → Nat) : Nat → Nat → List Nat → List Nat
  | 0, _, l => l
  | n+1, i, l => updRange f n (i+1) (l.set i (f i (l.getD i 0)))

theorem updRange_length (f : Nat → Nat → Nat) : ∀ n i l, (updRange f n i l).length = l.length := by
  intro n
  induction n with
  | zero => intros; rfl
  | succ n ih => intro i l; simp only [updRange, ih, List.length_set]

theorem updRange_getD (f : Nat → Nat → Nat) : ∀ n i l k,
    (updRange f n i l).getD k 0 = if i ≤ k ∧ k < i + n ∧ k < l.length then f k (l.getD k 0) else l.getD k 0 := by
  intro n
  induction n with
  | zero => intro i l k; simp only [updRange]; rw [if_neg (by omega)]
  | succ n ih =>
    intro i l k
    simp only [updRange, ih, List.length_set]
    by_cases hk : k = i
    · subst hk
      by_cases hl : k < l.length
      · simp [hl, List.getD_eq_getElem?_getD]
      · simp [hl, List.getD_eq_getElem?_getD]
    · have : (l.set i (f i (l.getD i 0))).getD k 0 = l.getD k 0 := by
        simp [List.getD_eq_getElem?_getD, Ne.symm hk]
      rw [this]
      by_cases h1 : i + 1 ≤ k ∧ k < i + 1 + n ∧ k < l.length
      · have h2 : i ≤ k ∧ k < i + (n + 1) ∧ k < l.length := by omega
        rw [if_pos h1, if_pos h2]
      · have h2 : ¬ (i ≤ k ∧ k < i + (n + 1) ∧ k < l.length) := by omega
        rw [if_neg h1, if_neg h2]

theorem getD_eq (a : List Nat) (i : Nat) (h : i < a.length) : a.getD i 0 = a[i] := by
  simp [List.getD_eq_getElem?_getD, List.getElem?_eq_getElem h]

theorem list_ext_getD (a b : List Nat) (hl : a.length = b.length)
    (h : ∀ k, k < a.length → a.getD k 0 = b.getD k 0) : a = b := by
  apply List.ext_getElem hl
  intro k h1 h2
  rw [← getD_eq a k h1, ← getD_eq b k h2]
  exact h k h1

theorem updRange_full (g : Nat → Nat) (l : List Nat) : updRange (fun _ b => g b) l.length 0 l = l.map g := by
  apply list_ext_getD
  · rw [updRange_length, List.length_map]
  · intro k hk
    rw [updRange_length] at hk
    rw [updRange_getD, if_pos (by omega), getD_eq _ k hk, getD_eq _ k (by rw [List.length_map]; exact hk),
      List.getElem_map]

theorem toLeBytes_length : ∀ n w, (toLeBytes n w).length = n := by
  intro n
  induction n with
  | zero => intro w; rfl
  | succ n ih => intro w; simp only [toLeBytes, List.length_cons, ih]

theorem toLeBytes_lt : ∀ n w, ∀ b ∈ toLeBytes n w, b < 256 := by
  intro n
  induction n with
  | zero => intro w b hb; simp [toLeBytes] at hb
  | succ n ih =>
    intro w b hb
    simp only [toLeBytes, List.mem_cons] at hb
    rcases hb with rfl | hb
    · exact Nat.mod_lt _ (by decide)
    · exact ih _ b hb

/-! ### `split_and_lookup` -/

theorem lookup_getD (b : Nat) (h : b < 256) : LOOKUP_TABLE.getD b 0 = lookup ⟨b, h⟩ := by
  unfold lookup
  rw [getD_eq _ _ (by rw [lookup_table_len]; exact h)]

theorem ofLe_map_toLe : ∀ n w, ofLeBytes ((toLeBytes n w).map fun b => LOOKUP_TABLE.getD b 0) = mapBytes lookup n w := by
  intro n
  induction n with
  | zero => intro w; rfl
  | succ n ih =>
    intro w
    simp only [toLeBytes, List.map_cons, ofLeBytes, mapBytes, ih]
    rw [lookup_getD _ (Nat.mod_lt _ (by decide))]

theorem sl_for_eq : ∀ n i bytes,
    Loops.tip5_split_and_lookup_for n i bytes = updRange (fun _ b => LOOKUP_TABLE.getD b 0) n i bytes := by
  intro n
  induction n with
  | zero => intros; rfl
  | succ n ih => intro i bytes; simp only [Loops.tip5_split_and_lookup_for, updRange, ih]

/-- **`Tip5::split_and_lookup`** regenerated from source (`raw_bytes`, the `for i in 0..8` table loop, `from_raw_bytes`) is the
    hand model's byte map, for every word -/
theorem gen_split_and_lookup_eq (w : Nat) : Loops.tip5_split_and_lookup w = split_and_lookup w := by
  have h := updRange_full (fun b => LOOKUP_TABLE.getD b 0) (toLeBytes 8 w)
  rw [toLeBytes_length] at h
  simp only [Loops.tip5_split_and_lookup, Loops.bfe_raw_bytes, Loops.bfe_from_raw_bytes, Nat.sub_zero, sl_for_eq, h,
    ofLe_map_toLe, split_and_lookup]

/-! ### `sbox_layer` -/

theorem vec_getD (s : State) (k : Nat) (h : k < 16) : s.toList.getD k 0 = s[k] := by
  rw [getD_eq _ _ (by simpa using h), Vector.getElem_toList]

theorem sbox_for_eq : ∀ n i l,
    Loops.tip5_sbox_layer_for n i l = updRange (fun _ x => Loops.tip5_split_and_lookup x) n i l := by
  intro n
  induction n with
  | zero => intros; rfl
  | succ n ih => intro i l; simp only [Loops.tip5_sbox_layer_for, updRange, ih]

theorem sbox_for2_eq : ∀ n i l, Loops.tip5_sbox_layer_for2 n i l = updRange (fun _ x => pow7 x) n i l := by
  intro n
  induction n with
  | zero => intros; rfl
  | succ n ih => intro i l; simp only [Loops.tip5_sbox_layer_for2, updRange, ih, pow7]

/-- **`Tip5::sbox_layer`** regenerated from source = hand model, every state -/
theorem gen_sbox_layer_eq (s : State) : Loops.tip5_sbox_layer s.toList = (sbox_layer s).toList := by
  apply list_ext_getD
  · simp only [Loops.tip5_sbox_layer, sbox_for_eq, sbox_for2_eq, updRange_length, Vector.length_toList]
  · intro k hk
    simp only [Loops.tip5_sbox_layer, sbox_for_eq, sbox_for2_eq, updRange_length, Vector.length_toList] at hk
    rw [vec_getD _ k hk, sbox_getElem s k hk]
    simp only [Loops.tip5_sbox_layer, sbox_for_eq, sbox_for2_eq, updRange_getD, updRange_length,
      Vector.length_toList, vec_getD s k hk, gen_split_and_lookup_eq]
    by_cases h4 : k < 4
    · rw [if_neg (by omega), if_pos (by omega), if_pos h4]
    · rw [if_pos (by omega), if_neg (by omega), if_neg h4]

/-! ### `mds_generated` -/

theorem raw_id (e : Nat) : Loops.bfe_raw_u64 e = e := rfl
theorem from_raw_id (e : Nat) : Loops.bfe_from_raw_u64 e = e := rfl

theorem mds_for_eq (self : List Nat) : ∀ n i lo hi,
    Loops.tip5_mds_generated_for self n i lo hi =
      (updRange (fun k _ => self.getD k 0 &&& 4294967295) n i lo, updRange (fun k _ => self.getD k 0 / 4294967296) n i hi) := by
  intro n
  induction n with
  | zero => intros; rfl
  | succ n ih => intro i lo hi; simp only [Loops.tip5_mds_generated_for, raw_id, updRange, ih]

/-- one iteration of the recombination loop: the regenerated loop body is, term for term, the loop-free translation
    `mds_recombine` of the same source lines (identity wrappers are rewritten away first: `rfl` must not unfold them) -/
theorem mds_for2_step (lo hi : List Nat) (n r : Nat) (l : List Nat) :
    Loops.tip5_mds_generated_for2 lo hi (n + 1) r l
      = Loops.tip5_mds_generated_for2 lo hi n (r + 1) (l.set r (mds_recombine (lo.getD r 0) (hi.getD r 0))) := by
  rw [Loops.tip5_mds_generated_for2, from_raw_id]
  rfl

theorem mds_for2_eq (lo hi : List Nat) : ∀ n r l,
    Loops.tip5_mds_generated_for2 lo hi n r l
      = updRange (fun k _ => mds_recombine (lo.getD k 0) (hi.getD k 0)) n r l := by
  intro n
  induction n with
  | zero => intros; rfl
  | succ n ih =>
    intro r l
    rw [mds_for2_step, ih]; rfl

theorem and_mask (w : Nat) : w &&& 4294967295 = w % 4294967296 := Nat.and_two_pow_sub_one_eq_mod w 32

/-- the limb-split loop produces the two limb vectors of the hand model -/
theorem limbs_lo (s : State) (k : Nat) (h : k < 16) :
    UInt64.ofNat ((updRange (fun k _ => s.toList.getD k 0 &&& 4294967295) 16 0 (List.replicate 16 0)).getD k 0)
      = (s.map limbLo)[k] := by
  rw [updRange_getD, if_pos (by simp; omega), vec_getD s k h, and_mask, Vector.getElem_map]; rfl

theorem limbs_hi (s : State) (k : Nat) (h : k < 16) :
    UInt64.ofNat ((updRange (fun k _ => s.toList.getD k 0 / 4294967296) 16 0 (List.replicate 16 0)).getD k 0)
      = (s.map limbHi)[k] := by
  rw [updRange_getD, if_pos (by simp; omega), vec_getD s k h, Vector.getElem_map]; rfl

theorem genFn_toList (x : Vector UInt64 16) :
    (genFn x).toList = generated_function x[0] x[1] x[2] x[3] x[4] x[5] x[6] x[7] x[8] x[9] x[10] x[11] x[12] x[13] x[14] x[15] := by
  unfold genFn
  rfl

theorem genfn_nat_lo (s : State) :
    Loops.generated_function_nat (updRange (fun k _ => s.toList.getD k 0 &&& 4294967295) 16 0 (List.replicate 16 0))
      = (genFn (s.map limbLo)).toList.map UInt64.toNat := by
  unfold Loops.generated_function_nat
  rw [limbs_lo s 0 (by decide), limbs_lo s 1 (by decide), limbs_lo s 2 (by decide), limbs_lo s 3 (by decide),
    limbs_lo s 4 (by decide), limbs_lo s 5 (by decide), limbs_lo s 6 (by decide), limbs_lo s 7 (by decide),
    limbs_lo s 8 (by decide), limbs_lo s 9 (by decide), limbs_lo s 10 (by decide), limbs_lo s 11 (by decide),
    limbs_lo s 12 (by decide), limbs_lo s 13 (by decide), limbs_lo s 14 (by decide), limbs_lo s 15 (by decide),
    genFn_toList]

theorem genfn_nat_hi (s : State) :
    Loops.generated_function_nat (updRange (fun k _ => s.toList.getD k 0 / 4294967296) 16 0 (List.replicate 16 0))
      = (genFn (s.map limbHi)).toList.map UInt64.toNat := by
  unfold Loops.generated_function_nat
  rw [limbs_hi s 0 (by decide), limbs_hi s 1 (by decide), limbs_hi s 2 (by decide), limbs_hi s 3 (by decide),
    limbs_hi s 4 (by decide), limbs_hi s 5 (by decide), limbs_hi s 6 (by decide), limbs_hi s 7 (by decide),
    limbs_hi s 8 (by decide), limbs_hi s 9 (by decide), limbs_hi s 10 (by decide), limbs_hi s 11 (by decide),
    limbs_hi s 12 (by decide), limbs_hi s 13 (by decide), limbs_hi s 14 (by decide), limbs_hi s 15 (by decide),
    genFn_toList]

theorem map_toNat_getD (v : Vector UInt64 16) (k : Nat) (h : k < 16) :
    (v.toList.map UInt64.toNat).getD k 0 = v[k].toNat := by
  rw [getD_eq _ _ (by simpa using h), List.getElem_map, Vector.getElem_toList]

/-- **`Tip5::mds_generated`** regenerated from source (limb split loop, the two calls of `generated_function`, the
    recombination loop) = hand model, every state -/
theorem gen_mds_generated_eq (s : State) : Loops.tip5_mds_generated s.toList = (mds_generated s).toList := by
  simp only [Loops.tip5_mds_generated, Nat.sub_zero, mds_for_eq, mds_for2_eq, genfn_nat_lo, genfn_nat_hi]
  apply list_ext_getD
  · simp only [updRange_length, Vector.length_toList]
  · intro k hk
    simp only [updRange_length, Vector.length_toList] at hk
    rw [updRange_getD, if_pos (by simp; omega), map_toNat_getD _ k hk, map_toNat_getD _ k hk, vec_getD _ k hk,
      mds_getElem s k hk]
    rfl
/-! ### `round`, `permutation`, `trace` -/

theorem round_for_eq (ri : Nat) : ∀ n i l,
    Loops.tip5_round_for ri n i l
      = updRange (fun k x => bfe_add x (bfe_new (ROUND_CONSTANTS.getD
          ((ri * 16 % 18446744073709551616 + k) % 18446744073709551616) 0))) n i l := by
  intro n
  induction n with
  | zero => intros; rfl
  | succ n ih => intro i l; rw [Loops.tip5_round_for, ih]; rfl

/-- **`Tip5::round`** regenerated from source = hand model, every state and every round index -/
theorem gen_round_eq (s : State) (r : Nat) (hr : r < 5) :
    Loops.tip5_round s.toList r = (round ⟨r, hr⟩ s).toList := by
  simp only [Loops.tip5_round, gen_sbox_layer_eq, gen_mds_generated_eq, Nat.sub_zero, round_for_eq]
  apply list_ext_getD
  · simp only [updRange_length, Vector.length_toList]
  · intro k hk
    simp only [updRange_length, Vector.length_toList] at hk
    rw [updRange_getD, if_pos (by simp; omega), vec_getD _ k hk, vec_getD _ k hk, round_getElem _ s k hk]
    have e : (r * 16 % 18446744073709551616 + k) % 18446744073709551616 = r * 16 + k := by omega
    rw [e]
    unfold roundConstant
    rw [getD_eq _ _ (by rw [round_constants_len]; omega)]

theorem permutation_unfold (s : State) :
    permutation s = round 4 (round 3 (round 2 (round 1 (round 0 s)))) := rfl

/-- **`Tip5::permutation`** regenerated from source = hand model, every state -/
theorem gen_permutation_eq (s : State) : Loops.tip5_permutation s.toList = (permutation s).toList := by
  simp only [Loops.tip5_permutation, Loops.tip5_permutation_for, Nat.sub_zero, Nat.zero_add, Nat.reduceAdd]
  rw [gen_round_eq s 0 (by decide), gen_round_eq _ 1 (by decide), gen_round_eq _ 2 (by decide),
    gen_round_eq _ 3 (by decide), gen_round_eq _ 4 (by decide), permutation_unfold]
  rfl

theorem trace_unfold (s : State) :
    trace s = [s, round 0 s, round 1 (round 0 s), round 2 (round 1 (round 0 s)),
      round 3 (round 2 (round 1 (round 0 s))), round 4 (round 3 (round 2 (round 1 (round 0 s))))] := rfl

/-- **`Tip5::trace`** regenerated from source: the returned array is the hand model's trace and the state left in `self`
    is the hand model's permutation, every state -/
theorem gen_trace_eq (s : State) :
    (Loops.tip5_trace s.toList).1 = (trace s).map Vector.toList ∧
    (Loops.tip5_trace s.toList).2 = (permutation s).toList := by
  simp only [Loops.tip5_trace, Loops.tip5_trace_for, Nat.sub_zero, Nat.zero_add, Nat.reduceAdd, Nat.reduceMod,
    List.replicate_succ, List.replicate_zero, List.set_cons_zero, List.set_cons_succ]
  rw [gen_round_eq s 0 (by decide), gen_round_eq _ 1 (by decide), gen_round_eq _ 2 (by decide),
    gen_round_eq _ 3 (by decide), gen_round_eq _ 4 (by decide), permutation_unfold, trace_unfold]
  exact ⟨rfl, rfl⟩
/-! ### `Tip5::new`, `hash_10` -/

/-- **`Tip5::new(domain)`** regenerated from source (the `match` on `Domain`, the `while` loop over the capacity) gives
    the hand model's start states -/
theorem gen_new_eq :
    Loops.tip5_new 0 = some varlenState.toList ∧
    Loops.tip5_new 1 = some (List.replicate 10 zero ++ List.replicate 6 one) := by decide +kernel

theorem vec10_toList {α : Type} (x : Vector α 10) :
    x.toList = [x[0], x[1], x[2], x[3], x[4], x[5], x[6], x[7], x[8], x[9]] := by
  apply List.ext_getElem
  · simp
  · intro i h1 h2
    have h3 : i < 10 := by simpa using h1
    interval_cases i <;> simp

theorem fixedLengthState_toList (input : Vector Nat 10) :
    (fixedLengthState input).toList = input.toList ++ List.replicate 6 one := by
  rw [vec16_toList, vec10_toList]
  simp [fixedLengthState, Vector.getElem_ofFn, List.replicate]

theorem take5 (t : State) : t.toList.take 5 = (Vector.ofFn fun i : Fin 5 => t[i.val]).toList := by
  rw [vec16_toList t]
  rfl

/-- **`Tip5::hash_10`** regenerated from source (`Self::new(FixedLength)`, `copy_from_slice`, `permutation`,
    `try_into().unwrap()`) = hand model, every input -/
theorem gen_hash_10_eq (input : Vector Nat 10) :
    Loops.tip5_hash_10 input.toList = some (hash_10 input).toList := by
  have hdrop : (List.replicate 10 zero ++ List.replicate 6 one).drop 10 = List.replicate 6 one := by decide +kernel
  unfold Loops.tip5_hash_10
  rw [gen_new_eq.2, Option.bind_some]
  dsimp only
  rw [hdrop, ← fixedLengthState_toList, gen_permutation_eq, take5]
  rfl
end TF.GenBridge.Tip5
