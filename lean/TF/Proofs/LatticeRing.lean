import TF.Proofs.LatticeModel
import TF.Proofs.NttHom
/-!
Ring-level theorems for the coset transforms of length 64 over a commutative ring with consistent tables, and the
naturality of the lattice transforms under homomorphisms of operation records.
-/
namespace TF.LatticeProofs
open TF.Gen TF.Model.Ntt TF.Model.Lattice TF.NttFn TF.LatFn TF.NttProofs

theorem N_eq : LATTICE_N = 2^6 := by decide

section ring
variable {R : Type} [CommRing R] (inv : R → Option R) (inv0 : R → R)

theorem ciStages_congr_range (L : Nat) (ζi : Nat → R) (f g : Nat → R) (h : ∀ i, i < 2^L → f i = g i) :
    ∀ k, k ≤ L → ∀ i, i < 2^L → ciStages L ζi k f i = ciStages L ζi k g i := by
  intro k
  induction k with
  | zero => intro _ i hi; exact h i hi
  | succ k ih =>
    intro hk i hi
    rw [ciStages, ciStages]
    have hdiv : 2 * 2^k ∣ 2^L := by
      rw [show 2 * 2^k = 2^(k+1) by rw [pow_succ]; ring]
      exact pow_dvd_pow 2 (by omega)
    exact stageCI_congr' _ (2^k) (2^L) (by positivity) hdiv _ _ _ _ (fun _ _ => rfl) (ih (by omega)) i hi

/-- hypotheses on a pair of tables of length 64 over `R` -/
structure Tables (psi psiInv : Array R) (ninv : R) : Prop where
  hT : TableOk 6 (-1) (tab (2^6) psi)
  hinv : ∀ k, k < 2^6 → psiInv.getD k 0 * psi.getD k 0 = 1
  hn : ninv * (2:R)^6 = 1

theorem tab_inv (psi psiInv : Array R) (ninv : R) (h : Tables psi psiInv ninv) :
    ∀ k, tab (2^6) psiInv k * tab (2^6) psi k = 1 := by
  intro k
  simp only [tab]
  by_cases hk : k < 2^6
  · rw [if_pos hk, if_pos hk]; exact h.hinv k hk
  · rw [if_neg hk, if_neg hk]; ring

theorem cosetNtt_size (psi : Array R) (x : Array R) (hx : x.size = 64) :
    (cosetNtt (ringOps R inv inv0) psi x).size = 64 := by
  have := (cosetNttLoop_eq inv inv0 6 psi x (by simpa using hx)).1
  simpa [cosetNtt, N_eq] using this

/-- the forward transform evaluates at the 64 points `ρ_i`, each a root of `X^64 + 1` -/
theorem cosetNtt_eval (psi psiInv : Array R) (ninv : R) (h : Tables psi psiInv ninv) (x : Array R) (hx : x.size = 64)
    (i : Nat) (hi : i < 64) :
    toFn (cosetNtt (ringOps R inv inv0) psi x) i
      = ∑ q ∈ Finset.range 64, toFn x q * (rho 6 (-1) (tab (2^6) psi) i)^q ∧
    (rho 6 (-1) (tab (2^6) psi) i)^64 = -1 := by
  have h1 := (cosetNttLoop_eq inv inv0 6 psi x (by simpa using hx)).2 i (by simpa using hi)
  have h2 := cStages_eval 6 (-1) (tab (2^6) psi) h.hT (toFn x) i (by simpa using hi)
  constructor
  · simp only [cosetNtt, N_eq]
    rw [h1, h2.1]
    norm_num
  · simpa using h2.2

/-- `coset_intt ∘ coset_ntt = id` -/
theorem cosetIntt_cosetNtt (psi psiInv : Array R) (ninv : R) (h : Tables psi psiInv ninv) (x : Array R)
    (hx : x.size = 64) :
    cosetIntt (ringOps R inv inv0) psiInv ninv (cosetNtt (ringOps R inv inv0) psi x) = x := by
  have hx' : x.size = 2^6 := by simpa using hx
  have hf := cosetNttLoop_eq inv inv0 6 psi x hx'
  have hi := cosetInttLoop_eq inv inv0 6 (by norm_num) psiInv _ hf.1
  apply array_ext_toFn _ x 64
  · simp only [cosetIntt, cosetNtt, N_eq, Array.size_map]
    simpa using hi.1
  · exact hx
  · intro i hi'
    have hi6 : i < 2^6 := by simpa using hi'
    simp only [cosetIntt, cosetNtt, N_eq]
    rw [toFn_map_scale inv inv0 _ _ i (by rw [hi.1]; exact hi6), hi.2 i hi6,
      ciStages_congr_range 6 _ _ _ hf.2 6 (le_refl _) i hi6,
      ciStages_full 6 _ _ (tab_inv psi psiInv ninv h) (toFn x) i, ← mul_assoc, h.hn, one_mul]

/-- coefficient-wise combination of two arrays of length 64 -/
def zipR (f : R → R → R) (a b : Array R) : Array R := Array.ofFn (n := 64) fun i => f (toFn a i.val) (toFn b i.val)

theorem toFn_ofFn64 (g : Nat → R) (i : Nat) (hi : i < 64) : toFn (Array.ofFn (n := 64) fun k => g k.val) i = g i := by
  simp [toFn, Array.getD_eq_getD_getElem?, Array.getElem?_ofFn, hi]

/-- **ring product = negacyclic convolution** over `R` -/
theorem ringMul_ring (psi psiInv : Array R) (ninv : R) (h : Tables psi psiInv ninv) (a b : Array R)
    (ha : a.size = 64) (hb : b.size = 64) :
    cosetIntt (ringOps R inv inv0) psiInv ninv
        (zipR (· * ·) (cosetNtt (ringOps R inv inv0) psi a) (cosetNtt (ringOps R inv inv0) psi b))
      = Array.ofFn (n := 64) fun k => negaConv 64 (toFn a) (toFn b) k.val := by
  set c : Array R := Array.ofFn (n := 64) fun k => negaConv 64 (toFn a) (toFn b) k.val with hc
  have hcs : c.size = 64 := by simp [hc]
  have hprod : zipR (· * ·) (cosetNtt (ringOps R inv inv0) psi a) (cosetNtt (ringOps R inv inv0) psi b)
      = cosetNtt (ringOps R inv inv0) psi c := by
    apply array_ext_toFn _ _ 64 (by simp [zipR]) (cosetNtt_size inv inv0 psi c hcs)
    intro i hi
    rw [zipR, toFn_ofFn64 (fun k => toFn (cosetNtt (ringOps R inv inv0) psi a) k * toFn (cosetNtt (ringOps R inv inv0) psi b) k) i hi]
    obtain ⟨ea, hρ⟩ := cosetNtt_eval inv inv0 psi psiInv ninv h a ha i hi
    obtain ⟨eb, _⟩ := cosetNtt_eval inv inv0 psi psiInv ninv h b hb i hi
    obtain ⟨ec, _⟩ := cosetNtt_eval inv inv0 psi psiInv ninv h c hcs i hi
    rw [ea, eb, ec, ← negaConv_eval 64 _ hρ]
    apply Finset.sum_congr rfl
    intro q hq
    rw [hc, toFn_ofFn64 (fun k => negaConv 64 (toFn a) (toFn b) k) q (Finset.mem_range.1 hq)]
  rw [hprod]
  exact cosetIntt_cosetNtt inv inv0 psi psiInv ninv h c hcs

end ring

/-! ### naturality -/
section hom
variable {σ α σ' α' : Type} {o : Ops σ α} {o' : Ops σ' α'} {fs : σ → σ'} {fa : α → α'}

theorem cosetNttStage_map (h : OpsHom o o' fs fa) (m t : Nat) (psi : Array σ) (x : Array α) :
    (cosetNttStage o m t psi x).map fa = cosetNttStage o' m t (psi.map fs) (x.map fa) := by
  apply Array.ext (by simp [cosetNttStage])
  intro i h1 h2
  simp only [cosetNttStage, Array.getElem_map, Array.getElem_ofFn, Array.size_map]
  rw [← h.zero, ← h.szero, getD_map, getD_map, getD_map, getD_map, ← h.scale, ← h.scale, ← h.add, ← h.sub]
  split <;> rfl

theorem cosetNttLoop_map (h : OpsHom o o' fs fa) (psi : Array σ) (n : Nat) : ∀ f m t (x : Array α),
    (cosetNttLoop o psi n f m t x).map fa = cosetNttLoop o' (psi.map fs) n f m t (x.map fa) := by
  intro f
  induction f with
  | zero => intro m t x; rfl
  | succ f ih =>
    intro m t x
    simp only [cosetNttLoop]
    split
    · rw [ih, cosetNttStage_map h]
    · rfl

theorem cosetNtt_map (h : OpsHom o o' fs fa) (psi : Array σ) (x : Array α) :
    (cosetNtt o psi x).map fa = cosetNtt o' (psi.map fs) (x.map fa) := by
  simp only [cosetNtt, cosetNttLoop_map h]

theorem cosetInttStage_map (h : OpsHom o o' fs fa) (hh t : Nat) (psiInv : Array σ) (x : Array α) :
    (cosetInttStage o hh t psiInv x).map fa = cosetInttStage o' hh t (psiInv.map fs) (x.map fa) := by
  apply Array.ext (by simp [cosetInttStage])
  intro i h1 h2
  simp only [cosetInttStage, Array.getElem_map, Array.getElem_ofFn, Array.size_map]
  rw [← h.zero, ← h.szero, getD_map, getD_map, getD_map, getD_map, ← h.sub, ← h.scale, ← h.add]
  split <;> rfl

theorem cosetInttLoop_map (h : OpsHom o o' fs fa) (psiInv : Array σ) : ∀ f t hh (x : Array α),
    (cosetInttLoop o psiInv f t hh x).map fa = cosetInttLoop o' (psiInv.map fs) f t hh (x.map fa) := by
  intro f
  induction f with
  | zero => intro t hh x; rfl
  | succ f ih => intro t hh x; simp only [cosetInttLoop]; rw [ih, cosetInttStage_map h]

theorem cosetIntt_map (h : OpsHom o o' fs fa) (psiInv : Array σ) (ninv : σ) (x : Array α) :
    (cosetIntt o psiInv ninv x).map fa = cosetIntt o' (psiInv.map fs) (fs ninv) (x.map fa) := by
  simp only [cosetIntt, ← cosetInttLoop_map h, Array.map_map]
  congr 1
  funext a; simp [h.scale]

end hom
end TF.LatticeProofs
