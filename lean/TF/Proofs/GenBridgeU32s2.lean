import TF.Gen.U32sLoops2
import TF.Model.U32s
import TF.Proofs.U32s
import TF.Proofs.GenBridgeU32s

/-!
# Bridge, part 2: `get_bit`, `set_bit`, `Ord`, `is_zero`/`zero`/`one`, `From<u32>`, `From<BigUint>`, `TryFrom<u64/u128>`,
# `rem_div` and `Mul` of `amount/u32s.rs` *as regenerated from source* = the hand-written model (C19)

`TF/Gen/U32sLoops2.lean` is written by `tools/rs2lean_ext.py` from the Rust text on every run; conventions as in
`TF/Proofs/GenBridgeU32s.lean` (value of a build that does not panic + `_ok` twin = "no `assert!` fails, no index out of
range, no plain arithmetic overflows").  `hN : N < 2^59` is what makes the `usize` arithmetic `32 * N` exact (a `[u32; N]`
has at most `isize::MAX / 4 < 2^61` elements).
-/
namespace TF.GenBridge.U32s2
open TF TF.Gen TF.U32s

theorem getbit_limb (x e : Nat) (he : e < 32) :
    ((x &&& (1 * 2 ^ (e % 32) % 4294967296)) != 0) = decide (x / 2 ^ e % 2 = 1) := by
  have h1 : e % 32 = e := Nat.mod_eq_of_lt he
  have h2 : (2:Nat) ^ e < 4294967296 := by
    have : (2:Nat) ^ e < 2 ^ 32 := Nat.pow_lt_pow_right (by omega) he
    simpa using this
  have hand : x &&& 2 ^ e = if x.testBit e then 2 ^ e else 0 := by
    apply Nat.eq_of_testBit_eq
    intro j
    rw [Nat.testBit_and, Nat.testBit_two_pow]
    by_cases h : e = j
    · subst h; cases hx : x.testBit e <;> simp
    · cases hx : x.testBit e <;> simp [h]
  rw [h1, Nat.one_mul, Nat.mod_eq_of_lt h2, hand, ← Nat.testBit_eq_decide_div_mod_eq]
  have hp : (2:Nat) ^ e ≠ 0 := Nat.ne_of_gt (Nat.two_pow_pos e)
  cases x.testBit e <;> simp

theorem setbit_limb (x e : Nat) (v : Bool) (hx : x < 4294967296) (he : e < 32) :
    ((x &&& (4294967295 - (1 * 2 ^ (e % 32) % 4294967296))) ||| ((if v then 1 else 0) * 2 ^ (e % 32) % 4294967296))
      = x - (x / 2 ^ e % 2) * 2 ^ e + (if v then 2 ^ e else 0) := by
  have h1 : e % 32 = e := Nat.mod_eq_of_lt he
  have h2 : (2:Nat) ^ e < 4294967296 := by
    have : (2:Nat) ^ e < 2 ^ 32 := Nat.pow_lt_pow_right (by omega) he
    simpa using this
  have hc : (if v then 1 else 0) * 2 ^ e % 4294967296 = (if v then 1 else 0) * 2 ^ e := by
    apply Nat.mod_eq_of_lt; cases v <;> simp <;> omega
  rw [h1, Nat.one_mul, Nat.mod_eq_of_lt h2, hc]
  -- right-hand side as high part, new bit, low part
  have hdec : x - (x / 2 ^ e % 2) * 2 ^ e + (if v then 2 ^ e else 0)
      = 2 ^ (e + 1) * (x / 2 ^ (e + 1)) + (2 ^ e * (if v then 1 else 0) + x % 2 ^ e) := by
    have a1 := Nat.div_add_mod x (2 ^ (e + 1))
    have a2 : x % 2 ^ (e + 1) = x % 2 ^ e + 2 ^ e * (x / 2 ^ e % 2) := Nat.mod_pow_succ
    have a3 : (x / 2 ^ e % 2) * 2 ^ e = 2 ^ e * (x / 2 ^ e % 2) := Nat.mul_comm _ _
    cases v <;> simp only [Bool.false_eq_true, if_false, if_true] <;> omega
  rw [hdec]
  apply Nat.eq_of_testBit_eq
  intro j
  have hl : x % 2 ^ e < 2 ^ e := Nat.mod_lt _ (Nat.two_pow_pos e)
  have hm : 2 ^ e * (if v then 1 else 0) + x % 2 ^ e < 2 ^ (e + 1) := by
    rw [Nat.pow_succ]; cases v <;> simp <;> omega
  have hmask : (4294967295 : Nat) - 2 ^ e = 2 ^ 32 - (2 ^ e + 1) := by omega
  rw [Nat.testBit_or, Nat.testBit_and, hmask, Nat.testBit_two_pow_sub_succ (by simpa using h2),
    Nat.testBit_two_pow, Nat.testBit_two_pow_mul_add _ hm, Nat.testBit_two_pow_mul_add _ hl,
    Nat.testBit_mod_two_pow, Nat.testBit_div_two_pow, Nat.mul_comm _ (2 ^ e), Nat.testBit_two_pow_mul]
  by_cases h32 : j < 32
  · by_cases hje : j < e
    · have : ¬ e ≤ j := by omega
      have : e ≠ j := by omega
      simp [*]; omega
    · by_cases hje2 : j = e
      · subst hje2; cases v <;> simp [h32]
      · have h5 : ¬ j < e + 1 := by omega
        have h6 : j - (e + 1) + (e + 1) = j := by omega
        have h7 : e ≤ j := by omega
        have h8 : e ≠ j := by omega
        have h9 : (if v then 1 else 0 : Nat).testBit (j - e) = false := by
          have : j - e = (j - e - 1) + 1 := by omega
          rw [this]; cases v <;> simp [Nat.testBit_succ]
        simp [*]
  · have hxj : x.testBit j = false := Nat.testBit_lt_two_pow (Nat.lt_of_lt_of_le hx (by
      have : (2:Nat)^32 ≤ 2^j := Nat.pow_le_pow_right (by omega) (by omega)
      simpa using this))
    have h5 : ¬ j < e + 1 := by omega
    have h5' : ¬ j < e := by omega
    have h6 : j - (e + 1) + (e + 1) = j := by omega
    have h7 : e ≤ j := by omega
    have h9 : (if v then 1 else 0 : Nat).testBit (j - e) = false := by
      have : j - e = (j - e - 1) + 1 := by omega
      rw [this]; cases v <;> simp [Nat.testBit_succ]
    simp [*]

/-- the hand model's list walk, in closed form -/
theorem getBit_closed : ∀ (a : List Nat) (i : Nat),
    getBit a i = if i < 32 * a.length then some (decide (a.getD (i / 32) 0 / 2 ^ (i % 32) % 2 = 1)) else none := by
  intro a
  induction a with
  | nil => intro i; simp [getBit]
  | cons x xs ih =>
    intro i
    by_cases h : i < 32
    · have h1 : i / 32 = 0 := by omega
      have h2 : i % 32 = i := by omega
      simp [getBit, h, h1, h2]; omega
    · have h1 : i / 32 = (i - 32) / 32 + 1 := by omega
      have h2 : i % 32 = (i - 32) % 32 := by omega
      have h3 : (i < 32 * (x :: xs).length) ↔ (i - 32 < 32 * xs.length) := by simp; omega
      simp only [getBit, h, if_false, ih, h1, h2, h3, List.getD_cons_succ]

theorem setBit_closed : ∀ (a : List Nat) (i : Nat) (v : Bool),
    setBit a i v = if i < 32 * a.length then
      some (a.set (i / 32) (a.getD (i / 32) 0 - (a.getD (i / 32) 0 / 2 ^ (i % 32) % 2) * 2 ^ (i % 32)
        + (if v then 2 ^ (i % 32) else 0))) else none := by
  intro a
  induction a with
  | nil => intro i v; simp [setBit]
  | cons x xs ih =>
    intro i v
    by_cases h : i < 32
    · have h1 : i / 32 = 0 := by omega
      have h2 : i % 32 = i := by omega
      simp [setBit, h, h1, h2]; omega
    · have h1 : i / 32 = (i - 32) / 32 + 1 := by omega
      have h2 : i % 32 = (i - 32) % 32 := by omega
      have h3 : (i < 32 * (x :: xs).length) ↔ (i - 32 < 32 * xs.length) := by simp; omega
      simp only [setBit, h, if_false, ih, h1, h2, h3, List.getD_cons_succ, List.set_cons_succ]
      split <;> simp

/-- **`U32s::get_bit`** regenerated from source = hand model (`none` = the `assert!`/index panic) -/
theorem gen_get_bit_eq (N : Nat) (a : List Nat) (i : Nat) (ha : a.length = N) (hN : N < 576460752303423488) :
    (if Loops.u32s_get_bit_ok N a i then some (Loops.u32s_get_bit N a i) else none) = getBit a i := by
  rw [getBit_closed, ha]
  have hm : (32 * N) % 18446744073709551616 = 32 * N := Nat.mod_eq_of_lt (by omega)
  have h32 : 32 * N < 18446744073709551616 := by omega
  by_cases h : i < 32 * N
  · have h1 : i / 32 < a.length := by omega
    have h2 : i % 32 < 32 := by omega
    simp only [Loops.u32s_get_bit_ok, Loops.u32s_get_bit, hm, h, h1, h2, h32, decide_true, if_true, Bool.and_self,
      Bool.true_and, getbit_limb _ _ h2]
    simp
  · simp [Loops.u32s_get_bit_ok, hm, h]

/-- **`U32s::set_bit`** regenerated from source = hand model, for limbs below `2^32` -/
theorem gen_set_bit_eq (N : Nat) (a : List Nat) (i : Nat) (v : Bool) (ha : a.length = N)
    (hw : ∀ x ∈ a, x < 4294967296) (hN : N < 576460752303423488) :
    (if Loops.u32s_set_bit_ok N a i v then some (Loops.u32s_set_bit N a i v) else none) = setBit a i v := by
  rw [setBit_closed, ha]
  have hm : (32 * N) % 18446744073709551616 = 32 * N := Nat.mod_eq_of_lt (by omega)
  have h32 : 32 * N < 18446744073709551616 := by omega
  by_cases h : i < 32 * N
  · have h1 : i / 32 < a.length := by omega
    have h2 : i % 32 < 32 := by omega
    have hx : a.getD (i / 32) 0 < 4294967296 := by
      rw [TF.GenBridge.U32s.getD_eq a _ h1]; exact hw _ (List.getElem_mem _)
    simp only [Loops.u32s_set_bit_ok, Loops.u32s_set_bit, hm, h, h1, h2, h32, decide_true, if_true, Bool.and_self,
      Bool.true_and, setbit_limb _ _ v hx h2]
    simp
  · simp [Loops.u32s_set_bit_ok, hm, h]


/-! ### `Ord`, `is_zero`, `zero`, `one`, `From<u32>` -/

theorem iter_cmp_eq_lexCmp : ∀ l1 l2 : List Nat, TF.RustStd.iter_cmp l1 l2 = lexCmp l1 l2
  | [], [] => rfl
  | [], _ :: _ => rfl
  | _ :: _, [] => rfl
  | x :: xs, y :: ys => by
    cases hc : compare x y <;> simp [TF.RustStd.iter_cmp, lexCmp, hc, iter_cmp_eq_lexCmp xs ys]

/-- **`Ord::cmp`** (`self.values.iter().rev().cmp(other.values.iter().rev())`) regenerated from source = hand model -/
theorem gen_cmp_eq (N : Nat) (a b : List Nat) : Loops.u32s_cmp N a b = U32s.cmp a b := by
  simp only [Loops.u32s_cmp, U32s.cmp, iter_cmp_eq_lexCmp]

/-- `>=` as Rust evaluates it (provided method of `PartialOrd` over the translated `partial_cmp`) = the model's `ge` -/
theorem gen_ge_eq (N : Nat) (a b : List Nat) :
    TF.RustStd.ord_ge (Loops.u32s_partial_cmp N a b) = ge a b := by
  simp only [Loops.u32s_partial_cmp, gen_cmp_eq, ge]
  cases U32s.cmp a b <;> rfl

theorem gen_is_zero_eq (N : Nat) (a : List Nat) : Loops.u32s_is_zero N a = isZero a := rfl

theorem gen_zero_eq (N : Nat) : Loops.u32s_zero N = zero N := rfl

/-- **`One::one`**: panics (index out of bounds) exactly for `N = 0` -/
theorem gen_one_eq (N : Nat) : (if Loops.u32s_one_ok N then some (Loops.u32s_one N) else none) = one N := by
  cases N with
  | zero => rfl
  | succ n => simp [Loops.u32s_one_ok, Loops.u32s_one, one, fromU32, zero, List.replicate_succ]

/-- **`From<u32>`** -/
theorem gen_from_u32_eq (N v : Nat) :
    (if Loops.u32s_from_u32_ok N v then some (Loops.u32s_from_u32 N v) else none) = fromU32 N v := by
  cases N with
  | zero => rfl
  | succ n => simp [Loops.u32s_from_u32_ok, Loops.u32s_from_u32, Loops.u32s_zero, Loops.u32s_zero_ok, fromU32, zero,
      List.replicate_succ]

/-! ### `From<BigUint>` and the `TryFrom` conversions -/

theorem from_biguint_for_eq (N : Nat) : ∀ n i rem ret, ret.length = i + n →
    Loops.u32s_from_biguint_for N n i rem ret = (rem / W ^ n, ret.take i ++ ofNat n rem) ∧
    Loops.u32s_from_biguint_for_ok N n i rem ret = true := by
  intro n
  induction n with
  | zero =>
    intro i rem ret hl
    have er : ret.take i = ret := List.take_of_length_le (by omega)
    simp [Loops.u32s_from_biguint_for, Loops.u32s_from_biguint_for_ok, ofNat, er]
  | succ n ih =>
    intro i rem ret hl
    have h1 : i < ret.length := by omega
    have h2 : rem % 4294967296 < 4294967296 := Nat.mod_lt _ (by omega)
    obtain ⟨e1, e2⟩ := ih (i + 1) (rem / 4294967296) (ret.set i (rem % 4294967296)) (by rw [List.length_set]; omega)
    constructor
    · simp only [Loops.u32s_from_biguint_for, e1, ofNat, W]
      rw [TF.GenBridge.U32s.take_set_succ ret i _ h1, List.append_assoc, List.singleton_append, Nat.pow_succ,
        Nat.div_div_eq_div_mul, Nat.mul_comm]
    · simp only [Loops.u32s_from_biguint_for_ok, e2, h1, h2, decide_true, Bool.and_self, Bool.true_and]
      rfl

/-- **`From<BigUint>`**: never panics, takes the `N` low limbs -/
theorem gen_from_biguint_eq (N v : Nat) :
    Loops.u32s_from_biguint_ok N v = true ∧ Loops.u32s_from_biguint N v = fromBig N v := by
  obtain ⟨e1, e2⟩ := from_biguint_for_eq N N 0 v (Loops.u32s_zero N) (by simp [Loops.u32s_zero])
  constructor
  · simp only [Loops.u32s_from_biguint_ok, Loops.u32s_zero_ok, Nat.sub_zero, e2, Bool.and_self]
  · simp only [Loops.u32s_from_biguint, Nat.sub_zero, e1, List.take_zero, List.nil_append, fromBig]

/-- `Result<Self, _>` as the hand model's `Option` -/
def toOpt : Except String (List Nat) → Option (List Nat)
  | .ok v => some v
  | .error _ => none

/-- **`TryFrom<u64>`** regenerated from source (the `match N` arms as they are now) = hand model; never panics -/
theorem gen_try_from_u64_eq (N v : Nat) :
    Loops.u32s_try_from_u64_ok N v = true ∧ toOpt (Loops.u32s_try_from_u64 N v) = tryFromU64 N v := by
  obtain ⟨k, e⟩ := gen_from_biguint_eq N v
  constructor
  · simp only [Loops.u32s_try_from_u64_ok, k]; split <;> [rfl; (split <;> rfl)]
  · simp only [Loops.u32s_try_from_u64, e]
    match N with
    | 0 => by_cases h : v = 0 <;> simp [tryFromU64, toOpt, h]
    | 1 => by_cases h : v > 4294967295 <;> simp [tryFromU64, toOpt, h, U32MAX]
    | n + 2 => simp [tryFromU64, toOpt]

/-- **`TryFrom<u128>`** -/
theorem gen_try_from_u128_eq (N v : Nat) :
    Loops.u32s_try_from_u128_ok N v = true ∧ toOpt (Loops.u32s_try_from_u128 N v) = tryFromU128 N v := by
  obtain ⟨k, e⟩ := gen_from_biguint_eq N v
  constructor
  · simp only [Loops.u32s_try_from_u128_ok, k]; repeat (first | rfl | split)
  · simp only [Loops.u32s_try_from_u128, e]
    match N with
    | 0 => by_cases h : v = 0 <;> simp [tryFromU128, toOpt, h]
    | 1 => by_cases h : v > 4294967295 <;> simp [tryFromU128, toOpt, h, U32MAX]
    | 2 => by_cases h : v > 18446744073709551615 <;> simp [tryFromU128, toOpt, h]
    | 3 => by_cases h : v ≥ 79228162514264337593543950336 <;> simp [tryFromU128, toOpt, h]
    | n + 4 => simp [tryFromU128, toOpt]


/-! ### `rem_div` -/

theorem ite_split {α : Type} {ok : Bool} {v : α} {m : Option α} (h : (if ok then some v else none) = m) :
    (ok = true ∧ m = some v) ∨ (ok = false ∧ m = none) := by
  cases ok <;> simp_all

theorem mulTwo_wf {N : Nat} {r r1 : List Nat} (hr : WF N r) (h : mulTwo r = some r1) : WF N r1 := by
  rw [mulTwo_eq_norm hr] at h; exact (norm_some_iff.mp h).2.1

theorem sub_wf {N : Nat} {a b r : List Nat} (ha : WF N a) (hb : WF N b) (h : sub a b = some r) : WF N r := by
  rw [sub_eq ha hb] at h
  split at h
  · cases h; exact WF_ofNat _ _
  · cases h

theorem setBit_wf {N : Nat} {a r : List Nat} {i : Nat} {v : Bool} (ha : WF N a) (hi : i < 32 * N)
    (h : setBit a i v = some r) : WF N r := by
  obtain ⟨r', e, w, _⟩ := setBit_spec ha hi v
  rw [e] at h; cases h; exact w

theorem rem_div_for_eq (N : Nat) (a d : List Nat) (ha : WF N a) (hd : WF N d) (hN : N < 576460752303423488) :
    ∀ n q r, n ≤ 32 * N → WF N q → WF N r →
    (if Loops.u32s_rem_div_for_ok N a d 0 n q r then some (Loops.u32s_rem_div_for N a d 0 n q r) else none)
      = remDivLoop a d n q r := by
  intro n
  induction n with
  | zero => intro q r _ _ _; rfl
  | succ n ih =>
    intro q r hn hq hr
    have hNpos : 0 < 32 * N := by omega
    simp only [Loops.u32s_rem_div_for, Loops.u32s_rem_div_for_ok, Nat.zero_add, remDivLoop, remDivStep, gen_ge_eq,
      Loops.u32s_partial_cmp_ok, Loops.u32s_cmp_ok, Bool.true_and]
    rcases ite_split (TF.GenBridge.U32s.gen_mul_two_eq N r hr.1) with ⟨k1, m1⟩ | ⟨k1, m1⟩
    swap
    · simp [k1, m1]
    have w1 := mulTwo_wf hr m1
    rw [k1, m1]
    generalize Loops.u32s_mul_two N r = r1 at *
    rcases ite_split (gen_get_bit_eq N a n ha.1 hN) with ⟨k2, m2⟩ | ⟨k2, m2⟩
    swap
    · simp [k2, m2]
    rw [k2, m2]
    generalize Loops.u32s_get_bit N a n = bit at *
    simp only [Bool.true_and, Option.bind_some]
    rcases ite_split (gen_set_bit_eq N r1 0 bit w1.1 w1.2 hN) with ⟨k3, m3⟩ | ⟨k3, m3⟩
    swap
    · simp [k3, m3]
    have w3 := setBit_wf w1 hNpos m3
    rw [k3, m3]
    generalize Loops.u32s_set_bit N r1 0 bit = r2 at *
    simp only [Bool.true_and, Option.bind_some]
    by_cases hge : ge r2 d = true
    · simp only [hge, if_true]
      rcases ite_split (TF.GenBridge.U32s.gen_sub_eq N r2 d w3.1 hd.1) with ⟨k4, m4⟩ | ⟨k4, m4⟩
      swap
      · simp [k4, m4]
      have w4 := sub_wf w3 hd m4
      rw [k4, m4]
      generalize Loops.u32s_sub N r2 d = r3 at *
      rcases ite_split (gen_set_bit_eq N q n true hq.1 hq.2 hN) with ⟨k5, m5⟩ | ⟨k5, m5⟩
      swap
      · simp [k5, m5]
      have w5 := setBit_wf hq (by omega : n < 32 * N) m5
      rw [k5, m5]
      generalize Loops.u32s_set_bit N q n true = q1 at *
      simp only [Bool.true_and, Option.bind_some]
      exact ih q1 r3 (by omega) w5 w4
    · simp only [hge, Bool.false_eq_true, if_false, Bool.true_and, Option.bind_some]
      exact ih q r2 (by omega) hq w3

/-- **`U32s::rem_div`** (bitwise long division calling the translated `mul_two`, `get_bit`, `set_bit`, `>=`, `-`)
    regenerated from source = hand model, for all well-formed operands -/
theorem gen_rem_div_eq (N : Nat) (a d : List Nat) (ha : WF N a) (hd : WF N d) (hN : N < 576460752303423488) :
    (if Loops.u32s_rem_div_ok N a d then some (Loops.u32s_rem_div N a d) else none) = remDiv a d := by
  have hz := WF_zero N
  have h := rem_div_for_eq N a d ha hd hN (32 * N) (zero N) (zero N) (Nat.le_refl _) hz hz
  have hm : N * 32 % 18446744073709551616 = 32 * N := by omega
  have h32 : N * 32 < 18446744073709551616 := by omega
  simp only [Loops.u32s_rem_div_ok, Loops.u32s_rem_div, remDiv, Loops.u32s_is_zero_ok, gen_is_zero_eq, Bool.true_and,
    hm, h32, decide_true, Nat.sub_zero, ha.1]
  by_cases hzd : isZero d = true
  · simp [hzd]
  · simp only [hzd, Bool.not_false, Bool.true_and, if_false, Bool.false_eq_true]
    rw [Nat.mul_comm N 32, ← h]
    rfl
end TF.GenBridge.U32s2
