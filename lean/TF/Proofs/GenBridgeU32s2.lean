import TF.Gen.U32sLoops2
import TF.Model.U32s
import TF.Proofs.U32s
import TF.Proofs.GenBridgeU32s

/-!
# Bridge, part 2: `get_bit`, `set_bit`, `Ord`, `is_zero`/`zero`/`one`, `From<u32>`, `From<BigUint>`, `TryFrom<u64/u128>`,
# `rem_div` and `Mul` of `amount/u32s.rs` *as regenerated from source* = the hand-written model (C19)

`TF/Gen/U32sLoops2.lean` is written by `tools/rs2lean_ext.py` from the Rust text on every run; conventions as in
`TF/Proofs/GenBridgeU32s.lean` (value of a build that does not panic + `_ok` twin = "no `assert!` fails, no index out of
range, no plain arithmetic overflows").  `hN : N < 2^59` is what makes the `usize` arithmetic `32 * N` exact (a `[u32; N]`
has at most `isize::MAX / 4 < 2^61` elements).
-/
set_option linter.unusedSimpArgs false
set_option linter.unnecessarySeqFocus false

namespace TF.GenBridge.U32s2
open TF TF.Gen TF.U32s

theorem getbit_limb (x e : Nat) (he : e < 32) :
    ((x &&& (1 * 2 ^ (e % 32) % 4294967296)) != 0) = decide (x / 2 ^ e % 2 = 1) := by
  have h1 : e % 32 = e := Nat.mod_eq_of_lt he
  have h2 : (2:Nat) ^ e < 4294967296 := by
    have : (2:Nat) ^ e < 2 ^ 32 := Nat.pow_lt_pow_right (by omega) he
    simpa using this
  have hand : x &&& 2 ^ e = if x.testBit e then 2 ^ e else 0 := by
    apply Nat.eq_of_testBit_eq
    intro j
    rw [Nat.testBit_and, Nat.testBit_two_pow]
    by_cases h : e = j
    · subst h; cases hx : x.testBit e <;> simp
    · cases hx : x.testBit e <;> simp [h]
  rw [h1, Nat.one_mul, Nat.mod_eq_of_lt h2, hand, ← Nat.testBit_eq_decide_div_mod_eq]
  have hp : (2:Nat) ^ e ≠ 0 := Nat.ne_of_gt (Nat.two_pow_pos e)
  cases x.testBit e <;> simp

theorem setbit_limb (x e : Nat) (v : Bool) (hx : x < 4294967296) (he : e < 32) :
    ((x &&& (4294967295 - (1 * 2 ^ (e % 32) % 4294967296))) ||| ((if v then 1 else 0) * 2 ^ (e % 32) % 4294967296))
      = x - (x / 2 ^ e % 2) * 2 ^ e + (if v then 2 ^ e else 0) := by
  have h1 : e % 32 = e := Nat.mod_eq_of_lt he
  have h2 : (2:Nat) ^ e < 4294967296 := by
    have : (2:Nat) ^ e < 2 ^ 32 := Nat.pow_lt_pow_right (by omega) he
    simpa using this
  have hc : (if v then 1 else 0) * 2 ^ e % 4294967296 = (if v then 1 else 0) * 2 ^ e := by
    apply Nat.mod_eq_of_lt; cases v <;> simp <;> omega
  rw [h1, Nat.one_mul, Nat.mod_eq_of_lt h2, hc]
  -- right-hand side as high part, new bit, low part
  have hdec : x - (x / 2 ^ e % 2) * 2 ^ e + (if v then 2 ^ e else 0)
      = 2 ^ (e + 1) * (x / 2 ^ (e + 1)) + (2 ^ e * (if v then 1 else 0) + x % 2 ^ e) := by
    have a1 := Nat.div_add_mod x (2 ^ (e + 1))
    have a2 : x % 2 ^ (e + 1) = x % 2 ^ e + 2 ^ e * (x / 2 ^ e % 2) := Nat.mod_pow_succ
    have a3 : (x / 2 ^ e % 2) * 2 ^ e = 2 ^ e * (x / 2 ^ e % 2) := Nat.mul_comm _ _
    cases v <;> simp only [Bool.false_eq_true, if_false, if_true] <;> omega
  rw [hdec]
  apply Nat.eq_of_testBit_eq
  intro j
  have hl : x % 2 ^ e < 2 ^ e := Nat.mod_lt _ (Nat.two_pow_pos e)
  have hm : 2 ^ e * (if v then 1 else 0) + x % 2 ^ e < 2 ^ (e + 1) := by
    rw [Nat.pow_succ]; cases v <;> simp <;> omega
  have hmask : (4294967295 : Nat) - 2 ^ e = 2 ^ 32 - (2 ^ e + 1) := by omega
  rw [Nat.testBit_or, Nat.testBit_and, hmask, Nat.testBit_two_pow_sub_succ (by simpa using h2),
    Nat.testBit_two_pow, Nat.testBit_two_pow_mul_add _ hm, Nat.testBit_two_pow_mul_add _ hl,
    Nat.testBit_mod_two_pow, Nat.testBit_div_two_pow, Nat.mul_comm _ (2 ^ e), Nat.testBit_two_pow_mul]
  by_cases h32 : j < 32
  · by_cases hje : j < e
    · have : ¬ e ≤ j := by omega
      have : e ≠ j := by omega
      simp [*]; omega
    · by_cases hje2 : j = e
      · subst hje2; cases v <;> simp [h32]
      · have h5 : ¬ j < e + 1 := by omega
        have h6 : j - (e + 1) + (e + 1) = j := by omega
        have h7 : e ≤ j := by omega
        have h8 : e ≠ j := by omega
        have h9 : (if v then 1 else 0 : Nat).testBit (j - e) = false := by
          have : j - e = (j - e - 1) + 1 := by omega
          rw [this]; cases v <;> simp [Nat.testBit_succ]
        simp [*]
  · have hxj : x.testBit j = false := Nat.testBit_lt_two_pow (Nat.lt_of_lt_of_le hx (by
      have : (2:Nat)^32 ≤ 2^j := Nat.pow_le_pow_right (by omega) (by omega)
      simpa using this))
    have h5 : ¬ j < e + 1 := by omega
    have h5' : ¬ j < e := by omega
    have h6 : j - (e + 1) + (e + 1) = j := by omega
    have h7 : e ≤ j := by omega
    have h9 : (if v then 1 else 0 : Nat).testBit (j - e) = false := by
      have : j - e = (j - e - 1) + 1 := by omega
      rw [this]; cases v <;> simp [Nat.testBit_succ]
    simp [*]

/-- the hand model's list walk, in closed form -/
theorem getBit_closed : ∀ (a : List Nat) (i : Nat),
    getBit a i = if i < 32 * a.length then some (decide (a.getD (i / 32) 0 / 2 ^ (i % 32) % 2 = 1)) else none := by
  intro a
  induction a with
  | nil => intro i; simp [getBit]
  | cons x xs ih =>
    intro i
    by_cases h : i < 32
    · have h1 : i / 32 = 0 := by omega
      have h2 : i % 32 = i := by omega
      simp [getBit, h, h1, h2]; omega
    · have h1 : i / 32 = (i - 32) / 32 + 1 := by omega
      have h2 : i % 32 = (i - 32) % 32 := by omega
      have h3 : (i < 32 * (x :: xs).length) ↔ (i - 32 < 32 * xs.length) := by simp; omega
      simp only [getBit, h, if_false, ih, h1, h2, h3, List.getD_cons_succ]

theorem setBit_closed : ∀ (a : List Nat) (i : Nat) (v : Bool),
    setBit a i v = if i < 32 * a.length then
      some (a.set (i / 32) (a.getD (i / 32) 0 - (a.getD (i / 32) 0 / 2 ^ (i % 32) % 2) * 2 ^ (i % 32)
        + (if v then 2 ^ (i % 32) else 0))) else none := by
  intro a
  induction a with
  | nil => intro i v; simp [setBit]
  | cons x xs ih =>
    intro i v
    by_cases h : i < 32
    · have h1 : i / 32 = 0 := by omega
      have h2 : i % 32 = i := by omega
      simp [setBit, h, h1, h2]; omega
    · have h1 : i / 32 = (i - 32) / 32 + 1 := by omega
      have h2 : i % 32 = (i - 32) % 32 := by omega
      have h3 : (i < 32 * (x :: xs).length) ↔ (i - 32 < 32 * xs.length) := by simp; omega
      simp only [setBit, h, if_false, ih, h1, h2, h3, List.getD_cons_succ, List.set_cons_succ]
      split <;> simp

/-- **`U32s::get_bit`** regenerated from source = hand model (`none` = the `assert!`/index panic) -/
theorem gen_get_bit_eq (N : Nat) (a : List Nat) (i : Nat) (ha : a.length = N) (hN : N < 576460752303423488) :
    (if Loops.u32s_get_bit_ok N a i then some (Loops.u32s_get_bit N a i) else none) = getBit a i := by
  rw [getBit_closed, ha]
  have hm : (32 * N) % 18446744073709551616 = 32 * N := Nat.mod_eq_of_lt (by omega)
  have h32 : 32 * N < 18446744073709551616 := by omega
  by_cases h : i < 32 * N
  · have h1 : i / 32 < a.length := by omega
    have h2 : i % 32 < 32 := by omega
    simp only [Loops.u32s_get_bit_ok, Loops.u32s_get_bit, hm, h, h1, h2, h32, decide_true, if_true, Bool.and_self,
      Bool.true_and, getbit_limb _ _ h2]
    simp
  · simp [Loops.u32s_get_bit_ok, hm, h]

/-- **`U32s::set_bit`** regenerated from source = hand model, for limbs below `2^32` -/
theorem gen_set_bit_eq (N : Nat) (a : List Nat) (i : Nat) (v : Bool) (ha : a.length = N)
    (hw : ∀ x ∈ a, x < 4294967296) (hN : N < 576460752303423488) :
    (if Loops.u32s_set_bit_ok N a i v then some (Loops.u32s_set_bit N a i v) else none) = setBit a i v := by
  rw [setBit_closed, ha]
  have hm : (32 * N) % 18446744073709551616 = 32 * N := Nat.mod_eq_of_lt (by omega)
  have h32 : 32 * N < 18446744073709551616 := by omega
  by_cases h : i < 32 * N
  · have h1 : i / 32 < a.length := by omega
    have h2 : i % 32 < 32 := by omega
    have hx : a.getD (i / 32) 0 < 4294967296 := by
      rw [TF.GenBridge.U32s.getD_eq a _ h1]; exact hw _ (List.getElem_mem _)
    simp only [Loops.u32s_set_bit_ok, Loops.u32s_set_bit, hm, h, h1, h2, h32, decide_true, if_true, Bool.and_self,
      Bool.true_and, setbit_limb _ _ v hx h2]
    simp
  · simp [Loops.u32s_set_bit_ok, hm, h]


/-! ### `Ord`, `is_zero`, `zero`, `one`, `From<u32>` -/

theorem iter_cmp_eq_lexCmp : ∀ l1 l2 : List Nat, TF.RustStd.iter_cmp l1 l2 = lexCmp l1 l2
  | [], [] => rfl
  | [], _ :: _ => rfl
  | _ :: _, [] => rfl
  | x :: xs, y :: ys => by
    cases hc : compare x y <;> simp [TF.RustStd.iter_cmp, lexCmp, hc, iter_cmp_eq_lexCmp xs ys]

/-- **`Ord::cmp`** (`self.values.iter().rev().cmp(other.values.iter().rev())`) regenerated from source = hand model -/
theorem gen_cmp_eq (N : Nat) (a b : List Nat) : Loops.u32s_cmp N a b = U32s.cmp a b := by
  simp only [Loops.u32s_cmp, U32s.cmp, iter_cmp_eq_lexCmp]

/-- `>=` as Rust evaluates it (provided method of `PartialOrd` over the translated `partial_cmp`) = the model's `ge` -/
theorem gen_ge_eq (N : Nat) (a b : List Nat) :
    TF.RustStd.ord_ge (Loops.u32s_partial_cmp N a b) = ge a b := by
  simp only [Loops.u32s_partial_cmp, gen_cmp_eq, ge]
  cases U32s.cmp a b <;> rfl

theorem gen_is_zero_eq (N : Nat) (a : List Nat) : Loops.u32s_is_zero N a = isZero a := rfl

theorem gen_zero_eq (N : Nat) : Loops.u32s_zero N = zero N := rfl

/-- **`One::one`**: panics (index out of bounds) exactly for `N = 0` -/
theorem gen_one_eq (N : Nat) : (if Loops.u32s_one_ok N then some (Loops.u32s_one N) else none) = one N := by
  cases N with
  | zero => rfl
  | succ n => simp [Loops.u32s_one_ok, Loops.u32s_one, one, fromU32, zero, List.replicate_succ]

/-- **`From<u32>`** -/
theorem gen_from_u32_eq (N v : Nat) :
    (if Loops.u32s_from_u32_ok N v then some (Loops.u32s_from_u32 N v) else none) = fromU32 N v := by
  cases N with
  | zero => rfl
  | succ n => simp [Loops.u32s_from_u32_ok, Loops.u32s_from_u32, Loops.u32s_zero, Loops.u32s_zero_ok, fromU32, zero,
      List.replicate_succ]

/-! ### `From<BigUint>` and the `TryFrom` conversions -/

theorem from_biguint_for_eq (N : Nat) : ∀ n i rem ret, ret.length = i + n →
    Loops.u32s_from_biguint_for N n i rem ret = (rem / W ^ n, ret.take i ++ ofNat n rem) ∧
    Loops.u32s_from_biguint_for_ok N n i rem ret = true := by
  intro n
  induction n with
  | zero =>
    intro i rem ret hl
    have er : ret.take i = ret := List.take_of_length_le (by omega)
    simp [Loops.u32s_from_biguint_for, Loops.u32s_from_biguint_for_ok, ofNat, er]
  | succ n ih =>
    intro i rem ret hl
    have h1 : i < ret.length := by omega
    have h2 : rem % 4294967296 < 4294967296 := Nat.mod_lt _ (by omega)
    obtain ⟨e1, e2⟩ := ih (i + 1) (rem / 4294967296) (ret.set i (rem % 4294967296)) (by rw [List.length_set]; omega)
    constructor
    · simp only [Loops.u32s_from_biguint_for, e1, ofNat, W]
      rw [TF.GenBridge.U32s.take_set_succ ret i _ h1, List.append_assoc, List.singleton_append, Nat.pow_succ,
        Nat.div_div_eq_div_mul, Nat.mul_comm]
    · simp only [Loops.u32s_from_biguint_for_ok, e2, h1, h2, decide_true, Bool.and_self, Bool.true_and]
      rfl

/-- **`From<BigUint>`**: never panics, takes the `N` low limbs -/
theorem gen_from_biguint_eq (N v : Nat) :
    Loops.u32s_from_biguint_ok N v = true ∧ Loops.u32s_from_biguint N v = fromBig N v := by
  obtain ⟨e1, e2⟩ := from_biguint_for_eq N N 0 v (Loops.u32s_zero N) (by simp [Loops.u32s_zero])
  constructor
  · simp only [Loops.u32s_from_biguint_ok, Loops.u32s_zero_ok, Nat.sub_zero, e2, Bool.and_self]
  · simp only [Loops.u32s_from_biguint, Nat.sub_zero, e1, List.take_zero, List.nil_append, fromBig]

/-- `Result<Self, _>` as the hand model's `Option` -/
def toOpt : Except String (List Nat) → Option (List Nat)
  | .ok v => some v
  | .error _ => none

/-- **`TryFrom<u64>`** regenerated from source (the `match N` arms as they are now) = hand model; never panics -/
theorem gen_try_from_u64_eq (N v : Nat) :
    Loops.u32s_try_from_u64_ok N v = true ∧ toOpt (Loops.u32s_try_from_u64 N v) = tryFromU64 N v := by
  obtain ⟨k, e⟩ := gen_from_biguint_eq N v
  constructor
  · simp only [Loops.u32s_try_from_u64_ok, k]; split <;> [rfl; (split <;> rfl)]
  · simp only [Loops.u32s_try_from_u64, e]
    match N with
    | 0 => by_cases h : v = 0 <;> simp [tryFromU64, toOpt, h]
    | 1 => by_cases h : v > 4294967295 <;> simp [tryFromU64, toOpt, h, U32MAX]
    | n + 2 => simp [tryFromU64, toOpt]

/-- **`TryFrom<u128>`** -/
theorem gen_try_from_u128_eq (N v : Nat) :
    Loops.u32s_try_from_u128_ok N v = true ∧ toOpt (Loops.u32s_try_from_u128 N v) = tryFromU128 N v := by
  obtain ⟨k, e⟩ := gen_from_biguint_eq N v
  constructor
  · simp only [Loops.u32s_try_from_u128_ok, k]; repeat (first | rfl | split)
  · simp only [Loops.u32s_try_from_u128, e]
    match N with
    | 0 => by_cases h : v = 0 <;> simp [tryFromU128, toOpt, h]
    | 1 => by_cases h : v > 4294967295 <;> simp [tryFromU128, toOpt, h, U32MAX]
    | 2 => by_cases h : v > 18446744073709551615 <;> simp [tryFromU128, toOpt, h]
    | 3 => by_cases h : v ≥ 79228162514264337593543950336 <;> simp [tryFromU128, toOpt, h]
    | n + 4 => simp [tryFromU128, toOpt]


/-! ### `rem_div` -/

theorem ite_split {α : Type} {ok : Bool} {v : α} {m : Option α} (h : (if ok then some v else none) = m) :
    (ok = true ∧ m = some v) ∨ (ok = false ∧ m = none) := by
  cases ok <;> simp_all

theorem mulTwo_wf {N : Nat} {r r1 : List Nat} (hr : WF N r) (h : mulTwo r = some r1) : WF N r1 := by
  rw [mulTwo_eq_norm hr] at h; exact (norm_some_iff.mp h).2.1

theorem sub_wf {N : Nat} {a b r : List Nat} (ha : WF N a) (hb : WF N b) (h : sub a b = some r) : WF N r := by
  rw [sub_eq ha hb] at h
  split at h
  · cases h; exact WF_ofNat _ _
  · cases h

theorem setBit_wf {N : Nat} {a r : List Nat} {i : Nat} {v : Bool} (ha : WF N a) (hi : i < 32 * N)
    (h : setBit a i v = some r) : WF N r := by
  obtain ⟨r', e, w, _⟩ := setBit_spec ha hi v
  rw [e] at h; cases h; exact w

theorem rem_div_for_eq (N : Nat) (a d : List Nat) (ha : WF N a) (hd : WF N d) (hN : N < 576460752303423488) :
    ∀ n q r, n ≤ 32 * N → WF N q → WF N r →
    (if Loops.u32s_rem_div_for_ok N a d 0 n q r then some (Loops.u32s_rem_div_for N a d 0 n q r) else none)
      = remDivLoop a d n q r := by
  intro n
  induction n with
  | zero => intro q r _ _ _; rfl
  | succ n ih =>
    intro q r hn hq hr
    have hNpos : 0 < 32 * N := by omega
    simp only [Loops.u32s_rem_div_for, Loops.u32s_rem_div_for_ok, Nat.zero_add, remDivLoop, remDivStep, gen_ge_eq,
      Loops.u32s_partial_cmp_ok, Loops.u32s_cmp_ok, Bool.true_and]
    rcases ite_split (TF.GenBridge.U32s.gen_mul_two_eq N r hr.1) with ⟨k1, m1⟩ | ⟨k1, m1⟩
    swap
    · simp [k1, m1]
    have w1 := mulTwo_wf hr m1
    rw [k1, m1]
    generalize Loops.u32s_mul_two N r = r1 at *
    rcases ite_split (gen_get_bit_eq N a n ha.1 hN) with ⟨k2, m2⟩ | ⟨k2, m2⟩
    swap
    · simp [k2, m2]
    rw [k2, m2]
    generalize Loops.u32s_get_bit N a n = bit at *
    simp only [Bool.true_and, Option.bind_some]
    rcases ite_split (gen_set_bit_eq N r1 0 bit w1.1 w1.2 hN) with ⟨k3, m3⟩ | ⟨k3, m3⟩
    swap
    · simp [k3, m3]
    have w3 := setBit_wf w1 hNpos m3
    rw [k3, m3]
    generalize Loops.u32s_set_bit N r1 0 bit = r2 at *
    simp only [Bool.true_and, Option.bind_some]
    by_cases hge : ge r2 d = true
    · simp only [hge, if_true]
      rcases ite_split (TF.GenBridge.U32s.gen_sub_eq N r2 d w3.1 hd.1) with ⟨k4, m4⟩ | ⟨k4, m4⟩
      swap
      · simp [k4, m4]
      have w4 := sub_wf w3 hd m4
      rw [k4, m4]
      generalize Loops.u32s_sub N r2 d = r3 at *
      rcases ite_split (gen_set_bit_eq N q n true hq.1 hq.2 hN) with ⟨k5, m5⟩ | ⟨k5, m5⟩
      swap
      · simp [k5, m5]
      have w5 := setBit_wf hq (by omega : n < 32 * N) m5
      rw [k5, m5]
      generalize Loops.u32s_set_bit N q n true = q1 at *
      simp only [Bool.true_and, Option.bind_some]
      exact ih q1 r3 (by omega) w5 w4
    · simp only [hge, Bool.false_eq_true, if_false, Bool.true_and, Option.bind_some]
      exact ih q r2 (by omega) hq w3

/-- **`U32s::rem_div`** (bitwise long division calling the translated `mul_two`, `get_bit`, `set_bit`, `>=`, `-`)
    regenerated from source = hand model, for all well-formed operands -/
theorem gen_rem_div_eq (N : Nat) (a d : List Nat) (ha : WF N a) (hd : WF N d) (hN : N < 576460752303423488) :
    (if Loops.u32s_rem_div_ok N a d then some (Loops.u32s_rem_div N a d) else none) = remDiv a d := by
  have hz := WF_zero N
  have h := rem_div_for_eq N a d ha hd hN (32 * N) (zero N) (zero N) (Nat.le_refl _) hz hz
  have hm : N * 32 % 18446744073709551616 = 32 * N := by omega
  have h32 : N * 32 < 18446744073709551616 := by omega
  simp only [Loops.u32s_rem_div_ok, Loops.u32s_rem_div, remDiv, Loops.u32s_is_zero_ok, gen_is_zero_eq, Bool.true_and,
    hm, h32, decide_true, Nat.sub_zero, ha.1]
  by_cases hzd : isZero d = true
  · simp [hzd]
  · simp only [hzd, Bool.not_false, Bool.true_and, if_false, Bool.false_eq_true]
    rw [Nat.mul_comm N 32, ← h]
    rfl

/-! ### `Mul` (schoolbook product with per-partial-product carry loops) -/

theorem ripple_length : ∀ (l t : List Nat), ripple l = some t → t.length = l.length
  | [], t, h => by simp [ripple] at h
  | x :: xs, t, h => by
    simp only [ripple] at h
    split at h
    · cases h; rfl
    · cases hr : ripple xs with
      | none => simp [hr] at h
      | some t' =>
        simp [hr] at h; subst h
        simp [ripple_length xs t' hr]

theorem addHere_length (l t : List Nat) (v : Nat) (h : addHere l v = some t) : t.length = l.length := by
  cases l with
  | nil => simp [addHere] at h
  | cons x xs =>
    simp only [addHere] at h
    split at h
    · cases h; rfl
    · cases hr : ripple xs with
      | none => simp [hr] at h
      | some t' =>
        simp [hr] at h; subst h
        simp [ripple_length xs t' hr]

/-- `addAt` in closed form: the limbs below `p` are untouched -/
theorem addAt_closed : ∀ (l : List Nat) (p v : Nat),
    addAt l p v = if p < l.length then (addHere (l.drop p) v).map (l.take p ++ ·) else none := by
  intro l p
  induction p generalizing l with
  | zero =>
    intro v
    cases l with
    | nil => simp [addAt, addHere]
    | cons x xs => simp [addAt]
  | succ p ih =>
    intro v
    cases l with
    | nil => simp [addAt]
    | cons x xs =>
      simp only [addAt, ih, List.length_cons, Nat.add_lt_add_iff_right, List.drop_succ_cons, List.take_succ_cons]
      split
      · cases addHere (xs.drop p) v <;> simp
      · rfl

theorem addAt_length (l t : List Nat) (p v : Nat) (h : addAt l p v = some t) : t.length = l.length := by
  rw [addAt_closed] at h
  split at h
  · cases hr : addHere (l.drop p) v with
    | none => simp [hr] at h
    | some t' =>
      simp [hr] at h; subst h
      have := addHere_length _ _ _ hr
      simp [this]; omega
  · cases h

theorem hilo {x y : Nat} (hx : x < 4294967296) (hy : y < 4294967296) :
    x * y % 18446744073709551616 = x * y ∧ x * y / 4294967296 % 4294967296 = x * y / 4294967296 := by
  have h : x * y < 4294967296 * 4294967296 := Nat.mul_lt_mul'' hx hy
  constructor
  · exact Nat.mod_eq_of_lt (by omega)
  · exact Nat.mod_eq_of_lt (by omega)


theorem loop3_nocarry (N i j f : Nat) (res : List Nat) (k : Nat) :
    Loops.u32s_mul_loop3 N i j (f + 1) res false k = some (res, false, k) ∧
    Loops.u32s_mul_loop3_ok N i j f res false k = true := by
  constructor
  · simp [Loops.u32s_mul_loop3]
  · cases f <;> simp [Loops.u32s_mul_loop3_ok]

/-- the carry loop `while add_carry { assert!(i + j + k < N); (res[i+j+k], add_carry) = res[i+j+k].overflowing_add(1);
    k += 1 }` entered with `add_carry = true` is the model's `ripple` on the limbs from `i + j + k` on; the fuel `N + 1`
    is enough to reach either the normal exit or the failing `assert!` -/
theorem loop3_carry (N i j : Nat) (hN : N < 576460752303423488) : ∀ d fuel (res : List Nat) k,
    res.length = N → i + j + k + d = N → d + 1 ≤ fuel →
    (∀ t, ripple (res.drop (i + j + k)) = some t →
      (∃ k', Loops.u32s_mul_loop3 N i j fuel res true k = some (res.take (i + j + k) ++ t, false, k')) ∧
      Loops.u32s_mul_loop3_ok N i j fuel res true k = true) ∧
    (ripple (res.drop (i + j + k)) = none → Loops.u32s_mul_loop3_ok N i j fuel res true k = false) := by
  intro d
  induction d with
  | zero =>
    intro fuel res k hl hd hf
    have e : res.drop (i + j + k) = [] := List.drop_eq_nil_of_le (by omega)
    obtain ⟨f, rfl⟩ : ∃ f, fuel = f + 1 := ⟨fuel - 1, by omega⟩
    have h1 : (i + j) % 18446744073709551616 = i + j := Nat.mod_eq_of_lt (by omega)
    have h2 : (i + j + k) % 18446744073709551616 = i + j + k := Nat.mod_eq_of_lt (by omega)
    have h3 : ¬ (i + j + k < N) := by omega
    rw [e]
    refine ⟨fun t ht => by simp [ripple] at ht, fun _ => ?_⟩
    simp [Loops.u32s_mul_loop3_ok, h1, h2, h3]
  | succ d ih =>
    intro fuel res k hl hd hf
    obtain ⟨f, rfl⟩ : ∃ f, fuel = f + 1 := ⟨fuel - 1, by omega⟩
    have hidx : i + j + k < res.length := by omega
    have h1 : (i + j) % 18446744073709551616 = i + j := Nat.mod_eq_of_lt (by omega)
    have h2 : (i + j + k) % 18446744073709551616 = i + j + k := Nat.mod_eq_of_lt (by omega)
    have h3 : (k + 1) % 18446744073709551616 = k + 1 := Nat.mod_eq_of_lt (by omega)
    have h4 : i + j + k < N := by omega
    have h5 : i + j < 18446744073709551616 := by omega
    have h6 : i + j + k < 18446744073709551616 := by omega
    have h7 : k + 1 < 18446744073709551616 := by omega
    rw [TF.GenBridge.U32s.drop_cons_getD res _ hidx]
    generalize hx : res.getD (i + j + k) 0 = x
    have hset : ∀ v, (res.set (i + j + k) v).take (i + j + k + 1) = res.take (i + j + k) ++ [v] :=
      fun v => TF.GenBridge.U32s.take_set_succ res _ v hidx
    have hdrop : ∀ v, (res.set (i + j + k) v).drop (i + j + k + 1) = res.drop (i + j + k + 1) :=
      fun v => List.drop_set_of_lt (Nat.lt_succ_self _)
    have hlen : ∀ v, (res.set (i + j + k) v).length = N := fun v => by rw [List.length_set]; exact hl
    by_cases hc : x + 1 < 4294967296
    · -- no further carry
      have hm : (x + 1) % 4294967296 = x + 1 := Nat.mod_eq_of_lt hc
      have hnc : ¬ (4294967296 ≤ x + 1) := by omega
      obtain ⟨f', rfl⟩ : ∃ f', f = f' + 1 := ⟨f - 1, by omega⟩
      have n1 := (loop3_nocarry N i j f' (res.set (i + j + k) (x + 1)) (k + 1)).1
      have n2 := (loop3_nocarry N i j (f' + 1) (res.set (i + j + k) (x + 1)) (k + 1)).2
      refine ⟨fun t ht => ?_, fun hn => by simp [ripple, W, hc] at hn⟩
      simp only [ripple, W, hc, if_true, Option.some.injEq] at ht
      subst ht
      constructor
      · refine ⟨k + 1, ?_⟩
        rw [Loops.u32s_mul_loop3]
        simp only [if_true, h1, h2, h3, hx, hm, hnc, ge_iff_le, decide_false, n1]
        have := hset (x + 1)
        have e2 : res.set (i + j + k) (x + 1) = res.take (i + j + k) ++ (x + 1) :: res.drop (i + j + k + 1) := by
          have h := List.take_append_drop (i + j + k + 1) (res.set (i + j + k) (x + 1))
          rw [hset, hdrop, List.append_assoc, List.singleton_append] at h
          exact h.symm
        rw [e2]
      · rw [Loops.u32s_mul_loop3_ok]
        simp only [if_true, h1, h2, h3, h4, h5, h6, h7, hidx, hx, hm, hnc, ge_iff_le, decide_true, decide_false,
          Bool.and_self, Bool.true_and, List.length_set, n2]
    · -- the carry goes on
      have hcc : (4294967296 ≤ x + 1) := by omega
      obtain ⟨ihs, ihn⟩ := ih f (res.set (i + j + k) ((x + 1) % 4294967296)) (k + 1) (hlen _) (by omega) (by omega)
      have e3 : i + j + (k + 1) = i + j + k + 1 := by omega
      rw [e3, hdrop, hset] at ihs
      rw [e3, hdrop] at ihn
      constructor
      · intro t ht
        simp only [ripple, W, hc, if_false] at ht
        cases hr : ripple (res.drop (i + j + k + 1)) with
        | none => simp [hr] at ht
        | some t' =>
          simp [hr] at ht; subst ht
          obtain ⟨⟨k', e⟩, ok⟩ := ihs t' hr
          constructor
          · refine ⟨k', ?_⟩
            rw [Loops.u32s_mul_loop3]
            simp only [if_true, h1, h2, h3, hx, hcc, ge_iff_le, decide_true, e, List.append_assoc, List.singleton_append]
          · rw [Loops.u32s_mul_loop3_ok]
            simp only [if_true, h1, h2, h3, h4, h5, h6, h7, hidx, hx, hcc, ge_iff_le, decide_true,
              Bool.and_self, Bool.true_and, List.length_set, ok]
      · intro hn
        simp only [ripple, W, hc, if_false] at hn
        cases hr : ripple (res.drop (i + j + k + 1)) with
        | some t' => simp [hr] at hn
        | none =>
          rw [Loops.u32s_mul_loop3_ok]
          simp only [if_true, h1, h2, h3, h4, h5, h6, h7, hidx, hx, hcc, ge_iff_le, decide_true,
            Bool.and_self, Bool.true_and, List.length_set, ihn hr]

theorem loop4_nocarry (N i j f : Nat) (res : List Nat) (k : Nat) :
    Loops.u32s_mul_loop4 N i j (f + 1) res false k = some (res, false, k) ∧
    Loops.u32s_mul_loop4_ok N i j f res false k = true := by
  constructor
  · simp [Loops.u32s_mul_loop4]
  · cases f <;> simp [Loops.u32s_mul_loop4_ok]

/-- (the second, textually identical, carry loop) the carry loop `while add_carry { assert!(i + j + k < N); (res[i+j+k], add_carry) = res[i+j+k].overflowing_add(1);
    k += 1 }` entered with `add_carry = true` is the model's `ripple` on the limbs from `i + j + k` on; the fuel `N + 1`
    is enough to reach either the normal exit or the failing `assert!` -/
theorem loop4_carry (N i j : Nat) (hN : N < 576460752303423488) : ∀ d fuel (res : List Nat) k,
    res.length = N → i + j + k + d = N → d + 1 ≤ fuel →
    (∀ t, ripple (res.drop (i + j + k)) = some t →
      (∃ k', Loops.u32s_mul_loop4 N i j fuel res true k = some (res.take (i + j + k) ++ t, false, k')) ∧
      Loops.u32s_mul_loop4_ok N i j fuel res true k = true) ∧
    (ripple (res.drop (i + j + k)) = none → Loops.u32s_mul_loop4_ok N i j fuel res true k = false) := by
  intro d
  induction d with
  | zero =>
    intro fuel res k hl hd hf
    have e : res.drop (i + j + k) = [] := List.drop_eq_nil_of_le (by omega)
    obtain ⟨f, rfl⟩ : ∃ f, fuel = f + 1 := ⟨fuel - 1, by omega⟩
    have h1 : (i + j) % 18446744073709551616 = i + j := Nat.mod_eq_of_lt (by omega)
    have h2 : (i + j + k) % 18446744073709551616 = i + j + k := Nat.mod_eq_of_lt (by omega)
    have h3 : ¬ (i + j + k < N) := by omega
    rw [e]
    refine ⟨fun t ht => by simp [ripple] at ht, fun _ => ?_⟩
    simp [Loops.u32s_mul_loop4_ok, h1, h2, h3]
  | succ d ih =>
    intro fuel res k hl hd hf
    obtain ⟨f, rfl⟩ : ∃ f, fuel = f + 1 := ⟨fuel - 1, by omega⟩
    have hidx : i + j + k < res.length := by omega
    have h1 : (i + j) % 18446744073709551616 = i + j := Nat.mod_eq_of_lt (by omega)
    have h2 : (i + j + k) % 18446744073709551616 = i + j + k := Nat.mod_eq_of_lt (by omega)
    have h3 : (k + 1) % 18446744073709551616 = k + 1 := Nat.mod_eq_of_lt (by omega)
    have h4 : i + j + k < N := by omega
    have h5 : i + j < 18446744073709551616 := by omega
    have h6 : i + j + k < 18446744073709551616 := by omega
    have h7 : k + 1 < 18446744073709551616 := by omega
    rw [TF.GenBridge.U32s.drop_cons_getD res _ hidx]
    generalize hx : res.getD (i + j + k) 0 = x
    have hset : ∀ v, (res.set (i + j + k) v).take (i + j + k + 1) = res.take (i + j + k) ++ [v] :=
      fun v => TF.GenBridge.U32s.take_set_succ res _ v hidx
    have hdrop : ∀ v, (res.set (i + j + k) v).drop (i + j + k + 1) = res.drop (i + j + k + 1) :=
      fun v => List.drop_set_of_lt (Nat.lt_succ_self _)
    have hlen : ∀ v, (res.set (i + j + k) v).length = N := fun v => by rw [List.length_set]; exact hl
    by_cases hc : x + 1 < 4294967296
    · -- no further carry
      have hm : (x + 1) % 4294967296 = x + 1 := Nat.mod_eq_of_lt hc
      have hnc : ¬ (4294967296 ≤ x + 1) := by omega
      obtain ⟨f', rfl⟩ : ∃ f', f = f' + 1 := ⟨f - 1, by omega⟩
      have n1 := (loop4_nocarry N i j f' (res.set (i + j + k) (x + 1)) (k + 1)).1
      have n2 := (loop4_nocarry N i j (f' + 1) (res.set (i + j + k) (x + 1)) (k + 1)).2
      refine ⟨fun t ht => ?_, fun hn => by simp [ripple, W, hc] at hn⟩
      simp only [ripple, W, hc, if_true, Option.some.injEq] at ht
      subst ht
      constructor
      · refine ⟨k + 1, ?_⟩
        rw [Loops.u32s_mul_loop4]
        simp only [if_true, h1, h2, h3, hx, hm, hnc, ge_iff_le, decide_false, n1]
        have := hset (x + 1)
        have e2 : res.set (i + j + k) (x + 1) = res.take (i + j + k) ++ (x + 1) :: res.drop (i + j + k + 1) := by
          have h := List.take_append_drop (i + j + k + 1) (res.set (i + j + k) (x + 1))
          rw [hset, hdrop, List.append_assoc, List.singleton_append] at h
          exact h.symm
        rw [e2]
      · rw [Loops.u32s_mul_loop4_ok]
        simp only [if_true, h1, h2, h3, h4, h5, h6, h7, hidx, hx, hm, hnc, ge_iff_le, decide_true, decide_false,
          Bool.and_self, Bool.true_and, List.length_set, n2]
    · -- the carry goes on
      have hcc : (4294967296 ≤ x + 1) := by omega
      obtain ⟨ihs, ihn⟩ := ih f (res.set (i + j + k) ((x + 1) % 4294967296)) (k + 1) (hlen _) (by omega) (by omega)
      have e3 : i + j + (k + 1) = i + j + k + 1 := by omega
      rw [e3, hdrop, hset] at ihs
      rw [e3, hdrop] at ihn
      constructor
      · intro t ht
        simp only [ripple, W, hc, if_false] at ht
        cases hr : ripple (res.drop (i + j + k + 1)) with
        | none => simp [hr] at ht
        | some t' =>
          simp [hr] at ht; subst ht
          obtain ⟨⟨k', e⟩, ok⟩ := ihs t' hr
          constructor
          · refine ⟨k', ?_⟩
            rw [Loops.u32s_mul_loop4]
            simp only [if_true, h1, h2, h3, hx, hcc, ge_iff_le, decide_true, e, List.append_assoc, List.singleton_append]
          · rw [Loops.u32s_mul_loop4_ok]
            simp only [if_true, h1, h2, h3, h4, h5, h6, h7, hidx, hx, hcc, ge_iff_le, decide_true,
              Bool.and_self, Bool.true_and, List.length_set, ok]
      · intro hn
        simp only [ripple, W, hc, if_false] at hn
        cases hr : ripple (res.drop (i + j + k + 1)) with
        | some t' => simp [hr] at hn
        | none =>
          rw [Loops.u32s_mul_loop4_ok]
          simp only [if_true, h1, h2, h3, h4, h5, h6, h7, hidx, hx, hcc, ge_iff_le, decide_true,
            Bool.and_self, Bool.true_and, List.length_set, ihn hr]

/-- `(res[p], add_carry) = res[p].overflowing_add(v)` followed by the carry loop = the model's `addAt res p v` -/
theorem add_carry3 (N i j : Nat) (hN : N < 576460752303423488) (res : List Nat) (v p k0 : Nat)
    (hl : res.length = N) (hp : p < N) (hk : p + 1 = i + j + k0) :
    (∀ t, addAt res p v = some t →
      (∃ k', Loops.u32s_mul_loop3 N i j (N + 1) (res.set p ((res.getD p 0 + v) % 4294967296))
          (decide (res.getD p 0 + v ≥ 4294967296)) k0 = some (t, false, k')) ∧
      Loops.u32s_mul_loop3_ok N i j (N + 1) (res.set p ((res.getD p 0 + v) % 4294967296))
          (decide (res.getD p 0 + v ≥ 4294967296)) k0 = true) ∧
    (addAt res p v = none →
      Loops.u32s_mul_loop3_ok N i j (N + 1) (res.set p ((res.getD p 0 + v) % 4294967296))
          (decide (res.getD p 0 + v ≥ 4294967296)) k0 = false) := by
  have hidx : p < res.length := by omega
  rw [addAt_closed, if_pos hidx, TF.GenBridge.U32s.drop_cons_getD res _ hidx]
  generalize res.getD p 0 = x
  have hset : ∀ w, (res.set p w).take (p + 1) = res.take p ++ [w] := fun w => TF.GenBridge.U32s.take_set_succ res _ w hidx
  have hdrop : ∀ w, (res.set p w).drop (p + 1) = res.drop (p + 1) := fun w => List.drop_set_of_lt (Nat.lt_succ_self _)
  have hlen : ∀ w, (res.set p w).length = N := fun w => by rw [List.length_set]; exact hl
  by_cases hc : x + v < 4294967296
  · have hm : (x + v) % 4294967296 = x + v := Nat.mod_eq_of_lt hc
    have hnc : ¬ (4294967296 ≤ x + v) := by omega
    obtain ⟨n1, n2⟩ := loop3_nocarry N i j N (res.set p (x + v)) k0
    have n2' := (loop3_nocarry N i j (N + 1) (res.set p (x + v)) k0).2
    have e2 : res.set p (x + v) = res.take p ++ (x + v) :: res.drop (p + 1) := by
      have h := List.take_append_drop (p + 1) (res.set p (x + v))
      rw [hset, hdrop, List.append_assoc, List.singleton_append] at h
      exact h.symm
    simp only [addHere, W, hc, if_true, hm, hnc, ge_iff_le, decide_false, Option.map_some, Option.some.injEq]
    refine ⟨fun t ht => ?_, fun hn => by cases hn⟩
    subst ht
    exact ⟨⟨k0, by rw [n1, e2]⟩, n2'⟩
  · have hcc : (4294967296 ≤ x + v) := by omega
    obtain ⟨cs, cn⟩ := loop3_carry N i j hN (N - (p + 1)) (N + 1) (res.set p ((x + v) % 4294967296)) k0 (hlen _)
      (by omega) (by omega)
    rw [← hk, hdrop, hset] at cs
    rw [← hk, hdrop] at cn
    simp only [addHere, W, hc, if_false, hcc, ge_iff_le, decide_true]
    constructor
    · intro t ht
      cases hr : ripple (res.drop (p + 1)) with
      | none => simp [hr] at ht
      | some t' =>
        simp [hr] at ht; subst ht
        obtain ⟨⟨k', e⟩, ok⟩ := cs t' hr
        exact ⟨⟨k', by rw [e]; simp⟩, ok⟩
    · intro hn
      cases hr : ripple (res.drop (p + 1)) with
      | some t' => simp [hr] at hn
      | none => exact cn hr

/-- (second carry loop) `(res[p], add_carry) = res[p].overflowing_add(v)` followed by the carry loop = the model's `addAt res p v` -/
theorem add_carry4 (N i j : Nat) (hN : N < 576460752303423488) (res : List Nat) (v p k0 : Nat)
    (hl : res.length = N) (hp : p < N) (hk : p + 1 = i + j + k0) :
    (∀ t, addAt res p v = some t →
      (∃ k', Loops.u32s_mul_loop4 N i j (N + 1) (res.set p ((res.getD p 0 + v) % 4294967296))
          (decide (res.getD p 0 + v ≥ 4294967296)) k0 = some (t, false, k')) ∧
      Loops.u32s_mul_loop4_ok N i j (N + 1) (res.set p ((res.getD p 0 + v) % 4294967296))
          (decide (res.getD p 0 + v ≥ 4294967296)) k0 = true) ∧
    (addAt res p v = none →
      Loops.u32s_mul_loop4_ok N i j (N + 1) (res.set p ((res.getD p 0 + v) % 4294967296))
          (decide (res.getD p 0 + v ≥ 4294967296)) k0 = false) := by
  have hidx : p < res.length := by omega
  rw [addAt_closed, if_pos hidx, TF.GenBridge.U32s.drop_cons_getD res _ hidx]
  generalize res.getD p 0 = x
  have hset : ∀ w, (res.set p w).take (p + 1) = res.take p ++ [w] := fun w => TF.GenBridge.U32s.take_set_succ res _ w hidx
  have hdrop : ∀ w, (res.set p w).drop (p + 1) = res.drop (p + 1) := fun w => List.drop_set_of_lt (Nat.lt_succ_self _)
  have hlen : ∀ w, (res.set p w).length = N := fun w => by rw [List.length_set]; exact hl
  by_cases hc : x + v < 4294967296
  · have hm : (x + v) % 4294967296 = x + v := Nat.mod_eq_of_lt hc
    have hnc : ¬ (4294967296 ≤ x + v) := by omega
    obtain ⟨n1, n2⟩ := loop4_nocarry N i j N (res.set p (x + v)) k0
    have n2' := (loop4_nocarry N i j (N + 1) (res.set p (x + v)) k0).2
    have e2 : res.set p (x + v) = res.take p ++ (x + v) :: res.drop (p + 1) := by
      have h := List.take_append_drop (p + 1) (res.set p (x + v))
      rw [hset, hdrop, List.append_assoc, List.singleton_append] at h
      exact h.symm
    simp only [addHere, W, hc, if_true, hm, hnc, ge_iff_le, decide_false, Option.map_some, Option.some.injEq]
    refine ⟨fun t ht => ?_, fun hn => by cases hn⟩
    subst ht
    exact ⟨⟨k0, by rw [n1, e2]⟩, n2'⟩
  · have hcc : (4294967296 ≤ x + v) := by omega
    obtain ⟨cs, cn⟩ := loop4_carry N i j hN (N - (p + 1)) (N + 1) (res.set p ((x + v) % 4294967296)) k0 (hlen _)
      (by omega) (by omega)
    rw [← hk, hdrop, hset] at cs
    rw [← hk, hdrop] at cn
    simp only [addHere, W, hc, if_false, hcc, ge_iff_le, decide_true]
    constructor
    · intro t ht
      cases hr : ripple (res.drop (p + 1)) with
      | none => simp [hr] at ht
      | some t' =>
        simp [hr] at ht; subst ht
        obtain ⟨⟨k', e⟩, ok⟩ := cs t' hr
        exact ⟨⟨k', by rw [e]; simp⟩, ok⟩
    · intro hn
      cases hr : ripple (res.drop (p + 1)) with
      | some t' => simp [hr] at hn
      | none => exact cn hr

theorem mulStep_length (res r : List Nat) (x y pos : Nat) (h : mulStep res x y pos = some r) : r.length = res.length := by
  simp only [mulStep] at h
  split at h
  · cases h
  · split at h
    · cases h; rfl
    · cases h1 : addAt res pos (x * y % W) with
      | none => simp [h1] at h
      | some r1 =>
        have l1 := addAt_length _ _ _ _ h1
        simp only [h1, Option.bind_some] at h
        split at h
        · cases h; exact l1
        · split at h
          · cases h
          · rw [addAt_length _ _ _ _ h, l1]

theorem mul_for2_spec (N : Nat) (hN : N < 576460752303423488) (a b : List Nat) (i : Nat) (hb : b.length = N)
    (hbw : ∀ y ∈ b, y < 4294967296) (hi : i < a.length) (hx : a.getD i 0 < 4294967296) (hiN : i < N) :
    ∀ n j res, res.length = N → j + n = N →
    (∀ r, mulInner res (a.getD i 0) i (b.drop j) j = some r →
      Loops.u32s_mul_for2 N a b i n j res = some r ∧ Loops.u32s_mul_for2_ok N a b i n j res = true) ∧
    (mulInner res (a.getD i 0) i (b.drop j) j = none → Loops.u32s_mul_for2_ok N a b i n j res = false) := by
  intro n
  induction n with
  | zero =>
    intro j res hl hj
    have e : b.drop j = [] := List.drop_eq_nil_of_le (by omega)
    rw [e]
    simp [mulInner, Loops.u32s_mul_for2, Loops.u32s_mul_for2_ok]
  | succ n ih =>
    intro j res hl hj
    have hjb : j < b.length := by omega
    rw [TF.GenBridge.U32s.drop_cons_getD b j hjb, Loops.u32s_mul_for2, Loops.u32s_mul_for2_ok]
    have hy : b.getD j 0 < 4294967296 := by
      rw [TF.GenBridge.U32s.getD_eq b j hjb]; exact hbw _ (List.getElem_mem _)
    generalize b.getD j 0 = y at *
    generalize a.getD i 0 = x at *
    obtain ⟨hl1, hl2⟩ := hilo hx hy
    have hU1 : (i + j) % 18446744073709551616 = i + j := Nat.mod_eq_of_lt (by omega)
    have hU2 : (i + j + 1) % 18446744073709551616 = i + j + 1 := Nat.mod_eq_of_lt (by omega)
    have hU3 : i + j < 18446744073709551616 := by omega
    have hU4 : i + j + 1 < 18446744073709551616 := by omega
    have hxy : x * y < 18446744073709551616 := by rw [← hl1]; exact Nat.mod_lt _ (by omega)
    obtain ⟨ihs, ihn⟩ := ih (j + 1) res hl (by omega)
    simp only [mulInner, mulStep, W, hl, hl1, hl2, hU1, hU2, hU3, hU4, hi, hjb, hxy, decide_true, Bool.true_and]
    by_cases hz : x * y / 4294967296 = 0 ∧ x * y % 4294967296 = 0
    · obtain ⟨z1, z2⟩ := hz
      simp only [z1, z2, and_self, or_true, not_true_eq_false, if_false, if_true, Option.bind_some, beq_self_eq_true,
        Bool.and_self, Bool.or_true, Bool.true_and]
      exact ⟨ihs, ihn⟩
    · have hzb : (x * y / 4294967296 == 0 && x * y % 4294967296 == 0) = false := by
        cases h : (x * y / 4294967296 == 0 && x * y % 4294967296 == 0)
        · rfl
        · exfalso; apply hz; simpa using h
      simp only [hz, hzb, or_false, if_false, Bool.or_false, Bool.false_eq_true]
      by_cases hp : i + j < N
      · obtain ⟨as, an⟩ := add_carry3 N i j hN res (x * y % 4294967296) (i + j) 1 hl hp rfl
        simp only [hp, not_true_eq_false, if_false, decide_true, Bool.true_and]
        cases h1 : addAt res (i + j) (x * y % 4294967296) with
        | none =>
          have k := an h1
          simp only [k, Bool.false_and, Bool.and_false]
          simp
        | some r1 =>
          obtain ⟨⟨k', e1⟩, ok1⟩ := as r1 h1
          have l1 : r1.length = N := by rw [addAt_length _ _ _ _ h1, hl]
          simp only [e1, ok1, Option.bind_some, Option.elim_some, Bool.true_and]
          by_cases hh : x * y / 4294967296 = 0
          · obtain ⟨ihs1, ihn1⟩ := ih (j + 1) r1 l1 (by omega)
            simp only [hh, beq_self_eq_true, if_true]
            exact ⟨ihs1, ihn1⟩
          · have hhb : (x * y / 4294967296 == 0) = false := by simpa using hh
            simp only [hh, hhb, if_false, Bool.false_eq_true]
            by_cases hp1 : i + j + 1 < N
            · obtain ⟨as2, an2⟩ := add_carry4 N i j hN r1 (x * y / 4294967296) (i + j + 1) 2 l1 hp1 rfl
              simp only [hp1, not_true_eq_false, if_false, decide_true, Bool.true_and, l1]
              cases h2 : addAt r1 (i + j + 1) (x * y / 4294967296) with
              | none =>
                have k := an2 h2
                simp only [k, Bool.false_and, Bool.and_false]
                simp
              | some r2 =>
                obtain ⟨⟨k'', e2⟩, ok2⟩ := as2 r2 h2
                have l2 : r2.length = N := by rw [addAt_length _ _ _ _ h2, l1]
                obtain ⟨ihs2, ihn2⟩ := ih (j + 1) r2 l2 (by omega)
                simp only [e2, ok2, Option.bind_some, Option.elim_some, Bool.true_and]
                exact ⟨ihs2, ihn2⟩
            · simp [hp1]
      · simp [hp]

theorem mulInner_length (x i : Nat) : ∀ (ys : List Nat) (res r : List Nat) (j : Nat),
    mulInner res x i ys j = some r → r.length = res.length
  | [], res, r, j, h => by simp [mulInner] at h; subst h; rfl
  | y :: ys, res, r, j, h => by
    simp only [mulInner] at h
    cases h1 : mulStep res x y (i + j) with
    | none => simp [h1] at h
    | some r1 =>
      simp only [h1, Option.bind_some] at h
      rw [mulInner_length x i ys r1 r (j + 1) h, mulStep_length _ _ _ _ _ h1]

theorem mul_for_spec (N : Nat) (hN : N < 576460752303423488) (a b : List Nat) (ha : a.length = N)
    (haw : ∀ x ∈ a, x < 4294967296) (hb : b.length = N) (hbw : ∀ y ∈ b, y < 4294967296) :
    ∀ n i res, res.length = N → i + n = N →
    (∀ r, mulOuter b res (a.drop i) i = some r →
      Loops.u32s_mul_for N a b n i res = some r ∧ Loops.u32s_mul_for_ok N a b n i res = true) ∧
    (mulOuter b res (a.drop i) i = none → Loops.u32s_mul_for_ok N a b n i res = false) := by
  intro n
  induction n with
  | zero =>
    intro i res hl hi
    have e : a.drop i = [] := List.drop_eq_nil_of_le (by omega)
    rw [e]
    simp [mulOuter, Loops.u32s_mul_for, Loops.u32s_mul_for_ok]
  | succ n ih =>
    intro i res hl hi
    have hia : i < a.length := by omega
    have hx : a.getD i 0 < 4294967296 := by
      rw [TF.GenBridge.U32s.getD_eq a i hia]; exact haw _ (List.getElem_mem _)
    obtain ⟨fs, fn⟩ := mul_for2_spec N hN a b i hb hbw hia hx (by omega) N 0 res hl (by omega)
    rw [TF.GenBridge.U32s.drop_cons_getD a i hia, Loops.u32s_mul_for, Loops.u32s_mul_for_ok]
    simp only [mulOuter, Nat.sub_zero]
    rw [List.drop_zero] at fs fn
    cases h1 : mulInner res (a.getD i 0) i b 0 with
    | none =>
      simp only [fn h1, Bool.false_and, Option.bind_none]
      simp
    | some r1 =>
      obtain ⟨e1, ok1⟩ := fs r1 h1
      have l1 : r1.length = N := by rw [mulInner_length _ _ _ _ _ _ h1, hl]
      simp only [e1, ok1, Option.bind_some, Option.elim_some, Bool.true_and]
      exact ih (i + 1) r1 l1 (by omega)

/-- **`Mul for U32s<N>`** regenerated from source (two nested `for` loops, two `while add_carry` loops with `assert!`s) =
    the hand model's exact-or-panic `mul`, for all well-formed operands and every `N`: when the model returns a value the
    regenerated code finishes within its fuel with the same value and no `assert!` fails; when the model panics, an
    `assert!`/index check of the regenerated code fails -/
theorem gen_mul_eq (N : Nat) (a b : List Nat) (ha : WF N a) (hb : WF N b) (hN : N < 576460752303423488) :
    (∀ r, mul a b = some r → Loops.u32s_mul N a b = some r ∧ Loops.u32s_mul_ok N a b = true) ∧
    (mul a b = none → Loops.u32s_mul_ok N a b = false) := by
  obtain ⟨fs, fn⟩ := mul_for_spec N hN a b ha.1 ha.2 hb.1 hb.2 N 0 (List.replicate N 0) (by simp) (by omega)
  rw [List.drop_zero] at fs fn
  simp only [mul, Loops.u32s_mul, Loops.u32s_mul_ok, Nat.sub_zero, zero, ha.1]
  constructor
  · intro r hr
    obtain ⟨e, ok⟩ := fs r hr
    simp [e, ok]
  · exact fn

end TF.GenBridge.U32s2
