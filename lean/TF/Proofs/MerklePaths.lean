import TF.Proofs.MerkleSound
/-! `into_authentication_paths`, accessors of honest trees -/
set_option linter.unusedSectionVars false
namespace TF.Merkle
open TF.Gen

section Paths
variable {D : Type} [DecidableEq D] (H : D → D → D)

theorem authPath_get (f : Nat → D) : ∀ (up below k j : Nat),
    (authPath H f below up k)[j]? = if j < up then some (nodeVal H f (below + j) (sib (k / 2^j))) else none
  | 0, below, k, j => by simp [authPath]
  | up+1, below, k, 0 => by simp [authPath]
  | up+1, below, k, j+1 => by
    simp only [authPath, List.getElem?_cons_succ]
    rw [authPath_get f up (below+1) (k/2) j]
    have e1 : below + 1 + j = below + (j + 1) := by omega
    have e2 : k / 2 / 2^j = k / 2^(j+1) := by rw [Nat.div_div_eq_div_mul, Nat.pow_succ, Nat.mul_comm]
    simp only [e1, e2, Nat.add_lt_add_iff_right]

theorem authPath_length (f : Nat → D) : ∀ (up below k : Nat), (authPath H f below up k).length = up
  | 0, _, _ => rfl
  | up+1, below, k => by simp [authPath, authPath_length f up]

/-- the expansion of one leaf's path from a filled partial tree -/
theorem authPathFor_spec {h : Nat} {idxs : List Nat} {leafD authD : Nat → Option D}
    (ctx : FillCtx h idxs leafD authD) {m' : NodeMap D} (inv : FillInv H h idxs leafD authD h m')
    {i : Nat} (hi : i ∈ idxs) :
    ∃ path, authPathFor { height := h, idxs := idxs, nodes := m' } i = .ok path ∧ path.length = h ∧
      ∀ j, j < h → path[j]? = Spec.sibVal H leafD authD j (sib (anc h i j)) ∧ (path[j]?).isSome := by
  have hlt := ctx.hi i hi
  have hadd := leaf_add_lt_usize (show h ≤ 62 by have := ctx.hh; omega) hlt
  have hnp := nodePath_eq h (i + 2^h) (by omega) (by have := two_pow_succ h; omega)
  -- every sibling is present
  have hsib : ∀ j, j < h → ∃ v, m'.get (sib (anc h i j)) = some v ∧
      Spec.sibVal H leafD authD j (sib (anc h i j)) = some v := by
    intro j hj
    by_cases hcov : ∃ i' ∈ idxs, anc h i' j = sib (anc h i j)
    · obtain ⟨i', hi', e⟩ := hcov
      obtain ⟨v, h1, h2⟩ := inv.1 j (by omega) i' hi'
      rw [e] at h1 h2
      exact ⟨v, h1, by simp [Spec.sibVal, h2]⟩
    · have hn : ∀ i' ∈ idxs, anc h i' j ≠ sib (anc h i j) := fun i' hi' e => hcov ⟨i', hi', e⟩
      have hnc := not_covered_of_level ctx hi (show j ≤ h by omega) (sib_div_two _) hn
      have hs : Spec.covered h idxs (sib (sib (anc h i j))) = true := by
        rw [sib_sib]; exact covered_of_anc hi (by omega)
      have r := anc_range hlt (show j ≤ h by omega)
      have : 2^1 ≤ 2^(h-j) := two_pow_le_of_le (by omega)
      have h2 : 2 ≤ sib (anc h i j) := two_le_sib.2 (by omega)
      obtain ⟨v, hv⟩ := Option.isSome_iff_exists.1 (ctx.a2 _ h2 hnc hs)
      refine ⟨v, ?_, by simp [Spec.sibVal, refVal_none H ctx j _ hn, hv]⟩
      have hb : m'.get (sib (anc h i j)) = baseVal leafD authD (sib (anc h i j)) := by
        apply inv.2
        intro j' hj' i' hi' e
        have : Spec.covered h idxs (sib (anc h i j)) = true := by rw [← e]; exact covered_of_anc hi' hj'
        rw [hnc] at this; cases this
      rw [hb, baseVal, hv]
  obtain ⟨path, h1, h2, h3⟩ := Res.mapM_exists (f := fun c => getNode m' (c ^^^ 1))
    ((List.range h).map (fun j => (i + 2^h) / 2^j))
    (fun a ha => by
      obtain ⟨j, hj, rfl⟩ := List.mem_map.1 ha
      obtain ⟨v, hv, _⟩ := hsib j (List.mem_range.1 hj)
      refine ⟨v, ?_⟩
      show getNode m' ((anc h i j) ^^^ 1) = .ok v
      rw [xor_one_eq_sib]; simp [getNode, hv])
  refine ⟨path, ?_, by simpa using h2, ?_⟩
  · simp only [authPathFor, numLeafs_ok ctx.hh, cadd, hadd, if_true, Res.ok_bind, hnp]
    exact h1
  · intro j hj
    obtain ⟨v, hv, hsv⟩ := hsib j hj
    obtain ⟨b, hb1, hb2⟩ := h3 j (anc h i j) (by simp [hj, anc])
    rw [xor_one_eq_sib] at hb2
    simp only [getNode, hv] at hb2
    cases hb2
    rw [hb1, hsv]; exact ⟨rfl, rfl⟩

/-- **`into_authentication_paths`**: succeeds exactly on well-formed proofs (never panics); path `t` belongs to claim
    `t`, has one sibling per level, and the sibling on level `j` is the recomputed or supplied node -/
theorem intoAuthPaths_spec (p : Proof D) :
    (Spec.wellFormed p = true ∧ ∃ paths, intoAuthPaths H p = .ok paths ∧ paths.length = p.leafs.length ∧
      ∀ (t : Nat) (x : Nat × D) (path : List D), p.leafs[t]? = some x → paths[t]? = some path →
        path.length = p.height ∧ ∀ j, j < p.height →
          path[j]? = Spec.sibVal H (Spec.leafAt p.height p.leafs) (Spec.authAt p.height (p.leafs.map (·.1)) p.auth) j
            (sib (anc p.height x.1 j)) ∧ (path[j]?).isSome)
    ∨ (Spec.wellFormed p = false ∧ ∃ e, intoAuthPaths H p = .err e) := by
  rcases tryFrom_spec H p with ⟨hw, m', htf, inv⟩ | ⟨hw, e, htf⟩
  · left
    refine ⟨hw, ?_⟩
    have ctx := fillCtx_of_wellFormed hw
    obtain ⟨paths, h1, h2, h3⟩ := Res.mapM_exists
      (f := authPathFor { height := p.height, idxs := p.leafs.map (·.1), nodes := m' }) (p.leafs.map (·.1))
      (fun i hi => by
        obtain ⟨path, hp, _⟩ := authPathFor_spec H ctx inv hi
        exact ⟨path, hp⟩)
    refine ⟨paths, by simp [intoAuthPaths, htf, h1], by simpa using h2, ?_⟩
    intro t x path hx hpath
    have hxm : x ∈ p.leafs := List.mem_of_getElem? hx
    obtain ⟨b, hb1, hb2⟩ := h3 t x.1 (by simp [hx])
    rw [hpath] at hb1; cases hb1
    obtain ⟨path', hp1, hp2, hp3⟩ := authPathFor_spec H ctx inv (List.mem_map.2 ⟨x, hxm, rfl⟩)
    rw [hb2] at hp1; cases hp1
    exact ⟨hp2, hp3⟩
  · right
    exact ⟨hw, e, by simp [intoAuthPaths, htf]⟩
end Paths

section Fold
variable {D : Type} [DecidableEq D] (H : D → D → D)

/-- folding a recomputed node value up along the sibling values reproduces the recomputed root -/
theorem fold_to_root {h i : Nat} {leafD authD : Nat → Option D} :
    ∀ (r j0 : Nat) (l : List D), j0 + r = h → l.length = r →
      (∀ t, t < r → l[t]? = Spec.sibVal H leafD authD (j0 + t) (sib (anc h i (j0 + t)))) →
      ∀ v, Spec.refVal H leafD authD j0 (anc h i j0) = some v →
        Spec.refVal H leafD authD h (anc h i h) = some (foldPath H (anc h i j0) v l)
  | 0, j0, l, hj, hl, _, v, hv => by
    have : j0 = h := by omega
    subst this
    have : l = [] := List.eq_nil_of_length_eq_zero hl
    subst this
    simpa [foldPath] using hv
  | r+1, j0, l, hj, hl, hs, v, hv => by
    cases l with
    | nil => simp at hl
    | cons s l' =>
      simp only [foldPath]
      have h0 := hs 0 (by omega)
      simp only [List.getElem?_cons_zero, Nat.add_zero] at h0
      have hstep : Spec.refVal H leafD authD (j0+1) (anc h i (j0+1)) = some (step H (anc h i j0) v s) := by
        rw [anc_succ]
        generalize anc h i j0 = c at hv h0 ⊢
        simp only [Spec.refVal, step]
        unfold Spec.sibVal sib at h0
        by_cases hc : c % 2 = 0
        · have e1 : 2 * (c / 2) = c := by omega
          simp only [hc, if_true] at h0 ⊢
          rw [e1, hv]
          cases hb : Spec.refVal H leafD authD j0 (c + 1) with
          | some b => rw [hb] at h0; cases h0; rfl
          | none => rw [hb] at h0; simp only at h0; rw [← h0]; rfl
        · have e1 : 2 * (c / 2) = c - 1 := by omega
          have e2 : c - 1 + 1 = c := by omega
          simp only [hc, if_false] at h0 ⊢
          rw [e1, e2, hv]
          cases hb : Spec.refVal H leafD authD j0 (c - 1) with
          | some b => rw [hb] at h0; cases h0; rfl
          | none => rw [hb] at h0; simp only at h0; rw [← h0]; rfl
      rw [← anc_succ]
      apply fold_to_root r (j0+1) l' (by omega) (by simpa using hl) _ _ hstep
      intro t ht
      have := hs (t+1) (by omega)
      simp only [List.getElem?_cons_succ] at this
      rw [this, show j0 + (t + 1) = j0 + 1 + t by omega]

/-- every path returned by `into_authentication_paths` authenticates its claimed leaf against the recomputed root -/
theorem paths_fold {p : Proof D} {paths : List (List D)} (hp : intoAuthPaths H p = .ok paths) :
    ∀ (t : Nat) (x : Nat × D) (path : List D), p.leafs[t]? = some x → paths[t]? = some path →
      Spec.refRoot H p = some (foldPath H (x.1 + 2^p.height) x.2 path) := by
  intro t x path hx hpath
  rcases intoAuthPaths_spec H p with ⟨hw, paths', h1, _, h3⟩ | ⟨_, e, h1⟩
  · rw [hp] at h1; cases h1
    obtain ⟨hlen, hsib⟩ := h3 t x path hx hpath
    have hxm : x ∈ p.leafs := List.mem_of_getElem? hx
    have hr := ((wellFormed_iff p).1 hw).2.1 x hxm
    have hleaf : Spec.leafAt p.height p.leafs (x.1 + 2^p.height) = some x.2 :=
      (consistent_iff (n := 2^p.height)).2 ((wellFormed_iff p).1 hw).2.2.1 x hxm
    have := fold_to_root H (h := p.height) (i := x.1) p.height 0 path (by omega) hlen
      (fun t ht => by rw [Nat.zero_add]; exact (hsib t ht).1) x.2 (by rw [anc_zero]; simpa [Spec.refVal] using hleaf)
    rw [anc_top hr, anc_zero] at this
    exact this
  · rw [hp] at h1; cases h1
end Fold

/-! ### accessors and proofs of an honest tree -/
section HonestTree
variable {D : Type} [DecidableEq D] (H : D → D → D)
variable {filler : D} {ds : List D} {h : Nat} {t : Tree D}

theorem tree_numLeafs (hn : ds.length = 2^h) (hm : Spec.IsMerkleTree H filler ds t.nodes) : t.numLeafs = 2^h := by
  unfold Tree.numLeafs; rw [hm.1, hn]; omega

theorem tree_height (hn : ds.length = 2^h) (hm : Spec.IsMerkleTree H filler ds t.nodes) : t.height = .ok h := by
  unfold Tree.height
  rw [tree_numLeafs H hn hm]
  have : 2^h ≠ 0 := by have := Nat.one_le_two_pow (n := h); omega
  simp [Nat.log2_two_pow]

theorem tree_root (hn : ds.length = 2^h) (hm : Spec.IsMerkleTree H filler ds t.nodes) :
    t.root = .ok (nodeVal H (leafFn filler ds h) h 1) := by
  have := merkle_nodeVal H hn hm h 1 (Nat.le_refl h) (by simp) (by simp)
  unfold Tree.root ROOT_INDEX
  rw [this]; rfl

/-- after fix F1: `leaf i` is the `i`-th leaf for `i < n` and `None` for **every** `i ≥ n` (never an inner node);
    the node vector is assumed to be addressable (`2n ≤ 2^64`) -/
theorem tree_leaf (hm : Spec.IsMerkleTree H filler ds t.nodes) (hsz : t.nodes.length ≤ USIZE) (i : Nat) :
    t.leaf i = if i < ds.length then ds[i]? else none := by
  unfold Tree.leaf
  have hlen := hm.1
  have e : t.nodes.length / 2 = ds.length := by omega
  simp only [e]
  by_cases hi : i < ds.length
  · have : ds.length + i < USIZE := by omega
    simp only [this, hi, if_true]
    exact hm.2.2.1 i hi
  · simp only [hi, if_false]
    split
    · rw [List.getElem?_eq_none_iff]; omega
    · rfl

theorem tree_indexedLeafs (hn : ds.length = 2^h) (hm : Spec.IsMerkleTree H filler ds t.nodes) (hsz : t.nodes.length ≤ USIZE)
    {idxs : List Nat} (hi : ∀ i ∈ idxs, i < 2^h) :
    t.indexedLeafs idxs = .ok (idxs.map (fun i => (i, leafFn filler ds h (i + 2^h)))) := by
  unfold Tree.indexedLeafs
  apply Res.mapM_ok
  intro i hi'
  have hlt : i < ds.length := by rw [hn]; exact hi i hi'
  rw [tree_leaf H hm hsz i]
  simp only [hlt, if_true, leafFn, Nat.add_sub_cancel, List.getElem?_eq_getElem hlt, Option.getD_some]

theorem tree_indexedLeafs_err (hm : Spec.IsMerkleTree H filler ds t.nodes) (hsz : t.nodes.length ≤ USIZE)
    {idxs : List Nat} (hbad : ∃ i ∈ idxs, ds.length ≤ i) :
    t.indexedLeafs idxs = .err .leafIndexInvalid := by
  unfold Tree.indexedLeafs
  apply Res.mapM_err
  · intro i _
    rw [tree_leaf H hm hsz i]
    by_cases hlt : i < ds.length
    · right; simp [hlt]
    · left; simp [hlt]
  · obtain ⟨i, hi, hle⟩ := hbad
    refine ⟨i, hi, ?_⟩
    rw [tree_leaf H hm hsz i]
    have : ¬ i < ds.length := by omega
    simp [this]

theorem tree_authStructure (hn : ds.length = 2^h) (hh : h ≤ 62) (hm : Spec.IsMerkleTree H filler ds t.nodes)
    {idxs : List Nat} (hi : ∀ i ∈ idxs, i < 2^h) :
    t.authStructure idxs = .ok ((Spec.needed h idxs).map (fun k => (t.nodes[k]?).getD filler)) := by
  unfold Tree.authStructure
  rw [tree_numLeafs H hn hm, authIdx_eq_needed hh hi]
  simp only [Res.ok_bind]
  apply Res.mapM_ok
  intro k hk
  have hlt : k < t.nodes.length := by
    rw [hm.1, hn, ← two_pow_succ]; exact (mem_needed.1 hk).1
  simp [List.getElem?_eq_getElem hlt]

/-- the proof produced by `inclusion_proof_for_leaf_indices` for in-range indices (any order, repetitions) -/
theorem tree_inclusionProof (hn : ds.length = 2^h) (hh : h ≤ 62) (hm : Spec.IsMerkleTree H filler ds t.nodes)
    (hsz : t.nodes.length ≤ USIZE) {idxs : List Nat} (hi : ∀ i ∈ idxs, i < 2^h) :
    t.inclusionProof idxs = .ok (honestProof filler ds t.nodes h idxs) := by
  unfold Tree.inclusionProof
  rw [tree_height H hn hm, tree_indexedLeafs H hn hm hsz hi, tree_authStructure H hn hh hm hi]
  rfl

theorem tree_inclusionProof_err (hn : ds.length = 2^h) (hm : Spec.IsMerkleTree H filler ds t.nodes)
    (hsz : t.nodes.length ≤ USIZE) {idxs : List Nat} (hbad : ∃ i ∈ idxs, ds.length ≤ i) :
    t.inclusionProof idxs = .err .leafIndexInvalid := by
  unfold Tree.inclusionProof
  rw [tree_height H hn hm, tree_indexedLeafs_err H hm hsz hbad]
  rfl

theorem tree_authStructure_err (hn : ds.length = 2^h) (hh : h ≤ 63) (hm : Spec.IsMerkleTree H filler ds t.nodes)
    {idxs : List Nat} (hbad : ∃ i ∈ idxs, ds.length ≤ i) :
    t.authStructure idxs = .err .leafIndexInvalid := by
  unfold Tree.authStructure
  rw [tree_numLeafs H hn hm, authIdx_err (by exact two_pow_le_of_le hh) (by rw [← hn]; exact hbad)]
  rfl
end HonestTree

section HonestPaths
variable {D : Type} [DecidableEq D] (H : D → D → D)
variable {filler : D} {ds nodes : List D} {h : Nat} {idxs : List Nat}

/-- sibling values of an honest proof are the tree's nodes -/
theorem honest_sibVal (hn : ds.length = 2^h) (hh : h ≤ 31) (hm : Spec.IsMerkleTree H filler ds nodes)
    (hi : ∀ i ∈ idxs, i < 2^h) {i j : Nat} (hi' : i ∈ idxs) (hj : j < h) :
    Spec.sibVal H (Spec.leafAt h (honestProof filler ds nodes h idxs).leafs)
      (Spec.authAt h idxs (honestProof filler ds nodes h idxs).auth) j (sib (anc h i j))
      = some (nodeVal H (leafFn filler ds h) j (sib (anc h i j))) := by
  have hw := honest_wellFormed (filler := filler) (ds := ds) (nodes := nodes) hh hi
  have ctx : FillCtx h idxs (Spec.leafAt h (honestProof filler ds nodes h idxs).leafs)
      (Spec.authAt h idxs (honestProof filler ds nodes h idxs).auth) := by
    have c := fillCtx_of_wellFormed hw
    rw [honest_idxs] at c
    exact c
  unfold Spec.sibVal
  by_cases hcov : ∃ i' ∈ idxs, anc h i' j = sib (anc h i j)
  · obtain ⟨i', hi'', e⟩ := hcov
    have := honest_refVal H hn hh hm hi j (by omega) i' hi''
    rw [e] at this
    rw [this]
  · have hnn : ∀ i' ∈ idxs, anc h i' j ≠ sib (anc h i j) := fun i' hi'' e => hcov ⟨i', hi'', e⟩
    have hnc := not_covered_of_level ctx hi' (show j ≤ h by omega) (sib_div_two _) hnn
    have hs : Spec.covered h idxs (sib (sib (anc h i j))) = true := by
      rw [sib_sib]; exact covered_of_anc hi' (by omega)
    have r := anc_range (hi i hi') (show j ≤ h by omega)
    have : 2^1 ≤ 2^(h-j) := two_pow_le_of_le (by omega)
    have h2 : 2 ≤ sib (anc h i j) := two_le_sib.2 (by omega)
    have hmem : sib (anc h i j) ∈ Spec.needed h idxs :=
      mem_needed.2 ⟨sib_lt_two_pow (covered_lt hi hs) h2, h2, hnc, hs⟩
    rw [refVal_none H ctx j _ hnn]
    simp only
    rw [honest_authAt hmem]
    have e2 := two_pow_succ (h - j)
    have hrange : 2^(h-j) ≤ sib (anc h i j) ∧ sib (anc h i j) < 2^(h-j+1) := by
      have hpos : 1 ≤ 2^(h-j-1) := Nat.one_le_two_pow
      have e3 : 2^(h-j) = 2 * 2^(h-j-1) := by rw [← two_pow_succ]; congr 1; omega
      unfold sib; split <;> omega
    rw [merkle_nodeVal H hn hm j _ (by omega) hrange.1 hrange.2]
    rfl

/-- **honest proofs expand to the tree's sibling paths** -/
theorem honest_paths (hn : ds.length = 2^h) (hh : h ≤ 31) (hm : Spec.IsMerkleTree H filler ds nodes)
    (hi : ∀ i ∈ idxs, i < 2^h) :
    intoAuthPaths H (honestProof filler ds nodes h idxs)
      = .ok (idxs.map (fun i => authPath H (leafFn filler ds h) 0 h (i + 2^h))) := by
  have hw := honest_wellFormed (filler := filler) (ds := ds) (nodes := nodes) hh hi
  rcases intoAuthPaths_spec H (honestProof filler ds nodes h idxs) with ⟨_, paths, h1, h2, h3⟩ | ⟨hw', _⟩
  · rw [h1]
    congr 1
    apply List.ext_getElem?
    intro t
    have hlen : (honestProof filler ds nodes h idxs).leafs.length = idxs.length := by simp [honestProof]
    by_cases ht : t < idxs.length
    · have hx : (honestProof filler ds nodes h idxs).leafs[t]? = some (idxs[t], leafFn filler ds h (idxs[t] + 2^h)) := by
        simp [honestProof, List.getElem?_eq_getElem ht]
      have hpt : t < paths.length := by omega
      obtain ⟨hl, hs⟩ := h3 t _ paths[t] hx (List.getElem?_eq_getElem hpt)
      rw [List.getElem?_eq_getElem hpt, List.getElem?_map, List.getElem?_eq_getElem ht]
      simp only [Option.map_some, Option.some.injEq]
      apply List.ext_getElem?
      intro j
      rw [authPath_get]
      by_cases hj : j < h
      · have := (hs j hj).1
        simp only [honest_idxs] at this
        rw [this]
        refine Eq.trans (honest_sibVal H hn hh hm hi (List.getElem_mem ht) hj) ?_
        simp [hj, anc]
      · simp only [hj, if_false]
        rw [List.getElem?_eq_none_iff]
        have : (honestProof filler ds nodes h idxs).height = h := rfl
        omega
    · rw [List.getElem?_eq_none_iff.2 (by omega), List.getElem?_eq_none_iff.2 (by simp; omega)]
  · rw [hw] at hw'; cases hw'
end HonestPaths

end TF.Merkle
