import TF.Gen.CodecGeneric
import TF.Proofs.GenBridgeCodec
/-!
Bridge between the **generic** codec combinators regenerated from source (`TF/Gen/CodecGeneric.lean`, written by
`tools/rs2lean_codec.py`) and the list / composite cases of the hand model `TF/Model/Codec.lean`.  Core Lean only.

The regenerated definitions take the trait methods of the type parameter as parameter functions; every bridge below is
stated for **all** item functions: `Item T_decode toVal dec` says that the item decoder `T_decode` (on raw words, into `Res`)
is observed as the model decoder `dec` (on canonical values, into `Outcome`).  Error *kinds* are not compared (the Rust
code wraps the item's error into `InnerDecodingFailure`, the model keeps the kind): `Obs` is `ok v | err | panic`.
-/
set_option linter.unusedVariables false
namespace TF.GenBridge.CodecG
open TF.Gen TF.Gen.Loops TF.Codec TF.RustStd TF.GenBridge.Codec

/-- what is observed of a decoder: the value, *an* error, or a panic -/
inductive Obs (α : Type) where
  | ok (a : α) | err | panic

def obsM {α : Type} : Outcome α → Obs α
  | .ok a => .ok a
  | .err _ => .err
  | .panic => .panic

def obsR {ε α β : Type} (f : α → β) : Res ε α → Obs β
  | .ok a => .ok (f a)
  | .err _ => .err
  | .panic => .panic

/-- the item decoder `T_decode` (raw words) is observed as the model's item decoder `dec` (canonical values) -/
def Item {ε α : Type} (T_decode : List Nat → Res ε α) (toVal : α → Val) (dec : List Nat → Outcome Val) : Prop :=
  ∀ r, obsR toVal (T_decode r) = obsM (dec (vals r))

theorem tryQ_ok {ε ε' α β : Type} (a : α) (conv : ε → ε') (k : α → Res ε' β) : Res.tryQ (.ok a) conv k = k a := rfl
theorem tryQ_error {ε ε' α β : Type} (e : ε) (conv : ε → ε') (k : α → Res ε' β) :
    Res.tryQ (.error e) conv k = .err (conv e) := rfl
theorem need_true {ε α : Type} (k : Res ε α) : Res.need true k = k := rfl
theorem need_false {ε α : Type} (k : Res ε α) : Res.need false k = .panic := rfl
theorem need_decide {ε α : Type} (p : Prop) [Decidable p] (k : Res ε α) (h : p) : Res.need (decide p) k = k := by
  simp [Res.need, h]
theorem need_decide_not {ε α : Type} (p : Prop) [Decidable p] (k : Res ε α) (h : ¬ p) : Res.need (decide p) k = .panic := by
  simp [Res.need, h]

theorem vals_length (r : List Nat) : (vals r).length = r.length := by simp [vals]
theorem vals_take (k : Nat) (r : List Nat) : vals (r.take k) = (vals r).take k := by simp [vals, List.map_take]
theorem vals_drop (k : Nat) (r : List Nat) : vals (r.drop k) = (vals r).drop k := by simp [vals, List.map_drop]

/-! ### `bfield_codec_decode_list_with_statically_sized_items` -/

/-- one iteration of the `for raw_item in sequence.chunks_exact(item_length)` loop -/
def stepS {ε α : Type} (T_decode : List Nat → Res ε α) (raw : List Nat) (acc : List α) : Res String (List α) :=
  match T_decode raw with
  | .ok v => .ok (acc ++ [v])
  | .err _ => .err "InnerDecodingFailure"
  | .panic => .panic

theorem static_loop {ε α : Type} (T_decode : List Nat → Res ε α) (toVal : α → Val) (dec : List Nat → Outcome Val)
    (h : Item T_decode toVal dec) (body : List Nat → List α → Res String (List α))
    (hb : ∀ raw acc, body raw acc = stepS T_decode raw acc) (w : Nat) (hw : w ≠ 0) :
    ∀ (n f : Nat) (r : List Nat) (acc : List α), r.length = n * w → n ≤ f →
      obsR (List.map toVal) (Res.loop body (chunksAux w f r) acc) =
        (match decodeChunks dec w n (vals r) with
         | .ok vs => Obs.ok (acc.map toVal ++ vs)
         | .err _ => Obs.err
         | .panic => Obs.panic) := by
  intro n
  induction n with
  | zero =>
    intro f r acc hl _
    have : r = [] := List.eq_nil_of_length_eq_zero (by simpa using hl)
    subst this
    have hw' : 0 < w ∨ w = 0 := by omega
    cases f <;> simp [chunksAux, Res.loop, decodeChunks, obsR, hw']
  | succ n ih =>
    intro f r acc hl hf
    obtain ⟨f, rfl⟩ : ∃ f', f = f' + 1 := ⟨f - 1, by omega⟩
    have hlen : w ≤ r.length := by rw [hl, Nat.succ_mul]; omega
    have hnot : ¬ (r.length < w ∨ w = 0) := by omega
    simp only [chunksAux, if_neg hnot, Res.loop, decodeChunks, hb, stepS]
    have hi := h (r.take w)
    rw [vals_take] at hi
    have hl' : (r.drop w).length = n * w := by rw [List.length_drop, hl, Nat.succ_mul]; omega
    have ih' := ih f (r.drop w)
    cases hd : T_decode (List.take w r) with
    | ok v =>
      rw [hd] at hi
      cases hm : dec (List.take w (vals r)) with
      | ok v' =>
        rw [hm] at hi
        simp only [obsR, obsM, Obs.ok.injEq] at hi
        simp only []
        rw [ih' (acc ++ [v]) hl' (by omega), vals_drop]
        cases decodeChunks dec w n (List.drop w (vals r)) <;> simp [hi]
      | err k => rw [hm] at hi; simp [obsR, obsM] at hi
      | panic => rw [hm] at hi; simp [obsR, obsM] at hi
    | err e =>
      rw [hd] at hi
      cases hm : dec (List.take w (vals r)) with
      | ok v' => rw [hm] at hi; simp [obsR, obsM] at hi
      | err k => simp [obsR]
      | panic => rw [hm] at hi; simp [obsR, obsM] at hi
    | panic =>
      rw [hd] at hi
      cases hm : dec (List.take w (vals r)) with
      | ok v' => rw [hm] at hi; simp [obsR, obsM] at hi
      | err k => rw [hm] at hi; simp [obsR, obsM] at hi
      | panic => simp [obsR]

/-- **static list decoder**, regenerated = hand model, for every item decoder and every static width (including width
    `0`: both panic in `chunks_exact(0)` -- finding F10), every count and every sequence: `checked_mul` overflow, the two
    comparisons with the remaining length, the chunk loop with its early exit -/
theorem gen_decode_list_static {ε α : Type} (T_decode : List Nat → Res ε α) (into : ε → DynErr) (toVal : α → Val)
    (dec : List Nat → Outcome Val) (h : Item T_decode toVal dec) (w n : Nat) (r : List Nat) :
    obsR (List.map toVal) (codec_decode_list_static (some w) T_decode into n r) = obsM (decodeList dec (some w) n (vals r)) := by
  simp only [codec_decode_list_static, Res.unwrapO, TF.RustStd.checked_mul, decodeList, vals_length]
  by_cases h1 : n * w < 18446744073709551616
  · have h1' : ¬ n * w ≥ 2 ^ 64 := by omega
    rw [if_pos h1, if_neg h1']
    simp only [decide_eq_true_eq]
    by_cases h2 : r.length < n * w
    · rw [if_pos h2, if_pos h2]; rfl
    · rw [if_neg h2, if_neg h2]
      by_cases h3 : r.length > n * w
      · rw [if_pos h3, if_pos h3]; rfl
      · rw [if_neg h3, if_neg h3]
        by_cases h4 : w = 0
        · subst h4; simp [Res.need, obsR, obsM]
        · have h4' : (w != 0) = true := by simp [h4]
          rw [if_neg h4]
          simp only [Res.need, h4', if_true, Res.forIn, TF.RustStd.chunks_exact]
          have hl : r.length = n * w := by omega
          have hn : n ≤ r.length := by
            rw [hl]; exact Nat.le_mul_of_pos_right n (Nat.pos_of_ne_zero h4)
          have key := static_loop T_decode toVal dec h
            (fun raw_item st_2 => let vec_v := st_2
              (Res.call (T_decode raw_item) (fun r_3 =>
                (Res.tryQ (Except.mapError (fun e => (into e)) r_3) (fun _ => "InnerDecodingFailure") (fun t_4 =>
                  (let item : α := t_4
                   (let vec_v := vec_v ++ [item]
                    (Res.ok vec_v))))))))
            (by intro raw acc; simp only [stepS, Res.call]; cases T_decode raw <;> rfl) w h4 n r.length r [] hl hn
          simp only [List.map_nil, List.nil_append] at key
          revert key
          generalize Res.loop _ (chunksAux w r.length r) ([] : List α) = L
          intro key
          cases L with
          | ok a => simp only [obsR] at key ⊢; rw [key]; cases decodeChunks dec w n (vals r) <;> rfl
          | err e => simp only [obsR] at key ⊢; rw [key]; cases decodeChunks dec w n (vals r) <;> rfl
          | panic => simp only [obsR] at key ⊢; rw [key]; cases decodeChunks dec w n (vals r) <;> rfl
  · have h1' : n * w ≥ 2 ^ 64 := by omega
    rw [if_neg h1, if_pos h1']; rfl

/-! ### `bfield_codec_decode_list_with_dynamically_sized_items` -/

/-- every element is a `u64` word (what a `BFieldElement` is) -/
def Words (r : List Nat) : Prop := ∀ x ∈ r, x < 18446744073709551616

/-- one iteration of the `for _ in 0..num_items` loop on the state `(sequence_index, vec)`; `lenOf` is `BFieldElement::value`
    (a parameter so that `simp` never looks into the Montgomery arithmetic) -/
def stepD {ε α : Type} (lenOf : Nat → Nat) (T_decode : List Nat → Res ε α) (seq : List Nat) (st : Nat × List α) : Res String (Nat × List α) :=
  match seq[st.1]? with
  | none => .err "MissingLengthIndicator"
  | some x =>
    if lenOf x < 18446744073709551616 then
      if st.1 + 1 < 18446744073709551616 then
        if st.1 + 1 + lenOf x < 18446744073709551616 then
          if seq.length < st.1 + 1 + lenOf x then .err "SequenceTooShort"
          else match T_decode ((seq.drop (st.1 + 1)).take (lenOf x)) with
            | .ok v => .ok (st.1 + 1 + lenOf x, st.2 ++ [v])
            | .err _ => .err "InnerDecodingFailure"
            | .panic => .panic
        else .panic
      else .panic
    else .err "TryFromIntError"

/-- the loop state against the model's `(items, rest)` -/
def relD {α : Type} (toVal : α → Val) (seq : List Nat) (acc : List α) :
    Res String (Nat × List α) → Outcome (List Val × List Nat) → Prop
  | .ok (i, a), .ok (vs, rest) => a.map toVal = acc.map toVal ++ vs ∧ rest = (vals seq).drop i ∧ i ≤ seq.length
  | .err _, .err _ => True
  | .panic, .panic => True
  | _, _ => False

theorem dyn_loop {ε α β : Type} (T_decode : List Nat → Res ε α) (toVal : α → Val) (dec : List Nat → Outcome Val)
    (h : Item T_decode toVal dec) (seq : List Nat) (hw : Words seq) (lenOf : Nat → Nat) (hlen : ∀ x, lenOf x = bfe_value x)
    (body : β → Nat × List α → Res String (Nat × List α))
    (hb : ∀ i st, body i st = stepD lenOf T_decode seq st) :
    ∀ (l : List β) (idx : Nat) (acc : List α), idx ≤ seq.length →
      relD toVal seq acc (Res.loop body l (idx, acc)) (decodeDyn dec l.length idx ((vals seq).drop idx)) := by
  intro l
  induction l with
  | nil => intro idx acc hi; simp [Res.loop, decodeDyn, relD, hi]
  | cons b l ih =>
    intro idx acc hi
    simp only [Res.loop, hb, stepD, List.length_cons, decodeDyn]
    by_cases hlt : idx < seq.length
    · have hv : idx < (vals seq).length := by rw [vals_length]; exact hlt
      rw [List.drop_eq_getElem_cons hv, List.getElem?_eq_getElem hlt]
      have hx : (vals seq)[idx] = lenOf seq[idx] := by rw [hlen]; simp only [vals, List.getElem_map]
      have hxw : seq[idx] < 18446744073709551616 := hw _ (List.getElem_mem hlt)
      have hvl : lenOf seq[idx] < 18446744073709551616 := by
        rw [hlen]; exact Nat.lt_trans (TF.BF.value_lt seq[idx] hxw) TF.BF.Pn_lt_W
      rw [hx]
      simp only []
      generalize lenOf seq[idx] = len at hvl ⊢
      rw [if_pos hvl]
      by_cases h1 : idx + 1 + len ≥ 2 ^ 64
      · rw [if_pos h1]
        by_cases h0 : idx + 1 < 18446744073709551616
        · rw [if_pos h0, if_neg (by omega)]; simp [relD]
        · rw [if_neg h0]; simp [relD]
      · rw [if_neg h1, if_pos (by omega), if_pos (by omega)]
        simp only [List.length_drop, vals_length]
        by_cases h2 : seq.length < idx + 1 + len
        · rw [if_pos h2, if_pos (by omega)]; simp [relD]
        · rw [if_neg h2, if_neg (by omega)]
          have hit := h ((seq.drop (idx + 1)).take len)
          rw [vals_take, vals_drop] at hit
          rw [List.drop_drop]
          have e1 : idx + 1 + len = len + (idx + 1) := by omega
          cases hd : T_decode (List.take len (List.drop (idx + 1) seq)) with
          | ok v =>
            rw [hd] at hit
            cases hm : dec (List.take len (List.drop (idx + 1) (vals seq))) with
            | ok v' =>
              rw [hm] at hit
              simp only [obsR, obsM, Obs.ok.injEq] at hit
              simp only []
              have ih2 := ih (idx + 1 + len) (acc ++ [v]) (by omega)
              revert ih2
              generalize Res.loop body l (idx + 1 + len, acc ++ [v]) = L
              generalize decodeDyn dec l.length (idx + 1 + len) (List.drop (idx + 1 + len) (vals seq)) = M
              intro ih2
              cases L with
              | ok p =>
                obtain ⟨i, a⟩ := p
                cases M with
                | ok q => obtain ⟨vs, rest⟩ := q; simp only [relD] at ih2 ⊢; simp [ih2.1, ih2.2.1, ih2.2.2, hit]
                | err k => simp [relD] at ih2
                | panic => simp [relD] at ih2
              | err e => cases M <;> simp [relD] at ih2 ⊢
              | panic => cases M <;> simp [relD] at ih2 ⊢
            | err k => rw [hm] at hit; simp [obsR, obsM] at hit
            | panic => rw [hm] at hit; simp [obsR, obsM] at hit
          | err e =>
            rw [hd] at hit
            cases hm : dec (List.take len (List.drop (idx + 1) (vals seq))) with
            | ok v' => rw [hm] at hit; simp [obsR, obsM] at hit
            | err k => simp [relD]
            | panic => rw [hm] at hit; simp [obsR, obsM] at hit
          | panic =>
            rw [hd] at hit
            cases hm : dec (List.take len (List.drop (idx + 1) (vals seq))) with
            | ok v' => rw [hm] at hit; simp [obsR, obsM] at hit
            | err k => rw [hm] at hit; simp [obsR, obsM] at hit
            | panic => simp [relD]
    · have hge : seq.length ≤ idx := by omega
      have hd : (vals seq).drop idx = [] := List.drop_eq_nil_of_le (by rw [vals_length]; exact hge)
      rw [hd, List.getElem?_eq_none hge]
      simp [relD]

theorem dyn_final {ε α β : Type} (T_decode : List Nat → Res ε α) (toVal : α → Val) (dec : List Nat → Outcome Val)
    (h : Item T_decode toVal dec) (r : List Nat) (hw : Words r) (n : Nat) (l : List β) (hl : l.length = n)
    (lenOf : Nat → Nat) (hlen : ∀ x, lenOf x = bfe_value x)
    (body : β → Nat × List α → Res String (Nat × List α)) (hb : ∀ i st, body i st = stepD lenOf T_decode r st) :
    obsR (List.map toVal)
      (Res.forIn l (0, ([] : List α)) body
        (fun s' => (if (r.length != s'.1) then (Res.err "SequenceTooLong") else (Res.ok s'.2)))) =
    obsM (match decodeDyn dec n 0 (vals r) with
      | .ok (vs, []) => .ok vs
      | .ok (_, _ :: _) => .err .tooLong
      | .err k => .err k
      | .panic => .panic) := by
  have key := dyn_loop T_decode toVal dec h r hw lenOf hlen body hb l 0 [] (Nat.zero_le _)
  simp only [hl, List.drop_zero] at key
  simp only [Res.forIn]
  revert key
  generalize Res.loop body l (0, ([] : List α)) = L
  generalize decodeDyn dec n 0 (vals r) = M
  intro key
  cases L with
  | ok p =>
    obtain ⟨i, a⟩ := p
    cases M with
    | ok q =>
      obtain ⟨vs, rest⟩ := q
      simp only [relD] at key
      obtain ⟨k1, k2, k3⟩ := key
      simp only []
      by_cases hi : r.length = i
      · have : rest = [] := by rw [k2]; exact List.drop_eq_nil_of_le (by rw [vals_length]; omega)
        subst this
        simp [hi, obsR, obsM, k1]
      · have hne : (r.length != i) = true := by simp [hi]
        rw [if_pos hne]
        cases rest with
        | nil =>
          exfalso
          have := congrArg List.length k2
          simp only [List.length_nil, List.length_drop, vals_length] at this
          omega
        | cons _ _ => rfl
    | err k => simp [relD] at key
    | panic => simp [relD] at key
  | err e => cases M <;> first | rfl | (simp [relD] at key)
  | panic => cases M <;> first | rfl | (simp [relD] at key)

/-- **dynamic list decoder**, regenerated = hand model, for every item decoder, count and sequence of words: the per-item
    length prefix (`get` / `usize::try_from`), `sequence_index + item_length` (overflow = panic), the comparison with the
    remaining length, the item slice, the early exits, the final "nothing left" check -/
theorem gen_decode_list_dynamic {ε α : Type} (T_decode : List Nat → Res ε α) (into : ε → DynErr) (toVal : α → Val)
    (dec : List Nat → Outcome Val) (h : Item T_decode toVal dec) (n : Nat) (r : List Nat) (hw : Words r) :
    obsR (List.map toVal) (codec_decode_list_dynamic T_decode into n r) = obsM (decodeList dec none n (vals r)) := by
  simp only [codec_decode_list_dynamic, decodeList]
  obtain ⟨lenOf, hlen⟩ : ∃ f : Nat → Nat, ∀ x, f x = bfe_value x := ⟨bfe_value, fun _ => rfl⟩
  have e1 : ∀ y, codec_usize_try_from_bfe y = int_try_from 18446744073709551616 (lenOf y) := fun y => by rw [hlen]; rfl
  have e2 : ∀ y, codec_usize_try_from_bfe_ok y = true := fun y => TF.BF.value_ok y
  refine dyn_final T_decode toVal dec h r hw n (List.range n) List.length_range lenOf hlen _ ?_
  intro i st
  obtain ⟨idx, acc⟩ := st
  show _ = stepD lenOf T_decode r (idx, acc)
  unfold stepD
  cases hget : r[idx]? with
  | none => rfl
  | some x =>
    simp only [okOr]
    rw [tryQ_ok, e2, need_true, e1]
    unfold int_try_from
    generalize lenOf x = len
    by_cases h0 : len < 18446744073709551616
    · rw [if_pos h0, if_pos h0, tryQ_ok]
      by_cases h1 : idx + 1 < 18446744073709551616
      · rw [if_pos h1, need_decide _ _ h1]
        by_cases h2 : idx + 1 + len < 18446744073709551616
        · rw [if_pos h2, need_decide _ _ h2]
          by_cases h3 : r.length < idx + 1 + len
          · rw [if_pos h3, if_pos (by simpa using h3)]
          · rw [if_neg h3, if_neg (by simpa using h3), need_decide _ _ h2]
            have h4 : (decide (idx + 1 ≤ idx + 1 + len) && decide (idx + 1 + len ≤ r.length)) = true := by
              simp only [Bool.and_eq_true, decide_eq_true_eq]; omega
            rw [h4, need_true, Nat.add_sub_cancel_left]
            unfold Res.call
            cases T_decode (List.take len (List.drop (idx + 1) r)) with
            | ok v => simp only [Except.mapError]; rw [tryQ_ok, need_decide _ _ h2]
            | err e => rfl
            | panic => rfl
        · rw [if_neg h2, need_decide_not _ _ h2]
      · rw [if_neg h1, need_decide_not _ _ h1]
    · rw [if_neg h0, if_neg h0, tryQ_error]

/-! ### `bfield_codec_decode_list` (dispatch on `T::static_length()`) -/

/-- **list decoder**, regenerated = hand model `decodeList`, for every item decoder and static length -/
theorem gen_decode_list {ε α : Type} (sl : Option Nat) (T_decode : List Nat → Res ε α) (into : ε → DynErr) (toVal : α → Val)
    (dec : List Nat → Outcome Val) (h : Item T_decode toVal dec) (n : Nat) (r : List Nat) (hw : Words r) :
    obsR (List.map toVal) (codec_decode_list sl T_decode into n r) = obsM (decodeList dec sl n (vals r)) := by
  cases sl with
  | some w =>
    have := gen_decode_list_static T_decode into toVal dec h w n r
    simp only [codec_decode_list, Option.isSome_some, if_true, Res.call]
    revert this
    generalize codec_decode_list_static (some w) T_decode into n r = L
    intro this
    rw [← this]
    cases L <;> rfl
  | none =>
    have := gen_decode_list_dynamic T_decode into toVal dec h n r hw
    simp only [codec_decode_list, Option.isSome_none, Bool.false_eq_true, if_false, Res.call]
    revert this
    generalize codec_decode_list_dynamic T_decode into n r = L
    intro this
    rw [← this]
    cases L <;> rfl

/-! ### `bfield_codec_encode_list` -/

theorem vals_append (a b : List Nat) : vals (a ++ b) = vals a ++ vals b := by simp [vals]

theorem from_usize_value (n : Nat) (h : n < TF.BF.Pn) : vals [codec_bfe_from_usize n] = [n] := by
  simp only [vals, List.map_cons, List.map_nil, codec_bfe_from_usize]
  rw [TF.BF.value_new n h]

/-- **list encoder**, regenerated = hand model `encodeItems`, for every item encoder: items in order, each prefixed by its
    length iff the item type is dynamically sized (lengths `< P`, as everything that can be materialised) -/
theorem gen_encode_list {α : Type} (sl : Option Nat) (enc : α → List Nat) (toVal : α → Val) (encM : Val → List Nat)
    (he : ∀ x, vals (enc x) = encM (toVal x)) (xs : List α) (hl : ∀ x ∈ xs, (enc x).length < TF.BF.Pn) :
    vals (codec_encode_list sl enc xs) = encodeItems encM sl.isNone (xs.map toVal) := by
  cases sl with
  | some w =>
    simp only [codec_encode_list, Option.isSome_some, if_true, Option.isNone_some]
    clear hl
    induction xs with
    | nil => rfl
    | cons x xs ih => simp only [List.flatMap_cons, vals_append, List.map_cons, encodeItems, prefixed, ih, he]; rfl
  | none =>
    simp only [codec_encode_list, Option.isSome_none, Bool.false_eq_true, if_false, Option.isNone_none]
    have gen : ∀ (xs : List α) (acc : List Nat), (∀ x ∈ xs, (enc x).length < TF.BF.Pn) →
        vals (List.foldl (fun st_1 element_v => st_1 ++ [codec_bfe_from_usize (enc element_v).length] ++ enc element_v) acc xs)
          = vals acc ++ encodeItems encM true (xs.map toVal) := by
      intro xs
      induction xs with
      | nil => intro acc _; simp
      | cons x xs ih =>
        intro acc hl
        have hx := hl x (List.mem_cons_self)
        simp only [List.foldl_cons, List.map_cons, encodeItems, prefixed, if_true]
        rw [ih _ (fun y hy => hl y (List.mem_cons_of_mem _ hy)), vals_append, vals_append, from_usize_value _ hx, he]
        have : (encM (toVal x)).length = (enc x).length := by rw [← he, vals_length]
        simp [this]
    have := gen xs [] hl
    simpa [vals] using this

end TF.GenBridge.CodecG
