import TF.Gen.CodecGeneric
import TF.Proofs.GenBridgeCodec
/-!
Bridge between the **generic** codec combinators regenerated from source (`TF/Gen/CodecGeneric.lean`, written by
`tools/rs2lean_codec.py`) and the list / composite cases of the hand model `TF/Model/Codec.lean`.  Core Lean only.

The regenerated definitions take the trait methods of the type parameter as parameter functions; every bridge below is
stated for **all** item functions: `Item T_decode toVal dec` says that the item decoder `T_decode` (on raw words, into `Res`)
is observed as the model decoder `dec` (on canonical values, into `Outcome`).  Error *kinds* are not compared (the Rust
code wraps the item's error into `InnerDecodingFailure`, the model keeps the kind): `Obs` is `ok v | err | panic`.
-/
set_option linter.unusedVariables false
namespace TF.GenBridge.CodecG
open TF.Gen TF.Gen.Loops TF.Codec TF.RustStd TF.GenBridge.Codec

/-- what is observed of a decoder: the value, *an* error, or a panic -/
inductive Obs (α : Type) where
  | ok (a : α) | err | panic

def obsM {α : Type} : Outcome α → Obs α
  | .ok a => .ok a
  | .err _ => .err
  | .panic => .panic

def obsR {ε α β : Type} (f : α → β) : Res ε α → Obs β
  | .ok a => .ok (f a)
  | .err _ => .err
  | .panic => .panic

/-- every element is a `u64` word (what a `BFieldElement` is) -/
def Words (r : List Nat) : Prop := ∀ x ∈ r, x < 18446744073709551616

theorem Words_take (k : Nat) (r : List Nat) (h : Words r) : Words (r.take k) := fun x hx => h x (List.mem_of_mem_take hx)
theorem Words_drop (k : Nat) (r : List Nat) (h : Words r) : Words (r.drop k) := fun x hx => h x (List.mem_of_mem_drop hx)

/-- the item decoder `T_decode` (on sequences of raw `u64` words) is observed as the model's item decoder `dec` (on their
    canonical values) -/
def Item {ε α : Type} (T_decode : List Nat → Res ε α) (toVal : α → Val) (dec : List Nat → Outcome Val) : Prop :=
  ∀ r, Words r → obsR toVal (T_decode r) = obsM (dec (vals r))

theorem tryQ_ok {ε ε' α β : Type} (a : α) (conv : ε → ε') (k : α → Res ε' β) : Res.tryQ (.ok a) conv k = k a := rfl
theorem tryQ_error {ε ε' α β : Type} (e : ε) (conv : ε → ε') (k : α → Res ε' β) :
    Res.tryQ (.error e) conv k = .err (conv e) := rfl
theorem unwrapO_some {ε α β : Type} (a : α) (k : α → Res ε β) : Res.unwrapO (some a) k = k a := rfl
theorem unwrapO_none {ε α β : Type} (k : α → Res ε β) : Res.unwrapO none k = .panic := rfl
theorem call_ok {ε ε' α β : Type} (a : α) (k : Except ε α → Res ε' β) : Res.call (Res.ok a) k = k (.ok a) := rfl
theorem call_err {ε ε' α β : Type} (e : ε) (k : Except ε α → Res ε' β) : Res.call (Res.err e : Res ε α) k = k (.error e) := rfl
theorem call_panic {ε ε' α β : Type} (k : Except ε α → Res ε' β) : Res.call (Res.panic : Res ε α) k = .panic := rfl
theorem need_true {ε α : Type} (k : Res ε α) : Res.need true k = k := rfl
theorem need_false {ε α : Type} (k : Res ε α) : Res.need false k = .panic := rfl
theorem need_decide {ε α : Type} (p : Prop) [Decidable p] (k : Res ε α) (h : p) : Res.need (decide p) k = k := by
  simp [Res.need, h]
theorem need_decide_not {ε α : Type} (p : Prop) [Decidable p] (k : Res ε α) (h : ¬ p) : Res.need (decide p) k = .panic := by
  simp [Res.need, h]

theorem vals_length (r : List Nat) : (vals r).length = r.length := by simp [vals]
theorem vals_take (k : Nat) (r : List Nat) : vals (r.take k) = (vals r).take k := by simp [vals, List.map_take]
theorem vals_drop (k : Nat) (r : List Nat) : vals (r.drop k) = (vals r).drop k := by simp [vals, List.map_drop]

/-! ### `bfield_codec_decode_list_with_statically_sized_items` -/

/-- one iteration of the `for raw_item in sequence.chunks_exact(item_length)` loop -/
def stepS {ε α : Type} (T_decode : List Nat → Res ε α) (raw : List Nat) (acc : List α) : Res String (List α) :=
  match T_decode raw with
  | .ok v => .ok (acc ++ [v])
  | .err _ => .err "InnerDecodingFailure"
  | .panic => .panic

theorem static_loop {ε α : Type} (T_decode : List Nat → Res ε α) (toVal : α → Val) (dec : List Nat → Outcome Val)
    (h : Item T_decode toVal dec) (body : List Nat → List α → Res String (List α))
    (hb : ∀ raw acc, body raw acc = stepS T_decode raw acc) (w : Nat) (hw : w ≠ 0) :
    ∀ (n f : Nat) (r : List Nat) (acc : List α), Words r → r.length = n * w → n ≤ f →
      obsR (List.map toVal) (Res.loop body (chunksAux w f r) acc) =
        (match decodeChunks dec w n (vals r) with
         | .ok vs => Obs.ok (acc.map toVal ++ vs)
         | .err _ => Obs.err
         | .panic => Obs.panic) := by
  intro n
  induction n with
  | zero =>
    intro f r acc _ hl _
    have : r = [] := List.eq_nil_of_length_eq_zero (by simpa using hl)
    subst this
    have hw' : 0 < w ∨ w = 0 := by omega
    cases f <;> simp [chunksAux, Res.loop, decodeChunks, obsR, hw']
  | succ n ih =>
    intro f r acc hwr hl hf
    obtain ⟨f, rfl⟩ : ∃ f', f = f' + 1 := ⟨f - 1, by omega⟩
    have hlen : w ≤ r.length := by rw [hl, Nat.succ_mul]; omega
    have hnot : ¬ (r.length < w ∨ w = 0) := by omega
    simp only [chunksAux, if_neg hnot, Res.loop, decodeChunks, hb, stepS]
    have hi := h (r.take w) (Words_take w r hwr)
    rw [vals_take] at hi
    have hl' : (r.drop w).length = n * w := by rw [List.length_drop, hl, Nat.succ_mul]; omega
    have ih' := ih f (r.drop w)
    cases hd : T_decode (List.take w r) with
    | ok v =>
      rw [hd] at hi
      cases hm : dec (List.take w (vals r)) with
      | ok v' =>
        rw [hm] at hi
        simp only [obsR, obsM, Obs.ok.injEq] at hi
        simp only []
        rw [ih' (acc ++ [v]) (Words_drop w r hwr) hl' (by omega), vals_drop]
        cases decodeChunks dec w n (List.drop w (vals r)) <;> simp [hi]
      | err k => rw [hm] at hi; simp [obsR, obsM] at hi
      | panic => rw [hm] at hi; simp [obsR, obsM] at hi
    | err e =>
      rw [hd] at hi
      cases hm : dec (List.take w (vals r)) with
      | ok v' => rw [hm] at hi; simp [obsR, obsM] at hi
      | err k => simp [obsR]
      | panic => rw [hm] at hi; simp [obsR, obsM] at hi
    | panic =>
      rw [hd] at hi
      cases hm : dec (List.take w (vals r)) with
      | ok v' => rw [hm] at hi; simp [obsR, obsM] at hi
      | err k => rw [hm] at hi; simp [obsR, obsM] at hi
      | panic => simp [obsR]

/-- **static list decoder**, regenerated = hand model, for every item decoder and every static width (including width
    `0`: both panic in `chunks_exact(0)` -- finding F10), every count and every sequence: `checked_mul` overflow, the two
    comparisons with the remaining length, the chunk loop with its early exit -/
theorem gen_decode_list_static {ε α : Type} (T_decode : List Nat → Res ε α) (into : ε → DynErr) (toVal : α → Val)
    (dec : List Nat → Outcome Val) (h : Item T_decode toVal dec) (w n : Nat) (r : List Nat) (hwr : Words r) :
    obsR (List.map toVal) (codec_decode_list_static (some w) T_decode into n r) = obsM (decodeList dec (some w) n (vals r)) := by
  simp only [codec_decode_list_static, Res.unwrapO, TF.RustStd.checked_mul, decodeList, vals_length]
  by_cases h1 : n * w < 18446744073709551616
  · have h1' : ¬ n * w ≥ 2 ^ 64 := by omega
    rw [if_pos h1, if_neg h1']
    simp only [decide_eq_true_eq]
    by_cases h2 : r.length < n * w
    · rw [if_pos h2, if_pos h2]; rfl
    · rw [if_neg h2, if_neg h2]
      by_cases h3 : r.length > n * w
      · rw [if_pos h3, if_pos h3]; rfl
      · rw [if_neg h3, if_neg h3]
        by_cases h4 : w = 0
        · subst h4; simp [Res.need, obsR, obsM]
        · have h4' : (w != 0) = true := by simp [h4]
          rw [if_neg h4]
          simp only [Res.need, h4', if_true, Res.forIn, TF.RustStd.chunks_exact]
          have hl : r.length = n * w := by omega
          have hn : n ≤ r.length := by
            rw [hl]; exact Nat.le_mul_of_pos_right n (Nat.pos_of_ne_zero h4)
          have key := static_loop T_decode toVal dec h
            (fun raw_item st_2 => let vec_v := st_2
              (Res.call (T_decode raw_item) (fun r_3 =>
                (Res.tryQ (Except.mapError (fun e => (into e)) r_3) (fun _ => "InnerDecodingFailure") (fun t_4 =>
                  (let item : α := t_4
                   (let vec_v := vec_v ++ [item]
                    (Res.ok vec_v))))))))
            (by intro raw acc; simp only [stepS, Res.call]; cases T_decode raw <;> rfl) w h4 n r.length r [] hwr hl hn
          simp only [List.map_nil, List.nil_append] at key
          revert key
          generalize Res.loop _ (chunksAux w r.length r) ([] : List α) = L
          intro key
          cases L with
          | ok a => simp only [obsR] at key ⊢; rw [key]; cases decodeChunks dec w n (vals r) <;> rfl
          | err e => simp only [obsR] at key ⊢; rw [key]; cases decodeChunks dec w n (vals r) <;> rfl
          | panic => simp only [obsR] at key ⊢; rw [key]; cases decodeChunks dec w n (vals r) <;> rfl
  · have h1' : n * w ≥ 2 ^ 64 := by omega
    rw [if_neg h1, if_pos h1']; rfl

/-! ### `bfield_codec_decode_list_with_dynamically_sized_items` -/

/-- one iteration of the `for _ in 0..num_items` loop on the state `(sequence_index, vec)`; `lenOf` is `BFieldElement::value`
    (a parameter so that `simp` never looks into the Montgomery arithmetic) -/
def stepD {ε α : Type} (lenOf : Nat → Nat) (T_decode : List Nat → Res ε α) (seq : List Nat) (st : Nat × List α) : Res String (Nat × List α) :=
  match seq[st.1]? with
  | none => .err "MissingLengthIndicator"
  | some x =>
    if lenOf x < 18446744073709551616 then
      if st.1 + 1 < 18446744073709551616 then
        if st.1 + 1 + lenOf x < 18446744073709551616 then
          if seq.length < st.1 + 1 + lenOf x then .err "SequenceTooShort"
          else match T_decode ((seq.drop (st.1 + 1)).take (lenOf x)) with
            | .ok v => .ok (st.1 + 1 + lenOf x, st.2 ++ [v])
            | .err _ => .err "InnerDecodingFailure"
            | .panic => .panic
        else .panic
      else .panic
    else .err "TryFromIntError"

/-- the loop state against the model's `(items, rest)` -/
def relD {α : Type} (toVal : α → Val) (seq : List Nat) (acc : List α) :
    Res String (Nat × List α) → Outcome (List Val × List Nat) → Prop
  | .ok (i, a), .ok (vs, rest) => a.map toVal = acc.map toVal ++ vs ∧ rest = (vals seq).drop i ∧ i ≤ seq.length
  | .err _, .err _ => True
  | .panic, .panic => True
  | _, _ => False

theorem dyn_loop {ε α : Type} (T_decode : List Nat → Res ε α) (toVal : α → Val) (dec : List Nat → Outcome Val)
    (h : Item T_decode toVal dec) (seq : List Nat) (hw : Words seq) (lenOf : Nat → Nat) (hlen : ∀ x, lenOf x = bfe_value x)
    (body : Nat → Nat × List α → Res String (Nat × List α))
    (hb : ∀ i st, body i st = stepD lenOf T_decode seq st) :
    ∀ (n i0 : Nat) (idx : Nat) (acc : List α), idx ≤ seq.length →
      relD toVal seq acc (Res.loopRange body n i0 (idx, acc)) (decodeDyn dec n idx ((vals seq).drop idx)) := by
  intro n
  induction n with
  | zero => intro i0 idx acc hi; simp [Res.loopRange, decodeDyn, relD, hi]
  | succ n ih =>
    intro i0 idx acc hi
    simp only [Res.loopRange, hb, stepD, decodeDyn]
    by_cases hlt : idx < seq.length
    · have hv : idx < (vals seq).length := by rw [vals_length]; exact hlt
      rw [List.drop_eq_getElem_cons hv, List.getElem?_eq_getElem hlt]
      have hx : (vals seq)[idx] = lenOf seq[idx] := by rw [hlen]; simp only [vals, List.getElem_map]
      have hxw : seq[idx] < 18446744073709551616 := hw _ (List.getElem_mem hlt)
      have hvl : lenOf seq[idx] < 18446744073709551616 := by
        rw [hlen]; exact Nat.lt_trans (TF.BF.value_lt seq[idx] hxw) TF.BF.Pn_lt_W
      rw [hx]
      simp only []
      generalize lenOf seq[idx] = len at hvl ⊢
      rw [if_pos hvl]
      by_cases h1 : idx + 1 + len ≥ 2 ^ 64
      · rw [if_pos h1]
        by_cases h0 : idx + 1 < 18446744073709551616
        · rw [if_pos h0, if_neg (by omega)]; simp [relD]
        · rw [if_neg h0]; simp [relD]
      · rw [if_neg h1, if_pos (by omega), if_pos (by omega)]
        simp only [List.length_drop, vals_length]
        by_cases h2 : seq.length < idx + 1 + len
        · rw [if_pos h2, if_pos (by omega)]; simp [relD]
        · rw [if_neg h2, if_neg (by omega)]
          have hit := h ((seq.drop (idx + 1)).take len) (Words_take _ _ (Words_drop _ _ hw))
          rw [vals_take, vals_drop] at hit
          rw [List.drop_drop]
          have e1 : idx + 1 + len = len + (idx + 1) := by omega
          cases hd : T_decode (List.take len (List.drop (idx + 1) seq)) with
          | ok v =>
            rw [hd] at hit
            cases hm : dec (List.take len (List.drop (idx + 1) (vals seq))) with
            | ok v' =>
              rw [hm] at hit
              simp only [obsR, obsM, Obs.ok.injEq] at hit
              simp only []
              have ih2 := ih (i0 + 1) (idx + 1 + len) (acc ++ [v]) (by omega)
              revert ih2
              generalize Res.loopRange body n (i0 + 1) (idx + 1 + len, acc ++ [v]) = L
              generalize decodeDyn dec n (idx + 1 + len) (List.drop (idx + 1 + len) (vals seq)) = M
              intro ih2
              cases L with
              | ok p =>
                obtain ⟨i, a⟩ := p
                cases M with
                | ok q => obtain ⟨vs, rest⟩ := q; simp only [relD] at ih2 ⊢; simp [ih2.1, ih2.2.1, ih2.2.2, hit]
                | err k => simp [relD] at ih2
                | panic => simp [relD] at ih2
              | err e => cases M <;> simp [relD] at ih2 ⊢
              | panic => cases M <;> simp [relD] at ih2 ⊢
            | err k => rw [hm] at hit; simp [obsR, obsM] at hit
            | panic => rw [hm] at hit; simp [obsR, obsM] at hit
          | err e =>
            rw [hd] at hit
            cases hm : dec (List.take len (List.drop (idx + 1) (vals seq))) with
            | ok v' => rw [hm] at hit; simp [obsR, obsM] at hit
            | err k => simp [relD]
            | panic => rw [hm] at hit; simp [obsR, obsM] at hit
          | panic =>
            rw [hd] at hit
            cases hm : dec (List.take len (List.drop (idx + 1) (vals seq))) with
            | ok v' => rw [hm] at hit; simp [obsR, obsM] at hit
            | err k => rw [hm] at hit; simp [obsR, obsM] at hit
            | panic => simp [relD]
    · have hge : seq.length ≤ idx := by omega
      have hd : (vals seq).drop idx = [] := List.drop_eq_nil_of_le (by rw [vals_length]; exact hge)
      rw [hd, List.getElem?_eq_none hge]
      simp [relD]

theorem dyn_final {ε α : Type} (T_decode : List Nat → Res ε α) (toVal : α → Val) (dec : List Nat → Outcome Val)
    (h : Item T_decode toVal dec) (r : List Nat) (hw : Words r) (n : Nat)
    (lenOf : Nat → Nat) (hlen : ∀ x, lenOf x = bfe_value x)
    (body : Nat → Nat × List α → Res String (Nat × List α)) (hb : ∀ i st, body i st = stepD lenOf T_decode r st) :
    obsR (List.map toVal)
      (Res.forRange 0 n (0, ([] : List α)) body
        (fun s' => (if (r.length != s'.1) then (Res.err "SequenceTooLong") else (Res.ok s'.2)))) =
    obsM (match decodeDyn dec n 0 (vals r) with
      | .ok (vs, []) => .ok vs
      | .ok (_, _ :: _) => .err .tooLong
      | .err k => .err k
      | .panic => .panic) := by
  have key := dyn_loop T_decode toVal dec h r hw lenOf hlen body hb n 0 0 [] (Nat.zero_le _)
  simp only [List.drop_zero] at key
  simp only [Res.forRange, Nat.sub_zero]
  revert key
  generalize Res.loopRange body n 0 (0, ([] : List α)) = L
  generalize decodeDyn dec n 0 (vals r) = M
  intro key
  cases L with
  | ok p =>
    obtain ⟨i, a⟩ := p
    cases M with
    | ok q =>
      obtain ⟨vs, rest⟩ := q
      simp only [relD] at key
      obtain ⟨k1, k2, k3⟩ := key
      simp only []
      by_cases hi : r.length = i
      · have : rest = [] := by rw [k2]; exact List.drop_eq_nil_of_le (by rw [vals_length]; omega)
        subst this
        simp [hi, obsR, obsM, k1]
      · have hne : (r.length != i) = true := by simp [hi]
        rw [if_pos hne]
        cases rest with
        | nil =>
          exfalso
          have := congrArg List.length k2
          simp only [List.length_nil, List.length_drop, vals_length] at this
          omega
        | cons _ _ => rfl
    | err k => simp [relD] at key
    | panic => simp [relD] at key
  | err e => cases M <;> first | rfl | (simp [relD] at key)
  | panic => cases M <;> first | rfl | (simp [relD] at key)

/-- **dynamic list decoder**, regenerated = hand model, for every item decoder, count and sequence of words: the per-item
    length prefix (`get` / `usize::try_from`), `sequence_index + item_length` (overflow = panic), the comparison with the
    remaining length, the item slice, the early exits, the final "nothing left" check -/
theorem gen_decode_list_dynamic {ε α : Type} (T_decode : List Nat → Res ε α) (into : ε → DynErr) (toVal : α → Val)
    (dec : List Nat → Outcome Val) (h : Item T_decode toVal dec) (n : Nat) (r : List Nat) (hw : Words r) :
    obsR (List.map toVal) (codec_decode_list_dynamic T_decode into n r) = obsM (decodeList dec none n (vals r)) := by
  simp only [codec_decode_list_dynamic, decodeList]
  obtain ⟨lenOf, hlen⟩ : ∃ f : Nat → Nat, ∀ x, f x = bfe_value x := ⟨bfe_value, fun _ => rfl⟩
  have e1 : ∀ y, codec_usize_try_from_bfe y = int_try_from 18446744073709551616 (lenOf y) := fun y => by rw [hlen]; rfl
  have e2 : ∀ y, codec_usize_try_from_bfe_ok y = true := fun y => TF.BF.value_ok y
  refine dyn_final T_decode toVal dec h r hw n lenOf hlen _ ?_
  intro i st
  obtain ⟨idx, acc⟩ := st
  show _ = stepD lenOf T_decode r (idx, acc)
  unfold stepD
  cases hget : r[idx]? with
  | none => rfl
  | some x =>
    simp only [okOr]
    rw [tryQ_ok, e2, need_true, e1]
    unfold int_try_from
    generalize lenOf x = len
    by_cases h0 : len < 18446744073709551616
    · rw [if_pos h0, if_pos h0, tryQ_ok]
      by_cases h1 : idx + 1 < 18446744073709551616
      · rw [if_pos h1, need_decide _ _ h1]
        by_cases h2 : idx + 1 + len < 18446744073709551616
        · rw [if_pos h2, need_decide _ _ h2]
          by_cases h3 : r.length < idx + 1 + len
          · rw [if_pos h3, if_pos (by simpa using h3)]
          · rw [if_neg h3, if_neg (by simpa using h3), need_decide _ _ h2]
            have h4 : (decide (idx + 1 ≤ idx + 1 + len) && decide (idx + 1 + len ≤ r.length)) = true := by
              simp only [Bool.and_eq_true, decide_eq_true_eq]; omega
            rw [h4, need_true, Nat.add_sub_cancel_left]
            unfold Res.call
            cases T_decode (List.take len (List.drop (idx + 1) r)) with
            | ok v => simp only [Except.mapError]; rw [tryQ_ok, need_decide _ _ h2]
            | err e => rfl
            | panic => rfl
        · rw [if_neg h2, need_decide_not _ _ h2]
      · rw [if_neg h1, need_decide_not _ _ h1]
    · rw [if_neg h0, if_neg h0, tryQ_error]

/-! ### `bfield_codec_decode_list` (dispatch on `T::static_length()`) -/

/-- **list decoder**, regenerated = hand model `decodeList`, for every item decoder and static length -/
theorem gen_decode_list {ε α : Type} (sl : Option Nat) (T_decode : List Nat → Res ε α) (into : ε → DynErr) (toVal : α → Val)
    (dec : List Nat → Outcome Val) (h : Item T_decode toVal dec) (n : Nat) (r : List Nat) (hw : Words r) :
    obsR (List.map toVal) (codec_decode_list sl T_decode into n r) = obsM (decodeList dec sl n (vals r)) := by
  cases sl with
  | some w =>
    have := gen_decode_list_static T_decode into toVal dec h w n r hw
    simp only [codec_decode_list, Option.isSome_some, if_true, Res.call]
    revert this
    generalize codec_decode_list_static (some w) T_decode into n r = L
    intro this
    rw [← this]
    cases L <;> rfl
  | none =>
    have := gen_decode_list_dynamic T_decode into toVal dec h n r hw
    simp only [codec_decode_list, Option.isSome_none, Bool.false_eq_true, if_false, Res.call]
    revert this
    generalize codec_decode_list_dynamic T_decode into n r = L
    intro this
    rw [← this]
    cases L <;> rfl

/-! ### `bfield_codec_encode_list` -/

theorem vals_append (a b : List Nat) : vals (a ++ b) = vals a ++ vals b := by simp [vals]

theorem from_usize_value (n : Nat) (h : n < TF.BF.Pn) : vals [codec_bfe_from_usize n] = [n] := by
  simp only [vals, List.map_cons, List.map_nil, codec_bfe_from_usize]
  rw [TF.BF.value_new n h]

/-- **list encoder**, regenerated = hand model `encodeItems`, for every item encoder: items in order, each prefixed by its
    length iff the item type is dynamically sized (lengths `< P`, as everything that can be materialised) -/
theorem gen_encode_list {α : Type} (sl : Option Nat) (enc : α → List Nat) (toVal : α → Val) (encM : Val → List Nat)
    (he : ∀ x, vals (enc x) = encM (toVal x)) (xs : List α) (hl : ∀ x ∈ xs, (enc x).length < TF.BF.Pn) :
    vals (codec_encode_list sl enc xs) = encodeItems encM sl.isNone (xs.map toVal) := by
  cases sl with
  | some w =>
    simp only [codec_encode_list, Option.isSome_some, if_true, Option.isNone_some]
    clear hl
    induction xs with
    | nil => rfl
    | cons x xs ih => simp only [List.flatMap_cons, vals_append, List.map_cons, encodeItems, prefixed, ih, he]; rfl
  | none =>
    simp only [codec_encode_list, Option.isSome_none, Bool.false_eq_true, if_false, Option.isNone_none]
    have gen : ∀ (xs : List α) (acc : List Nat), (∀ x ∈ xs, (enc x).length < TF.BF.Pn) →
        vals (List.foldl (fun st_1 element_v => st_1 ++ [codec_bfe_from_usize (enc element_v).length] ++ enc element_v) acc xs)
          = vals acc ++ encodeItems encM true (xs.map toVal) := by
      intro xs
      induction xs with
      | nil => intro acc _; simp
      | cons x xs ih =>
        intro acc hl
        have hx := hl x (List.mem_cons_self)
        simp only [List.foldl_cons, List.map_cons, encodeItems, prefixed, if_true]
        rw [ih _ (fun y hy => hl y (List.mem_cons_of_mem _ hy)), vals_append, vals_append, from_usize_value _ hx, he]
        have : (encM (toVal x)).length = (enc x).length := by rw [← he, vals_length]
        simp [this]
    have := gen xs [] hl
    simpa [vals] using this

/-! ### the impls built on the list combinators -/

theorem try_from_word (x : Nat) (hx : x < 18446744073709551616) :
    codec_usize_try_from_bfe x = .ok (bfe_value x) ∧ codec_usize_try_from_bfe_ok x = true := by
  refine ⟨?_, TF.BF.value_ok x⟩
  have hv : bfe_value x < 18446744073709551616 := Nat.lt_trans (TF.BF.value_lt x hx) TF.BF.Pn_lt_W
  unfold codec_usize_try_from_bfe TF.RustStd.int_try_from
  revert hv
  generalize bfe_value x = v
  intro hv
  rw [if_pos hv]

theorem vals_cons (x : Nat) (r : List Nat) : vals (x :: r) = bfe_value x :: vals r := rfl

theorem Words_tail (x : Nat) (r : List Nat) (h : Words (x :: r)) : x < 18446744073709551616 ∧ Words r :=
  ⟨h x List.mem_cons_self, fun y hy => h y (List.mem_cons_of_mem _ hy)⟩

/-- **`Vec<T>`**: regenerated `decode` = `decodeVec` of the hand model, for every item codec -/
theorem gen_vec_decode {ε α : Type} (sl : Option Nat) (T_decode : List Nat → Res ε α) (into : ε → DynErr) (toVal : α → Val)
    (dec : List Nat → Outcome Val) (h : Item T_decode toVal dec) (r : List Nat) (hw : Words r) :
    obsR (List.map toVal) (codec_vec_decode sl T_decode into r) = obsM (decodeVec dec sl (vals r)) := by
  cases r with
  | nil => rfl
  | cons x rest =>
    obtain ⟨hx, hr⟩ := Words_tail x rest hw
    have key := gen_decode_list sl T_decode into toVal dec h (bfe_value x) rest hr
    rw [vals_cons]
    unfold codec_vec_decode decodeVec
    simp only [List.isEmpty_cons, Bool.false_eq_true, if_false, List.getElem?_cons_zero, List.length_cons,
      List.drop_succ_cons, List.drop_zero]
    rw [unwrapO_some, (try_from_word x hx).1, (try_from_word x hx).2, need_true, tryQ_ok, need_decide _ _ (by omega)]
    revert key
    generalize codec_decode_list sl T_decode into (bfe_value x) rest = L
    intro key
    rw [← key]
    cases L <;> rfl

theorem decodeChunks_len (dec : List Nat → Outcome Val) (w : Nat) :
    ∀ (n : Nat) (s : List Nat) (vs : List Val), decodeChunks dec w n s = .ok vs → vs.length = n := by
  intro n
  induction n with
  | zero => intro s vs h; simp only [decodeChunks, Outcome.ok.injEq] at h; subst h; rfl
  | succ n ih =>
    intro s vs h
    rw [decodeChunks] at h
    cases hd : dec (List.take w s) with
    | ok v =>
      rw [hd] at h
      cases hc : decodeChunks dec w n (List.drop w s) with
      | ok vs' =>
        rw [hc] at h
        simp only [Outcome.ok.injEq] at h
        subst h
        rw [List.length_cons, ih _ _ hc]
      | err k => rw [hc] at h; cases h
      | panic => rw [hc] at h; cases h
    | err k => rw [hd] at h; cases h
    | panic => rw [hd] at h; cases h

theorem decodeDyn_len (dec : List Nat → Outcome Val) :
    ∀ (n idx : Nat) (s : List Nat) (vs : List Val) (rest : List Nat), decodeDyn dec n idx s = .ok (vs, rest) → vs.length = n := by
  intro n
  induction n with
  | zero => intro idx s vs rest h; simp only [decodeDyn, Outcome.ok.injEq, Prod.mk.injEq] at h; rw [← h.1]; rfl
  | succ n ih =>
    intro idx s vs rest h
    cases s with
    | nil => rw [decodeDyn] at h; cases h
    | cons len r =>
      rw [decodeDyn] at h
      split at h
      · cases h
      · split at h
        · cases h
        · cases hd : dec (List.take len r) with
          | ok v =>
            rw [hd] at h
            cases hc : decodeDyn dec n (idx + 1 + len) (List.drop len r) with
            | ok p =>
              obtain ⟨vs', r'⟩ := p
              rw [hc] at h
              simp only [Outcome.ok.injEq, Prod.mk.injEq] at h
              rw [← h.1, List.length_cons, ih _ _ _ _ hc]
            | err k => rw [hc] at h; cases h
            | panic => rw [hc] at h; cases h
          | err k => rw [hd] at h; cases h
          | panic => rw [hd] at h; cases h

theorem decodeList_len (dec : List Nat → Outcome Val) (sl : Option Nat) (n : Nat) (s : List Nat) (vs : List Val)
    (h : decodeList dec sl n s = .ok vs) : vs.length = n := by
  cases sl with
  | some w =>
    simp only [decodeList] at h
    split at h
    · cases h
    · split at h
      · cases h
      · split at h
        · cases h
        · split at h
          · cases h
          · exact decodeChunks_len dec w n s vs h
  | none =>
    simp only [decodeList] at h
    cases hd : decodeDyn dec n 0 s with
    | ok p =>
      obtain ⟨vs', rest⟩ := p
      rw [hd] at h
      cases rest with
      | nil => simp only [Outcome.ok.injEq] at h; subst h; exact decodeDyn_len dec n 0 s _ _ hd
      | cons _ _ => cases h
    | err k => rw [hd] at h; cases h
    | panic => rw [hd] at h; cases h

theorem vals_isEmpty (r : List Nat) : (vals r).isEmpty = r.isEmpty := by
  cases r with
  | nil => rfl
  | cons x xs => simp only [vals_cons, List.isEmpty_cons]

/-- the model's `[T; N]` decoder body -/
def decodeArrayM (dec : List Nat → Outcome Val) (sl : Option Nat) (n : Nat) (s : List Nat) : Outcome (List Val) :=
  if n > 0 ∧ s.isEmpty then .err .empty else decodeList dec sl n s

/-- **`[T; N]`**: regenerated `decode` = the model's array case, for every item codec (the final `try_into` never fails:
    the list decoder returns exactly `N` items) -/
theorem gen_array_decode {ε α : Type} (N : Nat) (sl : Option Nat) (T_decode : List Nat → Res ε α) (into : ε → DynErr)
    (toVal : α → Val) (dec : List Nat → Outcome Val) (h : Item T_decode toVal dec) (r : List Nat) (hw : Words r) :
    obsR (List.map toVal) (codec_array_decode N sl T_decode into r) = obsM (decodeArrayM dec sl N (vals r)) := by
  have key := gen_decode_list sl T_decode into toVal dec h N r hw
  have hlen := decodeList_len dec sl N (vals r)
  unfold codec_array_decode decodeArrayM
  rw [vals_isEmpty]
  by_cases hc : N > 0 ∧ r.isEmpty = true
  · rw [if_pos hc, if_pos (by simp [hc.1, hc.2])]; rfl
  · rw [if_neg hc, if_neg (by simpa using hc)]
    revert key hlen
    generalize codec_decode_list sl T_decode into N r = L
    generalize decodeList dec sl N (vals r) = M
    intro key hlen
    cases L with
    | ok l =>
      cases M with
      | ok vs =>
        simp only [obsR, obsM, Obs.ok.injEq] at key
        have hl : l.length = N := by have := hlen vs rfl; rw [← key] at this; simpa using this
        rw [call_ok, tryQ_ok]
        have hv : vec_try_into_array N l = .ok l := by simp [vec_try_into_array, hl]
        show obsR (List.map toVal) (Res.tryQ (Except.mapError (fun _ => "InnerDecodingFailure") (vec_try_into_array N l)) id
          fun t_3 => Res.ok t_3) = _
        rw [hv]
        show obsR (List.map toVal) (Res.ok l) = _
        simp only [obsR, obsM, key]
      | err k => simp [obsR, obsM] at key
      | panic => simp [obsR, obsM] at key
    | err e => cases M <;> first | rfl | (simp [obsR, obsM] at key)
    | panic => cases M <;> first | rfl | (simp [obsR, obsM] at key)

/-- the model's `Option<T>` decoder body -/
def decodeOptionM (dec : List Nat → Outcome Val) (s : List Nat) : Outcome Val :=
  match s with
  | [] => .err .empty
  | tag :: rest =>
    if tag = 0 then (match rest with
      | [] => .ok (.opt none)
      | _ :: _ => .err .tooLong)
    else if tag = 1 then (match dec rest with
      | .ok v => .ok (.opt (some v))
      | .err k => .err k
      | .panic => .panic)
    else .err .range

theorem bool_word (x : Nat) : ∃ v, bfe_value x = v ∧ codec_bool_decode_ok [x] = true ∧
    codec_bool_decode [x] = (if v = 0 then .ok false else if v = 1 then .ok true else .error "ElementOutOfRange") := by
  refine ⟨bfe_value x, rfl, (gen_bool_decode [x]).2, ?_⟩
  rw [(gen_bool_decode [x]).1]
  have hv : vals [x] = [bfe_value x] := rfl
  rw [hv]
  generalize bfe_value x = v
  match v with
  | 0 => rfl
  | 1 => rfl
  | n + 2 =>
    have h : decode .bool [n + 2] = .err .range := by
      simp only [decode, decodeSmall]; rw [if_neg (by omega)]
    rw [h, if_neg (by omega), if_neg (by omega)]; rfl

/-- **`Option<T>`**: regenerated `decode` = the model's option case, for every item codec: the tag through `bool::decode`,
    `Some` hands the rest to the item decoder, `None` requires that nothing follows the tag -/
theorem gen_option_decode {ε α : Type} (T_decode : List Nat → Res ε α) (into : ε → DynErr) (toVal : α → Val)
    (dec : List Nat → Outcome Val) (h : Item T_decode toVal dec) (r : List Nat) (hw : Words r) :
    obsR (fun o => Val.opt (Option.map toVal o)) (codec_option_decode T_decode into r) = obsM (decodeOptionM dec (vals r)) := by
  cases r with
  | nil => unfold codec_option_decode decodeOptionM; rfl
  | cons x rest =>
    obtain ⟨hx, hr⟩ := Words_tail x rest hw
    have hi := h rest hr
    obtain ⟨v, hv, hok, hdec⟩ := bool_word x
    rw [vals_cons, hv]
    unfold codec_option_decode decodeOptionM
    simp only [List.isEmpty_cons, Bool.false_eq_true, if_false, List.length_cons, List.take_succ_cons, List.take_zero,
      List.drop_succ_cons, List.drop_zero]
    rw [show (decide (0 ≤ 1) && decide (1 ≤ rest.length + 1)) = true by simp, need_true, hok, need_true, hdec]
    match v with
    | 0 =>
      rw [if_pos rfl, if_pos rfl, tryQ_ok, need_decide _ _ (by omega)]
      cases rest with
      | nil => rfl
      | cons a b => rw [vals_cons]; rfl
    | 1 =>
      rw [if_neg (by omega), if_pos rfl, if_neg (by omega), if_pos rfl, tryQ_ok, need_decide _ _ (by omega), if_pos rfl]
      revert hi
      generalize T_decode rest = L
      generalize dec (vals rest) = M
      intro hi
      cases L with
      | ok a =>
        cases M with
        | ok b => simp only [obsR, obsM, Obs.ok.injEq] at hi; rw [call_ok]; simp [transpose, Except.mapError, tryQ_ok, obsR, obsM, hi]
        | err k => simp [obsR, obsM] at hi
        | panic => simp [obsR, obsM] at hi
      | err e => cases M <;> first | rfl | (simp [obsR, obsM] at hi)
      | panic => cases M <;> first | rfl | (simp [obsR, obsM] at hi)
    | n + 2 =>
      rw [if_neg (by omega), if_neg (by omega), if_neg (by omega), if_neg (by omega), tryQ_error]; rfl

/-! ### composites: "if the component codec is the model's, so is the composite" -/

theorem obsR_comp {ε α β γ : Type} (f : α → β) (g : β → γ) (L : Res ε α) (M : Outcome β)
    (h : obsR f L = obsM M) : obsR (fun a => g (f a)) L = obsM (M.map g) := by
  cases L <;> cases M <;> simp [obsR, obsM, Outcome.map] at h ⊢
  exact congrArg g h

theorem vec_item {ε α : Type} (t : Ty) (T_decode : List Nat → Res ε α) (into : ε → DynErr) (toVal : α → Val)
    (h : Item T_decode toVal (decode t)) :
    Item (codec_vec_decode (staticLength t) T_decode into) (fun l => Val.list (l.map toVal)) (decode (.vec t)) := by
  intro r hw
  have key := gen_vec_decode (staticLength t) T_decode into toVal (decode t) h r hw
  have := obsR_comp (List.map toVal) Val.list _ _ key
  simpa only [decode] using this

theorem array_item {ε α : Type} (n : Nat) (t : Ty) (T_decode : List Nat → Res ε α) (into : ε → DynErr) (toVal : α → Val)
    (h : Item T_decode toVal (decode t)) :
    Item (codec_array_decode n (staticLength t) T_decode into) (fun l => Val.list (l.map toVal)) (decode (.array n t)) := by
  intro r hw
  have key := gen_array_decode n (staticLength t) T_decode into toVal (decode t) h r hw
  have := obsR_comp (List.map toVal) Val.list _ _ key
  rw [this]
  simp only [decode, decodeArrayM]
  split <;> rfl

theorem option_item {ε α : Type} (t : Ty) (T_decode : List Nat → Res ε α) (into : ε → DynErr) (toVal : α → Val)
    (h : Item T_decode toVal (decode t)) :
    Item (codec_option_decode T_decode into) (fun o => Val.opt (Option.map toVal o)) (decode (.option t)) := by
  intro r hw
  rw [gen_option_decode T_decode into toVal (decode t) h r hw]
  cases hr : vals r with
  | nil => simp only [decodeOptionM, decode]
  | cons tag rest =>
    simp only [decodeOptionM, decode]
    by_cases h0 : tag = 0
    · rw [if_pos h0, if_pos h0]; cases rest <;> rfl
    · rw [if_neg h0, if_neg h0]
      by_cases h1 : tag = 1
      · rw [if_pos h1, if_pos h1]; cases decode t rest <;> rfl
      · rw [if_neg h1, if_neg h1]

theorem box_item {ε α : Type} (t : Ty) (T_decode : List Nat → Res ε α) (toVal : α → Val)
    (h : Item T_decode toVal (decode t)) : Item (codec_box_decode T_decode) toVal (decode (.box t)) := by
  intro r hw
  have := h r hw
  simp only [decode]
  rw [← this]
  unfold codec_box_decode
  cases T_decode r <;> rfl

theorem phantom_item : Item codec_phantom_decode (fun _ => Val.unit) (decode .phantom) := by
  intro r hw
  cases r with
  | nil => rfl
  | cons x xs => rw [vals_cons]; unfold codec_phantom_decode; simp only [decode]; rfl

/-! ### `Polynomial<T>` -/

/-- the model's `Polynomial<T>` decoder body -/
def decodePolyM (dec : List Nat → Outcome Val) (sl : Option Nat) (s : List Nat) : Outcome (List Val) :=
  match s with
  | [] => .err .empty
  | ind :: rest =>
    if s.length < ind + 1 then .err .tooShort
    else if s.length > ind + 1 then .err .tooLong
    else match decodeVec dec sl rest with
      | .ok cs => if lastIsZero cs then .err .trailingZeros else .ok cs
      | .err k => .err k
      | .panic => .panic

theorem lastIsZero_map {α : Type} (toVal : α → Val) (isz : α → Bool) (hz : ∀ a, isz a = valIsZero (toVal a)) (l : List α) :
    lastIsZero (l.map toVal) = Option.any (fun c => isz c) l.getLast? := by
  unfold lastIsZero
  rw [List.getLast?_map]
  cases l.getLast? with
  | none => rfl
  | some c => simp only [Option.map_some, Option.any_some, hz]

/-- **`Polynomial<T>`**: regenerated `decode` = the model's polynomial case, for every coefficient codec: the length
    indicator against the sequence length, `Vec<T>::decode` of the rest, rejection of a trailing zero coefficient -/
theorem gen_poly_decode {ε α : Type} (sl : Option Nat) (T_decode : List Nat → Res ε α) (into : ε → DynErr) (isz : α → Bool)
    (toVal : α → Val) (dec : List Nat → Outcome Val) (h : Item T_decode toVal dec)
    (hz : ∀ a, isz a = valIsZero (toVal a)) (r : List Nat) (hw : Words r) :
    obsR (List.map toVal) (codec_poly_decode sl T_decode into isz r) = obsM (decodePolyM dec sl (vals r)) := by
  cases r with
  | nil => unfold codec_poly_decode decodePolyM; rfl
  | cons x rest =>
    obtain ⟨hx, hr⟩ := Words_tail x rest hw
    have key := gen_vec_decode sl T_decode into toVal dec h rest hr
    have hv : bfe_value x < 18446744069414584321 := TF.BF.value_lt x hx
    rw [vals_cons]
    have hint : TF.RustStd.int_try_from 18446744073709551616 (conv_bfe_value x) = .ok (bfe_value x) := by
      unfold conv_bfe_value TF.RustStd.int_try_from
      revert hv
      generalize bfe_value x = v
      intro hv
      rw [if_pos (by omega)]
    have hok : conv_bfe_value_ok x = true := TF.BF.value_ok x
    unfold codec_poly_decode decodePolyM
    simp only [List.isEmpty_cons, Bool.false_eq_true, if_false, List.getElem?_cons_zero, List.length_cons,
      List.drop_succ_cons, List.drop_zero, vals_length]
    rw [unwrapO_some, hok, need_true, hint]
    revert hv
    generalize bfe_value x = v
    intro hv
    simp only []
    rw [need_decide _ _ (by omega)]
    revert key
    generalize codec_vec_decode sl T_decode into rest = L
    generalize decodeVec dec sl (vals rest) = M
    intro key
    rcases Nat.lt_trichotomy (rest.length + 1) (v + 1) with hlt | heq | hgt
    · rw [if_pos hlt, Nat.compare_eq_lt.2 hlt]; rfl
    · rw [if_neg (by omega), if_neg (by omega), Nat.compare_eq_eq.2 heq]
      simp only []
      rw [need_decide _ _ (by omega)]
      cases L with
      | ok l =>
        cases M with
        | ok cs =>
          simp only [obsR, obsM, Obs.ok.injEq] at key
          rw [call_ok, tryQ_ok, ← key]
          simp only []
          rw [lastIsZero_map toVal isz hz l]
          cases Option.any (fun c => isz c) l.getLast? <;> rfl
        | err k => simp [obsR, obsM] at key
        | panic => simp [obsR, obsM] at key
      | err e => cases M <;> first | rfl | (simp [obsR, obsM] at key)
      | panic => cases M <;> first | rfl | (simp [obsR, obsM] at key)
    · rw [if_neg (by omega), if_pos hgt, Nat.compare_eq_gt.2 hgt]; rfl

theorem poly_item {ε α : Type} (t : Ty) (T_decode : List Nat → Res ε α) (into : ε → DynErr) (isz : α → Bool) (toVal : α → Val)
    (h : Item T_decode toVal (decode t)) (hz : ∀ a, isz a = valIsZero (toVal a)) :
    Item (codec_poly_decode (staticLength t) T_decode into isz) (fun l => Val.list (l.map toVal)) (decode (.poly t)) := by
  intro r hw
  have key := gen_poly_decode (staticLength t) T_decode into isz toVal (decode t) h hz r hw
  have := obsR_comp (List.map toVal) Val.list _ _ key
  rw [this]
  cases hr : vals r with
  | nil => rfl
  | cons ind rest =>
    simp only [decode, decodePolyM]
    by_cases h1 : (ind :: rest).length < ind + 1
    · rw [if_pos h1, if_pos h1]; rfl
    · rw [if_neg h1, if_neg h1]
      by_cases h2 : (ind :: rest).length > ind + 1
      · rw [if_pos h2, if_pos h2]; rfl
      · rw [if_neg h2, if_neg h2]
        cases decodeVec (fun c => decode t c) (staticLength t) rest with
        | ok cs => simp only [Outcome.map]; cases lastIsZero cs <;> rfl
        | err k => rfl
        | panic => rfl

/-! ### what `Item` transfers -/

theorem item_ok {ε α : Type} {G : List Nat → Res ε α} {toVal : α → Val} {dec : List Nat → Outcome Val} (h : Item G toVal dec)
    (r : List Nat) (hw : Words r) (a : α) (hg : G r = .ok a) : dec (vals r) = .ok (toVal a) := by
  have := h r hw
  rw [hg] at this
  cases hd : dec (vals r) <;> rw [hd] at this <;> simp [obsR, obsM] at this
  rw [this]

theorem item_rejects {ε α : Type} {G : List Nat → Res ε α} {toVal : α → Val} {dec : List Nat → Outcome Val} (h : Item G toVal dec)
    (r : List Nat) (hw : Words r) (k : Err) (hm : dec (vals r) = .err k) : ∃ e, G r = .err e := by
  have := h r hw
  rw [hm] at this
  cases hg : G r with
  | ok a => rw [hg] at this; simp [obsR, obsM] at this
  | err e => exact ⟨e, rfl⟩
  | panic => rw [hg] at this; simp [obsR, obsM] at this

theorem item_noPanic {ε α : Type} {G : List Nat → Res ε α} {toVal : α → Val} {dec : List Nat → Outcome Val} (h : Item G toVal dec)
    (r : List Nat) (hw : Words r) (hm : dec (vals r) ≠ .panic) : (G r).noPanic = true := by
  have := h r hw
  cases hg : G r with
  | ok a => rfl
  | err e => rfl
  | panic =>
    rw [hg] at this
    cases hd : dec (vals r) with
    | ok v => rw [hd] at this; simp [obsR, obsM] at this
    | err k => rw [hd] at this; simp [obsR, obsM] at this
    | panic => exact absurd hd hm

theorem item_panics {ε α : Type} {G : List Nat → Res ε α} {toVal : α → Val} {dec : List Nat → Outcome Val} (h : Item G toVal dec)
    (r : List Nat) (hw : Words r) (hm : dec (vals r) = .panic) : (G r).noPanic = false := by
  have := h r hw
  rw [hm] at this
  cases hg : G r with
  | ok a => rw [hg] at this; simp [obsR, obsM] at this
  | err e => rw [hg] at this; simp [obsR, obsM] at this
  | panic => rfl

theorem canon_vals (r : List Nat) (hw : Words r) : ∀ x ∈ vals r, x < TF.BF.Pn := by
  intro x hx
  simp only [vals, List.mem_map] at hx
  obtain ⟨y, hy, rfl⟩ := hx
  exact TF.BF.value_lt y (hw y hy)

end TF.GenBridge.CodecG
