import TF.Model.PolyMul
import Mathlib.Data.List.Basic
/-!
Naturality of the polynomial-product model (`TF/Model/PolyMul.lean`) along a map of operation records.

`OpsMap F G f ok`: `f : α → β` commutes with `0, 1, +, −, ·` of the `FieldOps` records `F`, `G` unconditionally, and
with the zero test on the elements satisfying `ok`; every result of an operation of `F` satisfies `ok`.
(Instance: `F = bfieldOps` on naturals, `G = FieldOps.ofField (ZMod P)`, `f = Nat.cast`, `ok a = a < P` — the
operations reduce modulo `P`, so they commute with the cast for *all* naturals and return canonical values; only the
zero test `a == 0` needs a canonical argument.)

`TransMap T T' f ok`: the transform pairs correspond under `f`, and `T.intt` returns `ok` elements.

Then every product strategy commutes with `List.map f` on operands whose entries are `ok`, and returns `ok` entries:
`fastMultiply_map`, `multiply_map`, `fastSquare_map`, `square_map`, `fastPow_map`, `batchMultiply_map`,
`parBatchMultiply_map`.
-/
namespace TF.Model.Poly.Hom
open TF TF.Model.Poly

variable {α β : Type}

structure OpsMap (F : FieldOps α) (G : FieldOps β) (f : α → β) (ok : α → Prop) : Prop where
  zero : f F.zero = G.zero
  one : f F.one = G.one
  add : ∀ a b, f (F.add a b) = G.add (f a) (f b)
  sub : ∀ a b, f (F.sub a b) = G.sub (f a) (f b)
  mul : ∀ a b, f (F.mul a b) = G.mul (f a) (f b)
  isZero : ∀ a, ok a → F.isZero a = G.isZero (f a)
  ok_zero : ok F.zero
  ok_one : ok F.one
  ok_add : ∀ a b, ok (F.add a b)
  ok_sub : ∀ a b, ok (F.sub a b)
  ok_mul : ∀ a b, ok (F.mul a b)

structure TransMap (T : Transform α) (T' : Transform β) (f : α → β) (ok : α → Prop) : Prop where
  ntt : ∀ xs, (T.ntt xs).map (List.map f) = T'.ntt (xs.map f)
  intt : ∀ xs, (T.intt xs).map (List.map f) = T'.intt (xs.map f)
  ok_intt : ∀ xs ys, T.intt xs = some ys → ∀ y ∈ ys, ok y

/-- all entries satisfy `ok` -/
def AllOk (ok : α → Prop) (l : List α) : Prop := ∀ x ∈ l, ok x

/-- a polynomial-or-panic with `ok` entries -/
def AllOkO (ok : α → Prop) (p : Option (List α)) : Prop := ∀ l, p = some l → AllOk ok l

theorem allOk_nil (ok : α → Prop) : AllOk ok [] := fun _ h => by cases h

theorem allOkO_some {ok : α → Prop} {l : List α} (h : AllOk ok l) : AllOkO ok (some l) := by
  intro l' hl; cases hl; exact h

section
variable {F : FieldOps α} {G : FieldOps β} {f : α → β} {ok : α → Prop}

theorem dropWhile_congr_mem (p q : α → Bool) (l : List α) (h : ∀ x ∈ l, p x = q x) :
    l.dropWhile p = l.dropWhile q := by
  induction l with
  | nil => rfl
  | cons x xs ih =>
    simp only [List.dropWhile_cons]
    rw [h x List.mem_cons_self]
    split
    · exact ih (fun y hy => h y (List.mem_cons_of_mem _ hy))
    · rfl

theorem normalize_map (H : OpsMap F G f ok) (a : List α) (ha : AllOk ok a) :
    (normalize F a).map f = normalize G (a.map f) := by
  unfold normalize
  have e : (a.map f).reverse = a.reverse.map f := List.map_reverse.symm
  rw [List.map_reverse, e, List.dropWhile_map]
  congr 2
  apply dropWhile_congr_mem
  intro x hx
  exact H.isZero x (ha x (by simpa using hx))

theorem normalize_subset (F : FieldOps α) (a : List α) : ∀ x ∈ normalize F a, x ∈ a := by
  intro x hx
  unfold normalize at hx
  rw [List.mem_reverse] at hx
  have := (List.dropWhile_sublist F.isZero).subset hx
  simpa using this

theorem normalize_ok (F : FieldOps α) (a : List α) (ha : AllOk ok a) : AllOk ok (normalize F a) :=
  fun x hx => ha x (normalize_subset F a x hx)

theorem degree_map (H : OpsMap F G f ok) (a : List α) (ha : AllOk ok a) : degree G (a.map f) = degree F a := by
  unfold degree
  rw [← normalize_map H a ha, List.length_map]

theorem resize_map (H : OpsMap F G f ok) (a : List α) (n : Nat) :
    (resize a n F.zero).map f = resize (a.map f) n G.zero := by
  simp [resize, List.map_take, H.zero]

theorem zipLongestWith_map (op : α → α → α) (g : α → α) (op' : β → β → β) (g' : β → β)
    (hop : ∀ a b, f (op a b) = op' (f a) (f b)) (hg : ∀ a, f (g a) = g' (f a)) (xs ys : List α) :
    (zipLongestWith op g xs ys).map f = zipLongestWith op' g' (xs.map f) (ys.map f) := by
  induction xs generalizing ys with
  | nil => simp [zipLongestWith, hg]
  | cons x xs ih =>
    cases ys with
    | nil => simp [zipLongestWith]
    | cons y ys => simp [zipLongestWith, hop, ih]

theorem zipLongestWith_ok (op : α → α → α) (g : α → α) (hop : ∀ a b, ok (op a b)) (xs ys : List α)
    (hx : AllOk ok xs) (hy : ∀ y ∈ ys, ok (g y)) : AllOk ok (zipLongestWith op g xs ys) := by
  induction xs generalizing ys with
  | nil =>
    intro z hz
    simp only [zipLongestWith, List.mem_map] at hz
    obtain ⟨y, hy', rfl⟩ := hz
    exact hy y hy'
  | cons x xs ih =>
    cases ys with
    | nil => simpa [zipLongestWith] using hx
    | cons y ys =>
      intro z hz
      simp only [zipLongestWith, List.mem_cons] at hz
      rcases hz with rfl | hz
      · exact hop _ _
      · exact ih ys (fun w hw => hx w (List.mem_cons_of_mem _ hw)) (fun w hw => hy w (List.mem_cons_of_mem _ hw)) z hz

/-! ### schoolbook product and square -/

theorem mulRows_map (H : OpsMap F G f ok) (a b : List α) :
    (mulRows F F.mul a b).map f = mulRows G G.mul (a.map f) (b.map f) := by
  induction a with
  | nil => rfl
  | cons a0 as ih =>
    cases as with
    | nil => simp [mulRows, H.mul]
    | cons a1 as =>
      simp only [mulRows, List.map_cons]
      rw [zipLongestWith_map F.add id G.add id H.add (fun _ => rfl)]
      simp only [List.map_cons, List.map_map, H.zero]
      rw [← List.map_cons, ← ih]
      congr 1
      apply List.map_congr_left
      intro x _
      simp [H.mul]

theorem mulRows_ok (H : OpsMap F G f ok) (a b : List α) : AllOk ok (mulRows F F.mul a b) := by
  induction a with
  | nil => exact allOk_nil ok
  | cons a0 as ih =>
    cases as with
    | nil =>
      intro z hz
      simp only [mulRows, List.mem_map] at hz
      obtain ⟨y, _, rfl⟩ := hz
      exact H.ok_mul _ _
    | cons a1 as =>
      simp only [mulRows]
      apply zipLongestWith_ok F.add id H.ok_add
      · intro z hz
        simp only [List.mem_map] at hz
        obtain ⟨y, _, rfl⟩ := hz
        exact H.ok_mul _ _
      · intro y hy
        simp only [List.mem_cons] at hy
        rcases hy with rfl | hy
        · exact H.ok_zero
        · exact ih y hy

theorem naiveMultiply_map (H : OpsMap F G f ok) (a b : List α) (ha : AllOk ok a) (hb : AllOk ok b) :
    (naiveMultiply F a b).map f = naiveMultiply G (a.map f) (b.map f) := by
  unfold naiveMultiply naiveMultiplyG
  rw [← normalize_map H a ha, ← normalize_map H b hb]
  cases hna : normalize F a with
  | nil => rfl
  | cons x xs =>
    cases hnb : normalize F b with
    | nil => rfl
    | cons y ys =>
      simp only [List.map_cons]
      have := mulRows_map H (x :: xs) (y :: ys)
      simpa using this

theorem naiveMultiply_ok (H : OpsMap F G f ok) (a b : List α) : AllOk ok (naiveMultiply F a b) := by
  unfold naiveMultiply naiveMultiplyG
  split
  · exact allOk_nil ok
  · exact allOk_nil ok
  · exact mulRows_ok H _ _

theorem squareRows_map (H : OpsMap F G f ok) (c : List α) :
    (squareRows F c).map f = squareRows G (c.map f) := by
  induction c with
  | nil => rfl
  | cons c0 cs ih =>
    cases cs with
    | nil => simp [squareRows, H.mul]
    | cons c1 cs =>
      simp only [squareRows, List.map_cons]
      rw [zipLongestWith_map F.add id G.add id H.add (fun _ => rfl)]
      have ih' := ih
      simp only [List.map_cons] at ih'
      simp only [List.map_cons, List.map_map, H.zero, H.mul, H.add, H.one, ih', Function.comp_def]

theorem squareRows_ok (H : OpsMap F G f ok) (c : List α) : AllOk ok (squareRows F c) := by
  induction c with
  | nil => exact allOk_nil ok
  | cons c0 cs ih =>
    cases cs with
    | nil =>
      intro z hz
      simp only [squareRows, List.mem_singleton] at hz
      subst hz; exact H.ok_mul _ _
    | cons c1 cs =>
      simp only [squareRows]
      apply zipLongestWith_ok F.add id H.ok_add
      · intro z hz
        simp only [List.mem_cons, List.mem_map] at hz
        rcases hz with rfl | ⟨y, _, rfl⟩ <;> exact H.ok_mul _ _
      · intro y hy
        simp only [List.mem_cons] at hy
        rcases hy with rfl | rfl | hy
        · exact H.ok_zero
        · exact H.ok_zero
        · exact ih y hy

/-! ### NTT-based strategies -/

variable {T : Transform α} {T' : Transform β}

theorem fastMultiply_map (H : OpsMap F G f ok) (M : TransMap T T' f ok) (a b : List α)
    (ha : AllOk ok a) (hb : AllOk ok b) :
    (fastMultiply F T a b).map (List.map f) = fastMultiply G T' (a.map f) (b.map f) := by
  unfold fastMultiply fastMultiplyG
  simp only [degree_map H a ha, degree_map H b hb, ← resize_map H, ← M.ntt]
  split
  · rfl
  · cases T.ntt (resize a _ F.zero) with
    | none => rfl
    | some l =>
      cases T.ntt (resize b _ F.zero) with
      | none => rfl
      | some r =>
        have hz : List.zipWith G.mul (l.map f) (r.map f) = (List.zipWith F.mul l r).map f := by
          rw [List.zipWith_map, List.map_zipWith]
          congr 1; funext x y; exact (H.mul x y).symm
        simp only [Option.map_some, Option.bind_eq_bind, Option.bind_some, hz, ← M.intt]
        cases T.intt (List.zipWith F.mul l r) with
        | none => rfl
        | some c => simp [List.map_take]

theorem fastMultiply_ok (M : TransMap T T' f ok) (a b r : List α) (h : fastMultiply F T a b = some r) :
    AllOk ok r := by
  unfold fastMultiply fastMultiplyG at h
  simp only at h
  split at h
  · cases h; exact allOk_nil ok
  · generalize nextPowerOfTwo ((degree F a + degree F b).toNat + 1) = n at h
    cases hl : T.ntt (resize a n F.zero) with
    | none => simp [hl] at h
    | some l =>
      cases hr : T.ntt (resize b n F.zero) with
      | none => simp [hl, hr] at h
      | some rr =>
        cases hc : T.intt (List.zipWith F.mul l rr) with
        | none => simp [hl, hr, hc] at h
        | some c =>
          simp [hl, hr, hc] at h
          subst h
          exact fun x hx => M.ok_intt _ _ hc x (List.mem_of_mem_take hx)

theorem multiply_map (H : OpsMap F G f ok) (M : TransMap T T' f ok) (threshold : Int) (a b : List α)
    (ha : AllOk ok a) (hb : AllOk ok b) :
    (multiply F threshold T a b).map (List.map f) = multiply G threshold T' (a.map f) (b.map f) := by
  have hf := fastMultiply_map H M a b ha hb
  have hn := naiveMultiply_map H a b ha hb
  unfold multiply multiplyG
  unfold fastMultiply at hf
  unfold naiveMultiply at hn
  rw [degree_map H a ha, degree_map H b hb]
  split
  · simp [hn]
  · exact hf

theorem multiply_ok (H : OpsMap F G f ok) (M : TransMap T T' f ok) (threshold : Int) (a b r : List α)
    (h : multiply F threshold T a b = some r) : AllOk ok r := by
  unfold multiply multiplyG at h
  split at h
  · cases h; exact naiveMultiply_ok H a b
  · exact fastMultiply_ok M a b r h

theorem fastSquare_map (H : OpsMap F G f ok) (M : TransMap T T' f ok) (p : List α) (hp : AllOk ok p) :
    (fastSquare F T p).map (List.map f) = fastSquare G T' (p.map f) := by
  unfold fastSquare
  rw [← normalize_map H p hp]
  cases hn : normalize F p with
  | nil => rfl
  | cons c cs =>
    cases cs with
    | nil => simp [H.mul]
    | cons c1 cs =>
      simp only [List.map_cons, List.length_cons, List.length_map, ← resize_map H, ← M.ntt]
      cases T.ntt (resize p _ F.zero) with
      | none => rfl
      | some v =>
        have hz : (v.map f).map (fun e => G.mul e e) = (v.map (fun e => F.mul e e)).map f := by
          simp [List.map_map, Function.comp_def, H.mul]
        simp only [Option.map_some, Option.bind_eq_bind, Option.bind_some, hz, ← M.intt]
        cases T.intt (v.map (fun e => F.mul e e)) with
        | none => rfl
        | some w => simp [List.map_take]

theorem fastSquare_ok (H : OpsMap F G f ok) (M : TransMap T T' f ok) (p r : List α)
    (h : fastSquare F T p = some r) : AllOk ok r := by
  unfold fastSquare at h
  split at h
  · cases h; exact allOk_nil ok
  · cases h
    intro z hz
    simp only [List.mem_singleton] at hz
    subst hz; exact H.ok_mul _ _
  · simp only at h
    generalize nextPowerOfTwo (2 * List.length _ + 1) = n at h
    cases hv : T.ntt (resize p n F.zero) with
    | none => simp [hv] at h
    | some v =>
      cases hw : T.intt (v.map (fun e => F.mul e e)) with
      | none => simp [hv, hw] at h
      | some w =>
        simp [hv, hw] at h
        subst h
        exact fun x hx => M.ok_intt _ _ hw x (List.mem_of_mem_take hx)

theorem square_map (H : OpsMap F G f ok) (M : TransMap T T' f ok) (cutoff : Nat) (p : List α) (hp : AllOk ok p) :
    (square F cutoff T p).map (List.map f) = square G cutoff T' (p.map f) := by
  have hf := fastSquare_map H M p hp
  unfold square
  rw [← normalize_map H p hp]
  cases hn : normalize F p with
  | nil => rfl
  | cons c cs =>
    simp only [List.map_cons, List.length_map]
    split
    · exact hf
    · have := squareRows_map H (c :: cs)
      simp only [List.map_cons] at this
      simp [this]

theorem square_ok (H : OpsMap F G f ok) (M : TransMap T T' f ok) (cutoff : Nat) (p r : List α)
    (h : square F cutoff T p = some r) : AllOk ok r := by
  unfold square at h
  split at h
  · cases h; exact allOk_nil ok
  · split at h
    · exact fastSquare_ok H M p r h
    · cases h; exact squareRows_ok H _

/-! ### square and multiply -/

theorem powLoop_map (sq mulSelf : List α → Option (List α)) (sq' mulSelf' : List β → Option (List β))
    (hsq : ∀ acc, AllOk ok acc → (sq acc).map (List.map f) = sq' (acc.map f) ∧ AllOkO ok (sq acc))
    (hmul : ∀ acc, AllOk ok acc → (mulSelf acc).map (List.map f) = mulSelf' (acc.map f) ∧ AllOkO ok (mulSelf acc))
    (e bl : Nat) : ∀ (n : Nat) (acc : List α), AllOk ok acc →
      (powLoop sq mulSelf e bl n acc).map (List.map f) = powLoop sq' mulSelf' e bl n (acc.map f) ∧
      AllOkO ok (powLoop sq mulSelf e bl n acc) := by
  intro n
  induction n with
  | zero => intro acc hacc; exact ⟨rfl, allOkO_some hacc⟩
  | succ n ih =>
    intro acc hacc
    obtain ⟨h1, h1ok⟩ := hsq acc hacc
    simp only [powLoop, Option.bind_eq_bind, Option.pure_def]
    rw [← h1]
    cases hs : sq acc with
    | none => exact ⟨rfl, fun l hl => by cases hl⟩
    | some s =>
      have hsok : AllOk ok s := h1ok s hs
      simp only [Option.map_some, Option.bind_some]
      split
      · obtain ⟨h2, h2ok⟩ := hmul s hsok
        rw [← h2]
        cases hm : mulSelf s with
        | none => exact ⟨rfl, fun l hl => by cases hl⟩
        | some m =>
          simp only [Option.map_some, Option.bind_some]
          exact ih m (h2ok m hm)
      · exact ih s hsok

theorem fastPow_map (H : OpsMap F G f ok) (M : TransMap T T' f ok) (sqCutoff : Nat) (threshold : Int)
    (p : List α) (hp : AllOk ok p) (e : Nat) :
    (fastPow F sqCutoff threshold T p e).map (List.map f) = fastPow G sqCutoff threshold T' (p.map f) e ∧
    AllOkO ok (fastPow F sqCutoff threshold T p e) := by
  unfold fastPow
  rw [degree_map H p hp]
  have hone : AllOk ok (one F) := by
    intro z hz
    simp only [one, List.mem_singleton] at hz
    subst hz; exact H.ok_one
  split
  · exact ⟨by simp [one, H.one], allOkO_some hone⟩
  · split
    · exact ⟨rfl, allOkO_some (allOk_nil ok)⟩
    · have := powLoop_map (f := f) (ok := ok) (square F sqCutoff T) (fun acc => multiply F threshold T p acc)
        (square G sqCutoff T') (fun acc => multiply G threshold T' (p.map f) acc)
        (fun acc hacc => ⟨square_map H M sqCutoff acc hacc, fun l hl => square_ok H M sqCutoff acc l hl⟩)
        (fun acc hacc => ⟨multiply_map H M threshold p acc hp hacc, fun l hl => multiply_ok H M threshold p acc l hl⟩)
        e (Nat.log2 e) (Nat.log2 e + 1) (one F) hone
      have h1 : (one F).map f = one G := by simp [one, H.one]
      rw [h1] at this
      exact this

/-! ### batch products -/

/-- the binary product corresponds under `f` on `ok` operands and returns `ok` entries -/
structure MulMap (mulf : List α → List α → Option (List α)) (mulf' : List β → List β → Option (List β))
    (f : α → β) (ok : α → Prop) : Prop where
  map : ∀ a b, AllOk ok a → AllOk ok b → (mulf a b).map (List.map f) = mulf' (a.map f) (b.map f)
  ok : ∀ a b r, mulf a b = some r → AllOk ok r

variable {mulf : List α → List α → Option (List α)} {mulf' : List β → List β → Option (List β)}

theorem pairUp_map (hm : MulMap mulf mulf' f ok) (ps : List (Option (List α))) (hps : ∀ p ∈ ps, AllOkO ok p) :
    (pairUp mulf ps).map (Option.map (List.map f)) = pairUp mulf' (ps.map (Option.map (List.map f))) ∧
    (∀ p ∈ pairUp mulf ps, AllOkO ok p) := by
  fun_induction pairUp mulf ps with
  | case1 => exact ⟨rfl, hps⟩
  | case2 p => exact ⟨rfl, hps⟩
  | case3 p q rest ih =>
    obtain ⟨ih1, ih2⟩ := ih (fun x hx => hps x (by simp [hx]))
    have hp := hps p (by simp)
    have hq := hps q (by simp)
    constructor
    · simp only [List.map_cons, pairUp, ih1, List.cons.injEq, and_true]
      cases p with
      | none => rfl
      | some a =>
        cases q with
        | none => rfl
        | some b =>
          simp only [Option.map_some, Option.bind_eq_bind, Option.bind_some]
          exact hm.map a b (hp a rfl) (hq b rfl)
    · intro x hx
      simp only [List.mem_cons] at hx
      rcases hx with rfl | hx
      · intro l hl
        cases p with
        | none => simp at hl
        | some a =>
          cases q with
          | none => simp at hl
          | some b =>
            simp only [Option.bind_eq_bind, Option.bind_some] at hl
            exact hm.ok a b l hl
      · exact ih2 x hx

theorem batchLoop_map (hm : MulMap mulf mulf' f ok) (ps : List (Option (List α))) (hps : ∀ p ∈ ps, AllOkO ok p) :
    (batchLoop mulf ps).map (List.map f) = batchLoop mulf' (ps.map (Option.map (List.map f))) ∧
    AllOkO ok (batchLoop mulf ps) := by
  fun_induction batchLoop mulf ps with
  | case1 => exact ⟨by simp [batchLoop], fun l hl => by cases hl⟩
  | case2 p => exact ⟨by simp [batchLoop], hps p (by simp)⟩
  | case3 p q rest ih =>
    obtain ⟨h1, h2⟩ := pairUp_map hm (p :: q :: rest) hps
    obtain ⟨ih1, ih2⟩ := ih h2
    refine ⟨?_, ih2⟩
    rw [ih1, h1]
    simp only [List.map_cons]
    rw [batchLoop]

theorem batchMultiplyWith_map (H : OpsMap F G f ok) (hm : MulMap mulf mulf' f ok) (ps : List (Option (List α)))
    (hps : ∀ p ∈ ps, AllOkO ok p) :
    (batchMultiplyWith F mulf ps).map (List.map f) = batchMultiplyWith G mulf' (ps.map (Option.map (List.map f))) ∧
    AllOkO ok (batchMultiplyWith F mulf ps) := by
  unfold batchMultiplyWith
  simp only [List.isEmpty_map]
  split
  · refine ⟨by simp [one, H.one], ?_⟩
    intro l hl; cases hl
    intro z hz
    simp only [one, List.mem_singleton] at hz
    subst hz; exact H.ok_one
  · exact batchLoop_map hm ps hps

theorem map_some_map (fs : List (List α)) :
    (fs.map some).map (Option.map (List.map f)) = (fs.map (List.map f)).map some := by
  simp [List.map_map, Function.comp_def]

theorem allOkO_map_some (fs : List (List α)) (h : ∀ p ∈ fs, AllOk ok p) : ∀ p ∈ fs.map some, AllOkO ok p := by
  intro p hp
  simp only [List.mem_map] at hp
  obtain ⟨l, hl, rfl⟩ := hp
  exact allOkO_some (h l hl)

theorem multiply_mulMap (H : OpsMap F G f ok) (M : TransMap T T' f ok) (threshold : Int) :
    MulMap (multiply F threshold T) (multiply G threshold T') f ok :=
  ⟨fun a b ha hb => multiply_map H M threshold a b ha hb, fun a b r h => multiply_ok H M threshold a b r h⟩

theorem batchMultiply_map (H : OpsMap F G f ok) (M : TransMap T T' f ok) (threshold : Int)
    (fs : List (List α)) (hfs : ∀ p ∈ fs, AllOk ok p) :
    (batchMultiply F threshold T fs).map (List.map f) = batchMultiply G threshold T' (fs.map (List.map f)) ∧
    AllOkO ok (batchMultiply F threshold T fs) := by
  unfold batchMultiply
  rw [← map_some_map]
  exact batchMultiplyWith_map H (multiply_mulMap H M threshold) _ (allOkO_map_some fs hfs)

theorem chunksAux_map {γ δ : Type} (g : γ → δ) (n : Nat) : ∀ (fuel : Nat) (xs : List γ),
    chunksAux n fuel (xs.map g) = (chunksAux n fuel xs).map (List.map g) := by
  intro fuel
  induction fuel with
  | zero => intro xs; rfl
  | succ fuel ih =>
    intro xs
    simp only [chunksAux, List.isEmpty_map]
    split
    · rfl
    · rw [← List.map_drop, ih, ← List.map_take]; rfl

theorem chunksAux_mem {γ : Type} (n : Nat) : ∀ (fuel : Nat) (xs : List γ), ∀ c ∈ chunksAux n fuel xs, ∀ x ∈ c, x ∈ xs := by
  intro fuel
  induction fuel with
  | zero => intro xs c hc; simp [chunksAux] at hc
  | succ fuel ih =>
    intro xs c hc x hx
    simp only [chunksAux] at hc
    split at hc
    · simp at hc
    · simp only [List.mem_cons] at hc
      rcases hc with rfl | hc
      · exact List.mem_of_mem_take hx
      · exact List.mem_of_mem_drop (ih _ c hc x hx)

theorem parBatchLoop_map (H : OpsMap F G f ok) (hm : MulMap mulf mulf' f ok) (numThreads : Nat)
    (ps : List (Option (List α))) (hps : ∀ p ∈ ps, AllOkO ok p) :
    (parBatchLoop F mulf numThreads ps).map (List.map f)
      = parBatchLoop G mulf' numThreads (ps.map (Option.map (List.map f))) ∧
    AllOkO ok (parBatchLoop F mulf numThreads ps) := by
  fun_induction parBatchLoop F mulf numThreads ps with
  | case1 => exact ⟨by simp [parBatchLoop], fun l hl => by cases hl⟩
  | case2 p => exact ⟨by simp [parBatchLoop], hps p (by simp)⟩
  | case3 p q rest chunkSize ih =>
    have hchunk : ∀ c ∈ chunks chunkSize (p :: q :: rest), ∀ x ∈ c, AllOkO ok x :=
      fun c hc x hx => hps x (chunksAux_mem _ _ _ c hc x hx)
    have hok : ∀ x ∈ (chunks chunkSize (p :: q :: rest)).map (batchChunk F mulf), AllOkO ok x := by
      intro x hx
      simp only [List.mem_map] at hx
      obtain ⟨c, hc, rfl⟩ := hx
      exact (batchMultiplyWith_map H hm c (hchunk c hc)).2
    obtain ⟨ih1, ih2⟩ := ih hok
    refine ⟨?_, ih2⟩
    rw [ih1]
    simp only [List.map_cons]
    rw [parBatchLoop]
    simp only [List.length_cons, List.length_map]
    congr 1
    rw [← List.map_cons, ← List.map_cons, chunks, chunks, List.length_map, chunksAux_map, List.map_map, List.map_map]
    apply List.map_congr_left
    intro c hc
    exact (batchMultiplyWith_map H hm c (hchunk c hc)).1

theorem parBatchMultiply_map (H : OpsMap F G f ok) (M : TransMap T T' f ok) (threshold : Int) (numThreads : Nat)
    (fs : List (List α)) (hfs : ∀ p ∈ fs, AllOk ok p) :
    (parBatchMultiply F threshold T numThreads fs).map (List.map f)
      = parBatchMultiply G threshold T' numThreads (fs.map (List.map f)) ∧
    AllOkO ok (parBatchMultiply F threshold T numThreads fs) := by
  unfold parBatchMultiply parBatchMultiplyWith
  rw [← map_some_map]
  simp only [List.isEmpty_map]
  split
  · refine ⟨by simp [one, H.one], ?_⟩
    intro l hl; cases hl
    intro z hz
    simp only [one, List.mem_singleton] at hz
    subst hz; exact H.ok_one
  · exact parBatchLoop_map H (multiply_mulMap H M threshold) numThreads _ (allOkO_map_some fs hfs)

/-! ### no panic when the transform is defined on the needed length -/

theorem length_resize' (xs : List α) (n : Nat) (z : α) : (resize xs n z).length = n := by
  simp [resize]; omega

/-- the transform pair is defined on vectors of length `n` and preserves the length -/
def DefinedAt (T : Transform α) (n : Nat) : Prop :=
  (∀ xs : List α, xs.length = n → ∃ ys, T.ntt xs = some ys ∧ ys.length = n) ∧
  (∀ xs : List α, xs.length = n → ∃ ys, T.intt xs = some ys ∧ ys.length = n)

theorem fastMultiply_isSome_of (F : FieldOps α) (T : Transform α) (a b : List α)
    (hT : DefinedAt T (nextPowerOfTwo ((degree F a + degree F b).toNat + 1))) :
    (fastMultiply F T a b).isSome := by
  unfold fastMultiply fastMultiplyG
  simp only
  split
  · rfl
  · obtain ⟨l, hl, hll⟩ := hT.1 _ (length_resize' a _ F.zero)
    obtain ⟨r, hr, hrl⟩ := hT.1 _ (length_resize' b _ F.zero)
    obtain ⟨c, hc, _⟩ := hT.2 (List.zipWith F.mul l r) (by simp [hll, hrl])
    simp [hl, hr, hc]

theorem fastSquare_isSome_of (F : FieldOps α) (T : Transform α) (p : List α)
    (hT : DefinedAt T (nextPowerOfTwo (2 * ((normalize F p).length - 1) + 1))) :
    (fastSquare F T p).isSome := by
  unfold fastSquare
  split
  · rfl
  · rfl
  · next c cs hn =>
    rw [hn] at hT
    simp only [List.length_cons, Nat.add_sub_cancel] at hT
    obtain ⟨v, hv, hvl⟩ := hT.1 _ (length_resize' p _ F.zero)
    obtain ⟨w, hw, _⟩ := hT.2 (v.map (fun e => F.mul e e)) (by simp [hvl])
    simp [hv, hw]

/-- definedness transfers along a correspondence of transforms -/
theorem DefinedAt.of_transMap {T : Transform α} {T' : Transform β} {f : α → β} {ok : α → Prop}
    (M : TransMap T T' f ok) (n : Nat) (h : DefinedAt T' n) : DefinedAt T n := by
  constructor
  · intro xs hx
    obtain ⟨ys', hy', hl'⟩ := h.1 (xs.map f) (by simpa using hx)
    have := M.ntt xs
    rw [hy'] at this
    obtain ⟨ys, hys, rfl⟩ := Option.map_eq_some_iff.1 this
    exact ⟨ys, hys, by simpa using hl'⟩
  · intro xs hx
    obtain ⟨ys', hy', hl'⟩ := h.2 (xs.map f) (by simpa using hx)
    have := M.intt xs
    rw [hy'] at this
    obtain ⟨ys, hys, rfl⟩ := Option.map_eq_some_iff.1 this
    exact ⟨ys, hys, by simpa using hl'⟩

end

/-! ### operands over different element types (`FF: Mul<FF2>`) -/
section Mixed
variable {α₁ α₂ α₃ β₁ β₂ β₃ : Type}
variable {F1 : FieldOps α₁} {F2 : FieldOps α₂} {F3 : FieldOps α₃}
variable {G1 : FieldOps β₁} {G2 : FieldOps β₂} {G3 : FieldOps β₃}
variable {f1 : α₁ → β₁} {f2 : α₂ → β₂} {f3 : α₃ → β₃}
variable {ok1 : α₁ → Prop} {ok2 : α₂ → Prop} {ok3 : α₃ → Prop}
variable {mul : α₁ → α₂ → α₃} {mul' : β₁ → β₂ → β₃}

theorem mulRowsG_map (H3 : OpsMap F3 G3 f3 ok3) (hmul : ∀ x y, f3 (mul x y) = mul' (f1 x) (f2 y))
    (a : List α₁) (b : List α₂) :
    (mulRows F3 mul a b).map f3 = mulRows G3 mul' (a.map f1) (b.map f2) := by
  induction a with
  | nil => rfl
  | cons a0 as ih =>
    cases as with
    | nil => simp [mulRows, hmul]
    | cons a1 as =>
      simp only [mulRows, List.map_cons]
      rw [zipLongestWith_map F3.add id G3.add id H3.add (fun _ => rfl)]
      simp only [List.map_cons, List.map_map, H3.zero]
      rw [← List.map_cons, ← ih]
      congr 1
      apply List.map_congr_left
      intro x _
      simp [hmul]

theorem mulRowsG_ok (H3 : OpsMap F3 G3 f3 ok3) (hok : ∀ x y, ok3 (mul x y)) (a : List α₁) (b : List α₂) :
    AllOk ok3 (mulRows F3 mul a b) := by
  induction a with
  | nil => exact allOk_nil ok3
  | cons a0 as ih =>
    cases as with
    | nil =>
      intro z hz
      simp only [mulRows, List.mem_map] at hz
      obtain ⟨y, _, rfl⟩ := hz
      exact hok _ _
    | cons a1 as =>
      simp only [mulRows]
      apply zipLongestWith_ok F3.add id H3.ok_add
      · intro z hz
        simp only [List.mem_map] at hz
        obtain ⟨y, _, rfl⟩ := hz
        exact hok _ _
      · intro y hy
        simp only [List.mem_cons] at hy
        rcases hy with rfl | hy
        · exact H3.ok_zero
        · exact ih y hy

theorem naiveMultiplyG_map (H1 : OpsMap F1 G1 f1 ok1) (H2 : OpsMap F2 G2 f2 ok2) (H3 : OpsMap F3 G3 f3 ok3)
    (hmul : ∀ x y, f3 (mul x y) = mul' (f1 x) (f2 y)) (a : List α₁) (b : List α₂)
    (ha : AllOk ok1 a) (hb : AllOk ok2 b) :
    (naiveMultiplyG F1 F2 F3 mul a b).map f3 = naiveMultiplyG G1 G2 G3 mul' (a.map f1) (b.map f2) := by
  unfold naiveMultiplyG
  rw [← normalize_map H1 a ha, ← normalize_map H2 b hb]
  cases hna : normalize F1 a with
  | nil => rfl
  | cons x xs =>
    cases hnb : normalize F2 b with
    | nil => rfl
    | cons y ys =>
      simp only [List.map_cons]
      have := mulRowsG_map (f1 := f1) (f2 := f2) H3 hmul (x :: xs) (y :: ys)
      simpa using this

theorem naiveMultiplyG_ok (H3 : OpsMap F3 G3 f3 ok3) (hok : ∀ x y, ok3 (mul x y)) (a : List α₁) (b : List α₂) :
    AllOk ok3 (naiveMultiplyG F1 F2 F3 mul a b) := by
  unfold naiveMultiplyG
  split
  · exact allOk_nil ok3
  · exact allOk_nil ok3
  · exact mulRowsG_ok H3 hok _ _

variable {T1 : Transform α₁} {T2 : Transform α₂} {T3 : Transform α₃}
variable {T1' : Transform β₁} {T2' : Transform β₂} {T3' : Transform β₃}

theorem fastMultiplyG_map (H1 : OpsMap F1 G1 f1 ok1) (H2 : OpsMap F2 G2 f2 ok2)
    (M1 : TransMap T1 T1' f1 ok1) (M2 : TransMap T2 T2' f2 ok2) (M3 : TransMap T3 T3' f3 ok3)
    (hmul : ∀ x y, f3 (mul x y) = mul' (f1 x) (f2 y)) (a : List α₁) (b : List α₂)
    (ha : AllOk ok1 a) (hb : AllOk ok2 b) :
    (fastMultiplyG F1 F2 mul T1 T2 T3 a b).map (List.map f3)
      = fastMultiplyG G1 G2 mul' T1' T2' T3' (a.map f1) (b.map f2) := by
  unfold fastMultiplyG
  simp only [degree_map H1 a ha, degree_map H2 b hb, ← resize_map H1, ← resize_map H2, ← M1.ntt, ← M2.ntt]
  split
  · rfl
  · cases T1.ntt (resize a _ F1.zero) with
    | none => rfl
    | some l =>
      cases T2.ntt (resize b _ F2.zero) with
      | none => rfl
      | some r =>
        have hz : List.zipWith mul' (l.map f1) (r.map f2) = (List.zipWith mul l r).map f3 := by
          rw [List.zipWith_map, List.map_zipWith]
          congr 1; funext x y; exact (hmul x y).symm
        simp only [Option.map_some, Option.bind_eq_bind, Option.bind_some, hz, ← M3.intt]
        cases T3.intt (List.zipWith mul l r) with
        | none => rfl
        | some c => simp [List.map_take]

theorem fastMultiplyG_ok (M3 : TransMap T3 T3' f3 ok3) (a : List α₁) (b : List α₂) (r : List α₃)
    (h : fastMultiplyG F1 F2 mul T1 T2 T3 a b = some r) : AllOk ok3 r := by
  unfold fastMultiplyG at h
  simp only at h
  split at h
  · cases h; exact allOk_nil ok3
  · generalize nextPowerOfTwo ((degree F1 a + degree F2 b).toNat + 1) = n at h
    cases hl : T1.ntt (resize a n F1.zero) with
    | none => simp [hl] at h
    | some l =>
      cases hr : T2.ntt (resize b n F2.zero) with
      | none => simp [hl, hr] at h
      | some rr =>
        cases hc : T3.intt (List.zipWith mul l rr) with
        | none => simp [hl, hr, hc] at h
        | some c =>
          simp [hl, hr, hc] at h
          subst h
          exact fun x hx => M3.ok_intt _ _ hc x (List.mem_of_mem_take hx)

theorem multiplyG_map (H1 : OpsMap F1 G1 f1 ok1) (H2 : OpsMap F2 G2 f2 ok2) (H3 : OpsMap F3 G3 f3 ok3)
    (M1 : TransMap T1 T1' f1 ok1) (M2 : TransMap T2 T2' f2 ok2) (M3 : TransMap T3 T3' f3 ok3)
    (hmul : ∀ x y, f3 (mul x y) = mul' (f1 x) (f2 y)) (threshold : Int) (a : List α₁) (b : List α₂)
    (ha : AllOk ok1 a) (hb : AllOk ok2 b) :
    (multiplyG F1 F2 F3 mul threshold T1 T2 T3 a b).map (List.map f3)
      = multiplyG G1 G2 G3 mul' threshold T1' T2' T3' (a.map f1) (b.map f2) := by
  unfold multiplyG
  rw [degree_map H1 a ha, degree_map H2 b hb]
  split
  · simp [naiveMultiplyG_map H1 H2 H3 hmul a b ha hb]
  · exact fastMultiplyG_map H1 H2 M1 M2 M3 hmul a b ha hb

theorem multiplyG_ok (H3 : OpsMap F3 G3 f3 ok3) (M3 : TransMap T3 T3' f3 ok3) (hok : ∀ x y, ok3 (mul x y))
    (threshold : Int) (a : List α₁) (b : List α₂) (r : List α₃)
    (h : multiplyG F1 F2 F3 mul threshold T1 T2 T3 a b = some r) : AllOk ok3 r := by
  unfold multiplyG at h
  split at h
  · cases h; exact naiveMultiplyG_ok H3 hok a b
  · exact fastMultiplyG_ok M3 a b r h

end Mixed

end TF.Model.Poly.Hom
