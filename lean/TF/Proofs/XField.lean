import TF.Proofs.BFieldZMod
import TF.Model.XField
import Mathlib.Tactic.Ring
import Mathlib.Tactic.LinearCombination
/-!
Extension field: the three result expressions of `XFieldElement::mul` (model `TF.Model.XF.mul`, on raw words) are the
coefficients of the product modulo `X³ − X + 1`.
-/
namespace TF.XFp
open TF.Gen TF.Model TF.BF

/-- the polynomial identity behind the product formula, in any commutative ring, for any element `t` -/
theorem mul_formula {R : Type} [CommRing R] (a0 a1 a2 b0 b1 b2 t : R) :
    (a0 + a1 * t + a2 * t^2) * (b0 + b1 * t + b2 * t^2)
      = (a0 * b0 - a2 * b1 - a1 * b2)
        + (a1 * b0 + a0 * b1 - a2 * b2 + a2 * b1 + a1 * b2) * t
        + (a2 * b0 + a1 * b1 + a0 * b2 + a2 * b2) * t^2
        + (t^3 - t + 1) * ((a2 * b1 + a1 * b2) + a2 * b2 * t) := by
  ring

def canon3 (x : XF.X3) : Prop := canon x.1 ∧ canon x.2.1 ∧ canon x.2.2

theorem canon_add (a b : Nat) (ha : canon a) (hb : canon b) : canon (bfe_add a b) := (add_spec a b ha hb).1
theorem canon_sub (a b : Nat) (ha : canon a) (hb : canon b) : canon (bfe_sub a b) := (sub_spec a b ha hb).1

/-- `XFieldElement * XFieldElement` on raw words: canonical coefficients with the values of the product formula -/
theorem mul_coeffs (x y : XF.X3) (hx : canon3 x) (hy : canon3 y) :
    canon3 (XF.mul x y) ∧
    toF (XF.mul x y).1 = toF x.1 * toF y.1 - toF x.2.2 * toF y.2.1 - toF x.2.1 * toF y.2.2 ∧
    toF (XF.mul x y).2.1 = toF x.2.1 * toF y.1 + toF x.1 * toF y.2.1 - toF x.2.2 * toF y.2.2
        + toF x.2.2 * toF y.2.1 + toF x.2.1 * toF y.2.2 ∧
    toF (XF.mul x y).2.2 = toF x.2.2 * toF y.1 + toF x.2.1 * toF y.2.1 + toF x.1 * toF y.2.2
        + toF x.2.2 * toF y.2.2 := by
  obtain ⟨c, b, a⟩ := x
  obtain ⟨f, e, d⟩ := y
  obtain ⟨hc, hb, ha⟩ := hx
  obtain ⟨hf, he, hd⟩ := hy
  simp only at hc hb ha hf he hd
  have m (p q : Nat) (hp : canon p) (hq : canon q) := canon_mul p q hp hq
  simp only [XF.mul, canon3]
  refine ⟨⟨?_, ?_, ?_⟩, ?_, ?_, ?_⟩
  · exact canon_sub _ _ (canon_sub _ _ (m _ _ hc hf) (m _ _ ha he)) (m _ _ hb hd)
  · exact canon_add _ _ (canon_add _ _ (canon_sub _ _ (canon_add _ _ (m _ _ hb hf) (m _ _ hc he)) (m _ _ ha hd)) (m _ _ ha he)) (m _ _ hb hd)
  · exact canon_add _ _ (canon_add _ _ (canon_add _ _ (m _ _ ha hf) (m _ _ hb he)) (m _ _ hc hd)) (m _ _ ha hd)
  · rw [toF_sub _ _ (canon_sub _ _ (m _ _ hc hf) (m _ _ ha he)) (m _ _ hb hd),
      toF_sub _ _ (m _ _ hc hf) (m _ _ ha he), toF_mul _ _ hc hf, toF_mul _ _ ha he, toF_mul _ _ hb hd]
  · rw [toF_add _ _ (canon_add _ _ (canon_sub _ _ (canon_add _ _ (m _ _ hb hf) (m _ _ hc he)) (m _ _ ha hd)) (m _ _ ha he)) (m _ _ hb hd),
      toF_add _ _ (canon_sub _ _ (canon_add _ _ (m _ _ hb hf) (m _ _ hc he)) (m _ _ ha hd)) (m _ _ ha he),
      toF_sub _ _ (canon_add _ _ (m _ _ hb hf) (m _ _ hc he)) (m _ _ ha hd),
      toF_add _ _ (m _ _ hb hf) (m _ _ hc he),
      toF_mul _ _ hb hf, toF_mul _ _ hc he, toF_mul _ _ ha hd, toF_mul _ _ ha he, toF_mul _ _ hb hd]
  · rw [toF_add _ _ (canon_add _ _ (canon_add _ _ (m _ _ ha hf) (m _ _ hb he)) (m _ _ hc hd)) (m _ _ ha hd),
      toF_add _ _ (canon_add _ _ (m _ _ ha hf) (m _ _ hb he)) (m _ _ hc hd),
      toF_add _ _ (m _ _ ha hf) (m _ _ hb he),
      toF_mul _ _ ha hf, toF_mul _ _ hb he, toF_mul _ _ hc hd, toF_mul _ _ ha hd]

/-- evaluation of an extension element at `t` -/
def ev (t : Fp) (x : XF.X3) : Fp := toF x.1 + toF x.2.1 * t + toF x.2.2 * t^2

/-- **extension-field multiplication is polynomial multiplication modulo `X³ − X + 1`**: for every `t` (in particular
    the indeterminate of `F_p[X]`, since the identity is a ring identity) the product of the evaluations differs from the
    evaluation of the product by an explicit multiple of `t³ − t + 1`. -/
theorem mul_is_product_mod_shah (x y : XF.X3) (hx : canon3 x) (hy : canon3 y) (t : Fp) :
    ev t x * ev t y = ev t (XF.mul x y)
      + (t^3 - t + 1) * ((toF x.2.2 * toF y.2.1 + toF x.2.1 * toF y.2.2) + toF x.2.2 * toF y.2.2 * t) := by
  obtain ⟨_, h0, h1, h2⟩ := mul_coeffs x y hx hy
  unfold ev
  rw [h0, h1, h2]
  exact mul_formula _ _ _ _ _ _ t

theorem add_coeffs (x y : XF.X3) (hx : canon3 x) (hy : canon3 y) (t : Fp) :
    canon3 (XF.add x y) ∧ ev t (XF.add x y) = ev t x + ev t y := by
  obtain ⟨hc, hb, ha⟩ := hx
  obtain ⟨hf, he, hd⟩ := hy
  refine ⟨⟨canon_add _ _ hc hf, canon_add _ _ hb he, canon_add _ _ ha hd⟩, ?_⟩
  simp only [ev, XF.add, toF_add _ _ hc hf, toF_add _ _ hb he, toF_add _ _ ha hd]; ring

theorem sub_coeffs (x y : XF.X3) (hx : canon3 x) (hy : canon3 y) (t : Fp) :
    canon3 (XF.sub x y) ∧ ev t (XF.sub x y) = ev t x - ev t y := by
  obtain ⟨hc, hb, ha⟩ := hx
  obtain ⟨hf, he, hd⟩ := hy
  refine ⟨⟨canon_sub _ _ hc hf, canon_sub _ _ hb he, canon_sub _ _ ha hd⟩, ?_⟩
  simp only [ev, XF.sub, toF_sub _ _ hc hf, toF_sub _ _ hb he, toF_sub _ _ ha hd]; ring

end TF.XFp
