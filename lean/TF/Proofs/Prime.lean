import Mathlib.NumberTheory.LucasPrimality
import Mathlib.Tactic.NormNum.Prime
import Mathlib.Algebra.CharP.Basic
import Mathlib.Tactic.ReduceModChar
import TF.Gen.Consts
/-!
`P = 2^64 - 2^32 + 1` is prime (Lucas test with witness 7; `P - 1 = 2^32 · 3 · 5 · 17 · 257 · 65537`).
The constant `TF.Gen.P` is regenerated from `b_field_element.rs`.
-/
namespace TF

theorem P_val : TF.Gen.P = 18446744069414584321 := rfl

theorem prime_P : Nat.Prime 18446744069414584321 := by
  apply lucas_primality 18446744069414584321 (7 : ZMod 18446744069414584321)
  · reduce_mod_char
  · intro q hq hdvd
    have hfac : (18446744069414584321 - 1 : ℕ) = 2^32 * 3 * 5 * 17 * 257 * 65537 := by norm_num
    rw [hfac] at hdvd
    have h2 : Nat.Prime 2 := by norm_num
    have h3 : Nat.Prime 3 := by norm_num
    have h5 : Nat.Prime 5 := by norm_num
    have h17 : Nat.Prime 17 := by norm_num
    have h257 : Nat.Prime 257 := by norm_num
    have h65537 : Nat.Prime 65537 := by norm_num
    have : q = 2 ∨ q = 3 ∨ q = 5 ∨ q = 17 ∨ q = 257 ∨ q = 65537 := by
      rcases (Nat.Prime.dvd_mul hq).1 hdvd with h | h
      · rcases (Nat.Prime.dvd_mul hq).1 h with h | h
        · rcases (Nat.Prime.dvd_mul hq).1 h with h | h
          · rcases (Nat.Prime.dvd_mul hq).1 h with h | h
            · rcases (Nat.Prime.dvd_mul hq).1 h with h | h
              · left; exact (Nat.prime_dvd_prime_iff_eq hq h2).1 (hq.dvd_of_dvd_pow h)
              · right; left; exact (Nat.prime_dvd_prime_iff_eq hq h3).1 h
            · right; right; left; exact (Nat.prime_dvd_prime_iff_eq hq h5).1 h
          · right; right; right; left; exact (Nat.prime_dvd_prime_iff_eq hq h17).1 h
        · right; right; right; right; left; exact (Nat.prime_dvd_prime_iff_eq hq h257).1 h
      · right; right; right; right; right; exact (Nat.prime_dvd_prime_iff_eq hq h65537).1 h
    rcases this with rfl | rfl | rfl | rfl | rfl | rfl <;> reduce_mod_char <;> decide

instance : Fact (Nat.Prime 18446744069414584321) := ⟨prime_P⟩

theorem prime_P_lit : Nat.Prime 18446744069414584321 := prime_P
theorem prime_P' : Nat.Prime TF.Gen.P := prime_P
instance : Fact (Nat.Prime TF.Gen.P) := ⟨prime_P'⟩

end TF
