import TF.Proofs.NttDft
/-!
Function-level theory of the negacyclic ("coset") transform with tabulated twiddles, over any commutative ring and
for any length `2^L`.

Forward network (Cooley–Tukey, twiddle of block `i` at level `s` is `ζ (2^s + i)`): if the table satisfies
`ζ(2^s + i)² = c(s, i)` where `c(0,0) = c0`, `c(s+1, 2i) = ζ(2^s+i)`, `c(s+1, 2i+1) = -ζ(2^s+i)`, then output `i` is the
evaluation `Σ_q x[q]·ρ_i^q` at `ρ_i = c(L, i)`, and `ρ_i^(2^L) = c0`.

Inverse network (Gentleman–Sande with the inverse table): each inverse stage undoes the matching forward stage up to
the factor 2.

Evaluation at a root of `X^n - c0`… for `c0 = -1`: turns negacyclic convolution into a product.
-/
namespace TF.LatFn
open Finset TF.NttFn

variable {R : Type} [CommRing R]

/-- forward stage: `m` blocks of size `2t`, block `b` uses `ζ (m + b)` -/
def stageC (m t : Nat) (ζ : Nat → R) (x : Nat → R) : Nat → R := fun idx =>
  if idx % (2*t) < t then x idx + ζ (m + idx / (2*t)) * x (idx + t)
  else x (idx - t) - ζ (m + idx / (2*t)) * x idx

/-- `s` forward stages of the length-`2^L` transform -/
def cStages (L : Nat) (ζ : Nat → R) : Nat → (Nat → R) → (Nat → R)
  | 0, y => y
  | s+1, y => stageC (2^s) (2^(L-s-1)) ζ (cStages L ζ s y)

/-- the constant of block `i` at level `s`: the block holds the input modulo `X^(2^(L-s)) - c(s,i)` -/
def cconst (c0 : R) (ζ : Nat → R) : Nat → Nat → R
  | 0, _ => c0
  | s+1, i => if i % 2 = 0 then ζ (2^s + i / 2) else - ζ (2^s + i / 2)

/-- the table is consistent: every twiddle squares to the constant of its block -/
def TableOk (L : Nat) (c0 : R) (ζ : Nat → R) : Prop :=
  ∀ s, s < L → ∀ i, i < 2^s → ζ (2^s + i) ^ 2 = cconst c0 ζ s i

theorem c_invariant (L : Nat) (c0 : R) (ζ : Nat → R) (hT : TableOk L c0 ζ) (x : Nat → R) :
    ∀ s, s ≤ L → ∀ i p, i < 2^s → p < 2^(L-s) →
      cStages L ζ s x (i * 2^(L-s) + p)
        = ∑ q ∈ range (2^s), x (p + q * 2^(L-s)) * (cconst c0 ζ s i)^q := by
  intro s
  induction s with
  | zero =>
    intro _ i p hi hp
    have : i = 0 := by simpa using hi
    subst this
    simp [cStages]
  | succ s ih =>
    intro hs i' p hi' hp
    have hsL : s ≤ L := by omega
    obtain ⟨d, hd⟩ : ∃ d, L - s = d + 1 := ⟨L - s - 1, by omega⟩
    have hd' : L - (s+1) = d := by omega
    have hd'' : L - s - 1 = d := by omega
    rw [hd'] at hp ⊢
    set t := 2^d with ht
    have htpos : 0 < t := by positivity
    have hB : 2^(L-s) = 2*t := by rw [hd, pow_succ]; ring
    simp only [cStages, hd'']
    rw [← ht]
    obtain ⟨i, b, hb, rfl⟩ : ∃ i b, b < 2 ∧ i' = 2*i + b := ⟨i'/2, i'%2, Nat.mod_lt _ (by norm_num), by omega⟩
    have hi : i < 2^s := by rw [pow_succ] at hi'; omega
    have hc : cconst c0 ζ s i = (ζ (2^s + i))^2 := (hT s (by omega) i hi).symm
    have e0 := ih hsL i p hi (by rw [hB]; omega)
    have e1 := ih hsL i (p + t) hi (by rw [hB]; omega)
    rw [hc] at e0 e1
    set z := ζ (2^s + i) with hz
    rw [hB] at e0 e1
    have hidx : (2*i + b) * t + p = i * (2*t) + (b*t + p) := by ring
    have hmod : ((2*i + b) * t + p) % (2*t) = b*t + p := by
      rw [hidx, Nat.add_comm, Nat.add_mul_mod_self_right]
      apply Nat.mod_eq_of_lt
      rcases (show b = 0 ∨ b = 1 by omega) with rfl | rfl <;> omega
    have hdiv : ((2*i + b) * t + p) / (2*t) = i := by
      rw [hidx, Nat.add_comm, Nat.add_mul_div_right _ _ (by omega)]
      have : (b*t + p) / (2*t) = 0 := by
        apply Nat.div_eq_of_lt
        rcases (show b = 0 ∨ b = 1 by omega) with rfl | rfl <;> omega
      omega
    unfold stageC
    simp only [hmod, hdiv, ← hz]
    rw [show 2^(s+1) = 2 * 2^s by rw [pow_succ]; ring, sum_range_even_odd]
    have hsplit_even : ∀ (w : R), ∑ q ∈ range (2^s), x (p + 2*q*t) * w^(2*q)
        = ∑ q ∈ range (2^s), x (p + q*(2*t)) * (w^2)^q := by
      intro w; apply sum_congr rfl; intro q _
      rw [← pow_mul]; congr 2; ring
    have hsplit_odd : ∀ (w : R), ∑ q ∈ range (2^s), x (p + (2*q+1)*t) * w^(2*q+1)
        = w * ∑ q ∈ range (2^s), x (p + t + q*(2*t)) * (w^2)^q := by
      intro w; rw [mul_sum]; apply sum_congr rfl; intro q _
      rw [← pow_mul, pow_succ]
      have : p + (2*q+1)*t = p + t + q*(2*t) := by ring
      rw [this]; ring
    rcases (show b = 0 ∨ b = 1 by omega) with rfl | rfl
    · have hlt : 0*t + p < t := by omega
      simp only [hlt, if_true]
      have hcc : cconst c0 ζ (s+1) (2*i + 0) = z := by
        simp only [cconst, Nat.add_zero]
        rw [if_pos (by omega), show 2*i/2 = i by omega]
      rw [hcc]
      rw [show (2*i + 0) * t + p = i * (2*t) + p by ring, e0,
          show i * (2*t) + p + t = i * (2*t) + (p + t) by ring, e1]
      rw [hsplit_even z, hsplit_odd z]
    · have hge : ¬ (1*t + p < t) := by omega
      simp only [hge, if_false]
      have hcc : cconst c0 ζ (s+1) (2*i + 1) = -z := by
        simp only [cconst]
        rw [if_neg (by omega), show (2*i+1)/2 = i by omega]
      rw [hcc]
      rw [show (2*i + 1) * t + p - t = i * (2*t) + p by
            have : (2*i + 1) * t + p = i * (2*t) + p + t := by ring
            omega,
          e0, show (2*i + 1) * t + p = i * (2*t) + (p + t) by ring, e1]
      rw [hsplit_even (-z), hsplit_odd (-z)]
      have : (-z)^2 = z^2 := by ring
      rw [this]; ring

/-- the evaluation points -/
def rho (L : Nat) (c0 : R) (ζ : Nat → R) (i : Nat) : R := cconst c0 ζ L i

theorem cconst_pow (L : Nat) (c0 : R) (ζ : Nat → R) (hT : TableOk L c0 ζ) :
    ∀ s, s ≤ L → ∀ i, i < 2^s → (cconst c0 ζ s i)^(2^s) = c0 := by
  intro s
  induction s with
  | zero => intro _ i _; simp [cconst]
  | succ s ih =>
    intro hs i hi
    have hi2 : i / 2 < 2^s := by rw [pow_succ] at hi; omega
    have hsq : (cconst c0 ζ (s+1) i)^2 = cconst c0 ζ s (i/2) := by
      rw [← hT s (by omega) (i/2) hi2]
      simp only [cconst]
      split <;> ring
    rw [pow_succ, Nat.mul_comm, pow_mul, hsq]
    exact ih (by omega) (i/2) hi2

/-- **the forward transform evaluates the input polynomial at `ρ_i`, and `ρ_i^(2^L) = c0`** -/
theorem cStages_eval (L : Nat) (c0 : R) (ζ : Nat → R) (hT : TableOk L c0 ζ) (x : Nat → R) (i : Nat) (hi : i < 2^L) :
    cStages L ζ L x i = ∑ q ∈ range (2^L), x q * (rho L c0 ζ i)^q ∧ (rho L c0 ζ i)^(2^L) = c0 := by
  have := c_invariant L c0 ζ hT x L (le_refl L) i 0 hi (by simp)
  simp only [Nat.sub_self, pow_zero, Nat.mul_one, Nat.add_zero, Nat.zero_add] at this
  exact ⟨this, cconst_pow L c0 ζ hT L (le_refl L) i hi⟩

/-! ### the inverse network -/

/-- inverse stage: `h` blocks of size `2t`, block `b` uses `ζi (h + b)` -/
def stageCI (h t : Nat) (ζi : Nat → R) (x : Nat → R) : Nat → R := fun idx =>
  if idx % (2*t) < t then x idx + x (idx + t)
  else ζi (h + idx / (2*t)) * (x (idx - t) - x idx)

theorem stageCI_stageC (m t : Nat) (ht : 0 < t) (ζ ζi : Nat → R) (hinv : ∀ k, ζi k * ζ k = 1) (x : Nat → R)
    (idx : Nat) : stageCI m t ζi (stageC m t ζ x) idx = 2 * x idx := by
  have hr : idx % (2*t) < 2*t := Nat.mod_lt _ (by omega)
  have hdm := Nat.div_add_mod idx (2*t)
  unfold stageCI
  by_cases hlt : idx % (2*t) < t
  · simp only [hlt, if_true]
    have h1 : (idx + t) % (2*t) = idx % (2*t) + t := by
      rw [Nat.add_mod, Nat.mod_eq_of_lt (show t < 2*t by omega)]
      exact Nat.mod_eq_of_lt (by omega)
    have h2 : (idx + t) / (2*t) = idx / (2*t) := by
      have := Nat.div_add_mod (idx + t) (2*t)
      rw [h1] at this
      have h3 : 2*t*((idx+t)/(2*t)) = 2*t*(idx/(2*t)) := by omega
      exact Nat.eq_of_mul_eq_mul_left (by omega) h3
    unfold stageC
    simp only [hlt, if_true, h1, h2, show ¬ (idx % (2*t) + t < t) by omega, if_false, Nat.add_sub_cancel]
    ring
  · simp only [hlt, if_false]
    have h1 : (idx - t) % (2*t) = idx % (2*t) - t := by
      have : idx - t = 2*t*(idx/(2*t)) + (idx % (2*t) - t) := by omega
      rw [this, Nat.mul_add_mod]
      exact Nat.mod_eq_of_lt (by omega)
    have h2 : (idx - t) / (2*t) = idx / (2*t) := by
      have := Nat.div_add_mod (idx - t) (2*t)
      rw [h1] at this
      have h3 : 2*t*((idx-t)/(2*t)) = 2*t*(idx/(2*t)) := by omega
      exact Nat.eq_of_mul_eq_mul_left (by omega) h3
    unfold stageC
    simp only [hlt, if_false, h1, h2, show idx % (2*t) - t < t by omega, if_true,
      show idx - t + t = idx by omega]
    have := hinv (m + idx / (2*t))
    calc ζi (m + idx / (2*t)) * (x (idx - t) + ζ (m + idx / (2*t)) * x idx - (x (idx - t) - ζ (m + idx / (2*t)) * x idx))
        = 2 * (ζi (m + idx / (2*t)) * ζ (m + idx / (2*t))) * x idx := by ring
      _ = 2 * x idx := by rw [this]; ring

theorem stageCI_smul (h t : Nat) (ζi : Nat → R) (c : R) (x : Nat → R) (idx : Nat) :
    stageCI h t ζi (fun k => c * x k) idx = c * stageCI h t ζi x idx := by
  unfold stageCI
  split <;> ring

theorem stageCI_congr (h t : Nat) (ζi : Nat → R) (x y : Nat → R) (hxy : ∀ k, x k = y k) (idx : Nat) :
    stageCI h t ζi x idx = stageCI h t ζi y idx := by
  have : x = y := funext hxy
  rw [this]

/-- `k` inverse stages, starting with the innermost (`t = 1`) -/
def ciStages (L : Nat) (ζi : Nat → R) : Nat → (Nat → R) → (Nat → R)
  | 0, y => y
  | k+1, y => stageCI (2^(L-k-1)) (2^k) ζi (ciStages L ζi k y)

/-- the inverse network undoes the forward network up to the factor `2^L` -/
theorem ciStages_cStages (L : Nat) (ζ ζi : Nat → R) (hinv : ∀ k, ζi k * ζ k = 1) (x : Nat → R) :
    ∀ k, k ≤ L → ∀ idx, ciStages L ζi k (cStages L ζ L x) idx = 2^k * cStages L ζ (L - k) x idx := by
  intro k
  induction k with
  | zero => intro _ idx; simp [ciStages]
  | succ k ih =>
    intro hk idx
    have ihk := ih (by omega)
    rw [ciStages]
    rw [stageCI_congr _ _ _ _ _ ihk idx, stageCI_smul]
    obtain ⟨s, hs⟩ : ∃ s, L - k = s + 1 := ⟨L - k - 1, by omega⟩
    have hs' : L - (k+1) = s := by omega
    have hs'' : L - k - 1 = s := by omega
    have hk' : L - s - 1 = k := by omega
    rw [hs'', hs', hs, cStages, hk']
    rw [stageCI_stageC (2^s) (2^k) (by positivity) ζ ζi hinv]
    rw [pow_succ]; ring

theorem ciStages_full (L : Nat) (ζ ζi : Nat → R) (hinv : ∀ k, ζi k * ζ k = 1) (x : Nat → R) (idx : Nat) :
    ciStages L ζi L (cStages L ζ L x) idx = 2^L * x idx := by
  have := ciStages_cStages L ζ ζi hinv x L (le_refl L) idx
  simpa [cStages] using this

/-! ### evaluation at a root of `X^n + 1` turns negacyclic convolution into a product -/

/-- coefficient `k` of the product modulo `X^n + 1` -/
def negaConv (n : Nat) (a b : Nat → R) (k : Nat) : R :=
  ∑ i ∈ range n, (if i ≤ k then a i * b ((k + n - i) % n) else - (a i * b ((k + n - i) % n)))

theorem negaConv_eval (n : Nat) (ρ : R) (hρ : ρ^n = -1) (a b : Nat → R) :
    ∑ k ∈ range n, negaConv n a b k * ρ^k = (∑ i ∈ range n, a i * ρ^i) * (∑ j ∈ range n, b j * ρ^j) := by
  unfold negaConv
  simp only [sum_mul]
  rw [sum_comm]
  apply sum_congr rfl
  intro i hi
  have hin : i < n := mem_range.1 hi
  -- for fixed i:  Σ_k (±) a_i b_{(k+n-i)%n} ρ^k = a_i ρ^i Σ_j b_j ρ^j
  rw [mul_sum]
  -- split both sums at i and n - i
  have hn : n = i + (n - i) := by omega
  have hn' : n = (n - i) + i := by omega
  calc ∑ k ∈ range n, (if i ≤ k then a i * b ((k + n - i) % n) else -(a i * b ((k + n - i) % n))) * ρ^k
      = ∑ k ∈ range (i + (n - i)), (if i ≤ k then a i * b ((k + n - i) % n) else -(a i * b ((k + n - i) % n))) * ρ^k := by
        rw [← hn]
    _ = ∑ k ∈ range i, (-(a i * b (k + n - i))) * ρ^k + ∑ k ∈ range (n - i), (a i * b k) * ρ^(i + k) := by
        rw [sum_range_add]
        congr 1
        · apply sum_congr rfl; intro k hk
          have hk' : k < i := mem_range.1 hk
          rw [if_neg (by omega), Nat.mod_eq_of_lt (by omega)]
        · apply sum_congr rfl; intro k hk
          have hk' : k < n - i := mem_range.1 hk
          rw [if_pos (by omega)]
          have : (i + k + n - i) % n = k := by
            rw [show i + k + n - i = k + n by omega, Nat.add_mod_right, Nat.mod_eq_of_lt (by omega)]
          rw [this]
    _ = ∑ j ∈ range (n - i), a i * ρ^i * (b j * ρ^j) + ∑ j ∈ range i, a i * ρ^i * (b (n - i + j) * ρ^(n - i + j)) := by
        rw [add_comm]
        congr 1
        · apply sum_congr rfl; intro k _; rw [pow_add]; ring
        · apply sum_congr rfl; intro k hk
          have hk' : k < i := mem_range.1 hk
          have h1 : k + n - i = n - i + k := by omega
          have h2 : ρ^i * ρ^(n - i + k) = -ρ^k := by
            rw [← pow_add, show i + (n - i + k) = n + k by omega, pow_add, hρ]; ring
          rw [h1]
          calc -(a i * b (n - i + k)) * ρ^k = a i * b (n - i + k) * (-ρ^k) := by ring
            _ = a i * b (n - i + k) * (ρ^i * ρ^(n - i + k)) := by rw [h2]
            _ = _ := by ring
    _ = ∑ j ∈ range ((n - i) + i), a i * ρ^i * (b j * ρ^j) := by rw [sum_range_add]
    _ = ∑ j ∈ range n, a i * ρ^i * (b j * ρ^j) := by rw [← hn']

end TF.LatFn
