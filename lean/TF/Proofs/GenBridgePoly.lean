import TF.Gen.PolyLoops
import TF.Model.Poly
import TF.Model.PolyMul
import TF.Model.PolyDiv
import Mathlib.Data.List.Basic
import Mathlib.Data.List.Induction
/-!
Bridge: the core functions of `polynomial.rs` regenerated from source (`TF/Gen/PolyLoops.lean`, tools/rs2lean_poly.py) are the
hand models of `TF/Model/Poly.lean`, `PolyMul.lean`, `PolyDiv.lean`, `PolyVal.lean` — for every record of field operations
`F : FieldOps α` (no field law is used: these are statements about list manipulation), every storage (stored leading zeros
included).  `gen = some model` also says that the regenerated function does not panic and that the fuel of its `while`
loops suffices.
-/
namespace TF.GenBridge.Poly
open TF TF.Model.Poly TF.PolyStd

variable {α β γ σ : Type} (F : FieldOps α)

/-! ### storage observers -/

theorem normalize_snoc (p : List α) (c : α) :
    normalize F (p ++ [c]) = if F.isZero c then normalize F p else p ++ [c] := by
  unfold normalize
  simp only [List.reverse_append, List.reverse_cons, List.reverse_nil, List.nil_append, List.singleton_append,
    List.dropWhile_cons]
  split <;> simp

theorem degree_loop_eq (p : List α) : ∀ (n k : Nat), n ≤ p.length →
    TF.Gen.Poly.degree_loop F p (n + 1 + k) ((n : Int) - 1) = some (((normalize F (p.take n)).length : Int) - 1) := by
  intro n
  induction n with
  | zero =>
    intro k _
    rw [show 0 + 1 + k = k + 1 by omega, TF.Gen.Poly.degree_loop]
    simp [normalize]
  | succ n ih =>
    intro k hn
    have hlt : n < p.length := by omega
    have h1 : ((n + 1 : Nat) : Int) - 1 = (n : Int) := by omega
    rw [h1, show n + 1 + 1 + k = (n + 1 + k) + 1 by omega, TF.Gen.Poly.degree_loop]
    have h2 : decide ((n : Int) ≥ 0) = true := by simp
    simp only [h2, if_true, toUsize?, Int.natCast_nonneg, Int.toNat_natCast, Option.bind_some,
      List.getElem?_eq_getElem hlt]
    rw [List.take_succ_eq_append_getElem hlt, normalize_snoc]
    by_cases hz : F.isZero p[n] = true
    · simp only [hz, if_true]
      exact ih k (by omega)
    · simp only [hz]
      simp
      omega

/-- regenerated `degree` = hand model (never panics, the fuel `len + 1` suffices) -/
theorem degree_eq (p : List α) : TF.Gen.Poly.degree F p = some (degree F p) := by
  unfold TF.Gen.Poly.degree
  have := degree_loop_eq F p p.length 0 (Nat.le_refl _)
  simp only [Nat.add_zero, List.take_length] at this
  simp only [Int.ofNat_eq_natCast, this, Option.bind_some, degree]

theorem rposition_snoc (f : α → Bool) (q : List α) (c : α) :
    rposition f (q ++ [c]) = if f c then some q.length else rposition f q := by
  induction q with
  | nil => simp [rposition]
  | cons x q ih =>
    simp only [List.cons_append, rposition, ih, List.length_cons]
    by_cases hc : f c = true
    · simp [hc]
    · simp only [hc]
      cases rposition f q <;> simp

theorem coefficients_aux (p : List α) :
    (match rposition (fun c => !F.isZero c) p with
      | none => some []
      | some i => (sliceIncl? p 0 i).bind fun t => some t) = some (normalize F p) := by
  induction p using List.reverseRecOn with
  | nil => simp [rposition, normalize]
  | append_singleton q c ih =>
    rw [rposition_snoc, normalize_snoc]
    by_cases hz : F.isZero c = true
    · simp only [hz, Bool.not_true, Bool.false_eq_true, if_false, if_true]
      cases h : rposition (fun c => !F.isZero c) q with
      | none => simpa [h] using ih
      | some i =>
        rw [h] at ih
        simp only [sliceIncl?] at ih ⊢
        by_cases hi : 0 ≤ i + 1 ∧ i < q.length
        · have hi' : 0 ≤ i + 1 ∧ i < (q ++ [c]).length := ⟨hi.1, by simp; omega⟩
          simp only [hi, hi', and_self, if_true, Option.bind_some, List.drop_zero] at ih ⊢
          rw [← ih, List.take_append_of_le_length (by omega)]
        · exact absurd ⟨Nat.zero_le _, (by simpa [hi] using ih : i < q.length ∧ _).1⟩ hi
    · simp only [hz, Bool.not_false, if_true, sliceIncl?]
      have : List.take (q.length + 1) (q ++ [c]) = q ++ [c] := List.take_of_length_le (by simp)
      simp [this]

/-- regenerated `coefficients()` = hand model (`normalize`), never panics -/
theorem coefficients_eq (p : List α) : TF.Gen.Poly.coefficients F p = some (coefficients F p) := by
  unfold TF.Gen.Poly.coefficients coefficients
  exact coefficients_aux F p

theorem normalize_loop_eq (p : List α) : ∀ fuel, p.length + 1 ≤ fuel →
    TF.Gen.Poly.normalize_loop F fuel p = some (normalize F p) := by
  induction p using List.reverseRecOn with
  | nil =>
    intro fuel h
    obtain ⟨f, rfl⟩ : ∃ f, fuel = f + 1 := ⟨fuel - 1, by simp at h; omega⟩
    simp [TF.Gen.Poly.normalize_loop, normalize]
  | append_singleton q c ih =>
    intro fuel h
    obtain ⟨f, rfl⟩ : ∃ f, fuel = f + 1 := ⟨fuel - 1, by omega⟩
    rw [TF.Gen.Poly.normalize_loop, normalize_snoc]
    simp only [List.getLast?_append, List.getLast?_singleton, Option.some_or, Option.any_some, List.dropLast_concat]
    by_cases hz : F.isZero c = true
    · simp only [hz, if_true]
      exact ih f (by simp at h; omega)
    · simp [hz]

/-- regenerated `normalize` = hand model (the fuel `len + 1` suffices) -/
theorem normalize_eq (p : List α) : TF.Gen.Poly.normalize F p = some (normalize F p) := by
  unfold TF.Gen.Poly.normalize
  simp [normalize_loop_eq F p _ (Nat.le_refl _)]

theorem into_coefficients_eq (p : List α) : TF.Gen.Poly.into_coefficients F p = some (intoCoefficients F p) := by
  simp [TF.Gen.Poly.into_coefficients, normalize_eq, intoCoefficients]

/-- the normalised storage is a prefix of the storage -/
theorem normalize_prefix (p : List α) :
    ∃ n, n ≤ p.length ∧ normalize F p = p.take n ∧ degree F p = (n : Int) - 1 := by
  induction p using List.reverseRecOn with
  | nil => exact ⟨0, by simp [normalize, degree]⟩
  | append_singleton q c ih =>
    obtain ⟨n, hn, hq, _⟩ := ih
    unfold degree
    rw [normalize_snoc]
    by_cases hz : F.isZero c = true
    · refine ⟨n, by simp; omega, ?_, ?_⟩
      · simp only [hz, if_true, hq, List.take_append_of_le_length hn]
      · simp only [hz, if_true, hq, List.length_take, Nat.min_eq_left hn]
    · refine ⟨q.length + 1, by simp, ?_, ?_⟩
      · simp only [hz]
        exact (List.take_of_length_le (by simp)).symm
      · simp [hz]

/-- regenerated `leading_coefficient` = hand model -/
theorem leading_coefficient_eq (p : List α) :
    TF.Gen.Poly.leading_coefficient F p = some (leadingCoefficient F p) := by
  obtain ⟨n, hn, hp, hd⟩ := normalize_prefix F p
  simp only [TF.Gen.Poly.leading_coefficient, degree_eq, Option.bind_some, leadingCoefficient, hp, hd]
  cases n with
  | zero => simp
  | succ n =>
    have h1 : ((n + 1 : Nat) : Int) - 1 = (n : Int) := by omega
    have h2 : ¬ ((n : Int) = -1) := by omega
    have hlt : n < p.length := by omega
    simp only [h1, beq_iff_eq, h2, if_false, toUsize?, Int.natCast_nonneg, if_true, Int.toNat_natCast, Option.bind_some,
      List.getElem?_eq_getElem hlt]
    rw [List.getLast?_eq_getElem?]
    simp [List.length_take, Nat.min_eq_left hn, List.getElem?_take, hlt]

theorem zip_all_eq (a b : List α) :
    (List.zip a b).all (fun (x, y) => F.beq x y) = (List.zip a b).all (fun xy => F.beq xy.1 xy.2) := rfl

/-- regenerated `PartialEq::eq` = hand model -/
theorem eq_eq (a b : List α) : TF.Gen.Poly.eq F a b = some (eq F a b) := by
  simp only [TF.Gen.Poly.eq, degree_eq, Option.bind_some, eq]
  by_cases h : degree F a = degree F b
  · simp [h]
  · simp [h]

/-- regenerated `is_zero` (`*self == Self::zero()`) = hand model -/
theorem is_zero_eq (p : List α) : TF.Gen.Poly.is_zero F p = some (isZero F p) := by
  simp only [TF.Gen.Poly.is_zero, eq_eq, Option.bind_some, eq, TF.Gen.Poly.zero, TF.Gen.Poly.new, isZero, degree]
  simp only [normalize, List.zip_nil_right, List.all_nil, Bool.and_true, List.reverse_nil, List.dropWhile_nil,
    List.length_nil, List.length_reverse, Option.some.injEq]
  cases h : List.dropWhile F.isZero p.reverse with
  | nil => simp
  | cons x xs =>
    have : ((xs.length : Int) == -1) = false := by
      rw [beq_eq_false_iff_ne]; omega
    simp [this]

/-- regenerated `is_one` = hand model -/
theorem is_one_eq (p : List α) : TF.Gen.Poly.is_one F p = some (isOne F p) := by
  obtain ⟨n, hn, hp, hd⟩ := normalize_prefix F p
  simp only [TF.Gen.Poly.is_one, degree_eq, Option.bind_some, isOne, hp, hd]
  match n, p, hn with
  | 0, _, _ => simp
  | 1, c :: p, _ => simp
  | n + 2, c0 :: c1 :: p, _ =>
    have : ¬ ((n : Int) + 2 - 1 = 0) := by omega
    simp [this]

/-- regenerated `is_x` = hand model -/
theorem is_x_eq (p : List α) : TF.Gen.Poly.is_x F p = some (isX F p) := by
  obtain ⟨n, hn, hp, hd⟩ := normalize_prefix F p
  simp only [TF.Gen.Poly.is_x, degree_eq, Option.bind_some, isX, hp, hd]
  match n, p, hn with
  | 0, _, _ => simp
  | 1, c :: p, _ => simp
  | 2, c0 :: c1 :: p, _ => cases h : F.isZero c0 <;> simp [h]
  | n + 3, c0 :: c1 :: c2 :: p, _ =>
    have : ¬ ((n : Int) + 3 - 1 = 1) := by omega
    simp [this]

/-! ### constructors -/

theorem new_eq (c : List α) : TF.Gen.Poly.new c = c := rfl
theorem zero_eq : (TF.Gen.Poly.zero : List α) = zero := rfl
theorem one_eq : TF.Gen.Poly.one F = one F := rfl
theorem from_constant_eq (c : α) : TF.Gen.Poly.from_constant c = fromConstant c := rfl
theorem into_owned_eq (p : List α) : TF.Gen.Poly.into_owned p = p := rfl

/-! ### ring operations that copy raw storage -/

theorem scalar_mul_eq (mul : α → σ → γ) (p : List α) (s : σ) :
    TF.Gen.Poly.scalar_mul F mul p s = scalarMulG mul p s := rfl

theorem scalar_mul_mut_eq (mul : α → σ → α) (p : List α) (s : σ) :
    TF.Gen.Poly.scalar_mul_mut F mul p s = scalarMulG mul p s := rfl

theorem neg_eq (p : List α) : TF.Gen.Poly.neg F p = neg F p := rfl

theorem shift_coefficients_eq (p : List α) (n : Nat) :
    TF.Gen.Poly.shift_coefficients F p n = shiftCoefficients F p n := rfl

theorem scale_for_eq (oneS : σ) (mulS : σ → σ → σ) (mul : α → σ → γ) (alpha : σ) (l : List α) :
    ∀ (acc : List γ) (pw : σ),
      (TF.Gen.Poly.scale_for F oneS mulS mul alpha l acc pw).1 = acc ++ scaleAux mulS mul alpha pw l := by
  induction l with
  | nil => intro acc pw; simp [TF.Gen.Poly.scale_for, scaleAux]
  | cons c l ih => intro acc pw; simp [TF.Gen.Poly.scale_for, scaleAux, ih]

/-- regenerated `scale` (the `push` loop with the running power) = hand model, any scalar type -/
theorem scale_eq (oneS : σ) (mulS : σ → σ → σ) (mul : α → σ → γ) (p : List α) (alpha : σ) :
    TF.Gen.Poly.scale F oneS mulS mul p alpha = scaleG oneS mulS mul p alpha := by
  have := scale_for_eq F oneS mulS mul alpha p [] oneS
  simpa [TF.Gen.Poly.scale, TF.Gen.Poly.new, scaleG] using this

theorem zipLongestMap_eq (f : α → α → α) (g : α → α) (a b : List α) :
    zipLongestMap f (fun c => c) g a b = zipLongestWith f g a b := by
  induction a generalizing b with
  | nil => cases b <;> simp [zipLongestMap, zipLongestWith]
  | cons x a ih => cases b <;> simp [zipLongestMap, zipLongestWith, ih]

/-- regenerated `Add::add` / `Sub::sub` (`zip_longest` + `match`) = hand models -/
theorem add_eq (a b : List α) : TF.Gen.Poly.add F a b = add F a b := by
  simp only [TF.Gen.Poly.add, TF.Gen.Poly.new, add]
  exact zipLongestMap_eq F.add (fun c => c) a b

theorem sub_eq (a b : List α) : TF.Gen.Poly.sub F a b = sub F a b := by
  simp only [TF.Gen.Poly.sub, TF.Gen.Poly.new, sub]
  exact zipLongestMap_eq F.sub _ a b

theorem zipMutWith_eq (f : α → α → α) (a b : List α) :
    zipMutWith f a b = List.zipWith f a b ++ a.drop b.length := by
  induction a generalizing b with
  | nil => simp [zipMutWith]
  | cons x a ih => cases b <;> simp [zipMutWith, ih]

/-- regenerated `AddAssign::add_assign` = hand model (the slice `rhs[self_len..]` is in range) -/
theorem add_assign_eq (a b : List α) :
    TF.Gen.Poly.add_assign F a b = some (List.zipWith F.add a b ++ a.drop b.length ++ b.drop a.length) := by
  simp only [TF.Gen.Poly.add_assign, zipMutWith_eq, sliceFrom?]
  by_cases h : b.length > a.length
  · have h' : a.length ≤ b.length := by omega
    simp [h, h']
  · have : List.drop a.length b = [] := List.drop_eq_nil_of_le (by omega)
    simp [h, this]

/-! ### evaluation, derivative, reversal, truncation -/

theorem evaluate_for_eq {ι ε : Type} (zeroE : ε) (mulX : ε → ι → ε) (addC : ε → α → ε) (x : ι) (l : List α) :
    ∀ acc, TF.Gen.Poly.evaluate_for F zeroE mulX addC x l acc = l.foldl (fun acc c => addC (mulX acc x) c) acc := by
  induction l with
  | nil => intro acc; rfl
  | cons c l ih => intro acc; simp [TF.Gen.Poly.evaluate_for, ih]

/-- regenerated `evaluate` (Horner loop over `iter().rev()`) = hand model, any indeterminate / result type -/
theorem evaluate_eq {ι ε : Type} (zeroE : ε) (mulX : ε → ι → ε) (addC : ε → α → ε) (p : List α) (x : ι) :
    TF.Gen.Poly.evaluate F zeroE mulX addC p x = evaluateG zeroE mulX addC p x := by
  simp [TF.Gen.Poly.evaluate, evaluate_for_eq, evaluateG, List.foldl_reverse]

theorem enumFrom_map_eq (n : Nat) (l : List α) :
    (enumFrom n l).map (fun (i, c) => F.mul (F.ofNat i) c) = formalDerivativeAux F n l := by
  induction l generalizing n with
  | nil => rfl
  | cons c l ih => simp [enumFrom, formalDerivativeAux, ih]

/-- regenerated `formal_derivative` (`(0..).zip(..).map(..).skip(1)`) = hand model -/
theorem formal_derivative_eq (p : List α) : TF.Gen.Poly.formal_derivative F p = formalDerivative F p := by
  simp only [TF.Gen.Poly.formal_derivative, TF.Gen.Poly.new, formalDerivative, enumerate]
  rw [enumFrom_map_eq]

/-- regenerated `reverse` (`take(degree + 1)` of the raw storage, reversed) = hand model -/
theorem reverse_eq (p : List α) : TF.Gen.Poly.reverse F p = some (reverse F p) := by
  obtain ⟨n, hn, hp, hd⟩ := normalize_prefix F p
  have : ((n : Int) - 1 + 1) = (n : Int) := by omega
  simp [TF.Gen.Poly.reverse, degree_eq, hd, this, toUsize?, TF.Gen.Poly.new, reverse, hp]

/-- regenerated `truncate` (`coefficients().rev().take(k.saturating_add(1)).rev()`): it reads the NORMALISED coefficients and
    saturates `k + 1` in `usize`, every `k` (the hand models `truncateUsize` of `TF/Model/PolyApi.lean` / `PolyApiD.lean`) -/
theorem truncate_eq (p : List α) (k : Nat) :
    TF.Gen.Poly.truncate F p k =
      some (((normalize F p).reverse.take (min (k + 1) 18446744073709551615)).reverse) := by
  simp only [TF.Gen.Poly.truncate, coefficients_eq, Option.bind_some, coefficients, TF.Gen.Poly.new]

/-- regenerated `mod_x_to_the_n` (the slice `[..min(n, len)]` is in range) = hand model -/
theorem mod_x_to_the_n_eq (p : List α) (n : Nat) : TF.Gen.Poly.mod_x_to_the_n F p n = some (p.take n) := by
  simp only [TF.Gen.Poly.mod_x_to_the_n, sliceTo?, TF.Gen.Poly.new]
  have h : Nat.min n p.length ≤ p.length := Nat.min_le_right _ _
  simp only [h, if_true, Option.bind_some, Option.some.injEq]
  by_cases hn : n ≤ p.length
  · rw [show Nat.min n p.length = n from Nat.min_eq_left hn]
  · rw [show Nat.min n p.length = p.length from Nat.min_eq_right (by omega), List.take_of_length_le (Nat.le_refl _),
      List.take_of_length_le (by omega)]

/-! ### wrappers and dispatchers -/

theorem mul_eq_naive (F2 : FieldOps β) (F3 : FieldOps γ) (mul : α → β → γ) (a : List α) (b : List β) :
    TF.Gen.Poly.mul F F2 F3 mul a b = TF.Gen.Poly.naive_multiply F F2 F3 mul a b := by
  simp [TF.Gen.Poly.mul]

theorem divide_eq_naive (a d : List α) : TF.Gen.Poly.divide F a d = TF.Gen.Poly.naive_divide F a d := by
  simp [TF.Gen.Poly.divide]

theorem div_eq_naive (a d : List α) : TF.Gen.Poly.div F a d = (TF.Gen.Poly.naive_divide F a d).map (·.1) := by
  simp only [TF.Gen.Poly.div]
  cases TF.Gen.Poly.naive_divide F a d <;> rfl

theorem rem_eq_naive (a d : List α) : TF.Gen.Poly.rem F a d = (TF.Gen.Poly.naive_divide F a d).map (·.2) := by
  simp only [TF.Gen.Poly.rem]
  cases TF.Gen.Poly.naive_divide F a d <;> rfl

theorem reduce_long_division_eq_naive (a d : List α) :
    TF.Gen.Poly.reduce_long_division F a d = (TF.Gen.Poly.naive_divide F a d).map (·.2) := by
  simp only [TF.Gen.Poly.reduce_long_division, divide_eq_naive]
  cases TF.Gen.Poly.naive_divide F a d <;> rfl

/-- regenerated dispatcher `multiply`: the `isize` comparison of the degree sum against the regenerated threshold -/
theorem multiply_dispatch (F2 : FieldOps β) (F3 : FieldOps γ) (mul : α → β → γ)
    (fm : List α → List β → Option (List γ)) (a : List α) (b : List β) :
    TF.Gen.Poly.multiply F F2 F3 mul fm a b =
      if degree F a + degree F2 b < (TF.Gen.FAST_MULTIPLY_CUTOFF_THRESHOLD : Int)
      then TF.Gen.Poly.naive_multiply F F2 F3 mul a b else fm a b := by
  simp only [TF.Gen.Poly.multiply, degree_eq, Option.bind_some, Int.ofNat_eq_natCast, decide_eq_true_eq]
  split
  · cases TF.Gen.Poly.naive_multiply F F2 F3 mul a b <;> rfl
  · cases fm a b <;> rfl

/-- regenerated dispatcher `reduce`: the four-way dispatch on the degrees (`FAST_REDUCE_MAKES_SENSE_MULTIPLE = 4`) -/
theorem reduce_dispatch (fr : List α → List α → Option (List α)) (a m : List α) :
    TF.Gen.Poly.reduce F fr a m =
      if degree F m < 0 then none
      else if degree F m = 0 then some []
      else if degree F a < degree F m then some a
      else if degree F a > 4 * degree F m then fr a m
      else (TF.Gen.Poly.naive_divide F a m).map (·.2) := by
  simp only [TF.Gen.Poly.reduce, degree_eq, Option.bind_some, reduce_long_division_eq_naive, TF.Gen.Poly.zero,
    TF.Gen.Poly.new, TF.Gen.Poly.into_owned, beq_iff_eq, decide_eq_true_eq]
  split
  · rfl
  · split
    · rfl
    · split
      · rfl
      · split
        · cases fr a m <;> rfl
        · cases (TF.Gen.Poly.naive_divide F a m) <;> rfl

theorem square_for2_eq (fs : List α → Option (List α)) (two : α) (c : List α) (i : Nat) (ci : α) (l : List Nat) :
    ∀ sq, TF.Gen.Poly.square_for2 F fs two c i ci l sq = TF.Gen.Poly.slow_square_for2 F two c i ci l sq := by
  induction l with
  | nil => intro sq; rfl
  | cons j l ih => intro sq; simp only [TF.Gen.Poly.square_for2, TF.Gen.Poly.slow_square_for2, ih]

theorem square_for_eq (fs : List α → Option (List α)) (two : α) (c : List α) (l : List Nat) :
    ∀ sq, TF.Gen.Poly.square_for F fs two c l sq = TF.Gen.Poly.slow_square_for F two c l sq := by
  induction l with
  | nil => intro sq; rfl
  | cons j l ih => intro sq; simp only [TF.Gen.Poly.square_for, TF.Gen.Poly.slow_square_for, ih, square_for2_eq]

/-- regenerated dispatcher `square`: zero first, `fast_square` when `2·deg + 1 > 64`, else the same double loop as
    `slow_square` -/
theorem square_dispatch (fs : List α → Option (List α)) (p : List α) :
    TF.Gen.Poly.square F fs p =
      if degree F p = -1 then some []
      else if 2 * (degree F p).toNat + 1 > 64 then fs p else TF.Gen.Poly.slow_square F p := by
  obtain ⟨n, hn, hp, hd⟩ := normalize_prefix F p
  simp only [TF.Gen.Poly.square, TF.Gen.Poly.slow_square, degree_eq, Option.bind_some, beq_iff_eq, TF.Gen.Poly.zero,
    TF.Gen.Poly.new, hd, square_for_eq]
  cases n with
  | zero => simp
  | succ n =>
    have h1 : ((n + 1 : Nat) : Int) - 1 = (n : Int) := by omega
    have h2 : ¬ ((n : Int) = -1) := by omega
    simp only [h1, h2, if_false, toUsize?, Int.natCast_nonneg, if_true, Int.toNat_natCast, Option.bind_some,
      decide_eq_true_eq, Nat.mul_comm n 2]
    split
    · cases fs p <;> rfl
    · rfl

/-- regenerated `fast_multiply` on top of the transforms `ntt`/`intt` (parameters) = hand model -/
theorem fast_multiply_eq (F2 : FieldOps β) (F3 : FieldOps γ) (mul : α → β → γ)
    (T1 : Transform α) (T2 : Transform β) (T3 : Transform γ) (a : List α) (b : List β) :
    TF.Gen.Poly.fast_multiply F F2 F3 mul T1.ntt T2.ntt T3.intt a b = fastMultiplyG F F2 mul T1 T2 T3 a b := by
  simp only [TF.Gen.Poly.fast_multiply, degree_eq, Option.bind_some, fastMultiplyG, TF.Gen.Poly.zero, TF.Gen.Poly.new,
    toUsize?]
  by_cases h : 0 ≤ degree F a + degree F2 b
  · have h' : ¬ (degree F a + degree F2 b < 0) := by omega
    simp only [h, h', if_true, if_false]
    have hz : ∀ (l : List α) (r : List β), (List.zip l r).map (fun (l, r) => mul l r) = List.zipWith mul l r := by
      intro l r
      induction l generalizing r with
      | nil => simp
      | cons x l ih => cases r <;> simp [ih]
    simp only [hz]
    rfl
  · have h' : degree F a + degree F2 b < 0 := by omega
    simp [h, h']

/-- regenerated `fast_square` on top of the transforms `ntt`/`intt` (parameters) = hand model -/
theorem fast_square_eq (T : Transform α) (p : List α) :
    TF.Gen.Poly.fast_square F T.ntt T.intt p = fastSquare F T p := by
  obtain ⟨n, hn, hp, hd⟩ := normalize_prefix F p
  simp only [TF.Gen.Poly.fast_square, degree_eq, Option.bind_some, fastSquare, hp, hd, TF.Gen.Poly.zero, TF.Gen.Poly.new,
    TF.Gen.Poly.from_constant, beq_iff_eq]
  match n, p, hn with
  | 0, _, _ => simp
  | 1, c :: p, _ => simp
  | n + 2, c0 :: c1 :: p, hn =>
    have h1 : ¬ (((n + 2 : Nat) : Int) - 1 = -1) := by omega
    have h2 : ¬ (((n + 2 : Nat) : Int) - 1 = 0) := by omega
    have h3 : (((n + 2 : Nat) : Int) - 1).toNat = n + 1 := by omega
    have h4 : (0 : Int) ≤ ((n + 2 : Nat) : Int) - 1 := by omega
    have hl : (List.take n p).length = n := by
      simp only [List.length_cons] at hn
      simp only [List.length_take]; omega
    simp only [h1, h2, if_false, toUsize?, h4, if_true, h3, Option.bind_some, List.take_succ_cons, List.length_cons, hl]
    rfl

/-! ### long division -/
open TF.Model.PolyD in
/-- inner loop of `naive_divide` (`remainder[remainder_degree - i] -= q * divisor_coeff` over `enumerate()`), on the remainder
    stored lowest degree first, = the hand model's `subScaled` on the reversed list (value and index panic) -/
theorem divide_for2_eq (qc : α) (tl : List α) : ∀ (pre suf : List α),
    TF.Gen.Poly.naive_divide_for2 F qc ((pre ++ suf).length - 1) (enumFrom pre.length tl) (pre ++ suf).reverse =
      (subScaled F qc tl suf).map (fun s => (pre ++ s).reverse) := by
  induction tl with
  | nil => intro pre suf; simp [enumFrom, TF.Gen.Poly.naive_divide_for2, subScaled]
  | cons t tl ih =>
    intro pre suf
    cases suf with
    | nil =>
      simp only [enumFrom, TF.Gen.Poly.naive_divide_for2, subScaled, List.append_nil, Option.map_none, usub?]
      by_cases h0 : pre.length ≤ pre.length - 1
      · have hp : pre = [] := by
          cases pre with
          | nil => rfl
          | cons x xs => simp at h0; omega
        subst hp
        simp
      · simp [h0]
    | cons r suf =>
      have hidx : (pre ++ r :: suf).length - 1 - pre.length = suf.length := by simp
      have hle : pre.length ≤ (pre ++ r :: suf).length - 1 := by simp
      have hget : (pre ++ r :: suf).reverse[suf.length]? = some r := by
        simp [List.reverse_append, List.getElem?_append_left]
      have hset : (pre ++ r :: suf).reverse.set suf.length (F.sub r (F.mul qc t)) =
          ((pre ++ [F.sub r (F.mul qc t)]) ++ suf).reverse := by
        simp [List.reverse_append, List.set_append_left]
      have hlen : (pre ++ r :: suf).length = ((pre ++ [F.sub r (F.mul qc t)]) ++ suf).length := by simp
      have hpl : pre.length + 1 = (pre ++ [F.sub r (F.mul qc t)]).length := by simp
      simp only [enumFrom, TF.Gen.Poly.naive_divide_for2, usub?, hle, if_true, Option.bind_some, hidx, hget, hset, subScaled]
      rw [hlen, hpl, ih]
      cases subScaled F qc tl suf <;> simp

open TF.Model.PolyD in
/-- outer loop of `naive_divide` (`pop().unwrap()`, quotient coefficient, `continue` on zero, inner loop) = the hand model's
    `divLoop`; the remainder is stored lowest degree first in the regenerated code, highest first in the model -/
theorem divide_for_eq (lcInv lc : α) (tl : List α) : ∀ (n s : Nat) (rr q : List α),
    TF.Gen.Poly.naive_divide_for F lcInv (lc :: tl) (List.range' s n) rr.reverse q.reverse =
      (divLoop F lcInv tl n rr q).map (fun qr => (qr.2.reverse, qr.1.reverse)) := by
  intro n
  induction n with
  | zero => intro s rr q; simp [TF.Gen.Poly.naive_divide_for, divLoop]
  | succ n ih =>
    intro s rr q
    rw [List.range'_succ]
    cases rr with
    | nil => simp [TF.Gen.Poly.naive_divide_for, divLoop, pop?]
    | cons c rest =>
      have hpop : pop? (c :: rest).reverse = some (c, rest.reverse) := by simp [pop?]
      have hq : q.reverse ++ [F.mul c lcInv] = (F.mul c lcInv :: q).reverse := by simp
      simp only [TF.Gen.Poly.naive_divide_for, hpop, Option.bind_some, divLoop, hq]
      by_cases hz : F.isZero (F.mul c lcInv) = true
      · simp only [hz, if_true]
        exact ih (s + 1) rest _
      · have h2 := divide_for2_eq F (F.mul c lcInv) tl [] rest
        simp only [List.nil_append, List.length_nil] at h2
        simp only [hz, List.drop_succ_cons, List.drop_zero, enumerate, List.length_reverse, h2]
        cases subScaled F (F.mul c lcInv) tl rest with
        | none => simp
        | some rest' => simpa using ih (s + 1) rest' (F.mul c lcInv :: q)

theorem dropWhile_head_false (f : α → Bool) (l : List α) (x : α) (xs : List α) (h : l.dropWhile f = x :: xs) :
    f x = false := by
  induction l with
  | nil => simp at h
  | cons y l ih =>
    rw [List.dropWhile_cons] at h
    by_cases hy : f y = true
    · simp only [hy, if_true] at h; exact ih h
    · simp only [hy] at h
      simp only [Bool.false_eq_true, if_false, List.cons.injEq] at h
      rw [← h.1]; simpa using hy

open TF.Model.PolyD in
/-- **regenerated `naive_divide` = hand model**, every record of field operations, every dividend and divisor storage:
    same quotient and remainder storage, panic exactly for the zero divisor (no index, `pop().unwrap()`, `usize` subtraction
    or `inverse()` panic otherwise) -/
theorem naive_divide_eq (a d : List α) : TF.Gen.Poly.naive_divide F a d = naiveDivide F a d := by
  have hda : degree F a = ((revNorm F a).length : Int) - 1 := by simp [degree, normalize, revNorm]
  have hdd : degree F d = ((revNorm F d).length : Int) - 1 := by simp [degree, normalize, revNorm]
  have hna : normalize F a = (revNorm F a).reverse := rfl
  have hlc : leadingCoefficient F d = (revNorm F d).head? := by
    simp [leadingCoefficient, normalize, revNorm, List.getLast?_reverse]
  have hrn : (d.reverse.dropWhile fun c => F.isZero c) = revNorm F d := rfl
  unfold TF.Gen.Poly.naive_divide naiveDivide
  simp only [leading_coefficient_eq, degree_eq, normalize_eq, Option.bind_some, hlc, hda, hdd, hna, hrn,
    TF.Gen.Poly.zero, TF.Gen.Poly.new, TF.Gen.Poly.into_owned]
  cases hrd : revNorm F d with
  | nil => simp
  | cons lc tl =>
    have hnz : F.isZero lc = false := dropWhile_head_false F.isZero d.reverse lc tl hrd
    simp only [List.head?_cons, Option.bind_some, inverse?, hnz, Bool.false_eq_true, if_false, List.length_cons, toUsize?]
    by_cases h : (revNorm F a).length < tl.length + 1
    · have h' : ¬ (0 ≤ ((revNorm F a).length : Int) - 1 - (((tl.length + 1 : Nat) : Int) - 1)) := by omega
      simp only [h, h', if_true, if_false]
    · have h' : (0 ≤ ((revNorm F a).length : Int) - 1 - (((tl.length + 1 : Nat) : Int) - 1)) := by omega
      have hq : (((revNorm F a).length : Int) - 1 - (((tl.length + 1 : Nat) : Int) - 1)).toNat + 1 - 0
          = (revNorm F a).length - tl.length := by omega
      have hge : decide (((revNorm F a).length : Int) - 1 ≥ 0) = true := by
        rw [decide_eq_true_eq]; omega
      have hfor := divide_for_eq F (F.inv lc) lc tl ((revNorm F a).length - tl.length) 0 (revNorm F a) []
      simp only [List.reverse_nil] at hfor
      simp only [h, h', if_true, if_false, hq, hge, assert?, Option.bind_some, hfor]
      cases divLoop F (F.inv lc) tl ((revNorm F a).length - tl.length) (revNorm F a) [] with
      | none => rfl
      | some qr => simp

end TF.GenBridge.Poly
