import TF.Gen.PolyLoops
import TF.Model.Poly
import TF.Model.PolyMul
import TF.Model.PolyDiv
import TF.Model.PolyVal
import Mathlib.Data.List.Basic
import Mathlib.Data.List.Induction
/-!
Bridge: the core functions of `polynomial.rs` regenerated from source (`TF/Gen/PolyLoops.lean`, tools/rs2lean_poly.py) are the
hand models of `TF/Model/Poly.lean`, `PolyMul.lean`, `PolyDiv.lean`, `PolyVal.lean` — for every record of field operations
`F : FieldOps α` (no field law is used: these are statements about list manipulation), every storage (stored leading zeros
included).  `gen = some model` also says that the regenerated function does not panic and that the fuel of its `while`
loops suffices.
-/
namespace TF.GenBridge.Poly
open TF TF.Model.Poly TF.PolyStd

variable {α β γ σ : Type} (F : FieldOps α)

/-! ### storage observers -/

theorem normalize_snoc (p : List α) (c : α) :
    normalize F (p ++ [c]) = if F.isZero c then normalize F p else p ++ [c] := by
  unfold normalize
  simp only [List.reverse_append, List.reverse_cons, List.reverse_nil, List.nil_append, List.singleton_append,
    List.dropWhile_cons]
  split <;> simp

theorem degree_loop_eq (p : List α) : ∀ (n k : Nat), n ≤ p.length →
    TF.Gen.Poly.degree_loop F p (n + 1 + k) ((n : Int) - 1) = some (((normalize F (p.take n)).length : Int) - 1) := by
  intro n
  induction n with
  | zero =>
    intro k _
    rw [show 0 + 1 + k = k + 1 by omega, TF.Gen.Poly.degree_loop]
    simp [normalize]
  | succ n ih =>
    intro k hn
    have hlt : n < p.length := by omega
    have h1 : ((n + 1 : Nat) : Int) - 1 = (n : Int) := by omega
    rw [h1, show n + 1 + 1 + k = (n + 1 + k) + 1 by omega, TF.Gen.Poly.degree_loop]
    have h2 : decide ((n : Int) ≥ 0) = true := by simp
    simp only [h2, if_true, toUsize?, Int.natCast_nonneg, Int.toNat_natCast, Option.bind_some,
      List.getElem?_eq_getElem hlt]
    rw [List.take_succ_eq_append_getElem hlt, normalize_snoc]
    by_cases hz : F.isZero p[n] = true
    · simp only [hz, if_true]
      exact ih k (by omega)
    · simp only [hz]
      simp
      omega

/-- regenerated `degree` = hand model (never panics, the fuel `len + 1` suffices) -/
theorem degree_eq (p : List α) : TF.Gen.Poly.degree F p = some (degree F p) := by
  unfold TF.Gen.Poly.degree
  have := degree_loop_eq F p p.length 0 (Nat.le_refl _)
  simp only [Nat.add_zero, List.take_length] at this
  simp only [Int.ofNat_eq_natCast, this, Option.bind_some, degree]

theorem rposition_snoc (f : α → Bool) (q : List α) (c : α) :
    rposition f (q ++ [c]) = if f c then some q.length else rposition f q := by
  induction q with
  | nil => simp [rposition]
  | cons x q ih =>
    simp only [List.cons_append, rposition, ih, List.length_cons]
    by_cases hc : f c = true
    · simp [hc]
    · simp only [hc]
      cases rposition f q <;> simp

theorem coefficients_aux (p : List α) :
    (match rposition (fun c => !F.isZero c) p with
      | none => some []
      | some i => (sliceIncl? p 0 i).bind fun t => some t) = some (normalize F p) := by
  induction p using List.reverseRecOn with
  | nil => simp [rposition, normalize]
  | append_singleton q c ih =>
    rw [rposition_snoc, normalize_snoc]
    by_cases hz : F.isZero c = true
    · simp only [hz, Bool.not_true, Bool.false_eq_true, if_false, if_true]
      cases h : rposition (fun c => !F.isZero c) q with
      | none => simpa [h] using ih
      | some i =>
        rw [h] at ih
        simp only [sliceIncl?] at ih ⊢
        by_cases hi : 0 ≤ i + 1 ∧ i < q.length
        · have hi' : 0 ≤ i + 1 ∧ i < (q ++ [c]).length := ⟨hi.1, by simp; omega⟩
          simp only [hi, hi', and_self, if_true, Option.bind_some, List.drop_zero] at ih ⊢
          rw [← ih, List.take_append_of_le_length (by omega)]
        · exact absurd ⟨Nat.zero_le _, (by simpa [hi] using ih : i < q.length ∧ _).1⟩ hi
    · simp only [hz, Bool.not_false, if_true, sliceIncl?]
      have : List.take (q.length + 1) (q ++ [c]) = q ++ [c] := List.take_of_length_le (by simp)
      simp [this]

/-- regenerated `coefficients()` = hand model (`normalize`), never panics -/
theorem coefficients_eq (p : List α) : TF.Gen.Poly.coefficients F p = some (coefficients F p) := by
  unfold TF.Gen.Poly.coefficients coefficients
  exact coefficients_aux F p

theorem normalize_loop_eq (p : List α) : ∀ fuel, p.length + 1 ≤ fuel →
    TF.Gen.Poly.normalize_loop F fuel p = some (normalize F p) := by
  induction p using List.reverseRecOn with
  | nil =>
    intro fuel h
    obtain ⟨f, rfl⟩ : ∃ f, fuel = f + 1 := ⟨fuel - 1, by simp at h; omega⟩
    simp [TF.Gen.Poly.normalize_loop, normalize]
  | append_singleton q c ih =>
    intro fuel h
    obtain ⟨f, rfl⟩ : ∃ f, fuel = f + 1 := ⟨fuel - 1, by omega⟩
    rw [TF.Gen.Poly.normalize_loop, normalize_snoc]
    simp only [List.getLast?_append, List.getLast?_singleton, Option.some_or, Option.any_some, List.dropLast_concat]
    by_cases hz : F.isZero c = true
    · simp only [hz, if_true]
      exact ih f (by simp at h; omega)
    · simp [hz]

/-- regenerated `normalize` = hand model (the fuel `len + 1` suffices) -/
theorem normalize_eq (p : List α) : TF.Gen.Poly.normalize F p = some (normalize F p) := by
  unfold TF.Gen.Poly.normalize
  simp [normalize_loop_eq F p _ (Nat.le_refl _)]

theorem into_coefficients_eq (p : List α) : TF.Gen.Poly.into_coefficients F p = some (intoCoefficients F p) := by
  simp [TF.Gen.Poly.into_coefficients, normalize_eq, intoCoefficients]

/-- the normalised storage is a prefix of the storage -/
theorem normalize_prefix (p : List α) :
    ∃ n, n ≤ p.length ∧ normalize F p = p.take n ∧ degree F p = (n : Int) - 1 := by
  induction p using List.reverseRecOn with
  | nil => exact ⟨0, by simp [normalize, degree]⟩
  | append_singleton q c ih =>
    obtain ⟨n, hn, hq, _⟩ := ih
    unfold degree
    rw [normalize_snoc]
    by_cases hz : F.isZero c = true
    · refine ⟨n, by simp; omega, ?_, ?_⟩
      · simp only [hz, if_true, hq, List.take_append_of_le_length hn]
      · simp only [hz, if_true, hq, List.length_take, Nat.min_eq_left hn]
    · refine ⟨q.length + 1, by simp, ?_, ?_⟩
      · simp only [hz]
        exact (List.take_of_length_le (by simp)).symm
      · simp [hz]

/-- regenerated `leading_coefficient` = hand model -/
theorem leading_coefficient_eq (p : List α) :
    TF.Gen.Poly.leading_coefficient F p = some (leadingCoefficient F p) := by
  obtain ⟨n, hn, hp, hd⟩ := normalize_prefix F p
  simp only [TF.Gen.Poly.leading_coefficient, degree_eq, Option.bind_some, leadingCoefficient, hp, hd]
  cases n with
  | zero => simp
  | succ n =>
    have h1 : ((n + 1 : Nat) : Int) - 1 = (n : Int) := by omega
    have h2 : ¬ ((n : Int) = -1) := by omega
    have hlt : n < p.length := by omega
    simp only [h1, beq_iff_eq, h2, if_false, toUsize?, Int.natCast_nonneg, if_true, Int.toNat_natCast, Option.bind_some,
      List.getElem?_eq_getElem hlt]
    rw [List.getLast?_eq_getElem?]
    simp [List.length_take, Nat.min_eq_left hn, List.getElem?_take, hlt]

theorem zip_all_eq (a b : List α) :
    (List.zip a b).all (fun (x, y) => F.beq x y) = (List.zip a b).all (fun xy => F.beq xy.1 xy.2) := rfl

/-- regenerated `PartialEq::eq` = hand model -/
theorem eq_eq (a b : List α) : TF.Gen.Poly.eq F a b = some (eq F a b) := by
  simp only [TF.Gen.Poly.eq, degree_eq, Option.bind_some, eq]
  by_cases h : degree F a = degree F b
  · simp [h]
  · simp [h]

/-- regenerated `is_zero` (`*self == Self::zero()`) = hand model -/
theorem is_zero_eq (p : List α) : TF.Gen.Poly.is_zero F p = some (isZero F p) := by
  simp only [TF.Gen.Poly.is_zero, eq_eq, Option.bind_some, eq, TF.Gen.Poly.zero, TF.Gen.Poly.new, isZero, degree]
  simp only [normalize, List.zip_nil_right, List.all_nil, Bool.and_true, List.reverse_nil, List.dropWhile_nil,
    List.length_nil, List.length_reverse, Option.some.injEq]
  cases h : List.dropWhile F.isZero p.reverse with
  | nil => simp
  | cons x xs =>
    have : ((xs.length : Int) == -1) = false := by
      rw [beq_eq_false_iff_ne]; omega
    simp [this]

/-- regenerated `is_one` = hand model -/
theorem is_one_eq (p : List α) : TF.Gen.Poly.is_one F p = some (isOne F p) := by
  obtain ⟨n, hn, hp, hd⟩ := normalize_prefix F p
  simp only [TF.Gen.Poly.is_one, degree_eq, Option.bind_some, isOne, hp, hd]
  match n, p, hn with
  | 0, _, _ => simp
  | 1, c :: p, _ => simp
  | n + 2, c0 :: c1 :: p, _ =>
    have : ¬ ((n : Int) + 2 - 1 = 0) := by omega
    simp [this]

/-- regenerated `is_x` = hand model -/
theorem is_x_eq (p : List α) : TF.Gen.Poly.is_x F p = some (isX F p) := by
  obtain ⟨n, hn, hp, hd⟩ := normalize_prefix F p
  simp only [TF.Gen.Poly.is_x, degree_eq, Option.bind_some, isX, hp, hd]
  match n, p, hn with
  | 0, _, _ => simp
  | 1, c :: p, _ => simp
  | 2, c0 :: c1 :: p, _ => cases h : F.isZero c0 <;> simp [h]
  | n + 3, c0 :: c1 :: c2 :: p, _ =>
    have : ¬ ((n : Int) + 3 - 1 = 1) := by omega
    simp [this]

/-! ### constructors -/

theorem new_eq (c : List α) : TF.Gen.Poly.new c = c := rfl
theorem zero_eq : (TF.Gen.Poly.zero : List α) = zero := rfl
theorem one_eq : TF.Gen.Poly.one F = one F := rfl
theorem from_constant_eq (c : α) : TF.Gen.Poly.from_constant c = fromConstant c := rfl
theorem into_owned_eq (p : List α) : TF.Gen.Poly.into_owned p = intoOwned p := rfl

end TF.GenBridge.Poly
