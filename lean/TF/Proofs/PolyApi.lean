import TF.Proofs.PolyVal
import TF.Proofs.PolyDiv
import TF.Proofs.PolyInterp
import TF.Model.PolyApi
import Mathlib.Tactic.FieldSimp
import Mathlib.Tactic.LinearCombination
import Mathlib.Algebra.Polynomial.AlgebraMap
/-!
Lemmas for the functions modelled in `TF/Model/PolyApi.lean` (API audit, docs/POLY_API_COVERAGE.md): constructors,
`truncate` with `usize` arithmetic, evaluation across a field extension, colinearity, hand-built zerofier trees.
-/
open Polynomial

namespace TF.Model.Poly
variable {K : Type} [Field K] (root : Nat → Option K)
local notation "FK" => FieldOps.ofField K root
open Classical

/-! ### constructors -/

theorem denote_fromXfe (c : K × K × K) :
    denote (fromXfe c) = C c.1 + C c.2.1 * X + C c.2.2 * X ^ 2 := by
  simp [fromXfe]; ring

/-! ### `truncate` with `usize` arithmetic -/

/-- after the repair F13: for every polynomial with fewer than `2^64` coefficients and EVERY `k` -/
theorem truncateUsize_eq (p : List K) (k : Nat) (h : (normalize FK p).length < 2 ^ 64) :
    truncateUsize FK p k = truncate FK p k := by
  unfold truncateUsize truncate USIZE_MOD
  by_cases hk : k + 1 ≤ 2 ^ 64 - 1
  · rw [Nat.min_eq_left hk]
  · simp only
    rw [Nat.min_eq_right (by omega)]
    have e1 : (normalize FK p).length - (2 ^ 64 - 1) = 0 := by omega
    have e2 : (normalize FK p).length - (k + 1) = 0 := by omega
    rw [e1, e2]

theorem truncateUsize_congr {a a' : List K} (h : denote a = denote a') (k : Nat) :
    truncateUsize FK a k = truncateUsize FK a' k := by
  unfold truncateUsize; rw [normalize_congr root h]

theorem truncateBeforeF13_max (p : List K) : truncateBeforeF13 FK p (2 ^ 64 - 1) = [] := by
  unfold truncateBeforeF13 USIZE_MOD
  have : (2 ^ 64 - 1 + 1) % 2 ^ 64 = 0 := by norm_num
  rw [this]; simp

/-! ### evaluation across a field extension -/

theorem evaluateLift_spec {L : Type} [Field L] [Algebra K L] (rootL : Nat → Option L) (p : List K) (x : L) :
    evaluateLift (FieldOps.ofField L rootL) (algebraMap K L) p x = (denote p).eval₂ (algebraMap K L) x := by
  unfold evaluateLift evaluateG
  induction p with
  | nil => simp
  | cons c cs ih =>
    simp only [List.foldr_cons, denote_cons, eval₂_add, eval₂_mul, eval₂_C, eval₂_X]
    rw [ih]
    simp only [FieldOps.ofField_add, FieldOps.ofField_mul]
    ring

theorem evaluateLift_id (p : List K) (x : K) : evaluateLift FK id p x = (denote p).eval x := by
  rw [← eval_denote root]
  rfl

/-! ### colinearity -/

theorem allUniqueBy_iff (l : List K) : allUniqueBy FK l = true ↔ l.Nodup := by
  induction l with
  | nil => simp [allUniqueBy]
  | cons x xs ih =>
    simp only [allUniqueBy, Bool.and_eq_true, Bool.not_eq_true', List.nodup_cons, ih]
    constructor
    · rintro ⟨h1, h2⟩
      refine ⟨fun hx => ?_, h2⟩
      have : xs.any (fun y => (FieldOps.ofField K root).beq x y) = true := by
        rw [List.any_eq_true]; exact ⟨x, hx, by simp⟩
      rw [this] at h1; exact absurd h1 (by simp)
    · rintro ⟨h1, h2⟩
      refine ⟨?_, h2⟩
      rw [Bool.eq_false_iff]
      intro hany
      rw [List.any_eq_true] at hany
      obtain ⟨y, hy, hxy⟩ := hany
      rw [FieldOps.ofField_beq] at hxy
      subst hxy; exact h1 hy

/-- a line `y = a·x + b` -/
def OnLine (a b : K) (p : K × K) : Prop := p.2 = a * p.1 + b

theorem areColinear3_iff (p0 p1 p2 : K × K) :
    areColinear3 FK p0 p1 p2 = true ↔
      (p0.1 ≠ p1.1 ∧ p1.1 ≠ p2.1 ∧ p2.1 ≠ p0.1) ∧ ∃ a b : K, OnLine a b p0 ∧ OnLine a b p1 ∧ OnLine a b p2 := by
  obtain ⟨x0, y0⟩ := p0
  obtain ⟨x1, y1⟩ := p1
  obtain ⟨x2, y2⟩ := p2
  unfold areColinear3 OnLine
  by_cases h01 : x0 = x1
  · simp [FieldOps.ofField, h01]
  by_cases h12 : x1 = x2
  · simp [FieldOps.ofField, h12]
  by_cases h20 : x2 = x0
  · simp [FieldOps.ofField, h20]
  have hcond : ((FieldOps.ofField K root).beq x0 x1 || (FieldOps.ofField K root).beq x1 x2 ||
      (FieldOps.ofField K root).beq x2 x0) = false := by
    simp [FieldOps.ofField, h01, h12, h20]
  simp only [hcond, Bool.false_eq_true, if_false, FieldOps.ofField_beq, FieldOps.ofField_mul, FieldOps.ofField_sub]
  have hdx : x0 - x1 ≠ 0 := sub_ne_zero.2 h01
  constructor
  · intro h
    refine ⟨⟨h01, h12, h20⟩, (y0 - y1) / (x0 - x1), y0 - (y0 - y1) / (x0 - x1) * x0, ?_, ?_, ?_⟩
    · ring
    · field_simp; ring
    · field_simp
      linear_combination h
  · rintro ⟨_, a, b, e0, e1, e2⟩
    rw [e0, e1, e2]; ring

theorem areColinear_iff (points : List (K × K)) :
    areColinear FK points = true ↔
      3 ≤ points.length ∧ (points.map (·.1)).Nodup ∧ ∃ a b : K, ∀ p ∈ points, OnLine a b p := by
  unfold areColinear
  by_cases hlen : points.length < 3
  · simp [hlen]
  rw [if_neg hlen]
  by_cases hu : (points.map (·.1)).Nodup
  · have hu' : allUniqueBy FK (points.map (·.1)) = true := (allUniqueBy_iff root _).2 hu
    rw [hu']
    simp only [Bool.not_true, Bool.false_eq_true, if_false]
    match points, hlen, hu with
    | [], h, _ => simp at h
    | [_], h, _ => simp at h
    | (x0, y0) :: (x1, y1) :: rest, hlen', hu =>
      have h01 : x0 ≠ x1 := by
        intro h; simp [h] at hu
      have hdx : x0 - x1 ≠ 0 := sub_ne_zero.2 h01
      simp only [List.all_eq_true, FieldOps.ofField_beq, FieldOps.ofField_mul, FieldOps.ofField_sub,
        FieldOps.ofField_add, FieldOps.div, FieldOps.ofField_inv]
      constructor
      · intro h
        refine ⟨by simp at hlen' ⊢; omega, hu, (y0 - y1) * (x0 - x1)⁻¹, y0 - (y0 - y1) * (x0 - x1)⁻¹ * x0, ?_⟩
        intro p hp
        simp only [List.mem_cons] at hp
        rcases hp with rfl | rfl | hp
        · simp [OnLine]
        · simp only [OnLine]; field_simp; ring
        · exact (h p hp).symm
      · rintro ⟨_, _, a, b, hline⟩ p hp
        have e0 : y0 = a * x0 + b := hline (x0, y0) (by simp)
        have e1 : y1 = a * x1 + b := hline (x1, y1) (by simp)
        have ep : p.2 = a * p.1 + b := hline p (by simp [hp])
        have ha : (y0 - y1) * (x0 - x1)⁻¹ = a := by
          rw [e0, e1]; field_simp; ring
        rw [ha, ep, e0]; ring
  · have hu' : allUniqueBy FK (points.map (·.1)) = false := by
      rw [Bool.eq_false_iff]; exact fun h => hu ((allUniqueBy_iff root _).1 h)
    rw [hu']
    simp [hu]

theorem getColinearY_spec (p0 p1 : K × K) (x : K) (h : p0.1 ≠ p1.1) :
    ∃ y, getColinearY FK p0 p1 x = some y ∧
      (∃ a b : K, OnLine a b p0 ∧ OnLine a b p1 ∧ y = a * x + b) ∧
      (∀ a b : K, OnLine a b p0 → OnLine a b p1 → y = a * x + b) := by
  obtain ⟨x0, y0⟩ := p0
  obtain ⟨x1, y1⟩ := p1
  simp only at h
  have hdx : x0 - x1 ≠ 0 := sub_ne_zero.2 h
  have hb : (FieldOps.ofField K root).beq x0 x1 = false := by simp [FieldOps.ofField, h]
  refine ⟨((y0 - y1) * (x - x0) + (x0 - x1) * y0) * (x0 - x1)⁻¹, ?_, ?_, ?_⟩
  · simp [getColinearY, hb, FieldOps.div]
  · refine ⟨(y0 - y1) / (x0 - x1), y0 - (y0 - y1) / (x0 - x1) * x0, ?_, ?_, ?_⟩
    · simp [OnLine]
    · simp only [OnLine]; field_simp; ring
    · field_simp; ring
  · intro a b e0 e1
    simp only [OnLine] at e0 e1
    rw [e0, e1]; field_simp; ring

theorem getColinearY_none (p0 p1 : K × K) (x : K) : getColinearY FK p0 p1 x = none ↔ p0.1 = p1.1 := by
  unfold getColinearY
  by_cases h : p0.1 = p1.1
  · simp [FieldOps.ofField, h]
  · simp [FieldOps.ofField, h]

end TF.Model.Poly

namespace TF.Model.PolyI
open TF.Model.Poly
variable {K : Type} [Field K] (root : Nat → Option K)
local notation "FK" => FieldOps.ofField K root
variable {E : Ext K} (hE : E.Lawful)
include hE

/-- every tree assembled from `Leaf::new` / `Branch::new` / `Padding` stores correct zerofiers, and its points are
    those of the shape in order -/
theorem buildTree_good (T : Nat) : ∀ (s : TreeSpec K) (t : ZTree K), buildTree FK E T s = some t →
    t.Good ∧ t.points = s.points := by
  intro s
  induction s with
  | leaf pts =>
    intro t h
    simp only [buildTree, Option.map_eq_some_iff] at h
    obtain ⟨z, hz, rfl⟩ := h
    exact ⟨zerofierWith_sound root hE T pts z hz, rfl⟩
  | branch l r ihl ihr =>
    intro t h
    simp only [buildTree, Option.bind_eq_bind, Option.bind_eq_some_iff] at h
    obtain ⟨tl, hl, tr, hr, h⟩ := h
    simp only [Option.pure_def, Option.some.injEq] at h
    subst h
    obtain ⟨gl, pl⟩ := ihl tl hl
    obtain ⟨gr, pr⟩ := ihr tr hr
    refine ⟨⟨?_, gl, gr⟩, by simp [mkBranch, ZTree.points, TreeSpec.points, pl, pr]⟩
    rw [hE.mul, gl.zerofier root, gr.zerofier root]
    exact (zpoly_append _ _).symm
  | padding =>
    intro t h
    simp only [buildTree, Option.some.injEq] at h
    subst h
    exact ⟨trivial, rfl⟩

omit hE in
theorem allUnique_iff (l : List K) : allUnique FK l = true ↔ l.Nodup := by
  induction l with
  | nil => simp [allUnique]
  | cons x xs ih =>
    simp only [allUnique, Bool.and_eq_true, Bool.not_eq_true', List.nodup_cons, ih]
    constructor
    · rintro ⟨h1, h2⟩
      refine ⟨fun hx => ?_, h2⟩
      have : xs.any ((FieldOps.ofField K root).beq x) = true := by
        rw [List.any_eq_true]; exact ⟨x, hx, by simp⟩
      rw [this] at h1; exact absurd h1 (by simp)
    · rintro ⟨h1, h2⟩
      refine ⟨?_, h2⟩
      rw [Bool.eq_false_iff]
      intro hany
      rw [List.any_eq_true] at hany
      obtain ⟨y, hy, hxy⟩ := hany
      rw [FieldOps.ofField_beq] at hxy
      subst hxy; exact h1 hy

omit hE in
theorem buildTree_total (T : Nat) (hT : 2 ≤ T) : ∀ (s : TreeSpec K), (buildTree FK E T s).isSome := by
  intro s
  induction s with
  | leaf pts =>
    simp only [buildTree, Option.isSome_map]
    exact zerofierWith_total root T hT pts
  | branch l r ihl ihr =>
    obtain ⟨tl, hl⟩ := Option.isSome_iff_exists.1 ihl
    obtain ⟨tr, hr⟩ := Option.isSome_iff_exists.1 ihr
    simp [buildTree, hl, hr]
  | padding => simp [buildTree]

end TF.Model.PolyI
