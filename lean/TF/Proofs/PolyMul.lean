import TF.Model.PolyMul
import TF.Proofs.Poly
import Mathlib.Algebra.BigOperators.Group.List.Basic
import Mathlib.Algebra.Field.Rat
/-!
Lemmas for C07 about `TF/Model/PolyMul.lean`: squares, NTT-based products relative to a transform satisfying
`TransformSpec`, the square-and-multiply loop, the batch tree reduction and its chunked parallel variant.
-/
open Polynomial

namespace TF.Model.Poly
variable {K : Type} [Field K]
open Classical

variable (root : Nat → Option K)
local notation "FK" => FieldOps.ofField K root

/-! ### squares without NTT -/

theorem denote_squareRows (c : List K) : denote (squareRows FK c) = denote c ^ 2 := by
  induction c with
  | nil => simp [squareRows]
  | cons c0 cs ih =>
    cases cs with
    | nil => simp [squareRows]; ring
    | cons c1 cs =>
      rw [squareRows]
      simp only [FieldOps.ofField_add_fn]
      rw [denote_zipLongestWith (· + ·) id _ _ (fun _ _ => rfl)]
      simp only [List.map_id, denote_cons, FieldOps.ofField_zero, FieldOps.ofField_mul, FieldOps.ofField_one,
        FieldOps.ofField_add, map_zero, zero_add, ih]
      have := denote_map_mul_left (c1 :: cs) ((1 + 1) * c0)
      simp only [denote_cons] at this
      rw [show (List.map (fun cj => (1 + 1) * c0 * cj) (c1 :: cs)) = List.map (fun c => ((1 + 1) * c0) * c) (c1 :: cs) from rfl,
        this]
      simp only [C_mul, C_add, C_1]
      ring

/-- `slow_square` returns the square, for any storage -/
theorem denote_slowSquare (p : List K) : denote (slowSquare FK p) = denote p ^ 2 := by
  unfold slowSquare
  rw [denote_squareRows, denote_normalize]

/-! ### coefficient lists, `resize` -/

/-- the first `n` coefficients of a polynomial -/
noncomputable def coeffList (q : K[X]) (n : Nat) : List K := (List.range n).map q.coeff

@[simp] theorem length_coeffList (q : K[X]) (n : Nat) : (coeffList q n).length = n := by simp [coeffList]

theorem getD_coeffList (q : K[X]) (n i : Nat) : (coeffList q n).getD i 0 = if i < n then q.coeff i else 0 := by
  unfold coeffList
  split
  · next h => rw [getD_of_lt _ _ _ (by simpa using h)]; simp
  · next h => rw [getD_of_ge _ _ _ (by simpa using h)]

theorem denote_coeffList (q : K[X]) (n : Nat) (h : q.degree < n) : denote (coeffList q n) = q := by
  ext i
  rw [coeff_denote, getD_coeffList]
  split
  · rfl
  · next hi => exact ((Polynomial.degree_lt_iff_coeff_zero q n).1 h i (by omega)).symm

theorem take_coeffList (q : K[X]) (n m : Nat) (h : m ≤ n) : (coeffList q n).take m = coeffList q m := by
  unfold coeffList
  rw [← List.map_take, List.take_range, Nat.min_eq_left h]

@[simp] theorem length_resize (xs : List K) (n : Nat) (z : K) : (resize xs n z).length = n := by
  simp [resize]; omega

theorem coeff_denote_resize (a : List K) (n i : Nat) :
    (denote (resize a n 0)).coeff i = if i < n then (denote a).coeff i else 0 := by
  rw [coeff_denote, coeff_denote]
  unfold resize
  by_cases h1 : i < n
  · rw [if_pos h1]
    by_cases h2 : i < a.length
    · rw [getD_of_lt _ _ _ (by simp; omega), getD_of_lt _ _ _ h2, List.getElem_append_left (by simp; omega)]
      simp
    · rw [getD_of_ge a _ _ (by omega), getD_of_lt _ _ _ (by simp; omega),
        List.getElem_append_right (by simp; omega)]
      simp
  · rw [if_neg h1, getD_of_ge _ _ _ (by simp; omega)]

theorem denote_resize_of_le (a : List K) (n : Nat) (h : (normalize FK a).length ≤ n) :
    denote (resize a n 0) = denote a := by
  ext i
  rw [coeff_denote_resize]
  split
  · rfl
  · next hi => rw [coeff_denote, getD_eq_zero_of_ge root a i (by omega)]

theorem denote_resize_of_zero (a : List K) (n : Nat) (h : denote a = 0) : denote (resize a n 0) = 0 := by
  ext i
  rw [coeff_denote_resize, h]; simp

/-! ### transforms -/

/-- What the products need from the transform pair (discharged for the Rust NTT by property C06:
    `ntt = DFT` at the powers of the primitive root, and `intt ∘ ntt = id`):
    * `ntt` on a vector of length `n` returns the values of the denoted polynomial at the points `pts n 0, …, pts n (n-1)`;
    * whether `ntt` panics depends on the length only;
    * `intt` undoes `ntt`. -/
structure TransformSpec (T : Transform K) (pts : Nat → Nat → K) : Prop where
  ntt_eval : ∀ xs ys, T.ntt xs = some ys →
    ys = (List.range xs.length).map (fun i => (denote xs).eval (pts xs.length i))
  ntt_some_of_length : ∀ xs ys xs', T.ntt xs = some ys → xs'.length = xs.length → ∃ ys', T.ntt xs' = some ys'
  intt_ntt : ∀ xs ys zs, T.ntt xs = some ys → T.intt ys = some zs → zs = xs

/-- transform, pointwise product, inverse transform = coefficient list of the product (no wrap-around when
    the product has degree `< n`) -/
theorem transform_mul {T : Transform K} {pts : Nat → Nat → K} (hT : TransformSpec T pts)
    (la lb : List K) (n : Nat) (hla : la.length = n) (hlb : lb.length = n)
    (hdeg : (denote la * denote lb).degree < n) (l r c : List K)
    (hl : T.ntt la = some l) (hr : T.ntt lb = some r) (hc : T.intt (List.zipWith (· * ·) l r) = some c) :
    c = coeffList (denote la * denote lb) n := by
  have el := hT.ntt_eval la l hl
  have er := hT.ntt_eval lb r hr
  obtain ⟨ys', hys'⟩ := hT.ntt_some_of_length la l (coeffList (denote la * denote lb) n) hl (by simp [hla])
  have ec := hT.ntt_eval _ ys' hys'
  rw [denote_coeffList _ _ hdeg, length_coeffList] at ec
  have : List.zipWith (· * ·) l r = ys' := by
    rw [el, er, ec, hla, hlb, List.zipWith_map]
    simp [List.zipWith_self, eval_mul]
  rw [this] at hc
  exact hT.intt_ntt _ ys' c hys' hc

theorem le_nextPowerOfTwo (n : Nat) : n ≤ nextPowerOfTwo n := by
  unfold nextPowerOfTwo
  split
  · omega
  · have := @Nat.lt_log2_self (n - 1); omega

/-- `fast_multiply` returns the ring product whenever it returns (any storage, incl. zero operands) -/
theorem denote_fastMultiply {T : Transform K} {pts : Nat → Nat → K} (hT : TransformSpec T pts)
    (a b r : List K) (h : fastMultiply FK T a b = some r) : denote r = denote a * denote b := by
  unfold fastMultiply fastMultiplyG at h
  simp only at h
  split at h
  · next hd =>
    -- negative degree sum: one operand is zero
    injection h with h; subst h
    rw [degree_spec, degree_spec] at hd
    by_cases ha : denote a = 0
    · simp [ha]
    · by_cases hb : denote b = 0
      · simp [hb]
      · rw [if_neg ha, if_neg hb] at hd; omega
  · next hd =>
    set d := (degree FK a + degree FK b).toNat with hdn
    set n := nextPowerOfTwo (d + 1) with hn
    have hnle : d + 1 ≤ n := le_nextPowerOfTwo _
    simp only [FieldOps.ofField_zero, FieldOps.ofField_mul_fn, Option.bind_eq_bind, Option.pure_def] at h
    cases hl : T.ntt (resize a n 0) with
    | none => simp [hl] at h
    | some l =>
      cases hr : T.ntt (resize b n 0) with
      | none => simp [hl, hr] at h
      | some rr =>
        cases hc : T.intt (List.zipWith (· * ·) l rr) with
        | none => simp [hl, hr, hc] at h
        | some c =>
          simp only [hl, hr, hc, Option.bind_some, Option.some.injEq] at h
          subst h
          by_cases ha : denote a = 0
          · have hc' := transform_mul hT _ _ n (length_resize _ _ _) (length_resize _ _ _)
              (by rw [denote_resize_of_zero a n ha]; simp) l rr c hl hr hc
            rw [hc', take_coeffList _ _ _ hnle, denote_resize_of_zero a n ha, ha]
            simp [coeffList]
            induction d + 1 with
            | zero => rfl
            | succ m ih => simp [List.range_succ, denote_append, ih] at ih ⊢
          · by_cases hb : denote b = 0
            · have hc' := transform_mul hT _ _ n (length_resize _ _ _) (length_resize _ _ _)
                (by rw [denote_resize_of_zero b n hb]; simp) l rr c hl hr hc
              rw [hc', take_coeffList _ _ _ hnle, denote_resize_of_zero b n hb, hb]
              simp [coeffList]
              induction d + 1 with
              | zero => rfl
              | succ m ih => simp [List.range_succ, denote_append, ih] at ih ⊢
            · -- both non-zero: d = natDegree a + natDegree b, the padded storages denote a and b
              have hda := degree_spec root a
              have hdb := degree_spec root b
              rw [if_neg ha] at hda
              rw [if_neg hb] at hdb
              have hd' : d = (denote a).natDegree + (denote b).natDegree := by
                rw [hdn, hda, hdb]; omega
              have hla := length_normalize root a ha
              have hlb := length_normalize root b hb
              have ea : denote (resize a n 0) = denote a := denote_resize_of_le root a n (by omega)
              have eb : denote (resize b n 0) = denote b := denote_resize_of_le root b n (by omega)
              have hdegm : (denote a * denote b).degree < (d + 1 : Nat) := by
                refine lt_of_le_of_lt (Polynomial.degree_le_natDegree) ?_
                have := Polynomial.natDegree_mul_le (p := denote a) (q := denote b)
                exact_mod_cast (by omega : (denote a * denote b).natDegree < d + 1)
              have hc' := transform_mul hT _ _ n (length_resize _ _ _) (length_resize _ _ _)
                (by rw [ea, eb]; exact lt_of_lt_of_le hdegm (by exact_mod_cast hnle)) l rr c hl hr hc
              rw [hc', take_coeffList _ _ _ hnle, ea, eb, denote_coeffList _ _ hdegm]

/-- `multiply`: both arms of the dispatch return the product — for every threshold -/
theorem denote_multiply {T : Transform K} {pts : Nat → Nat → K} (hT : TransformSpec T pts) (threshold : Int)
    (a b r : List K) (h : multiply FK threshold T a b = some r) : denote r = denote a * denote b := by
  unfold multiply multiplyG at h
  split at h
  · injection h with h; subst h; exact denote_naiveMultiply root a b
  · exact denote_fastMultiply root hT a b r h

/-- below the threshold `multiply` is total (no transform involved) -/
theorem multiply_isSome_of_lt (T : Transform K) (threshold : Int) (a b : List K)
    (h : degree FK a + degree FK b < threshold) : (multiply FK threshold T a b).isSome := by
  unfold multiply multiplyG; rw [if_pos h]; rfl

theorem denote_fastSquare {T : Transform K} {pts : Nat → Nat → K} (hT : TransformSpec T pts)
    (p r : List K) (h : fastSquare FK T p = some r) : denote r = denote p ^ 2 := by
  unfold fastSquare at h
  split at h
  · next hn =>
    injection h with h; subst h
    rw [(normalize_eq_nil_iff root p).1 hn]; simp
  · next c hn =>
    injection h with h; subst h
    rw [← denote_normalize root p, hn]; simp; ring
  · next c cs hn1 hn2 =>
    simp only at h
    set n := nextPowerOfTwo (2 * cs.length + 1) with hn
    have hnle : 2 * cs.length + 1 ≤ n := le_nextPowerOfTwo _
    simp only [FieldOps.ofField_zero, FieldOps.ofField_mul, Option.bind_eq_bind, Option.pure_def] at h
    cases hv : T.ntt (resize p n 0) with
    | none => simp [hv] at h
    | some v =>
      cases hw : T.intt (List.map (fun e => e * e) v) with
      | none => simp [hv, hw] at h
      | some w =>
        simp only [hv, hw, Option.bind_some, Option.some.injEq] at h
        subst h
        have hz : List.map (fun e => e * e) v = List.zipWith (· * ·) v v := by
          rw [List.zipWith_self]
        rw [hz] at hw
        have hnorm := hn2
        have hp0 : denote p ≠ 0 := by
          intro h0
          have := (normalize_eq_nil_iff root p).2 h0
          rw [this] at hnorm; cases hnorm
        have hlen := length_normalize root p hp0
        rw [hnorm] at hlen
        simp only [List.length_cons] at hlen
        have ep : denote (resize p n 0) = denote p :=
          denote_resize_of_le root p n (by rw [hnorm]; simp only [List.length_cons]; omega)
        have hdegm : (denote p * denote p).degree < (2 * cs.length + 1 : Nat) := by
          refine lt_of_le_of_lt (Polynomial.degree_le_natDegree) ?_
          have := Polynomial.natDegree_mul_le (p := denote p) (q := denote p)
          exact_mod_cast (by omega : (denote p * denote p).natDegree < 2 * cs.length + 1)
        have hc' := transform_mul hT _ _ n (length_resize _ _ _) (length_resize _ _ _)
          (by rw [ep]; exact lt_of_lt_of_le hdegm (by exact_mod_cast hnle)) v v w hv hv hw
        rw [hc', take_coeffList _ _ _ hnle, ep, denote_coeffList _ _ hdegm, pow_two]

/-- `square`: both arms return the square — for every cut-off -/
theorem denote_square {T : Transform K} {pts : Nat → Nat → K} (hT : TransformSpec T pts) (cutoff : Nat)
    (p r : List K) (h : square FK cutoff T p = some r) : denote r = denote p ^ 2 := by
  unfold square at h
  split at h
  · next hn =>
    injection h with h; subst h
    rw [(normalize_eq_nil_iff root p).1 hn]; simp
  · next c cs hn =>
    split at h
    · exact denote_fastSquare root hT p r h
    · injection h with h; subst h
      rw [denote_squareRows, ← hn, denote_normalize]

theorem square_isSome_of_le (T : Transform K) (cutoff : Nat) (p : List K)
    (h : 2 * (normalize FK p).length ≤ cutoff + 1) : (square FK cutoff T p).isSome := by
  unfold square
  split
  · rfl
  · next c cs hn =>
    rw [hn] at h; simp only [List.length_cons] at h
    rw [if_neg (by omega)]; rfl

/-! ### square-and-multiply -/

theorem powLoop_spec (sq mulSelf : List K → Option (List K)) (P : K[X])
    (hsq : ∀ acc r, sq acc = some r → denote r = denote acc ^ 2)
    (hmul : ∀ acc r, mulSelf acc = some r → denote r = denote acc * P)
    (e bl : Nat) (n : Nat) (hn : n ≤ bl + 1) (acc r : List K)
    (hacc : denote acc = P ^ (e / 2 ^ n))
    (h : powLoop sq mulSelf e bl n acc = some r) : denote r = P ^ e := by
  induction n generalizing acc with
  | zero => simp [powLoop] at h; subst h; simpa using hacc
  | succ n ih =>
    unfold powLoop at h
    simp only [Option.bind_eq_bind, Option.pure_def] at h
    cases h1 : sq acc with
    | none => simp [h1] at h
    | some a1 =>
      rw [h1, Option.bind_some] at h
      have e1 := hsq acc a1 h1
      have hidx : bl - (bl + 1 - (n + 1)) = n := by omega
      rw [hidx] at h
      have hbit : (e >>> n &&& 1) = (e / 2 ^ n) % 2 := by
        rw [Nat.and_one_is_mod, Nat.shiftRight_eq_div_pow]
      have hdiv : e / 2 ^ n = 2 * (e / 2 ^ (n + 1)) + (e / 2 ^ n) % 2 := by
        rw [pow_succ, ← Nat.div_div_eq_div_mul]; omega
      split at h
      · next hb =>
        cases h2 : mulSelf a1 with
        | none => simp [h2] at h
        | some a2 =>
          rw [h2, Option.bind_some] at h
          have e2 := hmul a1 a2 h2
          refine ih (by omega) a2 ?_ h
          have hb' : (e / 2 ^ n) % 2 = 1 := by rw [← hbit]; simpa using hb
          rw [e2, e1, hacc]; conv_rhs => rw [hdiv, hb']
          ring
      · next hb =>
        simp only [Option.bind_some] at h
        refine ih (by omega) a1 ?_ h
        have hb' : (e / 2 ^ n) % 2 = 0 := by
          have : ¬ ((e / 2 ^ n) % 2 = 1) := by rw [← hbit]; simpa using hb
          omega
        rw [e1, hacc]; conv_rhs => rw [hdiv, hb']
        ring

theorem powLoop_isSome (sq mulSelf : List K → Option (List K))
    (hsq : ∀ acc, (sq acc).isSome) (hmul : ∀ acc, (mulSelf acc).isSome) (e bl n : Nat) (acc : List K) :
    (powLoop sq mulSelf e bl n acc).isSome := by
  induction n generalizing acc with
  | zero => simp [powLoop]
  | succ n ih =>
    unfold powLoop
    simp only [Option.bind_eq_bind, Option.pure_def]
    obtain ⟨a1, h1⟩ := Option.isSome_iff_exists.1 (hsq acc)
    rw [h1, Option.bind_some]
    split
    · obtain ⟨a2, h2⟩ := Option.isSome_iff_exists.1 (hmul a1)
      rw [h2, Option.bind_some]; exact ih a2
    · exact ih a1

theorem div_pow_log2_succ (e : Nat) : e / 2 ^ (Nat.log2 e + 1) = 0 :=
  Nat.div_eq_of_lt Nat.lt_log2_self

/-- `pow(e)` is the `e`-th power in the ring (`0⁰ = 1`), for any storage -/
theorem denote_pow (p : List K) (e : Nat) : denote (pow FK p e) = denote p ^ e := by
  unfold pow
  split
  · next h => simp at h; subst h; simp
  · next h =>
    simp at h
    split
    · next hd =>
      have : denote p = 0 := by
        rw [degree_spec] at hd
        by_contra hne; rw [if_neg hne] at hd; omega
      rw [this, zero_pow h]; rfl
    · next hd =>
      have hs := powLoop_isSome (fun acc => some (slowSquare FK acc)) (fun acc => some (mul FK acc p))
        (fun _ => rfl) (fun _ => rfl) e (Nat.log2 e) (Nat.log2 e + 1) (one FK)
      obtain ⟨r, hr⟩ := Option.isSome_iff_exists.1 hs
      simp only [hr]
      exact powLoop_spec _ _ (denote p)
        (fun acc r h => by injection h with h; subst h; exact denote_slowSquare root acc)
        (fun acc r h => by injection h with h; subst h; exact denote_mul root acc p)
        e _ _ (le_refl _) _ r (by rw [div_pow_log2_succ]; simp) hr

/-- `fast_pow(e)` is the `e`-th power whenever it returns — for every squaring cut-off and multiply threshold -/
theorem denote_fastPow {T : Transform K} {pts : Nat → Nat → K} (hT : TransformSpec T pts)
    (sqCutoff : Nat) (threshold : Int) (p : List K) (e : Nat) (r : List K)
    (h : fastPow FK sqCutoff threshold T p e = some r) : denote r = denote p ^ e := by
  unfold fastPow at h
  split at h
  · next he => simp at he; subst he; injection h with h; subst h; simp
  · next he =>
    simp at he
    split at h
    · next hd =>
      injection h with h; subst h
      have : denote p = 0 := by
        rw [degree_spec] at hd
        by_contra hne; rw [if_neg hne] at hd; omega
      rw [this, zero_pow he]; rfl
    · exact powLoop_spec _ _ (denote p)
        (fun acc r h => denote_square root hT sqCutoff acc r h)
        (fun acc r h => by rw [denote_multiply root hT threshold p acc r h, mul_comm])
        e _ _ (le_refl _) _ r (by rw [div_pow_log2_succ]; simp) h

/-! ### batch products -/

/-- value of a polynomial-or-panic -/
noncomputable def val : Option (List K) → Option K[X] := Option.map denote

/-- product of a list of polynomials-or-panic: `none` if any entry is a panic -/
noncomputable def prodO : List (Option (List K)) → Option K[X]
  | [] => some 1
  | p :: ps => do let a ← val p; let b ← prodO ps; pure (a * b)

theorem prodO_map_some (fs : List (List K)) : prodO (fs.map some) = some (fs.map denote).prod := by
  induction fs with
  | nil => rfl
  | cons f fs ih => simp [prodO, val, ih]

theorem prodO_append (xs ys : List (Option (List K))) (u v : K[X])
    (hx : prodO xs = some u) (hy : prodO ys = some v) : prodO (xs ++ ys) = some (u * v) := by
  induction xs generalizing u with
  | nil => simp [prodO] at hx; subst hx; simpa using hy
  | cons x xs ih =>
    simp only [prodO, List.cons_append, Option.bind_eq_bind, Option.pure_def] at hx ⊢
    cases hvx : val x with
    | none => simp [hvx] at hx
    | some a =>
      cases hpx : prodO xs with
      | none => simp [hvx, hpx] at hx
      | some b =>
        simp [hvx, hpx] at hx
        rw [ih b hpx]; simp [← hx, mul_assoc]

/-- a binary product that is correct whenever it returns -/
def MulOK (mulf : List K → List K → Option (List K)) : Prop :=
  ∀ a b c, mulf a b = some c → denote c = denote a * denote b

theorem prodO_pairUp {mulf : List K → List K → Option (List K)} (hm : MulOK mulf)
    (ps : List (Option (List K))) (v : K[X]) (h : prodO (pairUp mulf ps) = some v) : prodO ps = some v := by
  fun_induction pairUp mulf ps generalizing v with
  | case1 => exact h
  | case2 p => exact h
  | case3 p q rest ih =>
    simp only [prodO, Option.bind_eq_bind, Option.pure_def] at h ⊢
    cases p with
    | none => simp [val] at h
    | some a =>
      cases q with
      | none => simp [val] at h
      | some b =>
        simp only [Option.bind_some] at h
        cases hc : mulf a b with
        | none => simp [hc, val] at h
        | some c =>
          rw [hc] at h
          cases hr : prodO (pairUp mulf rest) with
          | none => simp [hr, val] at h
          | some w =>
            simp [hr, val] at h
            rw [ih w hr]
            simp [val, ← h, hm a b c hc, mul_assoc]

theorem batchLoop_spec {mulf : List K → List K → Option (List K)} (hm : MulOK mulf)
    (ps : List (Option (List K))) (r : List K) (h : batchLoop mulf ps = some r) :
    prodO ps = some (denote r) := by
  fun_induction batchLoop mulf ps with
  | case1 => simp at h
  | case2 p => subst h; simp [prodO, val]
  | case3 p q rest ih => exact prodO_pairUp hm _ _ (ih h)

theorem batchMultiplyWith_spec {mulf : List K → List K → Option (List K)} (hm : MulOK mulf)
    (ps : List (Option (List K))) (r : List K) (h : batchMultiplyWith FK mulf ps = some r) :
    prodO ps = some (denote r) := by
  unfold batchMultiplyWith at h
  split at h
  · next he =>
    injection h with h; subst h
    rw [List.isEmpty_iff] at he; subst he; simp [prodO]
  · exact batchLoop_spec hm ps r h

theorem prodO_chunks {mulf : List K → List K → Option (List K)} (hm : MulOK mulf) (n : Nat) (hn : 1 ≤ n)
    (fuel : Nat) (xs : List (Option (List K))) (hf : xs.length ≤ fuel) (v : K[X])
    (h : prodO ((chunksAux n fuel xs).map (batchChunk FK mulf)) = some v) : prodO xs = some v := by
  induction fuel generalizing xs v with
  | zero =>
    have : xs = [] := List.length_eq_zero_iff.1 (by omega)
    subst this; simpa [chunksAux] using h
  | succ fuel ih =>
    unfold chunksAux at h
    split at h
    · next he => rw [List.isEmpty_iff] at he; subst he; simpa using h
    · next he =>
      simp only [List.map_cons, prodO, Option.bind_eq_bind, Option.pure_def] at h
      cases hc : batchChunk FK mulf (xs.take n) with
      | none => simp [hc, val] at h
      | some c =>
        cases hr : prodO ((chunksAux n fuel (xs.drop n)).map (batchChunk FK mulf)) with
        | none => simp [hc, hr, val] at h
        | some w =>
          simp [hc, hr, val] at h
          have h1 := batchMultiplyWith_spec root hm _ c hc
          have hlen : (xs.drop n).length ≤ fuel := by
            have : xs ≠ [] := by intro h0; simp [h0] at he
            have := List.length_pos_of_ne_nil this
            simp only [List.length_drop]; omega
          have h2 := ih (xs.drop n) hlen w hr
          have := prodO_append _ _ _ _ h1 h2
          rw [List.take_append_drop] at this
          rw [this, h]

theorem parBatchLoop_spec {mulf : List K → List K → Option (List K)} (hm : MulOK mulf) (numThreads : Nat)
    (ps : List (Option (List K))) (r : List K) (h : parBatchLoop FK mulf numThreads ps = some r) :
    prodO ps = some (denote r) := by
  fun_induction parBatchLoop FK mulf numThreads ps with
  | case1 => simp at h
  | case2 p => subst h; simp [prodO, val]
  | case3 p q rest chunkSize ih =>
    exact prodO_chunks root hm chunkSize (by omega) _ _ (le_refl _) _ (ih h)

theorem parBatchMultiplyWith_spec {mulf : List K → List K → Option (List K)} (hm : MulOK mulf) (numThreads : Nat)
    (ps : List (Option (List K))) (r : List K) (h : parBatchMultiplyWith FK mulf numThreads ps = some r) :
    prodO ps = some (denote r) := by
  unfold parBatchMultiplyWith at h
  split at h
  · next he =>
    injection h with h; subst h
    rw [List.isEmpty_iff] at he; subst he; simp [prodO]
  · exact parBatchLoop_spec root hm numThreads ps r h

/-! #### no panic when the binary product never panics -/

def AllSome (ps : List (Option (List K))) : Prop := ∀ p ∈ ps, p.isSome

theorem pairUp_allSome {mulf : List K → List K → Option (List K)} (ht : ∀ a b, (mulf a b).isSome)
    (ps : List (Option (List K))) (h : AllSome ps) : AllSome (pairUp mulf ps) := by
  fun_induction pairUp mulf ps with
  | case1 => exact h
  | case2 p => exact h
  | case3 p q rest ih =>
    intro x hx
    simp only [List.mem_cons] at hx
    rcases hx with rfl | hx
    · obtain ⟨a, rfl⟩ := Option.isSome_iff_exists.1 (h p (by simp))
      obtain ⟨b, rfl⟩ := Option.isSome_iff_exists.1 (h q (by simp))
      simpa using ht a b
    · exact ih (fun y hy => h y (by simp [hy])) x hx

theorem batchLoop_isSome {mulf : List K → List K → Option (List K)} (ht : ∀ a b, (mulf a b).isSome)
    (ps : List (Option (List K))) (hne : ps ≠ []) (h : AllSome ps) : (batchLoop mulf ps).isSome := by
  fun_induction batchLoop mulf ps with
  | case1 => exact absurd rfl hne
  | case2 p => exact h p (by simp)
  | case3 p q rest ih =>
    refine ih ?_ (pairUp_allSome ht _ h)
    intro h0
    have := congrArg List.length h0
    rw [pairUp_length] at this; simp at this

theorem batchMultiplyWith_isSome {mulf : List K → List K → Option (List K)} (ht : ∀ a b, (mulf a b).isSome)
    (ps : List (Option (List K))) (h : AllSome ps) : (batchMultiplyWith FK mulf ps).isSome := by
  unfold batchMultiplyWith
  split
  · rfl
  · next he => exact batchLoop_isSome ht ps (by intro h0; simp [h0] at he) h

theorem chunks_allSome {mulf : List K → List K → Option (List K)} (ht : ∀ a b, (mulf a b).isSome) (n fuel : Nat)
    (xs : List (Option (List K))) (h : AllSome xs) :
    AllSome ((chunksAux n fuel xs).map (batchChunk FK mulf)) := by
  induction fuel generalizing xs with
  | zero => intro x hx; simp [chunksAux] at hx
  | succ fuel ih =>
    unfold chunksAux
    split
    · intro x hx; simp at hx
    · intro x hx
      simp only [List.map_cons, List.mem_cons] at hx
      rcases hx with rfl | hx
      · exact batchMultiplyWith_isSome root ht _ (fun y hy => h y (List.mem_of_mem_take hy))
      · exact ih _ (fun y hy => h y (List.mem_of_mem_drop hy)) x hx

theorem chunksAux_ne_nil (n fuel : Nat) (xs : List (Option (List K))) (hx : xs ≠ []) (hf : 0 < fuel) :
    chunksAux n fuel xs ≠ [] := by
  cases fuel with
  | zero => omega
  | succ fuel =>
    unfold chunksAux
    rw [if_neg (by simpa using hx)]
    simp

theorem parBatchLoop_isSome {mulf : List K → List K → Option (List K)} (ht : ∀ a b, (mulf a b).isSome)
    (numThreads : Nat) (ps : List (Option (List K))) (hne : ps ≠ []) (h : AllSome ps) :
    (parBatchLoop FK mulf numThreads ps).isSome := by
  fun_induction parBatchLoop FK mulf numThreads ps with
  | case1 => exact absurd rfl hne
  | case2 p => exact h p (by simp)
  | case3 p q rest chunkSize ih =>
    refine ih ?_ (chunks_allSome root ht _ _ _ h)
    intro h0
    have := chunksAux_ne_nil chunkSize (p :: q :: rest).length (p :: q :: rest) (by simp) (by simp)
    simp [chunks] at h0
    exact this h0

theorem parBatchMultiplyWith_isSome {mulf : List K → List K → Option (List K)} (ht : ∀ a b, (mulf a b).isSome)
    (numThreads : Nat) (ps : List (Option (List K))) (h : AllSome ps) :
    (parBatchMultiplyWith FK mulf numThreads ps).isSome := by
  unfold parBatchMultiplyWith
  split
  · rfl
  · next he => exact parBatchLoop_isSome root ht numThreads ps (by intro h0; simp [h0] at he) h

theorem allSome_map_some (fs : List (List K)) : AllSome (fs.map some) := by
  intro p hp; simp at hp; obtain ⟨a, _, rfl⟩ := hp; rfl

/-! ### operands over different fields (`FF: Mul<FF2>`): reduction to the same-field operations

`K₁`, `K₂` are the coefficient fields of the operands, `K` the field of the result, `φ₁ φ₂` the embeddings
(for `BFieldElement × XFieldElement`: `φ₁ = algebraMap`, `φ₂ = id`), and the mixed product is `φ₁ a * φ₂ b`. -/
section Mixed
variable {K₁ K₂ : Type} [Field K₁] [Field K₂] (φ₁ : K₁ →+* K) (φ₂ : K₂ →+* K)
variable (root₁ : Nat → Option K₁) (root₂ : Nat → Option K₂)

theorem denote_map (φ : K₁ →+* K) (a : List K₁) : denote (a.map φ) = (denote a).map φ := by
  induction a with
  | nil => simp
  | cons c cs ih => simp [ih]

theorem normalize_map (φ : K₁ →+* K) (a : List K₁) :
    (normalize (FieldOps.ofField K₁ root₁) a).map φ = normalize FK (a.map φ) := by
  induction a using List.reverseRecOn with
  | nil => rfl
  | append_singleton p c ih =>
    by_cases hc : c = 0
    · subst hc
      rw [normalize_append_zero, List.map_append, List.map_singleton, map_zero, normalize_append_zero, ih]
    · rw [normalize_append_zero_ne root₁ p c hc, List.map_append, List.map_singleton,
        normalize_append_zero_ne root _ _ (by simpa using hc)]

theorem mulRows_map (a : List K₁) (b : List K₂) :
    mulRows FK (fun x y => φ₁ x * φ₂ y) a b = mulRows FK (· * ·) (a.map φ₁) (b.map φ₂) := by
  induction a with
  | nil => simp [mulRows]
  | cons a0 as ih =>
    cases as with
    | nil => simp [mulRows]
    | cons a1 as =>
      simp only [List.map_cons] at ih ⊢
      rw [mulRows, mulRows, ih]
      simp only [List.map_map, FieldOps.ofField_zero]
      rfl

/-- the mixed-field `naive_multiply` is the same-field one on the embedded operands -/
theorem naiveMultiplyG_eq (a : List K₁) (b : List K₂) :
    naiveMultiplyG (FieldOps.ofField K₁ root₁) (FieldOps.ofField K₂ root₂) FK (fun x y => φ₁ x * φ₂ y) a b
      = naiveMultiply FK (a.map φ₁) (b.map φ₂) := by
  unfold naiveMultiply naiveMultiplyG
  rw [← normalize_map root root₁ φ₁ a, ← normalize_map root root₂ φ₂ b]
  cases ha : normalize (FieldOps.ofField K₁ root₁) a with
  | nil => simp
  | cons x xs =>
    cases hb : normalize (FieldOps.ofField K₂ root₂) b with
    | nil => simp
    | cons y ys =>
      simp only [List.map_cons]
      rw [FieldOps.ofField_mul_fn, mulRows_map]
      simp

theorem denote_naiveMultiplyG (a : List K₁) (b : List K₂) :
    denote (naiveMultiplyG (FieldOps.ofField K₁ root₁) (FieldOps.ofField K₂ root₂) FK (fun x y => φ₁ x * φ₂ y) a b)
      = (denote a).map φ₁ * (denote b).map φ₂ := by
  rw [naiveMultiplyG_eq, denote_naiveMultiply, denote_map, denote_map]

theorem denote_scalarMulG (p : List K₁) (s : K₂) :
    denote (scalarMulG (fun x y => φ₁ x * φ₂ y) p s) = (denote p).map φ₁ * C (φ₂ s) := by
  unfold scalarMulG
  rw [← denote_map, ← denote_map_mul_right, List.map_map]
  rfl

theorem scaleAux_map (p : List K₁) (alpha pw : K₂) :
    scaleAux (· * ·) (fun x y => φ₁ x * φ₂ y) alpha pw p
      = scaleAux (· * ·) (· * ·) (φ₂ alpha) (φ₂ pw) (p.map φ₁) := by
  induction p generalizing pw with
  | nil => simp [scaleAux]
  | cons c cs ih => simp [scaleAux, ih]

theorem denote_scaleG (p : List K₁) (alpha : K₂) :
    denote (scaleG (1 : K₂) (· * ·) (fun x y => φ₁ x * φ₂ y) p alpha)
      = ((denote p).map φ₁).comp (C (φ₂ alpha) * X) := by
  unfold scaleG
  rw [scaleAux_map, denote_scaleAux, denote_map]
  simp

end Mixed

/-! ### a concrete transform pair over `ℚ` (lengths 1 and 2, points `1, -1`) for non-vacuity examples -/

def exampleTransform : Transform ℚ where
  ntt := fun xs => match xs with
    | [x] => some [x]
    | [x0, x1] => some [x0 + x1, x0 - x1]
    | _ => none
  intt := fun ys => match ys with
    | [y] => some [y]
    | [y0, y1] => some [(y0 + y1) / 2, (y0 - y1) / 2]
    | _ => none

def examplePts (_ i : Nat) : ℚ := if i = 0 then 1 else -1

theorem exampleTransform_spec : TransformSpec exampleTransform examplePts where
  ntt_eval := by
    intro xs ys h
    match xs, h with
    | [x], h => simp [exampleTransform] at h; subst h; simp [examplePts, List.range_succ]
    | [x0, x1], h => simp [exampleTransform] at h; subst h; simp [examplePts, List.range_succ]; ring
  ntt_some_of_length := by
    intro xs ys xs' h hl
    match xs, h with
    | [x], h =>
      match xs', hl with
      | [a], _ => exact ⟨_, rfl⟩
    | [x0, x1], h =>
      match xs', hl with
      | [a, b], _ => exact ⟨_, rfl⟩
  intt_ntt := by
    intro xs ys zs h h2
    match xs, h with
    | [x], h => simp [exampleTransform] at h; subst h; simp [exampleTransform] at h2; exact h2.symm
    | [x0, x1], h =>
      simp [exampleTransform] at h; subst h; simp [exampleTransform] at h2; subst h2
      simp

end TF.Model.Poly
