import TF.Proofs.XFieldMore
import Mathlib.RingTheory.AdjoinRoot
import Mathlib.FieldTheory.Finite.Basic
import Mathlib.GroupTheory.OrderOfElement
/-!
The extension field as a **field**: `K = F_p[X]/(X³ − X + 1)` (`AdjoinRoot`, a field because the cubic is irreducible,
`TF.Shah.shah_irreducible`; finite because it is a finite-dimensional vector space over the finite field `F_p`).

`φv : Spec.X3 → K`, `(c0, c1, c2) ↦ c0 + c1·θ + c2·θ²` is multiplicative for the specification product `xmul`, injective
on canonical triples; `φ = φv ∘ toVal` is the same on raw Montgomery words.  Through `φ` the generic loops of
`batch_inversion` and `get_cyclic_group_elements` (instantiated for `XFieldElement`) are analysed in a field.
-/
open Polynomial

namespace TF.XK
open TF TF.Gen TF.Spec TF.Shah TF.Model TF.XFInvProofs

/-- the cubic -/
noncomputable abbrev shahP : F[X] := X^3 - X + 1

instance shahFact : Fact (Irreducible shahP) := ⟨shah_irreducible⟩

/-- the extension field `F_p[X]/(X³ − X + 1)` -/
abbrev K := AdjoinRoot shahP

noncomputable instance : Field K := AdjoinRoot.instField

instance : Finite K := by
  have : Module.Finite F K := shah_monic.finite_adjoinRoot
  exact Module.finite_of_finite F

/-- the adjoined root -/
noncomputable def θ : K := AdjoinRoot.root shahP

theorem θ_rel : θ^3 - θ + 1 = 0 := by
  have h := AdjoinRoot.eval₂_root shahP
  simpa [θ, shahP, eval₂_add, eval₂_sub, eval₂_pow] using h

/-- the embedding of `F_p` -/
noncomputable def ι : F →+* K := AdjoinRoot.of shahP

/-- triple of naturals ↦ element of `K` -/
noncomputable def φv (v : Spec.X3) : K := ι (v.1 : F) + ι (v.2.1 : F) * θ + ι (v.2.2 : F) * θ^2

theorem φv_eq_mk (v : Spec.X3) :
    φv v = AdjoinRoot.mk shahP (C (v.1 : F) + C (v.2.1 : F) * X + C (v.2.2 : F) * X^2) := by
  simp only [φv, ι, θ, map_add, map_mul, map_pow, AdjoinRoot.mk_C, AdjoinRoot.mk_X]

theorem φv_xmul (a b : Spec.X3) : φv (xmul a b) = φv a * φv b := by
  obtain ⟨h0, h1, h2⟩ := cast_xmul a b
  have key := TF.XFp.mul_formula (ι (a.1 : F)) (ι (a.2.1 : F)) (ι (a.2.2 : F)) (ι (b.1 : F)) (ι (b.2.1 : F))
    (ι (b.2.2 : F)) θ
  rw [θ_rel, zero_mul, add_zero] at key
  unfold φv
  rw [key, h0, h1, h2]
  simp only [map_add, map_sub, map_mul]

theorem φv_xone : φv xone = 1 := by
  simp [φv, xone]

theorem φv_xzero : φv xzero = 0 := by
  simp [φv, xzero]

theorem φv_eq_zero (v : Spec.X3) (hv : Shah.canon3 v) : φv v = 0 ↔ v = xzero := by
  constructor
  · intro h
    rw [φv_eq_mk, AdjoinRoot.mk_eq_zero] at h
    by_contra hne
    exact cast_triple_ne_zero v hv hne (quad_eq_zero_of_shah_dvd _ _ _ h)
  · rintro rfl; exact φv_xzero

theorem φv_inj (u v : Spec.X3) (hu : Shah.canon3 u) (hv : Shah.canon3 v) (h : φv u = φv v) : u = v := by
  rw [φv_eq_mk, φv_eq_mk, ← sub_eq_zero, ← map_sub, AdjoinRoot.mk_eq_zero] at h
  have hd : shahP ∣ C ((u.1 : F) - v.1) + C ((u.2.1 : F) - v.2.1) * X + C ((u.2.2 : F) - v.2.2) * X^2 := by
    simp only [C_sub]
    convert h using 1
    ring
  obtain ⟨e0, e1, e2⟩ := quad_eq_zero_of_shah_dvd _ _ _ hd
  exact Prod.ext (cast_inj_of_lt hu.1 hv.1 (sub_eq_zero.1 e0))
    (Prod.ext (cast_inj_of_lt hu.2.1 hv.2.1 (sub_eq_zero.1 e1)) (cast_inj_of_lt hu.2.2 hv.2.2 (sub_eq_zero.1 e2)))

theorem φv_xnpow (v : Spec.X3) : ∀ n, φv (TF.XFp.xnpow v n) = φv v ^ n
  | 0 => by rw [TF.XFp.xnpow_zero, φv_xone, pow_zero]
  | n+1 => by rw [TF.XFp.xnpow_succ, φv_xmul, φv_xnpow v n, pow_succ]

/-! ### on raw words -/

/-- raw word triple ↦ element of `K` -/
noncomputable def φ (x : XF.X3) : K := φv (XF.toVal x)

theorem φ_mul (x y : XF.X3) (hx : XFp.canon3 x) (hy : XFp.canon3 y) : φ (XF.mul x y) = φ x * φ y := by
  unfold φ; rw [toVal_mul x y hx hy, φv_xmul]

theorem φ_one : φ XF.one = 1 := by unfold φ; rw [toVal_one, φv_xone]
theorem φ_zero : φ XF.zero = 0 := by unfold φ; rw [toVal_zero, φv_xzero]

theorem φ_eq_zero (x : XF.X3) (hx : XFp.canon3 x) : φ x = 0 ↔ x = XF.zero := by
  unfold φ
  rw [φv_eq_zero _ (toVal_canon x hx)]
  exact ⟨fun h => toVal_inj x XF.zero hx canon3_zero (h.trans toVal_zero.symm), fun h => h ▸ toVal_zero⟩

theorem φ_inj (x y : XF.X3) (hx : XFp.canon3 x) (hy : XFp.canon3 y) (h : φ x = φ y) : x = y :=
  toVal_inj x y hx hy (φv_inj _ _ (toVal_canon x hx) (toVal_canon y hy) h)

/-! ### generic `batch_inversion` (`batchPrefixG` / `batchBackG` / `batchInversionG`)

The two loops are analysed for an arbitrary carrier `α` with a "canonical" predicate `Cn` closed under `mul` and a map
`ψ : α → L` into a field that is multiplicative on canonical elements and detects zero. -/
section generic
variable {α : Type} {L : Type} [Field L] (Cn : α → Prop) (mul : α → α → α) (isZero : α → Bool) (ψ : α → L)
  (hC : ∀ a b, Cn a → Cn b → Cn (mul a b))
  (hmul : ∀ a b, Cn a → Cn b → ψ (mul a b) = ψ a * ψ b)
  (hzero : ∀ a, Cn a → (ψ a = 0 ↔ isZero a = true))
include hC hmul hzero

omit hzero in
theorem batchPrefixG_spec : ∀ (xs : List α) (acc : α), Cn acc → (∀ x ∈ xs, Cn x ∧ isZero x = false) →
    ∃ sc fin, batchPrefixG mul isZero xs acc = some (sc, fin) ∧ Cn fin ∧ sc.length = xs.length ∧
      ψ fin = ψ acc * (xs.map ψ).prod ∧ (∀ s ∈ sc, Cn s) ∧
      (∀ i (h : i < sc.length), ψ (sc[i]) = ψ acc * ((xs.take i).map ψ).prod)
  | [], acc, hacc, _ => ⟨[], acc, rfl, hacc, rfl, by simp, by simp, by simp⟩
  | x :: xs, acc, hacc, h => by
    have hx := h x (by simp)
    obtain ⟨sc, fin, e, hfin, hlen, hprod, hsc, hidx⟩ :=
      batchPrefixG_spec xs (mul acc x) (hC _ _ hacc hx.1) (fun y hy => h y (by simp [hy]))
    refine ⟨acc :: sc, fin, ?_, hfin, by simp [hlen], ?_, ?_, ?_⟩
    · unfold batchPrefixG; simp [hx.2, e]
    · rw [hprod, hmul _ _ hacc hx.1]; simp [mul_assoc]
    · intro s hs; rcases List.mem_cons.1 hs with rfl | hs
      · exact hacc
      · exact hsc s hs
    · intro i hi
      cases i with
      | zero => simp
      | succ i =>
        have := hidx i (by simpa using hi)
        simp only [List.getElem_cons_succ, List.take_succ_cons, List.map_cons, List.prod_cons]
        rw [this, hmul _ _ hacc hx.1]; ring

theorem batchBackG_spec (xs : List α) : ∀ (sc : List α) (A : α) (out : List α),
    sc.length = xs.length → (∀ x ∈ xs, Cn x ∧ isZero x = false) → (∀ s ∈ sc, Cn s) → Cn A →
    (∀ i (h : i < sc.length), ψ (sc[i]) = ((xs.take i).map ψ).prod) →
    ψ A = ((xs.map ψ).prod)⁻¹ →
    ∃ rs, batchBackG mul xs.reverse sc.reverse A out = rs ++ out ∧ (∀ r ∈ rs, Cn r) ∧
      rs.map ψ = xs.map (fun x => (ψ x)⁻¹) := by
  induction xs using List.reverseRecOn with
  | nil =>
    intro sc A out hlen _ _ _ _ _
    have : sc = [] := List.length_eq_zero_iff.1 (by simpa using hlen)
    subst this
    exact ⟨[], by simp [batchBackG], by simp, by simp⟩
  | append_singleton xs x ih =>
    intro sc A out hlen hxs hsc hA hidx hAinv
    obtain ⟨sc', s, rfl⟩ : ∃ sc' s, sc = sc' ++ [s] := by
      rcases List.eq_nil_or_concat sc with h | ⟨l, a, h⟩
      · subst h; simp at hlen
      · exact ⟨l, a, by simpa using h⟩
    have hlen' : sc'.length = xs.length := by simpa using hlen
    have hx := hxs x (by simp)
    have hs := hsc s (by simp)
    have hnz : ∀ y, Cn y → isZero y = false → ψ y ≠ 0 := fun y hy h0 h => by
      rw [(hzero y hy).1 h] at h0; cases h0
    have hxz : ψ x ≠ 0 := hnz x hx.1 hx.2
    have hpz : (xs.map ψ).prod ≠ 0 := by
      intro hp
      obtain ⟨y, hy, hy0⟩ := List.mem_map.1 (List.prod_eq_zero_iff.1 hp)
      exact hnz y (hxs y (by simp [hy])).1 (hxs y (by simp [hy])).2 hy0
    simp only [List.reverse_append, List.reverse_cons, List.reverse_nil, List.nil_append, List.singleton_append,
      batchBackG]
    have hs_val : ψ s = (xs.map ψ).prod := by
      have := hidx sc'.length (by simp)
      simp only [List.getElem_append_right (Nat.le_refl _), Nat.sub_self, List.getElem_cons_zero] at this
      rw [this, hlen']; simp
    have hAinv' : ψ A = ((xs.map ψ).prod * ψ x)⁻¹ := by
      rw [hAinv]; simp
    have hA' : ψ (mul A x) = ((xs.map ψ).prod)⁻¹ := by
      rw [hmul _ _ hA hx.1, hAinv']; field_simp
    obtain ⟨rs, hrs, hrc, hrm⟩ := ih sc' (mul A x) (mul A s :: out) hlen'
      (fun y hy => hxs y (by simp [hy])) (fun t ht => hsc t (by simp [ht])) (hC _ _ hA hx.1)
      (fun i h => by
        have := hidx i (by simp; omega)
        rw [List.getElem_append_left h] at this
        rw [this, List.take_append_of_le_length (by omega)])
      hA'
    refine ⟨rs ++ [mul A s], by rw [hrs]; simp, ?_, ?_⟩
    · intro r hr
      rcases List.mem_append.1 hr with h | h
      · exact hrc r h
      · rw [List.mem_singleton.1 h]; exact hC _ _ hA hs
    · rw [List.map_append, List.map_append, hrm]
      congr 1
      simp only [List.map_cons, List.map_nil, List.cons.injEq, and_true]
      rw [hmul _ _ hA hs, hAinv', hs_val]; field_simp

/-- generic `batch_inversion`: if `inverse` inverts every non-zero canonical element, any vector of non-zero canonical
    elements is mapped to the vector of inverses -/
theorem batchInversionG_spec (inverse : α → Option α) (one : α) (hone : Cn one) (hψone : ψ one = 1)
    (hinv : ∀ a, Cn a → isZero a = false → ∃ r, inverse a = some r ∧ Cn r ∧ ψ r = (ψ a)⁻¹)
    (xs : List α) (h : ∀ x ∈ xs, Cn x ∧ isZero x = false) :
    ∃ rs, batchInversionG mul isZero inverse one xs = some rs ∧ (∀ r ∈ rs, Cn r) ∧
      rs.map ψ = xs.map (fun x => (ψ x)⁻¹) := by
  cases xs with
  | nil => exact ⟨[], rfl, by simp, by simp⟩
  | cons x xs =>
    obtain ⟨sc, fin, e, hfin, hlen, hprod, hsc, hidx⟩ :=
      batchPrefixG_spec Cn mul isZero ψ hC hmul (x :: xs) one hone h
    have hfin_nz : isZero fin = false := by
      rw [← Bool.not_eq_true, ← hzero fin hfin, hprod, hψone, one_mul]
      intro h0
      obtain ⟨y, hy, hy0⟩ := List.mem_map.1 (List.prod_eq_zero_iff.1 h0)
      have := (hzero y (h y hy).1).1 hy0
      rw [(h y hy).2] at this; cases this
    obtain ⟨ai, hai, haic, haiv⟩ := hinv fin hfin hfin_nz
    obtain ⟨rs, hrs, hrc, hrm⟩ := batchBackG_spec Cn mul isZero ψ hC hmul hzero (x :: xs) sc ai [] hlen h hsc haic
      (fun i hi => by rw [hidx i hi, hψone, one_mul]) (by rw [haiv, hprod, hψone, one_mul])
    refine ⟨rs, ?_, hrc, hrm⟩
    unfold batchInversionG
    simp only [e, hai, hrs, List.append_nil]

end generic

/-! ### `batch_inversion` on the extension field -/

theorem isZero_false_iff (x : XF.X3) : XF.isZero x = false ↔ x ≠ XF.zero := by
  rw [← Bool.not_eq_true, XFp.x_is_zero_iff]

/-- `XFieldElement::inverse` is inversion in `K` -/
theorem φ_inverse (x : XF.X3) (hx : XFp.canon3 x) (hnz : x ≠ XF.zero) :
    ∃ r, XF.inverse x = some r ∧ XFp.canon3 r ∧ φ r = (φ x)⁻¹ := by
  obtain ⟨r, hr, hc, hm, _⟩ := inverse_spec x hx hnz
  refine ⟨r, hr, hc, eq_inv_of_mul_eq_one_left ?_⟩
  rw [← φ_mul r x hc hx, hm, φ_one]

/-- **batch inversion on the extension field**: any vector of non-zero elements (canonical coefficient words) is
    mapped to the vector of inverses -/
theorem x_batchInversion_spec (xs : List XF.X3) (h : ∀ x ∈ xs, XFp.canon3 x ∧ x ≠ XF.zero) :
    ∃ rs, XF.batchInversion xs = some rs ∧ rs.length = xs.length ∧
      ∀ i (h1 : i < rs.length) (h2 : i < xs.length), XFp.canon3 rs[i] ∧ XF.mul rs[i] xs[i] = XF.one ∧
        XF.mul xs[i] rs[i] = XF.one ∧ XF.inverse xs[i] = some rs[i] := by
  obtain ⟨rs, hrs, hrc, hrm⟩ := batchInversionG_spec XFp.canon3 XF.mul XF.isZero φ
    (fun a b ha hb => (XFp.mul_coeffs a b ha hb).1) φ_mul
    (fun a ha => by rw [φ_eq_zero a ha, XFp.x_is_zero_iff])
    XF.inverse XF.one canon3_one φ_one
    (fun a ha hz => φ_inverse a ha ((isZero_false_iff a).1 hz))
    xs (fun x hx => ⟨(h x hx).1, (isZero_false_iff x).2 (h x hx).2⟩)
  have hlen : rs.length = xs.length := by simpa using congrArg List.length hrm
  refine ⟨rs, hrs, hlen, fun i h1 h2 => ?_⟩
  have hc : XFp.canon3 rs[i] := hrc _ (List.getElem_mem h1)
  have hx := h xs[i] (List.getElem_mem h2)
  have hφ : φ rs[i] = (φ xs[i])⁻¹ := by
    have := congrArg (fun l => l[i]?) hrm
    simpa [h1, h2] using this
  have hxz : φ xs[i] ≠ 0 := fun h0 => hx.2 ((φ_eq_zero _ hx.1).1 h0)
  have hl : XF.mul rs[i] xs[i] = XF.one := by
    apply φ_inj _ _ (XFp.mul_coeffs _ _ hc hx.1).1 canon3_one
    rw [φ_mul _ _ hc hx.1, hφ, φ_one, inv_mul_cancel₀ hxz]
  have hr : XF.mul xs[i] rs[i] = XF.one := by
    apply φ_inj _ _ (XFp.mul_coeffs _ _ hx.1 hc).1 canon3_one
    rw [φ_mul _ _ hx.1 hc, hφ, φ_one, mul_inv_cancel₀ hxz]
  refine ⟨hc, hl, hr, ?_⟩
  obtain ⟨r, hr1, _, _, _, huniq⟩ := inverse_spec xs[i] hx.1 hx.2
  rw [hr1, huniq rs[i] hc hl]

/-! ### finiteness: every non-zero element has finite multiplicative order, dividing `P³ − 1` -/

theorem card_K : Nat.card K = 18446744069414584321 ^ 3 := by
  have : Module.Finite F K := shah_monic.finite_adjoinRoot
  let : Fintype K := Fintype.ofFinite K
  rw [Nat.card_eq_fintype_card, Module.card_eq_pow_finrank (K := F) (V := K), ZMod.card,
    (AdjoinRoot.powerBasis' shah_monic).finrank, AdjoinRoot.powerBasis'_dim, shah_natDegree]

theorem pow_card_sub_one (a : K) (ha : a ≠ 0) : a ^ (18446744069414584321 ^ 3 - 1) = 1 := by
  let : Fintype K := Fintype.ofFinite K
  have h := FiniteField.pow_card_sub_one_eq_one a ha
  rwa [← Nat.card_eq_fintype_card, card_K] at h

theorem orderOf_pos_of_ne_zero (a : K) (ha : a ≠ 0) : 0 < orderOf a := by
  rw [orderOf_pos_iff, isOfFinOrder_iff_pow_eq_one]
  exact ⟨18446744069414584321 ^ 3 - 1, by norm_num, pow_card_sub_one a ha⟩

theorem orderOf_dvd_card_sub_one (a : K) (ha : a ≠ 0) : orderOf a ∣ 18446744069414584321 ^ 3 - 1 :=
  orderOf_dvd_of_pow_eq_one (pow_card_sub_one a ha)

/-! ### `get_cyclic_group_elements(None)` on the extension field terminates for every non-zero element -/

theorem xnpow_eq_one_iff (v : Spec.X3) (n : Nat) : XFp.xnpow v n = xone ↔ φv v ^ n = 1 := by
  rw [← φv_xnpow, ← φv_xone]
  exact ⟨fun h => by rw [h], fun h => φv_inj _ _ (XFp.xnpow_canon v n) XFp.xone_canon h⟩

/-- **no bound**: for a non-zero `g` the loop ends.  `k` = multiplicative order of `g` (the least positive exponent
    with `g^k = 1`; it divides `P³ − 1`); the loop runs `max k 2 − 1` iterations and returns `[1, g, …, g^(max k 2 − 1)]`. -/
theorem x_cyclicGroup_none (g : XF.X3) (hg : XFp.canon3 g) (hnz : g ≠ XF.zero) :
    ∃ k, 0 < k ∧ k ∣ P ^ 3 - 1 ∧ XFp.xnpow (XF.toVal g) k = xone ∧
      (∀ j, 0 < j → j < k → XFp.xnpow (XF.toVal g) j ≠ xone) ∧
      ∀ fuel, max k 2 ≤ fuel + 1 →
        ∃ l, XF.cyclicGroup fuel g none = some l ∧ (∀ x ∈ l, XFp.canon3 x) ∧ l.length = max k 2 ∧
          l.map XF.toVal = (List.range (max k 2)).map (XFp.xnpow (XF.toVal g)) := by
  have hφ : φ g ≠ 0 := fun h => hnz ((φ_eq_zero g hg).1 h)
  have hpos := orderOf_pos_of_ne_zero (φ g) hφ
  have hdvd := orderOf_dvd_card_sub_one (φ g) hφ
  have hφv : φ g = φv (XF.toVal g) := rfl
  generalize hk : orderOf (φ g) = k at *
  refine ⟨k, hpos, hdvd, ?_, ?_, ?_⟩
  · rw [xnpow_eq_one_iff, ← hφv, ← hk]; exact pow_orderOf_eq_one _
  · intro j hj0 hjk h
    rw [xnpow_eq_one_iff, ← hφv] at h
    exact pow_ne_one_of_lt_orderOf (by omega) (by omega) h
  · intro fuel hf
    have hN : max k 2 = (max k 2 - 2) + 2 := by omega
    have hcore : ∃ l, XF.cyclicGroup fuel g none = some l ∧ (∀ x ∈ l, XFp.canon3 x) ∧
        l.map XF.toVal = (List.range ((max k 2 - 2) + 2)).map (XFp.xnpow (XF.toVal g)) := by
      apply XFp.x_cyclicGroup_core g hg none _ fuel (by omega)
      · rw [XFp.xstop_iff g hg, ← hN]
        left
        rw [xnpow_eq_one_iff, ← hφv]
        rcases Nat.lt_or_ge k 2 with h | h
        · have h1 : orderOf (φ g) = 1 := by omega
          rw [orderOf_eq_one_iff] at h1
          rw [h1, one_pow]
        · rw [show max k 2 = k by omega, ← hk]; exact pow_orderOf_eq_one _
      · intro j hj
        rw [Bool.eq_false_iff, Ne, XFp.xstop_iff g hg]
        rintro (h | ⟨m, hm, _⟩)
        · rw [xnpow_eq_one_iff, ← hφv] at h
          exact pow_ne_one_of_lt_orderOf (by omega) (by omega) h
        · cases hm
    rw [← hN] at hcore
    obtain ⟨l, h1, h2, h3⟩ := hcore
    refine ⟨l, h1, h2, ?_, h3⟩
    simpa using congrArg List.length h3

end TF.XK
