import TF.Proofs.Prime
import TF.Proofs.XField
import TF.Spec.Field
import Mathlib.FieldTheory.Finite.Basic
import Mathlib.Algebra.Polynomial.SpecificDegree
import Mathlib.RingTheory.PrincipalIdealDomain
import Mathlib.Tactic.Ring
import Mathlib.Tactic.LinearCombination
import Mathlib.Tactic.ComputeDegree
/-!
The "shah polynomial" `X³ − X + 1` is irreducible over `F_p`, `p = 2^64 − 2^32 + 1`; consequently every non-zero
triple has a unique inverse for the product formula of `TF.XFp.mul_formula`.

Route for the absence of roots: for a root `r`, evaluation `(c0,c1,c2) ↦ c0 + c1 r + c2 r²` is multiplicative for
`TF.Spec.xmul`, hence `ev r (xpow (0,1,0) n) = r^n`.  The kernel evaluates `xpow (0,1,0) P`; Fermat gives `r^P = r`,
a quadratic relation for `r`, and an explicit Bézout identity with `r³ − r + 1 = 0` yields `1 = 0`.
-/
namespace TF.Shah
open TF.Gen TF.Spec

/-- the field `F_p` -/
abbrev F := ZMod 18446744069414584321

theorem P_cast : ((P : ℕ) : F) = 0 := ZMod.natCast_self 18446744069414584321

theorem P_num : (18446744069414584321 : F) = 0 := by
  exact_mod_cast ZMod.natCast_self 18446744069414584321

/-! ### casting the Nat-level spec operations to `F` -/

theorem cast_fadd (a b : ℕ) : ((fadd a b : ℕ) : F) = a + b := by
  unfold fadd; rw [P_val, ZMod.natCast_mod]; push_cast; rfl

theorem cast_fmul (a b : ℕ) : ((fmul a b : ℕ) : F) = a * b := by
  unfold fmul; rw [P_val, ZMod.natCast_mod]; push_cast; rfl

theorem cast_fsub (a b : ℕ) : ((fsub a b : ℕ) : F) = a - b := by
  unfold fsub
  have hb : b % P ≤ a + P := by
    have : b % P < P := Nat.mod_lt _ (by decide)
    omega
  rw [P_val] at *
  rw [ZMod.natCast_mod, Nat.cast_sub hb, Nat.cast_add, ZMod.natCast_mod, ZMod.natCast_self]
  ring

/-- evaluation of a triple at `t` -/
def ev (t : F) (x : X3) : F := (x.1 : F) + (x.2.1 : F) * t + (x.2.2 : F) * t^2

/-- the spec product is the polynomial product modulo `t³ − t + 1` -/
theorem ev_xmul (t : F) (x y : X3) :
    ev t x * ev t y = ev t (xmul x y)
      + (t^3 - t + 1) * (((x.2.2 : F) * y.2.1 + (x.2.1 : F) * y.2.2) + (x.2.2 : F) * y.2.2 * t) := by
  obtain ⟨c, b, a⟩ := x
  obtain ⟨f, e, d⟩ := y
  simp only [ev, xmul, cast_fadd, cast_fsub, cast_fmul]
  ring

theorem ev_xmul_root (r : F) (hr : r^3 - r + 1 = 0) (x y : X3) : ev r (xmul x y) = ev r x * ev r y := by
  rw [ev_xmul, hr, zero_mul, add_zero]

theorem ev_xone (t : F) : ev t xone = 1 := by simp [ev, xone]

theorem ev_xpow_root (r : F) (hr : r^3 - r + 1 = 0) (x : X3) (n : ℕ) : ev r (xpow x n) = (ev r x)^n := by
  induction n using Nat.strong_induction_on with
  | _ n ih =>
    cases n with
    | zero => rw [xpow, ev_xone, pow_zero]
    | succ e =>
      rw [xpow]
      have hlt : (e + 1) / 2 < e + 1 := by omega
      have hh := ih _ hlt
      have hs : ev r (xmul (xpow x ((e+1)/2)) (xpow x ((e+1)/2))) = (ev r x)^(2 * ((e+1)/2)) := by
        rw [ev_xmul_root r hr, hh, ← pow_add, two_mul]
      split
      · next h =>
        rw [ev_xmul_root r hr, hs, ← pow_succ]
        congr 1; omega
      · next h =>
        rw [hs]; congr 1; omega

/-! ### kernel evaluation of `xpow` through a fuel-indexed structural copy -/

def xpowF (a : X3) : ℕ → ℕ → X3
  | 0, _ => xone
  | f+1, n =>
    if n = 0 then xone else
    let h := xpowF a f (n / 2)
    let s := xmul h h
    if n % 2 = 1 then xmul s a else s

theorem xpow_eq_xpowF (a : X3) (f n : ℕ) (h : n < 2^f) : xpow a n = xpowF a f n := by
  induction f generalizing n with
  | zero =>
    have : n = 0 := by simpa using h
    subst this; rw [xpow, xpowF]
  | succ f ih =>
    cases n with
    | zero => rw [xpow, xpowF]; simp
    | succ e =>
      have hlt : (e + 1) / 2 < 2^f := by rw [pow_succ] at h; omega
      rw [xpow, xpowF, ih _ hlt]
      simp

/-- `X^p mod (X³ − X + 1)` -/
theorem xpow_X_P :
    xpow (0, 1, 0) P = (7831040667286096068, 10050274602728160328, 6700183068485440219) := by
  rw [xpow_eq_xpowF (0, 1, 0) 65 P (by decide)]
  decide +kernel

/-! ### no root -/

theorem shah_no_root : ∀ r : ZMod 18446744069414584321, r^3 - r + 1 ≠ 0 := by
  intro r hr
  have h1 : ev r (xpow (0, 1, 0) P) = r ^ P := by
    rw [ev_xpow_root r hr]; simp [ev]
  have hF : r ^ P = r := ZMod.pow_card r
  rw [xpow_X_P, hF] at h1
  simp only [ev] at h1
  push_cast at h1
  have hP := P_num
  have : (1 : F) = 0 := by
    linear_combination
      (15896837874617748425 + 12909963218832731643 * r) * hr
      + (17455428877415444409 + 15238614666038134874 * r + 7360253288463281919 * r^2) * h1
      - (7410205990259531116 + 15979300389275561833 * r + 17767106897924129658 * r^2
          + 9544994715852820864 * r^3 + 2673373917779464224 * r^4) * hP
  exact one_ne_zero this

/-! ### irreducibility -/

open Polynomial

theorem shah_natDegree : (X^3 - X + 1 : F[X]).natDegree = 3 := by compute_degree!

theorem shah_monic : (X^3 - X + 1 : F[X]).Monic := by monicity!

theorem shah_degree : (X^3 - X + 1 : F[X]).degree = 3 := by
  rw [degree_eq_natDegree shah_monic.ne_zero, shah_natDegree]; rfl

theorem shah_irreducible : Irreducible (X^3 - X + 1 : Polynomial (ZMod 18446744069414584321)) := by
  apply irreducible_of_degree_le_three_of_not_isRoot
  · rw [shah_natDegree]; decide
  · intro x hx
    apply shah_no_root x
    simpa [IsRoot] using hx

/-! ### polynomials of degree `< 3` -/

theorem quad_coeff_zero (a b c : F) : (C a + C b * X + C c * X^2 : F[X]).coeff 0 = a := by simp
theorem quad_coeff_one (a b c : F) : (C a + C b * X + C c * X^2 : F[X]).coeff 1 = b := by simp
theorem quad_coeff_two (a b c : F) : (C a + C b * X + C c * X^2 : F[X]).coeff 2 = c := by simp

theorem quad_degree_lt (a b c : F) : (C a + C b * X + C c * X^2 : F[X]).degree < 3 := by
  have : (C a + C b * X + C c * X^2 : F[X]).degree ≤ 2 := by compute_degree
  exact lt_of_le_of_lt this (by decide)

theorem quad_eq_zero_iff (a b c : F) : (C a + C b * X + C c * X^2 : F[X]) = 0 ↔ a = 0 ∧ b = 0 ∧ c = 0 := by
  constructor
  · intro h
    refine ⟨?_, ?_, ?_⟩
    · rw [← quad_coeff_zero a b c, h, coeff_zero]
    · rw [← quad_coeff_one a b c, h, coeff_zero]
    · rw [← quad_coeff_two a b c, h, coeff_zero]
  · rintro ⟨rfl, rfl, rfl⟩; simp

/-- every polynomial of degree `< 3` is `a + b X + c X²` -/
theorem eq_quad_of_degree_lt (q : F[X]) (hq : q.degree < 3) :
    q = C (q.coeff 0) + C (q.coeff 1) * X + C (q.coeff 2) * X^2 := by
  ext n
  match n with
  | 0 => rw [quad_coeff_zero]
  | 1 => rw [quad_coeff_one]
  | 2 => rw [quad_coeff_two]
  | n+3 =>
    have h3 : ((3 : ℕ) : WithBot ℕ) ≤ ((n + 3 : ℕ) : WithBot ℕ) := by exact_mod_cast Nat.le_add_left 3 n
    rw [coeff_eq_zero_of_degree_lt (lt_of_lt_of_le hq h3),
      coeff_eq_zero_of_degree_lt (lt_of_lt_of_le (quad_degree_lt _ _ _) h3)]

/-- a multiple of the cubic of degree `< 3` vanishes -/
theorem eq_zero_of_shah_dvd (q : F[X]) (hq : q.degree < 3) (hd : (X^3 - X + 1 : F[X]) ∣ q) : q = 0 :=
  eq_zero_of_dvd_of_degree_lt hd (by rw [shah_degree]; exact hq)

theorem quad_eq_zero_of_shah_dvd (a b c : F) (hd : (X^3 - X + 1 : F[X]) ∣ C a + C b * X + C c * X^2) :
    a = 0 ∧ b = 0 ∧ c = 0 :=
  (quad_eq_zero_iff a b c).1 (eq_zero_of_shah_dvd _ (quad_degree_lt a b c) hd)

/-! ### coprimality and inverses -/

theorem xfe_coprime (a b c : ZMod 18446744069414584321) (h : ¬ (a = 0 ∧ b = 0 ∧ c = 0)) :
    IsCoprime (C a + C b * X + C c * X^2) (X^3 - X + 1 : Polynomial (ZMod 18446744069414584321)) :=
  (shah_irreducible.coprime_iff_not_dvd.2 fun hd => h (quad_eq_zero_of_shah_dvd a b c hd)).symm

/-- every non-zero `a + b X + c X²` has an inverse of the same shape modulo the cubic -/
theorem xfe_inverse_exists (a b c : ZMod 18446744069414584321) (h : ¬ (a = 0 ∧ b = 0 ∧ c = 0)) :
    ∃ (a' b' c' : ZMod 18446744069414584321) (q : Polynomial (ZMod 18446744069414584321)),
      (C a + C b * X + C c * X^2) * (C a' + C b' * X + C c' * X^2) = 1 + (X^3 - X + 1) * q := by
  obtain ⟨u, v, huv⟩ := xfe_coprime a b c h
  have hmod := modByMonic_add_div u (X^3 - X + 1 : F[X])
  have hdeg : (u %ₘ (X^3 - X + 1 : F[X])).degree < 3 := by
    have := degree_modByMonic_lt u shah_monic
    rwa [shah_degree] at this
  have hi := eq_quad_of_degree_lt _ hdeg
  refine ⟨(u %ₘ (X^3 - X + 1 : F[X])).coeff 0, (u %ₘ (X^3 - X + 1 : F[X])).coeff 1,
    (u %ₘ (X^3 - X + 1 : F[X])).coeff 2, -v - (u /ₘ (X^3 - X + 1)) * (C a + C b * X + C c * X^2), ?_⟩
  rw [← hi]
  linear_combination huv + (C a + C b * X + C c * X^2) * hmod

/-- the inverse is unique modulo the cubic -/
theorem xfe_inverse_unique (a b c : ZMod 18446744069414584321) (h : ¬ (a = 0 ∧ b = 0 ∧ c = 0))
    (a₁ b₁ c₁ a₂ b₂ c₂ : ZMod 18446744069414584321) (q₁ q₂ : Polynomial (ZMod 18446744069414584321))
    (h₁ : (C a + C b * X + C c * X^2) * (C a₁ + C b₁ * X + C c₁ * X^2) = 1 + (X^3 - X + 1) * q₁)
    (h₂ : (C a + C b * X + C c * X^2) * (C a₂ + C b₂ * X + C c₂ * X^2) = 1 + (X^3 - X + 1) * q₂) :
    a₁ = a₂ ∧ b₁ = b₂ ∧ c₁ = c₂ := by
  have hd : (X^3 - X + 1 : F[X]) ∣ (C a + C b * X + C c * X^2) * (C (a₁ - a₂) + C (b₁ - b₂) * X + C (c₁ - c₂) * X^2) := by
    refine ⟨q₁ - q₂, ?_⟩
    simp only [C_sub]
    linear_combination h₁ - h₂
  have hd' := (xfe_coprime a b c h).symm.dvd_of_dvd_mul_left hd
  obtain ⟨ha, hb, hc⟩ := quad_eq_zero_of_shah_dvd _ _ _ hd'
  exact ⟨sub_eq_zero.1 ha, sub_eq_zero.1 hb, sub_eq_zero.1 hc⟩

/-! ### the same on coefficient triples, for the product formula of `TF.XFp.mul_formula` -/

/-- the product formula as an identity of polynomials -/
theorem quad_mul (a b c a' b' c' : F) :
    (C a + C b * X + C c * X^2) * (C a' + C b' * X + C c' * X^2)
      = (C (a * a' - c * b' - b * c') + C (b * a' + a * b' - c * c' + c * b' + b * c') * X
          + C (c * a' + b * b' + a * c' + c * c') * X^2)
        + (X^3 - X + 1) * (C (c * b' + b * c') + C (c * c') * X) := by
  simp only [C_add, C_sub, C_mul]
  ring

/-- a triple `(a', b', c')` is inverse to `(a, b, c)` modulo the cubic iff the three product-formula coefficients
    are `(1, 0, 0)` -/
theorem inverse_iff_coeffs (a b c a' b' c' : F) :
    (∃ q : F[X], (C a + C b * X + C c * X^2) * (C a' + C b' * X + C c' * X^2) = 1 + (X^3 - X + 1) * q)
      ↔ (a * a' - c * b' - b * c' = 1 ∧ b * a' + a * b' - c * c' + c * b' + b * c' = 0
          ∧ c * a' + b * b' + a * c' + c * c' = 0) := by
  constructor
  · rintro ⟨q, hq⟩
    rw [quad_mul] at hq
    have hd : (X^3 - X + 1 : F[X]) ∣ C (a * a' - c * b' - b * c' - 1)
        + C (b * a' + a * b' - c * c' + c * b' + b * c') * X + C (c * a' + b * b' + a * c' + c * c') * X^2 := by
      refine ⟨q - (C (c * b' + b * c') + C (c * c') * X), ?_⟩
      rw [C_sub (b := (1 : F)), C_1]
      linear_combination hq
    obtain ⟨h0, h1, h2⟩ := quad_eq_zero_of_shah_dvd _ _ _ hd
    exact ⟨sub_eq_zero.1 h0, h1, h2⟩
  · rintro ⟨h0, h1, h2⟩
    refine ⟨C (c * b' + b * c') + C (c * c') * X, ?_⟩
    rw [quad_mul, h0, h1, h2]
    simp

/-- **every non-zero triple has an inverse for the product formula** -/
theorem xfe_inverse_triple_exists (a b c : F) (h : ¬ (a = 0 ∧ b = 0 ∧ c = 0)) :
    ∃ a' b' c' : F, a * a' - c * b' - b * c' = 1 ∧ b * a' + a * b' - c * c' + c * b' + b * c' = 0
      ∧ c * a' + b * b' + a * c' + c * c' = 0 := by
  obtain ⟨a', b', c', q, hq⟩ := xfe_inverse_exists a b c h
  exact ⟨a', b', c', (inverse_iff_coeffs a b c a' b' c').1 ⟨q, hq⟩⟩

/-- **that inverse is unique** -/
theorem xfe_inverse_triple_unique (a b c : F) (h : ¬ (a = 0 ∧ b = 0 ∧ c = 0)) (a₁ b₁ c₁ a₂ b₂ c₂ : F)
    (h₁ : a * a₁ - c * b₁ - b * c₁ = 1 ∧ b * a₁ + a * b₁ - c * c₁ + c * b₁ + b * c₁ = 0
      ∧ c * a₁ + b * b₁ + a * c₁ + c * c₁ = 0)
    (h₂ : a * a₂ - c * b₂ - b * c₂ = 1 ∧ b * a₂ + a * b₂ - c * c₂ + c * b₂ + b * c₂ = 0
      ∧ c * a₂ + b * b₂ + a * c₂ + c * c₂ = 0) :
    a₁ = a₂ ∧ b₁ = b₂ ∧ c₁ = c₂ := by
  obtain ⟨q₁, hq₁⟩ := (inverse_iff_coeffs a b c a₁ b₁ c₁).2 h₁
  obtain ⟨q₂, hq₂⟩ := (inverse_iff_coeffs a b c a₂ b₂ c₂).2 h₂
  exact xfe_inverse_unique a b c h _ _ _ _ _ _ q₁ q₂ hq₁ hq₂

/-- pointwise form: for every `t` the product of the two quadratics is `1` plus an explicit multiple of `t³ − t + 1` -/
theorem xfe_inverse_pointwise (a b c : F) (h : ¬ (a = 0 ∧ b = 0 ∧ c = 0)) :
    ∃ a' b' c' : F, ∀ t : F, (a + b * t + c * t^2) * (a' + b' * t + c' * t^2)
      = 1 + (t^3 - t + 1) * ((c * b' + b * c') + c * c' * t) := by
  obtain ⟨a', b', c', h0, h1, h2⟩ := xfe_inverse_triple_exists a b c h
  refine ⟨a', b', c', fun t => ?_⟩
  rw [TF.XFp.mul_formula, h0, h1, h2]
  ring

/-- no zero divisors for the product formula -/
theorem xfe_no_zero_divisors (a b c a' b' c' : F)
    (h0 : a * a' - c * b' - b * c' = 0) (h1 : b * a' + a * b' - c * c' + c * b' + b * c' = 0)
    (h2 : c * a' + b * b' + a * c' + c * c' = 0) :
    (a = 0 ∧ b = 0 ∧ c = 0) ∨ (a' = 0 ∧ b' = 0 ∧ c' = 0) := by
  by_cases h : a = 0 ∧ b = 0 ∧ c = 0
  · exact Or.inl h
  · right
    have hd : (X^3 - X + 1 : F[X]) ∣ (C a + C b * X + C c * X^2) * (C a' + C b' * X + C c' * X^2) := by
      refine ⟨C (c * b' + b * c') + C (c * c') * X, ?_⟩
      rw [quad_mul, h0, h1, h2]; simp
    exact quad_eq_zero_of_shah_dvd _ _ _ ((xfe_coprime a b c h).symm.dvd_of_dvd_mul_left hd)

/-! ### the same for the executable spec `TF.Spec.xmul` on canonical triples -/

/-- canonical triples -/
def canon3 (x : X3) : Prop := x.1 < P ∧ x.2.1 < P ∧ x.2.2 < P

theorem cast_inj_of_lt {n m : ℕ} (hn : n < P) (hm : m < P) (h : (n : F) = (m : F)) : n = m := by
  have := (ZMod.natCast_eq_natCast_iff' n m 18446744069414584321).1 h
  rw [P_val] at hn hm
  rwa [Nat.mod_eq_of_lt hn, Nat.mod_eq_of_lt hm] at this

theorem fadd_lt (a b : ℕ) : fadd a b < P := Nat.mod_lt _ (by decide)
theorem fsub_lt (a b : ℕ) : fsub a b < P := Nat.mod_lt _ (by decide)

theorem xmul_canon (x y : X3) : canon3 (xmul x y) := by
  obtain ⟨c, b, a⟩ := x
  obtain ⟨f, e, d⟩ := y
  exact ⟨fsub_lt _ _, fsub_lt _ _, fadd_lt _ _⟩

/-- the coefficients of the spec product, in `F_p`, are those of the product formula -/
theorem cast_xmul (x y : X3) :
    ((xmul x y).1 : F) = (x.1 : F) * y.1 - (x.2.2 : F) * y.2.1 - (x.2.1 : F) * y.2.2 ∧
    ((xmul x y).2.1 : F) = (x.2.1 : F) * y.1 + (x.1 : F) * y.2.1 - (x.2.2 : F) * y.2.2
        + (x.2.2 : F) * y.2.1 + (x.2.1 : F) * y.2.2 ∧
    ((xmul x y).2.2 : F) = (x.2.2 : F) * y.1 + (x.2.1 : F) * y.2.1 + (x.1 : F) * y.2.2 + (x.2.2 : F) * y.2.2 := by
  obtain ⟨c, b, a⟩ := x
  obtain ⟨f, e, d⟩ := y
  simp only [xmul, cast_fadd, cast_fsub, cast_fmul]
  refine ⟨?_, ?_, ?_⟩ <;> first | trivial | ring

theorem xmul_eq_xone_iff (x y : X3) :
    xmul x y = xone ↔
      ((x.1 : F) * y.1 - (x.2.2 : F) * y.2.1 - (x.2.1 : F) * y.2.2 = 1 ∧
       (x.2.1 : F) * y.1 + (x.1 : F) * y.2.1 - (x.2.2 : F) * y.2.2 + (x.2.2 : F) * y.2.1 + (x.2.1 : F) * y.2.2 = 0 ∧
       (x.2.2 : F) * y.1 + (x.2.1 : F) * y.2.1 + (x.1 : F) * y.2.2 + (x.2.2 : F) * y.2.2 = 0) := by
  obtain ⟨h0, h1, h2⟩ := cast_xmul x y
  obtain ⟨l0, l1, l2⟩ := xmul_canon x y
  rw [← h0, ← h1, ← h2]
  constructor
  · intro h; rw [h]; simp [xone]
  · rintro ⟨e0, e1, e2⟩
    have g0 : (xmul x y).1 = 1 := cast_inj_of_lt l0 (by decide) (by rw [e0]; simp)
    have g1 : (xmul x y).2.1 = 0 := cast_inj_of_lt l1 (by decide) (by rw [e1]; simp)
    have g2 : (xmul x y).2.2 = 0 := cast_inj_of_lt l2 (by decide) (by rw [e2]; simp)
    exact Prod.ext g0 (Prod.ext g1 g2)

theorem cast_triple_ne_zero (x : X3) (hx : canon3 x) (hnz : x ≠ xzero) :
    ¬ ((x.1 : F) = 0 ∧ (x.2.1 : F) = 0 ∧ (x.2.2 : F) = 0) := by
  rintro ⟨h0, h1, h2⟩
  obtain ⟨l0, l1, l2⟩ := hx
  apply hnz
  exact Prod.ext (cast_inj_of_lt l0 (by decide) (by rw [h0]; simp [xzero]))
    (Prod.ext (cast_inj_of_lt l1 (by decide) (by rw [h1]; simp [xzero]))
      (cast_inj_of_lt l2 (by decide) (by rw [h2]; simp [xzero])))

/-- **every non-zero canonical triple has a canonical inverse for `TF.Spec.xmul`** -/
theorem spec_inverse_exists (x : X3) (hx : canon3 x) (hnz : x ≠ xzero) :
    ∃ y : X3, canon3 y ∧ xmul x y = xone := by
  obtain ⟨a', b', c', h⟩ := xfe_inverse_triple_exists _ _ _ (cast_triple_ne_zero x hx hnz)
  have lt (v : F) : v.val < P := ZMod.val_lt v
  refine ⟨(a'.val, b'.val, c'.val), ⟨lt _, lt _, lt _⟩, ?_⟩
  rw [xmul_eq_xone_iff]
  simpa only [ZMod.natCast_zmod_val] using h

/-- **and it is unique among canonical triples** -/
theorem spec_inverse_unique (x y₁ y₂ : X3) (hx : canon3 x) (hnz : x ≠ xzero) (h₁ : canon3 y₁) (h₂ : canon3 y₂)
    (e₁ : xmul x y₁ = xone) (e₂ : xmul x y₂ = xone) : y₁ = y₂ := by
  obtain ⟨g0, g1, g2⟩ := xfe_inverse_triple_unique _ _ _ (cast_triple_ne_zero x hx hnz) _ _ _ _ _ _
    ((xmul_eq_xone_iff x y₁).1 e₁) ((xmul_eq_xone_iff x y₂).1 e₂)
  exact Prod.ext (cast_inj_of_lt h₁.1 h₂.1 g0)
    (Prod.ext (cast_inj_of_lt h₁.2.1 h₂.2.1 g1) (cast_inj_of_lt h₁.2.2 h₂.2.2 g2))

end TF.Shah
