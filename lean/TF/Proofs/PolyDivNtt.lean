import TF.Proofs.PolyDiv
import Mathlib.Algebra.Polynomial.AlgebraMap
/-!
Helper lemmas for property C09, evaluation-domain strategies: `clean_divide` over a field extension `L/K`
(for twenty-first: `XFieldElement` over `BFieldElement`), given that `ntt` is the DFT (`NttDft`, property C06).
-/
open Polynomial

namespace TF.Proofs.PolyD
open TF TF.Model.Poly TF.Model.PolyD
open Classical

section clean
variable {K : Type} [Field K] (root : Nat → Option K)
variable {L : Type} [Field L] [Algebra K L] (rootL : Nat → Option L)
local notation "FK" => FieldOps.ofField K root
local notation "FL" => FieldOps.ofField L rootL

/-! ### Montgomery batch inversion -/

theorem batchBack_spec (l : List L) (hl : ∀ x ∈ l, x ≠ 0) (acc : L) (hacc : acc ≠ 0) :
    batchBack FL (l.zip (prefixProducts FL l acc).1) ((prefixProducts FL l acc).2)⁻¹
      = (l.map (fun x => x⁻¹), acc⁻¹) := by
  induction l generalizing acc with
  | nil => simp [prefixProducts, batchBack]
  | cons x xs ih =>
    have hx : x ≠ 0 := hl x (by simp)
    have hxs : ∀ y ∈ xs, y ≠ 0 := fun y hy => hl y (by simp [hy])
    have := ih hxs (acc * x) (mul_ne_zero hacc hx)
    simp only [prefixProducts, FieldOps.ofField_mul, List.zip_cons_cons, batchBack, this, List.map_cons]
    congr 1
    · congr 1; field_simp
    · field_simp

/-- `batch_inversion` of non-zero elements is element-wise inversion -/
theorem batchInversion_spec (l : List L) (hl : ∀ x ∈ l, x ≠ 0) :
    batchInversion FL l = some (l.map (fun x => x⁻¹)) := by
  unfold batchInversion
  have h : l.any (FL).isZero = false := by
    rw [List.any_eq_false]
    intro x hx
    rw [FieldOps.ofField_isZero]
    exact hl x hx
  rw [h]
  simp only [Bool.false_eq_true, if_false, FieldOps.ofField_inv, FieldOps.ofField_one]
  rw [batchBack_spec rootL l hl 1 one_ne_zero]

omit [Field K] [Field L] [Algebra K L] in
theorem mapM_unlift (lift : K → L) (unlift : L → Option K) (h : ∀ k, unlift (lift k) = some k) (l : List K) :
    (l.map lift).mapM unlift = some l := by
  induction l with
  | nil => rfl
  | cons k ks ih => simp [List.mapM_cons, h, ih]

/-! ### scaling into the extension field and back -/

/-- `scale(offset)` of a base-field polynomial by an extension-field element: `P(X) ↦ P(x·X)` over `L` -/
theorem denote_scaleAux_lift (p : List K) (x pw : L) :
    denote (scaleAux (· * ·) (fun (c : K) (q : L) => algebraMap K L c * q) x pw p)
      = C pw * ((denote p).map (algebraMap K L)).comp (C x * X) := by
  induction p generalizing pw with
  | nil => simp [scaleAux]
  | cons c cs ih =>
    simp only [scaleAux, denote_cons, ih, Polynomial.map_add, Polynomial.map_mul, map_C, map_X, add_comp,
      mul_comp, C_comp, X_comp, C_mul]
    ring

theorem length_scaleAux {α σ γ : Type} (mulS : σ → σ → σ) (mul : α → σ → γ) (x pw : σ) (p : List α) :
    (scaleAux mulS mul x pw p).length = p.length := by
  induction p generalizing pw with
  | nil => rfl
  | cons c cs ih => simp [scaleAux, ih]

/-- unscaling the scaled lift gives the lift back, coefficient by coefficient -/
theorem scaleAux_unscale (q : List K) (x : L) (hx : x ≠ 0) (pw pw' : L) (h : pw * pw' = 1) :
    scaleAux (· * ·) (· * ·) x⁻¹ pw' (scaleAux (· * ·) (fun (c : K) (r : L) => algebraMap K L c * r) x pw q)
      = q.map (algebraMap K L) := by
  induction q generalizing pw pw' with
  | nil => rfl
  | cons c cs ih =>
    simp only [scaleAux, List.map_cons]
    rw [ih (pw * x) (pw' * x⁻¹) (by field_simp; linear_combination h)]
    congr 1
    rw [mul_assoc, h, mul_one]

/-! ### the transform as evaluation -/

variable {N : NttOps L} {ω : Nat → L}

theorem ntt_length (hN : NttDft N ω) (l : List L) (hp : isPowerOfTwo l.length = true) :
    (N.ntt l).length = l.length := by
  rw [hN.ntt_eval l hp]; simp

theorem ntt_getElem (hN : NttDft N ω) (l : List L) (hp : isPowerOfTwo l.length = true) (i : Nat)
    (hi : i < (N.ntt l).length) : (N.ntt l)[i] = (denote l).eval (ω l.length ^ i) := by
  have h := hN.ntt_eval l hp
  simp [h]

theorem resize_spec' (l : List L) (n : Nat) (h : (denote l).degree < n) :
    (resize FL l n).length = n ∧ denote (resize FL l n) = denote l := by
  unfold resize
  refine ⟨by simp; omega, ?_⟩
  exact (denote_append_zeros (l.take n) (n - l.length)).trans (denote_take_of_degree_lt _ _ h)

theorem resize_spec'' (l : List K) (n : Nat) (h : (denote l).degree < n) :
    (resize FK l n).length = n ∧ denote (resize FK l n) = denote l := by
  unfold resize
  refine ⟨by simp; omega, ?_⟩
  exact (denote_append_zeros (l.take n) (n - l.length)).trans (denote_take_of_degree_lt _ _ h)

/-! ### the convolution property follows from "ntt = DFT" -/

/-- the first `n` coefficients of a polynomial as a storage -/
noncomputable def coeffList (q : L[X]) (n : Nat) : List L := List.ofFn (fun i : Fin n => q.coeff i)

theorem length_coeffList (q : L[X]) (n : Nat) : (coeffList q n).length = n := by simp [coeffList]

theorem denote_coeffList (q : L[X]) (n : Nat) (h : q.degree < n) : denote (coeffList q n) = q := by
  ext i
  rw [coeff_denote]
  by_cases hi : i < n
  · rw [getD_of_lt _ _ _ (by rw [length_coeffList]; exact hi)]
    simp [coeffList]
  · rw [getD_of_ge _ _ _ (by rw [length_coeffList]; omega)]
    symm
    apply coeff_eq_zero_of_degree_lt
    exact lt_of_lt_of_le h (by exact_mod_cast (by omega : n ≤ i))

/-- `NttDft` (what property C06 establishes) implies the convolution property used by `fast_reduce` -/
theorem nttConv_of_nttDft (hN : NttDft N ω) : NttConv N where
  length_ntt := fun u hu => ntt_length hN u hu
  conv := by
    intro u v huv hu hdeg
    set w := coeffList (denote u * denote v) u.length with hw
    have hwl : w.length = u.length := length_coeffList _ _
    have hwd : denote w = denote u * denote v := denote_coeffList _ _ hdeg
    have hz : List.zipWith (· * ·) (N.ntt u) (N.ntt v) = N.ntt w := by
      apply List.ext_getElem
      · rw [List.length_zipWith, ntt_length hN u hu, ntt_length hN v (by rw [← huv]; exact hu),
          ntt_length hN w (by rw [hwl]; exact hu), hwl, ← huv]; simp
      · intro i h1 h2
        rw [List.getElem_zipWith, ntt_getElem hN u hu, ntt_getElem hN v (by rw [← huv]; exact hu),
          ntt_getElem hN w (by rw [hwl]; exact hu), hwd, hwl, ← huv, eval_mul]
    rw [hz, hN.intt_ntt w (by rw [hwl]; exact hu)]
    exact ⟨hwl, hwd⟩

/-! ### `clean_divide` -/

/-- removing the common root 0: never fails for a clean division, and a quotient of the stripped pair is a quotient
    of the original pair -/
theorem cleanDivideStrip_spec (a d : List K) (hd : denote d ≠ 0) (hdvd : denote d ∣ denote a) :
    ∃ a1 d1, cleanDivideStrip FK a d = some (a1, d1) ∧ denote d1 ≠ 0 ∧ denote d1 ∣ denote a1 ∧
      (∀ q : K[X], q * denote d1 = denote a1 → q * denote d = denote a) := by
  cases d with
  | nil => exact absurd rfl hd
  | cons d0 dt =>
    by_cases hd0 : d0 = 0
    · subst hd0
      have hdX : denote ((0 : K) :: dt) = X * denote dt := by simp
      have hdt : denote dt ≠ 0 := by
        intro h; apply hd; rw [hdX, h, mul_zero]
      have hz : (FK).isZero (0 : K) = true := (FieldOps.ofField_isZero root 0).2 rfl
      cases a with
      | nil =>
        refine ⟨[], dt, by simp [cleanDivideStrip, hz], hdt, by simp, ?_⟩
        intro q hq
        rw [hdX, ← mul_assoc, mul_comm q X, mul_assoc, hq]; simp
      | cons a0 at' =>
        have ha0 : a0 = 0 := by
          obtain ⟨k, hk⟩ := hdvd
          have := congrArg (fun p => p.coeff 0) hk
          simp only [denote_cons, coeff_add, coeff_C_zero, mul_coeff_zero, coeff_X_zero, zero_mul, add_zero,
            map_zero, zero_add] at this
          exact this
        subst ha0
        have haX : denote ((0 : K) :: at') = X * denote at' := by simp
        refine ⟨at', dt, by simp [cleanDivideStrip, hz], hdt, ?_, ?_⟩
        · rw [hdX, haX] at hdvd
          exact (mul_dvd_mul_iff_left X_ne_zero).1 hdvd
        · intro q hq
          rw [hdX, haX, ← hq]; ring
    · have hz : ¬ (FK).isZero d0 = true := by rw [FieldOps.ofField_isZero]; exact hd0
      exact ⟨a, d0 :: dt, by simp [cleanDivideStrip, hz], hd, hdvd, fun q hq => hq⟩

/-- `P(X) ↦ P(x·X)` over the extension field -/
noncomputable def sc (x : L) (p : K[X]) : L[X] := (p.map (algebraMap K L)).comp (C x * X)

theorem sc_mul (x : L) (p q : K[X]) : sc x (p * q) = sc x p * sc x q := by
  unfold sc; rw [Polynomial.map_mul, mul_comp]

theorem sc_zero (x : L) : sc x (0 : K[X]) = 0 := by unfold sc; simp

theorem degree_sc_lt (x : L) (p : K[X]) (n : Nat) (h : p.degree < n) : (sc x p).degree < (n : WithBot ℕ) := by
  by_cases hp : p = 0
  · rw [hp, sc_zero, degree_zero]; exact WithBot.bot_lt_coe _
  · rw [degree_eq_natDegree hp] at h
    have h1 : p.natDegree < n := by exact_mod_cast h
    have h2 : (sc x p).natDegree ≤ p.natDegree := by
      unfold sc
      refine le_trans natDegree_comp_le ?_
      have ha : (p.map (algebraMap K L)).natDegree ≤ p.natDegree := natDegree_map_le
      have hb : (C x * X : L[X]).natDegree ≤ 1 := by
        refine le_trans natDegree_mul_le ?_
        simp
      calc (p.map (algebraMap K L)).natDegree * (C x * X : L[X]).natDegree
          ≤ p.natDegree * 1 := Nat.mul_le_mul ha hb
        _ = p.natDegree := Nat.mul_one _
    refine lt_of_le_of_lt degree_le_natDegree ?_
    exact_mod_cast (by omega : (sc x p).natDegree < n)

theorem denote_scaleG_lift (p : List K) (x : L) :
    denote (scaleG (FL).one (FL).mul (fun (c : K) (pw : L) => algebraMap K L c * pw) p x) = sc x (denote p) := by
  unfold scaleG sc
  rw [FieldOps.ofField_mul_fn, denote_scaleAux_lift]
  simp

/-- the evaluation-domain part of `clean_divide` returns the exact quotient of a clean division — whether or not the
    divisor vanishes on the evaluation coset, for every non-zero offset -/
theorem cleanDivideNtt_spec (E : ExtOps K L) (hN : NttDft N ω)
    (hlift : ∀ k, E.lift k = algebraMap K L k) (hunlift : ∀ k, E.unlift (algebraMap K L k) = some k)
    (hoff : E.offset ≠ 0) (a1 d1 : List K) (hd : denote d1 ≠ 0) (hdvd : denote d1 ∣ denote a1) :
    ∃ q, cleanDivideNtt FK FL E N a1 d1 = some q ∧ denote q * denote d1 = denote a1 := by
  obtain ⟨qK, hq1, hq2⟩ := div_spec root a1 d1 hd
  have hqd : denote qK * denote d1 = denote a1 := by
    rw [hq2, mul_comm]; exact EuclideanDomain.mul_div_cancel' hd hdvd
  unfold cleanDivideNtt
  set x := E.offset with hx
  have hliftfn : (fun (c : K) (pw : L) => (FL).mul (E.lift c) pw) = fun c pw => algebraMap K L c * pw := by
    funext c pw; rw [hlift]; rfl
  simp only [hliftfn]
  set order := nextPowerOfTwo (degSucc FK a1) with horder
  have hpow : isPowerOfTwo order = true := isPowerOfTwo_nextPowerOfTwo _
  have hA1deg : (denote a1).degree < (order : WithBot ℕ) :=
    lt_of_lt_of_le (degree_lt_degSucc root a1) (by exact_mod_cast le_nextPowerOfTwo _)
  set aXl := scaleG (FL).one (FL).mul (fun (c : K) (pw : L) => algebraMap K L c * pw) a1 x with haXl
  set dXl := scaleG (FL).one (FL).mul (fun (c : K) (pw : L) => algebraMap K L c * pw) d1 x with hdXl
  have hA : denote aXl = sc x (denote a1) := denote_scaleG_lift rootL a1 x
  have hD : denote dXl = sc x (denote d1) := denote_scaleG_lift rootL d1 x
  obtain ⟨hal, had⟩ := resize_spec' rootL aXl order (by rw [hA]; exact degree_sc_lt x _ _ hA1deg)
  have hdl : (resize FL dXl order).length = order := by unfold resize; simp; omega
  have hca : nttChecked N (resize FL aXl order) = some (N.ntt (resize FL aXl order)) := by
    unfold nttChecked; rw [hal, hpow]; simp
  have hcd : nttChecked N (resize FL dXl order) = some (N.ntt (resize FL dXl order)) := by
    unfold nttChecked; rw [hdl, hpow]; simp
  rw [hca, hcd]
  simp only
  split
  · exact ⟨qK, hq1, hqd⟩
  · next hany =>
    set aE := N.ntt (resize FL aXl order) with haE
    set dE := N.ntt (resize FL dXl order) with hdE
    have hnz : ∀ y ∈ dE, y ≠ 0 := by
      intro y hy h0
      apply hany
      rw [List.any_eq_true]
      exact ⟨y, hy, (FieldOps.ofField_isZero rootL y).2 h0⟩
    rw [batchInversion_spec rootL dE hnz]
    simp only
    have hael : aE.length = order := by rw [haE, ntt_length hN _ (by rw [hal]; exact hpow), hal]
    have hdel : dE.length = order := by rw [hdE, ntt_length hN _ (by rw [hdl]; exact hpow), hdl]
    -- the quotient as a list of `order` coefficients over `L`
    have hQdeg : (denote qK).degree < (order : WithBot ℕ) := by
      by_cases hQ0 : denote qK = 0
      · rw [hQ0, degree_zero]; exact WithBot.bot_lt_coe _
      · refine lt_of_le_of_lt ?_ hA1deg
        rw [← hqd, degree_mul]
        have : (0 : WithBot ℕ) ≤ (denote d1).degree := zero_le_degree_iff.2 hd
        calc (denote qK).degree = (denote qK).degree + 0 := by simp
          _ ≤ (denote qK).degree + (denote d1).degree := by gcongr
    obtain ⟨hql, hqden⟩ := resize_spec'' root qK order hQdeg
    set lq := scaleAux (· * ·) (fun (c : K) (r : L) => algebraMap K L c * r) x 1 (resize FK qK order) with hlq
    have hlql : lq.length = order := by rw [hlq, length_scaleAux, hql]
    have hlqd : denote lq = sc x (denote qK) := by
      rw [hlq, denote_scaleAux_lift, hqden]; unfold sc; simp
    have hzip : List.zipWith (FL).mul aE (dE.map (fun y => y⁻¹)) = N.ntt lq := by
      apply List.ext_getElem
      · rw [List.length_zipWith, List.length_map, hael, hdel, ntt_length hN _ (by rw [hlql]; exact hpow), hlql]
        simp
      · intro i h1 h2
        have hi : i < order := by
          rw [List.length_zipWith, List.length_map, hael, hdel] at h1; simpa using h1
        rw [List.getElem_zipWith, List.getElem_map, ntt_getElem hN lq (by rw [hlql]; exact hpow)]
        have ea : aE[i]'(by rw [hael]; exact hi) = (sc x (denote a1)).eval (ω order ^ i) := by
          have := ntt_getElem hN (resize FL aXl order) (by rw [hal]; exact hpow) i (by rw [← haE, hael]; exact hi)
          rw [had, hA, hal] at this
          exact this
        have ed : dE[i]'(by rw [hdel]; exact hi) = (denote (resize FL dXl order)).eval (ω order ^ i) := by
          have := ntt_getElem hN (resize FL dXl order) (by rw [hdl]; exact hpow) i (by rw [← hdE, hdel]; exact hi)
          rw [hdl] at this
          exact this
        have hdne : dE[i]'(by rw [hdel]; exact hi) ≠ 0 := hnz _ (List.getElem_mem _)
        rw [hlql, hlqd]
        show aE[i] * (dE[i])⁻¹ = _
        by_cases hA0 : denote a1 = 0
        · have hQ0 : denote qK = 0 := by
            rcases mul_eq_zero.1 (hqd.trans hA0) with h | h
            · exact h
            · exact absurd h hd
          rw [ea, hA0, hQ0, sc_zero]; simp
        · have hD1deg : (denote d1).degree < (order : WithBot ℕ) := by
            refine lt_of_le_of_lt ?_ hA1deg
            have hQ0 : denote qK ≠ 0 := by
              intro h; apply hA0; rw [← hqd, h, zero_mul]
            rw [← hqd, degree_mul]
            have : (0 : WithBot ℕ) ≤ (denote qK).degree := zero_le_degree_iff.2 hQ0
            calc (denote d1).degree = 0 + (denote d1).degree := by simp
              _ ≤ (denote qK).degree + (denote d1).degree := by gcongr
          obtain ⟨_, hdd⟩ := resize_spec' rootL dXl order (by rw [hD]; exact degree_sc_lt x _ _ hD1deg)
          rw [hdd, hD] at ed
          have hprod : (sc x (denote a1)).eval (ω order ^ i)
              = (sc x (denote qK)).eval (ω order ^ i) * (sc x (denote d1)).eval (ω order ^ i) := by
            rw [← hqd, sc_mul, eval_mul]
          rw [ea, hprod, ← ed]
          field_simp
    rw [hzip]
    have hci : inttChecked N (N.ntt lq) = some (N.intt (N.ntt lq)) := by
      unfold inttChecked
      rw [ntt_length hN _ (by rw [hlql]; exact hpow), hlql, hpow]; simp
    rw [hci, hN.intt_ntt lq (by rw [hlql]; exact hpow)]
    simp only
    have hqs : scale FL lq ((FL).inv x) = (resize FK qK order).map (algebraMap K L) := by
      unfold scale scaleG
      rw [FieldOps.ofField_mul_fn, hlq]
      exact scaleAux_unscale (resize FK qK order) x hoff 1 1 (by simp)
    rw [hqs, mapM_unlift (algebraMap K L) E.unlift hunlift]
    exact ⟨_, rfl, by rw [hqden]; exact hqd⟩

/-- **`clean_divide`** (with the repairs F9 and F11) for every extension `L/K`, every transform pair over `L` that is
    the DFT, every non-zero offset, every cut-off, every non-zero divisor — with or without roots on the evaluation
    coset, with or without factors `X^k`, any storage — and every dividend it divides (incl. zero): no panic, and
    the result is the exact quotient -/
theorem cleanDivide_spec (E : ExtOps K L) (hN : NttDft N ω)
    (hlift : ∀ k, E.lift k = algebraMap K L k) (hunlift : ∀ k, E.unlift (algebraMap K L k) = some k)
    (hoff : E.offset ≠ 0) (cutoff : Nat) (a d : List K) (hd : denote d ≠ 0) (hdvd : denote d ∣ denote a) :
    ∃ q, cleanDivide FK FL E N cutoff a d = some q ∧ denote q * denote d = denote a := by
  unfold cleanDivide
  split
  · obtain ⟨q, h1, h2⟩ := div_spec root a d hd
    refine ⟨q, h1, ?_⟩
    rw [h2, mul_comm]; exact EuclideanDomain.mul_div_cancel' hd hdvd
  · obtain ⟨a1, d1, s1, s2, s3, s4⟩ := cleanDivideStrip_spec root a d hd hdvd
    rw [s1]
    simp only
    obtain ⟨q, h1, h2⟩ := cleanDivideNtt_spec root rootL E hN hlift hunlift hoff a1 d1 s2 s3
    exact ⟨q, h1, s4 _ h2⟩

end clean
end TF.Proofs.PolyD
