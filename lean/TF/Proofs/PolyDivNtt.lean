import TF.Proofs.PolyDiv
import Mathlib.Algebra.Polynomial.AlgebraMap
/-!
Helper lemmas for property C09, evaluation-domain strategies: `clean_divide` over a field extension `L/K`
(for twenty-first: `XFieldElement` over `BFieldElement`), given that `ntt` is the DFT (`NttDft`, property C06).
-/
open Polynomial

namespace TF.Proofs.PolyD
open TF TF.Model.Poly TF.Model.PolyD
open Classical

section clean
variable {K : Type} [Field K] (root : Nat → Option K)
variable {L : Type} [Field L] [Algebra K L] (rootL : Nat → Option L)
local notation "FK" => FieldOps.ofField K root
local notation "FL" => FieldOps.ofField L rootL

/-! ### Montgomery batch inversion -/

theorem batchBack_spec (l : List L) (hl : ∀ x ∈ l, x ≠ 0) (acc : L) (hacc : acc ≠ 0) :
    batchBack FL (l.zip (prefixProducts FL l acc).1) ((prefixProducts FL l acc).2)⁻¹
      = (l.map (fun x => x⁻¹), acc⁻¹) := by
  induction l generalizing acc with
  | nil => simp [prefixProducts, batchBack]
  | cons x xs ih =>
    have hx : x ≠ 0 := hl x (by simp)
    have hxs : ∀ y ∈ xs, y ≠ 0 := fun y hy => hl y (by simp [hy])
    have := ih hxs (acc * x) (mul_ne_zero hacc hx)
    simp only [prefixProducts, FieldOps.ofField_mul, List.zip_cons_cons, batchBack, this, List.map_cons]
    congr 1
    · congr 1; field_simp
    · field_simp

/-- `batch_inversion` of non-zero elements is element-wise inversion -/
theorem batchInversion_spec (l : List L) (hl : ∀ x ∈ l, x ≠ 0) :
    batchInversion FL l = some (l.map (fun x => x⁻¹)) := by
  unfold batchInversion
  have h : l.any (FL).isZero = false := by
    rw [List.any_eq_false]
    intro x hx
    rw [FieldOps.ofField_isZero]
    exact hl x hx
  rw [h]
  simp only [Bool.false_eq_true, if_false, FieldOps.ofField_inv, FieldOps.ofField_one]
  rw [batchBack_spec rootL l hl 1 one_ne_zero]

omit [Field K] [Field L] [Algebra K L] in
theorem mapM_unlift (lift : K → L) (unlift : L → Option K) (h : ∀ k, unlift (lift k) = some k) (l : List K) :
    (l.map lift).mapM unlift = some l := by
  induction l with
  | nil => rfl
  | cons k ks ih => simp [List.mapM_cons, h, ih]

/-! ### scaling into the extension field and back -/

/-- `scale(offset)` of a base-field polynomial by an extension-field element: `P(X) ↦ P(x·X)` over `L` -/
theorem denote_scaleAux_lift (p : List K) (x pw : L) :
    denote (scaleAux (· * ·) (fun (c : K) (q : L) => algebraMap K L c * q) x pw p)
      = C pw * ((denote p).map (algebraMap K L)).comp (C x * X) := by
  induction p generalizing pw with
  | nil => simp [scaleAux]
  | cons c cs ih =>
    simp only [scaleAux, denote_cons, ih, Polynomial.map_add, Polynomial.map_mul, map_C, map_X, add_comp,
      mul_comp, C_comp, X_comp, C_mul]
    ring

theorem length_scaleAux {α σ γ : Type} (mulS : σ → σ → σ) (mul : α → σ → γ) (x pw : σ) (p : List α) :
    (scaleAux mulS mul x pw p).length = p.length := by
  induction p generalizing pw with
  | nil => rfl
  | cons c cs ih => simp [scaleAux, ih]

/-- unscaling the scaled lift gives the lift back, coefficient by coefficient -/
theorem scaleAux_unscale (q : List K) (x : L) (hx : x ≠ 0) (pw pw' : L) (h : pw * pw' = 1) :
    scaleAux (· * ·) (· * ·) x⁻¹ pw' (scaleAux (· * ·) (fun (c : K) (r : L) => algebraMap K L c * r) x pw q)
      = q.map (algebraMap K L) := by
  induction q generalizing pw pw' with
  | nil => rfl
  | cons c cs ih =>
    simp only [scaleAux, List.map_cons]
    rw [ih (pw * x) (pw' * x⁻¹) (by field_simp; linear_combination h)]
    congr 1
    rw [mul_assoc, h, mul_one]

/-! ### the transform as evaluation -/

variable {N : NttOps L} {ω : Nat → L}

theorem ntt_length (hN : NttDft N ω) (l : List L) (hp : isPowerOfTwo l.length = true) :
    (N.ntt l).length = l.length := by
  rw [hN.ntt_eval l hp]; simp

theorem ntt_getElem (hN : NttDft N ω) (l : List L) (hp : isPowerOfTwo l.length = true) (i : Nat)
    (hi : i < (N.ntt l).length) : (N.ntt l)[i] = (denote l).eval (ω l.length ^ i) := by
  have h := hN.ntt_eval l hp
  simp [h]

theorem resize_spec' (l : List L) (n : Nat) (h : (denote l).degree < n) :
    (resize FL l n).length = n ∧ denote (resize FL l n) = denote l := by
  unfold resize
  refine ⟨by simp; omega, ?_⟩
  exact (denote_append_zeros (l.take n) (n - l.length)).trans (denote_take_of_degree_lt _ _ h)

theorem resize_spec'' (l : List K) (n : Nat) (h : (denote l).degree < n) :
    (resize FK l n).length = n ∧ denote (resize FK l n) = denote l := by
  unfold resize
  refine ⟨by simp; omega, ?_⟩
  exact (denote_append_zeros (l.take n) (n - l.length)).trans (denote_take_of_degree_lt _ _ h)

/-! ### the convolution property follows from "ntt = DFT" -/

/-- the first `n` coefficients of a polynomial as a storage -/
noncomputable def coeffList (q : L[X]) (n : Nat) : List L := List.ofFn (fun i : Fin n => q.coeff i)

theorem length_coeffList (q : L[X]) (n : Nat) : (coeffList q n).length = n := by simp [coeffList]

theorem denote_coeffList (q : L[X]) (n : Nat) (h : q.degree < n) : denote (coeffList q n) = q := by
  ext i
  rw [coeff_denote]
  by_cases hi : i < n
  · rw [getD_of_lt _ _ _ (by rw [length_coeffList]; exact hi)]
    simp [coeffList]
  · rw [getD_of_ge _ _ _ (by rw [length_coeffList]; omega)]
    symm
    apply coeff_eq_zero_of_degree_lt
    exact lt_of_lt_of_le h (by exact_mod_cast (by omega : n ≤ i))

/-- `NttDft` (what property C06 establishes) implies the convolution property used by `fast_reduce` -/
theorem nttConv_of_nttDft (hN : NttDft N ω) : NttConv N where
  length_ntt := fun u hu => ntt_length hN u hu
  conv := by
    intro u v huv hu hdeg
    set w := coeffList (denote u * denote v) u.length with hw
    have hwl : w.length = u.length := length_coeffList _ _
    have hwd : denote w = denote u * denote v := denote_coeffList _ _ hdeg
    have hz : List.zipWith (· * ·) (N.ntt u) (N.ntt v) = N.ntt w := by
      apply List.ext_getElem
      · rw [List.length_zipWith, ntt_length hN u hu, ntt_length hN v (by rw [← huv]; exact hu),
          ntt_length hN w (by rw [hwl]; exact hu), hwl, ← huv]; simp
      · intro i h1 h2
        rw [List.getElem_zipWith, ntt_getElem hN u hu, ntt_getElem hN v (by rw [← huv]; exact hu),
          ntt_getElem hN w (by rw [hwl]; exact hu), hwd, hwl, ← huv, eval_mul]
    rw [hz, hN.intt_ntt w (by rw [hwl]; exact hu)]
    exact ⟨hwl, hwd⟩

/-! ### `clean_divide` -/

/-- removing the common root 0: never fails for a clean division, and a quotient of the stripped pair is a quotient
    of the original pair -/
theorem cleanDivideStrip_spec (a d : List K) (hd : denote d ≠ 0) (hdvd : denote d ∣ denote a) :
    ∃ a1 d1, cleanDivideStrip FK a d = some (a1, d1) ∧ denote d1 ≠ 0 ∧ denote d1 ∣ denote a1 ∧
      (∀ q : K[X], q * denote d1 = denote a1 → q * denote d = denote a) := by
  cases d with
  | nil => exact absurd rfl hd
  | cons d0 dt =>
    by_cases hd0 : d0 = 0
    · subst hd0
      have hdX : denote ((0 : K) :: dt) = X * denote dt := by simp
      have hdt : denote dt ≠ 0 := by
        intro h; apply hd; rw [hdX, h, mul_zero]
      have hz : (FK).isZero (0 : K) = true := (FieldOps.ofField_isZero root 0).2 rfl
      cases a with
      | nil =>
        refine ⟨[], dt, by simp [cleanDivideStrip, hz], hdt, by simp, ?_⟩
        intro q hq
        rw [hdX, ← mul_assoc, mul_comm q X, mul_assoc, hq]; simp
      | cons a0 at' =>
        have ha0 : a0 = 0 := by
          obtain ⟨k, hk⟩ := hdvd
          have := congrArg (fun p => p.coeff 0) hk
          simp only [denote_cons, coeff_add, coeff_C_zero, mul_coeff_zero, coeff_X_zero, zero_mul, add_zero,
            map_zero, zero_add] at this
          exact this
        subst ha0
        have haX : denote ((0 : K) :: at') = X * denote at' := by simp
        refine ⟨at', dt, by simp [cleanDivideStrip, hz], hdt, ?_, ?_⟩
        · rw [hdX, haX] at hdvd
          exact (mul_dvd_mul_iff_left X_ne_zero).1 hdvd
        · intro q hq
          rw [hdX, haX, ← hq]; ring
    · have hz : ¬ (FK).isZero d0 = true := by rw [FieldOps.ofField_isZero]; exact hd0
      exact ⟨a, d0 :: dt, by simp [cleanDivideStrip, hz], hd, hdvd, fun q hq => hq⟩

/-- `P(X) ↦ P(x·X)` over the extension field -/
noncomputable def sc (x : L) (p : K[X]) : L[X] := (p.map (algebraMap K L)).comp (C x * X)

theorem sc_mul (x : L) (p q : K[X]) : sc x (p * q) = sc x p * sc x q := by
  unfold sc; rw [Polynomial.map_mul, mul_comp]

theorem sc_zero (x : L) : sc x (0 : K[X]) = 0 := by unfold sc; simp

theorem degree_sc_lt (x : L) (p : K[X]) (n : Nat) (h : p.degree < n) : (sc x p).degree < (n : WithBot ℕ) := by
  by_cases hp : p = 0
  · rw [hp, sc_zero, degree_zero]; exact WithBot.bot_lt_coe _
  · rw [degree_eq_natDegree hp] at h
    have h1 : p.natDegree < n := by exact_mod_cast h
    have h2 : (sc x p).natDegree ≤ p.natDegree := by
      unfold sc
      refine le_trans natDegree_comp_le ?_
      have ha : (p.map (algebraMap K L)).natDegree ≤ p.natDegree := natDegree_map_le
      have hb : (C x * X : L[X]).natDegree ≤ 1 := by
        refine le_trans natDegree_mul_le ?_
        simp
      calc (p.map (algebraMap K L)).natDegree * (C x * X : L[X]).natDegree
          ≤ p.natDegree * 1 := Nat.mul_le_mul ha hb
        _ = p.natDegree := Nat.mul_one _
    refine lt_of_le_of_lt degree_le_natDegree ?_
    exact_mod_cast (by omega : (sc x p).natDegree < n)

theorem denote_scaleG_lift (p : List K) (x : L) :
    denote (scaleG (FL).one (FL).mul (fun (c : K) (pw : L) => algebraMap K L c * pw) p x) = sc x (denote p) := by
  unfold scaleG sc
  rw [FieldOps.ofField_mul_fn, denote_scaleAux_lift]
  simp

/-- the evaluation-domain part of `clean_divide` returns the exact quotient of a clean division — whether or not the
    divisor vanishes on the evaluation coset, for every non-zero offset -/
theorem cleanDivideNtt_spec (E : ExtOps K L) (hN : NttDft N ω)
    (hlift : ∀ k, E.lift k = algebraMap K L k) (hunlift : ∀ k, E.unlift (algebraMap K L k) = some k)
    (hoff : E.offset ≠ 0) (a1 d1 : List K) (hd : denote d1 ≠ 0) (hdvd : denote d1 ∣ denote a1) :
    ∃ q, cleanDivideNtt FK FL E N a1 d1 = some q ∧ denote q * denote d1 = denote a1 := by
  obtain ⟨qK, hq1, hq2⟩ := div_spec root a1 d1 hd
  have hqd : denote qK * denote d1 = denote a1 := by
    rw [hq2, mul_comm]; exact EuclideanDomain.mul_div_cancel' hd hdvd
  unfold cleanDivideNtt
  set x := E.offset with hx
  have hliftfn : (fun (c : K) (pw : L) => (FL).mul (E.lift c) pw) = fun c pw => algebraMap K L c * pw := by
    funext c pw; rw [hlift]; rfl
  simp only [hliftfn]
  set order := nextPowerOfTwo (degSucc FK a1) with horder
  have hpow : isPowerOfTwo order = true := isPowerOfTwo_nextPowerOfTwo _
  have hA1deg : (denote a1).degree < (order : WithBot ℕ) :=
    lt_of_lt_of_le (degree_lt_degSucc root a1) (by exact_mod_cast le_nextPowerOfTwo _)
  set aXl := scaleG (FL).one (FL).mul (fun (c : K) (pw : L) => algebraMap K L c * pw) a1 x with haXl
  set dXl := scaleG (FL).one (FL).mul (fun (c : K) (pw : L) => algebraMap K L c * pw) d1 x with hdXl
  have hA : denote aXl = sc x (denote a1) := denote_scaleG_lift rootL a1 x
  have hD : denote dXl = sc x (denote d1) := denote_scaleG_lift rootL d1 x
  obtain ⟨hal, had⟩ := resize_spec' rootL aXl order (by rw [hA]; exact degree_sc_lt x _ _ hA1deg)
  have hdl : (resize FL dXl order).length = order := by unfold resize; simp; omega
  have hca : nttChecked N (resize FL aXl order) = some (N.ntt (resize FL aXl order)) := by
    unfold nttChecked; rw [hal, hpow]; simp
  have hcd : nttChecked N (resize FL dXl order) = some (N.ntt (resize FL dXl order)) := by
    unfold nttChecked; rw [hdl, hpow]; simp
  rw [hca, hcd]
  simp only
  split
  · exact ⟨qK, hq1, hqd⟩
  · next hany =>
    set aE := N.ntt (resize FL aXl order) with haE
    set dE := N.ntt (resize FL dXl order) with hdE
    have hnz : ∀ y ∈ dE, y ≠ 0 := by
      intro y hy h0
      apply hany
      rw [List.any_eq_true]
      exact ⟨y, hy, (FieldOps.ofField_isZero rootL y).2 h0⟩
    rw [batchInversion_spec rootL dE hnz]
    simp only
    have hael : aE.length = order := by rw [haE, ntt_length hN _ (by rw [hal]; exact hpow), hal]
    have hdel : dE.length = order := by rw [hdE, ntt_length hN _ (by rw [hdl]; exact hpow), hdl]
    -- the quotient as a list of `order` coefficients over `L`
    have hQdeg : (denote qK).degree < (order : WithBot ℕ) := by
      by_cases hQ0 : denote qK = 0
      · rw [hQ0, degree_zero]; exact WithBot.bot_lt_coe _
      · refine lt_of_le_of_lt ?_ hA1deg
        rw [← hqd, degree_mul]
        have : (0 : WithBot ℕ) ≤ (denote d1).degree := zero_le_degree_iff.2 hd
        calc (denote qK).degree = (denote qK).degree + 0 := by simp
          _ ≤ (denote qK).degree + (denote d1).degree := by gcongr
    obtain ⟨hql, hqden⟩ := resize_spec'' root qK order hQdeg
    set lq := scaleAux (· * ·) (fun (c : K) (r : L) => algebraMap K L c * r) x 1 (resize FK qK order) with hlq
    have hlql : lq.length = order := by rw [hlq, length_scaleAux, hql]
    have hlqd : denote lq = sc x (denote qK) := by
      rw [hlq, denote_scaleAux_lift, hqden]; unfold sc; simp
    have hzip : List.zipWith (FL).mul aE (dE.map (fun y => y⁻¹)) = N.ntt lq := by
      apply List.ext_getElem
      · rw [List.length_zipWith, List.length_map, hael, hdel, ntt_length hN _ (by rw [hlql]; exact hpow), hlql]
        simp
      · intro i h1 h2
        have hi : i < order := by
          rw [List.length_zipWith, List.length_map, hael, hdel] at h1; simpa using h1
        rw [List.getElem_zipWith, List.getElem_map, ntt_getElem hN lq (by rw [hlql]; exact hpow)]
        have ea : aE[i]'(by rw [hael]; exact hi) = (sc x (denote a1)).eval (ω order ^ i) := by
          have := ntt_getElem hN (resize FL aXl order) (by rw [hal]; exact hpow) i (by rw [← haE, hael]; exact hi)
          rw [had, hA, hal] at this
          exact this
        have ed : dE[i]'(by rw [hdel]; exact hi) = (denote (resize FL dXl order)).eval (ω order ^ i) := by
          have := ntt_getElem hN (resize FL dXl order) (by rw [hdl]; exact hpow) i (by rw [← hdE, hdel]; exact hi)
          rw [hdl] at this
          exact this
        have hdne : dE[i]'(by rw [hdel]; exact hi) ≠ 0 := hnz _ (List.getElem_mem _)
        rw [hlql, hlqd]
        show aE[i] * (dE[i])⁻¹ = _
        by_cases hA0 : denote a1 = 0
        · have hQ0 : denote qK = 0 := by
            rcases mul_eq_zero.1 (hqd.trans hA0) with h | h
            · exact h
            · exact absurd h hd
          rw [ea, hA0, hQ0, sc_zero]; simp
        · have hD1deg : (denote d1).degree < (order : WithBot ℕ) := by
            refine lt_of_le_of_lt ?_ hA1deg
            have hQ0 : denote qK ≠ 0 := by
              intro h; apply hA0; rw [← hqd, h, zero_mul]
            rw [← hqd, degree_mul]
            have : (0 : WithBot ℕ) ≤ (denote qK).degree := zero_le_degree_iff.2 hQ0
            calc (denote d1).degree = 0 + (denote d1).degree := by simp
              _ ≤ (denote qK).degree + (denote d1).degree := by gcongr
          obtain ⟨_, hdd⟩ := resize_spec' rootL dXl order (by rw [hD]; exact degree_sc_lt x _ _ hD1deg)
          rw [hdd, hD] at ed
          have hprod : (sc x (denote a1)).eval (ω order ^ i)
              = (sc x (denote qK)).eval (ω order ^ i) * (sc x (denote d1)).eval (ω order ^ i) := by
            rw [← hqd, sc_mul, eval_mul]
          rw [ea, hprod, ← ed]
          field_simp
    rw [hzip]
    have hci : inttChecked N (N.ntt lq) = some (N.intt (N.ntt lq)) := by
      unfold inttChecked
      rw [ntt_length hN _ (by rw [hlql]; exact hpow), hlql, hpow]; simp
    rw [hci, hN.intt_ntt lq (by rw [hlql]; exact hpow)]
    simp only
    have hqs : scale FL lq ((FL).inv x) = (resize FK qK order).map (algebraMap K L) := by
      unfold scale scaleG
      rw [FieldOps.ofField_mul_fn, hlq]
      exact scaleAux_unscale (resize FK qK order) x hoff 1 1 (by simp)
    rw [hqs, mapM_unlift (algebraMap K L) E.unlift hunlift]
    exact ⟨_, rfl, by rw [hqden]; exact hqd⟩

/-- **`clean_divide`** (with the repairs F9 and F11) for every extension `L/K`, every transform pair over `L` that is
    the DFT, every non-zero offset, every cut-off, every non-zero divisor — with or without roots on the evaluation
    coset, with or without factors `X^k`, any storage — and every dividend it divides (incl. zero): no panic, and
    the result is the exact quotient -/
theorem cleanDivide_spec (E : ExtOps K L) (hN : NttDft N ω)
    (hlift : ∀ k, E.lift k = algebraMap K L k) (hunlift : ∀ k, E.unlift (algebraMap K L k) = some k)
    (hoff : E.offset ≠ 0) (cutoff : Nat) (a d : List K) (hd : denote d ≠ 0) (hdvd : denote d ∣ denote a) :
    ∃ q, cleanDivide FK FL E N cutoff a d = some q ∧ denote q * denote d = denote a := by
  unfold cleanDivide
  split
  · obtain ⟨q, h1, h2⟩ := div_spec root a d hd
    refine ⟨q, h1, ?_⟩
    rw [h2, mul_comm]; exact EuclideanDomain.mul_div_cancel' hd hdvd
  · obtain ⟨a1, d1, s1, s2, s3, s4⟩ := cleanDivideStrip_spec root a d hd hdvd
    rw [s1]
    simp only
    obtain ⟨q, h1, h2⟩ := cleanDivideNtt_spec root rootL E hN hlift hunlift hoff a1 d1 s2 s3
    exact ⟨q, h1, s4 _ h2⟩

end clean

section newton
variable {K : Type} [Field K] (root : Nat → Option K)
local notation "FK" => FieldOps.ofField K root

theorem length_zipLongestWith {α : Type} (f : α → α → α) (g : α → α) (a b : List α) :
    (zipLongestWith f g a b).length = max a.length b.length := by
  induction a generalizing b with
  | nil => simp [zipLongestWith]
  | cons x xs ih =>
    cases b with
    | nil => simp [zipLongestWith]
    | cons y ys => simp [zipLongestWith, ih]

theorem length_mulRows (a b : List K) (ha : a ≠ []) (hb : b ≠ []) :
    (mulRows FK (· * ·) a b).length = a.length + b.length - 1 := by
  induction a with
  | nil => exact absurd rfl ha
  | cons a0 as ih =>
    cases as with
    | nil => simp [mulRows]
    | cons a1 as =>
      have hbl : 0 < b.length := List.length_pos_of_ne_nil hb
      rw [mulRows, length_zipLongestWith, List.length_cons, ih (by simp)]
      simp only [List.length_map, List.length_cons]
      omega

/-- the product storage has exactly `natDegree + 1` coefficients (or none) -/
theorem length_mul_le (a b : List K) :
    (Model.Poly.mul FK a b).length ≤ (denote a * denote b).natDegree + 1 := by
  unfold Model.Poly.mul naiveMultiply naiveMultiplyG
  split
  · simp
  · simp
  · next h1 h2 =>
    have ha : denote a ≠ 0 := fun h => h1 ((normalize_eq_nil_iff root a).2 h)
    have hb : denote b ≠ 0 := fun h => h2 ((normalize_eq_nil_iff root b).2 h)
    rw [FieldOps.ofField_mul_fn, length_mulRows root _ _ h1 h2, length_normalize root a ha,
      length_normalize root b hb, natDegree_mul ha hb]
    omega

theorem nextPowerOfTwo_le_of_le_pow (x e : Nat) (h : x ≤ 2 ^ e) : nextPowerOfTwo x ≤ 2 ^ e := by
  unfold nextPowerOfTwo
  split
  · exact Nat.one_le_two_pow
  · next hx =>
    have h1 : x - 1 ≠ 0 := by omega
    have h2 : x - 1 < 2 ^ e := by omega
    have := (Nat.log2_lt h1).2 h2
    exact Nat.pow_le_pow_right (by decide) (by omega)

theorem exists_pow_of_isPowerOfTwo (n : Nat) (h : isPowerOfTwo n = true) : ∃ e, n = 2 ^ e := by
  unfold isPowerOfTwo at h
  simp only [Bool.and_eq_true, beq_iff_eq] at h
  exact ⟨_, h.2.symm⟩

theorem nextPowerOfTwo_mono (x y : Nat) (h : x ≤ y) : nextPowerOfTwo x ≤ nextPowerOfTwo y := by
  obtain ⟨e, he⟩ := exists_pow_of_isPowerOfTwo _ (isPowerOfTwo_nextPowerOfTwo y)
  rw [he]
  apply nextPowerOfTwo_le_of_le_pow
  rw [← he]
  exact le_trans h (le_nextPowerOfTwo y)

theorem dvd_of_isPowerOfTwo_le (a b : Nat) (ha : isPowerOfTwo a = true) (hb : isPowerOfTwo b = true)
    (h : a ≤ b) : a ∣ b := by
  obtain ⟨i, rfl⟩ := exists_pow_of_isPowerOfTwo a ha
  obtain ⟨j, rfl⟩ := exists_pow_of_isPowerOfTwo b hb
  exact pow_dvd_pow 2 ((Nat.pow_le_pow_iff_right (by decide)).1 h)

theorem stepBy_cons {α : Type} (k : Nat) (hk : 0 < k) (x : α) (xs : List α) :
    stepBy k (x :: xs) = x :: stepBy k ((x :: xs).drop k) := by
  rw [stepBy]
  congr 2
  cases k with
  | zero => omega
  | succ k => simp

theorem stepBy_spec {α : Type} (k : Nat) (hk : 0 < k) (m : Nat) (l : List α) (hl : l.length = m * k) :
    (stepBy k l).length = m ∧ ∀ i (hi : i < m) (h2 : i < (stepBy k l).length),
      (stepBy k l)[i] = l[i * k]'(by rw [hl]; exact Nat.mul_lt_mul_of_pos_right hi hk) := by
  induction m generalizing l with
  | zero =>
    have : l = [] := List.eq_nil_of_length_eq_zero (by simpa using hl)
    subst this
    exact ⟨by rw [stepBy]; rfl, fun i hi => absurd hi (by omega)⟩
  | succ m ih =>
    cases l with
    | nil => simp [Nat.succ_mul] at hl; omega
    | cons x xs =>
      rw [stepBy_cons k hk]
      have hd : ((x :: xs).drop k).length = m * k := by
        rw [List.length_drop, hl, Nat.succ_mul]; omega
      obtain ⟨h1, h2⟩ := ih _ hd
      refine ⟨by simp [h1], ?_⟩
      intro i hi h3
      cases i with
      | zero => simp
      | succ i =>
        simp only [List.getElem_cons_succ]
        rw [h2 i (by omega)]
        rw [List.getElem_drop]
        congr 1
        rw [Nat.succ_mul]; omega


/-! ### one Newton step on storages -/

/-- `2·g − g·g·f` as computed by the standard rounds -/
noncomputable def nstep (f g : List K) : List K :=
  Model.Poly.sub FK (Model.Poly.scalarMul FK g ((FK).ofNat 2)) (Model.Poly.mul FK (Model.Poly.mul FK g g) f)

theorem denote_nstep (f g : List K) :
    denote (nstep root f g) = denote g * C ((FK).ofNat 2) - denote g * denote g * denote f := by
  unfold nstep
  rw [denote_sub, denote_scalarMul, denote_mul, denote_mul]

theorem C_two : (C ((FK).ofNat 2) : K[X]) = 2 := by
  simp only [FieldOps.ofField_ofNat, Nat.cast_ofNat]; exact C_ofNat 2

theorem nstep_dvd (f g : List K) (e : Nat) (h : (X ^ e : K[X]) ∣ denote f * denote g - 1) :
    (X ^ (e * 2) : K[X]) ∣ denote f * denote (nstep root f g) - 1 := by
  rw [denote_nstep, C_two]
  obtain ⟨c, hc⟩ := h
  refine ⟨-(c * c), ?_⟩
  rw [pow_mul, pow_two]
  linear_combination (-(denote f * denote g - 1) - X ^ e * c) * hc

theorem natDegree_nstep_le (f g : List K) :
    (denote (nstep root f g)).natDegree ≤ 2 * (denote g).natDegree + (denote f).natDegree := by
  rw [denote_nstep]
  refine le_trans (natDegree_sub_le _ _) (max_le ?_ ?_)
  · refine le_trans (natDegree_mul_C_le _ _) ?_; omega
  · refine le_trans natDegree_mul_le ?_
    have := natDegree_mul_le (p := denote g) (q := denote g)
    omega

theorem length_nstep_le (f g : List K) :
    (nstep root f g).length ≤ max g.length (2 * (denote g).natDegree + (denote f).natDegree + 1) := by
  unfold nstep Model.Poly.sub
  rw [length_zipLongestWith]
  apply max_le_max
  · unfold Model.Poly.scalarMul scalarMulG; simp
  · refine le_trans (length_mul_le root _ _) ?_
    rw [denote_mul]
    have h1 := natDegree_mul_le (p := denote g * denote g) (q := denote f)
    have h2 := natDegree_mul_le (p := denote g) (q := denote g)
    omega

theorem newtonStandard_eq (f : List K) (k : Nat) (g : List K) :
    newtonStandard FK f (k + 1) g = newtonStandard FK f k (nstep root f g) := rfl

theorem newtonStandard_bounds (f : List K) (k : Nat) (g : List K) (B : Nat) (hl : g.length ≤ B + 1)
    (hd : (denote g).natDegree ≤ B) :
    (newtonStandard FK f k g).length ≤ 2 ^ k * (B + (denote f).natDegree) + 1 ∧
    (denote (newtonStandard FK f k g)).natDegree + (denote f).natDegree ≤ 2 ^ k * (B + (denote f).natDegree) := by
  induction k generalizing g B with
  | zero => simp only [newtonStandard, pow_zero, one_mul]; omega
  | succ k ih =>
    rw [newtonStandard_eq]
    have h1 := length_nstep_le root f g
    have h2 := natDegree_nstep_le root f g
    obtain ⟨i1, i2⟩ := ih (nstep root f g) (2 * B + (denote f).natDegree) (by omega) (by omega)
    have e : 2 ^ (k + 1) * (B + (denote f).natDegree) = 2 ^ k * (2 * B + (denote f).natDegree + (denote f).natDegree) := by
      rw [pow_succ]; ring
    rw [e]
    exact ⟨i1, i2⟩

/-! ### the NTT-domain rounds -/

variable {N : NttOps K} {ω : Nat → K}

theorem isPowerOfTwo_pos (n : Nat) (h : isPowerOfTwo n = true) : 0 < n := by
  unfold isPowerOfTwo at h
  simp only [Bool.and_eq_true, bne_iff_ne, ne_eq] at h
  omega

theorem newtonNttLoop_spec (hN : NttDft N ω) (f : List K) (s full : Nat) (hs : (denote f).natDegree = s)
    (hs1 : 1 ≤ s) (hfull : isPowerOfTwo full = true) (hfdeg : (denote f).degree < (full : WithBot ℕ))
    (T : Nat) (hT : nextPowerOfTwo T ≤ full) (k : Nat) :
    ∀ (fdeg : Int) (cur : Nat) (g : List K) (e : Nat), g.length = cur → isPowerOfTwo cur = true → cur ≤ full →
      0 ≤ fdeg → (denote g).natDegree ≤ fdeg.toNat → fdeg.toNat < cur →
      (X ^ e : K[X]) ∣ denote f * denote g - 1 → (fdeg.toNat + s) * 2 ^ k ≤ T →
      ∃ cur' g', newtonNttLoop FK N (N.ntt (resize FK f full)) full (s : Int) k fdeg cur (N.ntt g)
          = some (cur', N.ntt g') ∧ g'.length = cur' ∧ isPowerOfTwo cur' = true ∧ cur' ≤ full ∧
        (X ^ (e * 2 ^ k) : K[X]) ∣ denote f * denote g' - 1 := by
  induction k with
  | zero =>
    intro fdeg cur g e hgl hcp hcf _ _ _ he _
    exact ⟨cur, g, rfl, hgl, hcp, hcf, by simpa using he⟩
  | succ k ih =>
    intro fdeg cur g e hgl hcp hcf hf0 hgd hfc he hbud
    set d := fdeg.toNat with hd
    have hfd' : (2 * fdeg + (s : Int)).toNat = 2 * d + s := by omega
    -- growth
    have hgrow : ∃ cur' g2, newtonGrow FK N full (2 * fdeg + (s : Int)) cur (N.ntt g) = some (cur', N.ntt g2) ∧
        g2.length = cur' ∧ isPowerOfTwo cur' = true ∧ cur' ≤ full ∧ denote g2 = denote g ∧ 2 * d + s < cur' := by
      unfold newtonGrow
      rw [hfd']
      split
      · next hge =>
        have hnext : nextPowerOfTwo (1 + (2 * d + s)) ≤ full := by
          refine le_trans (nextPowerOfTwo_mono _ _ ?_) hT
          have : (d + s) * 2 ≤ (d + s) * 2 ^ (k + 1) := by
            apply Nat.mul_le_mul_left
            calc 2 = 2 ^ 1 := rfl
              _ ≤ 2 ^ (k + 1) := Nat.pow_le_pow_right (by decide) (by omega)
          omega
        simp only
        rw [if_neg (by omega)]
        have hl1 : (N.ntt g).length = cur := by rw [ntt_length hN g (by rw [hgl]; exact hcp), hgl]
        have hc1 : inttChecked N (N.ntt g) = some g := by
          unfold inttChecked
          rw [hl1, hcp, hN.intt_ntt g (by rw [hgl]; exact hcp)]; simp
        rw [hc1]
        simp only
        have hle := le_nextPowerOfTwo (1 + (2 * d + s))
        obtain ⟨r1, r2⟩ := resize_spec root g (nextPowerOfTwo (1 + (2 * d + s))) (by omega)
        have hc2 : nttChecked N (resize FK g (nextPowerOfTwo (1 + (2 * d + s))))
            = some (N.ntt (resize FK g (nextPowerOfTwo (1 + (2 * d + s))))) := by
          unfold nttChecked
          rw [r1, isPowerOfTwo_nextPowerOfTwo]; simp
        rw [hc2]
        exact ⟨_, _, rfl, r1, isPowerOfTwo_nextPowerOfTwo _, hnext, r2, by omega⟩
      · next hlt =>
        exact ⟨cur, g, rfl, hgl, hcp, hcf, rfl, by omega⟩
    obtain ⟨cur', g2, hg1, hg2, hg3, hg4, hg5, hg6⟩ := hgrow
    have hcpos : 0 < cur' := isPowerOfTwo_pos cur' hg3
    -- the point-wise step computes the transform of the next iterate
    set gn := resize FK (nstep root f g2) cur' with hgn
    have hnd : (denote (nstep root f g2)).natDegree ≤ 2 * d + s := by
      have := natDegree_nstep_le root f g2
      rw [hg5, hs] at this
      omega
    have hndeg : (denote (nstep root f g2)).degree < (cur' : WithBot ℕ) :=
      lt_of_le_of_lt degree_le_natDegree (by exact_mod_cast (by omega : (denote (nstep root f g2)).natDegree < cur'))
    obtain ⟨hgnl, hgnd⟩ := resize_spec'' root (nstep root f g2) cur' hndeg
    have hdvd : cur' ∣ full := dvd_of_isPowerOfTwo_le cur' full hg3 hfull hg4
    obtain ⟨q, hq⟩ := hdvd
    have hqpos : 0 < q := by
      rcases Nat.eq_zero_or_pos q with h | h
      · rw [h, Nat.mul_zero] at hq
        have := isPowerOfTwo_pos full hfull
        omega
      · exact h
    have hdiv : full / cur' = q := by rw [hq, Nat.mul_div_cancel_left _ hcpos]
    obtain ⟨rf1, rf2⟩ := resize_spec' root (f) full hfdeg
    have hsl : (N.ntt (resize FK f full)).length = cur' * q := by
      rw [ntt_length hN _ (by rw [rf1]; exact hfull), rf1, hq]
    obtain ⟨st1, st2⟩ := stepBy_spec q hqpos cur' (N.ntt (resize FK f full)) hsl
    have hpw : newtonPointwise FK (N.ntt (resize FK f full)) full cur' (N.ntt g2) = N.ntt gn := by
      unfold newtonPointwise
      rw [hdiv]
      have hl2 : (N.ntt g2).length = cur' := by rw [ntt_length hN g2 (by rw [hg2]; exact hg3), hg2]
      apply List.ext_getElem
      · rw [List.length_zipWith, hl2, st1, ntt_length hN gn (by rw [hgnl]; exact hg3), hgnl]; simp
      · intro i h1 h2
        have hi : i < cur' := by
          rw [List.length_zipWith, hl2, st1] at h1; simpa using h1
        rw [List.getElem_zipWith, ntt_getElem hN g2 (by rw [hg2]; exact hg3),
          ntt_getElem hN gn (by rw [hgnl]; exact hg3), st2 i hi,
          ntt_getElem hN (resize FK f full) (by rw [rf1]; exact hfull), hgnd, hgnl, hg2, rf1, rf2, denote_nstep]
        have hroot : ω full ^ (i * q) = ω cur' ^ i := by
          rw [mul_comm, pow_mul, ← hdiv, hN.compat full cur' hfull hg3 ⟨q, hq⟩]
        rw [hroot]
        simp only [FieldOps.ofField_sub, FieldOps.ofField_mul, eval_sub, eval_mul, eval_C]
        ring
    have hstep := nstep_dvd root f g2 e (by rw [hg5]; exact he)
    rw [← hgnd] at hstep
    obtain ⟨cur'', g', r1, r2, r3, r4, r5⟩ := ih (2 * fdeg + (s : Int)) cur' gn (e * 2) hgnl hg3 hg4 (by omega)
      (by rw [hfd', hgnd]; exact hnd) (by rw [hfd']; exact hg6) hstep
      (by rw [hfd']
          calc (2 * d + s + s) * 2 ^ k = (d + s) * 2 ^ (k + 1) := by rw [pow_succ]; ring
            _ ≤ T := hbud)
    refine ⟨cur'', g', ?_, r2, r3, r4, ?_⟩
    · simp only [newtonNttLoop]
      rw [hg1]
      simp only
      rw [if_neg (by omega), hpw]
      exact r1
    · rw [show e * 2 ^ (k + 1) = e * 2 * 2 ^ k by rw [pow_succ]; ring]
      exact r5

theorem not_X_pow_dvd_neg_one (e : Nat) (he : 1 ≤ e) : ¬ (X ^ e : K[X]) ∣ (0 : K[X]) - 1 := by
  intro h
  have hx : (X : K[X]) ∣ 0 - 1 := dvd_trans (dvd_pow_self X (by omega)) h
  rw [X_dvd_iff] at hx
  simp at hx

/-- **`formal_power_series_inverse_newton`**, every arm (constant, polynomial-arithmetic rounds only, NTT-domain rounds
    with domain growth), every cut-off, every precision, every storage of `f` with non-zero constant term -/
theorem fpsInverseNewton_spec (hN : NttDft N ω) (cutoff : Nat) (f : List K) (precision : Nat)
    (h0 : (denote f).coeff 0 ≠ 0) :
    ∃ g, fpsInverseNewton FK N cutoff f precision = some g ∧
      (X ^ precision : K[X]) ∣ denote f * denote g - 1 := by
  by_cases harm : (denote f).natDegree = 0 ∨
      Nat.log2 (nextPowerOfTwo precision) ≤
        (if cutoff < (denote f).natDegree then 0 else Nat.log2 (cutoff / (denote f).natDegree))
  · exact fpsInverseNewton_standard_spec root N cutoff f precision h0 harm
  · have hd0 : (denote f).natDegree ≠ 0 := fun h => harm (Or.inl h)
    have hsw : ¬ Nat.log2 (nextPowerOfTwo precision) ≤
        (if cutoff < (denote f).natDegree then 0 else Nat.log2 (cutoff / (denote f).natDegree)) :=
      fun h => harm (Or.inr h)
    have hf : denote f ≠ 0 := by intro h; rw [h] at h0; simp at h0
    cases f with
    | nil => simp at h0
    | cons cc ft =>
      have hcc : cc ≠ 0 := by simpa using h0
      have hdeg := degree_spec root (cc :: ft)
      rw [if_neg hf] at hdeg
      unfold fpsInverseNewton
      simp only [hdeg]
      rw [if_neg (by exact_mod_cast hd0), if_neg (by omega)]
      simp only [Int.toNat_natCast]
      rw [if_neg (by rw [FieldOps.ofField_isZero]; exact hcc), if_neg hsw]
      set s := (denote (cc :: ft)).natDegree with hs
      set nr := Nat.log2 (nextPowerOfTwo precision) with hnr
      set sw := (if cutoff < s then 0 else Nat.log2 (cutoff / s)) with hswd
      have hswlt : sw < nr := by omega
      have hs1 : 1 ≤ s := by omega
      rw [Nat.min_eq_right (by omega)]
      set g0 := newtonStandard FK (cc :: ft) sw [(FK).inv cc] with hg0
      -- the standard rounds
      have hinit : (X ^ 1 : K[X]) ∣ denote (cc :: ft) * denote [(FK).inv cc] - 1 := by
        refine ⟨denote ft * C cc⁻¹, ?_⟩
        have : (C cc : K[X]) * C cc⁻¹ = 1 := by rw [← C_mul, mul_inv_cancel₀ hcc, C_1]
        simp only [FieldOps.ofField_inv, denote_cons, denote_nil, mul_zero, add_zero, pow_one]
        linear_combination this
      have hg0dvd := newtonStandard_spec root (cc :: ft) sw [(FK).inv cc] 1 hinit
      rw [one_mul] at hg0dvd
      obtain ⟨hb1, hb2⟩ := newtonStandard_bounds root (cc :: ft) sw [(FK).inv cc] 0 (by simp)
        (by simp)
      rw [← hg0, ← hs, Nat.zero_add] at hb1 hb2
      have hG0 : denote g0 ≠ 0 := by
        intro h
        rw [h, mul_zero] at hg0dvd
        exact not_X_pow_dvd_neg_one (2 ^ sw) Nat.one_le_two_pow hg0dvd
      have hg0ne : g0 ≠ [] := by intro h; rw [h] at hG0; exact hG0 rfl
      -- sizes
      have hpw : 2 ^ sw * s + 1 ≤ 2 ^ nr * s := by
        have h1 : 2 ^ (sw + 1) ≤ 2 ^ nr := Nat.pow_le_pow_right (by decide) (by omega)
        have h2 : 2 ^ (sw + 1) * s ≤ 2 ^ nr * s := Nat.mul_le_mul_right s h1
        rw [pow_succ] at h2
        have h3 : 1 ≤ 2 ^ sw * s := Nat.mul_pos (Nat.two_pow_pos sw) hs1
        have h4 : 2 ^ sw * 2 * s = 2 * (2 ^ sw * s) := by ring
        omega
      have hTle : 2 ^ nr * s ≤ 2 ^ (nr + 1) * s := by
        apply Nat.mul_le_mul_right; exact Nat.pow_le_pow_right (by decide) (by omega)
      set full := nextPowerOfTwo (2 ^ (nr + 1) * s) with hfulld
      have hfull : isPowerOfTwo full = true := isPowerOfTwo_nextPowerOfTwo _
      have hfullge : 2 ^ (nr + 1) * s ≤ full := le_nextPowerOfTwo _
      have hslt : s < full := by
        have : 2 * s ≤ 2 ^ (nr + 1) * s := by
          apply Nat.mul_le_mul_right
          calc 2 = 2 ^ 1 := rfl
            _ ≤ 2 ^ (nr + 1) := Nat.pow_le_pow_right (by decide) (by omega)
        omega
      have hfdeg : (denote (cc :: ft)).degree < (full : WithBot ℕ) := by
        rw [degree_eq_natDegree hf]; exact_mod_cast hslt
      obtain ⟨rf1, _⟩ := resize_spec' root (cc :: ft) full hfdeg
      have hc1 : nttChecked N (resize FK (cc :: ft) full) = some (N.ntt (resize FK (cc :: ft) full)) := by
        unfold nttChecked; rw [rf1, hfull]; simp
      rw [hc1]
      simp only
      set cur := nextPowerOfTwo g0.length with hcur
      have hcurp : isPowerOfTwo cur = true := isPowerOfTwo_nextPowerOfTwo _
      have hcurle : cur ≤ full := by
        refine le_trans (nextPowerOfTwo_mono _ _ ?_) (le_refl _)
        omega
      rw [if_neg (by omega)]
      obtain ⟨rg1, rg2⟩ := resize_spec root g0 cur (le_nextPowerOfTwo _)
      have hc2 : nttChecked N (resize FK g0 cur) = some (N.ntt (resize FK g0 cur)) := by
        unfold nttChecked; rw [rg1, hcurp]; simp
      rw [hc2]
      simp only
      have hfd : Model.Poly.degree FK g0 = ((denote g0).natDegree : Int) := by
        rw [degree_spec, if_neg hG0]
      have hndlt : (denote g0).natDegree < cur := by
        have := natDegree_denote_lt g0 hg0ne
        have := le_nextPowerOfTwo g0.length
        omega
      obtain ⟨cur', g', l1, l2, l3, l4, l5⟩ := newtonNttLoop_spec root hN (cc :: ft) s full hs.symm hs1 hfull hfdeg
        (2 ^ nr * s) (nextPowerOfTwo_mono _ _ hTle) (nr - sw) ((denote g0).natDegree : Int) cur
        (resize FK g0 cur) (2 ^ sw) rg1 hcurp hcurle (by omega) (by rw [rg2]; simp) (by simpa using hndlt)
        (by rw [rg2]; exact hg0dvd)
        (by simp only [Int.toNat_natCast]
            calc ((denote g0).natDegree + s) * 2 ^ (nr - sw) ≤ (2 ^ sw * s) * 2 ^ (nr - sw) :=
                  Nat.mul_le_mul_right _ hb2
              _ = 2 ^ nr * s := by
                  rw [Nat.mul_right_comm, ← pow_add]; congr 2; omega)
      rw [hfd, l1]
      simp only
      have hc3 : inttChecked N (N.ntt g') = some g' := by
        unfold inttChecked
        rw [ntt_length hN g' (by rw [l2]; exact l3), l2, l3, hN.intt_ntt g' (by rw [l2]; exact l3)]; simp
      rw [hc3]
      refine ⟨_, rfl, ?_⟩
      rw [show (FK).zero = (0 : K) from rfl, denote_append_zeros]
      have : 2 ^ sw * 2 ^ (nr - sw) = nextPowerOfTwo precision := by
        rw [← pow_add, show sw + (nr - sw) = nr by omega, hnr, two_pow_log2_nextPowerOfTwo]
      rw [this] at l5
      exact dvd_trans (pow_dvd_pow X (le_nextPowerOfTwo precision)) l5

end newton
end TF.Proofs.PolyD
