import TF.Gen.MerkleIndex
import TF.Model.Merkle
/-!
Bridge between the Merkle index arithmetic **regenerated from source** (`TF/Gen/MerkleIndex.lean`, written by
`tools/rs2lean_conv.py` from `merkle_tree.rs`: `MerkleTree::{num_leafs, height, node, leaf}` and
`PartialMerkleTree::num_leafs`) and the hand model `TF/Model/Merkle.lean`.  Core Lean only.

A `MerkleTree` is its node vector, a digest is opaque (its five words, never inspected): the model's `Tree D` at
`D = List Nat`.  `PartialMerkleTree` is seen through its `tree_height` only.  `resExcept` prints a model outcome as the
`Result<usize, MerkleTreeError>` of the source (error = variant name); a panic is the `_ok` twin being `false`.
-/
set_option linter.unusedVariables false
namespace TF.GenBridge.MerkleIndex
open TF.Gen TF.Gen.Loops TF.Merkle

/-- the variant of `MerkleTreeError` behind each error of the model -/
def errName : Err → String
  | .leafIndexInvalid => "LeafIndexInvalid"
  | .authenticationStructureLengthMismatch => "AuthenticationStructureLengthMismatch"
  | .repeatedLeafDigestMismatch => "RepeatedLeafDigestMismatch"
  | .spuriousNodeIndex => "SpuriousNodeIndex"
  | .missingNodeIndex => "MissingNodeIndex"
  | .rootNotFound => "RootNotFound"
  | .tooFewLeafs => "TooFewLeafs"
  | .incorrectNumberOfLeafs => "IncorrectNumberOfLeafs"
  | .treeTooHigh => "TreeTooHigh"

def resExcept {α : Type} : Res α → Except String α
  | .ok a => .ok a
  | .err e => .error (errName e)
  | .panic => .error "panic"

/-- decidable equality of `Result`s (for the non-vacuity examples; scoped) -/
def decEqExcept {α : Type} [DecidableEq α] : DecidableEq (Except String α)
  | .ok a, .ok b => if h : a = b then isTrue (by rw [h]) else isFalse (fun e => h (Except.ok.inj e))
  | .error a, .error b => if h : a = b then isTrue (by rw [h]) else isFalse (fun e => h (Except.error.inj e))
  | .ok _, .error _ => isFalse (fun e => by cases e)
  | .error _, .ok _ => isFalse (fun e => by cases e)
scoped instance {α : Type} [DecidableEq α] : DecidableEq (Except String α) := decEqExcept

theorem W_eq : (18446744073709551616 : Nat) = USIZE := by decide

/-- `MerkleTree::num_leafs`, `node` = model; they cannot panic -/
theorem gen_num_leafs_node (ns : List (List Nat)) (i : Nat) :
    mt_num_leafs ns = (Tree.mk ns).numLeafs ∧ mt_num_leafs_ok ns = true ∧
    mt_node ns i = (Tree.mk ns).node i ∧ mt_node_ok ns i = true := ⟨rfl, rfl, rfl, rfl⟩

/-- `MerkleTree::height` = model: `ilog2` of the number of leafs; it panics exactly on a tree without leafs -/
theorem gen_height (ns : List (List Nat)) :
    (Tree.mk ns).height = (if mt_height_ok ns then .ok (mt_height ns) else .panic) ∧
    (mt_height_ok ns = true ↔ 2 ≤ ns.length) := by
  unfold Tree.height mt_height_ok mt_height mt_num_leafs_ok mt_num_leafs Tree.numLeafs
  constructor
  · by_cases h : ns.length / 2 = 0
    · simp [h]
    · simp [h]
  · simp only [Bool.and_eq_true, bne_iff_ne, ne_eq]
    omega

/-- `MerkleTree::leaf` (with its `checked_add`) = model, for every tree and every index in `usize` or beyond -/
theorem gen_leaf (ns : List (List Nat)) (i : Nat) :
    mt_leaf ns i = (Tree.mk ns).leaf i ∧ mt_leaf_ok ns i = true := by
  refine ⟨?_, rfl⟩
  unfold mt_leaf Tree.leaf TF.RustStd.checked_add
  rw [W_eq]
  by_cases h : ns.length / 2 + i < USIZE
  · simp only [h, if_true, Option.bind_some]
  · simp only [h, if_false, Option.bind_none]

theorem pow_lt_W (h : Nat) (hh : h ≤ 31) : 2 ^ h < 18446744073709551616 :=
  Nat.lt_of_le_of_lt (Nat.pow_le_pow_right (by decide) hh) (by decide)

/-- `PartialMerkleTree::num_leafs` = model: `TreeTooHigh` exactly above `MAX_TREE_HEIGHT`, otherwise `2^height`; the shift
    cannot overflow -/
theorem gen_pmt_num_leafs (h : Nat) :
    pmt_num_leafs h = resExcept (numLeafs h) ∧ pmt_num_leafs_ok h = true := by
  unfold pmt_num_leafs pmt_num_leafs_ok numLeafs
  have hM : MAX_TREE_HEIGHT = 31 := rfl
  rw [hM]
  by_cases hh : h > 31
  · simp only [hh, decide_true, if_true]
    exact ⟨rfl, trivial⟩
  · have h64 : h < 64 := by omega
    have hm : h % 64 = h := Nat.mod_eq_of_lt h64
    have hp := pow_lt_W h (by omega)
    simp only [hh, decide_false, Bool.false_eq_true, if_false, shl1, h64, if_true, hm, Nat.one_mul,
      Nat.mod_eq_of_lt hp, resExcept, decide_true, and_self]

end TF.GenBridge.MerkleIndex
