import TF.Model.PolyDiv
import TF.Model.XFieldInv
/-!
Naturality of the generic polynomial model in the field record: a map `f : α → β` that commutes with every operation
of `FieldOps` (a *homomorphism of operation records*) commutes with `normalize`, `add`, `sub`, `mul`, `scalarMul`,
`naiveDivide`, `xgcd` and with the model of `XFieldElement::inverse`.  Used to transfer theorems proved over
`FieldOps.ofField (ZMod P)` to the executable instance `bfieldOps` along `ZMod.val` (`TF/Proofs/XFieldInv.lean`).
Core Lean only.
-/
namespace TF

/-- `f` commutes with all operations the polynomial model uses -/
structure FieldOps.Hom {α β : Type} (F : FieldOps α) (G : FieldOps β) (f : α → β) : Prop where
  zero : f F.zero = G.zero
  one : f F.one = G.one
  add : ∀ a b, f (F.add a b) = G.add (f a) (f b)
  sub : ∀ a b, f (F.sub a b) = G.sub (f a) (f b)
  mul : ∀ a b, f (F.mul a b) = G.mul (f a) (f b)
  neg : ∀ a, f (F.neg a) = G.neg (f a)
  inv : ∀ a, f (F.inv a) = G.inv (f a)
  isZero : ∀ a, G.isZero (f a) = F.isZero a

namespace PolyHom
open TF.Model.Poly TF.Model.PolyD TF.Model.XFInv

variable {α β : Type} {F : FieldOps α} {G : FieldOps β} {f : α → β}

theorem dropWhile_map (h : FieldOps.Hom F G f) (l : List α) :
    (l.map f).dropWhile G.isZero = (l.dropWhile F.isZero).map f := by
  induction l with
  | nil => rfl
  | cons a l ih =>
    simp only [List.map_cons, List.dropWhile_cons, h.isZero]
    split
    · exact ih
    · rfl

theorem revNorm_map (h : FieldOps.Hom F G f) (l : List α) : revNorm G (l.map f) = (revNorm F l).map f := by
  simp only [revNorm, ← List.map_reverse, dropWhile_map h]

theorem normalize_map (h : FieldOps.Hom F G f) (l : List α) : normalize G (l.map f) = (normalize F l).map f := by
  simp only [normalize, ← List.map_reverse, dropWhile_map h]

theorem degSucc_map (h : FieldOps.Hom F G f) (l : List α) : degSucc G (l.map f) = degSucc F l := by
  simp only [degSucc, normalize_map h, List.length_map]

theorem isZero_map (h : FieldOps.Hom F G f) (l : List α) : isZero G (l.map f) = isZero F l := by
  simp only [isZero, normalize_map h, List.isEmpty_map]

theorem leadingCoefficient_map (h : FieldOps.Hom F G f) (l : List α) :
    leadingCoefficient G (l.map f) = (leadingCoefficient F l).map f := by
  simp only [leadingCoefficient, normalize_map h, List.getLast?_map]

theorem zipLongestWith_map (op : α → α → α) (g : α → α) (op' : β → β → β) (g' : β → β)
    (hop : ∀ a b, f (op a b) = op' (f a) (f b)) (hg : ∀ a, f (g a) = g' (f a)) :
    ∀ a b : List α, (zipLongestWith op g a b).map f = zipLongestWith op' g' (a.map f) (b.map f)
  | [], ys => by simp [zipLongestWith, hg]
  | x :: xs, [] => by simp [zipLongestWith]
  | x :: xs, y :: ys => by
    simp only [zipLongestWith, List.map_cons, hop, zipLongestWith_map op g op' g' hop hg xs ys]

theorem add_map (h : FieldOps.Hom F G f) (a b : List α) : (add F a b).map f = add G (a.map f) (b.map f) :=
  zipLongestWith_map _ _ _ _ h.add (fun _ => rfl) a b

theorem sub_map (h : FieldOps.Hom F G f) (a b : List α) : (sub F a b).map f = sub G (a.map f) (b.map f) :=
  zipLongestWith_map _ _ _ _ h.sub (fun r => by rw [h.sub, h.zero]) a b

theorem scalarMul_map (h : FieldOps.Hom F G f) (p : List α) (s : α) :
    (scalarMul F p s).map f = scalarMul G (p.map f) (f s) := by
  simp [scalarMul, scalarMulG, h.mul]

theorem mulRows_map (h : FieldOps.Hom F G f) : ∀ a b : List α,
    (mulRows F F.mul a b).map f = mulRows G G.mul (a.map f) (b.map f)
  | [], _ => rfl
  | [a0], b => by simp [mulRows, h.mul]
  | a0 :: a1 :: as, b => by
    have ih := mulRows_map h (a1 :: as) b
    simp only [List.map_cons] at ih
    simp only [mulRows, List.map_cons]
    have hm : (b.map (F.mul a0)).map f = (b.map f).map (G.mul (f a0)) := by
      simp only [List.map_map]; apply List.map_congr_left; intro x _; exact h.mul a0 x
    rw [zipLongestWith_map F.add id G.add id h.add (fun _ => rfl), List.map_cons, ih, h.zero, hm]

theorem mul_map (h : FieldOps.Hom F G f) (a b : List α) : (mul F a b).map f = mul G (a.map f) (b.map f) := by
  simp only [mul, naiveMultiply, naiveMultiplyG, normalize_map h]
  cases ha : normalize F a with
  | nil => rfl
  | cons a0 as =>
    cases hb : normalize F b with
    | nil => rfl
    | cons b0 bs => exact mulRows_map h _ _

theorem subScaled_map (h : FieldOps.Hom F G f) (qc : α) : ∀ t r : List α,
    (subScaled F qc t r).map (List.map f) = subScaled G (f qc) (t.map f) (r.map f)
  | [], r => rfl
  | _ :: _, [] => rfl
  | t :: tl, r :: rest => by
    have ih := subScaled_map h qc tl rest
    simp only [subScaled, List.map_cons, ← ih]
    cases subScaled F qc tl rest with
    | none => rfl
    | some l => simp [h.sub, h.mul]

theorem divLoop_map (h : FieldOps.Hom F G f) (li : α) (tl : List α) : ∀ (n : Nat) (rr q : List α),
    (divLoop F li tl n rr q).map (Prod.map (List.map f) (List.map f))
      = divLoop G (f li) (tl.map f) n (rr.map f) (q.map f)
  | 0, rr, q => rfl
  | n + 1, [], q => rfl
  | n + 1, c :: rest, q => by
    simp only [divLoop, List.map_cons, ← h.mul, h.isZero]
    split
    · rw [divLoop_map h li tl n rest _]; rfl
    · rw [← subScaled_map h]
      cases subScaled F (F.mul c li) tl rest with
      | none => rfl
      | some rest' => simp only [Option.map_some]; rw [divLoop_map h li tl n rest' _]; rfl

theorem naiveDivide_map (h : FieldOps.Hom F G f) (a d : List α) :
    (naiveDivide F a d).map (Prod.map (List.map f) (List.map f)) = naiveDivide G (a.map f) (d.map f) := by
  simp only [naiveDivide, revNorm_map h]
  cases revNorm F d with
  | nil => rfl
  | cons lc tl =>
    simp only [List.map_cons, List.length_map, ← h.inv]
    split
    · rfl
    · have := divLoop_map h (F.inv lc) tl ((revNorm F a).length - tl.length) (revNorm F a) []
      simp only [List.map_nil] at this
      rw [← this]
      cases divLoop F (F.inv lc) tl ((revNorm F a).length - tl.length) (revNorm F a) [] with
      | none => rfl
      | some qr => simp [Prod.map]

/-- the map on results of `xgcd` -/
def map3 (f : α → β) (t : List α × List α × List α) : List β × List β × List β :=
  (t.1.map f, t.2.1.map f, t.2.2.map f)

theorem xgcdLoop_map (h : FieldOps.Hom F G f) : ∀ (fuel : Nat) (x y a0 a1 b0 b1 : List α),
    (xgcdLoop F fuel x y a0 a1 b0 b1).map (map3 f)
      = xgcdLoop G fuel (x.map f) (y.map f) (a0.map f) (a1.map f) (b0.map f) (b1.map f)
  | 0, _, _, _, _, _, _ => rfl
  | fuel + 1, x, y, a0, a1, b0, b1 => by
    simp only [xgcdLoop, isZero_map h, ← naiveDivide_map h]
    split
    · rfl
    · cases naiveDivide F x y with
      | none => rfl
      | some qr =>
        simp only [Option.map_some, Prod.map]
        rw [← mul_map h, ← mul_map h, ← sub_map h, ← sub_map h]
        exact xgcdLoop_map h fuel _ _ _ _ _ _

theorem xgcd_map (h : FieldOps.Hom F G f) (x y : List α) :
    (xgcd F x y).map (map3 f) = xgcd G (x.map f) (y.map f) := by
  have := xgcdLoop_map h (degSucc F y + 2) x y [F.one] [] [] [F.one]
  simp only [List.map_cons, List.map_nil, h.one] at this
  simp only [xgcd, degSucc_map h, ← this]
  cases xgcdLoop F (degSucc F y + 2) x y [F.one] [] [] [F.one] with
  | none => rfl
  | some t =>
    obtain ⟨g, a, b⟩ := t
    simp only [Option.map_some, map3, leadingCoefficient_map h]
    cases leadingCoefficient F g with
    | none => simp only [Option.map_none, ← h.one, ← h.inv, ← scalarMul_map h]
    | some c => simp only [Option.map_some, ← h.inv, ← scalarMul_map h]

/-! ### the model of `XFieldElement::inverse` -/

/-- the map on triples -/
def mapT (f : α → β) (x : α × α × α) : β × β × β := (f x.1, f x.2.1, f x.2.2)

theorem shahG_map (h : FieldOps.Hom F G f) : (shahG F).map f = shahG G := by
  simp [shahG, h.one, h.zero, h.neg]

theorem ofPolyG_map (h : FieldOps.Hom F G f) (p : List α) :
    (ofPolyG F p).map (mapT f) = ofPolyG G (p.map f) := by
  simp only [ofPolyG, ← shahG_map h, ← naiveDivide_map h]
  cases naiveDivide F p (shahG F) with
  | none => rfl
  | some qr =>
    simp only [Option.map_some, Prod.map, coefficients, normalize_map h]
    rcases normalize F qr.2 with _ | ⟨c0, _ | ⟨c1, _ | ⟨c2, _ | ⟨c3, l⟩⟩⟩⟩ <;>
      simp [mapT, h.zero]

theorem isZeroG_map (h : FieldOps.Hom F G f) (x : α × α × α) : isZeroG G (mapT f x) = isZeroG F x := by
  simp [isZeroG, mapT, h.isZero]

theorem inverseG_map (h : FieldOps.Hom F G f) (x : α × α × α) :
    (inverseG F x).map (mapT f) = inverseG G (mapT f x) := by
  simp only [inverseG, isZeroG_map h]
  split
  · rfl
  · have : toPoly (mapT f x) = (toPoly x).map f := rfl
    rw [this, ← shahG_map h, ← xgcd_map h]
    cases xgcd F (toPoly x) (shahG F) with
    | none => rfl
    | some t => simp only [Option.map_some, map3]; exact ofPolyG_map h _

end PolyHom
end TF
