import TF.Gen.MmrLoops
import TF.Proofs.MmrIndex
/-!
# Bridge: the loop functions of `shared_advanced.rs` *as regenerated from source* = the hand-written models

`TF/Gen/MmrLoops.lean` is written by `tools/rs2lean_loops.py` from the Rust text on every run (every `while`/`loop`
becomes a fuel-indexed structural recursion, every `for` a recursion on the number of remaining iterations).
`TF/Model/MmrIndex.lean` is the hand-written model all theorems of C05/C11/C12/C16 are about.  Here the two are proved
equal **pointwise, for every `u64` input** (no bound on sizes, no sampling), so every theorem about the hand model is a
theorem about the regenerated code — and a change of the Rust text changes the left-hand sides below: the proofs are
re-checked or break.

Fuel: the generated definitions run their loops with 65 (66 for `get_authentication_path_node_indices`) evaluations of
the loop head.  That this suffices is *proved*, not assumed: where the hand model uses the same fuel the equality
includes the `none` results; where the hand model recurses on the height (`node_index_to_leaf_index`,
`get_peak_heights_and_peak_node_indices`) or has no loop (`node_indices_added_by_append`, `get_peak_heights`) the
lemmas below show that the generated loop finishes within its fuel whenever the model has a value.

Proof hygiene: only `simp only` with explicit lemmas on goals that contain the 20-digit literals (plain `simp` sends
the kernel into numeral arithmetic on open terms).
-/
namespace TF.GenBridge
open TF TF.Gen TF.Model.Mmr

/-! ### word-level helpers -/

theorem W64_eq : (18446744073709551616 : Nat) = 2 ^ 64 := by decide
theorem W32_eq : (4294967296 : Nat) = 2 ^ 32 := by decide
theorem W128_eq : (340282366920938463463374607431768211456 : Nat) = 2 ^ 128 := by decide

/-- `1u64 << s` (release build: amount masked to 6 bits): the translator's form equals the model's `shl1` -/
theorem shl_one (s : Nat) : 1 * 2 ^ (s % 64) % 18446744073709551616 = 2 ^ (s % 64) := by
  rw [Nat.one_mul]
  exact Nat.mod_eq_of_lt (TF.Mmr.two_pow_lt_W _ (Nat.mod_lt _ (by decide)))

theorem bitLen_le_64 (n : Nat) (h : n < 2 ^ 64) : bitLen n ≤ 64 := by
  unfold bitLen
  split
  · omega
  · have := TF.Mmr.log2_lt_64 n (by omega) h
    omega

theorem lt_two_pow_bitLen (n : Nat) : n < 2 ^ bitLen n := by
  unfold bitLen
  split
  · subst_vars; decide
  · exact Nat.lt_log2_self

/-! ### `right_lineage_length_and_own_height` -/

theorem rll_own_loop_eq (ni : Nat) : ∀ fuel c h k,
    Loops.right_lineage_length_and_own_height_loop ni fuel c h k = rllLoop ni fuel c h k := by
  intro fuel
  induction fuel with
  | zero => intros; rfl
  | succ f ih =>
    intro c h k
    simp only [Loops.right_lineage_length_and_own_height_loop, rllLoop, dec32, inc32, W32, ih, beq_iff_eq,
      decide_eq_true_eq]
    by_cases h1 : c = ni
    · simp only [h1, if_true]
    · simp only [h1, if_false]
      by_cases h2 : left_child c h < ni
      · simp only [h2, if_true]
      · simp only [h2, if_false]

/-- **`right_lineage_length_and_own_height`**: regenerated code = hand model, every input (incl. `none`) -/
theorem gen_rll_own_eq (n : Nat) :
    Loops.right_lineage_length_and_own_height n = right_lineage_length_and_own_height n := by
  simp only [Loops.right_lineage_length_and_own_height, right_lineage_length_and_own_height, descentFuel,
    rll_own_loop_eq]

/-! ### `parent` -/

/-- **`parent`**: regenerated code = hand model, every input -/
theorem gen_parent_eq (n : Nat) : Loops.parent n = parent n := by
  simp only [Loops.parent, parent, gen_rll_own_eq]
  cases right_lineage_length_and_own_height n with
  | none => rfl
  | some p =>
    obtain ⟨a, b⟩ := p
    simp only [Option.bind_some, bne_iff_ne, ne_eq, add64, shl1, inc32, W64, W32, shl_one]

/-! ### `right_lineage_length_from_node_index` (recursive in Rust) -/

/-- the three `let`s at the head of the function, for a `u64` argument -/
theorem rll_node_head (n : Nat) (h : n < 2 ^ 64) :
    (64 + 4294967296 - (64 - bitLen n)) % 4294967296 = bitLen n ∧
    1 * 2 ^ (bitLen n % 128) % 340282366920938463463374607431768211456 = 2 ^ bitLen n ∧
    (2 ^ bitLen n + 340282366920938463463374607431768211456 - n) % 340282366920938463463374607431768211456
      = 2 ^ bitLen n - n := by
  have hb := bitLen_le_64 n h
  have hlt := lt_two_pow_bitLen n
  have hp : 2 ^ bitLen n ≤ 2 ^ 64 := Nat.pow_le_pow_right (by decide) hb
  have e64 : (2:Nat) ^ 64 = 18446744073709551616 := by decide
  refine ⟨by omega, ?_, by omega⟩
  have e : bitLen n % 128 = bitLen n := by omega
  rw [e, Nat.one_mul]
  exact Nat.mod_eq_of_lt (by omega)

theorem rll_node_rec_eq : ∀ fuel n, n < 2 ^ 64 →
    Loops.right_lineage_length_from_node_index_rec fuel n = rllFromNodeIndexAux fuel n := by
  intro fuel
  induction fuel with
  | zero => intros; rfl
  | succ f ih =>
    intro n hn
    obtain ⟨e1, e2, e3⟩ := rll_node_head n hn
    simp only [Loops.right_lineage_length_from_node_index_rec, rllFromNodeIndexAux, e1, e2, e3, shl_one,
      decide_eq_true_eq, add64, sub64, shl1, dec32, W64, W32]
    by_cases hc : bitLen n < (2 ^ bitLen n - n) % 18446744073709551616
    · simp only [hc, if_true]
      exact ih _ (by rw [← W64_eq]; exact Nat.mod_lt _ (by decide))
    · simp only [hc, if_false]

/-- **`right_lineage_length_from_node_index`**: regenerated code = hand model, every `u64` input -/
theorem gen_rll_node_eq (n : Nat) (h : n < 2 ^ 64) :
    Loops.right_lineage_length_from_node_index n = right_lineage_length_from_node_index n := by
  simp only [Loops.right_lineage_length_from_node_index, right_lineage_length_from_node_index, descentFuel]
  exact rll_node_rec_eq 65 n h

/-! ### `get_authentication_path_node_indices` -/

theorem auth_loop_eq (p c : Nat) : ∀ fuel acc ni,
    Loops.get_authentication_path_node_indices_loop p c fuel acc ni
      = (authPathLoop p c fuel ni acc).map fun r => (r.2, r.1) := by
  intro fuel
  induction fuel with
  | zero => intros; rfl
  | succ f ih =>
    intro acc ni
    simp only [Loops.get_authentication_path_node_indices_loop, authPathLoop, gen_rll_own_eq, Bool.and_eq_true,
      decide_eq_true_eq, bne_iff_ne, ne_eq]
    by_cases hc : ni ≤ c ∧ ¬ni = p
    · simp only [hc, and_self, not_false_eq_true, if_true]
      cases right_lineage_length_and_own_height ni with
      | none => rfl
      | some q =>
        obtain ⟨a, b⟩ := q
        simp only [Option.bind_some, ih, add64, shl1, inc32, W64, W32, shl_one]
        by_cases ha : a = 0
        · simp only [ha, not_true_eq_false, if_false]
        · simp only [ha, not_false_eq_true, if_true]
    · simp only [hc, if_false, Option.map_some]

/-- **`get_authentication_path_node_indices`**: regenerated code = hand model, every input (incl. `none`) -/
theorem gen_auth_path_eq (s p c : Nat) :
    Loops.get_authentication_path_node_indices s p c = get_authentication_path_node_indices s p c := by
  simp only [Loops.get_authentication_path_node_indices, get_authentication_path_node_indices, auth_loop_eq,
    descentFuel]
  cases authPathLoop p c (65 + 1) s [] with
  | none => rfl
  | some r =>
    obtain ⟨a, b⟩ := r
    simp only [Option.map_some, Option.bind_some, beq_iff_eq]

/-! ### `node_index_to_leaf_index` (the hand model recurses on the height, the generated loop on fuel) -/

theorem n2l_loop_eq (ni : Nat) : ∀ h fuel node li, h < fuel → h < 2 ^ 32 →
    ∃ nd, Loops.node_index_to_leaf_index_loop ni fuel node h li = some (nd, 0, n2lLoop ni h node li) := by
  intro h
  induction h with
  | zero =>
    intro fuel node li hf _
    obtain ⟨f, rfl⟩ : ∃ f, fuel = f + 1 := ⟨fuel - 1, by omega⟩
    exact ⟨node, by simp only [Loops.node_index_to_leaf_index_loop, n2lLoop, gt_iff_lt, Nat.lt_irrefl, decide_false,
      Bool.false_eq_true, if_false]⟩
  | succ h ih =>
    intro fuel node li hf h32
    obtain ⟨f, rfl⟩ : ∃ f, fuel = f + 1 := ⟨fuel - 1, by omega⟩
    have e : (h + 1 + 4294967296 - 1) % 4294967296 = h := by rw [W32_eq] at *; omega
    simp only [Loops.node_index_to_leaf_index_loop, n2lLoop, gt_iff_lt, Nat.zero_lt_succ, decide_true, if_true, e,
      decide_eq_true_eq, shl_one, add64, shl1, W64]
    by_cases hc : ni ≤ left_child node (h + 1)
    · simp only [hc, if_true]
      exact ih f _ li (by omega) (by omega)
    · simp only [hc, if_false]
      exact ih f _ _ (by omega) (by omega)

/-- **`node_index_to_leaf_index`**: regenerated code = hand model, every `u64` input; in particular the 65 rounds
    granted to the generated `while node_height > 0` loop always suffice -/
theorem gen_n2l_eq (n : Nat) (h : n < 2 ^ 64) :
    Loops.node_index_to_leaf_index n = node_index_to_leaf_index n := by
  by_cases h0 : n = 0
  · subst h0; decide +kernel
  simp only [Loops.node_index_to_leaf_index, node_index_to_leaf_index, gen_rll_own_eq]
  cases right_lineage_length_and_own_height n with
  | none => rfl
  | some p =>
    obtain ⟨a, b⟩ := p
    simp only [Option.bind_some, bne_iff_ne, ne_eq]
    by_cases hb : b = 0
    · simp only [hb, not_true_eq_false, if_false]
      have hl := (TF.Mmr.leftmost_ancestor_spec n (by omega) h).1
      have hk := TF.Mmr.log2_lt_64 n (by omega) h
      obtain ⟨nd, e⟩ := n2l_loop_eq n (leftmost_ancestor n).2 65 (leftmost_ancestor n).1 0
        (by rw [hl]; show Nat.log2 n < 65; omega) (by rw [hl]; show Nat.log2 n < 2 ^ 32; omega)
      simp only [e, Option.bind_some]
    · simp only [hb, not_false_eq_true, if_true]

/-! ### `get_peak_heights` (a `for` loop in Rust, `filter` over a range in the hand model) -/

theorem peak_heights_for_eq (lc : Nat) : ∀ cnt i acc, i + cnt ≤ 64 →
    Loops.get_peak_heights_for lc cnt i acc
      = acc ++ (List.range' i cnt).filter fun b => (2 ^ b &&& lc) != 0 := by
  intro cnt
  induction cnt with
  | zero =>
    intro i acc _
    simp only [Loops.get_peak_heights_for, List.range'_zero, List.filter_nil, List.append_nil]
  | succ c ih =>
    intro i acc hi
    have e : i % 64 = i := Nat.mod_eq_of_lt (by omega)
    have e2 : 1 * 2 ^ (i % 64) % 18446744073709551616 = 2 ^ i := by rw [shl_one, e]
    simp only [Loops.get_peak_heights_for, e2, List.range'_succ, List.filter_cons]
    by_cases hb : ((2 ^ i &&& lc) != 0) = true
    · simp only [hb, if_true]
      rw [ih (i + 1) _ (by omega), List.append_assoc, List.singleton_append]
    · simp only [hb, if_false, Bool.false_eq_true]
      exact ih (i + 1) _ (by omega)

/-- **`get_peak_heights`**: regenerated code = hand model, every `u64` input -/
theorem gen_peak_heights_eq (n : Nat) (h : n < 2 ^ 64) : Loops.get_peak_heights n = get_peak_heights n := by
  simp only [Loops.get_peak_heights, get_peak_heights, beq_iff_eq]
  by_cases h0 : n = 0
  · simp only [h0, if_true]
  · simp only [h0, if_false]
    have hk := TF.Mmr.log2_lt_64 n (by omega) h
    rw [peak_heights_for_eq n _ 0 [] (by omega), List.nil_append, Nat.sub_zero, List.range_eq_range']

theorem peak_heights_for_ok (lc : Nat) : ∀ cnt i acc, i + cnt ≤ 64 →
    Loops.get_peak_heights_for_ok lc cnt i acc = true := by
  intro cnt
  induction cnt with
  | zero => intros; rfl
  | succ c ih =>
    intro i acc hi
    have h1 : i < 64 := by omega
    simp only [Loops.get_peak_heights_for_ok, h1, decide_true, Bool.true_and]
    exact ih (i + 1) _ (by omega)

/-- no shift amount of the `for` loop of `get_peak_heights` is out of range: debug and release builds agree, every `u64` -/
theorem gen_peak_heights_ok (n : Nat) (h : n < 2 ^ 64) : Loops.get_peak_heights_ok n = true := by
  simp only [Loops.get_peak_heights_ok, beq_iff_eq]
  by_cases h0 : n = 0
  · simp only [h0, if_true]
  · simp only [h0, if_false]
    have hk := TF.Mmr.log2_lt_64 n (by omega) h
    exact peak_heights_for_ok n _ 0 [] (by omega)

/-! ### `node_indices_added_by_append` (a counting `while` loop in Rust, a `map` over a range in the hand model) -/

/-- the right-lineage length computed by the (model of the) recursive function is below 64 for a `u64` argument:
    this is what makes the 65 rounds of the generated `while right_count != 0` loop sufficient -/
theorem rll_node_aux_lt : ∀ fuel n r, n < 2 ^ 64 → rllFromNodeIndexAux fuel n = some r → r < 64 := by
  intro fuel
  induction fuel with
  | zero => intro n r _ h; simp only [rllFromNodeIndexAux] at h; cases h
  | succ f ih =>
    intro n r hn h
    simp only [rllFromNodeIndexAux, add64, sub64, shl1, dec32, W64, W32] at h
    by_cases hc : bitLen n < (2 ^ bitLen n - n) % 18446744073709551616
    · simp only [hc, if_true] at h
      exact ih _ r (by rw [← W64_eq]; exact Nat.mod_lt _ (by decide)) h
    · simp only [hc, if_false, Option.some.injEq] at h
      have hb := bitLen_le_64 n hn
      have hlt := lt_two_pow_bitLen n
      have hp : 2 ^ bitLen n ≤ 2 ^ 64 := Nat.pow_le_pow_right (by decide) hb
      have e64 : (2:Nat) ^ 64 = 18446744073709551616 := by decide
      have h0 : n = 0 → 2 ^ bitLen n = 1 := by intro h0; subst h0; decide
      omega

theorem added_loop_eq (n0 : Nat) : ∀ rc fuel added s, rc < fuel → rc < 2 ^ 32 →
    Loops.node_indices_added_by_append_loop fuel ((n0 + s) % 18446744073709551616) added rc
      = some ((n0 + s + rc) % 18446744073709551616,
              added ++ (List.range' (s + 1) rc).map (fun k => (n0 + k) % 18446744073709551616), 0) := by
  intro rc
  induction rc with
  | zero =>
    intro fuel added s hf _
    obtain ⟨f, rfl⟩ : ∃ f, fuel = f + 1 := ⟨fuel - 1, by omega⟩
    simp only [Loops.node_indices_added_by_append_loop, bne_self_eq_false, Bool.false_eq_true, if_false,
      Nat.add_zero, List.range'_zero, List.map_nil, List.append_nil]
  | succ rc ih =>
    intro fuel added s hf h32
    obtain ⟨f, rfl⟩ : ∃ f, fuel = f + 1 := ⟨fuel - 1, by omega⟩
    have e : (rc + 1 + 4294967296 - 1) % 4294967296 = rc := by rw [W32_eq] at *; omega
    have hne : (rc + 1 != 0) = true := by simp only [bne_iff_ne, ne_eq]; omega
    have e2 : ((n0 + s) % 18446744073709551616 + 1) % 18446744073709551616 = (n0 + (s + 1)) % 18446744073709551616 := by
      rw [Nat.mod_add_mod, Nat.add_assoc]
    simp only [Loops.node_indices_added_by_append_loop, hne, if_true, e, e2]
    rw [ih f _ (s + 1) (by omega) (by omega), List.range'_succ, List.map_cons, List.append_assoc,
      List.singleton_append]
    have e3 : n0 + (s + 1) + rc = n0 + s + (rc + 1) := by omega
    rw [e3]

/-- **`node_indices_added_by_append`**: regenerated code = hand model, every input -/
theorem gen_added_eq (c : Nat) : Loops.node_indices_added_by_append c = node_indices_added_by_append c := by
  have hlt : leaf_index_to_node_index c < 2 ^ 64 := by
    unfold leaf_index_to_node_index; rw [← W64_eq]; exact Nat.mod_lt _ (by decide)
  simp only [Loops.node_indices_added_by_append, node_indices_added_by_append, gen_rll_node_eq _ hlt]
  cases hr : right_lineage_length_from_node_index (leaf_index_to_node_index c) with
  | none => rfl
  | some rc =>
    have hrc : rc < 64 := rll_node_aux_lt _ _ rc hlt hr
    have e0 : leaf_index_to_node_index c = (leaf_index_to_node_index c + 0) % 18446744073709551616 := by
      rw [Nat.add_zero, Nat.mod_eq_of_lt (by rw [W64_eq]; exact hlt)]
    have hl := added_loop_eq (leaf_index_to_node_index c) rc 65 [leaf_index_to_node_index c] 0 (by omega) (by omega)
    rw [← e0] at hl
    simp only [hl, Option.bind_some, Option.map_some, List.range_eq_range', List.range'_succ, List.map_cons, add64, W64,
      List.singleton_append, Nat.zero_add, ← e0]

/-! ### `get_peak_heights_and_peak_node_indices` -/

local notation "L1" => Loops.get_peak_heights_and_peak_node_indices_loop
local notation "L2" => Loops.get_peak_heights_and_peak_node_indices_loop2

theorem peaks_L2_exit (nc f : Nat) (hs ns : List Nat) (h c : Nat) (hx : ¬(nc < c ∧ 0 < h)) :
    L2 nc (f + 1) hs ns h c = some (hs, ns, h, c) := by
  simp only [Loops.get_peak_heights_and_peak_node_indices_loop2, gt_iff_lt, Bool.and_eq_true, decide_eq_true_eq, hx,
    if_false]

theorem peaks_L1_exit (nc f : Nat) (hs ns : List Nat) (c : Nat) :
    L1 nc (f + 1) hs ns 0 c = some (hs, ns, 0, c) := by
  simp only [Loops.get_peak_heights_and_peak_node_indices_loop, gt_iff_lt, Nat.lt_irrefl, decide_false,
    Bool.false_eq_true, if_false]

/-- the Rust loop spins forever when `candidate ≤ node_count` with `height > 0`: the generated code runs out of fuel -/
theorem peaks_spin (nc : Nat) : ∀ fo hs ns h c, 0 < h → c ≤ nc → L1 nc fo hs ns h c = none := by
  intro fo
  induction fo with
  | zero => intros; rfl
  | succ f ih =>
    intro hs ns h c hh hc
    have e2 : L2 nc 65 hs ns h c = some (hs, ns, h, c) := peaks_L2_exit nc 64 hs ns h c (by omega)
    simp only [Loops.get_peak_heights_and_peak_node_indices_loop, gt_iff_lt, hh, decide_true, if_true, e2,
      Option.bind_some]
    exact ih hs ns h c hh hc

/-- the two nested generated loops against the hand model's single recursion on the height.
    `A`: the outer loop started at height `h` with more than `h` rounds; `B`: the inner loop started at height `h` above
    the node count with more than `h` rounds, followed by the outer loop with at least `h` (and at least one) rounds. -/
theorem peaks_loops_eq (nc : Nat) : ∀ h, h < 65 →
    (∀ fo hs ns c, h < fo →
      (L1 nc fo hs ns h c).map (fun t => (t.1, t.2.1)) = peaksLoop nc h c hs ns) ∧
    (∀ fi fo hs ns c, nc < c → h < fi → h ≤ fo → 0 < fo →
      ((L2 nc fi hs ns h c).bind fun t => L1 nc fo t.1 t.2.1 t.2.2.1 t.2.2.2).map (fun t => (t.1, t.2.1))
        = peaksLoop nc h c hs ns) := by
  intro h
  induction h with
  | zero =>
    intro _
    refine ⟨?_, ?_⟩
    · intro fo hs ns c hf
      obtain ⟨f, rfl⟩ : ∃ f, fo = f + 1 := ⟨fo - 1, by omega⟩
      simp only [peaks_L1_exit, peaksLoop, Option.map_some]
    · intro fi fo hs ns c _ hfi _ hfo
      obtain ⟨f, rfl⟩ : ∃ f, fi = f + 1 := ⟨fi - 1, by omega⟩
      obtain ⟨g, rfl⟩ : ∃ g, fo = g + 1 := ⟨fo - 1, by omega⟩
      rw [peaks_L2_exit nc f hs ns 0 c (by omega)]
      simp only [Option.bind_some, peaks_L1_exit, peaksLoop, Option.map_some]
  | succ h ih =>
    intro h65
    obtain ⟨ihA, ihB⟩ := ih (by omega)
    have e : (h + 1 + 4294967296 - 1) % 4294967296 = h := by omega
    have hB : ∀ fi fo hs ns c, nc < c → h + 1 < fi → h + 1 ≤ fo → 0 < fo →
        ((L2 nc fi hs ns (h + 1) c).bind fun t => L1 nc fo t.1 t.2.1 t.2.2.1 t.2.2.2).map (fun t => (t.1, t.2.1))
          = peaksLoop nc (h + 1) c hs ns := by
      intro fi fo hs ns c hc hfi hfo hfo0
      obtain ⟨f, rfl⟩ : ∃ f, fi = f + 1 := ⟨fi - 1, by omega⟩
      have hcond : (nc < c ∧ 0 < h + 1) := ⟨hc, by omega⟩
      simp only [Loops.get_peak_heights_and_peak_node_indices_loop2, peaksLoop, gt_iff_lt, Bool.and_eq_true,
        decide_eq_true_eq, hcond, and_self, if_true, e]
      by_cases hle : left_child c (h + 1) ≤ nc
      · simp only [hle, if_true, Option.bind_some]
        exact ihA fo _ _ _ (by omega)
      · simp only [hle, if_false]
        exact ihB f fo hs ns _ (by omega) (by omega) (by omega) hfo0
    refine ⟨?_, hB⟩
    intro fo hs ns c hf
    obtain ⟨f, rfl⟩ : ∃ f, fo = f + 1 := ⟨fo - 1, by omega⟩
    by_cases hc : nc < c
    · have := hB 65 f hs ns c hc (by omega) (by omega) (by omega)
      simp only [Loops.get_peak_heights_and_peak_node_indices_loop, gt_iff_lt, Nat.zero_lt_succ, decide_true, if_true]
      exact this
    · rw [peaks_spin nc (f + 1) hs ns (h + 1) c (by omega) (by omega)]
      simp only [peaksLoop, gt_iff_lt, hc, if_false, Option.map_none]

/-- **`get_peak_heights_and_peak_node_indices`**: regenerated code = hand model for every leaf count below `2^63`
    (the documented domain; both are `none` where the Rust loops spin forever) -/
theorem gen_peaks_eq (n : Nat) (h : n < 2 ^ 63) :
    Loops.get_peak_heights_and_peak_node_indices n = get_peak_heights_and_peak_node_indices n := by
  simp only [Loops.get_peak_heights_and_peak_node_indices, get_peak_heights_and_peak_node_indices, beq_iff_eq]
  by_cases h0 : n = 0
  · simp only [h0, if_true]
  simp only [h0, if_false, dec32, W32, gt_iff_lt, decide_eq_true_eq]
  have e1 : (n + 18446744073709551616 - 1) % 18446744073709551616 = n - 1 := by omega
  rw [e1]
  have hl := (TF.Mmr.l2n_spec (n - 1) (by omega)).1
  have hpc := TF.Mmr.popCount_le (n - 1)
  have hni1 : 1 ≤ leaf_index_to_node_index (n - 1) := by omega
  have hni2 : leaf_index_to_node_index (n - 1) < 2 ^ 64 := by omega
  have hla := (TF.Mmr.leftmost_ancestor_spec _ hni1 hni2).1
  have hk := TF.Mmr.log2_lt_64 _ hni1 hni2
  have hnc := (TF.Mmr.num_nodes_spec n h).1
  have hpcn := TF.Mmr.popCount_le n
  generalize leftmost_ancestor (leaf_index_to_node_index (n - 1)) = la at hla ⊢
  generalize Nat.log2 (leaf_index_to_node_index (n - 1)) = k at hla hk
  generalize num_leafs_to_num_nodes n = nc at hnc ⊢
  subst hla
  -- the height the loops start with is below 64
  have hth : (if nc < 2 ^ (k + 1) - 1 then (left_child (2 ^ (k + 1) - 1) k, (k + 4294967296 - 1) % 4294967296)
      else (2 ^ (k + 1) - 1, k)).2 < 65 := by
    by_cases hc : nc < 2 ^ (k + 1) - 1
    · simp only [hc, if_true]
      have : k ≠ 0 := by
        intro hk0; subst hk0
        have : (2:Nat) ^ (0 + 1) - 1 = 1 := by decide
        omega
      omega
    · simp only [hc, if_false]; omega
  generalize (if nc < 2 ^ (k + 1) - 1 then (left_child (2 ^ (k + 1) - 1) k, (k + 4294967296 - 1) % 4294967296)
      else (2 ^ (k + 1) - 1, k)) = top at hth ⊢
  have := (peaks_loops_eq nc top.2 hth).1 65 [top.2] [top.1] (right_sibling top.1 top.2) hth
  rw [← this]
  cases L1 nc 65 [top.2] [top.1] top.2 (right_sibling top.1 top.2) with
  | none => rfl
  | some t => simp only [Option.bind_some, Option.map_some]

end TF.GenBridge
