import Mathlib.Tactic.Ring
import Mathlib.Tactic.Linarith
import TF.Proofs.MmrIndex
import TF.Proofs.MmrE
/-!
Node-index theory for the MMR loop functions (`TF/Model/MmrIndex.lean`): the post-order index of the root of the
aligned block `j` of level `l` is `nodeIdx l j = (j+1)·2^(l+1) − 1 − popCount j`; the binary search of
`right_lineage_length_and_own_height` finds `(trailingOnes j, l)` for it; siblings and parents.
-/
namespace TF.MmrE
open TF TF.Gen TF.Model.Mmr TF.Spec.MmrE

/-- post-order node index of the root of the aligned block `j` of `2^l` leaves -/
def nodeIdx (l j : Nat) : Nat := (j + 1) * 2 ^ (l + 1) - 1 - TF.popCount j

theorem pc_le (j : Nat) : TF.popCount j ≤ j := TF.Mmr.popCount_le j

theorem pc_double (j : Nat) : TF.popCount (2 * j) = TF.popCount j := by
  rw [popCount_unfold]; have : 2 * j % 2 = 0 := by omega
  have e : 2 * j / 2 = j := by omega
  rw [this, e]; omega

theorem pc_double_succ (j : Nat) : TF.popCount (2 * j + 1) = TF.popCount j + 1 := by
  rw [popCount_unfold]; have : (2 * j + 1) % 2 = 1 := by omega
  have e : (2 * j + 1) / 2 = j := by omega
  rw [this, e]; omega

theorem pc_succ_le (j : Nat) : TF.popCount (j + 1) ≤ TF.popCount j + 1 := by
  induction j using Nat.strongRecOn with
  | _ j ih =>
    have hj := popCount_unfold j
    have hj1 := popCount_unfold (j + 1)
    by_cases h : j % 2 = 0
    · have e : (j + 1) / 2 = j / 2 := by omega
      rw [e] at hj1; omega
    · have e : (j + 1) / 2 = j / 2 + 1 := by omega
      rw [e] at hj1
      have := ih (j / 2) (by omega)
      omega

/-- the defining equation, without truncated subtraction -/
theorem nodeIdx_eq (l j : Nat) : nodeIdx l j + TF.popCount j + 1 = (j + 1) * 2 ^ (l + 1) := by
  unfold nodeIdx
  have h1 := pc_le j
  have h2 : j + 1 ≤ (j + 1) * 2 ^ (l + 1) := Nat.le_mul_of_pos_right _ (Nat.pow_pos (by omega))
  omega

theorem nodeIdx_pos (l j : Nat) : 1 ≤ nodeIdx l j := by
  have h := nodeIdx_eq l j
  have h1 := pc_le j
  have h2 : (j + 1) * 2 ≤ (j + 1) * 2 ^ (l + 1) :=
    Nat.mul_le_mul_left _ (by rw [Nat.pow_succ]; have : 0 < 2 ^ l := Nat.pow_pos (by omega); omega)
  omega

theorem nodeIdx_left (l j : Nat) : nodeIdx (l + 1) j = nodeIdx l (2 * j) + 2 ^ (l + 1) := by
  have h1 := nodeIdx_eq (l + 1) j
  have h2 := nodeIdx_eq l (2 * j)
  rw [pc_double] at h2
  have e : (j + 1) * 2 ^ (l + 1 + 1) = (2 * j + 1) * 2 ^ (l + 1) + 2 ^ (l + 1) := by ring
  omega

theorem nodeIdx_right (l j : Nat) : nodeIdx (l + 1) j = nodeIdx l (2 * j + 1) + 1 := by
  have h1 := nodeIdx_eq (l + 1) j
  have h2 := nodeIdx_eq l (2 * j + 1)
  rw [pc_double_succ] at h2
  have e : (j + 1) * 2 ^ (l + 1 + 1) = (2 * j + 1 + 1) * 2 ^ (l + 1) := by ring
  omega

theorem nodeIdx_lt_succ (l j : Nat) : nodeIdx l j < nodeIdx l (j + 1) := by
  have h1 := nodeIdx_eq l j
  have h2 := nodeIdx_eq l (j + 1)
  have h3 := pc_succ_le j
  have e : (j + 1 + 1) * 2 ^ (l + 1) = (j + 1) * 2 ^ (l + 1) + 2 ^ (l + 1) := by ring
  have : 2 ≤ 2 ^ (l + 1) := by rw [Nat.pow_succ]; have : 0 < 2 ^ l := Nat.pow_pos (by omega); omega
  omega

theorem nodeIdx_mono (l : Nat) {j j' : Nat} (h : j ≤ j') : nodeIdx l j ≤ nodeIdx l j' := by
  induction j' with
  | zero => have : j = 0 := by omega
            subst this; exact Nat.le_refl _
  | succ k ih =>
    by_cases hk : j ≤ k
    · exact Nat.le_trans (ih hk) (Nat.le_of_lt (nodeIdx_lt_succ l k))
    · have : j = k + 1 := by omega
      subst this; exact Nat.le_refl _

theorem nodeIdx_strictMono (l : Nat) {j j' : Nat} (h : j < j') : nodeIdx l j < nodeIdx l j' :=
  Nat.lt_of_lt_of_le (nodeIdx_lt_succ l j) (nodeIdx_mono l h)

/-- a parent has a larger index than its child -/
theorem nodeIdx_lt_parent (l j : Nat) : nodeIdx l j < nodeIdx (l + 1) (j / 2) := by
  by_cases h : j % 2 = 0
  · have e : j = 2 * (j / 2) := by omega
    have := nodeIdx_left l (j / 2)
    rw [← e] at this
    have : 0 < 2 ^ (l + 1) := Nat.pow_pos (by omega)
    omega
  · have e : j = 2 * (j / 2) + 1 := by omega
    have := nodeIdx_right l (j / 2)
    rw [← e] at this
    omega

/-- an ancestor-or-self has an index at least as large -/
theorem nodeIdx_le_ancestor (l j : Nat) : ∀ d : Nat, nodeIdx l j ≤ nodeIdx (l + d) (j / 2 ^ d) := by
  intro d
  induction d with
  | zero => simp
  | succ d ih =>
    have := nodeIdx_lt_parent (l + d) (j / 2 ^ d)
    have e2 : j / 2 ^ d / 2 = j / 2 ^ (d + 1) := by rw [Nat.div_div_eq_div_mul, Nat.pow_succ]
    have e : l + (d + 1) = l + d + 1 := by omega
    rw [e2] at this
    rw [e]; omega

theorem nodeIdx_lt_ancestor (l j : Nat) (d : Nat) (hd : 0 < d) : nodeIdx l j < nodeIdx (l + d) (j / 2 ^ d) := by
  obtain ⟨d', rfl⟩ : ∃ d', d = d' + 1 := ⟨d - 1, by omega⟩
  have h1 := nodeIdx_le_ancestor l j d'
  have h2 := nodeIdx_lt_parent (l + d') (j / 2 ^ d')
  have e2 : j / 2 ^ d' / 2 = j / 2 ^ (d' + 1) := by rw [Nat.div_div_eq_div_mul, Nat.pow_succ]
  have e : l + (d' + 1) = l + d' + 1 := by omega
  rw [e2] at h2
  rw [e]; omega

theorem pc_mul_two_pow (J k : Nat) : TF.popCount (J * 2 ^ k) = TF.popCount J := by
  induction k with
  | zero => simp
  | succ k ih =>
    have e : J * 2 ^ (k + 1) = 2 * (J * 2 ^ k) := by ring
    rw [e, pc_double, ih]

/-- every node of the subtree below `(l + k, J)` has an index above the leftmost leaf's predecessor: it is at least
    `nodeIdx (l+k) J − 2^(l+k+1) + 2^(l+1)` -/
theorem nodeIdx_ge_in_subtree (l k J j : Nat) (hj : j / 2 ^ k = J) :
    nodeIdx (l + k) J + 2 ^ (l + 1) ≤ nodeIdx l j + 2 ^ (l + k + 1) := by
  have hpos : 0 < 2 ^ k := Nat.pow_pos (by omega)
  have hge : J * 2 ^ k ≤ j := by
    rw [← hj]; exact Nat.div_mul_le_self j (2 ^ k)
  have hm := nodeIdx_mono l hge
  have h1 := nodeIdx_eq l (J * 2 ^ k)
  rw [pc_mul_two_pow] at h1
  have h2 := nodeIdx_eq (l + k) J
  have e : (J * 2 ^ k + 1) * 2 ^ (l + 1) + 2 ^ (l + k + 1) = (J + 1) * 2 ^ (l + k + 1) + 2 ^ (l + 1) := by
    have : 2 ^ (l + k + 1) = 2 ^ k * 2 ^ (l + 1) := by rw [← Nat.pow_add]; congr 1; omega
    rw [this]; ring
  omega

theorem succ_le_nodeIdx (l j : Nat) : j + 1 ≤ nodeIdx l j := by
  have h := nodeIdx_eq l j
  have h1 := pc_le j
  have h2 : (j + 1) * 2 ≤ (j + 1) * 2 ^ (l + 1) :=
    Nat.mul_le_mul_left _ (by rw [Nat.pow_succ]; have : 0 < 2 ^ l := Nat.pow_pos (by omega); omega)
  omega

theorem two_pow_le_nodeIdx (l j : Nat) : 2 ^ (l + 1) ≤ nodeIdx l j + 1 := by
  have h := nodeIdx_eq l j
  have h1 := pc_le j
  have : (j + 1) * 2 ^ (l + 1) = j * 2 ^ (l + 1) + 2 ^ (l + 1) := by ring
  have h3 : j ≤ j * 2 ^ (l + 1) := Nat.le_mul_of_pos_right _ (Nat.pow_pos (by omega))
  omega

/-- one iteration of the loop of `right_lineage_length_and_own_height` at the inner node `(L+1, jc)` -/
theorem rllLoop_step (node f L jc cnt : Nat) (hL : L + 1 < 64) (hlt : nodeIdx (L + 1) jc < 2 ^ 64)
    (hne : nodeIdx (L + 1) jc ≠ node) :
    rllLoop node (f + 1) (nodeIdx (L + 1) jc) (L + 1) cnt =
      if nodeIdx L (2 * jc) < node then rllLoop node f (nodeIdx L (2 * jc + 1)) L (inc32 cnt)
      else rllLoop node f (nodeIdx L (2 * jc)) L 0 := by
  have hleft := nodeIdx_left L jc
  have hright := nodeIdx_right L jc
  have hpow : 0 < 2 ^ (L + 1) := Nat.pow_pos (by omega)
  have hlc := (TF.Mmr.left_child_spec (nodeIdx (L + 1) jc) (L + 1) hL hlt (by omega)).1
  have hrc := (TF.Mmr.right_child_spec (nodeIdx (L + 1) jc) (nodeIdx_pos _ _) hlt).1
  have hdec : dec32 (L + 1) = L := by unfold dec32 W32; omega
  have hlcv : nodeIdx (L + 1) jc - 2 ^ (L + 1) = nodeIdx L (2 * jc) := by omega
  have hrcv : nodeIdx (L + 1) jc - 1 = nodeIdx L (2 * jc + 1) := by omega
  rw [rllLoop, if_neg hne]
  simp only [hlc, hlcv, hrc, hrcv, hdec]

/-- **the binary search of `right_lineage_length_and_own_height`**: started at an ancestor `(l+d, j / 2^d)` of the
    node `(l, j)` with the count of trailing right turns so far, it ends with `(trailingOnes j, l)` -/
theorem rllLoop_spec (l j : Nat) : ∀ (d fuel : Nat), d < fuel → l + d < 64 → nodeIdx (l + d) (j / 2 ^ d) < 2 ^ 64 →
    rllLoop (nodeIdx l j) fuel (nodeIdx (l + d) (j / 2 ^ d)) (l + d) (TF.trailingOnes (j / 2 ^ d))
      = some (TF.trailingOnes j, l) := by
  intro d
  induction d with
  | zero =>
    intro fuel hf _ _
    obtain ⟨f, rfl⟩ : ∃ f, fuel = f + 1 := ⟨fuel - 1, by omega⟩
    simp [rllLoop]
  | succ d ih =>
    intro fuel hf h64 hlt
    obtain ⟨f, rfl⟩ : ∃ f, fuel = f + 1 := ⟨fuel - 1, by omega⟩
    have hanc := nodeIdx_lt_ancestor l j (d + 1) (by omega)
    have ediv : j / 2 ^ d / 2 = j / 2 ^ (d + 1) := by rw [Nat.div_div_eq_div_mul, Nat.pow_succ]
    generalize hjc : j / 2 ^ (d + 1) = jc at *
    -- restate with `L + 1`, `L = l + d`
    change l + d + 1 < 64 at h64
    change nodeIdx (l + d + 1) jc < 2 ^ 64 at hlt
    change nodeIdx l j < nodeIdx (l + d + 1) jc at hanc
    show rllLoop (nodeIdx l j) (f + 1) (nodeIdx (l + d + 1) jc) (l + d + 1) (TF.trailingOnes jc) = _
    rw [rllLoop_step (nodeIdx l j) f (l + d) jc _ h64 hlt (by omega)]
    have hleft := nodeIdx_left (l + d) jc
    have hright := nodeIdx_right (l + d) jc
    have hpow : 0 < 2 ^ (l + d + 1) := Nat.pow_pos (by omega)
    by_cases hpar : (j / 2 ^ d) % 2 = 0
    · have hj' : 2 * jc = j / 2 ^ d := by omega
      have hle := nodeIdx_le_ancestor l j d
      rw [hj', if_neg (by omega)]
      have := ih f (by omega) (by omega) (by rw [← hj']; omega)
      rw [TF.Mmr.trailingOnes_even _ hpar] at this
      exact this
    · have hj' : 2 * jc + 1 = j / 2 ^ d := by omega
      have hge := nodeIdx_ge_in_subtree l d (j / 2 ^ d) j rfl
      have h2l : 2 ≤ 2 ^ (l + 1) := by rw [Nat.pow_succ]; have : 0 < 2 ^ l := Nat.pow_pos (by omega); omega
      rw [hj'] at hright
      rw [if_pos (by omega), hj']
      have hto : TF.trailingOnes (j / 2 ^ d) = TF.trailingOnes jc + 1 := by
        rw [TF.Mmr.trailingOnes_odd _ (by omega), ediv]
      have hjc' := succ_le_nodeIdx (l + d + 1) jc
      have htl := TF.Mmr.trailingOnes_lt 64 jc (by omega)
      have hinc : inc32 (TF.trailingOnes jc) = TF.trailingOnes (j / 2 ^ d) := by
        unfold inc32 W32; omega
      rw [hinc]
      exact ih f (by omega) (by omega) (by omega)

theorem pc_two_pow (k : Nat) : TF.popCount (2 ^ k) = 1 := by
  have := pc_mul_two_pow 1 k
  rw [Nat.one_mul] at this
  rw [this, popCount_unfold 1]; simp [popCount_zero]

/-- **`right_lineage_length_and_own_height`** of the node `(l, j)`: the number of trailing one bits of `j` (how many
    ancestors-or-self in a row are right children) and the height `l` -/
theorem rll_spec (l j : Nat) (hlt : nodeIdx l j < 2 ^ 64) :
    right_lineage_length_and_own_height (nodeIdx l j) = some (TF.trailingOnes j, l) := by
  have hpos := nodeIdx_pos l j
  have hla := (TF.Mmr.leftmost_ancestor_spec (nodeIdx l j) hpos hlt).1
  have h0lt := TF.Mmr.log2_lt_64 (nodeIdx l j) hpos hlt
  have hne : nodeIdx l j ≠ 0 := by omega
  have hlow := two_pow_log2_le hne
  have hhigh := lt_two_pow_log2_succ (nodeIdx l j)
  generalize hh0 : Nat.log2 (nodeIdx l j) = h0 at *
  have h2 := two_pow_le_nodeIdx l j
  -- l ≤ h0
  have hl : l ≤ h0 := by
    by_contra hc
    have : 2 ^ (h0 + 1) ≤ 2 ^ l := Nat.pow_le_pow_right (by omega) (by omega)
    have : 2 ^ (l + 1) = 2 ^ l * 2 := Nat.pow_succ ..
    omega
  obtain ⟨d, rfl⟩ : ∃ d, h0 = l + d := ⟨h0 - l, by omega⟩
  -- j < 2^d
  have hj : j < 2 ^ d := by
    by_contra hc
    have hm := nodeIdx_mono l (Nat.le_of_not_lt hc)
    have he := nodeIdx_eq l (2 ^ d)
    rw [pc_two_pow] at he
    have e : (2 ^ d + 1) * 2 ^ (l + 1) = 2 ^ (l + d + 1) + 2 ^ (l + 1) := by
      have : 2 ^ (l + d + 1) = 2 ^ d * 2 ^ (l + 1) := by rw [← Nat.pow_add]; congr 1; omega
      rw [this]; ring
    have : 2 ≤ 2 ^ (l + 1) := by rw [Nat.pow_succ]; have : 0 < 2 ^ l := Nat.pow_pos (by omega); omega
    omega
  have hdiv : j / 2 ^ d = 0 := Nat.div_eq_of_lt hj
  have htop : nodeIdx (l + d) 0 = 2 ^ (l + d + 1) - 1 := by
    have := nodeIdx_eq (l + d) 0
    simp [popCount_zero] at this
    omega
  unfold right_lineage_length_and_own_height
  rw [hla]
  simp only
  have := rllLoop_spec l j d descentFuel (by unfold descentFuel; omega) h0lt
    (by rw [hdiv, htop]; have : 2 ^ (l + d + 1) ≤ 2 ^ 64 := Nat.pow_le_pow_right (by omega) (by omega); omega)
  rw [hdiv, htop, TF.Mmr.trailingOnes_zero] at this
  exact this

/-- the node numbering is injective (below `2^64`) -/
theorem nodeIdx_inj (l j l' j' : Nat) (hlt : nodeIdx l j < 2 ^ 64) (h : nodeIdx l j = nodeIdx l' j') :
    l = l' ∧ j = j' := by
  have h1 := rll_spec l j hlt
  have h2 := rll_spec l' j' (by rw [← h]; exact hlt)
  rw [h, h2] at h1
  have hl : l' = l := (Prod.mk.inj (Option.some.inj h1)).2
  subst hl
  refine ⟨rfl, ?_⟩
  rcases Nat.lt_trichotomy j j' with hlt' | heq | hgt
  · have := nodeIdx_strictMono l' hlt'; omega
  · exact heq
  · have := nodeIdx_strictMono l' hgt; omega

theorem trailingOnes_ne_zero_iff (j : Nat) : TF.trailingOnes j ≠ 0 ↔ j % 2 = 1 := by
  constructor
  · intro h
    by_contra hc
    exact h (TF.Mmr.trailingOnes_even j (by omega))
  · intro h
    rw [TF.Mmr.trailingOnes_odd j h]; omega

/-- **sibling and parent** of the node `(l, j)` -/
theorem siblingAndParent_spec (l j : Nat) (hl : l < 63) (hlt : nodeIdx (l + 1) (j / 2) < 2 ^ 64) :
    siblingAndParent (nodeIdx l j) = some (decide (j % 2 = 1), nodeIdx l (sibBlk j), nodeIdx (l + 1) (j / 2)) := by
  have hpar := nodeIdx_lt_parent l j
  have hlt0 : nodeIdx l j < 2 ^ 64 := by omega
  have h2 := two_pow_le_nodeIdx l j
  have hpow : 0 < 2 ^ (l + 1) := Nat.pow_pos (by omega)
  unfold siblingAndParent
  rw [rll_spec l j hlt0]
  simp only
  by_cases hodd : j % 2 = 1
  · have hto : TF.trailingOnes j ≠ 0 := (trailingOnes_ne_zero_iff j).mpr hodd
    rw [if_pos hto]
    have e : j = 2 * (j / 2) + 1 := by omega
    have hr := nodeIdx_right l (j / 2)
    rw [← e] at hr
    have hsib : sibBlk j = j - 1 := by unfold sibBlk; rw [if_neg (by omega)]
    -- the left sibling
    have he1 := nodeIdx_eq l j
    have he2 := nodeIdx_eq l (j - 1)
    have hpc : TF.popCount j = TF.popCount (j - 1) + 1 := by
      have : j - 1 = 2 * (j / 2) := by omega
      rw [this, pc_double, e, pc_double_succ]
      congr 2; omega
    have hmul : (j + 1) * 2 ^ (l + 1) = (j - 1 + 1) * 2 ^ (l + 1) + 2 ^ (l + 1) := by
      have : j + 1 = (j - 1 + 1) + 1 := by omega
      rw [this]; ring
    have hp1 := nodeIdx_pos l (j - 1)
    have hrel : nodeIdx l j + 1 = nodeIdx l (j - 1) + 2 ^ (l + 1) := by omega
    have hge : 2 ^ (l + 1) ≤ nodeIdx l j := by omega
    have hls := (TF.Mmr.left_sibling_spec (nodeIdx l j) l hl hlt0 hge).1
    have hadd : add64 (nodeIdx l j) 1 = nodeIdx (l + 1) (j / 2) := by unfold add64 W64; omega
    have hv : nodeIdx l j - 2 ^ (l + 1) + 1 = nodeIdx l (j - 1) := by omega
    rw [hls, hadd, hsib, hv]
    simp only [hodd, decide_true]
  · have hto : ¬ TF.trailingOnes j ≠ 0 := fun h => hodd ((trailingOnes_ne_zero_iff j).mp h)
    rw [if_neg hto]
    have e : j = 2 * (j / 2) := by omega
    have hl' := nodeIdx_left l (j / 2)
    rw [← e] at hl'
    have hsib : sibBlk j = j + 1 := by unfold sibBlk; rw [if_pos (by omega)]
    have he1 := nodeIdx_eq l j
    have he2 := nodeIdx_eq l (j + 1)
    have hpc : TF.popCount (j + 1) = TF.popCount j + 1 := by
      have : j + 1 = 2 * (j / 2) + 1 := by omega
      rw [this, pc_double_succ, e, pc_double]
      congr 2; omega
    have hmul : (j + 1 + 1) * 2 ^ (l + 1) = (j + 1) * 2 ^ (l + 1) + 2 ^ (l + 1) := by ring
    have hbound : nodeIdx l j + 2 ^ (l + 1) < 2 ^ 64 := by omega
    have hrs := (TF.Mmr.right_sibling_spec (nodeIdx l j) l hl (Nat.lt_succ_of_lt hbound)).1
    have hinc : inc32 l = l + 1 := by unfold inc32 W32; omega
    have hshl : shl1 (l + 1) = 2 ^ (l + 1) := by
      unfold shl1; have : (l + 1) % 64 = l + 1 := by omega
      rw [this]
    have hadd : add64 (nodeIdx l j) (2 ^ (l + 1)) = nodeIdx (l + 1) (j / 2) := by unfold add64 W64; omega
    have hv : nodeIdx l j + 2 ^ (l + 1) - 1 = nodeIdx l (j + 1) := by omega
    rw [hrs, hinc, hshl, hadd, hsib, hv]
    simp only [hodd, decide_false]

/-- **`parent`** of the node `(l, j)` -/
theorem parent_spec (l j : Nat) (hl : l < 63) (hlt : nodeIdx (l + 1) (j / 2) < 2 ^ 64) :
    parent (nodeIdx l j) = some (nodeIdx (l + 1) (j / 2)) := by
  have hpar := nodeIdx_lt_parent l j
  have hlt0 : nodeIdx l j < 2 ^ 64 := by omega
  unfold parent
  rw [rll_spec l j hlt0]
  simp only
  by_cases hodd : j % 2 = 1
  · rw [if_pos ((trailingOnes_ne_zero_iff j).mpr hodd)]
    have e : j = 2 * (j / 2) + 1 := by omega
    have hr := nodeIdx_right l (j / 2)
    rw [← e] at hr
    have hadd : add64 (nodeIdx l j) 1 = nodeIdx (l + 1) (j / 2) := by unfold add64 W64; omega
    rw [hadd]
  · rw [if_neg (fun h => hodd ((trailingOnes_ne_zero_iff j).mp h))]
    have e : j = 2 * (j / 2) := by omega
    have hl' := nodeIdx_left l (j / 2)
    rw [← e] at hl'
    have hinc : inc32 l = l + 1 := by unfold inc32 W32; omega
    have hshl : shl1 (l + 1) = 2 ^ (l + 1) := by
      unfold shl1; have : (l + 1) % 64 = l + 1 := by omega
      rw [this]
    have hadd : add64 (nodeIdx l j) (2 ^ (l + 1)) = nodeIdx (l + 1) (j / 2) := by unfold add64 W64; omega
    rw [hinc, hshl, hadd]

/-- a block inside an MMR of fewer than `2^63` leaves has a node index below `2^64` -/
theorem nodeIdx_lt_of_block (l j n : Nat) (hblk : (j + 1) * 2 ^ l ≤ n) (hn : n < 2 ^ 63) : nodeIdx l j < 2 ^ 64 := by
  have h := nodeIdx_eq l j
  have e : (j + 1) * 2 ^ (l + 1) = 2 * ((j + 1) * 2 ^ l) := by ring
  omega

theorem l2n_eq_nodeIdx (i : Nat) (h : i < 2 ^ 63) : leaf_index_to_node_index i = nodeIdx 0 i := by
  rw [(TF.Mmr.l2n_spec i h).1]
  have := nodeIdx_eq 0 i
  have := pc_le i
  omega

/-- the walk of `MmrMembershipProof::get_node_indices`: from the node `(l, j)`, `k` levels up, collecting siblings -/
theorem get_node_indices_go_spec : ∀ (k l j : Nat) (acc : List Nat), l + k ≤ 63 →
    nodeIdx (l + k) (j / 2 ^ k) < 2 ^ 64 →
    get_node_indices.go k (nodeIdx l j) acc
      = some (acc ++ (List.range k).map (fun t => nodeIdx (l + t) (sibBlk (j / 2 ^ t)))) := by
  intro k
  induction k with
  | zero => intro l j acc _ _; simp [get_node_indices.go]
  | succ k ih =>
    intro l j acc hl hlt
    have ediv : j / 2 / 2 ^ k = j / 2 ^ (k + 1) := by rw [Nat.div_div_eq_div_mul, Nat.pow_succ']
    have hanc := nodeIdx_le_ancestor (l + 1) (j / 2) k
    have e1 : l + 1 + k = l + (k + 1) := by omega
    rw [ediv, e1] at hanc
    rw [get_node_indices.go, siblingAndParent_spec l j (by omega) (by omega)]
    simp only
    rw [ih (l + 1) (j / 2) _ (by omega) (by rw [ediv, e1]; exact hlt)]
    congr 1
    rw [List.append_assoc]
    congr 1
    rw [List.range_succ_eq_map, List.map_cons, List.map_map]
    simp only [List.singleton_append, Nat.pow_zero, Nat.div_one, Nat.add_zero, List.cons.injEq, true_and]
    apply List.map_congr_left
    intro t _
    simp only [Function.comp, Nat.succ_eq_add_one]
    have e : l + 1 + t = l + (t + 1) := by omega
    rw [Nat.div_div_eq_div_mul, ← Nat.pow_succ', e]

/-- **`get_node_indices`**: the digests of a membership proof of leaf `i` sit at the post-order indices of the sibling
    blocks `sibBlk (i / 2^t)` of levels `t = 0, 1, …` -/
theorem get_node_indices_spec (i len : Nat) (hi : i < 2 ^ 63) (hlen : len ≤ 63)
    (hlt : nodeIdx len (i / 2 ^ len) < 2 ^ 64) :
    get_node_indices i len = some ((List.range len).map (fun t => nodeIdx t (sibBlk (i / 2 ^ t)))) := by
  unfold get_node_indices
  rw [l2n_eq_nodeIdx i hi]
  have := get_node_indices_go_spec len 0 i [] (by omega) (by simpa using hlt)
  simpa using this

theorem get_direct_path_go_spec : ∀ (k l j : Nat) (acc : List Nat), l + k ≤ 63 →
    nodeIdx (l + k) (j / 2 ^ k) < 2 ^ 64 →
    get_direct_path_indices.go k (nodeIdx l j) acc
      = some (acc ++ (List.range k).map (fun t => nodeIdx (l + t + 1) (j / 2 ^ (t + 1)))) := by
  intro k
  induction k with
  | zero => intro l j acc _ _; simp [get_direct_path_indices.go]
  | succ k ih =>
    intro l j acc hl hlt
    have ediv : j / 2 / 2 ^ k = j / 2 ^ (k + 1) := by rw [Nat.div_div_eq_div_mul, Nat.pow_succ']
    have hanc := nodeIdx_le_ancestor (l + 1) (j / 2) k
    have e1 : l + 1 + k = l + (k + 1) := by omega
    rw [ediv, e1] at hanc
    rw [get_direct_path_indices.go, parent_spec l j (by omega) (by omega)]
    simp only
    rw [ih (l + 1) (j / 2) _ (by omega) (by rw [ediv, e1]; exact hlt)]
    congr 1
    rw [List.append_assoc]
    congr 1
    rw [List.range_succ_eq_map, List.map_cons, List.map_map]
    simp only [List.singleton_append, Nat.zero_add, Nat.pow_one, Nat.add_zero, List.cons.injEq, true_and]
    apply List.map_congr_left
    intro t _
    simp only [Function.comp, Nat.succ_eq_add_one]
    have e : l + 1 + t + 1 = l + (t + 1) + 1 := by omega
    rw [Nat.div_div_eq_div_mul, ← Nat.pow_succ', e]

/-- **`get_direct_path_indices`**: the nodes derivable from a membership proof of leaf `i` are the ancestors
    `(t, i / 2^t)`, `t = 0 … len` -/
theorem get_direct_path_indices_spec (i len : Nat) (hi : i < 2 ^ 63) (hlen : len ≤ 63)
    (hlt : nodeIdx len (i / 2 ^ len) < 2 ^ 64) :
    get_direct_path_indices i len = some ((List.range (len + 1)).map (fun t => nodeIdx t (i / 2 ^ t))) := by
  unfold get_direct_path_indices
  simp only
  rw [l2n_eq_nodeIdx i hi]
  have := get_direct_path_go_spec len 0 i [nodeIdx 0 i] (by omega) (by simpa using hlt)
  rw [this, List.range_succ_eq_map, List.map_cons, List.map_map]
  simp [Function.comp]

end TF.MmrE
