import TF.Proofs.PolyMul
import Mathlib.Algebra.Field.GeomSum
import Mathlib.GroupTheory.OrderOfElement
import Mathlib.Data.Nat.Prime.Basic
import Mathlib.Algebra.BigOperators.Ring.Finset
/-!
The spec-level transform `specTransform` of `TF/Model/PolyMul.lean` (the one the executable model runs) satisfies
`TransformSpec`, provided `rootOfUnity (2^(k+1))` is an element `w` with `w^(2^k) = −1` and `2 ≠ 0` in the field
(for the base field these are facts about the regenerated table `PRIMITIVE_ROOTS`, property C06):
recursive even/odd evaluation = evaluation at the powers of `w`; the inverse transform inverts it
(orthogonality of the powers of a primitive root).
-/
open Polynomial Finset

namespace TF.Model.Poly
variable {K : Type} [Field K]
open Classical

variable (root : Nat → Option K)
local notation "FK" => FieldOps.ofField K root

theorem eval_split (xs : List K) (z : K) :
    (denote xs).eval z = (denote (evens xs)).eval (z * z) + z * (denote (odds xs)).eval (z * z) := by
  fun_induction evens xs with
  | case1 => simp [odds]
  | case2 x => simp [odds, evens]
  | case3 x y t ih =>
    simp only [odds, denote_cons, eval_add, eval_C, eval_mul, eval_X, ih]
    ring

theorem length_evens_odds (xs : List K) :
    (evens xs).length = (xs.length + 1) / 2 ∧ (odds xs).length = xs.length / 2 := by
  fun_induction evens xs with
  | case1 => simp [odds]
  | case2 x => simp [odds]
  | case3 x y t ih => simp only [odds, List.length_cons, ih]; omega

theorem butterflies_map (w : K) (fe fo : Nat → K) (m s : Nat) :
    butterflies FK w (w ^ s) ((List.range' s m).map fe) ((List.range' s m).map fo)
      = ((List.range' s m).map (fun i => fe i + w ^ i * fo i), (List.range' s m).map (fun i => fe i - w ^ i * fo i)) := by
  induction m generalizing s with
  | zero => simp [butterflies]
  | succ m ih =>
    simp only [List.range'_succ, List.map_cons, butterflies, FieldOps.ofField_mul, FieldOps.ofField_add,
      FieldOps.ofField_sub]
    have : w ^ s * w = w ^ (s + 1) := (pow_succ w s).symm
    rw [this, ih (s + 1)]

/-- the recursive even/odd transform evaluates at the powers of `w` -/
theorem evalAtPowers_eq (k : Nat) (w : K) (xs : List K) (hlen : xs.length = 2 ^ k)
    (hw : 1 ≤ k → w ^ (2 ^ (k - 1)) = -1) :
    evalAtPowers FK k w xs = (List.range (2 ^ k)).map (fun i => (denote xs).eval (w ^ i)) := by
  induction k generalizing w xs with
  | zero =>
    match xs, hlen with
    | [x], _ => simp [evalAtPowers]
  | succ k ih =>
    have hw' : w ^ (2 ^ k) = -1 := by simpa using hw (by omega)
    have hl := length_evens_odds xs
    rw [hlen] at hl
    have h2 : (w * w) ^ (2 ^ (k - 1)) = w ^ (2 * 2 ^ (k - 1)) := by rw [← pow_two, ← pow_mul]
    have hww : 1 ≤ k → (w * w) ^ (2 ^ (k - 1)) = -1 := by
      intro hk
      rw [h2, show 2 * 2 ^ (k - 1) = 2 ^ k by
        conv_rhs => rw [show k = (k - 1) + 1 by omega]
        rw [pow_succ]; ring]
      exact hw'
    have he := ih (w * w) (evens xs) (by rw [hl.1, pow_succ]; omega) hww
    have ho := ih (w * w) (odds xs) (by rw [hl.2, pow_succ]; omega) hww
    unfold evalAtPowers
    simp only [FieldOps.ofField_mul, FieldOps.ofField_one]
    rw [he, ho, List.range_eq_range']
    have hb := butterflies_map root w (fun i => (denote (evens xs)).eval ((w * w) ^ i))
      (fun i => (denote (odds xs)).eval ((w * w) ^ i)) (2 ^ k) 0
    rw [pow_zero] at hb
    rw [hb]
    simp only
    try simp only [← List.range_eq_range']
    rw [show 2 ^ (k + 1) = 2 ^ k + 2 ^ k by rw [pow_succ]; ring, List.range_add, List.map_append, List.map_map]
    congr 1
    · apply List.map_congr_left
      intro i _
      rw [eval_split xs (w ^ i), ← mul_pow]
    · apply List.map_congr_left
      intro i _
      simp only [Function.comp]
      rw [eval_split xs (w ^ (2 ^ k + i))]
      have e1 : w ^ (2 ^ k + i) = - w ^ i := by rw [pow_add, hw']; ring
      rw [e1]
      have e2 : (- w ^ i) * (- w ^ i) = (w * w) ^ i := by rw [mul_pow]; ring
      rw [e2]; ring

/-- the roots table supplies, for every length `2^(k+1)`, an element whose `2^k`-th power is `−1` -/
def RootOK (root : Nat → Option K) : Prop := ∀ k w, root (2 ^ (k + 1)) = some w → w ^ (2 ^ k) = -1

/-- the evaluation points of `specTransform`: the powers of `rootOfUnity n` -/
noncomputable def rootPts (root : Nat → Option K) (n i : Nat) : K :=
  match root n with
  | some w => w ^ i
  | none => 0

theorem isPow2_iff (n : Nat) : isPow2 n = true ↔ n ≠ 0 ∧ n = 2 ^ Nat.log2 n := by
  simp [isPow2]

theorem hw_of_rootOK (hroot : RootOK root) (k : Nat) (w : K) (h : root (2 ^ k) = some w) :
    1 ≤ k → w ^ (2 ^ (k - 1)) = -1 := by
  intro hk
  obtain ⟨j, rfl⟩ : ∃ j, k = j + 1 := ⟨k - 1, by omega⟩
  simpa using hroot j w h

/-- shape of a successful `specNtt` -/
theorem specNtt_some (hroot : RootOK root) (xs ys : List K) (h : specNtt FK xs = some ys) :
    (xs = [] ∧ ys = []) ∨
    ∃ k w, xs.length = 2 ^ k ∧ xs.length ≤ 4294967295 ∧ root xs.length = some w ∧ (1 ≤ k → w ^ (2 ^ (k - 1)) = -1) ∧
      ys = (List.range (2 ^ k)).map (fun i => (denote xs).eval (w ^ i)) := by
  unfold specNtt at h
  simp only [FieldOps.ofField_rootOfUnity] at h
  split at h
  · cases h
  · next hle =>
    split at h
    · next h0 =>
      left
      simp at h0
      exact ⟨h0, by simpa using h.symm⟩
    · next h0 =>
      split at h
      · cases h
      · next hp =>
        simp at hp
        have hp' := (isPow2_iff _).1 hp
        right
        cases hr : root xs.length with
        | none => simp [hr] at h
        | some w =>
          simp only [hr, Option.some.injEq] at h
          refine ⟨Nat.log2 xs.length, w, hp'.2, by omega, rfl, ?_, ?_⟩
          · exact hw_of_rootOK root hroot _ w (by rw [← hp'.2]; exact hr)
          · rw [← h]
            exact evalAtPowers_eq root _ w xs hp'.2 (hw_of_rootOK root hroot _ w (by rw [← hp'.2]; exact hr))

theorem eval_denote_sum (l : List K) (z : K) :
    (denote l).eval z = ∑ j ∈ range l.length, l.getD j 0 * z ^ j := by
  induction l with
  | nil => simp
  | cons c cs ih =>
    simp only [denote_cons, eval_add, eval_C, eval_mul, eval_X, List.length_cons, ih]
    rw [Finset.sum_range_succ', Finset.mul_sum]
    simp only [List.getD_cons_succ, List.getD_cons_zero, pow_zero, mul_one]
    rw [add_comm]
    congr 1
    apply Finset.sum_congr rfl
    intro j _
    rw [pow_succ]; ring

/-- a `2^k`-th root with `w^(2^(k-1)) = −1` has no smaller positive period (characteristic ≠ 2) -/
theorem pow_ne_one_of_lt (h2 : (2 : K) ≠ 0) (k : Nat) (w : K) (hk : 1 ≤ k) (hw : w ^ (2 ^ (k - 1)) = -1)
    (d : Nat) (hd0 : 0 < d) (hd : d < 2 ^ k) : w ^ d ≠ 1 := by
  intro h1
  have hwn : w ^ (2 ^ k) = 1 := by
    have : 2 ^ k = 2 ^ (k - 1) * 2 := by
      conv_lhs => rw [show k = (k - 1) + 1 by omega]
      rw [pow_succ]
    rw [this, pow_mul, hw]; ring
  have ho1 : orderOf w ∣ d := orderOf_dvd_of_pow_eq_one h1
  have ho2 : orderOf w ∣ 2 ^ k := orderOf_dvd_of_pow_eq_one hwn
  obtain ⟨j, hj, hoj⟩ := (Nat.dvd_prime_pow Nat.prime_two).1 ho2
  by_cases hjk : j = k
  · rw [hoj, hjk] at ho1
    have := Nat.le_of_dvd hd0 ho1
    omega
  · have hdiv : orderOf w ∣ 2 ^ (k - 1) := by
      rw [hoj]; exact pow_dvd_pow 2 (by omega)
    have := orderOf_dvd_iff_pow_eq_one.1 hdiv
    rw [hw] at this
    apply h2
    have h3 : (2 : K) = 1 - (-1) := by ring
    rw [h3, this]; ring

theorem geom_sum_root (h2 : (2 : K) ≠ 0) (k : Nat) (w : K) (hw : 1 ≤ k → w ^ (2 ^ (k - 1)) = -1)
    (hw1 : k = 0 → True) (i l : Nat) (hi : i < 2 ^ k) (hl : l < 2 ^ k) :
    ∑ j ∈ range (2 ^ k), (w ^ l * (w⁻¹) ^ i) ^ j = if l = i then ((2 ^ k : Nat) : K) else 0 := by
  by_cases hk : k = 0
  · subst hk
    simp at hi hl
    subst hi; subst hl
    simp
  have hk1 : 1 ≤ k := by omega
  have hwk := hw hk1
  have hw0 : w ≠ 0 := by
    intro h0
    rw [h0, zero_pow (by positivity)] at hwk
    have h1 : (1 : K) = 0 := by
      have := congrArg (fun t => t + 1) hwk
      simpa using this
    exact one_ne_zero h1
  have hwn : w ^ (2 ^ k) = 1 := by
    have : 2 ^ k = 2 ^ (k - 1) * 2 := by
      conv_lhs => rw [show k = (k - 1) + 1 by omega]
      rw [pow_succ]
    rw [this, pow_mul, hwk]; ring
  split
  · next hli =>
    subst hli
    have : w ^ l * (w⁻¹) ^ l = 1 := by rw [← mul_pow, mul_inv_cancel₀ hw0, one_pow]
    rw [this]; simp
  · next hli =>
    set r := w ^ l * (w⁻¹) ^ i with hr
    have hrn : r ^ (2 ^ k) = 1 := by
      rw [hr, mul_pow, ← pow_mul, ← pow_mul, mul_comm l, mul_comm i, pow_mul, pow_mul, inv_pow, hwn]; simp
    have hr1 : r ≠ 1 := by
      intro h1
      rcases Nat.lt_or_gt_of_ne hli with hlt | hgt
      · -- l < i : w^(i-l) = 1
        have : w ^ (i - l) = 1 := by
          have e : w ^ i = w ^ l * w ^ (i - l) := by rw [← pow_add]; congr 1; omega
          have h3 : w ^ l * (w⁻¹) ^ i * w ^ i = w ^ l := by
            rw [mul_assoc, ← mul_pow, inv_mul_cancel₀ hw0, one_pow, mul_one]
          rw [← hr, h1, one_mul, e] at h3
          have hl0 : w ^ l ≠ 0 := pow_ne_zero _ hw0
          exact mul_left_cancel₀ hl0 (by rw [h3, mul_one])
        exact pow_ne_one_of_lt h2 k w hk1 hwk (i - l) (by omega) (by omega) this
      · have : w ^ (l - i) = 1 := by
          have e : w ^ l = w ^ (l - i) * w ^ i := by rw [← pow_add]; congr 1; omega
          rw [hr, e, mul_assoc, ← mul_pow, mul_inv_cancel₀ hw0, one_pow, mul_one] at h1
          exact h1
        exact pow_ne_one_of_lt h2 k w hk1 hwk (l - i) (by omega) (by omega) this
    rw [geom_sum_eq hr1, hrn]; simp

/-- **the spec-level transform is an evaluation / interpolation pair** -/
theorem specTransform_spec (hroot : RootOK root) (h2 : (2 : K) ≠ 0) :
    TransformSpec (specTransform FK) (rootPts root) where
  ntt_eval := by
    intro xs ys h
    rcases specNtt_some root hroot xs ys h with ⟨rfl, rfl⟩ | ⟨k, w, hlen, _, hr, _, hys⟩
    · simp
    · rw [hys, hlen]
      apply List.map_congr_left
      intro i _
      rw [rootPts, ← hlen, hr]
  ntt_some_of_length := by
    intro xs ys xs' h hl
    have h' : specNtt FK xs = some ys := h
    show ∃ ys', specNtt FK xs' = some ys'
    unfold specNtt at h' ⊢
    rw [hl]
    simp only [FieldOps.ofField_rootOfUnity] at h' ⊢
    split
    · next hgt => rw [if_pos hgt] at h'; cases h'
    · next hgt =>
      rw [if_neg hgt] at h'
      split
      · exact ⟨_, rfl⟩
      · next h0 =>
        rw [if_neg h0] at h'
        split
        · next hp => rw [if_pos hp] at h'; cases h'
        · next hp =>
          rw [if_neg hp] at h'
          cases hr : root xs.length with
          | none => simp [hr] at h'
          | some w => exact ⟨_, rfl⟩
  intt_ntt := by
    intro xs ys zs h hz
    rcases specNtt_some root hroot xs ys h with ⟨rfl, rfl⟩ | ⟨k, w, hlen, hle, hr, hw, hys⟩
    · have : specIntt FK [] = some zs := hz
      simp [specIntt] at this; exact this
    · have hz' : specIntt FK ys = some zs := hz
      have hylen : ys.length = 2 ^ k := by rw [hys]; simp
      have hr' : root (2 ^ k) = some w := by rw [← hlen]; exact hr
      have hpos : (2 : Nat) ^ k ≠ 0 := by positivity
      have hp : isPow2 (2 ^ k) = true := by
        rw [isPow2_iff]; exact ⟨hpos, by rw [Nat.log2_two_pow]⟩
      have hn0 : (((2 ^ k : Nat)) : K) ≠ 0 := by push_cast; exact pow_ne_zero _ h2
      have hiz : ((FK).isZero ((FK).ofNat (2 ^ k))) = false := by
        rw [FieldOps.ofField_isZero_false]; exact hn0
      have hle' : ¬ (2 ^ k > 4294967295) := by rw [← hlen]; omega
      unfold specIntt at hz'
      simp only [hylen, FieldOps.ofField_rootOfUnity, hr', hp, hiz, if_neg hle', Nat.log2_two_pow] at hz'
      rw [if_neg (by simpa using hpos)] at hz'
      simp only [Bool.not_true, Bool.false_eq_true, if_false, FieldOps.ofField_ofNat, FieldOps.ofField_inv,
        FieldOps.ofField_mul, Option.some.injEq] at hz'
      have hwinv : 1 ≤ k → (w⁻¹) ^ (2 ^ (k - 1)) = -1 := by
        intro hk; rw [inv_pow, hw hk]; norm_num
      rw [evalAtPowers_eq root k w⁻¹ ys hylen hwinv] at hz'
      rw [← hz']
      apply List.ext_getElem
      · simp [hlen]
      · intro i hi1 hi2
        simp only [List.length_map, List.length_range] at hi1
        simp only [List.getElem_map, List.getElem_range]
        rw [eval_denote_sum, hylen]
        -- ys[j] = Σ_l xs[l] w^(jl)
        have hyj : ∀ j ∈ range (2 ^ k), ys.getD j 0 * (w⁻¹ ^ i) ^ j
            = ∑ l ∈ range (2 ^ k), xs.getD l 0 * (w ^ l * (w⁻¹) ^ i) ^ j := by
          intro j hj
          have hj' : j < 2 ^ k := Finset.mem_range.1 hj
          rw [getD_of_lt _ _ _ (by rw [hylen]; exact hj')]
          have : ys[j]'(by rw [hylen]; exact hj') = (denote xs).eval (w ^ j) := by
            simp only [hys, List.getElem_map, List.getElem_range]
          rw [this, eval_denote_sum, hlen, Finset.sum_mul]
          apply Finset.sum_congr rfl
          intro l _
          rw [mul_pow, ← pow_mul, ← pow_mul, ← pow_mul, mul_comm j l]
          ring
        rw [Finset.sum_congr rfl hyj, Finset.sum_comm]
        have hin : ∀ l ∈ range (2 ^ k), ∑ j ∈ range (2 ^ k), xs.getD l 0 * (w ^ l * (w⁻¹) ^ i) ^ j
            = if l = i then xs.getD l 0 * ((2 ^ k : Nat) : K) else 0 := by
          intro l hl
          rw [← Finset.mul_sum, geom_sum_root h2 k w hw (fun _ => trivial) i l hi1 (Finset.mem_range.1 hl)]
          split <;> simp
        rw [Finset.sum_congr rfl hin, Finset.sum_ite_eq' (range (2 ^ k)) i, if_pos (Finset.mem_range.2 hi1),
          getD_of_lt _ _ _ hi2, mul_assoc, mul_inv_cancel₀ hn0, mul_one]

/-! ### when the spec-level transform does not panic -/

theorem specNtt_isSome (k : Nat) (w : K) (xs : List K) (hlen : xs.length = 2 ^ k) (hle : 2 ^ k ≤ 4294967295)
    (hr : root (2 ^ k) = some w) : (specNtt FK xs).isSome := by
  have hpos : (2 : Nat) ^ k ≠ 0 := by positivity
  have hp : isPow2 (2 ^ k) = true := by rw [isPow2_iff]; exact ⟨hpos, by rw [Nat.log2_two_pow]⟩
  unfold specNtt
  simp only [hlen, FieldOps.ofField_rootOfUnity, hr, hp, if_neg (by omega : ¬ 2 ^ k > 4294967295)]
  rw [if_neg (by simpa using hpos)]
  simp

theorem specIntt_isSome (k : Nat) (w : K) (xs : List K) (hlen : xs.length = 2 ^ k) (hle : 2 ^ k ≤ 4294967295)
    (hr : root (2 ^ k) = some w) : (specIntt FK xs).isSome := by
  have hpos : (2 : Nat) ^ k ≠ 0 := by positivity
  have hp : isPow2 (2 ^ k) = true := by rw [isPow2_iff]; exact ⟨hpos, by rw [Nat.log2_two_pow]⟩
  unfold specIntt
  simp only [hlen, FieldOps.ofField_rootOfUnity, hr, hp, if_neg (by omega : ¬ 2 ^ k > 4294967295)]
  rw [if_neg (by simpa using hpos)]
  simp

theorem nextPowerOfTwo_isPow (n : Nat) : ∃ k, nextPowerOfTwo n = 2 ^ k := by
  unfold nextPowerOfTwo
  split
  · exact ⟨0, rfl⟩
  · exact ⟨_, rfl⟩

theorem length_specNtt (xs ys : List K) (hroot : RootOK root) (h : specNtt FK xs = some ys) :
    ys.length = xs.length := by
  rcases specNtt_some root hroot xs ys h with ⟨rfl, rfl⟩ | ⟨k, w, hlen, _, _, _, hys⟩
  · rfl
  · rw [hys, hlen]; simp

/-- `fast_multiply` over the spec-level transform returns (no panic) whenever the roots table has an entry for the
    transform length and that length fits `u32` -/
theorem fastMultiply_spec_isSome (hroot : RootOK root) (a b : List K)
    (hr : ∀ n, n = nextPowerOfTwo ((degree FK a + degree FK b).toNat + 1) → n ≤ 4294967295 ∧ (root n).isSome) :
    (fastMultiply FK (specTransform FK) a b).isSome := by
  unfold fastMultiply fastMultiplyG
  simp only
  split
  · rfl
  · obtain ⟨k, hk⟩ := nextPowerOfTwo_isPow ((degree FK a + degree FK b).toNat + 1)
    obtain ⟨hle, hsome⟩ := hr _ rfl
    obtain ⟨w, hw⟩ := Option.isSome_iff_exists.1 hsome
    rw [hk] at hle hw
    have h1 := specNtt_isSome root k w (resize a (2 ^ k) 0) (by simp) hle hw
    have h2 := specNtt_isSome root k w (resize b (2 ^ k) 0) (by simp) hle hw
    obtain ⟨l, hl⟩ := Option.isSome_iff_exists.1 h1
    obtain ⟨r, hr'⟩ := Option.isSome_iff_exists.1 h2
    have hll := length_specNtt root _ _ hroot hl
    have hlr := length_specNtt root _ _ hroot hr'
    have h3 := specIntt_isSome root k w (List.zipWith (FK).mul l r)
      (by simp [hll, hlr]) hle hw
    obtain ⟨c, hc⟩ := Option.isSome_iff_exists.1 h3
    simp only [specTransform, hk, FieldOps.ofField_zero, hl, hr', hc, Option.bind_eq_bind, Option.bind_some,
      Option.pure_def, Option.isSome_some]

/-! ### operands over different fields: the NTT-based product reduces to the same-field one -/
section Mixed
variable {K₁ K₂ : Type} [Field K₁] [Field K₂]
variable (root₁ : Nat → Option K₁) (root₂ : Nat → Option K₂)

theorem evens_map {α β : Type} (f : α → β) (l : List α) : evens (l.map f) = (evens l).map f := by
  fun_induction evens l with
  | case1 => rfl
  | case2 x => rfl
  | case3 x y t ih => simp [evens, ih]

theorem odds_map {α β : Type} (f : α → β) (l : List α) : odds (l.map f) = (odds l).map f := by
  fun_induction odds l with
  | case1 => rfl
  | case2 x => rfl
  | case3 x y t ih => simp [odds, ih]

theorem butterflies_hom (φ : K₁ →+* K) (w pw : K₁) (e o : List K₁) :
    butterflies FK (φ w) (φ pw) (e.map φ) (o.map φ)
      = ((butterflies (FieldOps.ofField K₁ root₁) w pw e o).1.map φ,
         (butterflies (FieldOps.ofField K₁ root₁) w pw e o).2.map φ) := by
  induction e generalizing pw o with
  | nil => simp [butterflies]
  | cons x xs ih =>
    cases o with
    | nil => simp [butterflies]
    | cons y ys =>
      simp only [List.map_cons, butterflies, FieldOps.ofField_mul, FieldOps.ofField_add, FieldOps.ofField_sub]
      rw [show φ pw * φ w = φ (pw * w) from (map_mul φ pw w).symm, ih]
      simp

theorem evalAtPowers_hom (φ : K₁ →+* K) (k : Nat) (w : K₁) (xs : List K₁) :
    evalAtPowers FK k (φ w) (xs.map φ) = (evalAtPowers (FieldOps.ofField K₁ root₁) k w xs).map φ := by
  induction k generalizing w xs with
  | zero => rfl
  | succ k ih =>
    unfold evalAtPowers
    simp only [FieldOps.ofField_mul, FieldOps.ofField_one]
    rw [evens_map, odds_map, ← map_mul, ih, ih]
    have := butterflies_hom root root₁ φ w 1
      (evalAtPowers (FieldOps.ofField K₁ root₁) k (w * w) (evens xs))
      (evalAtPowers (FieldOps.ofField K₁ root₁) k (w * w) (odds xs))
    rw [map_one] at this
    rw [this]
    simp

/-- the roots tables agree along the embedding -/
def RootCompat (φ : K₁ →+* K) (root₁ : Nat → Option K₁) (root : Nat → Option K) : Prop :=
  ∀ n, root n = (root₁ n).map φ

theorem specNtt_hom (φ : K₁ →+* K) (hc : RootCompat φ root₁ root) (xs : List K₁) :
    specNtt FK (xs.map φ) = (specNtt (FieldOps.ofField K₁ root₁) xs).map (List.map φ) := by
  unfold specNtt
  simp only [List.length_map, FieldOps.ofField_rootOfUnity, hc xs.length]
  split
  · rfl
  · split
    · rfl
    · split
      · rfl
      · cases root₁ xs.length with
        | none => rfl
        | some w => simp [evalAtPowers_hom root root₁ φ]

theorem resize_map (φ : K₁ →+* K) (a : List K₁) (n : Nat) : resize (a.map φ) n 0 = (resize a n 0).map φ := by
  simp [resize, List.map_take]

theorem degree_map (φ : K₁ →+* K) (a : List K₁) :
    degree FK (a.map φ) = degree (FieldOps.ofField K₁ root₁) a := by
  unfold degree
  rw [← normalize_map root root₁ φ a, List.length_map]

/-- `fast_multiply<FF2>` with operands over different fields, each transformed over its own field, is the same-field
    `fast_multiply` on the embedded operands -/
theorem fastMultiplyG_eq (φ₁ : K₁ →+* K) (φ₂ : K₂ →+* K) (h1 : RootCompat φ₁ root₁ root) (h2 : RootCompat φ₂ root₂ root)
    (a : List K₁) (b : List K₂) :
    fastMultiplyG (FieldOps.ofField K₁ root₁) (FieldOps.ofField K₂ root₂) (fun x y => φ₁ x * φ₂ y)
      (specTransform (FieldOps.ofField K₁ root₁)) (specTransform (FieldOps.ofField K₂ root₂)) (specTransform FK) a b
      = fastMultiply FK (specTransform FK) (a.map φ₁) (b.map φ₂) := by
  unfold fastMultiply fastMultiplyG
  simp only [FieldOps.ofField_zero, specTransform, degree_map root root₁ φ₁ a, degree_map root root₂ φ₂ b,
    resize_map, specNtt_hom root root₁ φ₁ h1, specNtt_hom root root₂ φ₂ h2]
  split
  · rfl
  · cases specNtt (FieldOps.ofField K₁ root₁) (resize a _ 0) with
    | none => rfl
    | some l =>
      cases specNtt (FieldOps.ofField K₂ root₂) (resize b _ 0) with
      | none => rfl
      | some r =>
        simp only [Option.map_some, Option.bind_eq_bind, Option.bind_some, FieldOps.ofField_mul_fn, List.zipWith_map]

/-- `multiply<FF2>` with operands over different fields -/
theorem multiplyG_eq (φ₁ : K₁ →+* K) (φ₂ : K₂ →+* K) (h1 : RootCompat φ₁ root₁ root) (h2 : RootCompat φ₂ root₂ root)
    (threshold : Int) (a : List K₁) (b : List K₂) :
    multiplyG (FieldOps.ofField K₁ root₁) (FieldOps.ofField K₂ root₂) FK (fun x y => φ₁ x * φ₂ y) threshold
      (specTransform (FieldOps.ofField K₁ root₁)) (specTransform (FieldOps.ofField K₂ root₂)) (specTransform FK) a b
      = multiply FK threshold (specTransform FK) (a.map φ₁) (b.map φ₂) := by
  have hf := fastMultiplyG_eq root root₁ root₂ φ₁ φ₂ h1 h2 a b
  have hn := naiveMultiplyG_eq root φ₁ φ₂ root₁ root₂ a b
  unfold multiply multiplyG
  unfold fastMultiply at hf
  unfold naiveMultiply at hn
  rw [degree_map root root₁ φ₁ a, degree_map root root₂ φ₂ b, hf, hn]

end Mixed

/-! ### a concrete roots table over `ℚ` (lengths 1 and 2) for non-vacuity examples -/

def exampleRoot : Nat → Option ℚ := fun n => if n = 1 then some 1 else if n = 2 then some (-1) else none

theorem exampleRoot_ok : RootOK exampleRoot := by
  intro k w h
  cases k with
  | zero => simp [exampleRoot] at h; subst h; norm_num
  | succ k =>
    have : 2 ^ (k + 1 + 1) = 4 * 2 ^ k := by ring
    have hpos : 0 < 2 ^ k := by positivity
    simp only [exampleRoot] at h
    rw [if_neg (by omega), if_neg (by omega)] at h
    cases h

end TF.Model.Poly
