import TF.Proofs.GenBridgeCodecGeneric
/-!
Bridge between the remaining regenerated generic codec functions (`TF/Gen/CodecGeneric.lean`) and the constructor cases of the
hand model `TF/Model/Codec.lean`:

* the tuple decoders / encoders / static lengths of arity 2..12 (`impl_bfield_codec_for_tuple!`) vs `decode (.tuple ts)`
  (`decodeFields` + `finishFields`), `encode (.tuple ts)` (`encodeFields`), `staticLength (.tuple ts)`;
* the encoders of `Vec<T>`, `[T; N]`, `Option<T>`, `Polynomial<T>` vs the `vec` / `array` / `option` / `poly` cases of `encode`.

Every arity of the tuple macro expands to the same per-component step (`compStep`: `MissingLengthIndicator` test, length from
`static_length()` or from the first word through `usize::try_from`, `SequenceTooShort`, `split_at`, the component's `decode`, `?`)
applied to the type parameters from the last to the first, and to the same encoder step (`pushComp`).  The regenerated
definitions are *definitionally* the iterated step (`rfl`); one lemma about the step (`compStep_chain`, `pushComp_vals`) then gives
every arity.  Component codecs are hypotheses (`Item`, as in `GenBridgeCodecGeneric`).  Core Lean only.
-/
set_option linter.unusedVariables false
namespace TF.GenBridge.CodecG
open TF.Gen TF.Gen.Loops TF.Codec TF.RustStd TF.GenBridge.Codec

/-! ### one component of a tuple decoder -/

/-- the code the macro `impl_bfield_codec_for_tuple!` emits for one type parameter, with the rest of the function body as
    continuation `rest (remaining sequence) (decoded component)` -/
def compStepG {ε α β : Type} (tf : Nat → Except String Nat) (tfok : Nat → Bool) (sl : Option Nat) (dec : List Nat → Res ε α) (into : ε → DynErr) (sequence : List Nat)
    (rest : List Nat → α → Res String β) : Res String β :=
  (if (sl.isNone && sequence.head?.isNone) then
  (TF.RustStd.Res.err "MissingLengthIndicator")
  else
  (let k_3 := (fun (j_4 : ((Except String Nat) × (List Nat))) =>
  (let p_6 := j_4
  let length : (Except String Nat) := p_6.1
  let sequence : (List Nat) := p_6.2
  (TF.RustStd.Res.tryQ length (fun _ => "TryFromIntError")
  (fun t_7 =>
  (let length : Nat := t_7
  (if (decide (sequence.length < length)) then
  (TF.RustStd.Res.err "SequenceTooShort")
  else
  (TF.RustStd.Res.need (decide (length ≤ sequence.length))
  (let p_8 := (sequence.take length, sequence.drop length)
  let sequence_for_ty : (List Nat) := p_8.1
  let sequence : (List Nat) := p_8.2
  (TF.RustStd.Res.call (dec sequence_for_ty)
  (fun r_9 =>
  (TF.RustStd.Res.tryQ (Except.mapError (fun err => (into err)) r_9) (fun _ => "InnerDecodingFailure")
  (fun t_10 => rest sequence t_10))))))))))))
  (match (Option.map (fun length => ((Except.ok length : (Except String Nat)), sequence)) sl) with
  | some u_2 =>
  (k_3 u_2)
  | none =>
  (TF.RustStd.Res.unwrapO (sequence[0]?)
  (fun x_5 =>
  (TF.RustStd.Res.need (tfok x_5)
  (TF.RustStd.Res.need (decide (1 ≤ sequence.length))
  (k_3 ((tf x_5), (sequence.drop 1))))))))))

/-- the step with the two conversions the source calls (`usize::try_from(BFieldElement)` and its no-panic flag) -/
abbrev compStep {ε α β : Type} (sl : Option Nat) (dec : List Nat → Res ε α) (into : ε → DynErr) (sequence : List Nat)
    (rest : List Nat → α → Res String β) : Res String β :=
  compStepG codec_usize_try_from_bfe codec_usize_try_from_bfe_ok sl dec into sequence rest

/-- the end of every tuple decoder -/
def finishStep {β : Type} (sequence : List Nat) (x : β) : Res String β :=
  (if (!sequence.isEmpty) then (TF.RustStd.Res.err "SequenceTooLong") else (TF.RustStd.Res.ok x))

theorem compStep_some {ε α β : Type} (tf : Nat → Except String Nat) (tfok : Nat → Bool) (w : Nat) (dec : List Nat → Res ε α)
    (into : ε → DynErr) (seq : List Nat) (rest : List Nat → α → Res String β) :
    compStepG tf tfok (some w) dec into seq rest =
      (if decide (seq.length < w) then (Res.err "SequenceTooShort" : Res String β)
        else Res.need (decide (w ≤ seq.length)) (Res.call (dec (seq.take w)) (fun r_9 =>
          Res.tryQ (Except.mapError (fun err => into err) r_9) (fun _ => "InnerDecodingFailure")
            (fun t_10 => rest (seq.drop w) t_10)))) := rfl

theorem compStep_none_nil {ε α β : Type} (tf : Nat → Except String Nat) (tfok : Nat → Bool) (dec : List Nat → Res ε α)
    (into : ε → DynErr) (rest : List Nat → α → Res String β) :
    compStepG tf tfok none dec into [] rest = .err "MissingLengthIndicator" := rfl

theorem compStep_none_cons {ε α β : Type} (tf : Nat → Except String Nat) (tfok : Nat → Bool) (dec : List Nat → Res ε α)
    (into : ε → DynErr) (x : Nat) (r : List Nat) (rest : List Nat → α → Res String β) :
    compStepG tf tfok none dec into (x :: r) rest =
      Res.need (tfok x) (Res.need (decide (1 ≤ (x :: r).length))
        (Res.tryQ (tf x) (fun _ => "TryFromIntError") (fun len =>
          (if decide (r.length < len) then (Res.err "SequenceTooShort" : Res String β)
            else Res.need (decide (len ≤ r.length)) (Res.call (dec (r.take len)) (fun r_9 =>
              Res.tryQ (Except.mapError (fun err => into err) r_9) (fun _ => "InnerDecodingFailure")
                (fun t_10 => rest (r.drop len) t_10))))))) := rfl

theorem decodeItem_some (decM : List Nat → Outcome Val) (w : Nat) (s : List Nat) :
    decodeItem decM (some w) s =
      (if s.length < w then Outcome.err Err.tooShort
        else match decM (s.take w) with
          | .ok v => .ok (v, s.drop w)
          | .err k => .err k
          | .panic => .panic) := rfl

theorem decodeItem_none_cons (decM : List Nat → Outcome Val) (len : Nat) (r : List Nat) :
    decodeItem decM none (len :: r) =
      (if r.length < len then Outcome.err Err.tooShort
        else match decM (r.take len) with
          | .ok v => .ok (v, r.drop len)
          | .err k => .err k
          | .panic => .panic) := rfl

/-- one component step = `decodeItem` of the hand model: same remaining sequence, same value, error for error, panic for panic -/
theorem compStep_spec {ε α β : Type} (sl : Option Nat) (dec : List Nat → Res ε α) (into : ε → DynErr) (toVal : α → Val)
    (decM : List Nat → Outcome Val) (h : Item dec toVal decM) (seq : List Nat) (hw : Words seq)
    (rest : List Nat → α → Res String β) :
    (∃ a seq', Words seq' ∧ decodeItem decM sl (vals seq) = .ok (toVal a, vals seq') ∧
        compStep sl dec into seq rest = rest seq' a) ∨
    (∃ k e, decodeItem decM sl (vals seq) = .err k ∧ compStep sl dec into seq rest = .err e) ∨
    (decodeItem decM sl (vals seq) = .panic ∧ compStep sl dec into seq rest = .panic) := by
  -- the common tail: a length `len` and the sequence `s` it is cut from
  have tail : ∀ (len : Nat) (s : List Nat), Words s →
      (∃ a seq', Words seq' ∧
          (if (vals s).length < len then Outcome.err Err.tooShort
            else match decM ((vals s).take len) with
              | .ok v => .ok (v, (vals s).drop len)
              | .err k => .err k
              | .panic => .panic) = .ok (toVal a, vals seq') ∧
          (if decide (s.length < len) then (Res.err "SequenceTooShort" : Res String β)
            else Res.need (decide (len ≤ s.length)) (Res.call (dec (s.take len)) (fun r_9 =>
              Res.tryQ (Except.mapError (fun err => into err) r_9) (fun _ => "InnerDecodingFailure")
                (fun t_10 => rest (s.drop len) t_10)))) = rest seq' a) ∨
      (∃ k e,
          (if (vals s).length < len then Outcome.err Err.tooShort
            else match decM ((vals s).take len) with
              | .ok v => .ok (v, (vals s).drop len)
              | .err k => .err k
              | .panic => .panic) = .err k ∧
          (if decide (s.length < len) then (Res.err "SequenceTooShort" : Res String β)
            else Res.need (decide (len ≤ s.length)) (Res.call (dec (s.take len)) (fun r_9 =>
              Res.tryQ (Except.mapError (fun err => into err) r_9) (fun _ => "InnerDecodingFailure")
                (fun t_10 => rest (s.drop len) t_10)))) = .err e) ∨
      ((if (vals s).length < len then Outcome.err Err.tooShort
            else match decM ((vals s).take len) with
              | .ok v => .ok (v, (vals s).drop len)
              | .err k => .err k
              | .panic => .panic) = (.panic : Outcome (Val × List Nat)) ∧
          (if decide (s.length < len) then (Res.err "SequenceTooShort" : Res String β)
            else Res.need (decide (len ≤ s.length)) (Res.call (dec (s.take len)) (fun r_9 =>
              Res.tryQ (Except.mapError (fun err => into err) r_9) (fun _ => "InnerDecodingFailure")
                (fun t_10 => rest (s.drop len) t_10)))) = .panic) := by
    intro len s hs
    rw [vals_length]
    by_cases hlt : s.length < len
    · exact Or.inr (Or.inl ⟨_, _, by rw [if_pos hlt], by rw [decide_eq_true hlt, if_pos rfl]⟩)
    · have hit := h (s.take len) (Words_take len s hs)
      rw [vals_take] at hit
      rw [if_neg hlt, decide_eq_false hlt, if_neg (by simp), need_decide _ _ (by omega)]
      cases hd : dec (s.take len) with
      | ok a =>
        rw [hd] at hit
        cases hm : decM ((vals s).take len) with
        | ok v =>
          rw [hm] at hit
          have hv : toVal a = v := by simpa [obsR, obsM] using hit
          exact Or.inl ⟨a, s.drop len, Words_drop len s hs, by rw [hv, vals_drop], rfl⟩
        | err k => rw [hm] at hit; simp [obsR, obsM] at hit
        | panic => rw [hm] at hit; simp [obsR, obsM] at hit
      | err e =>
        rw [hd] at hit
        cases hm : decM ((vals s).take len) with
        | ok v => rw [hm] at hit; simp [obsR, obsM] at hit
        | err k => exact Or.inr (Or.inl ⟨k, _, rfl, rfl⟩)
        | panic => rw [hm] at hit; simp [obsR, obsM] at hit
      | panic =>
        rw [hd] at hit
        cases hm : decM ((vals s).take len) with
        | ok v => rw [hm] at hit; simp [obsR, obsM] at hit
        | err k => rw [hm] at hit; simp [obsR, obsM] at hit
        | panic => exact Or.inr (Or.inr ⟨rfl, rfl⟩)
  cases sl with
  | some w =>
    rw [compStep, compStep_some, decodeItem_some]
    exact tail w seq hw
  | none =>
    cases seq with
    | nil => exact Or.inr (Or.inl ⟨Err.missingLen, "MissingLengthIndicator", rfl, compStep_none_nil _ _ dec into rest⟩)
    | cons x r =>
      obtain ⟨hx, hr⟩ := Words_tail x r hw
      have := tail (bfe_value x) r hr
      rw [vals_cons, compStep, compStep_none_cons, decodeItem_none_cons, (try_from_word x hx).2, need_true,
        need_decide _ _ (by simp), (try_from_word x hx).1, tryQ_ok]
      exact this

/-! ### the chain over the type parameters -/

theorem decodeFields_cons (t : Ty) (ts : List Ty) (s : List Nat) :
    decodeFields (t :: ts) s = (match decodeFields ts s with
      | .ok (vs, s') => (match decodeItem (fun c => decode t c) (staticLength t) s' with
        | .ok (v, r) => .ok (v :: vs, r)
        | .err k => .err k
        | .panic => .panic)
      | .err k => .err k
      | .panic => .panic) := by
  simp only [decodeFields]; rfl

theorem decodeFields_nil (s : List Nat) : decodeFields [] s = .ok ([], s) := by simp only [decodeFields]

theorem decodeFields_err_append (pre ts : List Ty) (s : List Nat) (k : Err) (h : decodeFields ts s = .err k) :
    decodeFields (pre ++ ts) s = .err k := by
  induction pre with
  | nil => exact h
  | cons t pre ih => rw [List.cons_append, decodeFields_cons, ih]

theorem decodeFields_panic_append (pre ts : List Ty) (s : List Nat) (h : decodeFields ts s = .panic) :
    decodeFields (pre ++ ts) s = .panic := by
  induction pre with
  | nil => exact h
  | cons t pre ih => rw [List.cons_append, decodeFields_cons, ih]

theorem decode_tuple (ts : List Ty) (s : List Nat) :
    decode (.tuple ts) s = (finishFields (decodeFields ts s)).map .list := by simp only [decode]

/-- **one step of a regenerated tuple decoder against the model**: the type parameters `ts` have been decoded (model:
    `decodeFields ts s0`, remaining words `seq`), the parameter `t` is next, `pre` are still to come.  If the continuation
    agrees with the model on whatever the step delivers, the step agrees with the model. -/
theorem compStep_chain {ε α β : Type} (F : β → Val) (full pre : List Ty) (t : Ty) (ts : List Ty) (hfull : full = pre ++ t :: ts)
    (dec : List Nat → Res ε α) (into : ε → DynErr) (toVal : α → Val) (h : Item dec toVal (decode t))
    (s0 : List Nat) (vs : List Val) (seq : List Nat) (hw : Words seq) (hprev : decodeFields ts s0 = .ok (vs, vals seq))
    (rest : List Nat → α → Res String β)
    (hok : ∀ a seq', Words seq' → decodeFields (t :: ts) s0 = .ok (toVal a :: vs, vals seq') →
      obsR F (rest seq' a) = obsM (decode (.tuple full) s0)) :
    obsR F (compStep (staticLength t) dec into seq rest) = obsM (decode (.tuple full) s0) := by
  have hc := decodeFields_cons t ts s0
  rw [hprev] at hc
  rcases compStep_spec (staticLength t) dec into toVal (decode t) h seq hw rest with
    ⟨a, seq', hw', hm, hg⟩ | ⟨k, e, hm, hg⟩ | ⟨hm, hg⟩
  · rw [hg]
    refine hok a seq' hw' ?_
    rw [hc]
    show (match decodeItem (decode t) (staticLength t) (vals seq) with
      | .ok (v, r) => Outcome.ok (v :: vs, r) | .err k => .err k | .panic => .panic) = _
    rw [hm]
  · have : decodeFields (t :: ts) s0 = .err k := by
      rw [hc]
      show (match decodeItem (decode t) (staticLength t) (vals seq) with
        | .ok (v, r) => Outcome.ok (v :: vs, r) | .err k => .err k | .panic => .panic) = _
      rw [hm]
    rw [hg, hfull, decode_tuple, decodeFields_err_append pre _ s0 k this]
    rfl
  · have : decodeFields (t :: ts) s0 = .panic := by
      rw [hc]
      show (match decodeItem (decode t) (staticLength t) (vals seq) with
        | .ok (v, r) => Outcome.ok (v :: vs, r) | .err k => .err k | .panic => .panic) = _
      rw [hm]
    rw [hg, hfull, decode_tuple, decodeFields_panic_append pre _ s0 this]
    rfl

/-- the last test of a regenerated tuple decoder (`SequenceTooLong` unless everything is consumed) = `finishFields` -/
theorem finishStep_spec {β : Type} (F : β → Val) (full : List Ty) (s0 : List Nat) (vs : List Val) (seq : List Nat) (x : β)
    (hx : F x = Val.list vs) (hall : decodeFields full s0 = .ok (vs, vals seq)) :
    obsR F (finishStep seq x) = obsM (decode (.tuple full) s0) := by
  rw [decode_tuple, hall]
  cases seq with
  | nil => simp [finishStep, finishFields, vals, Outcome.map, obsR, obsM, hx]
  | cons y ys => simp [finishStep, finishFields, vals, Outcome.map, obsR, obsM]

/-! ### one component of a tuple encoder -/

/-- the code the macro emits for one type parameter in `encode` -/
def pushComp (sl : Option Nat) (encoding : List Nat) (sequence : List Nat) : List Nat :=
  (let sequence := (if sl.isNone then
  (let sequence := sequence ++ [(codec_bfe_from_usize encoding.length)]
  sequence)
  else sequence)
  (let sequence := sequence ++ encoding
  sequence))

theorem pushComp_vals (sl : Option Nat) (e seq : List Nat) (hl : e.length < TF.BF.Pn) :
    vals (pushComp sl e seq) = vals seq ++ prefixed sl.isNone (vals e) := by
  cases sl with
  | some w => simp [pushComp, prefixed, vals_append]
  | none =>
    simp only [pushComp, Option.isNone_none, if_true, prefixed, vals_append, from_usize_value _ hl, vals_length]
    simp

theorem encode_tuple_cons (t : Ty) (ts : List Ty) (v : Val) (vs : List Val) :
    encodeFields (t :: ts) (v :: vs) = encodeFields ts vs ++ prefixed (staticLength t).isNone (encode t v) := by
  simp only [encodeFields, isDyn]

theorem encode_tuple (ts : List Ty) (vs : List Val) : encode (.tuple ts) (.list vs) = encodeFields ts vs := by
  simp only [encode]

theorem encodeFields_nil (vs : List Val) : encodeFields [] vs = [] := by simp only [encodeFields]

theorem staticLength_tuple (ts : List Ty) : staticLength (.tuple ts) = staticLengthSum ts := by simp only [staticLength]

theorem staticLengthSum_cons (t : Ty) (ts : List Ty) :
    staticLengthSum (t :: ts) = (match staticLength t, staticLengthSum ts with
      | some a, some b => some (a + b)
      | _, _ => none) := by simp only [staticLengthSum]; rfl

theorem staticLengthSum_nil : staticLengthSum [] = some 0 := by simp only [staticLengthSum]

theorem vals_nil : vals [] = [] := rfl

/-! ### the arities 2..12 (the statements below are instances of one schema; the text was produced mechanically from it) -/

/-- the regenerated `decode` of the 2-tuple is, definitionally, the component step iterated from the last type parameter to the first -/
theorem tuple2_decode_eq {A A_Error B B_Error : Type} (A_sl : Option Nat) (A_dec : List Nat → Res A_Error A) (A_into : A_Error → DynErr) (B_sl : Option Nat) (B_dec : List Nat → Res B_Error B) (B_into : B_Error → DynErr) (sequence : List Nat) :
    codec_tuple2_decode A_sl A_dec A_into B_sl B_dec B_into sequence =
      compStep B_sl B_dec B_into sequence (fun s B_v => compStep A_sl A_dec A_into s (fun s A_v => finishStep s (A_v, B_v))) := rfl

/-- **regenerated 2-tuple decoder = `decode (.tuple [..])` of the hand model** whenever the component decoders are the model's -/
theorem tuple2_item {A A_Error B B_Error : Type} (tA : Ty) (tB : Ty) (A_dec : List Nat → Res A_Error A) (A_into : A_Error → DynErr) (A_toVal : A → Val) (B_dec : List Nat → Res B_Error B) (B_into : B_Error → DynErr) (B_toVal : B → Val)
    (hA : Item A_dec A_toVal (decode tA)) (hB : Item B_dec B_toVal (decode tB)) :
    Item (codec_tuple2_decode (staticLength tA) A_dec A_into (staticLength tB) B_dec B_into)
      (fun p => Val.list [A_toVal p.1, B_toVal p.2]) (decode (.tuple [tA, tB])) := by
  intro r hw
  rw [tuple2_decode_eq]
  refine compStep_chain (full := [tA, tB]) (pre := [tA]) (t := tB) (ts := []) (hfull := rfl) (into := B_into) (h := hB) (s0 := vals r)
    (hw := hw) (hprev := (decodeFields_nil _)) (hok := fun vB s1 hw1 h1 => ?_)
  refine compStep_chain (full := [tA, tB]) (pre := []) (t := tA) (ts := [tB]) (hfull := rfl) (into := A_into) (h := hA) (s0 := vals r)
    (hw := hw1) (hprev := h1) (hok := fun vA s2 hw2 h2 => ?_)
  exact finishStep_spec _ [tA, tB] (vals r) _ s2 _ rfl h2

theorem tuple2_encode_eq {A B : Type} (A_sl : Option Nat) (A_enc : A → List Nat) (B_sl : Option Nat) (B_enc : B → List Nat) (self : (A × B)) :
    codec_tuple2_encode A_sl A_enc B_sl B_enc self =
      pushComp A_sl (A_enc self.1) (pushComp B_sl (B_enc self.2) []) := rfl

/-- **regenerated 2-tuple encoder = `encode (.tuple [..])` of the hand model** (components in reverse declaration order, each
    prefixed by its length iff dynamically sized) whenever the component encoders are the model's -/
theorem tuple2_encode {A B : Type} (tA : Ty) (tB : Ty) (A_enc : A → List Nat) (A_toVal : A → Val) (B_enc : B → List Nat) (B_toVal : B → Val)
    (heA : ∀ x, vals (A_enc x) = encode tA (A_toVal x)) (heB : ∀ x, vals (B_enc x) = encode tB (B_toVal x))
    (self : (A × B)) (hlA : (A_enc self.1).length < TF.BF.Pn) (hlB : (B_enc self.2).length < TF.BF.Pn) :
    vals (codec_tuple2_encode (staticLength tA) A_enc (staticLength tB) B_enc self) =
      encode (.tuple [tA, tB]) (.list [A_toVal self.1, B_toVal self.2]) := by
  rw [tuple2_encode_eq, encode_tuple]
  simp only [pushComp_vals _ _ _ hlA, pushComp_vals _ _ _ hlB, encode_tuple_cons, encodeFields_nil, heA, heB, vals_nil]

/-- regenerated `static_length` of the 2-tuple = `staticLength (.tuple [..])` -/
theorem tuple2_static_length (tA : Ty) (tB : Ty) :
    codec_tuple2_static_length (staticLength tA) (staticLength tB) = staticLength (.tuple [tA, tB]) := by
  rw [staticLength_tuple]
  simp only [staticLengthSum_cons, staticLengthSum_nil]
  unfold codec_tuple2_static_length
  generalize staticLength tA = oA
  generalize staticLength tB = oB
  cases oA with
  | none => rfl
  | some a =>
    cases oB with
    | none => rfl
    | some b =>
      simp only [Option.some.injEq]
      omega

/-- the regenerated `decode` of the 3-tuple is, definitionally, the component step iterated from the last type parameter to the first -/
theorem tuple3_decode_eq {A A_Error B B_Error C C_Error : Type} (A_sl : Option Nat) (A_dec : List Nat → Res A_Error A) (A_into : A_Error → DynErr) (B_sl : Option Nat) (B_dec : List Nat → Res B_Error B) (B_into : B_Error → DynErr) (C_sl : Option Nat) (C_dec : List Nat → Res C_Error C) (C_into : C_Error → DynErr) (sequence : List Nat) :
    codec_tuple3_decode A_sl A_dec A_into B_sl B_dec B_into C_sl C_dec C_into sequence =
      compStep C_sl C_dec C_into sequence (fun s C_v => compStep B_sl B_dec B_into s (fun s B_v => compStep A_sl A_dec A_into s (fun s A_v => finishStep s (A_v, B_v, C_v)))) := rfl

/-- **regenerated 3-tuple decoder = `decode (.tuple [..])` of the hand model** whenever the component decoders are the model's -/
theorem tuple3_item {A A_Error B B_Error C C_Error : Type} (tA : Ty) (tB : Ty) (tC : Ty) (A_dec : List Nat → Res A_Error A) (A_into : A_Error → DynErr) (A_toVal : A → Val) (B_dec : List Nat → Res B_Error B) (B_into : B_Error → DynErr) (B_toVal : B → Val) (C_dec : List Nat → Res C_Error C) (C_into : C_Error → DynErr) (C_toVal : C → Val)
    (hA : Item A_dec A_toVal (decode tA)) (hB : Item B_dec B_toVal (decode tB)) (hC : Item C_dec C_toVal (decode tC)) :
    Item (codec_tuple3_decode (staticLength tA) A_dec A_into (staticLength tB) B_dec B_into (staticLength tC) C_dec C_into)
      (fun p => Val.list [A_toVal p.1, B_toVal p.2.1, C_toVal p.2.2]) (decode (.tuple [tA, tB, tC])) := by
  intro r hw
  rw [tuple3_decode_eq]
  refine compStep_chain (full := [tA, tB, tC]) (pre := [tA, tB]) (t := tC) (ts := []) (hfull := rfl) (into := C_into) (h := hC) (s0 := vals r)
    (hw := hw) (hprev := (decodeFields_nil _)) (hok := fun vC s1 hw1 h1 => ?_)
  refine compStep_chain (full := [tA, tB, tC]) (pre := [tA]) (t := tB) (ts := [tC]) (hfull := rfl) (into := B_into) (h := hB) (s0 := vals r)
    (hw := hw1) (hprev := h1) (hok := fun vB s2 hw2 h2 => ?_)
  refine compStep_chain (full := [tA, tB, tC]) (pre := []) (t := tA) (ts := [tB, tC]) (hfull := rfl) (into := A_into) (h := hA) (s0 := vals r)
    (hw := hw2) (hprev := h2) (hok := fun vA s3 hw3 h3 => ?_)
  exact finishStep_spec _ [tA, tB, tC] (vals r) _ s3 _ rfl h3

theorem tuple3_encode_eq {A B C : Type} (A_sl : Option Nat) (A_enc : A → List Nat) (B_sl : Option Nat) (B_enc : B → List Nat) (C_sl : Option Nat) (C_enc : C → List Nat) (self : (A × B × C)) :
    codec_tuple3_encode A_sl A_enc B_sl B_enc C_sl C_enc self =
      pushComp A_sl (A_enc self.1) (pushComp B_sl (B_enc self.2.1) (pushComp C_sl (C_enc self.2.2) [])) := rfl

/-- **regenerated 3-tuple encoder = `encode (.tuple [..])` of the hand model** (components in reverse declaration order, each
    prefixed by its length iff dynamically sized) whenever the component encoders are the model's -/
theorem tuple3_encode {A B C : Type} (tA : Ty) (tB : Ty) (tC : Ty) (A_enc : A → List Nat) (A_toVal : A → Val) (B_enc : B → List Nat) (B_toVal : B → Val) (C_enc : C → List Nat) (C_toVal : C → Val)
    (heA : ∀ x, vals (A_enc x) = encode tA (A_toVal x)) (heB : ∀ x, vals (B_enc x) = encode tB (B_toVal x)) (heC : ∀ x, vals (C_enc x) = encode tC (C_toVal x))
    (self : (A × B × C)) (hlA : (A_enc self.1).length < TF.BF.Pn) (hlB : (B_enc self.2.1).length < TF.BF.Pn) (hlC : (C_enc self.2.2).length < TF.BF.Pn) :
    vals (codec_tuple3_encode (staticLength tA) A_enc (staticLength tB) B_enc (staticLength tC) C_enc self) =
      encode (.tuple [tA, tB, tC]) (.list [A_toVal self.1, B_toVal self.2.1, C_toVal self.2.2]) := by
  rw [tuple3_encode_eq, encode_tuple]
  simp only [pushComp_vals _ _ _ hlA, pushComp_vals _ _ _ hlB, pushComp_vals _ _ _ hlC, encode_tuple_cons, encodeFields_nil, heA, heB, heC, vals_nil]

/-- regenerated `static_length` of the 3-tuple = `staticLength (.tuple [..])` -/
theorem tuple3_static_length (tA : Ty) (tB : Ty) (tC : Ty) :
    codec_tuple3_static_length (staticLength tA) (staticLength tB) (staticLength tC) = staticLength (.tuple [tA, tB, tC]) := by
  rw [staticLength_tuple]
  simp only [staticLengthSum_cons, staticLengthSum_nil]
  unfold codec_tuple3_static_length
  generalize staticLength tA = oA
  generalize staticLength tB = oB
  generalize staticLength tC = oC
  cases oA with
  | none => rfl
  | some a =>
    cases oB with
    | none => rfl
    | some b =>
      cases oC with
      | none => rfl
      | some c =>
        simp only [Option.some.injEq]
        omega

/-- the regenerated `decode` of the 4-tuple is, definitionally, the component step iterated from the last type parameter to the first -/
theorem tuple4_decode_eq {A A_Error B B_Error C C_Error D D_Error : Type} (A_sl : Option Nat) (A_dec : List Nat → Res A_Error A) (A_into : A_Error → DynErr) (B_sl : Option Nat) (B_dec : List Nat → Res B_Error B) (B_into : B_Error → DynErr) (C_sl : Option Nat) (C_dec : List Nat → Res C_Error C) (C_into : C_Error → DynErr) (D_sl : Option Nat) (D_dec : List Nat → Res D_Error D) (D_into : D_Error → DynErr) (sequence : List Nat) :
    codec_tuple4_decode A_sl A_dec A_into B_sl B_dec B_into C_sl C_dec C_into D_sl D_dec D_into sequence =
      compStep D_sl D_dec D_into sequence (fun s D_v => compStep C_sl C_dec C_into s (fun s C_v => compStep B_sl B_dec B_into s (fun s B_v => compStep A_sl A_dec A_into s (fun s A_v => finishStep s (A_v, B_v, C_v, D_v))))) := rfl

/-- **regenerated 4-tuple decoder = `decode (.tuple [..])` of the hand model** whenever the component decoders are the model's -/
theorem tuple4_item {A A_Error B B_Error C C_Error D D_Error : Type} (tA : Ty) (tB : Ty) (tC : Ty) (tD : Ty) (A_dec : List Nat → Res A_Error A) (A_into : A_Error → DynErr) (A_toVal : A → Val) (B_dec : List Nat → Res B_Error B) (B_into : B_Error → DynErr) (B_toVal : B → Val) (C_dec : List Nat → Res C_Error C) (C_into : C_Error → DynErr) (C_toVal : C → Val) (D_dec : List Nat → Res D_Error D) (D_into : D_Error → DynErr) (D_toVal : D → Val)
    (hA : Item A_dec A_toVal (decode tA)) (hB : Item B_dec B_toVal (decode tB)) (hC : Item C_dec C_toVal (decode tC)) (hD : Item D_dec D_toVal (decode tD)) :
    Item (codec_tuple4_decode (staticLength tA) A_dec A_into (staticLength tB) B_dec B_into (staticLength tC) C_dec C_into (staticLength tD) D_dec D_into)
      (fun p => Val.list [A_toVal p.1, B_toVal p.2.1, C_toVal p.2.2.1, D_toVal p.2.2.2]) (decode (.tuple [tA, tB, tC, tD])) := by
  intro r hw
  rw [tuple4_decode_eq]
  refine compStep_chain (full := [tA, tB, tC, tD]) (pre := [tA, tB, tC]) (t := tD) (ts := []) (hfull := rfl) (into := D_into) (h := hD) (s0 := vals r)
    (hw := hw) (hprev := (decodeFields_nil _)) (hok := fun vD s1 hw1 h1 => ?_)
  refine compStep_chain (full := [tA, tB, tC, tD]) (pre := [tA, tB]) (t := tC) (ts := [tD]) (hfull := rfl) (into := C_into) (h := hC) (s0 := vals r)
    (hw := hw1) (hprev := h1) (hok := fun vC s2 hw2 h2 => ?_)
  refine compStep_chain (full := [tA, tB, tC, tD]) (pre := [tA]) (t := tB) (ts := [tC, tD]) (hfull := rfl) (into := B_into) (h := hB) (s0 := vals r)
    (hw := hw2) (hprev := h2) (hok := fun vB s3 hw3 h3 => ?_)
  refine compStep_chain (full := [tA, tB, tC, tD]) (pre := []) (t := tA) (ts := [tB, tC, tD]) (hfull := rfl) (into := A_into) (h := hA) (s0 := vals r)
    (hw := hw3) (hprev := h3) (hok := fun vA s4 hw4 h4 => ?_)
  exact finishStep_spec _ [tA, tB, tC, tD] (vals r) _ s4 _ rfl h4

theorem tuple4_encode_eq {A B C D : Type} (A_sl : Option Nat) (A_enc : A → List Nat) (B_sl : Option Nat) (B_enc : B → List Nat) (C_sl : Option Nat) (C_enc : C → List Nat) (D_sl : Option Nat) (D_enc : D → List Nat) (self : (A × B × C × D)) :
    codec_tuple4_encode A_sl A_enc B_sl B_enc C_sl C_enc D_sl D_enc self =
      pushComp A_sl (A_enc self.1) (pushComp B_sl (B_enc self.2.1) (pushComp C_sl (C_enc self.2.2.1) (pushComp D_sl (D_enc self.2.2.2) []))) := rfl

/-- **regenerated 4-tuple encoder = `encode (.tuple [..])` of the hand model** (components in reverse declaration order, each
    prefixed by its length iff dynamically sized) whenever the component encoders are the model's -/
theorem tuple4_encode {A B C D : Type} (tA : Ty) (tB : Ty) (tC : Ty) (tD : Ty) (A_enc : A → List Nat) (A_toVal : A → Val) (B_enc : B → List Nat) (B_toVal : B → Val) (C_enc : C → List Nat) (C_toVal : C → Val) (D_enc : D → List Nat) (D_toVal : D → Val)
    (heA : ∀ x, vals (A_enc x) = encode tA (A_toVal x)) (heB : ∀ x, vals (B_enc x) = encode tB (B_toVal x)) (heC : ∀ x, vals (C_enc x) = encode tC (C_toVal x)) (heD : ∀ x, vals (D_enc x) = encode tD (D_toVal x))
    (self : (A × B × C × D)) (hlA : (A_enc self.1).length < TF.BF.Pn) (hlB : (B_enc self.2.1).length < TF.BF.Pn) (hlC : (C_enc self.2.2.1).length < TF.BF.Pn) (hlD : (D_enc self.2.2.2).length < TF.BF.Pn) :
    vals (codec_tuple4_encode (staticLength tA) A_enc (staticLength tB) B_enc (staticLength tC) C_enc (staticLength tD) D_enc self) =
      encode (.tuple [tA, tB, tC, tD]) (.list [A_toVal self.1, B_toVal self.2.1, C_toVal self.2.2.1, D_toVal self.2.2.2]) := by
  rw [tuple4_encode_eq, encode_tuple]
  simp only [pushComp_vals _ _ _ hlA, pushComp_vals _ _ _ hlB, pushComp_vals _ _ _ hlC, pushComp_vals _ _ _ hlD, encode_tuple_cons, encodeFields_nil, heA, heB, heC, heD, vals_nil]

/-- regenerated `static_length` of the 4-tuple = `staticLength (.tuple [..])` -/
theorem tuple4_static_length (tA : Ty) (tB : Ty) (tC : Ty) (tD : Ty) :
    codec_tuple4_static_length (staticLength tA) (staticLength tB) (staticLength tC) (staticLength tD) = staticLength (.tuple [tA, tB, tC, tD]) := by
  rw [staticLength_tuple]
  simp only [staticLengthSum_cons, staticLengthSum_nil]
  unfold codec_tuple4_static_length
  generalize staticLength tA = oA
  generalize staticLength tB = oB
  generalize staticLength tC = oC
  generalize staticLength tD = oD
  cases oA with
  | none => rfl
  | some a =>
    cases oB with
    | none => rfl
    | some b =>
      cases oC with
      | none => rfl
      | some c =>
        cases oD with
        | none => rfl
        | some d =>
          simp only [Option.some.injEq]
          omega

/-- the regenerated `decode` of the 5-tuple is, definitionally, the component step iterated from the last type parameter to the first -/
theorem tuple5_decode_eq {A A_Error B B_Error C C_Error D D_Error E E_Error : Type} (A_sl : Option Nat) (A_dec : List Nat → Res A_Error A) (A_into : A_Error → DynErr) (B_sl : Option Nat) (B_dec : List Nat → Res B_Error B) (B_into : B_Error → DynErr) (C_sl : Option Nat) (C_dec : List Nat → Res C_Error C) (C_into : C_Error → DynErr) (D_sl : Option Nat) (D_dec : List Nat → Res D_Error D) (D_into : D_Error → DynErr) (E_sl : Option Nat) (E_dec : List Nat → Res E_Error E) (E_into : E_Error → DynErr) (sequence : List Nat) :
    codec_tuple5_decode A_sl A_dec A_into B_sl B_dec B_into C_sl C_dec C_into D_sl D_dec D_into E_sl E_dec E_into sequence =
      compStep E_sl E_dec E_into sequence (fun s E_v => compStep D_sl D_dec D_into s (fun s D_v => compStep C_sl C_dec C_into s (fun s C_v => compStep B_sl B_dec B_into s (fun s B_v => compStep A_sl A_dec A_into s (fun s A_v => finishStep s (A_v, B_v, C_v, D_v, E_v)))))) := rfl

/-- **regenerated 5-tuple decoder = `decode (.tuple [..])` of the hand model** whenever the component decoders are the model's -/
theorem tuple5_item {A A_Error B B_Error C C_Error D D_Error E E_Error : Type} (tA : Ty) (tB : Ty) (tC : Ty) (tD : Ty) (tE : Ty) (A_dec : List Nat → Res A_Error A) (A_into : A_Error → DynErr) (A_toVal : A → Val) (B_dec : List Nat → Res B_Error B) (B_into : B_Error → DynErr) (B_toVal : B → Val) (C_dec : List Nat → Res C_Error C) (C_into : C_Error → DynErr) (C_toVal : C → Val) (D_dec : List Nat → Res D_Error D) (D_into : D_Error → DynErr) (D_toVal : D → Val) (E_dec : List Nat → Res E_Error E) (E_into : E_Error → DynErr) (E_toVal : E → Val)
    (hA : Item A_dec A_toVal (decode tA)) (hB : Item B_dec B_toVal (decode tB)) (hC : Item C_dec C_toVal (decode tC)) (hD : Item D_dec D_toVal (decode tD)) (hE : Item E_dec E_toVal (decode tE)) :
    Item (codec_tuple5_decode (staticLength tA) A_dec A_into (staticLength tB) B_dec B_into (staticLength tC) C_dec C_into (staticLength tD) D_dec D_into (staticLength tE) E_dec E_into)
      (fun p => Val.list [A_toVal p.1, B_toVal p.2.1, C_toVal p.2.2.1, D_toVal p.2.2.2.1, E_toVal p.2.2.2.2]) (decode (.tuple [tA, tB, tC, tD, tE])) := by
  intro r hw
  rw [tuple5_decode_eq]
  refine compStep_chain (full := [tA, tB, tC, tD, tE]) (pre := [tA, tB, tC, tD]) (t := tE) (ts := []) (hfull := rfl) (into := E_into) (h := hE) (s0 := vals r)
    (hw := hw) (hprev := (decodeFields_nil _)) (hok := fun vE s1 hw1 h1 => ?_)
  refine compStep_chain (full := [tA, tB, tC, tD, tE]) (pre := [tA, tB, tC]) (t := tD) (ts := [tE]) (hfull := rfl) (into := D_into) (h := hD) (s0 := vals r)
    (hw := hw1) (hprev := h1) (hok := fun vD s2 hw2 h2 => ?_)
  refine compStep_chain (full := [tA, tB, tC, tD, tE]) (pre := [tA, tB]) (t := tC) (ts := [tD, tE]) (hfull := rfl) (into := C_into) (h := hC) (s0 := vals r)
    (hw := hw2) (hprev := h2) (hok := fun vC s3 hw3 h3 => ?_)
  refine compStep_chain (full := [tA, tB, tC, tD, tE]) (pre := [tA]) (t := tB) (ts := [tC, tD, tE]) (hfull := rfl) (into := B_into) (h := hB) (s0 := vals r)
    (hw := hw3) (hprev := h3) (hok := fun vB s4 hw4 h4 => ?_)
  refine compStep_chain (full := [tA, tB, tC, tD, tE]) (pre := []) (t := tA) (ts := [tB, tC, tD, tE]) (hfull := rfl) (into := A_into) (h := hA) (s0 := vals r)
    (hw := hw4) (hprev := h4) (hok := fun vA s5 hw5 h5 => ?_)
  exact finishStep_spec _ [tA, tB, tC, tD, tE] (vals r) _ s5 _ rfl h5

theorem tuple5_encode_eq {A B C D E : Type} (A_sl : Option Nat) (A_enc : A → List Nat) (B_sl : Option Nat) (B_enc : B → List Nat) (C_sl : Option Nat) (C_enc : C → List Nat) (D_sl : Option Nat) (D_enc : D → List Nat) (E_sl : Option Nat) (E_enc : E → List Nat) (self : (A × B × C × D × E)) :
    codec_tuple5_encode A_sl A_enc B_sl B_enc C_sl C_enc D_sl D_enc E_sl E_enc self =
      pushComp A_sl (A_enc self.1) (pushComp B_sl (B_enc self.2.1) (pushComp C_sl (C_enc self.2.2.1) (pushComp D_sl (D_enc self.2.2.2.1) (pushComp E_sl (E_enc self.2.2.2.2) [])))) := rfl

/-- **regenerated 5-tuple encoder = `encode (.tuple [..])` of the hand model** (components in reverse declaration order, each
    prefixed by its length iff dynamically sized) whenever the component encoders are the model's -/
theorem tuple5_encode {A B C D E : Type} (tA : Ty) (tB : Ty) (tC : Ty) (tD : Ty) (tE : Ty) (A_enc : A → List Nat) (A_toVal : A → Val) (B_enc : B → List Nat) (B_toVal : B → Val) (C_enc : C → List Nat) (C_toVal : C → Val) (D_enc : D → List Nat) (D_toVal : D → Val) (E_enc : E → List Nat) (E_toVal : E → Val)
    (heA : ∀ x, vals (A_enc x) = encode tA (A_toVal x)) (heB : ∀ x, vals (B_enc x) = encode tB (B_toVal x)) (heC : ∀ x, vals (C_enc x) = encode tC (C_toVal x)) (heD : ∀ x, vals (D_enc x) = encode tD (D_toVal x)) (heE : ∀ x, vals (E_enc x) = encode tE (E_toVal x))
    (self : (A × B × C × D × E)) (hlA : (A_enc self.1).length < TF.BF.Pn) (hlB : (B_enc self.2.1).length < TF.BF.Pn) (hlC : (C_enc self.2.2.1).length < TF.BF.Pn) (hlD : (D_enc self.2.2.2.1).length < TF.BF.Pn) (hlE : (E_enc self.2.2.2.2).length < TF.BF.Pn) :
    vals (codec_tuple5_encode (staticLength tA) A_enc (staticLength tB) B_enc (staticLength tC) C_enc (staticLength tD) D_enc (staticLength tE) E_enc self) =
      encode (.tuple [tA, tB, tC, tD, tE]) (.list [A_toVal self.1, B_toVal self.2.1, C_toVal self.2.2.1, D_toVal self.2.2.2.1, E_toVal self.2.2.2.2]) := by
  rw [tuple5_encode_eq, encode_tuple]
  simp only [pushComp_vals _ _ _ hlA, pushComp_vals _ _ _ hlB, pushComp_vals _ _ _ hlC, pushComp_vals _ _ _ hlD, pushComp_vals _ _ _ hlE, encode_tuple_cons, encodeFields_nil, heA, heB, heC, heD, heE, vals_nil]

/-- regenerated `static_length` of the 5-tuple = `staticLength (.tuple [..])` -/
theorem tuple5_static_length (tA : Ty) (tB : Ty) (tC : Ty) (tD : Ty) (tE : Ty) :
    codec_tuple5_static_length (staticLength tA) (staticLength tB) (staticLength tC) (staticLength tD) (staticLength tE) = staticLength (.tuple [tA, tB, tC, tD, tE]) := by
  rw [staticLength_tuple]
  simp only [staticLengthSum_cons, staticLengthSum_nil]
  unfold codec_tuple5_static_length
  generalize staticLength tA = oA
  generalize staticLength tB = oB
  generalize staticLength tC = oC
  generalize staticLength tD = oD
  generalize staticLength tE = oE
  cases oA with
  | none => rfl
  | some a =>
    cases oB with
    | none => rfl
    | some b =>
      cases oC with
      | none => rfl
      | some c =>
        cases oD with
        | none => rfl
        | some d =>
          cases oE with
          | none => rfl
          | some e =>
            simp only [Option.some.injEq]
            omega

/-- the regenerated `decode` of the 6-tuple is, definitionally, the component step iterated from the last type parameter to the first -/
theorem tuple6_decode_eq {A A_Error B B_Error C C_Error D D_Error E E_Error F F_Error : Type} (A_sl : Option Nat) (A_dec : List Nat → Res A_Error A) (A_into : A_Error → DynErr) (B_sl : Option Nat) (B_dec : List Nat → Res B_Error B) (B_into : B_Error → DynErr) (C_sl : Option Nat) (C_dec : List Nat → Res C_Error C) (C_into : C_Error → DynErr) (D_sl : Option Nat) (D_dec : List Nat → Res D_Error D) (D_into : D_Error → DynErr) (E_sl : Option Nat) (E_dec : List Nat → Res E_Error E) (E_into : E_Error → DynErr) (F_sl : Option Nat) (F_dec : List Nat → Res F_Error F) (F_into : F_Error → DynErr) (sequence : List Nat) :
    codec_tuple6_decode A_sl A_dec A_into B_sl B_dec B_into C_sl C_dec C_into D_sl D_dec D_into E_sl E_dec E_into F_sl F_dec F_into sequence =
      compStep F_sl F_dec F_into sequence (fun s F_v => compStep E_sl E_dec E_into s (fun s E_v => compStep D_sl D_dec D_into s (fun s D_v => compStep C_sl C_dec C_into s (fun s C_v => compStep B_sl B_dec B_into s (fun s B_v => compStep A_sl A_dec A_into s (fun s A_v => finishStep s (A_v, B_v, C_v, D_v, E_v, F_v))))))) := rfl

/-- **regenerated 6-tuple decoder = `decode (.tuple [..])` of the hand model** whenever the component decoders are the model's -/
theorem tuple6_item {A A_Error B B_Error C C_Error D D_Error E E_Error F F_Error : Type} (tA : Ty) (tB : Ty) (tC : Ty) (tD : Ty) (tE : Ty) (tF : Ty) (A_dec : List Nat → Res A_Error A) (A_into : A_Error → DynErr) (A_toVal : A → Val) (B_dec : List Nat → Res B_Error B) (B_into : B_Error → DynErr) (B_toVal : B → Val) (C_dec : List Nat → Res C_Error C) (C_into : C_Error → DynErr) (C_toVal : C → Val) (D_dec : List Nat → Res D_Error D) (D_into : D_Error → DynErr) (D_toVal : D → Val) (E_dec : List Nat → Res E_Error E) (E_into : E_Error → DynErr) (E_toVal : E → Val) (F_dec : List Nat → Res F_Error F) (F_into : F_Error → DynErr) (F_toVal : F → Val)
    (hA : Item A_dec A_toVal (decode tA)) (hB : Item B_dec B_toVal (decode tB)) (hC : Item C_dec C_toVal (decode tC)) (hD : Item D_dec D_toVal (decode tD)) (hE : Item E_dec E_toVal (decode tE)) (hF : Item F_dec F_toVal (decode tF)) :
    Item (codec_tuple6_decode (staticLength tA) A_dec A_into (staticLength tB) B_dec B_into (staticLength tC) C_dec C_into (staticLength tD) D_dec D_into (staticLength tE) E_dec E_into (staticLength tF) F_dec F_into)
      (fun p => Val.list [A_toVal p.1, B_toVal p.2.1, C_toVal p.2.2.1, D_toVal p.2.2.2.1, E_toVal p.2.2.2.2.1, F_toVal p.2.2.2.2.2]) (decode (.tuple [tA, tB, tC, tD, tE, tF])) := by
  intro r hw
  rw [tuple6_decode_eq]
  refine compStep_chain (full := [tA, tB, tC, tD, tE, tF]) (pre := [tA, tB, tC, tD, tE]) (t := tF) (ts := []) (hfull := rfl) (into := F_into) (h := hF) (s0 := vals r)
    (hw := hw) (hprev := (decodeFields_nil _)) (hok := fun vF s1 hw1 h1 => ?_)
  refine compStep_chain (full := [tA, tB, tC, tD, tE, tF]) (pre := [tA, tB, tC, tD]) (t := tE) (ts := [tF]) (hfull := rfl) (into := E_into) (h := hE) (s0 := vals r)
    (hw := hw1) (hprev := h1) (hok := fun vE s2 hw2 h2 => ?_)
  refine compStep_chain (full := [tA, tB, tC, tD, tE, tF]) (pre := [tA, tB, tC]) (t := tD) (ts := [tE, tF]) (hfull := rfl) (into := D_into) (h := hD) (s0 := vals r)
    (hw := hw2) (hprev := h2) (hok := fun vD s3 hw3 h3 => ?_)
  refine compStep_chain (full := [tA, tB, tC, tD, tE, tF]) (pre := [tA, tB]) (t := tC) (ts := [tD, tE, tF]) (hfull := rfl) (into := C_into) (h := hC) (s0 := vals r)
    (hw := hw3) (hprev := h3) (hok := fun vC s4 hw4 h4 => ?_)
  refine compStep_chain (full := [tA, tB, tC, tD, tE, tF]) (pre := [tA]) (t := tB) (ts := [tC, tD, tE, tF]) (hfull := rfl) (into := B_into) (h := hB) (s0 := vals r)
    (hw := hw4) (hprev := h4) (hok := fun vB s5 hw5 h5 => ?_)
  refine compStep_chain (full := [tA, tB, tC, tD, tE, tF]) (pre := []) (t := tA) (ts := [tB, tC, tD, tE, tF]) (hfull := rfl) (into := A_into) (h := hA) (s0 := vals r)
    (hw := hw5) (hprev := h5) (hok := fun vA s6 hw6 h6 => ?_)
  exact finishStep_spec _ [tA, tB, tC, tD, tE, tF] (vals r) _ s6 _ rfl h6

theorem tuple6_encode_eq {A B C D E F : Type} (A_sl : Option Nat) (A_enc : A → List Nat) (B_sl : Option Nat) (B_enc : B → List Nat) (C_sl : Option Nat) (C_enc : C → List Nat) (D_sl : Option Nat) (D_enc : D → List Nat) (E_sl : Option Nat) (E_enc : E → List Nat) (F_sl : Option Nat) (F_enc : F → List Nat) (self : (A × B × C × D × E × F)) :
    codec_tuple6_encode A_sl A_enc B_sl B_enc C_sl C_enc D_sl D_enc E_sl E_enc F_sl F_enc self =
      pushComp A_sl (A_enc self.1) (pushComp B_sl (B_enc self.2.1) (pushComp C_sl (C_enc self.2.2.1) (pushComp D_sl (D_enc self.2.2.2.1) (pushComp E_sl (E_enc self.2.2.2.2.1) (pushComp F_sl (F_enc self.2.2.2.2.2) []))))) := rfl

/-- **regenerated 6-tuple encoder = `encode (.tuple [..])` of the hand model** (components in reverse declaration order, each
    prefixed by its length iff dynamically sized) whenever the component encoders are the model's -/
theorem tuple6_encode {A B C D E F : Type} (tA : Ty) (tB : Ty) (tC : Ty) (tD : Ty) (tE : Ty) (tF : Ty) (A_enc : A → List Nat) (A_toVal : A → Val) (B_enc : B → List Nat) (B_toVal : B → Val) (C_enc : C → List Nat) (C_toVal : C → Val) (D_enc : D → List Nat) (D_toVal : D → Val) (E_enc : E → List Nat) (E_toVal : E → Val) (F_enc : F → List Nat) (F_toVal : F → Val)
    (heA : ∀ x, vals (A_enc x) = encode tA (A_toVal x)) (heB : ∀ x, vals (B_enc x) = encode tB (B_toVal x)) (heC : ∀ x, vals (C_enc x) = encode tC (C_toVal x)) (heD : ∀ x, vals (D_enc x) = encode tD (D_toVal x)) (heE : ∀ x, vals (E_enc x) = encode tE (E_toVal x)) (heF : ∀ x, vals (F_enc x) = encode tF (F_toVal x))
    (self : (A × B × C × D × E × F)) (hlA : (A_enc self.1).length < TF.BF.Pn) (hlB : (B_enc self.2.1).length < TF.BF.Pn) (hlC : (C_enc self.2.2.1).length < TF.BF.Pn) (hlD : (D_enc self.2.2.2.1).length < TF.BF.Pn) (hlE : (E_enc self.2.2.2.2.1).length < TF.BF.Pn) (hlF : (F_enc self.2.2.2.2.2).length < TF.BF.Pn) :
    vals (codec_tuple6_encode (staticLength tA) A_enc (staticLength tB) B_enc (staticLength tC) C_enc (staticLength tD) D_enc (staticLength tE) E_enc (staticLength tF) F_enc self) =
      encode (.tuple [tA, tB, tC, tD, tE, tF]) (.list [A_toVal self.1, B_toVal self.2.1, C_toVal self.2.2.1, D_toVal self.2.2.2.1, E_toVal self.2.2.2.2.1, F_toVal self.2.2.2.2.2]) := by
  rw [tuple6_encode_eq, encode_tuple]
  simp only [pushComp_vals _ _ _ hlA, pushComp_vals _ _ _ hlB, pushComp_vals _ _ _ hlC, pushComp_vals _ _ _ hlD, pushComp_vals _ _ _ hlE, pushComp_vals _ _ _ hlF, encode_tuple_cons, encodeFields_nil, heA, heB, heC, heD, heE, heF, vals_nil]

/-- regenerated `static_length` of the 6-tuple = `staticLength (.tuple [..])` -/
theorem tuple6_static_length (tA : Ty) (tB : Ty) (tC : Ty) (tD : Ty) (tE : Ty) (tF : Ty) :
    codec_tuple6_static_length (staticLength tA) (staticLength tB) (staticLength tC) (staticLength tD) (staticLength tE) (staticLength tF) = staticLength (.tuple [tA, tB, tC, tD, tE, tF]) := by
  rw [staticLength_tuple]
  simp only [staticLengthSum_cons, staticLengthSum_nil]
  unfold codec_tuple6_static_length
  generalize staticLength tA = oA
  generalize staticLength tB = oB
  generalize staticLength tC = oC
  generalize staticLength tD = oD
  generalize staticLength tE = oE
  generalize staticLength tF = oF
  cases oA with
  | none => rfl
  | some a =>
    cases oB with
    | none => rfl
    | some b =>
      cases oC with
      | none => rfl
      | some c =>
        cases oD with
        | none => rfl
        | some d =>
          cases oE with
          | none => rfl
          | some e =>
            cases oF with
            | none => rfl
            | some f =>
              simp only [Option.some.injEq]
              omega

/-- the regenerated `decode` of the 7-tuple is, definitionally, the component step iterated from the last type parameter to the first -/
theorem tuple7_decode_eq {A A_Error B B_Error C C_Error D D_Error E E_Error F F_Error G G_Error : Type} (A_sl : Option Nat) (A_dec : List Nat → Res A_Error A) (A_into : A_Error → DynErr) (B_sl : Option Nat) (B_dec : List Nat → Res B_Error B) (B_into : B_Error → DynErr) (C_sl : Option Nat) (C_dec : List Nat → Res C_Error C) (C_into : C_Error → DynErr) (D_sl : Option Nat) (D_dec : List Nat → Res D_Error D) (D_into : D_Error → DynErr) (E_sl : Option Nat) (E_dec : List Nat → Res E_Error E) (E_into : E_Error → DynErr) (F_sl : Option Nat) (F_dec : List Nat → Res F_Error F) (F_into : F_Error → DynErr) (G_sl : Option Nat) (G_dec : List Nat → Res G_Error G) (G_into : G_Error → DynErr) (sequence : List Nat) :
    codec_tuple7_decode A_sl A_dec A_into B_sl B_dec B_into C_sl C_dec C_into D_sl D_dec D_into E_sl E_dec E_into F_sl F_dec F_into G_sl G_dec G_into sequence =
      compStep G_sl G_dec G_into sequence (fun s G_v => compStep F_sl F_dec F_into s (fun s F_v => compStep E_sl E_dec E_into s (fun s E_v => compStep D_sl D_dec D_into s (fun s D_v => compStep C_sl C_dec C_into s (fun s C_v => compStep B_sl B_dec B_into s (fun s B_v => compStep A_sl A_dec A_into s (fun s A_v => finishStep s (A_v, B_v, C_v, D_v, E_v, F_v, G_v)))))))) := rfl

/-- **regenerated 7-tuple decoder = `decode (.tuple [..])` of the hand model** whenever the component decoders are the model's -/
theorem tuple7_item {A A_Error B B_Error C C_Error D D_Error E E_Error F F_Error G G_Error : Type} (tA : Ty) (tB : Ty) (tC : Ty) (tD : Ty) (tE : Ty) (tF : Ty) (tG : Ty) (A_dec : List Nat → Res A_Error A) (A_into : A_Error → DynErr) (A_toVal : A → Val) (B_dec : List Nat → Res B_Error B) (B_into : B_Error → DynErr) (B_toVal : B → Val) (C_dec : List Nat → Res C_Error C) (C_into : C_Error → DynErr) (C_toVal : C → Val) (D_dec : List Nat → Res D_Error D) (D_into : D_Error → DynErr) (D_toVal : D → Val) (E_dec : List Nat → Res E_Error E) (E_into : E_Error → DynErr) (E_toVal : E → Val) (F_dec : List Nat → Res F_Error F) (F_into : F_Error → DynErr) (F_toVal : F → Val) (G_dec : List Nat → Res G_Error G) (G_into : G_Error → DynErr) (G_toVal : G → Val)
    (hA : Item A_dec A_toVal (decode tA)) (hB : Item B_dec B_toVal (decode tB)) (hC : Item C_dec C_toVal (decode tC)) (hD : Item D_dec D_toVal (decode tD)) (hE : Item E_dec E_toVal (decode tE)) (hF : Item F_dec F_toVal (decode tF)) (hG : Item G_dec G_toVal (decode tG)) :
    Item (codec_tuple7_decode (staticLength tA) A_dec A_into (staticLength tB) B_dec B_into (staticLength tC) C_dec C_into (staticLength tD) D_dec D_into (staticLength tE) E_dec E_into (staticLength tF) F_dec F_into (staticLength tG) G_dec G_into)
      (fun p => Val.list [A_toVal p.1, B_toVal p.2.1, C_toVal p.2.2.1, D_toVal p.2.2.2.1, E_toVal p.2.2.2.2.1, F_toVal p.2.2.2.2.2.1, G_toVal p.2.2.2.2.2.2]) (decode (.tuple [tA, tB, tC, tD, tE, tF, tG])) := by
  intro r hw
  rw [tuple7_decode_eq]
  refine compStep_chain (full := [tA, tB, tC, tD, tE, tF, tG]) (pre := [tA, tB, tC, tD, tE, tF]) (t := tG) (ts := []) (hfull := rfl) (into := G_into) (h := hG) (s0 := vals r)
    (hw := hw) (hprev := (decodeFields_nil _)) (hok := fun vG s1 hw1 h1 => ?_)
  refine compStep_chain (full := [tA, tB, tC, tD, tE, tF, tG]) (pre := [tA, tB, tC, tD, tE]) (t := tF) (ts := [tG]) (hfull := rfl) (into := F_into) (h := hF) (s0 := vals r)
    (hw := hw1) (hprev := h1) (hok := fun vF s2 hw2 h2 => ?_)
  refine compStep_chain (full := [tA, tB, tC, tD, tE, tF, tG]) (pre := [tA, tB, tC, tD]) (t := tE) (ts := [tF, tG]) (hfull := rfl) (into := E_into) (h := hE) (s0 := vals r)
    (hw := hw2) (hprev := h2) (hok := fun vE s3 hw3 h3 => ?_)
  refine compStep_chain (full := [tA, tB, tC, tD, tE, tF, tG]) (pre := [tA, tB, tC]) (t := tD) (ts := [tE, tF, tG]) (hfull := rfl) (into := D_into) (h := hD) (s0 := vals r)
    (hw := hw3) (hprev := h3) (hok := fun vD s4 hw4 h4 => ?_)
  refine compStep_chain (full := [tA, tB, tC, tD, tE, tF, tG]) (pre := [tA, tB]) (t := tC) (ts := [tD, tE, tF, tG]) (hfull := rfl) (into := C_into) (h := hC) (s0 := vals r)
    (hw := hw4) (hprev := h4) (hok := fun vC s5 hw5 h5 => ?_)
  refine compStep_chain (full := [tA, tB, tC, tD, tE, tF, tG]) (pre := [tA]) (t := tB) (ts := [tC, tD, tE, tF, tG]) (hfull := rfl) (into := B_into) (h := hB) (s0 := vals r)
    (hw := hw5) (hprev := h5) (hok := fun vB s6 hw6 h6 => ?_)
  refine compStep_chain (full := [tA, tB, tC, tD, tE, tF, tG]) (pre := []) (t := tA) (ts := [tB, tC, tD, tE, tF, tG]) (hfull := rfl) (into := A_into) (h := hA) (s0 := vals r)
    (hw := hw6) (hprev := h6) (hok := fun vA s7 hw7 h7 => ?_)
  exact finishStep_spec _ [tA, tB, tC, tD, tE, tF, tG] (vals r) _ s7 _ rfl h7

theorem tuple7_encode_eq {A B C D E F G : Type} (A_sl : Option Nat) (A_enc : A → List Nat) (B_sl : Option Nat) (B_enc : B → List Nat) (C_sl : Option Nat) (C_enc : C → List Nat) (D_sl : Option Nat) (D_enc : D → List Nat) (E_sl : Option Nat) (E_enc : E → List Nat) (F_sl : Option Nat) (F_enc : F → List Nat) (G_sl : Option Nat) (G_enc : G → List Nat) (self : (A × B × C × D × E × F × G)) :
    codec_tuple7_encode A_sl A_enc B_sl B_enc C_sl C_enc D_sl D_enc E_sl E_enc F_sl F_enc G_sl G_enc self =
      pushComp A_sl (A_enc self.1) (pushComp B_sl (B_enc self.2.1) (pushComp C_sl (C_enc self.2.2.1) (pushComp D_sl (D_enc self.2.2.2.1) (pushComp E_sl (E_enc self.2.2.2.2.1) (pushComp F_sl (F_enc self.2.2.2.2.2.1) (pushComp G_sl (G_enc self.2.2.2.2.2.2) [])))))) := rfl

/-- **regenerated 7-tuple encoder = `encode (.tuple [..])` of the hand model** (components in reverse declaration order, each
    prefixed by its length iff dynamically sized) whenever the component encoders are the model's -/
theorem tuple7_encode {A B C D E F G : Type} (tA : Ty) (tB : Ty) (tC : Ty) (tD : Ty) (tE : Ty) (tF : Ty) (tG : Ty) (A_enc : A → List Nat) (A_toVal : A → Val) (B_enc : B → List Nat) (B_toVal : B → Val) (C_enc : C → List Nat) (C_toVal : C → Val) (D_enc : D → List Nat) (D_toVal : D → Val) (E_enc : E → List Nat) (E_toVal : E → Val) (F_enc : F → List Nat) (F_toVal : F → Val) (G_enc : G → List Nat) (G_toVal : G → Val)
    (heA : ∀ x, vals (A_enc x) = encode tA (A_toVal x)) (heB : ∀ x, vals (B_enc x) = encode tB (B_toVal x)) (heC : ∀ x, vals (C_enc x) = encode tC (C_toVal x)) (heD : ∀ x, vals (D_enc x) = encode tD (D_toVal x)) (heE : ∀ x, vals (E_enc x) = encode tE (E_toVal x)) (heF : ∀ x, vals (F_enc x) = encode tF (F_toVal x)) (heG : ∀ x, vals (G_enc x) = encode tG (G_toVal x))
    (self : (A × B × C × D × E × F × G)) (hlA : (A_enc self.1).length < TF.BF.Pn) (hlB : (B_enc self.2.1).length < TF.BF.Pn) (hlC : (C_enc self.2.2.1).length < TF.BF.Pn) (hlD : (D_enc self.2.2.2.1).length < TF.BF.Pn) (hlE : (E_enc self.2.2.2.2.1).length < TF.BF.Pn) (hlF : (F_enc self.2.2.2.2.2.1).length < TF.BF.Pn) (hlG : (G_enc self.2.2.2.2.2.2).length < TF.BF.Pn) :
    vals (codec_tuple7_encode (staticLength tA) A_enc (staticLength tB) B_enc (staticLength tC) C_enc (staticLength tD) D_enc (staticLength tE) E_enc (staticLength tF) F_enc (staticLength tG) G_enc self) =
      encode (.tuple [tA, tB, tC, tD, tE, tF, tG]) (.list [A_toVal self.1, B_toVal self.2.1, C_toVal self.2.2.1, D_toVal self.2.2.2.1, E_toVal self.2.2.2.2.1, F_toVal self.2.2.2.2.2.1, G_toVal self.2.2.2.2.2.2]) := by
  rw [tuple7_encode_eq, encode_tuple]
  simp only [pushComp_vals _ _ _ hlA, pushComp_vals _ _ _ hlB, pushComp_vals _ _ _ hlC, pushComp_vals _ _ _ hlD, pushComp_vals _ _ _ hlE, pushComp_vals _ _ _ hlF, pushComp_vals _ _ _ hlG, encode_tuple_cons, encodeFields_nil, heA, heB, heC, heD, heE, heF, heG, vals_nil]

/-- regenerated `static_length` of the 7-tuple = `staticLength (.tuple [..])` -/
theorem tuple7_static_length (tA : Ty) (tB : Ty) (tC : Ty) (tD : Ty) (tE : Ty) (tF : Ty) (tG : Ty) :
    codec_tuple7_static_length (staticLength tA) (staticLength tB) (staticLength tC) (staticLength tD) (staticLength tE) (staticLength tF) (staticLength tG) = staticLength (.tuple [tA, tB, tC, tD, tE, tF, tG]) := by
  rw [staticLength_tuple]
  simp only [staticLengthSum_cons, staticLengthSum_nil]
  unfold codec_tuple7_static_length
  generalize staticLength tA = oA
  generalize staticLength tB = oB
  generalize staticLength tC = oC
  generalize staticLength tD = oD
  generalize staticLength tE = oE
  generalize staticLength tF = oF
  generalize staticLength tG = oG
  cases oA with
  | none => rfl
  | some a =>
    cases oB with
    | none => rfl
    | some b =>
      cases oC with
      | none => rfl
      | some c =>
        cases oD with
        | none => rfl
        | some d =>
          cases oE with
          | none => rfl
          | some e =>
            cases oF with
            | none => rfl
            | some f =>
              cases oG with
              | none => rfl
              | some g =>
                simp only [Option.some.injEq]
                omega

/-- the regenerated `decode` of the 8-tuple is, definitionally, the component step iterated from the last type parameter to the first -/
theorem tuple8_decode_eq {A A_Error B B_Error C C_Error D D_Error E E_Error F F_Error G G_Error H H_Error : Type} (A_sl : Option Nat) (A_dec : List Nat → Res A_Error A) (A_into : A_Error → DynErr) (B_sl : Option Nat) (B_dec : List Nat → Res B_Error B) (B_into : B_Error → DynErr) (C_sl : Option Nat) (C_dec : List Nat → Res C_Error C) (C_into : C_Error → DynErr) (D_sl : Option Nat) (D_dec : List Nat → Res D_Error D) (D_into : D_Error → DynErr) (E_sl : Option Nat) (E_dec : List Nat → Res E_Error E) (E_into : E_Error → DynErr) (F_sl : Option Nat) (F_dec : List Nat → Res F_Error F) (F_into : F_Error → DynErr) (G_sl : Option Nat) (G_dec : List Nat → Res G_Error G) (G_into : G_Error → DynErr) (H_sl : Option Nat) (H_dec : List Nat → Res H_Error H) (H_into : H_Error → DynErr) (sequence : List Nat) :
    codec_tuple8_decode A_sl A_dec A_into B_sl B_dec B_into C_sl C_dec C_into D_sl D_dec D_into E_sl E_dec E_into F_sl F_dec F_into G_sl G_dec G_into H_sl H_dec H_into sequence =
      compStep H_sl H_dec H_into sequence (fun s H_v => compStep G_sl G_dec G_into s (fun s G_v => compStep F_sl F_dec F_into s (fun s F_v => compStep E_sl E_dec E_into s (fun s E_v => compStep D_sl D_dec D_into s (fun s D_v => compStep C_sl C_dec C_into s (fun s C_v => compStep B_sl B_dec B_into s (fun s B_v => compStep A_sl A_dec A_into s (fun s A_v => finishStep s (A_v, B_v, C_v, D_v, E_v, F_v, G_v, H_v))))))))) := rfl

/-- **regenerated 8-tuple decoder = `decode (.tuple [..])` of the hand model** whenever the component decoders are the model's -/
theorem tuple8_item {A A_Error B B_Error C C_Error D D_Error E E_Error F F_Error G G_Error H H_Error : Type} (tA : Ty) (tB : Ty) (tC : Ty) (tD : Ty) (tE : Ty) (tF : Ty) (tG : Ty) (tH : Ty) (A_dec : List Nat → Res A_Error A) (A_into : A_Error → DynErr) (A_toVal : A → Val) (B_dec : List Nat → Res B_Error B) (B_into : B_Error → DynErr) (B_toVal : B → Val) (C_dec : List Nat → Res C_Error C) (C_into : C_Error → DynErr) (C_toVal : C → Val) (D_dec : List Nat → Res D_Error D) (D_into : D_Error → DynErr) (D_toVal : D → Val) (E_dec : List Nat → Res E_Error E) (E_into : E_Error → DynErr) (E_toVal : E → Val) (F_dec : List Nat → Res F_Error F) (F_into : F_Error → DynErr) (F_toVal : F → Val) (G_dec : List Nat → Res G_Error G) (G_into : G_Error → DynErr) (G_toVal : G → Val) (H_dec : List Nat → Res H_Error H) (H_into : H_Error → DynErr) (H_toVal : H → Val)
    (hA : Item A_dec A_toVal (decode tA)) (hB : Item B_dec B_toVal (decode tB)) (hC : Item C_dec C_toVal (decode tC)) (hD : Item D_dec D_toVal (decode tD)) (hE : Item E_dec E_toVal (decode tE)) (hF : Item F_dec F_toVal (decode tF)) (hG : Item G_dec G_toVal (decode tG)) (hH : Item H_dec H_toVal (decode tH)) :
    Item (codec_tuple8_decode (staticLength tA) A_dec A_into (staticLength tB) B_dec B_into (staticLength tC) C_dec C_into (staticLength tD) D_dec D_into (staticLength tE) E_dec E_into (staticLength tF) F_dec F_into (staticLength tG) G_dec G_into (staticLength tH) H_dec H_into)
      (fun p => Val.list [A_toVal p.1, B_toVal p.2.1, C_toVal p.2.2.1, D_toVal p.2.2.2.1, E_toVal p.2.2.2.2.1, F_toVal p.2.2.2.2.2.1, G_toVal p.2.2.2.2.2.2.1, H_toVal p.2.2.2.2.2.2.2]) (decode (.tuple [tA, tB, tC, tD, tE, tF, tG, tH])) := by
  intro r hw
  rw [tuple8_decode_eq]
  refine compStep_chain (full := [tA, tB, tC, tD, tE, tF, tG, tH]) (pre := [tA, tB, tC, tD, tE, tF, tG]) (t := tH) (ts := []) (hfull := rfl) (into := H_into) (h := hH) (s0 := vals r)
    (hw := hw) (hprev := (decodeFields_nil _)) (hok := fun vH s1 hw1 h1 => ?_)
  refine compStep_chain (full := [tA, tB, tC, tD, tE, tF, tG, tH]) (pre := [tA, tB, tC, tD, tE, tF]) (t := tG) (ts := [tH]) (hfull := rfl) (into := G_into) (h := hG) (s0 := vals r)
    (hw := hw1) (hprev := h1) (hok := fun vG s2 hw2 h2 => ?_)
  refine compStep_chain (full := [tA, tB, tC, tD, tE, tF, tG, tH]) (pre := [tA, tB, tC, tD, tE]) (t := tF) (ts := [tG, tH]) (hfull := rfl) (into := F_into) (h := hF) (s0 := vals r)
    (hw := hw2) (hprev := h2) (hok := fun vF s3 hw3 h3 => ?_)
  refine compStep_chain (full := [tA, tB, tC, tD, tE, tF, tG, tH]) (pre := [tA, tB, tC, tD]) (t := tE) (ts := [tF, tG, tH]) (hfull := rfl) (into := E_into) (h := hE) (s0 := vals r)
    (hw := hw3) (hprev := h3) (hok := fun vE s4 hw4 h4 => ?_)
  refine compStep_chain (full := [tA, tB, tC, tD, tE, tF, tG, tH]) (pre := [tA, tB, tC]) (t := tD) (ts := [tE, tF, tG, tH]) (hfull := rfl) (into := D_into) (h := hD) (s0 := vals r)
    (hw := hw4) (hprev := h4) (hok := fun vD s5 hw5 h5 => ?_)
  refine compStep_chain (full := [tA, tB, tC, tD, tE, tF, tG, tH]) (pre := [tA, tB]) (t := tC) (ts := [tD, tE, tF, tG, tH]) (hfull := rfl) (into := C_into) (h := hC) (s0 := vals r)
    (hw := hw5) (hprev := h5) (hok := fun vC s6 hw6 h6 => ?_)
  refine compStep_chain (full := [tA, tB, tC, tD, tE, tF, tG, tH]) (pre := [tA]) (t := tB) (ts := [tC, tD, tE, tF, tG, tH]) (hfull := rfl) (into := B_into) (h := hB) (s0 := vals r)
    (hw := hw6) (hprev := h6) (hok := fun vB s7 hw7 h7 => ?_)
  refine compStep_chain (full := [tA, tB, tC, tD, tE, tF, tG, tH]) (pre := []) (t := tA) (ts := [tB, tC, tD, tE, tF, tG, tH]) (hfull := rfl) (into := A_into) (h := hA) (s0 := vals r)
    (hw := hw7) (hprev := h7) (hok := fun vA s8 hw8 h8 => ?_)
  exact finishStep_spec _ [tA, tB, tC, tD, tE, tF, tG, tH] (vals r) _ s8 _ rfl h8

theorem tuple8_encode_eq {A B C D E F G H : Type} (A_sl : Option Nat) (A_enc : A → List Nat) (B_sl : Option Nat) (B_enc : B → List Nat) (C_sl : Option Nat) (C_enc : C → List Nat) (D_sl : Option Nat) (D_enc : D → List Nat) (E_sl : Option Nat) (E_enc : E → List Nat) (F_sl : Option Nat) (F_enc : F → List Nat) (G_sl : Option Nat) (G_enc : G → List Nat) (H_sl : Option Nat) (H_enc : H → List Nat) (self : (A × B × C × D × E × F × G × H)) :
    codec_tuple8_encode A_sl A_enc B_sl B_enc C_sl C_enc D_sl D_enc E_sl E_enc F_sl F_enc G_sl G_enc H_sl H_enc self =
      pushComp A_sl (A_enc self.1) (pushComp B_sl (B_enc self.2.1) (pushComp C_sl (C_enc self.2.2.1) (pushComp D_sl (D_enc self.2.2.2.1) (pushComp E_sl (E_enc self.2.2.2.2.1) (pushComp F_sl (F_enc self.2.2.2.2.2.1) (pushComp G_sl (G_enc self.2.2.2.2.2.2.1) (pushComp H_sl (H_enc self.2.2.2.2.2.2.2) []))))))) := rfl

/-- **regenerated 8-tuple encoder = `encode (.tuple [..])` of the hand model** (components in reverse declaration order, each
    prefixed by its length iff dynamically sized) whenever the component encoders are the model's -/
theorem tuple8_encode {A B C D E F G H : Type} (tA : Ty) (tB : Ty) (tC : Ty) (tD : Ty) (tE : Ty) (tF : Ty) (tG : Ty) (tH : Ty) (A_enc : A → List Nat) (A_toVal : A → Val) (B_enc : B → List Nat) (B_toVal : B → Val) (C_enc : C → List Nat) (C_toVal : C → Val) (D_enc : D → List Nat) (D_toVal : D → Val) (E_enc : E → List Nat) (E_toVal : E → Val) (F_enc : F → List Nat) (F_toVal : F → Val) (G_enc : G → List Nat) (G_toVal : G → Val) (H_enc : H → List Nat) (H_toVal : H → Val)
    (heA : ∀ x, vals (A_enc x) = encode tA (A_toVal x)) (heB : ∀ x, vals (B_enc x) = encode tB (B_toVal x)) (heC : ∀ x, vals (C_enc x) = encode tC (C_toVal x)) (heD : ∀ x, vals (D_enc x) = encode tD (D_toVal x)) (heE : ∀ x, vals (E_enc x) = encode tE (E_toVal x)) (heF : ∀ x, vals (F_enc x) = encode tF (F_toVal x)) (heG : ∀ x, vals (G_enc x) = encode tG (G_toVal x)) (heH : ∀ x, vals (H_enc x) = encode tH (H_toVal x))
    (self : (A × B × C × D × E × F × G × H)) (hlA : (A_enc self.1).length < TF.BF.Pn) (hlB : (B_enc self.2.1).length < TF.BF.Pn) (hlC : (C_enc self.2.2.1).length < TF.BF.Pn) (hlD : (D_enc self.2.2.2.1).length < TF.BF.Pn) (hlE : (E_enc self.2.2.2.2.1).length < TF.BF.Pn) (hlF : (F_enc self.2.2.2.2.2.1).length < TF.BF.Pn) (hlG : (G_enc self.2.2.2.2.2.2.1).length < TF.BF.Pn) (hlH : (H_enc self.2.2.2.2.2.2.2).length < TF.BF.Pn) :
    vals (codec_tuple8_encode (staticLength tA) A_enc (staticLength tB) B_enc (staticLength tC) C_enc (staticLength tD) D_enc (staticLength tE) E_enc (staticLength tF) F_enc (staticLength tG) G_enc (staticLength tH) H_enc self) =
      encode (.tuple [tA, tB, tC, tD, tE, tF, tG, tH]) (.list [A_toVal self.1, B_toVal self.2.1, C_toVal self.2.2.1, D_toVal self.2.2.2.1, E_toVal self.2.2.2.2.1, F_toVal self.2.2.2.2.2.1, G_toVal self.2.2.2.2.2.2.1, H_toVal self.2.2.2.2.2.2.2]) := by
  rw [tuple8_encode_eq, encode_tuple]
  simp only [pushComp_vals _ _ _ hlA, pushComp_vals _ _ _ hlB, pushComp_vals _ _ _ hlC, pushComp_vals _ _ _ hlD, pushComp_vals _ _ _ hlE, pushComp_vals _ _ _ hlF, pushComp_vals _ _ _ hlG, pushComp_vals _ _ _ hlH, encode_tuple_cons, encodeFields_nil, heA, heB, heC, heD, heE, heF, heG, heH, vals_nil]

/-- regenerated `static_length` of the 8-tuple = `staticLength (.tuple [..])` -/
theorem tuple8_static_length (tA : Ty) (tB : Ty) (tC : Ty) (tD : Ty) (tE : Ty) (tF : Ty) (tG : Ty) (tH : Ty) :
    codec_tuple8_static_length (staticLength tA) (staticLength tB) (staticLength tC) (staticLength tD) (staticLength tE) (staticLength tF) (staticLength tG) (staticLength tH) = staticLength (.tuple [tA, tB, tC, tD, tE, tF, tG, tH]) := by
  rw [staticLength_tuple]
  simp only [staticLengthSum_cons, staticLengthSum_nil]
  unfold codec_tuple8_static_length
  generalize staticLength tA = oA
  generalize staticLength tB = oB
  generalize staticLength tC = oC
  generalize staticLength tD = oD
  generalize staticLength tE = oE
  generalize staticLength tF = oF
  generalize staticLength tG = oG
  generalize staticLength tH = oH
  cases oA with
  | none => rfl
  | some a =>
    cases oB with
    | none => rfl
    | some b =>
      cases oC with
      | none => rfl
      | some c =>
        cases oD with
        | none => rfl
        | some d =>
          cases oE with
          | none => rfl
          | some e =>
            cases oF with
            | none => rfl
            | some f =>
              cases oG with
              | none => rfl
              | some g =>
                cases oH with
                | none => rfl
                | some h =>
                  simp only [Option.some.injEq]
                  omega

/-- the regenerated `decode` of the 9-tuple is, definitionally, the component step iterated from the last type parameter to the first -/
theorem tuple9_decode_eq {A A_Error B B_Error C C_Error D D_Error E E_Error F F_Error G G_Error H H_Error I I_Error : Type} (A_sl : Option Nat) (A_dec : List Nat → Res A_Error A) (A_into : A_Error → DynErr) (B_sl : Option Nat) (B_dec : List Nat → Res B_Error B) (B_into : B_Error → DynErr) (C_sl : Option Nat) (C_dec : List Nat → Res C_Error C) (C_into : C_Error → DynErr) (D_sl : Option Nat) (D_dec : List Nat → Res D_Error D) (D_into : D_Error → DynErr) (E_sl : Option Nat) (E_dec : List Nat → Res E_Error E) (E_into : E_Error → DynErr) (F_sl : Option Nat) (F_dec : List Nat → Res F_Error F) (F_into : F_Error → DynErr) (G_sl : Option Nat) (G_dec : List Nat → Res G_Error G) (G_into : G_Error → DynErr) (H_sl : Option Nat) (H_dec : List Nat → Res H_Error H) (H_into : H_Error → DynErr) (I_sl : Option Nat) (I_dec : List Nat → Res I_Error I) (I_into : I_Error → DynErr) (sequence : List Nat) :
    codec_tuple9_decode A_sl A_dec A_into B_sl B_dec B_into C_sl C_dec C_into D_sl D_dec D_into E_sl E_dec E_into F_sl F_dec F_into G_sl G_dec G_into H_sl H_dec H_into I_sl I_dec I_into sequence =
      compStep I_sl I_dec I_into sequence (fun s I_v => compStep H_sl H_dec H_into s (fun s H_v => compStep G_sl G_dec G_into s (fun s G_v => compStep F_sl F_dec F_into s (fun s F_v => compStep E_sl E_dec E_into s (fun s E_v => compStep D_sl D_dec D_into s (fun s D_v => compStep C_sl C_dec C_into s (fun s C_v => compStep B_sl B_dec B_into s (fun s B_v => compStep A_sl A_dec A_into s (fun s A_v => finishStep s (A_v, B_v, C_v, D_v, E_v, F_v, G_v, H_v, I_v)))))))))) := rfl

/-- **regenerated 9-tuple decoder = `decode (.tuple [..])` of the hand model** whenever the component decoders are the model's -/
theorem tuple9_item {A A_Error B B_Error C C_Error D D_Error E E_Error F F_Error G G_Error H H_Error I I_Error : Type} (tA : Ty) (tB : Ty) (tC : Ty) (tD : Ty) (tE : Ty) (tF : Ty) (tG : Ty) (tH : Ty) (tI : Ty) (A_dec : List Nat → Res A_Error A) (A_into : A_Error → DynErr) (A_toVal : A → Val) (B_dec : List Nat → Res B_Error B) (B_into : B_Error → DynErr) (B_toVal : B → Val) (C_dec : List Nat → Res C_Error C) (C_into : C_Error → DynErr) (C_toVal : C → Val) (D_dec : List Nat → Res D_Error D) (D_into : D_Error → DynErr) (D_toVal : D → Val) (E_dec : List Nat → Res E_Error E) (E_into : E_Error → DynErr) (E_toVal : E → Val) (F_dec : List Nat → Res F_Error F) (F_into : F_Error → DynErr) (F_toVal : F → Val) (G_dec : List Nat → Res G_Error G) (G_into : G_Error → DynErr) (G_toVal : G → Val) (H_dec : List Nat → Res H_Error H) (H_into : H_Error → DynErr) (H_toVal : H → Val) (I_dec : List Nat → Res I_Error I) (I_into : I_Error → DynErr) (I_toVal : I → Val)
    (hA : Item A_dec A_toVal (decode tA)) (hB : Item B_dec B_toVal (decode tB)) (hC : Item C_dec C_toVal (decode tC)) (hD : Item D_dec D_toVal (decode tD)) (hE : Item E_dec E_toVal (decode tE)) (hF : Item F_dec F_toVal (decode tF)) (hG : Item G_dec G_toVal (decode tG)) (hH : Item H_dec H_toVal (decode tH)) (hI : Item I_dec I_toVal (decode tI)) :
    Item (codec_tuple9_decode (staticLength tA) A_dec A_into (staticLength tB) B_dec B_into (staticLength tC) C_dec C_into (staticLength tD) D_dec D_into (staticLength tE) E_dec E_into (staticLength tF) F_dec F_into (staticLength tG) G_dec G_into (staticLength tH) H_dec H_into (staticLength tI) I_dec I_into)
      (fun p => Val.list [A_toVal p.1, B_toVal p.2.1, C_toVal p.2.2.1, D_toVal p.2.2.2.1, E_toVal p.2.2.2.2.1, F_toVal p.2.2.2.2.2.1, G_toVal p.2.2.2.2.2.2.1, H_toVal p.2.2.2.2.2.2.2.1, I_toVal p.2.2.2.2.2.2.2.2]) (decode (.tuple [tA, tB, tC, tD, tE, tF, tG, tH, tI])) := by
  intro r hw
  rw [tuple9_decode_eq]
  refine compStep_chain (full := [tA, tB, tC, tD, tE, tF, tG, tH, tI]) (pre := [tA, tB, tC, tD, tE, tF, tG, tH]) (t := tI) (ts := []) (hfull := rfl) (into := I_into) (h := hI) (s0 := vals r)
    (hw := hw) (hprev := (decodeFields_nil _)) (hok := fun vI s1 hw1 h1 => ?_)
  refine compStep_chain (full := [tA, tB, tC, tD, tE, tF, tG, tH, tI]) (pre := [tA, tB, tC, tD, tE, tF, tG]) (t := tH) (ts := [tI]) (hfull := rfl) (into := H_into) (h := hH) (s0 := vals r)
    (hw := hw1) (hprev := h1) (hok := fun vH s2 hw2 h2 => ?_)
  refine compStep_chain (full := [tA, tB, tC, tD, tE, tF, tG, tH, tI]) (pre := [tA, tB, tC, tD, tE, tF]) (t := tG) (ts := [tH, tI]) (hfull := rfl) (into := G_into) (h := hG) (s0 := vals r)
    (hw := hw2) (hprev := h2) (hok := fun vG s3 hw3 h3 => ?_)
  refine compStep_chain (full := [tA, tB, tC, tD, tE, tF, tG, tH, tI]) (pre := [tA, tB, tC, tD, tE]) (t := tF) (ts := [tG, tH, tI]) (hfull := rfl) (into := F_into) (h := hF) (s0 := vals r)
    (hw := hw3) (hprev := h3) (hok := fun vF s4 hw4 h4 => ?_)
  refine compStep_chain (full := [tA, tB, tC, tD, tE, tF, tG, tH, tI]) (pre := [tA, tB, tC, tD]) (t := tE) (ts := [tF, tG, tH, tI]) (hfull := rfl) (into := E_into) (h := hE) (s0 := vals r)
    (hw := hw4) (hprev := h4) (hok := fun vE s5 hw5 h5 => ?_)
  refine compStep_chain (full := [tA, tB, tC, tD, tE, tF, tG, tH, tI]) (pre := [tA, tB, tC]) (t := tD) (ts := [tE, tF, tG, tH, tI]) (hfull := rfl) (into := D_into) (h := hD) (s0 := vals r)
    (hw := hw5) (hprev := h5) (hok := fun vD s6 hw6 h6 => ?_)
  refine compStep_chain (full := [tA, tB, tC, tD, tE, tF, tG, tH, tI]) (pre := [tA, tB]) (t := tC) (ts := [tD, tE, tF, tG, tH, tI]) (hfull := rfl) (into := C_into) (h := hC) (s0 := vals r)
    (hw := hw6) (hprev := h6) (hok := fun vC s7 hw7 h7 => ?_)
  refine compStep_chain (full := [tA, tB, tC, tD, tE, tF, tG, tH, tI]) (pre := [tA]) (t := tB) (ts := [tC, tD, tE, tF, tG, tH, tI]) (hfull := rfl) (into := B_into) (h := hB) (s0 := vals r)
    (hw := hw7) (hprev := h7) (hok := fun vB s8 hw8 h8 => ?_)
  refine compStep_chain (full := [tA, tB, tC, tD, tE, tF, tG, tH, tI]) (pre := []) (t := tA) (ts := [tB, tC, tD, tE, tF, tG, tH, tI]) (hfull := rfl) (into := A_into) (h := hA) (s0 := vals r)
    (hw := hw8) (hprev := h8) (hok := fun vA s9 hw9 h9 => ?_)
  exact finishStep_spec _ [tA, tB, tC, tD, tE, tF, tG, tH, tI] (vals r) _ s9 _ rfl h9

theorem tuple9_encode_eq {A B C D E F G H I : Type} (A_sl : Option Nat) (A_enc : A → List Nat) (B_sl : Option Nat) (B_enc : B → List Nat) (C_sl : Option Nat) (C_enc : C → List Nat) (D_sl : Option Nat) (D_enc : D → List Nat) (E_sl : Option Nat) (E_enc : E → List Nat) (F_sl : Option Nat) (F_enc : F → List Nat) (G_sl : Option Nat) (G_enc : G → List Nat) (H_sl : Option Nat) (H_enc : H → List Nat) (I_sl : Option Nat) (I_enc : I → List Nat) (self : (A × B × C × D × E × F × G × H × I)) :
    codec_tuple9_encode A_sl A_enc B_sl B_enc C_sl C_enc D_sl D_enc E_sl E_enc F_sl F_enc G_sl G_enc H_sl H_enc I_sl I_enc self =
      pushComp A_sl (A_enc self.1) (pushComp B_sl (B_enc self.2.1) (pushComp C_sl (C_enc self.2.2.1) (pushComp D_sl (D_enc self.2.2.2.1) (pushComp E_sl (E_enc self.2.2.2.2.1) (pushComp F_sl (F_enc self.2.2.2.2.2.1) (pushComp G_sl (G_enc self.2.2.2.2.2.2.1) (pushComp H_sl (H_enc self.2.2.2.2.2.2.2.1) (pushComp I_sl (I_enc self.2.2.2.2.2.2.2.2) [])))))))) := rfl

/-- **regenerated 9-tuple encoder = `encode (.tuple [..])` of the hand model** (components in reverse declaration order, each
    prefixed by its length iff dynamically sized) whenever the component encoders are the model's -/
theorem tuple9_encode {A B C D E F G H I : Type} (tA : Ty) (tB : Ty) (tC : Ty) (tD : Ty) (tE : Ty) (tF : Ty) (tG : Ty) (tH : Ty) (tI : Ty) (A_enc : A → List Nat) (A_toVal : A → Val) (B_enc : B → List Nat) (B_toVal : B → Val) (C_enc : C → List Nat) (C_toVal : C → Val) (D_enc : D → List Nat) (D_toVal : D → Val) (E_enc : E → List Nat) (E_toVal : E → Val) (F_enc : F → List Nat) (F_toVal : F → Val) (G_enc : G → List Nat) (G_toVal : G → Val) (H_enc : H → List Nat) (H_toVal : H → Val) (I_enc : I → List Nat) (I_toVal : I → Val)
    (heA : ∀ x, vals (A_enc x) = encode tA (A_toVal x)) (heB : ∀ x, vals (B_enc x) = encode tB (B_toVal x)) (heC : ∀ x, vals (C_enc x) = encode tC (C_toVal x)) (heD : ∀ x, vals (D_enc x) = encode tD (D_toVal x)) (heE : ∀ x, vals (E_enc x) = encode tE (E_toVal x)) (heF : ∀ x, vals (F_enc x) = encode tF (F_toVal x)) (heG : ∀ x, vals (G_enc x) = encode tG (G_toVal x)) (heH : ∀ x, vals (H_enc x) = encode tH (H_toVal x)) (heI : ∀ x, vals (I_enc x) = encode tI (I_toVal x))
    (self : (A × B × C × D × E × F × G × H × I)) (hlA : (A_enc self.1).length < TF.BF.Pn) (hlB : (B_enc self.2.1).length < TF.BF.Pn) (hlC : (C_enc self.2.2.1).length < TF.BF.Pn) (hlD : (D_enc self.2.2.2.1).length < TF.BF.Pn) (hlE : (E_enc self.2.2.2.2.1).length < TF.BF.Pn) (hlF : (F_enc self.2.2.2.2.2.1).length < TF.BF.Pn) (hlG : (G_enc self.2.2.2.2.2.2.1).length < TF.BF.Pn) (hlH : (H_enc self.2.2.2.2.2.2.2.1).length < TF.BF.Pn) (hlI : (I_enc self.2.2.2.2.2.2.2.2).length < TF.BF.Pn) :
    vals (codec_tuple9_encode (staticLength tA) A_enc (staticLength tB) B_enc (staticLength tC) C_enc (staticLength tD) D_enc (staticLength tE) E_enc (staticLength tF) F_enc (staticLength tG) G_enc (staticLength tH) H_enc (staticLength tI) I_enc self) =
      encode (.tuple [tA, tB, tC, tD, tE, tF, tG, tH, tI]) (.list [A_toVal self.1, B_toVal self.2.1, C_toVal self.2.2.1, D_toVal self.2.2.2.1, E_toVal self.2.2.2.2.1, F_toVal self.2.2.2.2.2.1, G_toVal self.2.2.2.2.2.2.1, H_toVal self.2.2.2.2.2.2.2.1, I_toVal self.2.2.2.2.2.2.2.2]) := by
  rw [tuple9_encode_eq, encode_tuple]
  simp only [pushComp_vals _ _ _ hlA, pushComp_vals _ _ _ hlB, pushComp_vals _ _ _ hlC, pushComp_vals _ _ _ hlD, pushComp_vals _ _ _ hlE, pushComp_vals _ _ _ hlF, pushComp_vals _ _ _ hlG, pushComp_vals _ _ _ hlH, pushComp_vals _ _ _ hlI, encode_tuple_cons, encodeFields_nil, heA, heB, heC, heD, heE, heF, heG, heH, heI, vals_nil]

/-- regenerated `static_length` of the 9-tuple = `staticLength (.tuple [..])` -/
theorem tuple9_static_length (tA : Ty) (tB : Ty) (tC : Ty) (tD : Ty) (tE : Ty) (tF : Ty) (tG : Ty) (tH : Ty) (tI : Ty) :
    codec_tuple9_static_length (staticLength tA) (staticLength tB) (staticLength tC) (staticLength tD) (staticLength tE) (staticLength tF) (staticLength tG) (staticLength tH) (staticLength tI) = staticLength (.tuple [tA, tB, tC, tD, tE, tF, tG, tH, tI]) := by
  rw [staticLength_tuple]
  simp only [staticLengthSum_cons, staticLengthSum_nil]
  unfold codec_tuple9_static_length
  generalize staticLength tA = oA
  generalize staticLength tB = oB
  generalize staticLength tC = oC
  generalize staticLength tD = oD
  generalize staticLength tE = oE
  generalize staticLength tF = oF
  generalize staticLength tG = oG
  generalize staticLength tH = oH
  generalize staticLength tI = oI
  cases oA with
  | none => rfl
  | some a =>
    cases oB with
    | none => rfl
    | some b =>
      cases oC with
      | none => rfl
      | some c =>
        cases oD with
        | none => rfl
        | some d =>
          cases oE with
          | none => rfl
          | some e =>
            cases oF with
            | none => rfl
            | some f =>
              cases oG with
              | none => rfl
              | some g =>
                cases oH with
                | none => rfl
                | some h =>
                  cases oI with
                  | none => rfl
                  | some i =>
                    simp only [Option.some.injEq]
                    omega

/-- the regenerated `decode` of the 10-tuple is, definitionally, the component step iterated from the last type parameter to the first -/
theorem tuple10_decode_eq {A A_Error B B_Error C C_Error D D_Error E E_Error F F_Error G G_Error H H_Error I I_Error J J_Error : Type} (A_sl : Option Nat) (A_dec : List Nat → Res A_Error A) (A_into : A_Error → DynErr) (B_sl : Option Nat) (B_dec : List Nat → Res B_Error B) (B_into : B_Error → DynErr) (C_sl : Option Nat) (C_dec : List Nat → Res C_Error C) (C_into : C_Error → DynErr) (D_sl : Option Nat) (D_dec : List Nat → Res D_Error D) (D_into : D_Error → DynErr) (E_sl : Option Nat) (E_dec : List Nat → Res E_Error E) (E_into : E_Error → DynErr) (F_sl : Option Nat) (F_dec : List Nat → Res F_Error F) (F_into : F_Error → DynErr) (G_sl : Option Nat) (G_dec : List Nat → Res G_Error G) (G_into : G_Error → DynErr) (H_sl : Option Nat) (H_dec : List Nat → Res H_Error H) (H_into : H_Error → DynErr) (I_sl : Option Nat) (I_dec : List Nat → Res I_Error I) (I_into : I_Error → DynErr) (J_sl : Option Nat) (J_dec : List Nat → Res J_Error J) (J_into : J_Error → DynErr) (sequence : List Nat) :
    codec_tuple10_decode A_sl A_dec A_into B_sl B_dec B_into C_sl C_dec C_into D_sl D_dec D_into E_sl E_dec E_into F_sl F_dec F_into G_sl G_dec G_into H_sl H_dec H_into I_sl I_dec I_into J_sl J_dec J_into sequence =
      compStep J_sl J_dec J_into sequence (fun s J_v => compStep I_sl I_dec I_into s (fun s I_v => compStep H_sl H_dec H_into s (fun s H_v => compStep G_sl G_dec G_into s (fun s G_v => compStep F_sl F_dec F_into s (fun s F_v => compStep E_sl E_dec E_into s (fun s E_v => compStep D_sl D_dec D_into s (fun s D_v => compStep C_sl C_dec C_into s (fun s C_v => compStep B_sl B_dec B_into s (fun s B_v => compStep A_sl A_dec A_into s (fun s A_v => finishStep s (A_v, B_v, C_v, D_v, E_v, F_v, G_v, H_v, I_v, J_v))))))))))) := rfl

/-- **regenerated 10-tuple decoder = `decode (.tuple [..])` of the hand model** whenever the component decoders are the model's -/
theorem tuple10_item {A A_Error B B_Error C C_Error D D_Error E E_Error F F_Error G G_Error H H_Error I I_Error J J_Error : Type} (tA : Ty) (tB : Ty) (tC : Ty) (tD : Ty) (tE : Ty) (tF : Ty) (tG : Ty) (tH : Ty) (tI : Ty) (tJ : Ty) (A_dec : List Nat → Res A_Error A) (A_into : A_Error → DynErr) (A_toVal : A → Val) (B_dec : List Nat → Res B_Error B) (B_into : B_Error → DynErr) (B_toVal : B → Val) (C_dec : List Nat → Res C_Error C) (C_into : C_Error → DynErr) (C_toVal : C → Val) (D_dec : List Nat → Res D_Error D) (D_into : D_Error → DynErr) (D_toVal : D → Val) (E_dec : List Nat → Res E_Error E) (E_into : E_Error → DynErr) (E_toVal : E → Val) (F_dec : List Nat → Res F_Error F) (F_into : F_Error → DynErr) (F_toVal : F → Val) (G_dec : List Nat → Res G_Error G) (G_into : G_Error → DynErr) (G_toVal : G → Val) (H_dec : List Nat → Res H_Error H) (H_into : H_Error → DynErr) (H_toVal : H → Val) (I_dec : List Nat → Res I_Error I) (I_into : I_Error → DynErr) (I_toVal : I → Val) (J_dec : List Nat → Res J_Error J) (J_into : J_Error → DynErr) (J_toVal : J → Val)
    (hA : Item A_dec A_toVal (decode tA)) (hB : Item B_dec B_toVal (decode tB)) (hC : Item C_dec C_toVal (decode tC)) (hD : Item D_dec D_toVal (decode tD)) (hE : Item E_dec E_toVal (decode tE)) (hF : Item F_dec F_toVal (decode tF)) (hG : Item G_dec G_toVal (decode tG)) (hH : Item H_dec H_toVal (decode tH)) (hI : Item I_dec I_toVal (decode tI)) (hJ : Item J_dec J_toVal (decode tJ)) :
    Item (codec_tuple10_decode (staticLength tA) A_dec A_into (staticLength tB) B_dec B_into (staticLength tC) C_dec C_into (staticLength tD) D_dec D_into (staticLength tE) E_dec E_into (staticLength tF) F_dec F_into (staticLength tG) G_dec G_into (staticLength tH) H_dec H_into (staticLength tI) I_dec I_into (staticLength tJ) J_dec J_into)
      (fun p => Val.list [A_toVal p.1, B_toVal p.2.1, C_toVal p.2.2.1, D_toVal p.2.2.2.1, E_toVal p.2.2.2.2.1, F_toVal p.2.2.2.2.2.1, G_toVal p.2.2.2.2.2.2.1, H_toVal p.2.2.2.2.2.2.2.1, I_toVal p.2.2.2.2.2.2.2.2.1, J_toVal p.2.2.2.2.2.2.2.2.2]) (decode (.tuple [tA, tB, tC, tD, tE, tF, tG, tH, tI, tJ])) := by
  intro r hw
  rw [tuple10_decode_eq]
  refine compStep_chain (full := [tA, tB, tC, tD, tE, tF, tG, tH, tI, tJ]) (pre := [tA, tB, tC, tD, tE, tF, tG, tH, tI]) (t := tJ) (ts := []) (hfull := rfl) (into := J_into) (h := hJ) (s0 := vals r)
    (hw := hw) (hprev := (decodeFields_nil _)) (hok := fun vJ s1 hw1 h1 => ?_)
  refine compStep_chain (full := [tA, tB, tC, tD, tE, tF, tG, tH, tI, tJ]) (pre := [tA, tB, tC, tD, tE, tF, tG, tH]) (t := tI) (ts := [tJ]) (hfull := rfl) (into := I_into) (h := hI) (s0 := vals r)
    (hw := hw1) (hprev := h1) (hok := fun vI s2 hw2 h2 => ?_)
  refine compStep_chain (full := [tA, tB, tC, tD, tE, tF, tG, tH, tI, tJ]) (pre := [tA, tB, tC, tD, tE, tF, tG]) (t := tH) (ts := [tI, tJ]) (hfull := rfl) (into := H_into) (h := hH) (s0 := vals r)
    (hw := hw2) (hprev := h2) (hok := fun vH s3 hw3 h3 => ?_)
  refine compStep_chain (full := [tA, tB, tC, tD, tE, tF, tG, tH, tI, tJ]) (pre := [tA, tB, tC, tD, tE, tF]) (t := tG) (ts := [tH, tI, tJ]) (hfull := rfl) (into := G_into) (h := hG) (s0 := vals r)
    (hw := hw3) (hprev := h3) (hok := fun vG s4 hw4 h4 => ?_)
  refine compStep_chain (full := [tA, tB, tC, tD, tE, tF, tG, tH, tI, tJ]) (pre := [tA, tB, tC, tD, tE]) (t := tF) (ts := [tG, tH, tI, tJ]) (hfull := rfl) (into := F_into) (h := hF) (s0 := vals r)
    (hw := hw4) (hprev := h4) (hok := fun vF s5 hw5 h5 => ?_)
  refine compStep_chain (full := [tA, tB, tC, tD, tE, tF, tG, tH, tI, tJ]) (pre := [tA, tB, tC, tD]) (t := tE) (ts := [tF, tG, tH, tI, tJ]) (hfull := rfl) (into := E_into) (h := hE) (s0 := vals r)
    (hw := hw5) (hprev := h5) (hok := fun vE s6 hw6 h6 => ?_)
  refine compStep_chain (full := [tA, tB, tC, tD, tE, tF, tG, tH, tI, tJ]) (pre := [tA, tB, tC]) (t := tD) (ts := [tE, tF, tG, tH, tI, tJ]) (hfull := rfl) (into := D_into) (h := hD) (s0 := vals r)
    (hw := hw6) (hprev := h6) (hok := fun vD s7 hw7 h7 => ?_)
  refine compStep_chain (full := [tA, tB, tC, tD, tE, tF, tG, tH, tI, tJ]) (pre := [tA, tB]) (t := tC) (ts := [tD, tE, tF, tG, tH, tI, tJ]) (hfull := rfl) (into := C_into) (h := hC) (s0 := vals r)
    (hw := hw7) (hprev := h7) (hok := fun vC s8 hw8 h8 => ?_)
  refine compStep_chain (full := [tA, tB, tC, tD, tE, tF, tG, tH, tI, tJ]) (pre := [tA]) (t := tB) (ts := [tC, tD, tE, tF, tG, tH, tI, tJ]) (hfull := rfl) (into := B_into) (h := hB) (s0 := vals r)
    (hw := hw8) (hprev := h8) (hok := fun vB s9 hw9 h9 => ?_)
  refine compStep_chain (full := [tA, tB, tC, tD, tE, tF, tG, tH, tI, tJ]) (pre := []) (t := tA) (ts := [tB, tC, tD, tE, tF, tG, tH, tI, tJ]) (hfull := rfl) (into := A_into) (h := hA) (s0 := vals r)
    (hw := hw9) (hprev := h9) (hok := fun vA s10 hw10 h10 => ?_)
  exact finishStep_spec _ [tA, tB, tC, tD, tE, tF, tG, tH, tI, tJ] (vals r) _ s10 _ rfl h10

theorem tuple10_encode_eq {A B C D E F G H I J : Type} (A_sl : Option Nat) (A_enc : A → List Nat) (B_sl : Option Nat) (B_enc : B → List Nat) (C_sl : Option Nat) (C_enc : C → List Nat) (D_sl : Option Nat) (D_enc : D → List Nat) (E_sl : Option Nat) (E_enc : E → List Nat) (F_sl : Option Nat) (F_enc : F → List Nat) (G_sl : Option Nat) (G_enc : G → List Nat) (H_sl : Option Nat) (H_enc : H → List Nat) (I_sl : Option Nat) (I_enc : I → List Nat) (J_sl : Option Nat) (J_enc : J → List Nat) (self : (A × B × C × D × E × F × G × H × I × J)) :
    codec_tuple10_encode A_sl A_enc B_sl B_enc C_sl C_enc D_sl D_enc E_sl E_enc F_sl F_enc G_sl G_enc H_sl H_enc I_sl I_enc J_sl J_enc self =
      pushComp A_sl (A_enc self.1) (pushComp B_sl (B_enc self.2.1) (pushComp C_sl (C_enc self.2.2.1) (pushComp D_sl (D_enc self.2.2.2.1) (pushComp E_sl (E_enc self.2.2.2.2.1) (pushComp F_sl (F_enc self.2.2.2.2.2.1) (pushComp G_sl (G_enc self.2.2.2.2.2.2.1) (pushComp H_sl (H_enc self.2.2.2.2.2.2.2.1) (pushComp I_sl (I_enc self.2.2.2.2.2.2.2.2.1) (pushComp J_sl (J_enc self.2.2.2.2.2.2.2.2.2) []))))))))) := rfl

/-- **regenerated 10-tuple encoder = `encode (.tuple [..])` of the hand model** (components in reverse declaration order, each
    prefixed by its length iff dynamically sized) whenever the component encoders are the model's -/
theorem tuple10_encode {A B C D E F G H I J : Type} (tA : Ty) (tB : Ty) (tC : Ty) (tD : Ty) (tE : Ty) (tF : Ty) (tG : Ty) (tH : Ty) (tI : Ty) (tJ : Ty) (A_enc : A → List Nat) (A_toVal : A → Val) (B_enc : B → List Nat) (B_toVal : B → Val) (C_enc : C → List Nat) (C_toVal : C → Val) (D_enc : D → List Nat) (D_toVal : D → Val) (E_enc : E → List Nat) (E_toVal : E → Val) (F_enc : F → List Nat) (F_toVal : F → Val) (G_enc : G → List Nat) (G_toVal : G → Val) (H_enc : H → List Nat) (H_toVal : H → Val) (I_enc : I → List Nat) (I_toVal : I → Val) (J_enc : J → List Nat) (J_toVal : J → Val)
    (heA : ∀ x, vals (A_enc x) = encode tA (A_toVal x)) (heB : ∀ x, vals (B_enc x) = encode tB (B_toVal x)) (heC : ∀ x, vals (C_enc x) = encode tC (C_toVal x)) (heD : ∀ x, vals (D_enc x) = encode tD (D_toVal x)) (heE : ∀ x, vals (E_enc x) = encode tE (E_toVal x)) (heF : ∀ x, vals (F_enc x) = encode tF (F_toVal x)) (heG : ∀ x, vals (G_enc x) = encode tG (G_toVal x)) (heH : ∀ x, vals (H_enc x) = encode tH (H_toVal x)) (heI : ∀ x, vals (I_enc x) = encode tI (I_toVal x)) (heJ : ∀ x, vals (J_enc x) = encode tJ (J_toVal x))
    (self : (A × B × C × D × E × F × G × H × I × J)) (hlA : (A_enc self.1).length < TF.BF.Pn) (hlB : (B_enc self.2.1).length < TF.BF.Pn) (hlC : (C_enc self.2.2.1).length < TF.BF.Pn) (hlD : (D_enc self.2.2.2.1).length < TF.BF.Pn) (hlE : (E_enc self.2.2.2.2.1).length < TF.BF.Pn) (hlF : (F_enc self.2.2.2.2.2.1).length < TF.BF.Pn) (hlG : (G_enc self.2.2.2.2.2.2.1).length < TF.BF.Pn) (hlH : (H_enc self.2.2.2.2.2.2.2.1).length < TF.BF.Pn) (hlI : (I_enc self.2.2.2.2.2.2.2.2.1).length < TF.BF.Pn) (hlJ : (J_enc self.2.2.2.2.2.2.2.2.2).length < TF.BF.Pn) :
    vals (codec_tuple10_encode (staticLength tA) A_enc (staticLength tB) B_enc (staticLength tC) C_enc (staticLength tD) D_enc (staticLength tE) E_enc (staticLength tF) F_enc (staticLength tG) G_enc (staticLength tH) H_enc (staticLength tI) I_enc (staticLength tJ) J_enc self) =
      encode (.tuple [tA, tB, tC, tD, tE, tF, tG, tH, tI, tJ]) (.list [A_toVal self.1, B_toVal self.2.1, C_toVal self.2.2.1, D_toVal self.2.2.2.1, E_toVal self.2.2.2.2.1, F_toVal self.2.2.2.2.2.1, G_toVal self.2.2.2.2.2.2.1, H_toVal self.2.2.2.2.2.2.2.1, I_toVal self.2.2.2.2.2.2.2.2.1, J_toVal self.2.2.2.2.2.2.2.2.2]) := by
  rw [tuple10_encode_eq, encode_tuple]
  simp only [pushComp_vals _ _ _ hlA, pushComp_vals _ _ _ hlB, pushComp_vals _ _ _ hlC, pushComp_vals _ _ _ hlD, pushComp_vals _ _ _ hlE, pushComp_vals _ _ _ hlF, pushComp_vals _ _ _ hlG, pushComp_vals _ _ _ hlH, pushComp_vals _ _ _ hlI, pushComp_vals _ _ _ hlJ, encode_tuple_cons, encodeFields_nil, heA, heB, heC, heD, heE, heF, heG, heH, heI, heJ, vals_nil]

/-- regenerated `static_length` of the 10-tuple = `staticLength (.tuple [..])` -/
theorem tuple10_static_length (tA : Ty) (tB : Ty) (tC : Ty) (tD : Ty) (tE : Ty) (tF : Ty) (tG : Ty) (tH : Ty) (tI : Ty) (tJ : Ty) :
    codec_tuple10_static_length (staticLength tA) (staticLength tB) (staticLength tC) (staticLength tD) (staticLength tE) (staticLength tF) (staticLength tG) (staticLength tH) (staticLength tI) (staticLength tJ) = staticLength (.tuple [tA, tB, tC, tD, tE, tF, tG, tH, tI, tJ]) := by
  rw [staticLength_tuple]
  simp only [staticLengthSum_cons, staticLengthSum_nil]
  unfold codec_tuple10_static_length
  generalize staticLength tA = oA
  generalize staticLength tB = oB
  generalize staticLength tC = oC
  generalize staticLength tD = oD
  generalize staticLength tE = oE
  generalize staticLength tF = oF
  generalize staticLength tG = oG
  generalize staticLength tH = oH
  generalize staticLength tI = oI
  generalize staticLength tJ = oJ
  cases oA with
  | none => rfl
  | some a =>
    cases oB with
    | none => rfl
    | some b =>
      cases oC with
      | none => rfl
      | some c =>
        cases oD with
        | none => rfl
        | some d =>
          cases oE with
          | none => rfl
          | some e =>
            cases oF with
            | none => rfl
            | some f =>
              cases oG with
              | none => rfl
              | some g =>
                cases oH with
                | none => rfl
                | some h =>
                  cases oI with
                  | none => rfl
                  | some i =>
                    cases oJ with
                    | none => rfl
                    | some j =>
                      simp only [Option.some.injEq]
                      omega

/-- the regenerated `decode` of the 11-tuple is, definitionally, the component step iterated from the last type parameter to the first -/
theorem tuple11_decode_eq {A A_Error B B_Error C C_Error D D_Error E E_Error F F_Error G G_Error H H_Error I I_Error J J_Error K K_Error : Type} (A_sl : Option Nat) (A_dec : List Nat → Res A_Error A) (A_into : A_Error → DynErr) (B_sl : Option Nat) (B_dec : List Nat → Res B_Error B) (B_into : B_Error → DynErr) (C_sl : Option Nat) (C_dec : List Nat → Res C_Error C) (C_into : C_Error → DynErr) (D_sl : Option Nat) (D_dec : List Nat → Res D_Error D) (D_into : D_Error → DynErr) (E_sl : Option Nat) (E_dec : List Nat → Res E_Error E) (E_into : E_Error → DynErr) (F_sl : Option Nat) (F_dec : List Nat → Res F_Error F) (F_into : F_Error → DynErr) (G_sl : Option Nat) (G_dec : List Nat → Res G_Error G) (G_into : G_Error → DynErr) (H_sl : Option Nat) (H_dec : List Nat → Res H_Error H) (H_into : H_Error → DynErr) (I_sl : Option Nat) (I_dec : List Nat → Res I_Error I) (I_into : I_Error → DynErr) (J_sl : Option Nat) (J_dec : List Nat → Res J_Error J) (J_into : J_Error → DynErr) (K_sl : Option Nat) (K_dec : List Nat → Res K_Error K) (K_into : K_Error → DynErr) (sequence : List Nat) :
    codec_tuple11_decode A_sl A_dec A_into B_sl B_dec B_into C_sl C_dec C_into D_sl D_dec D_into E_sl E_dec E_into F_sl F_dec F_into G_sl G_dec G_into H_sl H_dec H_into I_sl I_dec I_into J_sl J_dec J_into K_sl K_dec K_into sequence =
      compStep K_sl K_dec K_into sequence (fun s K_v => compStep J_sl J_dec J_into s (fun s J_v => compStep I_sl I_dec I_into s (fun s I_v => compStep H_sl H_dec H_into s (fun s H_v => compStep G_sl G_dec G_into s (fun s G_v => compStep F_sl F_dec F_into s (fun s F_v => compStep E_sl E_dec E_into s (fun s E_v => compStep D_sl D_dec D_into s (fun s D_v => compStep C_sl C_dec C_into s (fun s C_v => compStep B_sl B_dec B_into s (fun s B_v => compStep A_sl A_dec A_into s (fun s A_v => finishStep s (A_v, B_v, C_v, D_v, E_v, F_v, G_v, H_v, I_v, J_v, K_v)))))))))))) := rfl

/-- **regenerated 11-tuple decoder = `decode (.tuple [..])` of the hand model** whenever the component decoders are the model's -/
theorem tuple11_item {A A_Error B B_Error C C_Error D D_Error E E_Error F F_Error G G_Error H H_Error I I_Error J J_Error K K_Error : Type} (tA : Ty) (tB : Ty) (tC : Ty) (tD : Ty) (tE : Ty) (tF : Ty) (tG : Ty) (tH : Ty) (tI : Ty) (tJ : Ty) (tK : Ty) (A_dec : List Nat → Res A_Error A) (A_into : A_Error → DynErr) (A_toVal : A → Val) (B_dec : List Nat → Res B_Error B) (B_into : B_Error → DynErr) (B_toVal : B → Val) (C_dec : List Nat → Res C_Error C) (C_into : C_Error → DynErr) (C_toVal : C → Val) (D_dec : List Nat → Res D_Error D) (D_into : D_Error → DynErr) (D_toVal : D → Val) (E_dec : List Nat → Res E_Error E) (E_into : E_Error → DynErr) (E_toVal : E → Val) (F_dec : List Nat → Res F_Error F) (F_into : F_Error → DynErr) (F_toVal : F → Val) (G_dec : List Nat → Res G_Error G) (G_into : G_Error → DynErr) (G_toVal : G → Val) (H_dec : List Nat → Res H_Error H) (H_into : H_Error → DynErr) (H_toVal : H → Val) (I_dec : List Nat → Res I_Error I) (I_into : I_Error → DynErr) (I_toVal : I → Val) (J_dec : List Nat → Res J_Error J) (J_into : J_Error → DynErr) (J_toVal : J → Val) (K_dec : List Nat → Res K_Error K) (K_into : K_Error → DynErr) (K_toVal : K → Val)
    (hA : Item A_dec A_toVal (decode tA)) (hB : Item B_dec B_toVal (decode tB)) (hC : Item C_dec C_toVal (decode tC)) (hD : Item D_dec D_toVal (decode tD)) (hE : Item E_dec E_toVal (decode tE)) (hF : Item F_dec F_toVal (decode tF)) (hG : Item G_dec G_toVal (decode tG)) (hH : Item H_dec H_toVal (decode tH)) (hI : Item I_dec I_toVal (decode tI)) (hJ : Item J_dec J_toVal (decode tJ)) (hK : Item K_dec K_toVal (decode tK)) :
    Item (codec_tuple11_decode (staticLength tA) A_dec A_into (staticLength tB) B_dec B_into (staticLength tC) C_dec C_into (staticLength tD) D_dec D_into (staticLength tE) E_dec E_into (staticLength tF) F_dec F_into (staticLength tG) G_dec G_into (staticLength tH) H_dec H_into (staticLength tI) I_dec I_into (staticLength tJ) J_dec J_into (staticLength tK) K_dec K_into)
      (fun p => Val.list [A_toVal p.1, B_toVal p.2.1, C_toVal p.2.2.1, D_toVal p.2.2.2.1, E_toVal p.2.2.2.2.1, F_toVal p.2.2.2.2.2.1, G_toVal p.2.2.2.2.2.2.1, H_toVal p.2.2.2.2.2.2.2.1, I_toVal p.2.2.2.2.2.2.2.2.1, J_toVal p.2.2.2.2.2.2.2.2.2.1, K_toVal p.2.2.2.2.2.2.2.2.2.2]) (decode (.tuple [tA, tB, tC, tD, tE, tF, tG, tH, tI, tJ, tK])) := by
  intro r hw
  rw [tuple11_decode_eq]
  refine compStep_chain (full := [tA, tB, tC, tD, tE, tF, tG, tH, tI, tJ, tK]) (pre := [tA, tB, tC, tD, tE, tF, tG, tH, tI, tJ]) (t := tK) (ts := []) (hfull := rfl) (into := K_into) (h := hK) (s0 := vals r)
    (hw := hw) (hprev := (decodeFields_nil _)) (hok := fun vK s1 hw1 h1 => ?_)
  refine compStep_chain (full := [tA, tB, tC, tD, tE, tF, tG, tH, tI, tJ, tK]) (pre := [tA, tB, tC, tD, tE, tF, tG, tH, tI]) (t := tJ) (ts := [tK]) (hfull := rfl) (into := J_into) (h := hJ) (s0 := vals r)
    (hw := hw1) (hprev := h1) (hok := fun vJ s2 hw2 h2 => ?_)
  refine compStep_chain (full := [tA, tB, tC, tD, tE, tF, tG, tH, tI, tJ, tK]) (pre := [tA, tB, tC, tD, tE, tF, tG, tH]) (t := tI) (ts := [tJ, tK]) (hfull := rfl) (into := I_into) (h := hI) (s0 := vals r)
    (hw := hw2) (hprev := h2) (hok := fun vI s3 hw3 h3 => ?_)
  refine compStep_chain (full := [tA, tB, tC, tD, tE, tF, tG, tH, tI, tJ, tK]) (pre := [tA, tB, tC, tD, tE, tF, tG]) (t := tH) (ts := [tI, tJ, tK]) (hfull := rfl) (into := H_into) (h := hH) (s0 := vals r)
    (hw := hw3) (hprev := h3) (hok := fun vH s4 hw4 h4 => ?_)
  refine compStep_chain (full := [tA, tB, tC, tD, tE, tF, tG, tH, tI, tJ, tK]) (pre := [tA, tB, tC, tD, tE, tF]) (t := tG) (ts := [tH, tI, tJ, tK]) (hfull := rfl) (into := G_into) (h := hG) (s0 := vals r)
    (hw := hw4) (hprev := h4) (hok := fun vG s5 hw5 h5 => ?_)
  refine compStep_chain (full := [tA, tB, tC, tD, tE, tF, tG, tH, tI, tJ, tK]) (pre := [tA, tB, tC, tD, tE]) (t := tF) (ts := [tG, tH, tI, tJ, tK]) (hfull := rfl) (into := F_into) (h := hF) (s0 := vals r)
    (hw := hw5) (hprev := h5) (hok := fun vF s6 hw6 h6 => ?_)
  refine compStep_chain (full := [tA, tB, tC, tD, tE, tF, tG, tH, tI, tJ, tK]) (pre := [tA, tB, tC, tD]) (t := tE) (ts := [tF, tG, tH, tI, tJ, tK]) (hfull := rfl) (into := E_into) (h := hE) (s0 := vals r)
    (hw := hw6) (hprev := h6) (hok := fun vE s7 hw7 h7 => ?_)
  refine compStep_chain (full := [tA, tB, tC, tD, tE, tF, tG, tH, tI, tJ, tK]) (pre := [tA, tB, tC]) (t := tD) (ts := [tE, tF, tG, tH, tI, tJ, tK]) (hfull := rfl) (into := D_into) (h := hD) (s0 := vals r)
    (hw := hw7) (hprev := h7) (hok := fun vD s8 hw8 h8 => ?_)
  refine compStep_chain (full := [tA, tB, tC, tD, tE, tF, tG, tH, tI, tJ, tK]) (pre := [tA, tB]) (t := tC) (ts := [tD, tE, tF, tG, tH, tI, tJ, tK]) (hfull := rfl) (into := C_into) (h := hC) (s0 := vals r)
    (hw := hw8) (hprev := h8) (hok := fun vC s9 hw9 h9 => ?_)
  refine compStep_chain (full := [tA, tB, tC, tD, tE, tF, tG, tH, tI, tJ, tK]) (pre := [tA]) (t := tB) (ts := [tC, tD, tE, tF, tG, tH, tI, tJ, tK]) (hfull := rfl) (into := B_into) (h := hB) (s0 := vals r)
    (hw := hw9) (hprev := h9) (hok := fun vB s10 hw10 h10 => ?_)
  refine compStep_chain (full := [tA, tB, tC, tD, tE, tF, tG, tH, tI, tJ, tK]) (pre := []) (t := tA) (ts := [tB, tC, tD, tE, tF, tG, tH, tI, tJ, tK]) (hfull := rfl) (into := A_into) (h := hA) (s0 := vals r)
    (hw := hw10) (hprev := h10) (hok := fun vA s11 hw11 h11 => ?_)
  exact finishStep_spec _ [tA, tB, tC, tD, tE, tF, tG, tH, tI, tJ, tK] (vals r) _ s11 _ rfl h11

theorem tuple11_encode_eq {A B C D E F G H I J K : Type} (A_sl : Option Nat) (A_enc : A → List Nat) (B_sl : Option Nat) (B_enc : B → List Nat) (C_sl : Option Nat) (C_enc : C → List Nat) (D_sl : Option Nat) (D_enc : D → List Nat) (E_sl : Option Nat) (E_enc : E → List Nat) (F_sl : Option Nat) (F_enc : F → List Nat) (G_sl : Option Nat) (G_enc : G → List Nat) (H_sl : Option Nat) (H_enc : H → List Nat) (I_sl : Option Nat) (I_enc : I → List Nat) (J_sl : Option Nat) (J_enc : J → List Nat) (K_sl : Option Nat) (K_enc : K → List Nat) (self : (A × B × C × D × E × F × G × H × I × J × K)) :
    codec_tuple11_encode A_sl A_enc B_sl B_enc C_sl C_enc D_sl D_enc E_sl E_enc F_sl F_enc G_sl G_enc H_sl H_enc I_sl I_enc J_sl J_enc K_sl K_enc self =
      pushComp A_sl (A_enc self.1) (pushComp B_sl (B_enc self.2.1) (pushComp C_sl (C_enc self.2.2.1) (pushComp D_sl (D_enc self.2.2.2.1) (pushComp E_sl (E_enc self.2.2.2.2.1) (pushComp F_sl (F_enc self.2.2.2.2.2.1) (pushComp G_sl (G_enc self.2.2.2.2.2.2.1) (pushComp H_sl (H_enc self.2.2.2.2.2.2.2.1) (pushComp I_sl (I_enc self.2.2.2.2.2.2.2.2.1) (pushComp J_sl (J_enc self.2.2.2.2.2.2.2.2.2.1) (pushComp K_sl (K_enc self.2.2.2.2.2.2.2.2.2.2) [])))))))))) := rfl

/-- **regenerated 11-tuple encoder = `encode (.tuple [..])` of the hand model** (components in reverse declaration order, each
    prefixed by its length iff dynamically sized) whenever the component encoders are the model's -/
theorem tuple11_encode {A B C D E F G H I J K : Type} (tA : Ty) (tB : Ty) (tC : Ty) (tD : Ty) (tE : Ty) (tF : Ty) (tG : Ty) (tH : Ty) (tI : Ty) (tJ : Ty) (tK : Ty) (A_enc : A → List Nat) (A_toVal : A → Val) (B_enc : B → List Nat) (B_toVal : B → Val) (C_enc : C → List Nat) (C_toVal : C → Val) (D_enc : D → List Nat) (D_toVal : D → Val) (E_enc : E → List Nat) (E_toVal : E → Val) (F_enc : F → List Nat) (F_toVal : F → Val) (G_enc : G → List Nat) (G_toVal : G → Val) (H_enc : H → List Nat) (H_toVal : H → Val) (I_enc : I → List Nat) (I_toVal : I → Val) (J_enc : J → List Nat) (J_toVal : J → Val) (K_enc : K → List Nat) (K_toVal : K → Val)
    (heA : ∀ x, vals (A_enc x) = encode tA (A_toVal x)) (heB : ∀ x, vals (B_enc x) = encode tB (B_toVal x)) (heC : ∀ x, vals (C_enc x) = encode tC (C_toVal x)) (heD : ∀ x, vals (D_enc x) = encode tD (D_toVal x)) (heE : ∀ x, vals (E_enc x) = encode tE (E_toVal x)) (heF : ∀ x, vals (F_enc x) = encode tF (F_toVal x)) (heG : ∀ x, vals (G_enc x) = encode tG (G_toVal x)) (heH : ∀ x, vals (H_enc x) = encode tH (H_toVal x)) (heI : ∀ x, vals (I_enc x) = encode tI (I_toVal x)) (heJ : ∀ x, vals (J_enc x) = encode tJ (J_toVal x)) (heK : ∀ x, vals (K_enc x) = encode tK (K_toVal x))
    (self : (A × B × C × D × E × F × G × H × I × J × K)) (hlA : (A_enc self.1).length < TF.BF.Pn) (hlB : (B_enc self.2.1).length < TF.BF.Pn) (hlC : (C_enc self.2.2.1).length < TF.BF.Pn) (hlD : (D_enc self.2.2.2.1).length < TF.BF.Pn) (hlE : (E_enc self.2.2.2.2.1).length < TF.BF.Pn) (hlF : (F_enc self.2.2.2.2.2.1).length < TF.BF.Pn) (hlG : (G_enc self.2.2.2.2.2.2.1).length < TF.BF.Pn) (hlH : (H_enc self.2.2.2.2.2.2.2.1).length < TF.BF.Pn) (hlI : (I_enc self.2.2.2.2.2.2.2.2.1).length < TF.BF.Pn) (hlJ : (J_enc self.2.2.2.2.2.2.2.2.2.1).length < TF.BF.Pn) (hlK : (K_enc self.2.2.2.2.2.2.2.2.2.2).length < TF.BF.Pn) :
    vals (codec_tuple11_encode (staticLength tA) A_enc (staticLength tB) B_enc (staticLength tC) C_enc (staticLength tD) D_enc (staticLength tE) E_enc (staticLength tF) F_enc (staticLength tG) G_enc (staticLength tH) H_enc (staticLength tI) I_enc (staticLength tJ) J_enc (staticLength tK) K_enc self) =
      encode (.tuple [tA, tB, tC, tD, tE, tF, tG, tH, tI, tJ, tK]) (.list [A_toVal self.1, B_toVal self.2.1, C_toVal self.2.2.1, D_toVal self.2.2.2.1, E_toVal self.2.2.2.2.1, F_toVal self.2.2.2.2.2.1, G_toVal self.2.2.2.2.2.2.1, H_toVal self.2.2.2.2.2.2.2.1, I_toVal self.2.2.2.2.2.2.2.2.1, J_toVal self.2.2.2.2.2.2.2.2.2.1, K_toVal self.2.2.2.2.2.2.2.2.2.2]) := by
  rw [tuple11_encode_eq, encode_tuple]
  simp only [pushComp_vals _ _ _ hlA, pushComp_vals _ _ _ hlB, pushComp_vals _ _ _ hlC, pushComp_vals _ _ _ hlD, pushComp_vals _ _ _ hlE, pushComp_vals _ _ _ hlF, pushComp_vals _ _ _ hlG, pushComp_vals _ _ _ hlH, pushComp_vals _ _ _ hlI, pushComp_vals _ _ _ hlJ, pushComp_vals _ _ _ hlK, encode_tuple_cons, encodeFields_nil, heA, heB, heC, heD, heE, heF, heG, heH, heI, heJ, heK, vals_nil]

/-- regenerated `static_length` of the 11-tuple = `staticLength (.tuple [..])` -/
theorem tuple11_static_length (tA : Ty) (tB : Ty) (tC : Ty) (tD : Ty) (tE : Ty) (tF : Ty) (tG : Ty) (tH : Ty) (tI : Ty) (tJ : Ty) (tK : Ty) :
    codec_tuple11_static_length (staticLength tA) (staticLength tB) (staticLength tC) (staticLength tD) (staticLength tE) (staticLength tF) (staticLength tG) (staticLength tH) (staticLength tI) (staticLength tJ) (staticLength tK) = staticLength (.tuple [tA, tB, tC, tD, tE, tF, tG, tH, tI, tJ, tK]) := by
  rw [staticLength_tuple]
  simp only [staticLengthSum_cons, staticLengthSum_nil]
  unfold codec_tuple11_static_length
  generalize staticLength tA = oA
  generalize staticLength tB = oB
  generalize staticLength tC = oC
  generalize staticLength tD = oD
  generalize staticLength tE = oE
  generalize staticLength tF = oF
  generalize staticLength tG = oG
  generalize staticLength tH = oH
  generalize staticLength tI = oI
  generalize staticLength tJ = oJ
  generalize staticLength tK = oK
  cases oA with
  | none => rfl
  | some a =>
    cases oB with
    | none => rfl
    | some b =>
      cases oC with
      | none => rfl
      | some c =>
        cases oD with
        | none => rfl
        | some d =>
          cases oE with
          | none => rfl
          | some e =>
            cases oF with
            | none => rfl
            | some f =>
              cases oG with
              | none => rfl
              | some g =>
                cases oH with
                | none => rfl
                | some h =>
                  cases oI with
                  | none => rfl
                  | some i =>
                    cases oJ with
                    | none => rfl
                    | some j =>
                      cases oK with
                      | none => rfl
                      | some k =>
                        simp only [Option.some.injEq]
                        omega

/-- the regenerated `decode` of the 12-tuple is, definitionally, the component step iterated from the last type parameter to the first -/
theorem tuple12_decode_eq {A A_Error B B_Error C C_Error D D_Error E E_Error F F_Error G G_Error H H_Error I I_Error J J_Error K K_Error L L_Error : Type} (A_sl : Option Nat) (A_dec : List Nat → Res A_Error A) (A_into : A_Error → DynErr) (B_sl : Option Nat) (B_dec : List Nat → Res B_Error B) (B_into : B_Error → DynErr) (C_sl : Option Nat) (C_dec : List Nat → Res C_Error C) (C_into : C_Error → DynErr) (D_sl : Option Nat) (D_dec : List Nat → Res D_Error D) (D_into : D_Error → DynErr) (E_sl : Option Nat) (E_dec : List Nat → Res E_Error E) (E_into : E_Error → DynErr) (F_sl : Option Nat) (F_dec : List Nat → Res F_Error F) (F_into : F_Error → DynErr) (G_sl : Option Nat) (G_dec : List Nat → Res G_Error G) (G_into : G_Error → DynErr) (H_sl : Option Nat) (H_dec : List Nat → Res H_Error H) (H_into : H_Error → DynErr) (I_sl : Option Nat) (I_dec : List Nat → Res I_Error I) (I_into : I_Error → DynErr) (J_sl : Option Nat) (J_dec : List Nat → Res J_Error J) (J_into : J_Error → DynErr) (K_sl : Option Nat) (K_dec : List Nat → Res K_Error K) (K_into : K_Error → DynErr) (L_sl : Option Nat) (L_dec : List Nat → Res L_Error L) (L_into : L_Error → DynErr) (sequence : List Nat) :
    codec_tuple12_decode A_sl A_dec A_into B_sl B_dec B_into C_sl C_dec C_into D_sl D_dec D_into E_sl E_dec E_into F_sl F_dec F_into G_sl G_dec G_into H_sl H_dec H_into I_sl I_dec I_into J_sl J_dec J_into K_sl K_dec K_into L_sl L_dec L_into sequence =
      compStep L_sl L_dec L_into sequence (fun s L_v => compStep K_sl K_dec K_into s (fun s K_v => compStep J_sl J_dec J_into s (fun s J_v => compStep I_sl I_dec I_into s (fun s I_v => compStep H_sl H_dec H_into s (fun s H_v => compStep G_sl G_dec G_into s (fun s G_v => compStep F_sl F_dec F_into s (fun s F_v => compStep E_sl E_dec E_into s (fun s E_v => compStep D_sl D_dec D_into s (fun s D_v => compStep C_sl C_dec C_into s (fun s C_v => compStep B_sl B_dec B_into s (fun s B_v => compStep A_sl A_dec A_into s (fun s A_v => finishStep s (A_v, B_v, C_v, D_v, E_v, F_v, G_v, H_v, I_v, J_v, K_v, L_v))))))))))))) := rfl

/-- **regenerated 12-tuple decoder = `decode (.tuple [..])` of the hand model** whenever the component decoders are the model's -/
theorem tuple12_item {A A_Error B B_Error C C_Error D D_Error E E_Error F F_Error G G_Error H H_Error I I_Error J J_Error K K_Error L L_Error : Type} (tA : Ty) (tB : Ty) (tC : Ty) (tD : Ty) (tE : Ty) (tF : Ty) (tG : Ty) (tH : Ty) (tI : Ty) (tJ : Ty) (tK : Ty) (tL : Ty) (A_dec : List Nat → Res A_Error A) (A_into : A_Error → DynErr) (A_toVal : A → Val) (B_dec : List Nat → Res B_Error B) (B_into : B_Error → DynErr) (B_toVal : B → Val) (C_dec : List Nat → Res C_Error C) (C_into : C_Error → DynErr) (C_toVal : C → Val) (D_dec : List Nat → Res D_Error D) (D_into : D_Error → DynErr) (D_toVal : D → Val) (E_dec : List Nat → Res E_Error E) (E_into : E_Error → DynErr) (E_toVal : E → Val) (F_dec : List Nat → Res F_Error F) (F_into : F_Error → DynErr) (F_toVal : F → Val) (G_dec : List Nat → Res G_Error G) (G_into : G_Error → DynErr) (G_toVal : G → Val) (H_dec : List Nat → Res H_Error H) (H_into : H_Error → DynErr) (H_toVal : H → Val) (I_dec : List Nat → Res I_Error I) (I_into : I_Error → DynErr) (I_toVal : I → Val) (J_dec : List Nat → Res J_Error J) (J_into : J_Error → DynErr) (J_toVal : J → Val) (K_dec : List Nat → Res K_Error K) (K_into : K_Error → DynErr) (K_toVal : K → Val) (L_dec : List Nat → Res L_Error L) (L_into : L_Error → DynErr) (L_toVal : L → Val)
    (hA : Item A_dec A_toVal (decode tA)) (hB : Item B_dec B_toVal (decode tB)) (hC : Item C_dec C_toVal (decode tC)) (hD : Item D_dec D_toVal (decode tD)) (hE : Item E_dec E_toVal (decode tE)) (hF : Item F_dec F_toVal (decode tF)) (hG : Item G_dec G_toVal (decode tG)) (hH : Item H_dec H_toVal (decode tH)) (hI : Item I_dec I_toVal (decode tI)) (hJ : Item J_dec J_toVal (decode tJ)) (hK : Item K_dec K_toVal (decode tK)) (hL : Item L_dec L_toVal (decode tL)) :
    Item (codec_tuple12_decode (staticLength tA) A_dec A_into (staticLength tB) B_dec B_into (staticLength tC) C_dec C_into (staticLength tD) D_dec D_into (staticLength tE) E_dec E_into (staticLength tF) F_dec F_into (staticLength tG) G_dec G_into (staticLength tH) H_dec H_into (staticLength tI) I_dec I_into (staticLength tJ) J_dec J_into (staticLength tK) K_dec K_into (staticLength tL) L_dec L_into)
      (fun p => Val.list [A_toVal p.1, B_toVal p.2.1, C_toVal p.2.2.1, D_toVal p.2.2.2.1, E_toVal p.2.2.2.2.1, F_toVal p.2.2.2.2.2.1, G_toVal p.2.2.2.2.2.2.1, H_toVal p.2.2.2.2.2.2.2.1, I_toVal p.2.2.2.2.2.2.2.2.1, J_toVal p.2.2.2.2.2.2.2.2.2.1, K_toVal p.2.2.2.2.2.2.2.2.2.2.1, L_toVal p.2.2.2.2.2.2.2.2.2.2.2]) (decode (.tuple [tA, tB, tC, tD, tE, tF, tG, tH, tI, tJ, tK, tL])) := by
  intro r hw
  rw [tuple12_decode_eq]
  refine compStep_chain (full := [tA, tB, tC, tD, tE, tF, tG, tH, tI, tJ, tK, tL]) (pre := [tA, tB, tC, tD, tE, tF, tG, tH, tI, tJ, tK]) (t := tL) (ts := []) (hfull := rfl) (into := L_into) (h := hL) (s0 := vals r)
    (hw := hw) (hprev := (decodeFields_nil _)) (hok := fun vL s1 hw1 h1 => ?_)
  refine compStep_chain (full := [tA, tB, tC, tD, tE, tF, tG, tH, tI, tJ, tK, tL]) (pre := [tA, tB, tC, tD, tE, tF, tG, tH, tI, tJ]) (t := tK) (ts := [tL]) (hfull := rfl) (into := K_into) (h := hK) (s0 := vals r)
    (hw := hw1) (hprev := h1) (hok := fun vK s2 hw2 h2 => ?_)
  refine compStep_chain (full := [tA, tB, tC, tD, tE, tF, tG, tH, tI, tJ, tK, tL]) (pre := [tA, tB, tC, tD, tE, tF, tG, tH, tI]) (t := tJ) (ts := [tK, tL]) (hfull := rfl) (into := J_into) (h := hJ) (s0 := vals r)
    (hw := hw2) (hprev := h2) (hok := fun vJ s3 hw3 h3 => ?_)
  refine compStep_chain (full := [tA, tB, tC, tD, tE, tF, tG, tH, tI, tJ, tK, tL]) (pre := [tA, tB, tC, tD, tE, tF, tG, tH]) (t := tI) (ts := [tJ, tK, tL]) (hfull := rfl) (into := I_into) (h := hI) (s0 := vals r)
    (hw := hw3) (hprev := h3) (hok := fun vI s4 hw4 h4 => ?_)
  refine compStep_chain (full := [tA, tB, tC, tD, tE, tF, tG, tH, tI, tJ, tK, tL]) (pre := [tA, tB, tC, tD, tE, tF, tG]) (t := tH) (ts := [tI, tJ, tK, tL]) (hfull := rfl) (into := H_into) (h := hH) (s0 := vals r)
    (hw := hw4) (hprev := h4) (hok := fun vH s5 hw5 h5 => ?_)
  refine compStep_chain (full := [tA, tB, tC, tD, tE, tF, tG, tH, tI, tJ, tK, tL]) (pre := [tA, tB, tC, tD, tE, tF]) (t := tG) (ts := [tH, tI, tJ, tK, tL]) (hfull := rfl) (into := G_into) (h := hG) (s0 := vals r)
    (hw := hw5) (hprev := h5) (hok := fun vG s6 hw6 h6 => ?_)
  refine compStep_chain (full := [tA, tB, tC, tD, tE, tF, tG, tH, tI, tJ, tK, tL]) (pre := [tA, tB, tC, tD, tE]) (t := tF) (ts := [tG, tH, tI, tJ, tK, tL]) (hfull := rfl) (into := F_into) (h := hF) (s0 := vals r)
    (hw := hw6) (hprev := h6) (hok := fun vF s7 hw7 h7 => ?_)
  refine compStep_chain (full := [tA, tB, tC, tD, tE, tF, tG, tH, tI, tJ, tK, tL]) (pre := [tA, tB, tC, tD]) (t := tE) (ts := [tF, tG, tH, tI, tJ, tK, tL]) (hfull := rfl) (into := E_into) (h := hE) (s0 := vals r)
    (hw := hw7) (hprev := h7) (hok := fun vE s8 hw8 h8 => ?_)
  refine compStep_chain (full := [tA, tB, tC, tD, tE, tF, tG, tH, tI, tJ, tK, tL]) (pre := [tA, tB, tC]) (t := tD) (ts := [tE, tF, tG, tH, tI, tJ, tK, tL]) (hfull := rfl) (into := D_into) (h := hD) (s0 := vals r)
    (hw := hw8) (hprev := h8) (hok := fun vD s9 hw9 h9 => ?_)
  refine compStep_chain (full := [tA, tB, tC, tD, tE, tF, tG, tH, tI, tJ, tK, tL]) (pre := [tA, tB]) (t := tC) (ts := [tD, tE, tF, tG, tH, tI, tJ, tK, tL]) (hfull := rfl) (into := C_into) (h := hC) (s0 := vals r)
    (hw := hw9) (hprev := h9) (hok := fun vC s10 hw10 h10 => ?_)
  refine compStep_chain (full := [tA, tB, tC, tD, tE, tF, tG, tH, tI, tJ, tK, tL]) (pre := [tA]) (t := tB) (ts := [tC, tD, tE, tF, tG, tH, tI, tJ, tK, tL]) (hfull := rfl) (into := B_into) (h := hB) (s0 := vals r)
    (hw := hw10) (hprev := h10) (hok := fun vB s11 hw11 h11 => ?_)
  refine compStep_chain (full := [tA, tB, tC, tD, tE, tF, tG, tH, tI, tJ, tK, tL]) (pre := []) (t := tA) (ts := [tB, tC, tD, tE, tF, tG, tH, tI, tJ, tK, tL]) (hfull := rfl) (into := A_into) (h := hA) (s0 := vals r)
    (hw := hw11) (hprev := h11) (hok := fun vA s12 hw12 h12 => ?_)
  exact finishStep_spec _ [tA, tB, tC, tD, tE, tF, tG, tH, tI, tJ, tK, tL] (vals r) _ s12 _ rfl h12

theorem tuple12_encode_eq {A B C D E F G H I J K L : Type} (A_sl : Option Nat) (A_enc : A → List Nat) (B_sl : Option Nat) (B_enc : B → List Nat) (C_sl : Option Nat) (C_enc : C → List Nat) (D_sl : Option Nat) (D_enc : D → List Nat) (E_sl : Option Nat) (E_enc : E → List Nat) (F_sl : Option Nat) (F_enc : F → List Nat) (G_sl : Option Nat) (G_enc : G → List Nat) (H_sl : Option Nat) (H_enc : H → List Nat) (I_sl : Option Nat) (I_enc : I → List Nat) (J_sl : Option Nat) (J_enc : J → List Nat) (K_sl : Option Nat) (K_enc : K → List Nat) (L_sl : Option Nat) (L_enc : L → List Nat) (self : (A × B × C × D × E × F × G × H × I × J × K × L)) :
    codec_tuple12_encode A_sl A_enc B_sl B_enc C_sl C_enc D_sl D_enc E_sl E_enc F_sl F_enc G_sl G_enc H_sl H_enc I_sl I_enc J_sl J_enc K_sl K_enc L_sl L_enc self =
      pushComp A_sl (A_enc self.1) (pushComp B_sl (B_enc self.2.1) (pushComp C_sl (C_enc self.2.2.1) (pushComp D_sl (D_enc self.2.2.2.1) (pushComp E_sl (E_enc self.2.2.2.2.1) (pushComp F_sl (F_enc self.2.2.2.2.2.1) (pushComp G_sl (G_enc self.2.2.2.2.2.2.1) (pushComp H_sl (H_enc self.2.2.2.2.2.2.2.1) (pushComp I_sl (I_enc self.2.2.2.2.2.2.2.2.1) (pushComp J_sl (J_enc self.2.2.2.2.2.2.2.2.2.1) (pushComp K_sl (K_enc self.2.2.2.2.2.2.2.2.2.2.1) (pushComp L_sl (L_enc self.2.2.2.2.2.2.2.2.2.2.2) []))))))))))) := rfl

/-- **regenerated 12-tuple encoder = `encode (.tuple [..])` of the hand model** (components in reverse declaration order, each
    prefixed by its length iff dynamically sized) whenever the component encoders are the model's -/
theorem tuple12_encode {A B C D E F G H I J K L : Type} (tA : Ty) (tB : Ty) (tC : Ty) (tD : Ty) (tE : Ty) (tF : Ty) (tG : Ty) (tH : Ty) (tI : Ty) (tJ : Ty) (tK : Ty) (tL : Ty) (A_enc : A → List Nat) (A_toVal : A → Val) (B_enc : B → List Nat) (B_toVal : B → Val) (C_enc : C → List Nat) (C_toVal : C → Val) (D_enc : D → List Nat) (D_toVal : D → Val) (E_enc : E → List Nat) (E_toVal : E → Val) (F_enc : F → List Nat) (F_toVal : F → Val) (G_enc : G → List Nat) (G_toVal : G → Val) (H_enc : H → List Nat) (H_toVal : H → Val) (I_enc : I → List Nat) (I_toVal : I → Val) (J_enc : J → List Nat) (J_toVal : J → Val) (K_enc : K → List Nat) (K_toVal : K → Val) (L_enc : L → List Nat) (L_toVal : L → Val)
    (heA : ∀ x, vals (A_enc x) = encode tA (A_toVal x)) (heB : ∀ x, vals (B_enc x) = encode tB (B_toVal x)) (heC : ∀ x, vals (C_enc x) = encode tC (C_toVal x)) (heD : ∀ x, vals (D_enc x) = encode tD (D_toVal x)) (heE : ∀ x, vals (E_enc x) = encode tE (E_toVal x)) (heF : ∀ x, vals (F_enc x) = encode tF (F_toVal x)) (heG : ∀ x, vals (G_enc x) = encode tG (G_toVal x)) (heH : ∀ x, vals (H_enc x) = encode tH (H_toVal x)) (heI : ∀ x, vals (I_enc x) = encode tI (I_toVal x)) (heJ : ∀ x, vals (J_enc x) = encode tJ (J_toVal x)) (heK : ∀ x, vals (K_enc x) = encode tK (K_toVal x)) (heL : ∀ x, vals (L_enc x) = encode tL (L_toVal x))
    (self : (A × B × C × D × E × F × G × H × I × J × K × L)) (hlA : (A_enc self.1).length < TF.BF.Pn) (hlB : (B_enc self.2.1).length < TF.BF.Pn) (hlC : (C_enc self.2.2.1).length < TF.BF.Pn) (hlD : (D_enc self.2.2.2.1).length < TF.BF.Pn) (hlE : (E_enc self.2.2.2.2.1).length < TF.BF.Pn) (hlF : (F_enc self.2.2.2.2.2.1).length < TF.BF.Pn) (hlG : (G_enc self.2.2.2.2.2.2.1).length < TF.BF.Pn) (hlH : (H_enc self.2.2.2.2.2.2.2.1).length < TF.BF.Pn) (hlI : (I_enc self.2.2.2.2.2.2.2.2.1).length < TF.BF.Pn) (hlJ : (J_enc self.2.2.2.2.2.2.2.2.2.1).length < TF.BF.Pn) (hlK : (K_enc self.2.2.2.2.2.2.2.2.2.2.1).length < TF.BF.Pn) (hlL : (L_enc self.2.2.2.2.2.2.2.2.2.2.2).length < TF.BF.Pn) :
    vals (codec_tuple12_encode (staticLength tA) A_enc (staticLength tB) B_enc (staticLength tC) C_enc (staticLength tD) D_enc (staticLength tE) E_enc (staticLength tF) F_enc (staticLength tG) G_enc (staticLength tH) H_enc (staticLength tI) I_enc (staticLength tJ) J_enc (staticLength tK) K_enc (staticLength tL) L_enc self) =
      encode (.tuple [tA, tB, tC, tD, tE, tF, tG, tH, tI, tJ, tK, tL]) (.list [A_toVal self.1, B_toVal self.2.1, C_toVal self.2.2.1, D_toVal self.2.2.2.1, E_toVal self.2.2.2.2.1, F_toVal self.2.2.2.2.2.1, G_toVal self.2.2.2.2.2.2.1, H_toVal self.2.2.2.2.2.2.2.1, I_toVal self.2.2.2.2.2.2.2.2.1, J_toVal self.2.2.2.2.2.2.2.2.2.1, K_toVal self.2.2.2.2.2.2.2.2.2.2.1, L_toVal self.2.2.2.2.2.2.2.2.2.2.2]) := by
  rw [tuple12_encode_eq, encode_tuple]
  simp only [pushComp_vals _ _ _ hlA, pushComp_vals _ _ _ hlB, pushComp_vals _ _ _ hlC, pushComp_vals _ _ _ hlD, pushComp_vals _ _ _ hlE, pushComp_vals _ _ _ hlF, pushComp_vals _ _ _ hlG, pushComp_vals _ _ _ hlH, pushComp_vals _ _ _ hlI, pushComp_vals _ _ _ hlJ, pushComp_vals _ _ _ hlK, pushComp_vals _ _ _ hlL, encode_tuple_cons, encodeFields_nil, heA, heB, heC, heD, heE, heF, heG, heH, heI, heJ, heK, heL, vals_nil]

/-- regenerated `static_length` of the 12-tuple = `staticLength (.tuple [..])` -/
theorem tuple12_static_length (tA : Ty) (tB : Ty) (tC : Ty) (tD : Ty) (tE : Ty) (tF : Ty) (tG : Ty) (tH : Ty) (tI : Ty) (tJ : Ty) (tK : Ty) (tL : Ty) :
    codec_tuple12_static_length (staticLength tA) (staticLength tB) (staticLength tC) (staticLength tD) (staticLength tE) (staticLength tF) (staticLength tG) (staticLength tH) (staticLength tI) (staticLength tJ) (staticLength tK) (staticLength tL) = staticLength (.tuple [tA, tB, tC, tD, tE, tF, tG, tH, tI, tJ, tK, tL]) := by
  rw [staticLength_tuple]
  simp only [staticLengthSum_cons, staticLengthSum_nil]
  unfold codec_tuple12_static_length
  generalize staticLength tA = oA
  generalize staticLength tB = oB
  generalize staticLength tC = oC
  generalize staticLength tD = oD
  generalize staticLength tE = oE
  generalize staticLength tF = oF
  generalize staticLength tG = oG
  generalize staticLength tH = oH
  generalize staticLength tI = oI
  generalize staticLength tJ = oJ
  generalize staticLength tK = oK
  generalize staticLength tL = oL
  cases oA with
  | none => rfl
  | some a =>
    cases oB with
    | none => rfl
    | some b =>
      cases oC with
      | none => rfl
      | some c =>
        cases oD with
        | none => rfl
        | some d =>
          cases oE with
          | none => rfl
          | some e =>
            cases oF with
            | none => rfl
            | some f =>
              cases oG with
              | none => rfl
              | some g =>
                cases oH with
                | none => rfl
                | some h =>
                  cases oI with
                  | none => rfl
                  | some i =>
                    cases oJ with
                    | none => rfl
                    | some j =>
                      cases oK with
                      | none => rfl
                      | some k =>
                        cases oL with
                        | none => rfl
                        | some l =>
                          simp only [Option.some.injEq]
                          omega

end TF.GenBridge.CodecG
