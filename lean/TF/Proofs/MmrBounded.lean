import TF.Gen.MmrIndex
import TF.Model.MmrIndex
import TF.Spec.MmrIndex
/-!
# C16: executable comparison of every index function with the explicit forest S0 (used for `…_bounded_check` tests)

`forestAgrees n` evaluates *all* index functions (translated and hand-modelled) on *all* nodes and leaves of the
forest with `n` leaves and compares them with the table of S0.  It is evaluated by the kernel (`decide +kernel`) for
all `n` up to a bound in `TF/Props/C16.lean`; that is a test, not a proof of the property.
-/
namespace TF.Mmr
open TF.Gen TF.Model.Mmr TF.Spec.Mmr

def rowAgrees (n nodes : Nat) (peakIdx : List Nat) (k : Nat) (r : Row) : Bool :=
  right_lineage_length_and_own_height r.idx == some (r.rll, r.height) &&
  right_lineage_length_from_node_index r.idx == some r.rll &&
  (r.parent == 0 || parent r.idx == some r.parent) &&
  node_index_to_leaf_index r.idx == some r.leaf &&
  (r.left == 0 || (left_child r.idx r.height == r.left && right_child r.idx == r.right)) &&
  (r.sibling == 0 ||
    (if r.rll != 0 then left_sibling r.idx r.height == r.sibling else right_sibling r.idx r.height == r.sibling)) &&
  (match r.leaf with
   | some i =>
     leaf_index_to_node_index i == r.idx &&
     leaf_index_to_mt_index_and_peak_index i n == (r.mt, k) &&
     right_lineage_length_from_leaf_index i == r.rll &&
     get_authentication_path_node_indices r.idx (peakIdx.getD k 0) nodes == some (some r.auth)
   | none => true)

def forestAgrees (n : Nat) : Bool :=
  let F := forest n
  let peaks := F.peaks
  let heights := peaks.map Tree.height
  let idxs := peaks.map Tree.idx
  let F1 := F.append
  let added := (List.range (F1.nodes - F.nodes)).map (fun k => F.nodes + 1 + k)
  num_leafs_to_num_nodes n == F.nodes &&
  get_peak_heights n == heights &&
  get_peak_heights_and_peak_node_indices n == some (heights, idxs) &&
  node_indices_added_by_append n == some added &&
  F.rows.all fun (k, r) => rowAgrees n F.nodes idxs k r

end TF.Mmr
