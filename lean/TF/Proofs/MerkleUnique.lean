import TF.Proofs.MerklePaths
/-! uniqueness of the Merkle tree over a leaf list, explicit form -/
set_option linter.unusedSectionVars false
namespace TF.Merkle
open TF.Gen

/-- a small non-injective "hash" on `Nat`, used only by the non-vacuity examples of the Props files -/
def Hx (a b : Nat) : Nat := (3 * a + 5 * b + 1) % 1000003

section Unique
variable {D : Type} (H : D → D → D)

theorem level_of {h k : Nat} (h1 : 1 ≤ k) (h2 : k < 2^(h+1)) :
    Nat.log2 k ≤ h ∧ 2^(Nat.log2 k) ≤ k ∧ k < 2^(Nat.log2 k + 1) := by
  have hk : k ≠ 0 := by omega
  refine ⟨?_, Nat.log2_self_le hk, Nat.lt_log2_self⟩
  have := (Nat.log2_lt hk).2 h2
  omega

/-- the heap-ordered node list of a Merkle tree is determined by the leafs: it is the explicit tree `Spec.treeNodes` -/
theorem merkle_eq_treeNodes {filler : D} {ds nodes : List D} {h : Nat} (hn : ds.length = 2^h)
    (hm : Spec.IsMerkleTree H filler ds nodes) : nodes = Spec.treeNodes H filler h ds := by
  apply List.ext_getElem?
  intro k
  unfold Spec.treeNodes
  rw [List.getElem?_map]
  by_cases hk : k < 2^(h+1)
  · rw [List.getElem?_range hk]
    simp only [Option.map_some]
    by_cases h0 : k = 0
    · subst h0; simp [hm.2.1]
    · simp only [h0, if_false]
      obtain ⟨l1, l2, l3⟩ := level_of (show 1 ≤ k by omega) hk
      have e : h - (h - Nat.log2 k) = Nat.log2 k := by omega
      rw [merkle_nodeVal H hn hm (h - Nat.log2 k) k (by omega) (by rw [e]; exact l2) (by rw [e]; exact l3)]
  · rw [List.getElem?_eq_none_iff.2 (by rw [hm.1, hn, ← two_pow_succ]; omega)]
    rw [List.getElem?_eq_none_iff.2 (by simp; omega)]
    rfl
end Unique
end TF.Merkle
