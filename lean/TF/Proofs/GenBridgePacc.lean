import TF.Proofs.GenBridgeBField
/-!
# Bridge: `BFieldElement::power_accumulator::<N, M>` *as regenerated from source* = the hand model, lane by lane

`TF.Gen.Loops.bfe_power_accumulator N M base tail` (three fuel-indexed `while` loops over arrays, `result[j] = …` as
`List.set`, `result[j]` as `getD`) terminates within its fuel for all array lengths `N` and all `M` below `2^64` and
returns, in lane `k`, `BF.powerAccumulator M base[k] tail[k]` (= `M` squarings of `base[k]`, times `tail[k]`).
-/
namespace TF.GenBridge.BField
open TF TF.Gen TF.Model.BF

theorem getD_set_self (l : List Nat) (j v : Nat) (hj : j < l.length) : (l.set j v).getD j 0 = v := by
  simp [List.getD, hj]

theorem getD_set_ne (l : List Nat) (j k v : Nat) (h : j ≠ k) : (l.set j v).getD k 0 = l.getD k 0 := by
  simp [List.getD, List.getElem?_set_ne h]

/-! ### the inner squaring pass -/

theorem pacc_loop2_spec (N : Nat) (hN : N < 18446744073709551616) : ∀ fuel (result : List Nat) (j : Nat),
    result.length = N → j ≤ N → N - j < fuel →
    ∃ r, Loops.bfe_power_accumulator_loop2 N fuel result j = some (r, N) ∧ r.length = N ∧
      ∀ k, k < N → r.getD k 0 = if k < j then result.getD k 0 else bfe_mul (result.getD k 0) (result.getD k 0) := by
  intro fuel
  induction fuel with
  | zero => intro result j _ h1 h2; omega
  | succ f ih =>
    intro result j hlen h1 h2
    rw [Loops.bfe_power_accumulator_loop2]
    by_cases hj : j < N
    · have e1 : (j + 1) % 18446744073709551616 = j + 1 := Nat.mod_eq_of_lt (by omega)
      rw [if_pos (by simpa using hj)]
      dsimp only
      rw [mul_unfold, e1]
      obtain ⟨r, hr, hrl, hrk⟩ := ih (result.set j (bfe_mul (result.getD j 0) (result.getD j 0))) (j + 1)
        (by rw [List.length_set]; exact hlen) (by omega) (by omega)
      refine ⟨r, hr, hrl, fun k hk => ?_⟩
      rw [hrk k hk]
      by_cases hkj : k < j
      · rw [if_pos (by omega), if_pos hkj, getD_set_ne _ _ _ _ (by omega)]
      · by_cases hkj' : k = j
        · subst hkj'
          rw [if_pos (by omega), if_neg hkj, getD_set_self _ _ _ (by omega)]
        · rw [if_neg (by omega), if_neg hkj, getD_set_ne _ _ _ _ (by omega)]
    · have : j = N := by omega
      subst this
      rw [if_neg (by simp)]
      exact ⟨result, rfl, hlen, fun k hk => by rw [if_pos hk]⟩

/-! ### `M` squaring passes -/

theorem sqN_succ' (b k : Nat) : sqN b (k + 1) = sqN (bfe_mul b b) k := by rw [sqN]

theorem pacc_loop_spec (N M : Nat) (hN : N < 18446744073709551616) (hM : M < 18446744073709551616) :
    ∀ fuel (result : List Nat) (i : Nat), result.length = N → i ≤ M → M - i < fuel →
    ∃ r, Loops.bfe_power_accumulator_loop N M fuel result i = some (r, M) ∧ r.length = N ∧
      ∀ k, k < N → r.getD k 0 = sqN (result.getD k 0) (M - i) := by
  intro fuel
  induction fuel with
  | zero => intro result i _ h1 h2; omega
  | succ f ih =>
    intro result i hlen h1 h2
    rw [Loops.bfe_power_accumulator_loop]
    by_cases hi : i < M
    · have e1 : (i + 1) % 18446744073709551616 = i + 1 := Nat.mod_eq_of_lt (by omega)
      obtain ⟨r2, hr2, hr2l, hr2k⟩ := pacc_loop2_spec N hN (N + M + 1) result 0 hlen (by omega) (by omega)
      rw [if_pos (by simpa using hi)]
      dsimp only
      rw [hr2, Option.bind_some, e1]
      dsimp only
      obtain ⟨r, hr, hrl, hrk⟩ := ih r2 (i + 1) hr2l (by omega) (by omega)
      refine ⟨r, hr, hrl, fun k hk => ?_⟩
      rw [hrk k hk, hr2k k hk, if_neg (by omega), show M - i = (M - (i + 1)) + 1 by omega, sqN_succ']
    · have : i = M := by omega
      subst this
      rw [if_neg (by simp)]
      exact ⟨result, rfl, hlen, fun k _ => by rw [Nat.sub_self, sqN]⟩

/-! ### the final pass: multiply by `tail` -/

theorem pacc_loop3_spec (N : Nat) (tail : List Nat) (hN : N < 18446744073709551616) :
    ∀ fuel (result : List Nat) (j : Nat), result.length = N → j ≤ N → N - j < fuel →
    ∃ r, Loops.bfe_power_accumulator_loop3 N tail fuel result j = some (r, N) ∧ r.length = N ∧
      ∀ k, k < N → r.getD k 0 = if k < j then result.getD k 0 else bfe_mul (result.getD k 0) (tail.getD k 0) := by
  intro fuel
  induction fuel with
  | zero => intro result j _ h1 h2; omega
  | succ f ih =>
    intro result j hlen h1 h2
    rw [Loops.bfe_power_accumulator_loop3]
    by_cases hj : j < N
    · have e1 : (j + 1) % 18446744073709551616 = j + 1 := Nat.mod_eq_of_lt (by omega)
      rw [if_pos (by simpa using hj)]
      dsimp only
      rw [mul_unfold, e1]
      obtain ⟨r, hr, hrl, hrk⟩ := ih (result.set j (bfe_mul (result.getD j 0) (tail.getD j 0))) (j + 1)
        (by rw [List.length_set]; exact hlen) (by omega) (by omega)
      refine ⟨r, hr, hrl, fun k hk => ?_⟩
      rw [hrk k hk]
      by_cases hkj : k < j
      · rw [if_pos (by omega), if_pos hkj, getD_set_ne _ _ _ _ (by omega)]
      · by_cases hkj' : k = j
        · subst hkj'
          rw [if_pos (by omega), if_neg hkj, getD_set_self _ _ _ (by omega)]
        · rw [if_neg (by omega), if_neg hkj, getD_set_ne _ _ _ _ (by omega)]
    · have : j = N := by omega
      subst this
      rw [if_neg (by simp)]
      exact ⟨result, rfl, hlen, fun k hk => by rw [if_pos hk]⟩

/-- **`BFieldElement::power_accumulator::<N, M>`** regenerated from source = the hand model in every lane: for arrays
    `base`, `tail` of length `N` (`N, M < 2^64`, as `usize` const generics) the regenerated function terminates within its
    fuel and returns `[powerAccumulator M base[k] tail[k] | k < N]` -/
theorem gen_power_accumulator_eq (N M : Nat) (base tail : List Nat) (hN : N < 18446744073709551616)
    (hM : M < 18446744073709551616) (hb : base.length = N) (ht : tail.length = N) :
    Loops.bfe_power_accumulator N M base tail = some (List.zipWith (powerAccumulator M) base tail) := by
  obtain ⟨r1, hr1, hr1l, hr1k⟩ := pacc_loop_spec N M hN hM (N + M + 1) base 0 hb (by omega) (by omega)
  obtain ⟨r3, hr3, hr3l, hr3k⟩ := pacc_loop3_spec N tail hN (N + M + 1) r1 0 hr1l (by omega) (by omega)
  unfold Loops.bfe_power_accumulator
  dsimp only
  rw [hr1, Option.bind_some]
  dsimp only
  rw [hr3, Option.bind_some]
  show some r3 = _
  congr 1
  apply List.ext_getElem
  · rw [hr3l, List.length_zipWith, hb, ht, Nat.min_self]
  · intro k h1 h2
    have hk : k < N := by omega
    have h3 := hr3k k hk
    rw [if_neg (by omega), hr1k k hk, Nat.sub_zero] at h3
    rw [List.getElem_zipWith]
    have hkb : k < base.length := by omega
    have hkt : k < tail.length := by omega
    rw [List.getD_eq_getElem _ _ h1, List.getD_eq_getElem _ _ hkb, List.getD_eq_getElem _ _ hkt] at h3
    rw [h3]; rfl

/-- one lane (what the driver evaluates on every `bfe pacc` op) -/
theorem gen_power_accumulator_lane (M base tail : Nat) (hM : M < 18446744073709551616) :
    Loops.bfe_power_accumulator 1 M [base] [tail] = some [powerAccumulator M base tail] :=
  gen_power_accumulator_eq 1 M [base] [tail] (by decide) hM rfl rfl

end TF.GenBridge.BField
