import TF.Proofs.Merkle
/-! `CpuParallel::from_digests` for every cut-off -/
set_option linter.unusedSectionVars false
namespace TF.Merkle
open TF.Gen

theorem Res.mapM_exists {α β : Type} {f : α → Res β} : ∀ (l : List α), (∀ a ∈ l, ∃ b, f a = .ok b) →
    ∃ bs, Res.mapM f l = .ok bs ∧ bs.length = l.length ∧
      ∀ (i : Nat) (a : α), l[i]? = some a → ∃ b, bs[i]? = some b ∧ f a = .ok b
  | [], _ => ⟨[], rfl, rfl, by simp⟩
  | a :: as, h => by
    obtain ⟨b, hb⟩ := h a (List.mem_cons_self ..)
    obtain ⟨bs, h1, h2, h3⟩ := Res.mapM_exists as (fun x hx => h x (List.mem_cons_of_mem _ hx))
    refine ⟨b :: bs, by simp [Res.mapM, hb, h1], by simp [h2], ?_⟩
    intro i x hx
    cases i with
    | zero => simp at hx; subst hx; exact ⟨b, by simp, hb⟩
    | succ i => simp at hx; simpa using h3 i x hx

theorem splice_get {D : Type} {nodes bs : List D} {cnt : Nat} (hl : 2 * cnt ≤ nodes.length) (hb : bs.length = cnt) (k : Nat) :
    (nodes.take cnt ++ bs ++ nodes.drop (2 * cnt))[k]? =
      if k < cnt then nodes[k]? else if k < 2 * cnt then bs[k - cnt]? else nodes[k]? := by
  have ht : (nodes.take cnt).length = cnt := by simp; omega
  by_cases h1 : k < cnt
  · simp only [h1, if_true]
    rw [List.append_assoc, List.getElem?_append_left (by omega), List.getElem?_take]
    simp [h1]
  · by_cases h2 : k < 2 * cnt
    · simp only [h1, h2, if_true, if_false]
      rw [List.getElem?_append_left (by simp; omega), List.getElem?_append_right (by omega), ht]
    · simp only [h1, h2, if_false]
      rw [List.getElem?_append_right (by simp; omega)]
      simp only [List.length_append, ht, hb, List.getElem?_drop]
      congr 1; omega

section Build
variable {D : Type} (H : D → D → D)

/-- node `i` is the hash of its two children -/
def Hashed (nodes : List D) (i : Nat) : Prop :=
  ∃ a b, nodes[2*i]? = some a ∧ nodes[2*i+1]? = some b ∧ nodes[i]? = some (H a b)

/-- loop invariant of `from_digests`: all inner nodes from index `c` on are hashed, everything else is as initialised -/
structure Built (n : Nat) (nodes0 : List D) (c : Nat) (nodes : List D) : Prop where
  len : nodes.length = 2 * n
  same : ∀ k, (k < c ∨ n ≤ k) → nodes[k]? = nodes0[k]?
  hashed : ∀ i, c ≤ i → i < n → Hashed H nodes i

theorem hashChildren_ok {nodes : List D} {n i : Nat} (hl : nodes.length = 2 * n) (hi : i < n) :
    ∃ a b, nodes[2*i]? = some a ∧ nodes[2*i+1]? = some b ∧ hashChildren H nodes i = .ok (H a b) := by
  have h1 : 2*i < nodes.length := by omega
  have h2 : 2*i+1 < nodes.length := by omega
  refine ⟨nodes[2*i], nodes[2*i+1], List.getElem?_eq_getElem h1, List.getElem?_eq_getElem h2, ?_⟩
  simp [hashChildren, List.getElem?_eq_getElem h1, List.getElem?_eq_getElem h2]

/-- one sequential step -/
theorem seq_step {n : Nat} {nodes0 nodes : List D} {c : Nat} (b : Built H n nodes0 (c+1) nodes) (hc : 1 ≤ c) (hcn : c < n) :
    ∃ d, hashChildren H nodes c = .ok d ∧ c < nodes.length ∧ Built H n nodes0 c (nodes.set c d) := by
  obtain ⟨x, y, hx, hy, hh⟩ := hashChildren_ok H b.len hcn
  refine ⟨H x y, hh, by have := b.len; omega, ?_, ?_, ?_⟩
  · simp [b.len]
  · intro k hk
    rw [List.getElem?_set_ne (by omega)]
    exact b.same k (by omega)
  · intro i hi hin
    by_cases e : i = c
    · subst e
      refine ⟨x, y, ?_, ?_, ?_⟩
      · rw [List.getElem?_set_ne (by omega)]; exact hx
      · rw [List.getElem?_set_ne (by omega)]; exact hy
      · rw [List.getElem?_set_self (by have := b.len; omega)]
    · obtain ⟨x', y', hx', hy', hh'⟩ := b.hashed i (by omega) hin
      refine ⟨x', y', ?_, ?_, ?_⟩
      · rw [List.getElem?_set_ne (by omega)]; exact hx'
      · rw [List.getElem?_set_ne (by omega)]; exact hy'
      · rw [List.getElem?_set_ne (by omega)]; exact hh'

theorem revRange_succ {c : Nat} (hc : 1 ≤ c) : revRange (c+1) = c :: revRange c := by
  unfold revRange ROOT_INDEX
  have : c + 1 - 1 = (c - 1) + 1 := by omega
  rw [this, List.range'_concat, List.reverse_append]
  simp; omega

theorem seqLoop_ok {n : Nat} {nodes0 : List D} : ∀ (c : Nat) (nodes : List D), 1 ≤ c → c ≤ n → Built H n nodes0 c nodes →
    ∃ nodes', seqLoop H nodes (revRange c) = .ok nodes' ∧ Built H n nodes0 1 nodes'
  | 0, _, h, _, _ => by omega
  | 1, nodes, _, _, b => ⟨nodes, by simp [revRange, ROOT_INDEX, seqLoop], b⟩
  | c+2, nodes, _, hcn, b => by
    obtain ⟨d, h1, h2, b'⟩ := seq_step H b (show 1 ≤ c+1 by omega) (by omega)
    obtain ⟨nodes', h3, b''⟩ := seqLoop_ok (c+1) (nodes.set (c+1) d) (by omega) (by omega) b'
    refine ⟨nodes', ?_, b''⟩
    rw [revRange_succ (show 1 ≤ c+1 by omega)]
    simp [seqLoop, h1, h2, h3]

/-- one parallel level -/
theorem par_step {n : Nat} {nodes0 nodes : List D} {cnt : Nat} (b : Built H n nodes0 (2*cnt) nodes) (hc : 1 ≤ cnt)
    (hcn : 2 * cnt ≤ n) :
    ∃ nodes', parLevel H nodes cnt = .ok nodes' ∧ Built H n nodes0 cnt nodes' := by
  obtain ⟨bs, h1, h2, h3⟩ := Res.mapM_exists (f := fun i => hashChildren H nodes (cnt + i)) (List.range cnt)
    (fun i hi => by
      obtain ⟨x, y, _, _, hh⟩ := hashChildren_ok H b.len (show cnt + i < n by have := List.mem_range.1 hi; omega)
      exact ⟨_, hh⟩)
  have hlen : 2 * cnt ≤ nodes.length := by have := b.len; omega
  rw [List.length_range] at h2
  refine ⟨nodes.take cnt ++ bs ++ nodes.drop (2 * cnt), by simp only [parLevel, h1, Res.ok_bind, hlen, if_true], ?_, ?_, ?_⟩
  · simp [h2]; have := b.len; omega
  · intro k hk
    rw [splice_get hlen h2]
    have : ¬ (cnt ≤ k ∧ k < 2 * cnt) := by omega
    by_cases h1 : k < cnt
    · simp only [h1, if_true]; exact b.same k (by omega)
    · have h2' : ¬ k < 2 * cnt := by omega
      simp only [h1, h2', if_false]; exact b.same k (by omega)
  · intro i hi hin
    by_cases hlt : i < 2 * cnt
    · -- freshly written
      obtain ⟨x, y, hx, hy, hh⟩ := hashChildren_ok H b.len hin
      obtain ⟨v, hv1, hv2⟩ := h3 (i - cnt) (i - cnt) (by rw [List.getElem?_range (by omega)])
      have e : cnt + (i - cnt) = i := by omega
      simp only [e, hh] at hv2
      refine ⟨x, y, ?_, ?_, ?_⟩
      · rw [splice_get hlen h2]
        have h1 : ¬ 2*i < cnt := by omega
        have h2' : ¬ 2*i < 2 * cnt := by omega
        simp only [h1, h2', if_false]; exact hx
      · rw [splice_get hlen h2]
        have h1 : ¬ 2*i+1 < cnt := by omega
        have h2' : ¬ 2*i+1 < 2 * cnt := by omega
        simp only [h1, h2', if_false]; exact hy
      · rw [splice_get hlen h2]
        have h1 : ¬ i < cnt := by omega
        simp only [h1, hlt, if_true, if_false, hv1]
        cases hv2; rfl
    · obtain ⟨x, y, hx, hy, hh⟩ := b.hashed i (by omega) hin
      refine ⟨x, y, ?_, ?_, ?_⟩
      · rw [splice_get hlen h2]
        have h1 : ¬ 2*i < cnt := by omega
        have h2' : ¬ 2*i < 2 * cnt := by omega
        simp only [h1, h2', if_false]; exact hx
      · rw [splice_get hlen h2]
        have h1 : ¬ 2*i+1 < cnt := by omega
        have h2' : ¬ 2*i+1 < 2 * cnt := by omega
        simp only [h1, h2', if_false]; exact hy
      · rw [splice_get hlen h2]
        have h1 : ¬ i < cnt := by omega
        simp only [h1, hlt, if_false]; exact hh
end Build

section Build2
variable {D : Type} (H : D → D → D)

theorem two_pow_succ' (h : Nat) : 2^(h+1) = 2 * 2^h := by rw [Nat.pow_succ]; omega

/-- the parallel loop: terminates within `cnt + 1` iterations **for every cut-off** and leaves the invariant -/
theorem parLoop_ok {n h : Nat} (hn : n = 2^h) {nodes0 : List D} (cutoff : Nat) :
    ∀ (fuel j : Nat) (nodes : List D), j ≤ h → 2^j / 2 + 1 ≤ fuel → Built H n nodes0 (2^j) nodes →
      ∃ nodes' acc, parLoop H cutoff fuel (2^j / 2) (n - 2^j) nodes = some (.ok (nodes', acc)) ∧
        acc < n ∧ Built H n nodes0 (n - acc) nodes'
  | 0, _, _, _, hf, _ => absurd hf (Nat.not_succ_le_zero _)
  | fuel+1, j, nodes, hj, hf, b => by
    have hjn : 2^j ≤ n := by rw [hn]; exact Nat.pow_le_pow_right (by omega) hj
    have hpos : 1 ≤ 2^j := Nat.one_le_two_pow
    unfold parLoop
    by_cases hc : 2^j / 2 > 0 ∧ 2^j / 2 ≥ cutoff
    · simp only [hc, and_self, if_true]
      cases j with
      | zero => simp at hc
      | succ j =>
        have e := two_pow_succ' j
        have ecnt : 2^(j+1) / 2 = 2^j := by omega
        rw [ecnt] at hc ⊢
        have hposj : 1 ≤ 2^j := Nat.one_le_two_pow
        obtain ⟨nodes', h1, b'⟩ := par_step H (cnt := 2^j) (by rw [← e]; exact b) hposj (by omega)
        simp only [h1]
        have eacc : n - 2^(j+1) + 2^j = n - 2^j := by omega
        rw [eacc]
        exact parLoop_ok hn cutoff fuel j nodes' (by omega) (by omega) b'
    · simp only [hc, if_false]
      refine ⟨nodes, n - 2^j, rfl, by omega, ?_⟩
      have : n - (n - 2^j) = 2^j := by omega
      rw [this]; exact b

theorem isPow2_iff {n : Nat} : isPow2 n = true ↔ ∃ h, n = 2^h := by
  unfold isPow2
  simp only [Bool.and_eq_true, bne_iff_ne, ne_eq, beq_iff_eq]
  constructor
  · rintro ⟨_, h⟩; exact ⟨n.log2, h.symm⟩
  · rintro ⟨h, rfl⟩
    exact ⟨by have := Nat.one_le_two_pow (n := h); omega, by rw [Nat.log2_two_pow]⟩

theorem built_init (filler : D) (ds : List D) :
    Built H ds.length (List.replicate ds.length filler ++ ds) ds.length (List.replicate ds.length filler ++ ds) :=
  ⟨by simp; omega, fun _ _ => rfl, fun i h1 h2 => by omega⟩

/-- the result of the construction: a Merkle tree, for every cut-off and with fuel `n/2 + 1` (or more) -/
theorem fromDigestsFuel_ok (filler : D) (cutoff : Nat) {ds : List D} {h : Nat} (hn : ds.length = 2^h) {fuel : Nat}
    (hf : ds.length / 2 + 1 ≤ fuel) :
    ∃ t, fromDigestsFuel H filler cutoff fuel ds = some (.ok t) ∧ Spec.IsMerkleTree H filler ds t.nodes := by
  have hpos : 1 ≤ ds.length := by rw [hn]; exact Nat.one_le_two_pow
  have hne : ds.isEmpty = false := by
    cases ds with
    | nil => simp at hpos
    | cons _ _ => rfl
  have hp2 : isPow2 ds.length = true := isPow2_iff.2 ⟨h, hn⟩
  obtain ⟨nodes1, acc, h1, hacc, b1⟩ := parLoop_ok H hn cutoff fuel h _ (Nat.le_refl h) (by rw [← hn]; exact hf)
    (by rw [← hn]; exact built_init H filler ds)
  rw [← hn, Nat.sub_self] at h1
  obtain ⟨nodes2, h2, b2⟩ := seqLoop_ok H (ds.length - acc) nodes1 (by omega) (by omega) b1
  refine ⟨⟨nodes2⟩, ?_, ?_⟩
  · have hcs : csub ds.length acc = .ok (ds.length - acc) := by simp [csub]; omega
    simp [fromDigestsFuel, hne, hp2, h1, hcs, h2]
  · refine ⟨b2.len, ?_, ?_, ?_⟩
    · rw [b2.same 0 (by omega), List.getElem?_append_left (by simp; omega)]
      rw [List.getElem?_replicate, if_pos (show 0 < ds.length from hpos)]
    · intro i hi
      rw [b2.same _ (by omega), List.getElem?_append_right (by simp)]
      rw [List.length_replicate, Nat.add_sub_cancel_left]
    · intro i h1 h2
      exact b2.hashed i h1 h2

/-- **termination for every cut-off** (fix F2): the fuel `n + 1` used by `fromDigests` is never exhausted -/
theorem fromDigestsFuel_terminates (filler : D) (cutoff : Nat) (ds : List D) :
    ∃ r, fromDigestsFuel H filler cutoff (ds.length + 1) ds = some r := by
  by_cases he : ds.isEmpty = true
  · exact ⟨.err .tooFewLeafs, by simp [fromDigestsFuel, he]⟩
  · by_cases hp : isPow2 ds.length = true
    · obtain ⟨h, hn⟩ := isPow2_iff.1 hp
      obtain ⟨t, ht, _⟩ := fromDigestsFuel_ok H filler cutoff hn (fuel := ds.length + 1) (by omega)
      exact ⟨_, ht⟩
    · exact ⟨.err .incorrectNumberOfLeafs, by simp [fromDigestsFuel, he, hp]⟩

theorem fromDigests_ok (filler : D) (cutoff : Nat) {ds : List D} {h : Nat} (hn : ds.length = 2^h) :
    ∃ t, fromDigests H filler cutoff ds = .ok t ∧ Spec.IsMerkleTree H filler ds t.nodes := by
  obtain ⟨t, ht, hm⟩ := fromDigestsFuel_ok H filler cutoff hn (fuel := ds.length + 1) (by omega)
  exact ⟨t, by simp [fromDigests, ht], hm⟩

theorem fromDigests_empty (filler : D) (cutoff : Nat) : fromDigests H filler cutoff [] = .err .tooFewLeafs := by
  simp [fromDigests, fromDigestsFuel]

theorem fromDigests_not_pow2 (filler : D) (cutoff : Nat) {ds : List D} (hne : ds ≠ []) (hp : ¬ ∃ h, ds.length = 2^h) :
    fromDigests H filler cutoff ds = .err .incorrectNumberOfLeafs := by
  have he : ds.isEmpty = false := by cases ds <;> simp_all
  have hp2 : isPow2 ds.length = false := by
    cases hq : isPow2 ds.length
    · rfl
    · exact absurd (isPow2_iff.1 hq) hp
  simp [fromDigests, fromDigestsFuel, he, hp2]

/-- before fix F2 the loop guard was `cnt >= cutoff`: with cut-off 0 the loop never exits once `cnt` reaches 0 -/
theorem parLoopBeforeF2_diverges (acc : Nat) (nodes : List D) :
    ∀ fuel, parLoopBeforeF2 H 0 fuel 0 acc nodes = none
  | 0 => rfl
  | fuel+1 => by
    have : parLevel H nodes 0 = .ok nodes := by simp [parLevel, Res.mapM]
    simp only [parLoopBeforeF2, Nat.le_refl, ge_iff_le, if_true, this]
    exact parLoopBeforeF2_diverges (acc + 0) nodes fuel

/-- a Merkle tree is determined level by level: node `k` with `lvl` levels below it is `nodeVal` over the leafs -/
theorem merkle_nodeVal {filler : D} {ds nodes : List D} {h : Nat} (hn : ds.length = 2^h)
    (hm : Spec.IsMerkleTree H filler ds nodes) :
    ∀ (lvl k : Nat), lvl ≤ h → 2^(h-lvl) ≤ k → k < 2^(h-lvl+1) →
      nodes[k]? = some (nodeVal H (fun j => (ds[j - 2^h]?).getD filler) lvl k)
  | 0, k, _, h1, h2 => by
    obtain ⟨_, _, hl, _⟩ := hm
    simp only [Nat.sub_zero] at h1 h2
    have e := two_pow_succ' h
    have := hl (k - 2^h) (by omega)
    rw [hn, show 2^h + (k - 2^h) = k by omega] at this
    rw [this, nodeVal]
    have hlt : k - 2^h < ds.length := by omega
    simp [List.getElem?_eq_getElem hlt]
  | lvl+1, k, hl, h1, h2 => by
    have e := two_pow_succ' (h - (lvl+1))
    rw [show h - (lvl+1) + 1 = h - lvl by omega] at h2 e
    have e2 := two_pow_succ' (h - lvl)
    have hle : 2^(h-lvl) ≤ 2^h := Nat.pow_le_pow_right (by omega) (by omega)
    have hpos : 1 ≤ 2^(h-(lvl+1)) := Nat.one_le_two_pow
    obtain ⟨a, b, ha, hb, hk⟩ := hm.2.2.2 k (by omega) (by omega)
    rw [merkle_nodeVal hn hm lvl (2*k) (by omega) (by omega) (by omega)] at ha
    rw [merkle_nodeVal hn hm lvl (2*k+1) (by omega) (by omega) (by omega)] at hb
    cases ha; cases hb
    rw [hk, nodeVal]
end Build2

end TF.Merkle
