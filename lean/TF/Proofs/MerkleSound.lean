import TF.Proofs.MerkleVerify
import TF.Proofs.MerkleBuild
/-! soundness (collision extraction) and completeness of the reference recomputation w.r.t. an honest tree -/
set_option linter.unusedSectionVars false
namespace TF.Merkle
open TF.Gen

section RefVal
variable {D : Type} [DecidableEq D] (H : D → D → D)
variable {h : Nat} {idxs : List Nat} {leafD authD : Nat → Option D}

/-- how a child `c` (on level `j`) of a computable node gets its value: recomputed, or supplied -/
def ChildVal (h : Nat) (idxs : List Nat) (leafD authD : Nat → Option D) (j c : Nat) (v : D) : Prop :=
  ((∃ i' ∈ idxs, anc h i' j = c) ∧ Spec.refVal H leafD authD j c = some v) ∨
  ((∀ i' ∈ idxs, anc h i' j ≠ c) ∧ Spec.refVal H leafD authD j c = none ∧ c ∈ Spec.needed h idxs ∧ authD c = some v)

/-- unfolding of the reference recomputation at a computable node `p` on level `j+1` -/
theorem refVal_parent (ctx : FillCtx h idxs leafD authD) {j : Nat} (hj : j < h)
    (hsome : ∀ i' ∈ idxs, (Spec.refVal H leafD authD j (anc h i' j)).isSome) {i : Nat} (hi : i ∈ idxs) :
    ∃ a b, Spec.refVal H leafD authD (j+1) (anc h i (j+1)) = some (H a b) ∧
      ChildVal H h idxs leafD authD j (2 * anc h i (j+1)) a ∧ ChildVal H h idxs leafD authD j (2 * anc h i (j+1) + 1) b := by
  generalize hp' : anc h i (j+1) = p
  have hp : p = anc h i j / 2 := by rw [← hp']; exact anc_succ h i j
  have rp := anc_range (ctx.hi i hi) (show j+1 ≤ h by omega)
  rw [hp'] at rp
  have e2 := two_pow_succ (h - (j+1))
  have hp1 : 1 ≤ p := by have := Nat.one_le_two_pow (n := h - (j+1)); omega
  have child : ∀ c, c / 2 = p → ∃ v, ChildVal H h idxs leafD authD j c v := by
    intro c hc
    by_cases hcov : ∃ i' ∈ idxs, anc h i' j = c
    · obtain ⟨i', hi', e⟩ := hcov
      obtain ⟨v, hv⟩ := Option.isSome_iff_exists.1 (hsome i' hi')
      rw [e] at hv
      exact ⟨v, Or.inl ⟨⟨i', hi', e⟩, hv⟩⟩
    · have hn : ∀ i' ∈ idxs, anc h i' j ≠ c := fun i' hi' e => hcov ⟨i', hi', e⟩
      have hnc := not_covered_of_level ctx hi (show j ≤ h by omega) (by rw [hc, hp]) hn
      have hsib : sib c = anc h i j := by
        have hne : c ≠ anc h i j := fun e => hn i hi e.symm
        unfold sib; split <;> omega
      have hs : Spec.covered h idxs (sib c) = true := by rw [hsib]; exact covered_of_anc hi (by omega)
      have h2c : 2 ≤ c := by omega
      obtain ⟨v, hv⟩ := Option.isSome_iff_exists.1 (ctx.a2 c h2c hnc hs)
      exact ⟨v, Or.inr ⟨hn, refVal_none H ctx j c hn,
        mem_needed.2 ⟨sib_lt_two_pow (covered_lt ctx.hi hs) h2c, h2c, hnc, hs⟩, hv⟩⟩
  obtain ⟨a, ha⟩ := child (2*p) (by omega)
  obtain ⟨b, hb⟩ := child (2*p+1) (by omega)
  refine ⟨a, b, ?_, ha, hb⟩
  have hone : (∃ i' ∈ idxs, anc h i' j = 2*p) ∨ (∃ i' ∈ idxs, anc h i' j = 2*p+1) := by
    have : anc h i j = 2*p ∨ anc h i j = 2*p+1 := by omega
    rcases this with e | e
    · exact Or.inl ⟨i, hi, e⟩
    · exact Or.inr ⟨i, hi, e⟩
  simp only [Spec.refVal]
  rcases ha with ⟨_, ha⟩ | ⟨hna, ha, _, ha'⟩ <;> rcases hb with ⟨_, hb⟩ | ⟨hnb, hb, _, hb'⟩
  · simp [ha, hb]
  · simp [ha, hb, hb']
  · simp [ha, hb, ha']
  · rcases hone with ⟨i', hi', e⟩ | ⟨i', hi', e⟩
    · exact absurd e (hna i' hi')
    · exact absurd e (hnb i' hi')
end RefVal

section WellFormed
variable {D : Type} [DecidableEq D] (H : D → D → D)

/-- in a well-formed proof every computable node has a recomputed value -/
theorem refVal_isSome {p : Proof D} (hw : Spec.wellFormed p = true) {i j : Nat} (hi : i ∈ p.leafs.map (·.1))
    (hj : j ≤ p.height) :
    (Spec.refVal H (Spec.leafAt p.height p.leafs) (Spec.authAt p.height (p.leafs.map (·.1)) p.auth) j
      (anc p.height i j)).isSome := by
  rcases tryFrom_spec H p with ⟨_, m', _, inv⟩ | ⟨hw', _⟩
  · obtain ⟨v, _, hv⟩ := inv.1 j hj i hi
    rw [hv]; rfl
  · rw [hw] at hw'; cases hw'

/-- **collision-extracting soundness of the recomputation**: if the value recomputed for a computable node equals the
    node of the tree over the leaf function `f`, every claimed leaf below it is the tree's leaf — or an explicit
    collision of `H` is exhibited -/
theorem refVal_sound {p : Proof D} (hw : Spec.wellFormed p = true) (f : Nat → D) :
    ∀ (j : Nat), j ≤ p.height → ∀ i ∈ p.leafs.map (·.1),
      Spec.refVal H (Spec.leafAt p.height p.leafs) (Spec.authAt p.height (p.leafs.map (·.1)) p.auth) j
        (anc p.height i j) = some (nodeVal H f j (anc p.height i j)) →
      (∀ i' ∈ p.leafs.map (·.1), anc p.height i' j = anc p.height i j →
        Spec.leafAt p.height p.leafs (i' + 2^p.height) = some (f (i' + 2^p.height))) ∨ Collision H
  | 0, _, i, hi, hv => by
    left
    intro i' _ e
    rw [anc_zero, anc_zero] at e
    rw [anc_zero] at hv
    simp only [Spec.refVal, nodeVal] at hv
    rw [e]; exact hv
  | j+1, hj, i, hi, hv => by
    have ctx := fillCtx_of_wellFormed hw
    obtain ⟨a, b, hr, ha, hb⟩ := refVal_parent H ctx (show j < p.height by omega)
      (fun i' hi' => refVal_isSome H hw hi' (by omega)) hi
    rw [hr] at hv
    simp only [nodeVal, Option.some.injEq] at hv
    generalize hP : anc p.height i (j+1) = P at hv ha hb
    by_cases hNe : ¬ (a, b) = (nodeVal H f j (2*P), nodeVal H f j (2*P+1))
    · exact Or.inr ⟨_, _, _, _, hNe, hv⟩
    · have hEq : (a, b) = (nodeVal H f j (2*P), nodeVal H f j (2*P+1)) := Classical.byContradiction hNe
      obtain ⟨ea, eb⟩ := Prod.mk.inj hEq
      -- the two children
      have side : ∀ c v, (c = 2*P ∨ c = 2*P+1) → v = nodeVal H f j c → ChildVal H p.height (p.leafs.map (·.1))
          (Spec.leafAt p.height p.leafs) (Spec.authAt p.height (p.leafs.map (·.1)) p.auth) j c v →
          (∀ i' ∈ p.leafs.map (·.1), anc p.height i' j = c →
            Spec.leafAt p.height p.leafs (i' + 2^p.height) = some (f (i' + 2^p.height))) ∨ Collision H := by
        intro c v _ ev hc
        rcases hc with ⟨⟨i0, hi0, e0⟩, hc⟩ | ⟨hn, _⟩
        · rw [← e0, ev, ← e0] at hc
          rcases refVal_sound hw f j (by omega) i0 hi0 hc with hl | hcol
          · left
            intro i' hi' e'
            exact hl i' hi' (by rw [e', e0])
          · exact Or.inr hcol
        · left
          intro i' hi' e'
          exact absurd e' (hn i' hi')
      rcases side (2*P) a (Or.inl rfl) ea ha with hl | hc
      · rcases side (2*P+1) b (Or.inr rfl) eb hb with hr' | hc
        · left
          intro i' hi' e'
          rw [anc_succ] at e'
          have : anc p.height i' j = 2*P ∨ anc p.height i' j = 2*P+1 := by omega
          rcases this with e'' | e''
          · exact hl i' hi' e''
          · exact hr' i' hi' e''
        · exact Or.inr hc
      · exact Or.inr hc
end WellFormed

/-! ### honest trees -/
section Honest
variable {D : Type} [DecidableEq D] (H : D → D → D)

/-- leaf function of the tree over `ds` by heap index -/
def leafFn (filler : D) (ds : List D) (h : Nat) : Nat → D := fun j => (ds[j - 2^h]?).getD filler

/-- the proof an honest prover produces for `idxs` from the node list `nodes` -/
def honestProof (filler : D) (ds nodes : List D) (h : Nat) (idxs : List Nat) : Proof D :=
  { height := h
    leafs := idxs.map (fun i => (i, leafFn filler ds h (i + 2^h)))
    auth := (Spec.needed h idxs).map (fun k => (nodes[k]?).getD filler) }

theorem lookup_zip_map {g : Nat → D} : ∀ {ks : List Nat} {k : Nat}, k ∈ ks →
    ((ks.zip (ks.map g)).lookup k) = some (g k)
  | [], _, h => by cases h
  | a :: t, k, h => by
    rw [List.map_cons, List.zip_cons_cons, lookup_cons_nat]
    by_cases e : k = a
    · simp [e]
    · simp only [e, if_false]
      rcases List.mem_cons.1 h with e' | h'
      · exact absurd e' e
      · exact lookup_zip_map h'

variable {filler : D} {ds nodes : List D} {h : Nat} {idxs : List Nat}

theorem honest_idxs : (honestProof filler ds nodes h idxs).leafs.map (·.1) = idxs := by
  simp [honestProof, List.map_map, Function.comp_def]

theorem honest_consistent : Spec.consistent (honestProof filler ds nodes h idxs).leafs = true := by
  unfold Spec.consistent honestProof
  simp only [List.all_eq_true, List.mem_map, Bool.or_eq_true, bne_iff_ne, ne_eq, decide_eq_true_eq]
  rintro x ⟨i, _, rfl⟩ y ⟨i', _, rfl⟩
  by_cases e : i = i'
  · right; simp [e]
  · left; exact e

theorem honest_wellFormed (hh : h ≤ 31) (hi : ∀ i ∈ idxs, i < 2^h) :
    Spec.wellFormed (honestProof filler ds nodes h idxs) = true := by
  rw [wellFormed_iff]
  refine ⟨hh, ?_, honest_consistent, ?_⟩
  · intro x hx
    simp only [honestProof, List.mem_map] at hx
    obtain ⟨i, hi', rfl⟩ := hx
    exact hi i hi'
  · rw [honest_idxs]; simp [honestProof]

theorem honest_leafAt {i : Nat} (hi : i ∈ idxs) :
    Spec.leafAt h (honestProof filler ds nodes h idxs).leafs (i + 2^h) = some (leafFn filler ds h (i + 2^h)) := by
  have hc := (consistent_iff (n := 2^h)).2 (honest_consistent (filler := filler) (ds := ds) (nodes := nodes) (h := h) (idxs := idxs))
  have hx : (i, leafFn filler ds h (i + 2^h)) ∈ (honestProof filler ds nodes h idxs).leafs := by
    simp only [honestProof, List.mem_map]
    exact ⟨i, hi, rfl⟩
  exact hc _ hx

theorem honest_authAt {k : Nat} (hk : k ∈ Spec.needed h idxs) :
    Spec.authAt h idxs (honestProof filler ds nodes h idxs).auth k = some ((nodes[k]?).getD filler) := by
  unfold Spec.authAt honestProof
  exact lookup_zip_map hk

/-- **completeness of the recomputation**: from the honest proof every computable node is recomputed to the tree's node -/
theorem honest_refVal (hn : ds.length = 2^h) (hh : h ≤ 31) (hm : Spec.IsMerkleTree H filler ds nodes)
    (hi : ∀ i ∈ idxs, i < 2^h) :
    ∀ (j : Nat), j ≤ h → ∀ i ∈ idxs,
      Spec.refVal H (Spec.leafAt h (honestProof filler ds nodes h idxs).leafs)
        (Spec.authAt h idxs (honestProof filler ds nodes h idxs).auth) j (anc h i j)
        = some (nodeVal H (leafFn filler ds h) j (anc h i j))
  | 0, _, i, hi' => by
    rw [anc_zero]
    simp only [Spec.refVal, nodeVal]
    exact honest_leafAt hi'
  | j+1, hj, i, hi' => by
    have hw := honest_wellFormed (filler := filler) (ds := ds) (nodes := nodes) hh hi
    have ctx : FillCtx h idxs (Spec.leafAt h (honestProof filler ds nodes h idxs).leafs)
        (Spec.authAt h idxs (honestProof filler ds nodes h idxs).auth) := by
      have c := fillCtx_of_wellFormed hw
      rw [honest_idxs] at c
      exact c
    have hsome : ∀ i' ∈ idxs, (Spec.refVal H (Spec.leafAt h (honestProof filler ds nodes h idxs).leafs)
        (Spec.authAt h idxs (honestProof filler ds nodes h idxs).auth) j (anc h i' j)).isSome := by
      intro i' hi''
      rw [honest_refVal hn hh hm hi j (by omega) i' hi'']; rfl
    have hpar := refVal_parent H (h := h) ctx (show j < h by omega) hsome hi'
    obtain ⟨a, b, hr, ha, hb⟩ := hpar
    have rp := anc_range (hi i hi') (show j+1 ≤ h by omega)
    generalize anc h i (j+1) = P at hr ha hb rp ⊢
    have e2 := two_pow_succ (h - (j+1))
    rw [show h - (j+1) + 1 = h - j by omega] at rp e2
    have e3 := two_pow_succ (h - j)
    have side : ∀ c v, (c = 2*P ∨ c = 2*P+1) → ChildVal H h idxs
        (Spec.leafAt h (honestProof filler ds nodes h idxs).leafs)
        (Spec.authAt h idxs (honestProof filler ds nodes h idxs).auth) j c v →
        v = nodeVal H (leafFn filler ds h) j c := by
      intro c v hc hcv
      rcases hcv with ⟨⟨i0, hi0, e0⟩, hv⟩ | ⟨_, _, hmem, hv⟩
      · rw [← e0, honest_refVal hn hh hm hi j (by omega) i0 hi0] at hv
        rw [← e0]; exact (Option.some.inj hv).symm
      · rw [honest_authAt hmem] at hv
        have := merkle_nodeVal H hn hm j c (by omega) (by omega) (by omega)
        rw [this] at hv
        exact (Option.some.inj hv).symm
    rw [hr, nodeVal, side _ a (Or.inl rfl) ha, side _ b (Or.inr rfl) hb]

theorem honest_refRoot (hn : ds.length = 2^h) (hh : h ≤ 31) (hm : Spec.IsMerkleTree H filler ds nodes)
    (hi : ∀ i ∈ idxs, i < 2^h) (hne : idxs ≠ []) :
    Spec.refRoot H (honestProof filler ds nodes h idxs) = some (nodeVal H (leafFn filler ds h) h 1) := by
  obtain ⟨i, hi'⟩ := List.exists_mem_of_ne_nil _ hne
  have := honest_refVal H hn hh hm hi h (Nat.le_refl h) i hi'
  rw [anc_top (hi i hi')] at this
  unfold Spec.refRoot
  rw [honest_idxs]
  exact this
end Honest

end TF.Merkle
