import TF.Model.Lattice
import TF.Proofs.NttModel
/-!
Helper lemmas for C18: the ψ tables (decided in the kernel), the KEM's accept condition, the ciphertext/array
conversion, coefficient-wise ring operations.
-/
namespace TF.LatticeProofs
open TF.Gen TF.Model.Lattice TF.NttFn

/-- `a^e mod P`, structural in `e` (evaluates in the kernel) -/
def powS (a : Nat) : Nat → Nat
  | 0 => 1 % P
  | e+1 => powS a e * a % P

theorem powS_eq (a e : Nat) : powS a e = a^e % P := by
  induction e with
  | zero => simp [powS]
  | succ e ih => rw [powS, ih, pow_succ, Nat.mod_mul_mod]

/-- the generator the tables are built from: entry `bitrev 6 1 = 32` of the first table -/
def psiGen : Nat := PSI_POWERS_BITREVERSED.getD 32 0

/-- whole-table check -/
def tablesOk : Bool :=
  PSI_POWERS_BITREVERSED.length == 64 && PSI_INV_POWERS_BITREVERSED.length == 64 &&
  powS psiGen 64 == P - 1 &&
  (List.range 64).all (fun k =>
    let a := PSI_POWERS_BITREVERSED.getD k 0
    let b := PSI_INV_POWERS_BITREVERSED.getD k 0
    decide (a < P) && decide (b < P) && a == powS psiGen (bitrev 6 k) && a * b % P == 1) &&
  decide (LATTICE_N_INV < P) && LATTICE_N_INV * LATTICE_N % P == 1 && LATTICE_N == 64

theorem tablesOk_true : tablesOk = true := by decide +kernel

theorem tables_spec :
    PSI_POWERS_BITREVERSED.length = 64 ∧ PSI_INV_POWERS_BITREVERSED.length = 64 ∧
    psiGen^64 % P = P - 1 ∧
    (∀ k, k < 64 →
      PSI_POWERS_BITREVERSED.getD k 0 < P ∧ PSI_INV_POWERS_BITREVERSED.getD k 0 < P ∧
      PSI_POWERS_BITREVERSED.getD k 0 = psiGen^(bitrev 6 k) % P ∧
      PSI_POWERS_BITREVERSED.getD k 0 * PSI_INV_POWERS_BITREVERSED.getD k 0 % P = 1) ∧
    LATTICE_N_INV < P ∧ LATTICE_N_INV * LATTICE_N % P = 1 ∧ LATTICE_N = 64 := by
  have h := tablesOk_true
  simp only [tablesOk, Bool.and_eq_true, beq_iff_eq, decide_eq_true_eq, List.all_eq_true, List.mem_range] at h
  obtain ⟨⟨⟨⟨⟨⟨h1, h2⟩, h3⟩, h4⟩, h5⟩, h6⟩, h7⟩ := h
  refine ⟨h1, h2, by rw [← powS_eq]; exact h3, ?_, h5, h6, h7⟩
  intro k hk
  obtain ⟨⟨⟨a, b⟩, c⟩, d⟩ := h4 k hk
  exact ⟨a, b, by rw [← powS_eq]; exact c, d⟩

/-! ### coefficient-wise operations -/

theorem ringZip_get (f : Nat → Nat → Nat) (a b : Ring) (i : Nat) (hi : i < 64) :
    (ringZip f a b).getD i 0 = f (a.getD i 0) (b.getD i 0) := by
  simp [ringZip, Array.getD_eq_getD_getElem?, Array.getElem?_ofFn, hi]

theorem ringZip_size (f : Nat → Nat → Nat) (a b : Ring) : (ringZip f a b).size = 64 := by simp [ringZip]

/-! ### the accept condition of `dec` -/

theorem dec_unfold (O : Oracles) (sk : SecretKey) (c : Ciphertext) :
    dec O sk c = if generateCiphertext O (derivePublicKey O sk.key sk.seed) (decPayload O sk c) = c
      then some (O.hash (decPayload O sk c)) else none := rfl

theorem dec_eq_some_iff (O : Oracles) (sk : SecretKey) (c : Ciphertext) (k : List Nat) :
    dec O sk c = some k ↔
      c = generateCiphertext O (derivePublicKey O sk.key sk.seed) (decPayload O sk c) ∧
      k = O.hash (decPayload O sk c) := by
  rw [dec_unfold]
  by_cases h : generateCiphertext O (derivePublicKey O sk.key sk.seed) (decPayload O sk c) = c
  · rw [if_pos h]
    constructor
    · intro hk; exact ⟨h.symm, (Option.some.inj hk).symm⟩
    · rintro ⟨_, hk⟩; rw [hk]
  · rw [if_neg h]
    constructor
    · intro hk; cases hk
    · rintro ⟨hc, _⟩; exact absurd hc.symm h

theorem dec_eq_none_iff (O : Oracles) (sk : SecretKey) (c : Ciphertext) :
    dec O sk c = none ↔
      c ≠ generateCiphertext O (derivePublicKey O sk.key sk.seed) (decPayload O sk c) := by
  rw [dec_unfold]
  by_cases h : generateCiphertext O (derivePublicKey O sk.key sk.seed) (decPayload O sk c) = c
  · rw [if_pos h]
    constructor
    · intro hk; cases hk
    · intro hne; exact absurd h.symm hne
  · rw [if_neg h]; simp only [true_iff]; exact fun hc => h hc.symm

end TF.LatticeProofs
