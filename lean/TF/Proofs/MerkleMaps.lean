import TF.Proofs.MerkleAuth
/-! node maps, `try_from`'s base map, the level-by-level invariant of `fill` -/
set_option linter.unusedSectionVars false
namespace TF.Merkle
open TF.Gen

section Maps
variable {D : Type}

theorem lookup_cons_nat {k a : Nat} {b : D} {t : List (Nat × D)} :
    List.lookup k ((a, b) :: t) = if k = a then some b else List.lookup k t := by
  simp only [List.lookup_cons]
  by_cases h : k = a
  · simp [h]
  · have : (k == a) = false := by simp [h]
    simp [this, h]

@[simp] theorem NodeMap.get_insert {m : NodeMap D} {k a : Nat} {v : D} :
    (m.insert a v).get k = if k = a then some v else m.get k := by
  simp [NodeMap.get, NodeMap.insert, lookup_cons_nat]

theorem lookup_some_iff : ∀ {l : List (Nat × D)}, (l.map (·.1)).Pairwise (· ≠ ·) → ∀ {k : Nat} {v : D},
    (l.lookup k = some v ↔ (k, v) ∈ l)
  | [], _, k, v => by simp
  | (a, b) :: t, hn, k, v => by
    simp only [List.map_cons, List.pairwise_cons, List.mem_map] at hn
    rw [lookup_cons_nat]
    by_cases h : k = a
    · subst h
      simp only [if_true, Option.some.injEq, List.mem_cons, Prod.mk.injEq, true_and]
      constructor
      · intro e; exact Or.inl e.symm
      · rintro (e | hm)
        · exact e.symm
        · exact absurd rfl (hn.1 k ⟨(k, v), hm, rfl⟩)
    · simp only [h, if_false, List.mem_cons, Prod.mk.injEq, false_and, false_or]
      exact lookup_some_iff hn.2

theorem lookup_none_iff : ∀ {l : List (Nat × D)} {k : Nat}, (l.lookup k = none ↔ k ∉ l.map (·.1))
  | [], k => by simp
  | (a, b) :: t, k => by
    rw [lookup_cons_nat]
    by_cases h : k = a
    · simp [h]
    · simp only [h, if_false, List.map_cons, List.mem_cons, false_or]
      exact lookup_none_iff

theorem lookup_reverse {l : List (Nat × D)} (hn : (l.map (·.1)).Pairwise (· ≠ ·)) (k : Nat) :
    l.reverse.lookup k = l.lookup k := by
  have hn' : (l.reverse.map (·.1)).Pairwise (· ≠ ·) := by
    rw [List.map_reverse, List.pairwise_reverse]
    exact hn.imp (fun h => h.symm)
  cases hl : l.lookup k with
  | none =>
    rw [lookup_none_iff] at hl ⊢
    simpa using hl
  | some v =>
    rw [lookup_some_iff hn] at hl
    rw [lookup_some_iff hn']
    simpa using hl

theorem foldl_insert_eq (l : List (Nat × D)) (acc : NodeMap D) :
    l.foldl (fun m kv => NodeMap.insert m kv.1 kv.2) acc = l.reverse ++ acc := by
  induction l generalizing acc with
  | nil => rfl
  | cons x xs ih => rw [List.foldl_cons, ih]; simp [NodeMap.insert]

/-- `zip_eq().collect::<HashMap>()` of pairwise distinct keys is the association itself -/
theorem collectMap_get {ks : List Nat} {vs : List D} (hl : ks.length = vs.length) (hn : ks.Pairwise (· ≠ ·)) :
    ∃ m, collectMap ks vs = .ok m ∧ ∀ k, m.get k = (ks.zip vs).lookup k := by
  refine ⟨(ks.zip vs).reverse, by simp [collectMap, hl, foldl_insert_eq], ?_⟩
  intro k
  apply lookup_reverse
  have : (ks.zip vs).map (·.1) = ks := by
    rw [List.map_fst_zip]; omega
  rw [this]; exact hn

theorem lookup_zip_none {ks : List Nat} {vs : List D} {k : Nat} (h : k ∉ ks) : (ks.zip vs).lookup k = none := by
  rw [lookup_none_iff]
  intro hm
  apply h
  obtain ⟨x, hx, rfl⟩ := List.mem_map.1 hm
  exact (List.of_mem_zip hx).1

theorem lookup_zip_some : ∀ {ks : List Nat} {vs : List D} {k : Nat}, k ∈ ks → ks.length ≤ vs.length →
    ((ks.zip vs).lookup k).isSome
  | [], _, _, h, _ => by cases h
  | a :: t, [], _, _, hl => by simp at hl
  | a :: t, v :: vs, k, h, hl => by
    rw [List.zip_cons_cons, lookup_cons_nat]
    by_cases e : k = a
    · simp [e]
    · simp only [e, if_false]
      rcases List.mem_cons.1 h with e' | h'
      · exact absurd e' e
      · exact lookup_zip_some h' (by simpa using hl)
end Maps

/-! ### `Vec::dedup` on sorted vectors -/

theorem mem_dedupAdj {a : Nat} : ∀ {l : List Nat}, a ∈ dedupAdj l ↔ a ∈ l
  | [] => by simp [dedupAdj]
  | [x] => by simp [dedupAdj]
  | x :: y :: ys => by
    have ih := mem_dedupAdj (a := a) (l := y :: ys)
    unfold dedupAdj
    split
    · subst_vars; rw [ih]; simp
    · rw [List.mem_cons, ih]; simp

theorem sorted_dedupAdj : ∀ {l : List Nat}, l.Pairwise (· ≤ ·) → (dedupAdj l).Pairwise (· < ·)
  | [], _ => by simp [dedupAdj]
  | [x], _ => by simp [dedupAdj]
  | x :: y :: ys, h => by
    have ⟨h1, h2⟩ := List.pairwise_cons.1 h
    have ih := sorted_dedupAdj h2
    unfold dedupAdj
    split
    · exact ih
    · rename_i hne
      refine List.pairwise_cons.2 ⟨?_, ih⟩
      intro a ha
      rw [mem_dedupAdj] at ha
      have hxy := h1 y (List.mem_cons_self ..)
      have ⟨h3, _⟩ := List.pairwise_cons.1 h2
      rcases List.mem_cons.1 ha with rfl | ha
      · omega
      · have := h3 a ha; omega

theorem sorted_moveUp {l : List Nat} (h : l.Pairwise (· < ·)) : (moveUp l).Pairwise (· < ·) := by
  unfold moveUp
  apply sorted_dedupAdj
  rw [List.pairwise_map]
  exact h.imp (fun {a b} hab => by omega)

theorem mem_moveUp {l : List Nat} {p : Nat} : p ∈ moveUp l ↔ ∃ q ∈ l, q / 2 = p := by
  simp [moveUp, mem_dedupAdj]

/-! ### the leaf loop of `try_from` -/
section LeafLoop
variable {D : Type} [DecidableEq D]

/-- first digest claimed for the leaf whose node index is `k` (`n` = number of leafs) -/
def leafAtN (n : Nat) (leafs : List (Nat × D)) (k : Nat) : Option D :=
  (leafs.find? (fun x => x.1 + n == k)).map (·.2)

theorem leafAt_eq (h : Nat) (leafs : List (Nat × D)) : Spec.leafAt h leafs = leafAtN (2^h) leafs := rfl

theorem leafAtN_cons {n : Nat} {x : Nat × D} {t : List (Nat × D)} {k : Nat} :
    leafAtN n (x :: t) k = if x.1 + n = k then some x.2 else leafAtN n t k := by
  unfold leafAtN
  rw [List.find?_cons]
  by_cases h : x.1 + n = k
  · simp [h]
  · have : (x.1 + n == k) = false := by simp [h]
    simp [this, h]

/-- content of the map after the leaf loop: what was there, else the first claim -/
def mergeVal (n : Nat) (m : NodeMap D) (leafs : List (Nat × D)) (k : Nat) : Option D :=
  match m.get k with
  | some v => some v
  | none => leafAtN n leafs k

theorem foldl_insertLeaf {n : Nat} : ∀ (leafs : List (Nat × D)) (m : NodeMap D), (∀ x ∈ leafs, x.1 + n < USIZE) →
    (∃ m', Res.foldlM (insertLeaf n) m leafs = .ok m' ∧ (∀ k, m'.get k = mergeVal n m leafs k)
        ∧ (∀ x ∈ leafs, mergeVal n m leafs (x.1 + n) = some x.2))
    ∨ (Res.foldlM (insertLeaf n) m leafs = .err .repeatedLeafDigestMismatch
        ∧ ¬ (∀ x ∈ leafs, mergeVal n m leafs (x.1 + n) = some x.2))
  | [], m, _ => by
    left
    refine ⟨m, rfl, ?_, by simp⟩
    intro k
    unfold mergeVal leafAtN
    cases m.get k <;> simp
  | x :: t, m, hb => by
    have hx := hb x (List.mem_cons_self ..)
    have ht : ∀ y ∈ t, y.1 + n < USIZE := fun y hy => hb y (List.mem_cons_of_mem _ hy)
    simp only [Res.foldlM, insertLeaf, cadd, hx, if_true, Res.ok_bind]
    cases hg : m.get (x.1 + n) with
    | some d =>
      by_cases hd : d = x.2
      · -- nothing inserted
        subst hd
        simp only [if_true, Res.ok_bind]
        have key : ∀ k, mergeVal n m (x :: t) k = mergeVal n m t k := by
          intro k
          unfold mergeVal
          cases hk : m.get k with
          | some v => rfl
          | none =>
            simp only [leafAtN_cons]
            have : x.1 + n ≠ k := by intro e; rw [e] at hg; rw [hg] at hk; cases hk
            simp [this]
        rcases foldl_insertLeaf t m ht with ⟨m', h1, h2, h3⟩ | ⟨h1, h3⟩
        · left
          refine ⟨m', h1, fun k => by rw [h2, key], ?_⟩
          intro y hy
          rcases List.mem_cons.1 hy with rfl | hy
          · unfold mergeVal; rw [hg]
          · rw [key]; exact h3 y hy
        · right
          refine ⟨h1, ?_⟩
          intro hall
          apply h3
          intro y hy
          rw [← key]; exact hall y (List.mem_cons_of_mem _ hy)
      · right
        simp only [hd, if_false, Res.err_bind, true_and]
        intro hall
        have := hall x (List.mem_cons_self ..)
        unfold mergeVal at this
        rw [hg] at this
        exact hd (Option.some.inj this)
    | none =>
      simp only [Res.ok_bind]
      have key : ∀ k, mergeVal n (m.insert (x.1 + n) x.2) t k = mergeVal n m (x :: t) k := by
        intro k
        unfold mergeVal
        rw [NodeMap.get_insert, leafAtN_cons]
        by_cases hk : k = x.1 + n
        · subst hk; simp [hg]
        · have hk' : x.1 + n ≠ k := fun e => hk e.symm
          simp [hk, hk']
      rcases foldl_insertLeaf t (m.insert (x.1 + n) x.2) ht with ⟨m', h1, h2, h3⟩ | ⟨h1, h3⟩
      · left
        refine ⟨m', h1, fun k => by rw [h2, key], ?_⟩
        intro y hy
        rcases List.mem_cons.1 hy with rfl | hy
        · unfold mergeVal; rw [hg, leafAtN_cons]; simp
        · rw [← key]; exact h3 y hy
      · right
        refine ⟨h1, ?_⟩
        intro hall
        apply h3
        intro y hy
        rw [key]; exact hall y (List.mem_cons_of_mem _ hy)

theorem leafAtN_isSome {n : Nat} {leafs : List (Nat × D)} {i : Nat} (hi : i ∈ leafs.map (·.1)) :
    (leafAtN n leafs (i + n)).isSome := by
  obtain ⟨x, hx, rfl⟩ := List.mem_map.1 hi
  unfold leafAtN
  rw [Option.isSome_map, List.find?_isSome]
  exact ⟨x, hx, by simp⟩

theorem leafAtN_none {n : Nat} {leafs : List (Nat × D)} {k : Nat} (hk : ∀ i ∈ leafs.map (·.1), i + n ≠ k) :
    leafAtN n leafs k = none := by
  unfold leafAtN
  rw [Option.map_eq_none_iff, List.find?_eq_none]
  intro x hx
  have := hk x.1 (List.mem_map.2 ⟨x, hx, rfl⟩)
  simpa using this

/-- all claims agree with the first claim of their index iff repeated indices carry equal digests -/
theorem consistent_iff {n : Nat} {leafs : List (Nat × D)} :
    (∀ x ∈ leafs, leafAtN n leafs (x.1 + n) = some x.2) ↔ Spec.consistent leafs = true := by
  unfold Spec.consistent leafAtN
  simp only [List.all_eq_true, Bool.or_eq_true, bne_iff_ne, ne_eq, decide_eq_true_eq]
  constructor
  · intro h x hx y hy
    by_cases e : x.1 = y.1
    · right
      have h1 := h x hx
      have h2 := h y hy
      rw [e] at h1
      rw [h1] at h2
      exact Option.some.inj h2
    · left; exact e
  · intro h x hx
    cases hf : leafs.find? (fun y => y.1 + n == x.1 + n) with
    | none =>
      rw [List.find?_eq_none] at hf
      have := hf x hx
      simp at this
    | some y =>
      have hy := List.mem_of_find?_eq_some hf
      have hp := List.find?_some hf
      simp only [beq_iff_eq] at hp
      have e : y.1 = x.1 := by omega
      rcases h y hy x hx with h' | h'
      · exact absurd e h'
      · simp [h']
end LeafLoop

end TF.Merkle
