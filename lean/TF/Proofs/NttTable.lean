import TF.Model.Ntt
import TF.Proofs.Prime
import Mathlib.GroupTheory.OrderOfElement
import Mathlib.Data.ZMod.Basic
/-!
The translated table `TF.Gen.PRIMITIVE_ROOTS` (regenerated from `b_field_element.rs` on every run):
whole-table check in the kernel with an executable modular power, lifted to statements in `ZMod P`.
-/
namespace TF.NttProofs
open TF.Gen TF.Model.Ntt

/-- `r^(2^k) mod P` by `k` modular squarings (structural recursion, evaluates in the kernel) -/
def sqMod (r : Nat) : Nat → Nat
  | 0 => r % P
  | k+1 => sqMod (r * r % P) k

theorem sqMod_eq (r k : Nat) : sqMod r k = r^(2^k) % P := by
  induction k generalizing r with
  | zero => simp [sqMod]
  | succ k ih =>
    rw [sqMod, ih, pow_succ, Nat.mul_comm (2^k) 2, pow_mul, ← Nat.pow_mod, pow_two]

/-- the expected shape of the table from position `k` on: `(2^k, r)` with `r` canonical and
    `r = 1` for `k = 0`, `r^(2^(k-1)) = P - 1` for `k ≥ 1` -/
def checkFrom : Nat → List (Nat × Nat) → Bool
  | _, [] => true
  | k, (n, r) :: rest =>
    n == 2^k && decide (r < P) && (if k = 0 then r == 1 else sqMod r (k-1) == P - 1) && checkFrom (k+1) rest

/-- the whole table, decided by the kernel -/
theorem table_shape :
    ∃ tl, PRIMITIVE_ROOTS = (0, 1) :: tl ∧ tl.length = 33 ∧ checkFrom 0 tl = true :=
  ⟨PRIMITIVE_ROOTS.tail, by decide +kernel, by decide +kernel, by decide +kernel⟩

theorem checkFrom_mem : ∀ (l : List (Nat × Nat)) (k : Nat), checkFrom k l = true → ∀ e ∈ l,
    ∃ j, k ≤ j ∧ j < k + l.length ∧ e.1 = 2^j ∧ e.2 < P ∧
      (if j = 0 then e.2 = 1 else e.2^(2^(j-1)) % P = P - 1) := by
  intro l
  induction l with
  | nil => intro k _ e he; cases he
  | cons hd tl ih =>
    intro k h e he
    obtain ⟨n, r⟩ := hd
    simp only [checkFrom, Bool.and_eq_true, beq_iff_eq, decide_eq_true_eq] at h
    obtain ⟨⟨⟨h1, h2⟩, h3⟩, h4⟩ := h
    rcases List.mem_cons.1 he with rfl | he
    · refine ⟨k, le_refl _, by simp, h1, h2, ?_⟩
      by_cases hk : k = 0
      · simpa [hk] using h3
      · simp only [hk, if_false] at h3 ⊢
        rw [← sqMod_eq]; simpa using h3
    · obtain ⟨j, hj1, hj2, hj3⟩ := ih (k+1) h4 e he
      exact ⟨j, by omega, by simp; omega, hj3⟩

/-- every entry `(n, r)` of the table: `n = 0` and `r = 1`, or `n = 2^k` with `k ≤ 32`, `r` canonical,
    `r = 1` for `k = 0` and `r^(n/2) ≡ -1 (mod P)` for `k ≥ 1` -/
theorem table_entries (n r : Nat) (h : (n, r) ∈ PRIMITIVE_ROOTS) :
    (n = 0 ∧ r = 1) ∨ ∃ k, k ≤ 32 ∧ n = 2^k ∧ r < P ∧
      (if k = 0 then r = 1 else r^(2^(k-1)) % P = P - 1) := by
  obtain ⟨tl, htl, hlen, hck⟩ := table_shape
  rw [htl] at h
  rcases List.mem_cons.1 h with h | h
  · left; simpa using h
  · right
    obtain ⟨j, _, hj2, hj3⟩ := checkFrom_mem tl 0 hck (n, r) h
    exact ⟨j, by omega, hj3⟩

/-- lookup form: for every `L ≤ 32` the table has a root for `2^L`, with the same properties -/
def lookupOk (L : Nat) : Bool :=
  match primitiveRoot (2^L) with
  | some r => decide (r < P) && decide (0 < r) && (if L = 0 then r == 1 else sqMod r (L-1) == P - 1)
  | none => false

theorem lookup_all : ∀ L, L < 33 → lookupOk L = true := by decide +kernel

theorem lookup_zero : primitiveRoot 0 = some 1 := by decide +kernel

theorem primitiveRoot_pow2 (L : Nat) (hL : L ≤ 32) :
    ∃ r, primitiveRoot (2^L) = some r ∧ 0 < r ∧ r < P ∧ (if L = 0 then r = 1 else r^(2^(L-1)) % P = P - 1) := by
  have h := lookup_all L (by omega)
  unfold lookupOk at h
  split at h
  · rename_i r hr
    simp only [Bool.and_eq_true, decide_eq_true_eq] at h
    refine ⟨r, hr, h.1.2, h.1.1, ?_⟩
    by_cases hk : L = 0
    · simpa [hk] using h.2
    · have h2 := h.2
      simp only [hk, if_false] at h2 ⊢
      rw [← sqMod_eq]; simpa using h2
  · cases h

/-- lookups only ever return table entries -/
theorem rootTable_mem : ∀ (l : List (Nat × Nat)) (n r : Nat), rootTable l n = some r → (n, r) ∈ l := by
  intro l
  induction l with
  | nil => intro n r h; cases h
  | cons hd tl ih =>
    intro n r h
    obtain ⟨k, v⟩ := hd
    simp only [rootTable] at h
    split at h
    · rename_i hk
      simp only [beq_iff_eq] at hk
      simp only [Option.some.injEq] at h
      subst hk; subst h; exact List.mem_cons_self
    · exact List.mem_cons_of_mem _ (ih n r h)

theorem primitiveRoot_mem (n r : Nat) (h : primitiveRoot n = some r) : (n, r) ∈ PRIMITIVE_ROOTS := by
  unfold primitiveRoot at h
  split at h
  · cases h
  · exact rootTable_mem _ _ _ h

/-! ### in `ZMod P` -/

theorem P_pos : 0 < P := by decide
theorem two_lt_P : 2 < P := by decide

theorem cast_pred_P : ((P - 1 : ℕ) : ZMod P) = -1 := by
  rw [Nat.cast_sub (by decide : 1 ≤ P)]
  simp

theorem neg_one_ne_one_zmod : (-1 : ZMod P) ≠ 1 := by
  intro h
  have h2 : ((2 : ℕ) : ZMod P) = 0 := by
    have h3 : (-1 : ZMod P) + 1 = 1 + 1 := by rw [h]
    rw [neg_add_cancel] at h3
    rw [h3]; norm_num
  rw [ZMod.natCast_eq_zero_iff] at h2
  have := Nat.le_of_dvd (by norm_num) h2
  have := two_lt_P
  omega

theorem cast_pow_eq_neg_one (r e : Nat) (h : r^e % P = P - 1) : ((r : ℕ) : ZMod P)^e = -1 := by
  rw [← Nat.cast_pow, ← ZMod.natCast_mod, h, cast_pred_P]

/-- an element of `ZMod P` whose `2^(k-1)`-th power is `-1` has order exactly `2^k` -/
theorem orderOf_of_half_pow (x : ZMod P) (k : Nat) (hk : 0 < k) (h : x^(2^(k-1)) = -1) : orderOf x = 2^k := by
  obtain ⟨j, rfl⟩ : ∃ j, k = j + 1 := ⟨k - 1, by omega⟩
  simp only [Nat.add_sub_cancel] at h
  apply orderOf_eq_prime_pow
  · rw [h]; exact neg_one_ne_one_zmod
  · rw [pow_succ, pow_mul, h]; norm_num

end TF.NttProofs
