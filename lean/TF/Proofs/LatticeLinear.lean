import TF.Proofs.LatticeFinal
/-!
Additivity of the inverse coset transform (naturality with respect to `(a, b) ↦ a + b` on the product), the identity
`intt64 ∘ ntt64 = id`, and the agreement of the module-multiplication strategies.
-/
namespace TF.LatticeProofs
open TF.Gen TF.Model.Ntt TF.Model.Lattice TF.NttFn TF.LatFn TF.NttProofs TF.Spec

theorem cosetInttLoop_size {σ α : Type} (ops : Ops σ α) (psiInv : Array σ) : ∀ f t h (x : Array α),
    (cosetInttLoop ops psiInv f t h x).size = x.size := by
  intro f
  induction f with
  | zero => intro t h x; rfl
  | succ f ih => intro t h x; rw [cosetInttLoop, ih]; simp [cosetInttStage]

theorem cosetIntt_size {σ α : Type} (ops : Ops σ α) (psiInv : Array σ) (ninv : σ) (x : Array α) :
    (cosetIntt ops psiInv ninv x).size = x.size := by
  simp [cosetIntt, cosetInttLoop_size]

section prod
variable {R : Type} [CommRing R] (inv : R → Option R) (inv0 : R → R)

/-- the ring operations acting on pairs -/
def prodOps (R : Type) [CommRing R] (inv : R → Option R) (inv0 : R → R) : Ops R (R × R) where
  szero := 0
  sone := 1
  smul := (· * ·)
  spow := (· ^ ·)
  sinv := inv
  sinv0 := inv0
  sofNat := fun n => (n : R)
  zero := (0, 0)
  add := fun p q => (p.1 + q.1, p.2 + q.2)
  sub := fun p q => (p.1 - q.1, p.2 - q.2)
  scale := fun c p => (c * p.1, c * p.2)

theorem fstHom : OpsHom (prodOps R inv inv0) (ringOps R inv inv0) id Prod.fst where
  szero := rfl
  sone := rfl
  smul := fun _ _ => rfl
  spow := fun _ _ => rfl
  sinv := fun a => by simp [prodOps, ringOps]
  sinv0 := fun _ => rfl
  sofNat := fun _ => rfl
  zero := rfl
  add := fun _ _ => rfl
  sub := fun _ _ => rfl
  scale := fun _ _ => rfl

theorem sndHom : OpsHom (prodOps R inv inv0) (ringOps R inv inv0) id Prod.snd where
  szero := rfl
  sone := rfl
  smul := fun _ _ => rfl
  spow := fun _ _ => rfl
  sinv := fun a => by simp [prodOps, ringOps]
  sinv0 := fun _ => rfl
  sofNat := fun _ => rfl
  zero := rfl
  add := fun _ _ => rfl
  sub := fun _ _ => rfl
  scale := fun _ _ => rfl

theorem sumHom : OpsHom (prodOps R inv inv0) (ringOps R inv inv0) id (fun p : R × R => p.1 + p.2) where
  szero := rfl
  sone := rfl
  smul := fun _ _ => rfl
  spow := fun _ _ => rfl
  sinv := fun a => by simp [prodOps, ringOps]
  sinv0 := fun _ => rfl
  sofNat := fun _ => rfl
  zero := by simp [prodOps, ringOps]
  add := fun p q => by simp only [prodOps, ringOps]; ring
  sub := fun p q => by simp only [prodOps, ringOps]; ring
  scale := fun c p => by simp only [prodOps, ringOps, id]; ring

/-- the inverse coset transform is additive -/
theorem cosetIntt_add (psiInv : Array R) (ninv : R) (x y : Array R) (hx : x.size = 64) (hy : y.size = 64) :
    cosetIntt (ringOps R inv inv0) psiInv ninv (zipR (· + ·) x y)
      = zipR (· + ·) (cosetIntt (ringOps R inv inv0) psiInv ninv x) (cosetIntt (ringOps R inv inv0) psiInv ninv y) := by
  let z : Array (R × R) := Array.ofFn (n := 64) fun i => (toFn x i.val, toFn y i.val)
  have hz1 : z.map Prod.fst = x := by
    apply Array.ext (by simp [z, hx])
    intro i h1 h2
    simp [z, toFn, Array.getD_eq_getD_getElem?, h2]
  have hz2 : z.map Prod.snd = y := by
    apply Array.ext (by simp [z, hy])
    intro i h1 h2
    simp [z, toFn, Array.getD_eq_getD_getElem?, h2]
  have hz3 : z.map (fun p : R × R => p.1 + p.2) = zipR (· + ·) x y := by
    apply Array.ext (by simp [z, zipR])
    intro i h1 h2
    simp [z, zipR]
  have h1 := cosetIntt_map (fstHom inv inv0) psiInv ninv z
  have h2 := cosetIntt_map (sndHom inv inv0) psiInv ninv z
  have h3 := cosetIntt_map (sumHom inv inv0) psiInv ninv z
  simp only [Array.map_id_fun, id_eq] at h1 h2 h3
  rw [hz1] at h1; rw [hz2] at h2; rw [hz3] at h3
  rw [← h3, ← h1, ← h2]
  have hs : (cosetIntt (prodOps R inv inv0) psiInv ninv z).size = 64 := by
    have := congrArg Array.size h1
    simp only [Array.size_map] at this
    rw [this, cosetIntt_size, hx]
  apply Array.ext (by simp [zipR, hs])
  intro i h1' h2'
  have hi : i < 64 := by simpa [zipR] using h2'
  simp [zipR, toFn, Array.getD_eq_getD_getElem?, hs, hi]

end prod

/-! ### on canonical values -/

theorem ntt64_size (x : Ring) (hx : x.size = 64) : (ntt64 x).size = 64 := by
  have := cosetNtt_size zinv zinv0 zpsi (x.map (fun n : Nat => (n : ZMod P))) (by simpa using hx)
  have h := cosetNtt_map castHom psi x
  have hs := congrArg Array.size h
  simp only [Array.size_map] at hs
  rw [ntt64, hs]; exact this

theorem intt64_size (x : Ring) (hx : x.size = 64) : (intt64 x).size = 64 := by
  rw [intt64, cosetIntt_size, hx]

theorem intt64_canon (x : Ring) (i : Nat) (h : i < (intt64 x).size) : (intt64 x)[i] < P := by
  simp only [intt64, cosetIntt, Array.getElem_map]
  exact Nat.mod_lt _ P_pos

theorem ringZip_canon (f : Nat → Nat → Nat) (hf : ∀ a b, f a b < P) (a b : Ring) (i : Nat)
    (h : i < (ringZip f a b).size) : (ringZip f a b)[i] < P := by
  simp only [ringZip, Array.getElem_ofFn]; exact hf _ _

/-- `intt64 (ntt64 x) = x` on canonical values (in general: `x` reduced modulo `P`) -/
theorem intt64_ntt64 (x : Ring) (hx : x.size = 64) : intt64 (ntt64 x) = x.map (· % P) := by
  apply eq_of_map_cast_eq
  · exact intt64_canon _
  · intro i h; simp only [Array.getElem_map]; exact Nat.mod_lt _ P_pos
  · simp only [intt64, ntt64]
    rw [cosetIntt_map castHom, cosetNtt_map castHom]
    have := cosetIntt_cosetNtt zinv zinv0 zpsi zpsiInv ((LATTICE_N_INV : ℕ) : ZMod P) tables_zmod
      (x.map (fun n : Nat => (n : ZMod P))) (by simpa using hx)
    rw [show psi.map (fun n : Nat => (n : ZMod P)) = zpsi from rfl,
      show psiInv.map (fun n : Nat => (n : ZMod P)) = zpsiInv from rfl]
    change cosetIntt zOps zpsiInv _ (cosetNtt zOps zpsi _) = _
    rw [this]
    apply Array.ext (by simp)
    intro i h1 h2
    simp [ZMod.natCast_mod]

/-- `intt64` is additive on canonical values -/
theorem intt64_add (x y : Ring) (hx : x.size = 64) (hy : y.size = 64) :
    intt64 (ringAdd x y) = ringAdd (intt64 x) (intt64 y) := by
  apply eq_of_map_cast_eq
  · exact intt64_canon _
  · exact ringZip_canon _ (fun _ _ => Nat.mod_lt _ P_pos) _ _
  · simp only [ringAdd]
    rw [ringZip_map_cast fadd (· + ·) cast_fadd]
    simp only [intt64]
    rw [cosetIntt_map castHom, cosetIntt_map castHom, cosetIntt_map castHom,
      ringZip_map_cast fadd (· + ·) cast_fadd]
    exact cosetIntt_add zinv zinv0 _ _ _ _ (by simpa using hx) (by simpa using hy)

theorem intt64_zero : intt64 ringZero = ringZero := by decide +kernel

end TF.LatticeProofs
