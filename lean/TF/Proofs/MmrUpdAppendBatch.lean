import TF.Proofs.MmrUpdAppend
/-!
Helper lemmas for C05: `MmrMembershipProof::batch_update_from_append` on from-scratch paths (any list of leaf indices)
returns the from-scratch paths of the longer range and reports exactly the changed slots.
-/
namespace TF.MmrE.UpdAppend
open TF TF.Gen TF.Model.Mmr TF.Model.MmrE TF.Spec.MmrE

/-- positions (counted from `s`) of the list elements satisfying `p` -/
def chgFrom (p : Nat → Bool) : List Nat → Nat → List Nat
  | [], _ => []
  | li :: lis, s => if p li then s :: chgFrom p lis (s + 1) else chgFrom p lis (s + 1)

theorem chgFrom_eq (p : Nat → Bool) : ∀ (lis : List Nat) (s : Nat),
    chgFrom p lis s = ((List.range lis.length).filter fun k => p (lis.getD k 0)).map (· + s) := by
  intro lis
  induction lis with
  | nil => intro s; simp [chgFrom]
  | cons li lis ih =>
    intro s
    rw [chgFrom, ih (s + 1), List.length_cons, List.range_succ_eq_map, List.filter_cons]
    have h0 : (li :: lis).getD 0 0 = li := rfl
    have htail : (List.filter (fun k => p ((li :: lis).getD k 0)) (List.map Nat.succ (List.range lis.length))).map (· + s)
        = (List.filter (fun k => p (lis.getD k 0)) (List.range lis.length)).map (· + (s + 1)) := by
      rw [List.filter_map, List.map_map]
      apply congrArg₂ _ _ rfl
      · funext k; simp only [Function.comp, Nat.succ_eq_add_one]; omega
    rw [h0]
    by_cases hp : p li = true
    · simp only [hp, if_true, List.map_cons, Nat.zero_add]
      rw [htail]
    · simp only [hp, Bool.false_eq_true, if_false]
      rw [htail]

theorem chgFrom_nil (p : Nat → Bool) : ∀ (lis : List Nat) (s : Nat), (∀ i ∈ lis, p i = false) → chgFrom p lis s = [] := by
  intro lis
  induction lis with
  | nil => intro s _; rfl
  | cons li lis ih =>
    intro s h
    rw [chgFrom, h li (by simp), ih (s + 1) (fun i hi => h i (by simp [hi]))]
    simp

theorem chgFrom_zero (p : Nat → Bool) (lis : List Nat) :
    chgFrom p lis 0 = (List.range lis.length).filter fun k => p (lis.getD k 0) := by
  rw [chgFrom_eq]; simp

section B
variable {D : Type} [DecidableEq D] (H : D → D → D) (g : Nat → D)

omit [DecidableEq D] in
/-- how the from-scratch path of an old leaf changes under an append: extended (hence different) iff the leaf's peak is
    among the merged ones -/
theorem authPathOf_succ_cases (n i : Nat) (hlt : i < n) :
    ((locate n i).1 < trailingOnes n →
      authPathOf H g (n + 1) i = authPathOf H g n i ++
        sibPath H g (locate n i).1 (trailingOnes n - (locate n i).1) (i / 2 ^ (locate n i).1) ∧
      authPathOf H g (n + 1) i ≠ authPathOf H g n i) ∧
    (¬ (locate n i).1 < trailingOnes n → authPathOf H g (n + 1) i = authPathOf H g n i) := by
  have hsucc := locate_succ_height n i hlt
  obtain ⟨_, happ⟩ := authPathOf_append H g n i hlt
  constructor
  · intro hht
    rw [hsucc, if_pos hht] at happ
    refine ⟨happ, ?_⟩
    rw [happ]
    intro he
    have := congrArg List.length he
    rw [List.length_append, sibPath_length] at this
    omega
  · intro hht
    rw [hsucc, if_neg hht, Nat.sub_self] at happ
    simpa [sibPath] using happ

/-- the node indices of the digests missing from the proof of an old leaf whose peak is merged by the append -/
theorem auth_missing_spec (n i : Nat) (hlt : i < n) (hn : n + 1 < 2 ^ 63) (hht : (locate n i).1 < trailingOnes n) :
    get_authentication_path_node_indices (nodeIdx (locate n i).1 (i / 2 ^ (locate n i).1))
        (nodeIdx (trailingOnes n) (n / 2 ^ trailingOnes n)) (nodeIdx (trailingOnes n) (n / 2 ^ trailingOnes n))
      = some (some ((List.range (trailingOnes n - (locate n i).1)).map fun k =>
          nodeIdx ((locate n i).1 + k) (sibBlk (i / 2 ^ (locate n i).1 / 2 ^ k)))) := by
  have ht64 := TF.Mmr.trailingOnes_lt 64 n (by omega)
  have hd : (locate n i).1 + (trailingOnes n - (locate n i).1) = trailingOnes n := by omega
  have hdiv : i / 2 ^ (locate n i).1 / 2 ^ (trailingOnes n - (locate n i).1) = n / 2 ^ trailingOnes n := by
    rw [Nat.div_div_eq_div_mul, ← Nat.pow_add, hd]
    exact TF.Mmr.div_pow_eq_of_le (locate_bits n i hlt).1 (by omega)
  have hauth := get_auth_path_node_indices_spec (locate n i).1 (i / 2 ^ (locate n i).1)
    (trailingOnes n - (locate n i).1) (nodeIdx (trailingOnes n) (n / 2 ^ trailingOnes n)) (by omega)
    (by rw [hd, hdiv]; exact spine_lt n _ hn (Nat.le_refl _)) (by rw [hd, hdiv])
  rw [hd, hdiv] at hauth
  exact hauth

theorem new_node_count_eq (n : Nat) (hn : n + 1 < 2 ^ 63) :
    num_leafs_to_num_nodes (add64 n 1) = nodeIdx (trailingOnes n) (n / 2 ^ trailingOnes n) := by
  have hspine := nodeIdx_spine n (trailingOnes n) (Nat.le_refl _)
  have e : add64 n 1 = n + 1 := by unfold add64 W64; omega
  rw [e, (TF.Mmr.num_nodes_spec (n + 1) hn).1, hspine]
  have := TF.Mmr.nodesOf_succ n
  unfold TF.Mmr.nodesOf at this ⊢
  omega

/-- the per-proof loop of `batch_update_from_append`, with the map of known digests of the batch variant -/
theorem batchAppendLoop_spec (n : Nat) (hn : n + 1 < 2 ^ 63) (ht : 0 < trailingOnes n) :
    ∀ (lis : List Nat) (s : Nat), (∀ i ∈ lis, i < n) →
    batchAppendLoop ((List.range (trailingOnes n + 1)).map fun k => nodeIdx k (n / 2 ^ k))
        (nodeIdx (trailingOnes n) (n / 2 ^ trailingOnes n)) (nodeIdx (trailingOnes n) (n / 2 ^ trailingOnes n))
        (knownFromAppend H [] (some (trailingOnes n - 1))
          ((List.range (trailingOnes n + 1)).map fun k => nodeIdx k (n / 2 ^ k))
          (peaks H n g).reverse 0 (g n) (knownPeaks H g n))
        (lis.map (authPathOf H g n)) lis s
      = some (lis.map (authPathOf H g (n + 1)),
          chgFrom (fun i => decide (authPathOf H g (n + 1) i ≠ authPathOf H g n i)) lis s) := by
  intro lis
  induction lis with
  | nil => intro s _; simp [batchAppendLoop, chgFrom]
  | cons i lis ih =>
    intro s hall
    have hlt : i < n := hall i (by simp)
    have hn' : n < 2 ^ 63 := by omega
    obtain ⟨hpp, hpplt⟩ := peak_parent_eq n i hlt hn'
    have hcont := added_contains n ((locate n i).1 + 1) (n / 2 ^ ((locate n i).1 + 1)) hpplt
    obtain ⟨hc1, hc2⟩ := authPathOf_succ_cases H g n i hlt
    have ihh := ih (s + 1) (fun j hj => hall j (by simp [hj]))
    rw [List.map_cons, batchAppendLoop, getPeakIndexAndHeight_spec H g n i hlt hn']
    simp only [Option.bind_eq_bind, Option.bind_some, Option.pure_def, hpp]
    by_cases hht : (locate n i).1 < trailingOnes n
    · have hc := hcont.mpr ⟨by omega, rfl⟩
      obtain ⟨hnew, hne⟩ := hc1 hht
      rw [hc]
      simp only [Bool.not_true, Bool.false_eq_true, if_false]
      rw [auth_missing_spec n i hlt hn hht]
      simp only [Option.bind_some]
      rw [known_lookup H g n i hlt hn hht]
      · simp only [Option.bind_some, ihh]
        rw [List.map_cons, chgFrom, ← hnew]
        simp [hne]
      · apply knownFromAppend_reaches H [] _ _ (locate n i).1
        · rw [List.getElem?_map, List.getElem?_range (by omega)]; rfl
        · have := trailingOnes_le_peaks_length H g n; omega
        · intro k hk; simp; omega
        · intro k y _ _; simp
    · have hc : ¬ ((List.map (fun k => nodeIdx k (n / 2 ^ k)) (List.range (trailingOnes n + 1))).contains
          (nodeIdx ((locate n i).1 + 1) (n / 2 ^ ((locate n i).1 + 1))) = true) := by
        intro h; have := (hcont.mp h).1; omega
      have hsame := hc2 hht
      simp only [hc, Bool.not_false, if_true, ihh, Option.bind_some]
      rw [List.map_cons, chgFrom, hsame]
      simp

/-- **`batch_update_from_append`** on the from-scratch paths of any list of old leafs: the from-scratch paths of the
    longer range, and exactly the positions whose path changed -/
theorem batchUpdateFromAppend_spec (n : Nat) (lis : List Nat) (hall : ∀ i ∈ lis, i < n) (hn : n + 1 < 2 ^ 63) :
    batchUpdateFromAppend H (lis.map (authPathOf H g n)) lis n (g n) (peaks H n g)
      = some (lis.map (authPathOf H g (n + 1)),
          (List.range lis.length).filter fun k =>
            decide (authPathOf H g (n + 1) (lis.getD k 0) ≠ authPathOf H g n (lis.getD k 0))) := by
  have hn' : n < 2 ^ 63 := by omega
  have hallb : (lis.all fun x => decide (x < n)) = true := by
    rw [List.all_eq_true]; intro x hx; simpa using hall x hx
  rw [← chgFrom_zero (fun i => decide (authPathOf H g (n + 1) i ≠ authPathOf H g n i))]
  unfold batchUpdateFromAppend
  rw [added_nodeIdx n hn']
  simp only [List.length_map, ne_eq, not_true_eq_false, if_false, hallb, Bool.not_true, Bool.false_eq_true,
    Option.bind_eq_bind, Option.bind_some, Option.pure_def, List.length_range]
  by_cases ht : trailingOnes n = 0
  · rw [if_pos (by omega)]
    have hsame : ∀ i ∈ lis, authPathOf H g (n + 1) i = authPathOf H g n i := fun i hi =>
      (authPathOf_succ_cases H g n i (hall i hi)).2 (by omega)
    rw [chgFrom_nil _ lis 0 (fun i hi => by simp [hsame i hi])]
    congr 2
    apply List.map_congr_left
    intro i hi
    exact (hsame i hi).symm
  · rw [if_neg (by omega)]
    have hlast : (List.map (fun k => nodeIdx k (n / 2 ^ k)) (List.range (trailingOnes n + 1))).getLast?
        = some (nodeIdx (trailingOnes n) (n / 2 ^ trailingOnes n)) := by
      simp [List.range_succ]
    have e : trailingOnes n + 1 - 2 = trailingOnes n - 1 := by omega
    rw [peak_indices_nodeIdx n hn']
    simp only [Option.bind_some]
    rw [known0_eq H g n hn', hlast, e]
    simp only [Option.bind_some]
    rw [new_node_count_eq n hn]
    exact batchAppendLoop_spec H g n hn (by omega) lis 0 hall

end B

end TF.MmrE.UpdAppend
