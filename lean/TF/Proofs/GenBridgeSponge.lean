import TF.Gen.SpongeLoops
import TF.Model.Sponge
import TF.Proofs.Sponge
import TF.Proofs.GenBridgeTip5
/-!
# Bridge: the sponge functions *as regenerated from source* = the hand-written model (C15)

`TF/Gen/SpongeLoops.lean` is written by `tools/rs2lean_bt4.py` from the text of `tip5.rs` / `sponge.rs` on every run.  The
regenerated code works on **raw Montgomery words** and calls the regenerated `tip5_permutation`; the hand model
(`TF/Model/Sponge.lean`) works on **canonical values** over an abstract permutation.  The two are related by the
encoding `enc = map bfe_new` (values → words): the model is instantiated with

    permV vs := dec (Loops.tip5_permutation (enc vs))          -- the regenerated permutation, read on values

and every theorem has the form `Loops.tip5_f (enc x) = enc (Model.f permV x)` for canonical `x` (all values `< P`) —
including `none` for `sample_indices` out of fuel.  A one-token change of a translated function changes `Loops.tip5_*`
and these proofs are re-checked or break.
-/
namespace TF.GenBridge.Sponge
open TF TF.Gen TF.Sponge TF.BF TF.Model.Tip5 TF.Tip5P TF.GenBridge.Tip5

/-- values → raw Montgomery words -/
def enc (l : List Nat) : List Nat := l.map bfe_new
/-- raw Montgomery words → values -/
def dec (l : List Nat) : List Nat := l.map bfe_value
/-- every element is a canonical value / a canonical word -/
def CanonL (l : List Nat) : Prop := ∀ x ∈ l, x < Pn

/-- the regenerated Tip5 permutation, read on canonical values -/
def permV (vs : List Nat) : List Nat := dec (Loops.tip5_permutation (enc vs))

theorem enc_length (l : List Nat) : (enc l).length = l.length := List.length_map _
theorem enc_append (a b : List Nat) : enc (a ++ b) = enc a ++ enc b := List.map_append
theorem enc_take (n : Nat) (a : List Nat) : enc (a.take n) = (enc a).take n := List.map_take
theorem enc_drop (n : Nat) (a : List Nat) : enc (a.drop n) = (enc a).drop n := List.map_drop

theorem canon_append {a b : List Nat} (ha : CanonL a) (hb : CanonL b) : CanonL (a ++ b) := by
  intro x hx
  rcases List.mem_append.mp hx with h | h
  · exact ha x h
  · exact hb x h
theorem canon_take {a : List Nat} (n : Nat) (ha : CanonL a) : CanonL (a.take n) :=
  fun x hx => ha x (List.mem_of_mem_take hx)
theorem canon_drop {a : List Nat} (n : Nat) (ha : CanonL a) : CanonL (a.drop n) :=
  fun x hx => ha x (List.mem_of_mem_drop hx)
theorem canon_replicate (n v : Nat) (hv : v < P) : CanonL (List.replicate n v) := by
  intro x hx
  rw [List.eq_of_mem_replicate hx]; exact hv

theorem dec_enc : ∀ {l : List Nat}, CanonL l → dec (enc l) = l := by
  intro l
  induction l with
  | nil => intro _; rfl
  | cons a t ih =>
    intro h
    have h1 : bfe_value (bfe_new a) = a := value_new a (h a List.mem_cons_self)
    have h2 := ih (fun x hx => h x (List.mem_cons_of_mem _ hx))
    unfold dec enc at *
    rw [List.map_cons, List.map_cons, h1, h2]

theorem enc_dec : ∀ {l : List Nat}, (∀ w ∈ l, w < Pn) → enc (dec l) = l := by
  intro l
  induction l with
  | nil => intro _; rfl
  | cons a t ih =>
    intro h
    have h1 : bfe_new (bfe_value a) = a := new_value a (h a List.mem_cons_self)
    have h2 := ih (fun x hx => h x (List.mem_cons_of_mem _ hx))
    unfold dec enc at *
    rw [List.map_cons, List.map_cons, h1, h2]

/-- the list of a state vector -/
def toState (l : List Nat) (h : l.length = 16) : State := ⟨l.toArray, by simpa using h⟩
theorem toState_toList (l : List Nat) (h : l.length = 16) : (toState l h).toList = l := by
  simp [toState, Vector.toList]

theorem perm_length (l : List Nat) (h : l.length = 16) : (Loops.tip5_permutation l).length = 16 := by
  rw [← toState_toList l h, gen_permutation_eq]; simp

/-- on a canonical state the regenerated permutation returns canonical words: it is `enc` of its reading on values -/
theorem perm_enc {vs : List Nat} (hl : vs.length = 16) (hc : CanonL vs) :
    Loops.tip5_permutation (enc vs) = enc (permV vs) ∧ CanonL (permV vs) ∧ (permV vs).length = 16 := by
  have hel : (enc vs).length = 16 := by rw [enc_length, hl]
  have hs : CanonV (toState (enc vs) hel) := by
    intro j hj
    have : (toState (enc vs) hel)[j] = (enc vs)[j]'(by rw [hel]; exact hj) := by
      simp [toState]
    rw [this]
    unfold enc
    rw [List.getElem_map]
    exact (new_spec _ (Nat.lt_trans (hc _ (List.getElem_mem _)) Pn_lt_W)).1
  have hcanon : CanonV (permutation (toState (enc vs) hel)) :=
    (fold_refines (List.finRange 5) (toState (enc vs) hel) hs).1
  have hout : Loops.tip5_permutation (enc vs) = (permutation (toState (enc vs) hel)).toList := by
    conv => lhs; rw [← toState_toList (enc vs) hel]
    exact gen_permutation_eq _
  have hlt : ∀ w ∈ Loops.tip5_permutation (enc vs), w < Pn := by
    rw [hout]
    intro w hw
    obtain ⟨j, hj, rfl⟩ := List.getElem_of_mem hw
    have hj' : j < 16 := by simpa using hj
    have := hcanon j hj'
    rw [Vector.getElem_toList]
    exact this
  refine ⟨?_, ?_, ?_⟩
  · unfold permV
    exact (enc_dec hlt).symm
  · intro x hx
    unfold permV dec at hx
    obtain ⟨w, hw, rfl⟩ := List.mem_map.mp hx
    exact value_lt w (Nat.lt_trans (hlt w hw) Pn_lt_W)
  · unfold permV dec
    rw [List.length_map, perm_length _ hel]

theorem permV_pres : Pres permV := by
  intro s hs
  unfold permV dec
  rw [List.length_map, perm_length _ (by rw [enc_length, hs, STATE_eq]), STATE_eq]

attribute [local irreducible] permV

/-! ### `init`, `absorb`, `squeeze` -/

theorem gen_init_eq : Loops.tip5_init = some (enc initState) ∧ Loops.tip5_init_ok = true := by decide +kernel

theorem gen_absorb_eq {st block : List Nat} (hl : st.length = 16) (hc : CanonL st) (hbl : block.length = 10)
    (hbc : CanonL block) :
    Loops.tip5_absorb (enc st) (enc block) = enc (absorb permV st block) ∧
      CanonL (absorb permV st block) ∧ (absorb permV st block).length = 16 := by
  have hlen : (block ++ st.drop 10).length = 16 := by simp [hbl, hl]
  have hcan : CanonL (block ++ st.drop 10) := canon_append hbc (canon_drop 10 hc)
  have h := perm_enc hlen hcan
  refine ⟨?_, h.2.1, h.2.2⟩
  show Loops.tip5_permutation (enc block ++ (enc st).drop 10) = enc (permV (block ++ st.drop 10))
  rw [← enc_drop, ← enc_append]
  exact h.1

theorem gen_squeeze_eq {st : List Nat} (hl : st.length = 16) (hc : CanonL st) :
    Loops.tip5_squeeze (enc st) = (enc (squeeze permV st).1, enc (squeeze permV st).2) ∧
      CanonL (squeeze permV st).2 ∧ (squeeze permV st).2.length = 16 := by
  have h := perm_enc hl hc
  have e1 : ∀ p : List Nat → List Nat, (squeeze p st).1 = st.take 10 := fun _ => rfl
  have e2 : ∀ p : List Nat → List Nat, (squeeze p st).2 = p st := fun _ => rfl
  rw [e1 permV, e2 permV]
  refine ⟨?_, h.2.1, h.2.2⟩
  unfold Loops.tip5_squeeze
  dsimp only
  rw [h.1, enc_take]

/-! ### `pad_and_absorb_all`, `hash_varlen` -/

theorem chunks_enc (k : Nat) : ∀ (f : Nat) (l : List Nat),
    TF.RustIter.chunksAux k f (enc l) = (chunksOf k f l).map enc := by
  intro f
  induction f with
  | zero => intro l; rfl
  | succ f ih =>
    intro l
    unfold TF.RustIter.chunksAux chunksOf
    cases l with
    | nil => rfl
    | cons a t =>
      have h1 : (enc (a :: t)).isEmpty = false := by simp [enc]
      have h2 : (a :: t).isEmpty = false := rfl
      rw [h1, h2]
      simp only [Bool.false_eq_true, if_false, List.map_cons]
      rw [← enc_drop, ih, enc_take]

theorem take_cons_replicate {α : Type} (a b : α) (n m : Nat) (h : m ≤ n + 1) :
    (a :: List.replicate n b).take m = [a].take m ++ List.replicate (m - 1) b := by
  cases m with
  | zero => rfl
  | succ m =>
    rw [List.take_succ_cons, List.take_replicate, Nat.min_eq_left (by omega)]
    simp

theorem take_chain_once_rept {α : Type} (l : List α) (a b : α) (n : Nat) :
    TF.RustIter.take n (TF.RustIter.chain (TF.RustIter.ofList l)
        (TF.RustIter.chain (TF.RustIter.once a) (TF.RustIter.rept b)))
      = (l ++ [a] ++ List.replicate n b).take n := by
  show (l ++ ([a] ++ [])).take n ++ List.replicate (n - (l ++ ([a] ++ [])).length) b = _
  rw [List.append_nil, List.append_assoc, List.take_append, List.take_append]
  rw [List.append_assoc]
  congr 1
  rw [List.singleton_append, take_cons_replicate a b n _ (by omega)]
  congr 2
  simp only [List.length_append, List.length_singleton]
  omega

theorem padded_enc (input : List Nat) :
    TF.RustIter.take (nextMultipleOf (input.length + 1) RATE)
        (TF.RustIter.chain (TF.RustIter.ofList (enc input))
          (TF.RustIter.chain (TF.RustIter.once (bfe_new 1)) (TF.RustIter.rept (bfe_new 0))))
      = enc (padded input) := by
  unfold padded
  rw [take_chain_once_rept, enc_take, enc_append, enc_append]
  simp only [enc, List.map_cons, List.map_nil, List.map_replicate]

theorem for_eq : ∀ (cs : List (List Nat)) (st : List Nat), st.length = 16 → CanonL st →
    (∀ c ∈ cs, c.length = 10 ∧ CanonL c) →
    Loops.tip5_pad_and_absorb_all_for (cs.map enc) (enc st) = enc (cs.foldl (absorb permV) st) ∧
      CanonL (cs.foldl (absorb permV) st) ∧ (cs.foldl (absorb permV) st).length = 16 := by
  intro cs
  induction cs with
  | nil => intro st hl hc _; exact ⟨rfl, hc, hl⟩
  | cons c cs ih =>
    intro st hl hc hcs
    have hc1 := hcs c (List.mem_cons_self)
    have ha := gen_absorb_eq hl hc hc1.1 hc1.2
    have := ih (absorb permV st c) ha.2.2 ha.2.1 (fun c' hc' => hcs c' (List.mem_cons_of_mem _ hc'))
    simp only [List.map_cons, List.foldl_cons, Loops.tip5_pad_and_absorb_all_for]
    rw [ha.1]
    exact this

theorem padBlocks_canon {input : List Nat} (hi : CanonL input) : ∀ c ∈ padBlocks input, c.length = 10 ∧ CanonL c := by
  intro c hc
  have hs := padBlocks_spec input
  refine ⟨hs.2.1 c hc, ?_⟩
  intro x hx
  have hmem : x ∈ (padBlocks input).flatten := List.mem_flatten.mpr ⟨c, hc, hx⟩
  rw [hs.1] at hmem
  rcases List.mem_append.mp hmem with h | h
  · rcases List.mem_append.mp h with h | h
    · exact hi x h
    · rw [List.mem_singleton.mp h]; unfold Pn; omega
  · rw [List.eq_of_mem_replicate h]; unfold Pn; omega

/-- **`Sponge::pad_and_absorb_all`** (the trait's default method at `Self = Tip5`) regenerated from source = hand model -/
theorem gen_pad_and_absorb_all_eq {st input : List Nat} (hl : st.length = 16) (hc : CanonL st) (hi : CanonL input)
    (hlen : input.length + 10 < 2 ^ 64) :
    some (Loops.tip5_pad_and_absorb_all (enc st) (enc input)) = (padAndAbsorbAll (absorb permV) st input).map enc ∧
      CanonL ((padBlocks input).foldl (absorb permV) st) ∧ ((padBlocks input).foldl (absorb permV) st).length = 16 := by
  have hf := for_eq (padBlocks input) st hl hc (padBlocks_canon hi)
  refine ⟨?_, hf.2.1, hf.2.2⟩
  rw [padAndAbsorbAll_eq, Option.map_some, ← hf.1]
  congr 1
  unfold Loops.tip5_pad_and_absorb_all
  have hnm : nextMultipleOf (input.length + 1) RATE < 2 ^ 64 := by
    rw [nextMultipleOf_eq]
    have := (padK_spec input.length).1
    rw [RATE_eq] at this
    omega
  have e1 : ((enc input).length + 1) % 18446744073709551616 = input.length + 1 := by
    rw [enc_length]; apply Nat.mod_eq_of_lt; omega
  have e2 : TF.RustIter.nextMultipleOf (input.length + 1) 10 = nextMultipleOf (input.length + 1) RATE := rfl
  simp only [e1, e2]
  rw [Nat.mod_eq_of_lt (by simpa using hnm), padded_enc]
  unfold padBlocks TF.RustIter.chunks
  rw [enc_length, chunks_enc]
  rfl

/-- **`Tip5::hash_varlen`** regenerated from source = hand model -/
theorem gen_hash_varlen_eq {input : List Nat} (hi : CanonL input) (hlen : input.length + 10 < 2 ^ 64) :
    Loops.tip5_hash_varlen (enc input) = (hashVarlen permV input).map enc := by
  have hil : initState.length = 16 := by decide
  have hic : CanonL initState := by
    intro x hx
    rw [List.eq_of_mem_replicate (show x ∈ List.replicate 16 0 from hx)]; unfold Pn; omega
  have hp := gen_pad_and_absorb_all_eq hil hic hi hlen
  unfold Loops.tip5_hash_varlen hashVarlen
  rw [gen_init_eq.1, Option.bind_some]
  have h1 := hp.1
  rw [padAndAbsorbAll_eq] at h1 ⊢
  simp only [Option.map_some, Option.some.injEq] at h1 ⊢
  rw [h1, (gen_squeeze_eq hp.2.2 hp.2.1).1]
  simp only [squeeze]
  rw [← enc_take]
  rfl

/-! ### `hash_pair` -/

/-- **`Tip5::hash_pair`** regenerated from source (with the `Digest::values` / `Digest::new` glue as identities) = hand model -/
theorem gen_hash_pair_eq {l r : List Nat} (hl : l.length = 5) (hr : r.length = 5) (hlc : CanonL l) (hrc : CanonL r) :
    Loops.tip5_hash_pair (enc l) (enc r) = some (enc (hashPair permV l r)) := by
  have hnew : Loops.tip5_new 1 = some (enc (newState true)) := by decide +kernel
  have hlen : (l ++ r ++ (newState true).drop RATE).length = 16 := by
    simp only [List.length_append, hl, hr]; decide
  have hcan : CanonL (l ++ r ++ (newState true).drop RATE) :=
    canon_append (canon_append hlc hrc) (by
      intro x hx
      rw [List.eq_of_mem_replicate (show x ∈ List.replicate 6 1 from hx)]; unfold Pn; omega)
  have hp := perm_enc hlen hcan
  unfold Loops.tip5_hash_pair
  rw [hnew, Option.bind_some]
  have e10 : (2 * 5) % 18446744073709551616 = 10 := by decide
  simp only [e10]
  have h5 : (enc l).length = 5 := by rw [enc_length, hl]
  have hst : (enc l ++ (enc (newState true)).drop 5).take 5 ++ enc r ++ (enc l ++ (enc (newState true)).drop 5).drop 10
      = enc (l ++ r ++ (newState true).drop RATE) := by
    rw [List.take_left' h5]
    have : (enc l ++ (enc (newState true)).drop 5).drop 10 = (enc (newState true)).drop 10 := by
      rw [List.drop_append, h5, List.drop_drop]
      have : List.drop 10 (enc l) = [] := List.drop_of_length_le (by rw [h5]; decide)
      rw [this]; rfl
    rw [this, enc_append, enc_append, enc_drop]
    rfl
  rw [hst, hp.1, ← enc_take]
  rfl

/-! ### `sample_indices` -/

theorem max_eq : (18446744069414584320 : Nat) = P - 1 := rfl

theorem new_inj {a b : Nat} (ha : a < Pn) (hb : b < Pn) (h : bfe_new a = bfe_new b) : a = b := by
  have := congrArg bfe_value h
  rwa [value_new a ha, value_new b hb] at this

theorem getLast_rev (a : Nat) (l : List Nat) (d : Nat) : TF.RustIter.popVal ((a :: l).reverse) d = a := by
  simp [TF.RustIter.popVal]

theorem dropLast_rev (a : Nat) (l : List Nat) : ((a :: l).reverse).dropLast = l.reverse := by
  simp

/-- the regenerated rejection loop with `f + 1` evaluations of the loop head = the hand model's loop with `f` iterations;
    the squeezed buffer is kept reversed by the Rust code (`into_iter().rev().collect_vec()`, then `pop()`) -/
theorem loop_eq (bound num : Nat) : ∀ (f : Nat) (st buf acc : List Nat), st.length = 16 → CanonL st → CanonL buf →
    (Loops.tip5_sample_indices_loop bound num (f + 1) (enc st) acc (enc buf).reverse).map (fun t => (t.2.1, t.1))
      = (sampleLoop permV bound num f st buf acc).map (fun r => (r.1, enc r.2)) := by
  intro f
  induction f with
  | zero =>
    intro st buf acc hl hc hb
    unfold Loops.tip5_sample_indices_loop sampleLoop
    by_cases h : acc.length = num
    · simp [h]
    · have h' : (acc.length != num) = true := by simpa using h
      rw [if_pos h', if_neg h]
      simp only [Loops.tip5_sample_indices_loop]
      rfl
  | succ f ih =>
    intro st buf acc hl hc hb
    rw [Loops.tip5_sample_indices_loop, sampleLoop]
    by_cases h : acc.length = num
    · simp [h]
    · have h' : (acc.length != num) = true := by simpa using h
      rw [if_pos h', if_neg h]
      -- the refill
      have hsq := gen_squeeze_eq hl hc
      cases buf with
      | nil =>
        have hem : ((enc []).reverse).isEmpty = true := rfl
        have hem2 : ([] : List Nat).isEmpty = true := rfl
        simp only [hem, hem2, if_true, hsq.1]
        have htake : (squeeze permV st).1 = st.take 10 := rfl
        have hne : ∃ e rest, st.take 10 = e :: rest := by
          cases st with
          | nil => simp at hl
          | cons e t => exact ⟨e, t.take 9, rfl⟩
        obtain ⟨e, rest, her⟩ := hne
        have hcr : CanonL (e :: rest) := by rw [← her]; exact canon_take 10 hc
        rw [htake, her]
        have he : e < Pn := hcr e (List.mem_cons_self)
        have hrc : CanonL rest := fun x hx => hcr x (List.mem_cons_of_mem _ hx)
        have hx1 : TF.RustIter.popVal (enc (e :: rest)).reverse 0 = bfe_new e := getLast_rev _ _ _
        have hx2 : ((enc (e :: rest)).reverse).dropLast = (enc rest).reverse := dropLast_rev _ _
        simp only [hx1, hx2]
        by_cases hmax : e = P - 1
        · have hm : (bfe_new e != bfe_new 18446744069414584320) = false := by
            rw [hmax, ← max_eq]; exact bne_self_eq_false _
          rw [hm]
          simp only [Bool.false_eq_true, if_false]
          rw [if_neg (by simpa using hmax)]
          exact ih _ rest acc hsq.2.2 hsq.2.1 hrc
        · have hm : (bfe_new e != bfe_new 18446744069414584320) = true := by
            simp only [bne_iff_ne, ne_eq]
            intro hh
            rw [max_eq] at hh
            exact hmax (new_inj he (by unfold P Pn; omega) hh)
          rw [hm]
          simp only [if_true]
          rw [if_pos hmax]
          have hv : (Loops.bfe_value_fn (bfe_new e) % 4294967296) % bound = toIndex bound e := by
            unfold Loops.bfe_value_fn toIndex
            rw [value_new e he]
          rw [hv]
          exact ih _ rest (acc ++ [toIndex bound e]) hsq.2.2 hsq.2.1 hrc
      | cons e rest =>
        have hem : ((enc (e :: rest)).reverse).isEmpty = false := by simp [enc]
        have hem2 : (e :: rest).isEmpty = false := rfl
        simp only [hem, hem2, Bool.false_eq_true, if_false]
        have he : e < Pn := hb e (List.mem_cons_self)
        have hrc : CanonL rest := fun x hx => hb x (List.mem_cons_of_mem _ hx)
        have hx1 : TF.RustIter.popVal (enc (e :: rest)).reverse 0 = bfe_new e := getLast_rev _ _ _
        have hx2 : ((enc (e :: rest)).reverse).dropLast = (enc rest).reverse := dropLast_rev _ _
        simp only [hx1, hx2]
        by_cases hmax : e = P - 1
        · have hm : (bfe_new e != bfe_new 18446744069414584320) = false := by
            rw [hmax, ← max_eq]; exact bne_self_eq_false _
          rw [hm]
          simp only [Bool.false_eq_true, if_false]
          rw [if_neg (by simpa using hmax)]
          exact ih st rest acc hl hc hrc
        · have hm : (bfe_new e != bfe_new 18446744069414584320) = true := by
            simp only [bne_iff_ne, ne_eq]
            intro hh
            rw [max_eq] at hh
            exact hmax (new_inj he (by unfold P Pn; omega) hh)
          rw [hm]
          simp only [if_true]
          rw [if_pos hmax]
          have hv : (Loops.bfe_value_fn (bfe_new e) % 4294967296) % bound = toIndex bound e := by
            unfold Loops.bfe_value_fn toIndex
            rw [value_new e he]
          rw [hv]
          exact ih st rest (acc ++ [toIndex bound e]) hl hc hrc

/-- **`Tip5::sample_indices`** regenerated from source = hand model, `none` (out of fuel) included: `fuel + 1` evaluations
    of the loop head are `fuel` iterations -/
theorem gen_sample_indices_eq {st : List Nat} (hl : st.length = 16) (hc : CanonL st) (fuel bound num : Nat) :
    Loops.tip5_sample_indices (fuel + 1) (enc st) bound num
      = (sampleIndices permV fuel st bound num).map (fun r => (r.1, enc r.2)) ∧
    Loops.tip5_sample_indices 0 (enc st) bound num = none := by
  refine ⟨?_, rfl⟩
  have h := loop_eq bound num fuel st [] [] hl hc (by intro x hx; cases hx)
  have e : (enc ([] : List Nat)).reverse = [] := rfl
  rw [e] at h
  show (Loops.tip5_sample_indices_loop bound num (fuel + 1) (enc st) [] []).bind (fun t => some (t.2.1, t.1)) = _
  show _ = (sampleLoop permV bound num fuel st [] []).map (fun r => (r.1, enc r.2))
  rw [← h]
  cases Loops.tip5_sample_indices_loop bound num (fuel + 1) (enc st) [] [] with
  | none => rfl
  | some t => rfl

/-! ### `sample_scalars` (P10): `(0..k).flat_map(|_| self.squeeze()).collect_vec().chunks(3).take(n).map(..).collect()` -/

/-- an extension-field element: the three coefficients as raw words -/
def encTriple (t : Nat × Nat × Nat) : List Nat := [bfe_new t.1, bfe_new t.2.1, bfe_new t.2.2]

/-- the inner `for x in squeeze_output { v.push(x) }` is `v.extend(squeeze_output)` -/
theorem scalars_for2_eq : ∀ (xs acc : List Nat),
    Loops.tip5_sample_scalars_for2 xs acc = acc ++ xs ∧ Loops.tip5_sample_scalars_for2_ok xs acc = true
  | [], acc => ⟨by rw [Loops.tip5_sample_scalars_for2, List.append_nil], rfl⟩
  | x :: xs, acc => by
    obtain ⟨h1, h2⟩ := scalars_for2_eq xs (acc ++ [x])
    constructor
    · rw [Loops.tip5_sample_scalars_for2, h1, List.append_assoc]; rfl
    · rw [Loops.tip5_sample_scalars_for2_ok]; exact h2

/-- `k` rounds of the `flat_map` closure = `k` successive squeezes of the hand model -/
theorem scalars_for_eq : ∀ (k i : Nat) (st acc : List Nat), st.length = 16 → CanonL st →
    Loops.tip5_sample_scalars_for k i (enc st) acc
      = (enc (squeezeN permV k st).2, acc ++ enc (squeezeN permV k st).1) := by
  intro k
  induction k with
  | zero =>
    intro i st acc _ _
    rw [Loops.tip5_sample_scalars_for, squeezeN]
    show (enc st, acc) = (enc st, acc ++ enc [])
    rw [show enc [] = [] from rfl, List.append_nil]
  | succ k ih =>
    intro i st acc hl hc
    obtain ⟨hs, hc', hl'⟩ := gen_squeeze_eq hl hc
    have h1 := ih (i + 1) (squeeze permV st).2 (acc ++ enc (squeeze permV st).1) hl' hc'
    rw [Loops.tip5_sample_scalars_for]
    show Loops.tip5_sample_scalars_for k (i + 1) (Loops.tip5_squeeze (enc st)).2
      (Loops.tip5_sample_scalars_for2 (Loops.tip5_squeeze (enc st)).1 acc) = _
    rw [hs, (scalars_for2_eq _ _).1, h1, squeezeN]
    show _ = (_, acc ++ enc ((squeeze permV st).1 ++ (squeezeN permV k (squeeze permV st).2).1))
    rw [enc_append, List.append_assoc]

/-- the `_ok` flag of the rounds holds as soon as the regenerated permutation's does on canonical states -/
theorem scalars_for_ok (hperm : ∀ s : List Nat, s.length = 16 → CanonL s → Loops.tip5_permutation_ok (enc s) = true) :
    ∀ (k i : Nat) (st acc : List Nat), st.length = 16 → CanonL st →
    Loops.tip5_sample_scalars_for_ok k i (enc st) acc = true := by
  intro k
  induction k with
  | zero => intro i st acc _ _; rfl
  | succ k ih =>
    intro i st acc hl hc
    obtain ⟨hs, hc', hl'⟩ := gen_squeeze_eq hl hc
    have h2 := ih (i + 1) (squeeze permV st).2 (acc ++ enc (squeeze permV st).1) hl' hc'
    have hlen : decide (10 ≤ (enc st).length) = true := decide_eq_true (by rw [enc_length, hl]; omega)
    have hsq : Loops.tip5_squeeze_ok (enc st) = true := by
      show (((decide (10 ≤ (enc st).length)) && (10 == 10)) && (Loops.tip5_permutation_ok (enc st))) = true
      rw [hlen, hperm st hl hc]; rfl
    rw [Loops.tip5_sample_scalars_for_ok]
    show (Loops.tip5_squeeze_ok (enc st) && (Loops.tip5_sample_scalars_for2_ok (Loops.tip5_squeeze (enc st)).1 acc &&
      Loops.tip5_sample_scalars_for_ok k (i + 1) (Loops.tip5_squeeze (enc st)).2
        (Loops.tip5_sample_scalars_for2 (Loops.tip5_squeeze (enc st)).1 acc))) = true
    rw [hsq, hs, (scalars_for2_eq _ _).1, (scalars_for2_eq _ _).2, h2]; rfl

theorem chunks3_eq_chunksOf : ∀ (f : Nat) (l : List Nat), chunks3 f l = chunksOf 3 f l
  | 0, _ => rfl
  | f+1, l => by rw [chunks3, chunksOf, chunks3_eq_chunksOf f]

theorem toTriple_some {c : List Nat} {t : Nat × Nat × Nat} (h : toTriple c = some t) : c = [t.1, t.2.1, t.2.2] := by
  unfold toTriple at h
  split at h
  · cases h; rfl
  · cases h

/-- the regenerated closure `|elem| XFieldElement::new([elem[0], elem[1], elem[2]])` with its checks -/
def tripleFn (elem : List Nat) : List Nat := [(elem.getD 0 0), (elem.getD 1 0), (elem.getD 2 0)]
def tripleOk (elem : List Nat) : Bool :=
  ((decide (0 < elem.length)) && (decide (1 < elem.length)) && (decide (2 < elem.length))) &&
    ([(elem.getD 0 0), (elem.getD 1 0), (elem.getD 2 0)].length == 3)

theorem tripleFn_map (f : Nat → Nat) (a b c : Nat) : tripleFn (List.map f [a, b, c]) = [f a, f b, f c] := rfl
theorem tripleOk_map (f : Nat → Nat) (a b c : Nat) : tripleOk (List.map f [a, b, c]) = true := rfl

theorem triple_enc (t : Nat × Nat × Nat) :
    tripleFn (enc [t.1, t.2.1, t.2.2]) = encTriple t ∧ tripleOk (enc [t.1, t.2.1, t.2.2]) = true := by
  unfold enc encTriple
  exact ⟨tripleFn_map bfe_new _ _ _, tripleOk_map bfe_new _ _ _⟩

/-- grouping in threes: on chunks of raw words the regenerated closure never indexes out of bounds and returns the
    encoded triples exactly when the model's `toTriple` succeeds on all chunks -/
theorem triples_enc : ∀ (cs : List (List Nat)) (groups : List (Nat × Nat × Nat)), cs.mapM toTriple = some groups →
    (cs.map enc).map tripleFn = groups.map encTriple ∧ (cs.map enc).all tripleOk = true := by
  intro cs
  induction cs with
  | nil =>
    intro groups h
    have : groups = [] := by simpa using h.symm
    subst this; exact ⟨rfl, rfl⟩
  | cons c cs ih =>
    intro groups h
    rw [List.mapM_cons] at h
    cases ht : toTriple c with
    | none => rw [ht] at h; cases h
    | some t =>
      rw [ht] at h
      cases hm : cs.mapM toTriple with
      | none => rw [hm] at h; cases h
      | some gs =>
        rw [hm] at h
        cases h
        obtain ⟨h1, h2⟩ := ih gs hm
        rw [toTriple_some ht]
        constructor
        · rw [List.map_cons, List.map_cons, h1, (triple_enc t).1, List.map_cons]
        · rw [List.map_cons, List.all_cons, h2, (triple_enc t).2]; rfl

/-- regenerated `Tip5::sample_scalars` = the hand model, on every canonical state and every `num` with `3·num < 2^64` -/
theorem gen_sample_scalars_eq {st : List Nat} (hl : st.length = 16) (hc : CanonL st) (num : Nat)
    (hnum : num * 3 < 18446744073709551616) :
    some (Loops.tip5_sample_scalars (enc st) num)
      = (sampleScalars permV st num).map (fun r => (r.1.map encTriple, enc r.2)) ∧
    ((∀ s : List Nat, s.length = 16 → CanonL s → Loops.tip5_permutation_ok (enc s) = true) →
      Loops.tip5_sample_scalars_ok (enc st) num = true) := by
  have e1 : (num * 3) % 18446744073709551616 = num * 3 := Nat.mod_eq_of_lt hnum
  have e2 : (num * 3 + RATE - 1) / RATE = (num * 3 + 10 - 1) / 10 := rfl
  obtain ⟨groups, hg, _, _⟩ := sampleScalars_eq permV_pres (st := st) (by rw [hl]; rfl) num
  have hg' := hg
  unfold sampleScalars at hg'
  simp only [e2] at hg'
  cases hm : ((chunks3 (squeezeN permV ((num * 3 + 10 - 1) / 10) st).1.length
      (squeezeN permV ((num * 3 + 10 - 1) / 10) st).1).take num).mapM toTriple with
  | none => rw [hm] at hg'; cases hg'
  | some gs =>
    have hch : TF.RustIter.chunks 3 (enc (squeezeN permV ((num * 3 + 10 - 1) / 10) st).1)
        = (chunks3 (squeezeN permV ((num * 3 + 10 - 1) / 10) st).1.length
            (squeezeN permV ((num * 3 + 10 - 1) / 10) st).1).map enc := by
      rw [TF.RustIter.chunks, enc_length, chunks_enc, chunks3_eq_chunksOf]
    obtain ⟨t1, t2⟩ := triples_enc _ gs hm
    rw [List.map_take] at t1 t2
    have f1 := scalars_for_eq ((num * 3 + 10 - 1) / 10) 0 st [] hl hc
    rw [List.nil_append] at f1
    constructor
    · unfold sampleScalars
      simp only [e2, hm, Option.map_some]
      show some (((TF.RustIter.chunks 3 (Loops.tip5_sample_scalars_for
          (((num * 3) % 18446744073709551616 + 10 - 1) / 10 - 0) 0 (enc st) []).2).take num).map tripleFn,
        (Loops.tip5_sample_scalars_for (((num * 3) % 18446744073709551616 + 10 - 1) / 10 - 0) 0 (enc st) []).1) = _
      rw [e1, Nat.sub_zero, f1, hch, t1]
    · intro hperm
      have f2 := scalars_for_ok hperm ((num * 3 + 10 - 1) / 10) 0 st [] hl hc
      have c1 : decide (num * 3 < 18446744073709551616) = true := decide_eq_true hnum
      show ((decide (num * 3 < 18446744073709551616) && (10 != 0)) &&
        (Loops.tip5_sample_scalars_for_ok (((num * 3) % 18446744073709551616 + 10 - 1) / 10 - 0) 0 (enc st) [] &&
          ((3 != 0) && ((TF.RustIter.chunks 3 (Loops.tip5_sample_scalars_for
            (((num * 3) % 18446744073709551616 + 10 - 1) / 10 - 0) 0 (enc st) []).2).take num).all tripleOk))) = true
      rw [e1, Nat.sub_zero, c1, f1, f2, hch, t2]
      rfl

end TF.GenBridge.Sponge
