import TF.Proofs.GenBridgeSponge
/-!
# The `_ok` flags of the regenerated Tip5 permutation and sponge functions hold on their documented domains (C15, P10)

`Loops.f_ok` is true iff no plain arithmetic operation of the regenerated `f` overflows, no index is out of range, no
`try_into().unwrap()` / `pop().unwrap()` fails and every `assert!` holds.  Proved here: `tip5_permutation_ok` on every
canonical 16-word state (so debug and release builds agree on it), and from it the flags of `squeeze`, `absorb`,
`sample_scalars`, `pad_and_absorb_all` and `hash_varlen` on every canonical state / block / input.
-/
set_option linter.unusedVariables false
namespace TF.GenBridge.SpongeOk
open TF TF.Gen TF.Sponge TF.BF TF.Model.Tip5 TF.Tip5P TF.GenBridge.Tip5 TF.GenBridge.Sponge

theorem band {a b : Bool} (ha : a = true) (hb : b = true) : (a && b) = true := by rw [ha, hb]; rfl

theorem getD_set_ne (l : List Nat) (i j v : Nat) (h : j ≠ i) : (l.set i v).getD j 0 = l.getD j 0 := by
  simp [List.getD_eq_getElem?_getD, Ne.symm h]

/-! ### `split_and_lookup` -/

theorem sl_for_ok : ∀ (n i : Nat) (bytes : List Nat), i + n ≤ bytes.length →
    (∀ j, i ≤ j → bytes.getD j 0 < 256) → Loops.tip5_split_and_lookup_for_ok n i bytes = true := by
  intro n
  induction n with
  | zero => intros; rfl
  | succ n ih =>
    intro i bytes hl hb
    rw [Loops.tip5_split_and_lookup_for_ok]
    have c1 : decide (i < bytes.length) = true := decide_eq_true (by omega)
    have c2 : decide (bytes.getD i 0 < 256) = true := decide_eq_true (hb i (Nat.le_refl _))
    have := ih (i + 1) (bytes.set i (LOOKUP_TABLE.getD (bytes.getD i 0) 0)) (by rw [List.length_set]; omega)
      (fun j hj => by rw [getD_set_ne _ _ _ _ (by omega)]; exact hb j (by omega))
    rw [c1, c2]
    exact band rfl this

theorem toLeBytes_getD_lt (n w j : Nat) : (toLeBytes n w).getD j 0 < 256 := by
  rw [List.getD_eq_getElem?_getD]
  cases h : (toLeBytes n w)[j]? with
  | none => decide
  | some b => exact toLeBytes_lt n w b (List.mem_of_getElem? h)

theorem split_and_lookup_ok (w : Nat) : Loops.tip5_split_and_lookup_ok w = true := by
  unfold Loops.tip5_split_and_lookup_ok
  have h1 : Loops.tip5_split_and_lookup_for_ok (8 - 0) 0 (Loops.bfe_raw_bytes w) = true :=
    sl_for_ok 8 0 _ (by unfold Loops.bfe_raw_bytes; rw [toLeBytes_length])
      (fun j _ => toLeBytes_getD_lt 8 w j)
  have h2 : Loops.bfe_from_raw_bytes_ok (Loops.tip5_split_and_lookup_for (8 - 0) 0 (Loops.bfe_raw_bytes w)) = true := by
    unfold Loops.bfe_from_raw_bytes_ok
    rw [sl_for_eq, updRange_length]
    unfold Loops.bfe_raw_bytes
    rw [toLeBytes_length]; rfl
  simp only [h1, h2, Loops.bfe_raw_bytes_ok, Bool.true_and]


/-! ### `sbox_layer` -/

theorem sbox_for_ok : ∀ (n i : Nat) (l : List Nat), i + n ≤ l.length → Loops.tip5_sbox_layer_for_ok n i l = true := by
  intro n
  induction n with
  | zero => intros; rfl
  | succ n ih =>
    intro i l hl
    rw [Loops.tip5_sbox_layer_for_ok]
    have c1 : decide (i < l.length) = true := decide_eq_true (by omega)
    have := ih (i + 1) (l.set i (Loops.tip5_split_and_lookup (l.getD i 0))) (by rw [List.length_set]; omega)
    rw [c1, split_and_lookup_ok]
    exact band rfl (band rfl this)

theorem sbox_for2_ok : ∀ (n i : Nat) (l : List Nat), i + n ≤ l.length → (∀ j, i ≤ j → l.getD j 0 < Pn) →
    Loops.tip5_sbox_layer_for2_ok n i l = true := by
  intro n
  induction n with
  | zero => intros; rfl
  | succ n ih =>
    intro i l hl hc
    rw [Loops.tip5_sbox_layer_for2_ok]
    have c1 : decide (i < l.length) = true := decide_eq_true (by omega)
    obtain ⟨m1, m2, m3, m4⟩ := pow7_ok (l.getD i 0) (hc i (Nat.le_refl _))
    have := ih (i + 1) (l.set i (bfe_mul (l.getD i 0) (bfe_mul (bfe_mul (l.getD i 0) (l.getD i 0))
        (bfe_mul (bfe_mul (l.getD i 0) (l.getD i 0)) (bfe_mul (l.getD i 0) (l.getD i 0))))))
      (by rw [List.length_set]; omega)
      (fun j hj => by rw [getD_set_ne _ _ _ _ (by omega)]; exact hc j (by omega))
    simp only [c1, m1, m2, m3, m4, this, Bool.true_and]

theorem sbox_layer_ok (s : State) (hs : CanonV s) : Loops.tip5_sbox_layer_ok s.toList = true := by
  unfold Loops.tip5_sbox_layer_ok
  have hlen : s.toList.length = 16 := by simp
  have h1 := sbox_for_ok 4 0 s.toList (by rw [hlen]; omega)
  have h2 := sbox_for2_ok 12 4 (Loops.tip5_sbox_layer_for 4 0 s.toList)
    (by rw [sbox_for_eq, updRange_length, hlen])
    (fun j hj => by
      rw [sbox_for_eq, updRange_getD, if_neg (by omega)]
      by_cases hj16 : j < 16
      · rw [vec_getD s j hj16]; exact hs j hj16
      · rw [List.getD_eq_getElem?_getD, List.getElem?_eq_none (by rw [hlen]; omega)]
        decide)
  exact band h1 h2


/-! ### `mds_generated` -/

theorem mds_for_ok (self : List Nat) : ∀ (n i : Nat) (lo hi : List Nat), i + n ≤ self.length → i + n ≤ lo.length →
    i + n ≤ hi.length → Loops.tip5_mds_generated_for_ok self n i lo hi = true := by
  intro n
  induction n with
  | zero => intros; rfl
  | succ n ih =>
    intro i lo hi h1 h2 h3
    rw [Loops.tip5_mds_generated_for_ok]
    have c1 : decide (i < self.length) = true := decide_eq_true (by omega)
    have c2 : decide (i < hi.length) = true := decide_eq_true (by omega)
    have c3 : decide (i < lo.length) = true := decide_eq_true (by omega)
    have := ih (i + 1) (lo.set i (Loops.bfe_raw_u64 (self.getD i 0) &&& 4294967295))
      (hi.set i (Loops.bfe_raw_u64 (self.getD i 0) / 4294967296)) (by omega) (by rw [List.length_set]; omega)
      (by rw [List.length_set]; omega)
    simp only [c1, c2, c3, this, Loops.bfe_raw_u64_ok, Bool.true_and]

/-- the checks of one recombination `(lo >> 4) + (hi << 28)`, reduction of the 93-bit sum: nothing overflows for 64-bit limbs -/
theorem recombine_checks (a b : Nat) (ha : a < 18446744073709551616) (hb : b < 18446744073709551616) :
    a / 16 + b * 268435456 % 340282366920938463463374607431768211456 < 340282366920938463463374607431768211456 ∧
    ((a / 16 + b * 268435456 % 340282366920938463463374607431768211456) % 340282366920938463463374607431768211456
      / 18446744073709551616 % 18446744073709551616) * 4294967295 < 18446744073709551616 ∧
    ((a / 16 + b * 268435456 % 340282366920938463463374607431768211456) % 340282366920938463463374607431768211456
        % 18446744073709551616 +
      ((a / 16 + b * 268435456 % 340282366920938463463374607431768211456) % 340282366920938463463374607431768211456
        / 18446744073709551616 % 18446744073709551616) * 4294967295 % 18446744073709551616 ≥ 18446744073709551616 →
      ((a / 16 + b * 268435456 % 340282366920938463463374607431768211456) % 340282366920938463463374607431768211456
        % 18446744073709551616 +
      ((a / 16 + b * 268435456 % 340282366920938463463374607431768211456) % 340282366920938463463374607431768211456
        / 18446744073709551616 % 18446744073709551616) * 4294967295 % 18446744073709551616) % 18446744073709551616
        + 4294967295 < 18446744073709551616) := by
  have e1 : b * 268435456 % 340282366920938463463374607431768211456 = b * 268435456 := by omega
  rw [e1]
  have e2 : (a / 16 + b * 268435456) % 340282366920938463463374607431768211456 = a / 16 + b * 268435456 := by omega
  rw [e2]
  have hsb : a / 16 + b * 268435456 < 9903520314283042199192993792 := by omega
  refine ⟨by omega, ?_⟩
  generalize a / 16 + b * 268435456 = s at hsb ⊢
  have hqb : s / 18446744073709551616 < 536870912 := by omega
  have hrb : s % 18446744073709551616 < 18446744073709551616 := Nat.mod_lt _ (by decide)
  generalize s / 18446744073709551616 = q at hqb ⊢
  generalize s % 18446744073709551616 = r at hrb ⊢
  clear hsb e1 e2 ha hb
  have e3 : q % 18446744073709551616 = q := Nat.mod_eq_of_lt (by omega)
  rw [e3]
  have e4 : q * 4294967295 % 18446744073709551616 = q * 4294967295 := Nat.mod_eq_of_lt (by omega)
  rw [e4]
  refine ⟨by omega, fun h => ?_⟩
  omega


theorem mds_for2_ok (lo hi : List Nat) (hlo : ∀ k, lo.getD k 0 < 18446744073709551616)
    (hhi : ∀ k, hi.getD k 0 < 18446744073709551616) : ∀ (n r : Nat) (l : List Nat), r + n ≤ lo.length →
    r + n ≤ hi.length → r + n ≤ l.length → Loops.tip5_mds_generated_for2_ok lo hi n r l = true := by
  intro n
  induction n with
  | zero => intros; rfl
  | succ n ih =>
    intro r l h1 h2 h3
    rw [Loops.tip5_mds_generated_for2_ok]
    have c1 : decide (r < lo.length) = true := decide_eq_true (by omega)
    have c2 : decide (r < hi.length) = true := decide_eq_true (by omega)
    have c3 : decide (r < l.length) = true := decide_eq_true (by omega)
    have ih' : ∀ v, Loops.tip5_mds_generated_for2_ok lo hi n (r + 1) (l.set r v) = true :=
      fun v => ih (r + 1) (l.set r v) (by omega) (by omega) (by rw [List.length_set]; omega)
    obtain ⟨k1, k2, k3⟩ := recombine_checks (lo.getD r 0) (hi.getD r 0) (hlo r) (hhi r)
    generalize lo.getD r 0 = a at k1 k2 k3 ⊢
    generalize hi.getD r 0 = b at k1 k2 k3 ⊢
    simp only [c1, c2, c3, ih', Loops.bfe_from_raw_u64_ok, decide_eq_true k1, decide_eq_true k2, Bool.true_and, Bool.and_true]
    split
    · rename_i hover
      exact decide_eq_true (k3 (of_decide_eq_true hover))
    · rfl

theorem map_toNat_lt (l : List UInt64) (k : Nat) : (l.map UInt64.toNat).getD k 0 < 18446744073709551616 := by
  rw [List.getD_eq_getElem?_getD]
  cases h : (l.map UInt64.toNat)[k]? with
  | none => decide
  | some b =>
    obtain ⟨u, _, hu⟩ := List.mem_map.1 (List.mem_of_getElem? h)
    rw [← hu]; exact UInt64.toNat_lt u

theorem mds_generated_ok (s : State) : Loops.tip5_mds_generated_ok s.toList = true := by
  have hlen : s.toList.length = 16 := by simp
  unfold Loops.tip5_mds_generated_ok
  simp only [Nat.sub_zero, mds_for_eq, genfn_nat_lo, genfn_nat_hi]
  have h1 := mds_for_ok s.toList 16 0 (List.replicate 16 0) (List.replicate 16 0) (by rw [hlen]) (by simp) (by simp)
  have h2 : Loops.generated_function_nat_ok (updRange (fun k _ => s.toList.getD k 0 &&& 4294967295) 16 0 (List.replicate 16 0)) = true := by
    unfold Loops.generated_function_nat_ok; rw [updRange_length]; simp
  have h3 : Loops.generated_function_nat_ok (updRange (fun k _ => s.toList.getD k 0 / 4294967296) 16 0 (List.replicate 16 0)) = true := by
    unfold Loops.generated_function_nat_ok; rw [updRange_length]; simp
  have h4 := mds_for2_ok ((genFn (s.map limbLo)).toList.map UInt64.toNat) ((genFn (s.map limbHi)).toList.map UInt64.toNat)
    (map_toNat_lt _) (map_toNat_lt _) 16 0 s.toList (by simp) (by simp) (by rw [hlen])
  rw [h1, h2, h3, h4]; rfl

/-! ### `round`, `permutation` -/

theorem round_for_ok (ri : Nat) (hri : ri < 5) : ∀ (n i : Nat) (l : List Nat), i + n ≤ l.length → i + n ≤ 16 →
    Loops.tip5_round_for_ok ri n i l = true := by
  intro n
  induction n with
  | zero => intros; rfl
  | succ n ih =>
    intro i l h1 h2
    rw [Loops.tip5_round_for_ok]
    have e : (ri * 16 % 18446744073709551616 + i) % 18446744073709551616 = ri * 16 + i := by omega
    have e' : ri * 16 % 18446744073709551616 = ri * 16 := by omega
    have c1 : decide (i < l.length) = true := decide_eq_true (by omega)
    have c2 : decide (ri * 16 < 18446744073709551616) = true := decide_eq_true (by omega)
    have c3 : decide (ri * 16 + i < 18446744073709551616) = true := decide_eq_true (by omega)
    have c4 : decide (ri * 16 + i < 80) = true := decide_eq_true (by omega)
    have hrc : bfe_new (ROUND_CONSTANTS.getD (ri * 16 + i) 0) ≤ 18446744065119617026 := by
      rw [getD_eq _ _ (by rw [round_constants_len]; omega)]
      exact (round_constants_all ⟨ri, hri⟩ ⟨i, by omega⟩).1
    have c5 : bfe_add_ok (l.getD i 0) (bfe_new (ROUND_CONSTANTS.getD (ri * 16 + i) 0)) = true := by
      unfold bfe_add_ok
      exact decide_eq_true (by omega)
    have e'' : (ri * 16 + i) % 18446744073709551616 = ri * 16 + i := by omega
    have ih' : ∀ v, Loops.tip5_round_for_ok ri n (i + 1) (l.set i v) = true :=
      fun v => ih (i + 1) (l.set i v) (by rw [List.length_set]; omega) (by omega)
    simp only [e', e'', c1, c2, c3, c4, c5, ih', Bool.true_and]


theorem round_ok (s : State) (hs : CanonV s) (r : Nat) (hr : r < 5) : Loops.tip5_round_ok s.toList r = true := by
  unfold Loops.tip5_round_ok
  simp only [gen_sbox_layer_eq, gen_mds_generated_eq, Nat.sub_zero]
  rw [sbox_layer_ok s hs, mds_generated_ok, round_for_ok r hr 16 0 _ (by simp) (by omega)]
  rfl

theorem permutation_for_ok : ∀ (n i : Nat) (s : State), CanonV s → i + n ≤ 5 →
    Loops.tip5_permutation_for_ok n i s.toList = true := by
  intro n
  induction n with
  | zero => intros; rfl
  | succ n ih =>
    intro i s hs hin
    have hi : i < 5 := by omega
    rw [Loops.tip5_permutation_for_ok]
    simp only [gen_round_eq s i hi]
    rw [round_ok s hs i hi, ih (i + 1) (round ⟨i, hi⟩ s) (round_canon ⟨i, hi⟩ s hs) (by omega)]
    rfl

/-- **the regenerated Tip5 permutation never overflows, never indexes out of range** on a state of 16 canonical words
    (`< P`): its `_ok` flag is true, so debug and release builds compute the same thing -/
theorem permutation_ok (s : State) (hs : CanonV s) : Loops.tip5_permutation_ok s.toList = true :=
  permutation_for_ok 5 0 s hs (by omega)

/-- the same on encoded value lists (the form used by the sponge bridge) -/
theorem permutation_ok_enc {vs : List Nat} (hl : vs.length = 16) (hc : CanonL vs) :
    Loops.tip5_permutation_ok (enc vs) = true := by
  have hel : (enc vs).length = 16 := by rw [enc_length, hl]
  have hs : CanonV (toState (enc vs) hel) := by
    intro j hj
    have : (toState (enc vs) hel)[j] = (enc vs)[j]'(by rw [hel]; exact hj) := by
      simp [toState]
    rw [this]
    unfold enc
    rw [List.getElem_map]
    exact (new_spec _ (Nat.lt_trans (hc _ (List.getElem_mem _)) Pn_lt_W)).1
  have := permutation_ok (toState (enc vs) hel) hs
  rw [toState_toList] at this
  exact this

/-! ### sponge functions -/

theorem squeeze_ok {st : List Nat} (hl : st.length = 16) (hc : CanonL st) : Loops.tip5_squeeze_ok (enc st) = true := by
  have hlen : decide (10 ≤ (enc st).length) = true := decide_eq_true (by rw [enc_length, hl]; omega)
  show (((decide (10 ≤ (enc st).length)) && (10 == 10)) && (Loops.tip5_permutation_ok (enc st))) = true
  rw [hlen, permutation_ok_enc hl hc]; rfl

theorem absorb_ok {st block : List Nat} (hl : st.length = 16) (hc : CanonL st) (hbl : block.length = 10)
    (hbc : CanonL block) : Loops.tip5_absorb_ok (enc st) (enc block) = true := by
  have hlen : decide (10 ≤ (enc st).length) = true := decide_eq_true (by rw [enc_length, hl]; omega)
  have hb : ((enc block).length == 10) = true := by rw [enc_length, hbl]; rfl
  have hp : Loops.tip5_permutation_ok (enc block ++ (enc st).drop 10) = true := by
    rw [← enc_drop, ← enc_append]
    exact permutation_ok_enc (by rw [List.length_append, List.length_drop, hbl, hl]) (canon_append hbc (canon_drop 10 hc))
  show (((decide (10 ≤ (enc st).length)) && ((enc block).length == 10)) &&
    (Loops.tip5_permutation_ok (enc block ++ (enc st).drop 10))) = true
  rw [hlen, hb, hp]; rfl

/-- `sample_scalars`: no check fails on a canonical state when `3·num` fits `usize` -/
theorem sample_scalars_ok {st : List Nat} (hl : st.length = 16) (hc : CanonL st) (num : Nat)
    (hnum : num * 3 < 18446744073709551616) : Loops.tip5_sample_scalars_ok (enc st) num = true :=
  (gen_sample_scalars_eq hl hc num hnum).2 (fun s h1 h2 => permutation_ok_enc h1 h2)

/-! ### `pad_and_absorb_all`, `hash_varlen` -/

theorem pad_for_ok : ∀ (cs : List (List Nat)) (st : List Nat), st.length = 16 → CanonL st →
    (∀ c ∈ cs, c.length = 10 ∧ CanonL c) →
    Loops.tip5_pad_and_absorb_all_for_ok (cs.map enc) (enc st) = true := by
  intro cs
  induction cs with
  | nil => intro st _ _ _; rfl
  | cons c cs ih =>
    intro st hl hc hcs
    have hc1 := hcs c (List.mem_cons_self)
    have ha := gen_absorb_eq hl hc hc1.1 hc1.2
    have h1 : ((enc c).length == 10) = true := by rw [enc_length, hc1.1]; rfl
    have h2 := absorb_ok hl hc hc1.1 hc1.2
    have h3 := ih (absorb permV st c) ha.2.2 ha.2.1 (fun c' hc' => hcs c' (List.mem_cons_of_mem _ hc'))
    rw [List.map_cons, Loops.tip5_pad_and_absorb_all_for_ok]
    show (((enc c).length == 10) && (Loops.tip5_absorb_ok (enc st) (enc c) &&
      Loops.tip5_pad_and_absorb_all_for_ok (cs.map enc) (Loops.tip5_absorb (enc st) (enc c)))) = true
    rw [h1, h2, ha.1, h3]; rfl

theorem pad_and_absorb_all_ok {st input : List Nat} (hl : st.length = 16) (hc : CanonL st) (hi : CanonL input)
    (hlen : input.length + 10 < 2 ^ 64) : Loops.tip5_pad_and_absorb_all_ok (enc st) (enc input) = true := by
  have hf := pad_for_ok (padBlocks input) st hl hc (padBlocks_canon hi)
  have hnm : nextMultipleOf (input.length + 1) RATE < 2 ^ 64 := by
    rw [nextMultipleOf_eq]
    have := (padK_spec input.length).1
    rw [RATE_eq] at this
    omega
  have hnm' : nextMultipleOf (input.length + 1) RATE < 18446744073709551616 := by simpa using hnm
  have e0 : (enc input).length + 1 = input.length + 1 := by rw [enc_length]
  have e1 : (input.length + 1) % 18446744073709551616 = input.length + 1 := by
    apply Nat.mod_eq_of_lt; omega
  have e2 : TF.RustIter.nextMultipleOf (input.length + 1) 10 = nextMultipleOf (input.length + 1) RATE := rfl
  have c1 : decide (input.length + 1 < 18446744073709551616) = true := decide_eq_true (by omega)
  have c2 : decide (nextMultipleOf (input.length + 1) RATE < 18446744073709551616) = true := decide_eq_true hnm'
  unfold Loops.tip5_pad_and_absorb_all_ok
  simp only [e0, e1, e2, c1, c2]
  rw [Nat.mod_eq_of_lt hnm', padded_enc]
  unfold TF.RustIter.chunks
  rw [enc_length, chunks_enc]
  have hf' : Loops.tip5_pad_and_absorb_all_for_ok (List.map enc (chunksOf 10 (padded input).length (padded input))) (enc st)
      = true := hf
  rw [hf']; rfl

/-- `hash_varlen`: no check fails on any canonical input that fits in memory -/
theorem hash_varlen_ok {input : List Nat} (hi : CanonL input) (hlen : input.length + 10 < 2 ^ 64) :
    Loops.tip5_hash_varlen_ok (enc input) = true := by
  have hil : initState.length = 16 := by decide
  have hic : CanonL initState := by
    intro x hx
    rw [List.eq_of_mem_replicate (show x ∈ List.replicate 16 0 from hx)]; unfold Pn; omega
  have hp := gen_pad_and_absorb_all_eq hil hic hi hlen
  have h1 := hp.1
  rw [padAndAbsorbAll_eq] at h1
  simp only [Option.map_some, Option.some.injEq] at h1
  have hsq := gen_squeeze_eq hp.2.2 hp.2.1
  unfold Loops.tip5_hash_varlen_ok
  rw [gen_init_eq.1, gen_init_eq.2]
  simp only [Option.elim_some, Bool.true_and]
  rw [pad_and_absorb_all_ok hil hic hi hlen, h1, squeeze_ok hp.2.2 hp.2.1, hsq.1]
  simp only [squeeze, Bool.true_and]
  have hl10 : (enc (List.take RATE (List.foldl (absorb permV) initState (padBlocks input)))).length = 10 := by
    rw [enc_length, List.length_take, hp.2.2]; rfl
  simp only [hl10, List.length_take]
  decide

end TF.GenBridge.SpongeOk
