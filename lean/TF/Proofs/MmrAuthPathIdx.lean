import TF.Proofs.MmrNodeIndex
/-!
# `get_authentication_path_node_indices` (shared_advanced.rs:116) in the node-index theory of `MmrNodeIndex.lean`

Coordinates: the node `(l, j)` is the root of the aligned block `j` of `2^l` leaves; its post-order index is
`nodeIdx l j`.  Its ancestor `t` levels up is `(l + t, j / 2^t)` (`anc l j t`), the sibling of that ancestor is
`(l + t, sibBlk (j / 2^t))`.  `sibsUp l j d` lists the node indices of the siblings of the first `d` nodes on the way
up, bottom-up — the authentication path from `(l, j)` to (excluding) `anc l j d`.

What the Rust loop does (`authPathLoop_climb`, `get_auth_path_spec`): starting at `start = nodeIdx l j` it climbs to
the parent (in the one infinite post-order numbered tree — the MMR's `node_count` only serves as a *bound*) while the
current node index is `≤ node_count` and `≠ peak_node_index`, pushing the sibling of the current node each round; it
answers `Some(path)` iff the node index at which the climb stops equals `peak_node_index`.  So with `d` the first
level at which `anc l j d > node_count ∨ anc l j d = peak`:

* `Some (sibsUp l j d)` iff `anc l j d = peak` — in particular for every ancestor-or-self `peak = anc l j d` all of
  whose *proper* descendants on the path are `≤ node_count` (the ancestor itself may exceed `node_count`);
* `None` otherwise (the climb leaves the range `1 … node_count` without meeting `peak`: `peak` is no ancestor-or-self
  of `start`, or a node of the path below `peak` already exceeds `node_count`; for `start > node_count` the loop body
  never runs and the answer is `Some []` iff `start = peak`).

The climb ends after at most `63 − l` rounds because the root `2^64 − 1` of the height-63 tree exceeds every
`node_count ≤ 2^64 − 2`; no `u64` operation wraps.
-/
namespace TF.MmrE
open TF TF.Gen TF.Model.Mmr TF.Spec.MmrE

/-- node index of the ancestor `t` levels above the node `(l, j)` -/
def anc (l j t : Nat) : Nat := nodeIdx (l + t) (j / 2 ^ t)

/-- node indices of the siblings of `(l, j)`, of its parent, … — the first `d` of them, bottom-up -/
def sibsUp (l j d : Nat) : List Nat := (List.range d).map fun t => nodeIdx (l + t) (sibBlk (j / 2 ^ t))

theorem anc_zero (l j : Nat) : anc l j 0 = nodeIdx l j := by simp [anc]

theorem anc_succ (l j t : Nat) : anc (l + 1) (j / 2) t = anc l j (t + 1) := by
  unfold anc
  rw [Nat.div_div_eq_div_mul, ← Nat.pow_succ']
  congr 1; omega

theorem anc_add (l j a b : Nat) : anc (l + a) (j / 2 ^ a) b = anc l j (a + b) := by
  unfold anc
  rw [Nat.div_div_eq_div_mul, ← Nat.pow_add, Nat.add_assoc]

theorem anc_lt_succ (l j t : Nat) : anc l j t < anc l j (t + 1) := by
  have := nodeIdx_lt_parent (l + t) (j / 2 ^ t)
  have e2 : j / 2 ^ t / 2 = j / 2 ^ (t + 1) := by rw [Nat.div_div_eq_div_mul, Nat.pow_succ]
  rw [e2] at this
  exact this

theorem anc_strictMono (l j : Nat) {a b : Nat} (h : a < b) : anc l j a < anc l j b := by
  induction h with
  | refl => exact anc_lt_succ l j a
  | step _ ih => exact Nat.lt_trans ih (anc_lt_succ l j _)

theorem anc_mono (l j : Nat) {a b : Nat} (h : a ≤ b) : anc l j a ≤ anc l j b := by
  rcases Nat.lt_or_ge a b with h' | h'
  · exact Nat.le_of_lt (anc_strictMono l j h')
  · have : a = b := by omega
    subst this; exact Nat.le_refl _

theorem sibsUp_zero (l j : Nat) : sibsUp l j 0 = [] := rfl

theorem sibsUp_succ (l j d : Nat) : sibsUp l j (d + 1) = nodeIdx l (sibBlk j) :: sibsUp (l + 1) (j / 2) d := by
  unfold sibsUp
  rw [List.range_succ_eq_map, List.map_cons, List.map_map]
  simp only [Nat.pow_zero, Nat.div_one, Nat.add_zero, List.cons.injEq, true_and]
  apply List.map_congr_left
  intro t _
  simp only [Function.comp, Nat.succ_eq_add_one]
  have e : l + 1 + t = l + (t + 1) := by omega
  rw [Nat.div_div_eq_div_mul, ← Nat.pow_succ', e]

theorem sibsUp_succ_last (l j d : Nat) :
    sibsUp l j (d + 1) = sibsUp l j d ++ [nodeIdx (l + d) (sibBlk (j / 2 ^ d))] := by
  unfold sibsUp
  rw [List.range_succ, List.map_append]
  rfl

theorem sibsUp_length (l j d : Nat) : (sibsUp l j d).length = d := by simp [sibsUp]

/-! ## which `(l, j)` are node indices below `2^64` -/

theorem nodeIdx_top : nodeIdx 63 0 = 2 ^ 64 - 1 := by
  have := nodeIdx_eq 63 0
  simp [popCount_zero] at this
  omega

/-- a node index below `2^64` belongs to the tree of height 63: `l ≤ 63`, `j < 2^(63 − l)` -/
theorem coords_of_lt (l j : Nat) (hlt : nodeIdx l j < 2 ^ 64) : l ≤ 63 ∧ j < 2 ^ (63 - l) := by
  have h2 := two_pow_le_nodeIdx l j
  have hl : l ≤ 63 := by
    by_contra hc
    have : 2 ^ 65 ≤ 2 ^ (l + 1) := Nat.pow_le_pow_right (by omega) (by omega)
    omega
  refine ⟨hl, ?_⟩
  by_contra hc
  have hm := nodeIdx_mono l (Nat.le_of_not_lt hc)
  have he := nodeIdx_eq l (2 ^ (63 - l))
  rw [pc_two_pow] at he
  have e : (2 ^ (63 - l) + 1) * 2 ^ (l + 1) = 2 ^ 64 + 2 ^ (l + 1) := by
    have : 2 ^ 64 = 2 ^ (63 - l) * 2 ^ (l + 1) := by rw [← Nat.pow_add]; congr 1; omega
    rw [this]; ring
  have : 2 ≤ 2 ^ (l + 1) := by rw [Nat.pow_succ]; have : 0 < 2 ^ l := Nat.pow_pos (by omega); omega
  omega

/-- all ancestors up to level 63 of a node of the height-63 tree are node indices `≤ 2^64 − 1` -/
theorem anc_le_top (l j t : Nat) (hlt : nodeIdx l j < 2 ^ 64) (ht : l + t ≤ 63) : anc l j t ≤ 2 ^ 64 - 1 := by
  obtain ⟨hl, hj⟩ := coords_of_lt l j hlt
  have h := anc_mono l j (a := t) (b := 63 - l) (by omega)
  have e : anc l j (63 - l) = nodeIdx 63 0 := by
    unfold anc
    rw [Nat.div_eq_of_lt hj]
    congr 1; omega
  rw [e, nodeIdx_top] at h
  exact h

theorem anc_top (l j : Nat) (hlt : nodeIdx l j < 2 ^ 64) : anc l j (63 - l) = 2 ^ 64 - 1 := by
  obtain ⟨hl, hj⟩ := coords_of_lt l j hlt
  unfold anc
  rw [Nat.div_eq_of_lt hj, ← nodeIdx_top]
  congr 1; omega

/-- an ancestor below `2^64` is at most at level 63 -/
theorem level_le_of_anc_lt (l j t : Nat) (h : anc l j t < 2 ^ 64) : l + t ≤ 63 := (coords_of_lt _ _ h).1

/-! ## the loop -/

theorem authPathLoop_succ (peak nc f x : Nat) (acc : List Nat) :
    authPathLoop peak nc (f + 1) x acc =
      if x ≤ nc ∧ x ≠ peak then
        match siblingAndParent x with
        | none => none
        | some (_, s, p) => authPathLoop peak nc f p (acc ++ [s])
      else some (x, acc) := by
  rw [authPathLoop]
  unfold siblingAndParent
  split
  · cases right_lineage_length_and_own_height x with
    | none => rfl
    | some v =>
      obtain ⟨rc, h⟩ := v
      simp only
      split <;> rfl
  · rfl

/-- one round at the node `(l, j)` (not the root of the height-63 tree) -/
theorem authPathLoop_step (peak nc f l j : Nat) (acc : List Nat) (hl : l < 63)
    (hlt : nodeIdx (l + 1) (j / 2) < 2 ^ 64) :
    authPathLoop peak nc (f + 1) (nodeIdx l j) acc =
      if nodeIdx l j ≤ nc ∧ nodeIdx l j ≠ peak then
        authPathLoop peak nc f (nodeIdx (l + 1) (j / 2)) (acc ++ [nodeIdx l (sibBlk j)])
      else some (nodeIdx l j, acc) := by
  rw [authPathLoop_succ, siblingAndParent_spec l j hl hlt]

/-- **the climb**: if the loop condition holds at the first `d` nodes of the path from `(l, j)` upwards and fails at
    the `d`-th ancestor, the loop ends there with the siblings of the first `d` nodes, bottom-up -/
theorem authPathLoop_climb (peak nc : Nat) : ∀ (d l j : Nat) (acc : List Nat) (fuel : Nat), d < fuel →
    anc l j d < 2 ^ 64 →
    (∀ t, t < d → anc l j t ≤ nc ∧ anc l j t ≠ peak) → ¬ (anc l j d ≤ nc ∧ anc l j d ≠ peak) →
    authPathLoop peak nc fuel (nodeIdx l j) acc = some (anc l j d, acc ++ sibsUp l j d) := by
  intro d
  induction d with
  | zero =>
    intro l j acc fuel hf _ _ hstop
    obtain ⟨f, rfl⟩ : ∃ f, fuel = f + 1 := ⟨fuel - 1, by omega⟩
    rw [anc_zero] at hstop
    rw [authPathLoop_succ, if_neg hstop, anc_zero, sibsUp_zero, List.append_nil]
  | succ d ih =>
    intro l j acc fuel hf hlt hgo hstop
    obtain ⟨f, rfl⟩ : ∃ f, fuel = f + 1 := ⟨fuel - 1, by omega⟩
    have hlev := level_le_of_anc_lt l j (d + 1) hlt
    have h0 := hgo 0 (by omega)
    rw [anc_zero] at h0
    have hpar : nodeIdx (l + 1) (j / 2) < 2 ^ 64 := by
      have h1 := anc_mono l j (a := 1) (b := d + 1) (by omega)
      have e : anc l j 1 = nodeIdx (l + 1) (j / 2) := by simp [anc]
      omega
    rw [authPathLoop_step peak nc f l j acc (by omega) hpar, if_pos h0]
    rw [ih (l + 1) (j / 2) _ f (by omega) (by rw [anc_succ]; exact hlt)
      (fun t ht => by rw [anc_succ]; exact hgo (t + 1) (by omega)) (by rw [anc_succ]; exact hstop)]
    rw [anc_succ, sibsUp_succ, List.append_assoc]
    rfl

/-- a decidable predicate that holds at `m` has a first witness `≤ m` -/
theorem exists_first (P : Nat → Prop) [DecidablePred P] : ∀ m, P m → ∃ d, d ≤ m ∧ P d ∧ ∀ t, t < d → ¬ P t := by
  intro m
  induction m using Nat.strongRecOn with
  | _ m ih =>
    intro hm
    by_cases h : ∃ t, t < m ∧ P t
    · obtain ⟨t, ht, hPt⟩ := h
      obtain ⟨d, hd, hPd, hmin⟩ := ih t ht hPt
      exact ⟨d, by omega, hPd, hmin⟩
    · exact ⟨m, Nat.le_refl _, hm, fun t ht hPt => h ⟨t, ht, hPt⟩⟩

/-- the loop always ends (for `node_count ≤ 2^64 − 2`), at the first level `d` at which the ancestor exceeds
    `node_count` or equals `peak`; any fuel above `63 − l` suffices -/
theorem authPathLoop_total (l j peak nc : Nat) (hlt : nodeIdx l j < 2 ^ 64) (hnc : nc < 2 ^ 64 - 1) :
    ∃ d, l + d ≤ 63 ∧ (nc < anc l j d ∨ anc l j d = peak) ∧ (∀ t, t < d → anc l j t ≤ nc ∧ anc l j t ≠ peak) ∧
      ∀ (fuel : Nat) (acc : List Nat), 63 - l < fuel →
        authPathLoop peak nc fuel (nodeIdx l j) acc = some (anc l j d, acc ++ sibsUp l j d) := by
  obtain ⟨hl, _⟩ := coords_of_lt l j hlt
  have htop := anc_top l j hlt
  obtain ⟨d, hd, hPd, hmin⟩ := exists_first (fun t => nc < anc l j t ∨ anc l j t = peak) (63 - l)
    (Or.inl (by rw [htop]; omega))
  have hgo : ∀ t, t < d → anc l j t ≤ nc ∧ anc l j t ≠ peak := by
    intro t ht
    have := hmin t ht
    constructor
    · by_contra hc; exact this (Or.inl (by omega))
    · intro hc; exact this (Or.inr hc)
  refine ⟨d, by omega, hPd, hgo, ?_⟩
  intro fuel acc hf
  have hle := anc_le_top l j d hlt (by omega)
  exact authPathLoop_climb peak nc d l j acc fuel (by omega) (by omega) hgo
    (by rintro ⟨h1, h2⟩; rcases hPd with h | h <;> omega)

/-- **`get_authentication_path_node_indices(start, peak, node_count)`, complete description** for every start node
    `1 ≤ nodeIdx l j < 2^64`, every `peak` and every `node_count ≤ 2^64 − 2`: the loop terminates (within the fuel
    of the model, at most `63 − l` rounds); with `d` the first level at which the ancestor exceeds `node_count` or
    equals `peak`, the result is `Some(siblings of the first d nodes of the path)` if that ancestor is `peak`, and
    `None` otherwise -/
theorem get_auth_path_spec (l j peak nc : Nat) (hlt : nodeIdx l j < 2 ^ 64) (hnc : nc < 2 ^ 64 - 1) :
    ∃ d, l + d ≤ 63 ∧ (nc < anc l j d ∨ anc l j d = peak) ∧ (∀ t, t < d → anc l j t ≤ nc ∧ anc l j t ≠ peak) ∧
      get_authentication_path_node_indices (nodeIdx l j) peak nc
        = some (if anc l j d = peak then some (sibsUp l j d) else none) := by
  obtain ⟨d, hd, hPd, hgo, hloop⟩ := authPathLoop_total l j peak nc hlt hnc
  refine ⟨d, hd, hPd, hgo, ?_⟩
  unfold get_authentication_path_node_indices
  rw [hloop (descentFuel + 1) [] (by unfold descentFuel; omega)]
  simp only [List.nil_append]
  by_cases hp : anc l j d = peak
  · rw [if_pos hp, if_pos hp]
  · rw [if_neg hp, if_neg hp]

/-- **ancestor case** (the reusable form): for a node `(l, j)` and its ancestor-or-self `d` levels up, provided all
    nodes of the path strictly below that ancestor are `≤ node_count`, the result is exactly the list of sibling node
    indices bottom-up — for every `node_count` (no bound needed: the climb stops at the ancestor).  (E.g. `l = 0`, `j` a leaf index, `d` the height of its tree: the membership-proof positions;
    or `(l, j)` an old peak and the ancestor the new peak after an append.) -/
theorem get_auth_path_ancestor (l j d nc : Nat) (hlt : anc l j d < 2 ^ 64)
    (hbelow : ∀ t, t < d → anc l j t ≤ nc) :
    get_authentication_path_node_indices (nodeIdx l j) (anc l j d) nc = some (some (sibsUp l j d)) := by
  have hlt0 : nodeIdx l j < 2 ^ 64 := by
    have := anc_mono l j (a := 0) (b := d) (by omega)
    rw [anc_zero] at this; omega
  have hloop := authPathLoop_climb (anc l j d) nc d l j [] (descentFuel + 1)
    (by have := level_le_of_anc_lt l j d hlt; unfold descentFuel; omega) hlt
    (fun t ht => ⟨hbelow t ht, Nat.ne_of_lt (anc_strictMono l j ht)⟩) (by simp)
  unfold get_authentication_path_node_indices
  rw [hloop]
  simp

/-- the result is never "does not terminate" and it is `Some(path)` **iff** `peak` is an ancestor-or-self of the
    start node such that every node of the path strictly below it is `≤ node_count`; the path is then `sibsUp` -/
theorem get_auth_path_some_iff (l j peak nc : Nat) (hlt : nodeIdx l j < 2 ^ 64) (hnc : nc < 2 ^ 64 - 1)
    (path : List Nat) :
    get_authentication_path_node_indices (nodeIdx l j) peak nc = some (some path) ↔
      ∃ d, l + d ≤ 63 ∧ anc l j d = peak ∧ (∀ t, t < d → anc l j t ≤ nc) ∧ path = sibsUp l j d := by
  constructor
  · intro h
    obtain ⟨d, hd, _, hgo, hres⟩ := get_auth_path_spec l j peak nc hlt hnc
    rw [hres] at h
    by_cases hp : anc l j d = peak
    · rw [if_pos hp] at h
      have : sibsUp l j d = path := by simpa using h
      exact ⟨d, hd, hp, fun t ht => (hgo t ht).1, this.symm⟩
    · rw [if_neg hp] at h
      simp at h
  · rintro ⟨d, hd, hp, hbelow, rfl⟩
    have hle := anc_le_top l j d hlt hd
    rw [← hp]
    exact get_auth_path_ancestor l j d nc (by omega) hbelow

/-- `None` **exactly** when `peak` is not reached: every level at which the ancestor equals `peak` lies above a node
    of the path that already exceeds `node_count` (in particular when `peak` is no ancestor-or-self at all) -/
theorem get_auth_path_none_iff (l j peak nc : Nat) (hlt : nodeIdx l j < 2 ^ 64) (hnc : nc < 2 ^ 64 - 1) :
    get_authentication_path_node_indices (nodeIdx l j) peak nc = some none ↔
      ∀ d, l + d ≤ 63 → anc l j d = peak → ∃ t, t < d ∧ nc < anc l j t := by
  obtain ⟨d, hd, hstop, hgo, hres⟩ := get_auth_path_spec l j peak nc hlt hnc
  rw [hres]
  constructor
  · intro h d' hd' hp'
    by_cases hp : anc l j d = peak
    · rw [if_pos hp] at h; simp at h
    · -- the climb stopped at `d` because `anc d > nc`; `d' > d` (below `d` nothing equals `peak`)
      have hnc' : nc < anc l j d := by rcases hstop with h1 | h1; exact h1; exact absurd h1 hp
      refine ⟨d, ?_, hnc'⟩
      rcases Nat.lt_trichotomy d' d with h1 | h1 | h1
      · exact absurd hp' (hgo d' h1).2
      · subst h1; exact absurd hp' hp
      · exact h1
  · intro h
    by_cases hp : anc l j d = peak
    · obtain ⟨t, ht, hnt⟩ := h d hd hp
      have := (hgo t ht).1
      omega
    · rw [if_neg hp]

/-! ## `start_node_index = 0` (not a node index) -/

theorem nodeIdx_zero_zero : nodeIdx 0 0 = 1 := by
  have := nodeIdx_eq 0 0
  simp [popCount_zero] at this
  omega

theorem siblingAndParent_zero : siblingAndParent 0 = some (false, 0, 1) := by decide +kernel

/-- **`start_node_index = 0`** with the arithmetic of a release build (the arithmetic of the model):
    `leftmost_ancestor(0)` wraps to `(0, 2^32 − 1)`, so "node 0" is taken for a left child of height `2^32 − 1`; its
    "sibling" `0 + (1 << 0) − 1 = 0` is pushed and the climb continues at its "parent" `0 + (1 << 0) = 1`.  Hence
    the result is `Some []` for `peak = 0` and otherwise that for start `1` with a `0` in front.
    (A debug build panics in `leftmost_ancestor`: `64 − 64 − 1` underflows.) -/
theorem get_auth_path_start_zero (peak nc : Nat) (hnc : nc < 2 ^ 64 - 1) :
    get_authentication_path_node_indices 0 peak nc =
      if peak = 0 then some (some [])
      else (get_authentication_path_node_indices 1 peak nc).map (fun res => res.map (fun p => 0 :: p)) := by
  unfold get_authentication_path_node_indices
  rw [authPathLoop_succ]
  by_cases hp : peak = 0
  · subst hp
    simp
  · have h0 : (0 ≤ nc ∧ 0 ≠ peak) := ⟨Nat.zero_le _, fun h => hp h.symm⟩
    rw [if_pos h0, if_neg hp, siblingAndParent_zero]
    simp only [List.nil_append]
    obtain ⟨d, _, _, _, hloop⟩ := authPathLoop_total 0 0 peak nc (by rw [nodeIdx_zero_zero]; omega) hnc
    rw [nodeIdx_zero_zero] at hloop
    rw [hloop descentFuel [0] (by unfold descentFuel; omega),
      hloop (descentFuel + 1) [] (by unfold descentFuel; omega)]
    by_cases hq : anc 0 0 d = peak
    · simp [hq]
    · simp [hq]

end TF.MmrE
