import TF.Model.PolyDiv
import TF.Proofs.Poly
import Mathlib.Algebra.Polynomial.FieldDivision
import Mathlib.Algebra.Polynomial.Div
import Mathlib.Tactic.LinearCombination
import Mathlib.Tactic.FieldSimp
import Mathlib.Algebra.Polynomial.Reverse
/-!
Helper lemmas for property C09 (`TF/Props/C09.lean`): the division model of `TF/Model/PolyDiv.lean` through
`denote : List K → K[X]` (shared core, `TF/Proofs/Poly.lean`) for an arbitrary field `K`.
-/
open Polynomial

namespace TF.Proofs.PolyD
open TF TF.Model.Poly TF.Model.PolyD
open Classical

variable {K : Type} [Field K]

/-! ### the division certificate -/

/-- quotient and remainder are determined by `a = q·d + r ∧ deg r < deg d` -/
theorem divmod_unique' {a d q r q' r' : K[X]} (h1 : a = q * d + r) (hr : r.degree < d.degree)
    (h2 : a = q' * d + r') (hr' : r'.degree < d.degree) : q = q' ∧ r = r' := by
  have hd : d ≠ 0 := by
    rintro rfl
    simp at hr
  have hq : q = q' := by
    by_contra hne
    have hne' : q - q' ≠ 0 := sub_ne_zero.2 hne
    have heq : (q - q') * d = r' - r := by linear_combination h2 - h1
    have hdeg : d.degree ≤ ((q - q') * d).degree := by
      rw [degree_mul]
      have : (0 : WithBot ℕ) ≤ (q - q').degree := zero_le_degree_iff.2 hne'
      calc d.degree = 0 + d.degree := by simp
        _ ≤ (q - q').degree + d.degree := by gcongr
    have hlt : (r' - r).degree < d.degree := lt_of_le_of_lt (degree_sub_le _ _) (max_lt hr' hr)
    rw [heq] at hdeg
    exact absurd hlt (not_lt.2 hdeg)
  subst hq
  refine ⟨rfl, ?_⟩
  have : q * d + r = q * d + r' := h1.symm.trans h2
  exact add_left_cancel this

/-- the certificate identifies Mathlib's `/` and `%` -/
theorem div_mod_of_certificate {a d q r : K[X]} (h1 : a = q * d + r) (hr : r.degree < d.degree) :
    q = a / d ∧ r = a % d := by
  have hd : d ≠ 0 := by
    rintro rfl
    simp at hr
  have h2 : a = (a / d) * d + a % d := by
    have := EuclideanDomain.div_add_mod a d
    rw [mul_comm] at this
    exact this.symm
  exact divmod_unique' h1 hr h2 (degree_mod_lt a hd)

/-! ### reversed storages -/

variable (root : Nat → Option K)
local notation "FK" => FieldOps.ofField K root

theorem denote_reverse_cons (c : K) (l : List K) :
    denote (c :: l).reverse = denote l.reverse + X ^ l.length * C c := by
  rw [List.reverse_cons, denote_append]; simp

theorem degree_denote_lt (l : List K) : (denote l).degree < l.length := by
  rw [Polynomial.degree_lt_iff_coeff_zero]
  intro m hm
  rw [coeff_denote, getD_of_ge _ _ _ hm]

theorem normalize_eq_reverse_revNorm (p : List K) : normalize FK p = (revNorm FK p).reverse := rfl

theorem denote_revNorm_reverse (p : List K) : denote (revNorm FK p).reverse = denote p := by
  rw [← normalize_eq_reverse_revNorm, denote_normalize]

theorem revNorm_eq_nil_iff (p : List K) : revNorm FK p = [] ↔ denote p = 0 := by
  rw [← normalize_eq_nil_iff root p, normalize_eq_reverse_revNorm]
  simp

theorem revNorm_head_ne_zero {p : List K} {c : K} {tl : List K} (h : revNorm FK p = c :: tl) : c ≠ 0 := by
  unfold revNorm at h
  have := List.head_dropWhile_not (FK).isZero (l := p.reverse) (by rw [h]; simp)
  simp only [h, List.head_cons] at this
  intro hc
  rw [hc] at this
  simp at this

theorem length_revNorm (p : List K) : (revNorm FK p).length = degSucc FK p := by
  unfold degSucc; rw [normalize_eq_reverse_revNorm]; simp

/-- the denoted polynomial of a reversed storage with non-zero head has degree `length - 1` -/
theorem degree_denote_reverse_cons {c : K} (hc : c ≠ 0) (tl : List K) :
    (denote (c :: tl).reverse).degree = tl.length := by
  rw [denote_reverse_cons]
  have h1 : (denote tl.reverse).degree < tl.length := by
    have := degree_denote_lt tl.reverse
    simpa using this
  have h2 : (X ^ tl.length * C c : K[X]).degree = tl.length := by
    rw [mul_comm, degree_C_mul_X_pow _ hc]
  rw [degree_add_eq_right_of_degree_lt (by rw [h2]; exact h1), h2]

/-! ### long division -/

theorem subScaled_spec (qc : K) (tl rest : List K) (h : tl.length ≤ rest.length) :
    ∃ r', subScaled FK qc tl rest = some r' ∧ r'.length = rest.length ∧
      denote r'.reverse = denote rest.reverse - C qc * X ^ (rest.length - tl.length) * denote tl.reverse := by
  induction tl generalizing rest with
  | nil => exact ⟨rest, by simp [subScaled]⟩
  | cons t tl ih =>
    cases rest with
    | nil => simp at h
    | cons r rest =>
      have h' : tl.length ≤ rest.length := by simpa using h
      obtain ⟨r', h1, h2, h3⟩ := ih rest h'
      refine ⟨(r - qc * t) :: r', by simp [subScaled, h1], by simp [h2], ?_⟩
      rw [denote_reverse_cons, denote_reverse_cons, denote_reverse_cons, h3, h2]
      have e : (rest.length + 1) - (tl.length + 1) = rest.length - tl.length := by omega
      simp only [List.length_cons, e]
      have hx : (X : K[X]) ^ rest.length = X ^ (rest.length - tl.length) * X ^ tl.length := by
        rw [← pow_add]; congr 1; omega
      rw [hx]
      simp only [C_sub, C_mul]
      ring

theorem divLoop_spec {lc : K} (hlc : lc ≠ 0) (tl : List K) (n : Nat) (rr q : List K)
    (hlen : rr.length = tl.length + n) :
    ∃ q' r', divLoop FK lc⁻¹ tl n rr q = some (q', r') ∧ r'.length = tl.length ∧
      denote q' * denote (lc :: tl).reverse + denote r'.reverse
        = denote q * X ^ n * denote (lc :: tl).reverse + denote rr.reverse := by
  induction n generalizing rr q with
  | zero => exact ⟨q, rr, by simp [divLoop], by simpa using hlen, by simp⟩
  | succ n ih =>
    cases rr with
    | nil => simp at hlen
    | cons c rest =>
      have hrest : rest.length = tl.length + n := by simp at hlen; omega
      by_cases hz : c * lc⁻¹ = 0
      · have hc : c = 0 := by
          rcases mul_eq_zero.1 hz with h | h
          · exact h
          · exact absurd (inv_eq_zero.1 h) hlc
        obtain ⟨q', r', h1, h2, h3⟩ := ih rest ((c * lc⁻¹) :: q) hrest
        refine ⟨q', r', ?_, h2, ?_⟩
        · have hz' : (FK).isZero ((FK).mul c lc⁻¹) = true := (FieldOps.ofField_isZero root _).2 hz
          simp only [divLoop]
          rw [if_pos hz']
          exact h1
        · rw [h3, denote_reverse_cons c rest, hz, hc, denote_cons]
          simp only [map_zero, mul_zero, add_zero, zero_add, pow_succ]
          ring
      · obtain ⟨rest', hs1, hs2, hs3⟩ := subScaled_spec root (c * lc⁻¹) tl rest (by omega)
        obtain ⟨q', r', h1, h2, h3⟩ := ih rest' ((c * lc⁻¹) :: q) (by rw [hs2]; exact hrest)
        refine ⟨q', r', ?_, h2, ?_⟩
        · have hz' : ¬ (FK).isZero ((FK).mul c lc⁻¹) = true := by
            rw [FieldOps.ofField_isZero]; exact hz
          simp only [divLoop]
          rw [if_neg hz']
          show (match subScaled FK (c * lc⁻¹) tl rest with
            | none => none
            | some rest' => divLoop FK lc⁻¹ tl n rest' (c * lc⁻¹ :: q)) = _
          rw [hs1]
          exact h1
        · rw [h3, hs3, denote_reverse_cons c rest, denote_reverse_cons lc tl, denote_cons, hrest]
          have e : tl.length + n - tl.length = n := by omega
          rw [e]
          have hcc : (C (c * lc⁻¹) : K[X]) * C lc = C c := by
            rw [← C_mul, mul_assoc, inv_mul_cancel₀ hlc, mul_one]
          simp only [pow_succ, pow_add]
          linear_combination (X ^ tl.length * X ^ n) * hcc

/-- `naive_divide` on any dividend, any non-zero divisor, any storage: returns the certificate -/
theorem naiveDivide_spec (a d : List K) (hd : denote d ≠ 0) :
    ∃ q r, naiveDivide FK a d = some (q, r) ∧ denote a = denote q * denote d + denote r ∧
      (denote r).degree < (denote d).degree := by
  unfold naiveDivide
  cases hrd : revNorm FK d with
  | nil => exact absurd ((revNorm_eq_nil_iff root d).1 hrd) hd
  | cons lc tl =>
    have hlc : lc ≠ 0 := revNorm_head_ne_zero root hrd
    have hD : denote (lc :: tl).reverse = denote d := by rw [← hrd, denote_revNorm_reverse]
    have hdegD : (denote d).degree = tl.length := by rw [← hD, degree_denote_reverse_cons hlc]
    simp only [FieldOps.ofField_inv]
    split
    · next hlt =>
      refine ⟨[], a, rfl, by simp, ?_⟩
      rw [hdegD, ← denote_revNorm_reverse root a]
      refine lt_of_lt_of_le (degree_denote_lt _) ?_
      simp only [List.length_reverse, Nat.cast_le]
      omega
    · next hge =>
      have hlen : (revNorm FK a).length = tl.length + ((revNorm FK a).length - tl.length) := by omega
      obtain ⟨q', r', h1, h2, h3⟩ := divLoop_spec root hlc tl _ (revNorm FK a) [] hlen
      rw [h1]
      refine ⟨q', r'.reverse, rfl, ?_, ?_⟩
      · rw [hD] at h3
        simp only [denote_nil, zero_mul, zero_add] at h3
        rw [denote_revNorm_reverse] at h3
        exact h3.symm
      · rw [hdegD]
        have := degree_denote_lt r'.reverse
        simpa [h2] using this

/-- `naive_divide` panics exactly for the zero divisor (any storage of zero) -/
theorem naiveDivide_zero (a d : List K) (hd : denote d = 0) : naiveDivide FK a d = none := by
  unfold naiveDivide
  rw [(revNorm_eq_nil_iff root d).2 hd]

theorem div_spec (a d : List K) (hd : denote d ≠ 0) :
    ∃ q, div FK a d = some q ∧ denote q = denote a / denote d := by
  obtain ⟨q, r, h1, h2, h3⟩ := naiveDivide_spec root a d hd
  exact ⟨q, by unfold Model.PolyD.div; rw [h1]; rfl, (div_mod_of_certificate h2 h3).1⟩

theorem rem_spec (a d : List K) (hd : denote d ≠ 0) :
    ∃ r, rem FK a d = some r ∧ denote r = denote a % denote d := by
  obtain ⟨q, r, h1, h2, h3⟩ := naiveDivide_spec root a d hd
  exact ⟨r, by unfold Model.PolyD.rem; rw [h1]; rfl, (div_mod_of_certificate h2 h3).2⟩

/-! ### degrees -/

theorem degSucc_spec (p : List K) :
    degSucc FK p = if denote p = 0 then 0 else (denote p).natDegree + 1 := by
  unfold degSucc
  split
  · next h => rw [(normalize_eq_nil_iff root p).2 h]; rfl
  · next h => exact length_normalize root p h

theorem degree_eq_degSucc (p : List K) : Model.Poly.degree FK p = (degSucc FK p : Int) - 1 := rfl

theorem degSucc_lt_of_degree_lt {r y : List K} (h : (denote r).degree < (denote y).degree) :
    degSucc FK r < degSucc FK y := by
  rw [degSucc_spec, degSucc_spec]
  have hy : denote y ≠ 0 := by
    intro h0; rw [h0] at h; simp at h
  rw [if_neg hy]
  split
  · omega
  · next hr =>
    rw [degree_eq_natDegree hr, degree_eq_natDegree hy] at h
    have : (denote r).natDegree < (denote y).natDegree := by exact_mod_cast h
    omega

/-- comparison of model degrees is comparison of Mathlib degrees -/
theorem degree_lt_iff (a m : List K) :
    Model.Poly.degree FK a < Model.Poly.degree FK m ↔ (denote a).degree < (denote m).degree := by
  rw [degree_eq_degSucc, degree_eq_degSucc, degSucc_spec, degSucc_spec]
  by_cases ha : denote a = 0 <;> by_cases hm : denote m = 0
  · simp [ha, hm]
  · simp [ha, hm, bot_lt_iff_ne_bot, degree_eq_bot]
    omega
  · simp [ha, hm]
  · rw [if_neg ha, if_neg hm, degree_eq_natDegree ha, degree_eq_natDegree hm]
    simp only [Nat.cast_lt]
    omega

/-! ### extended Euclid -/

theorem xgcdLoop_spec (X0 Y0 : K[X]) (fuel : Nat) (x y a0 a1 b0 b1 : List K)
    (hfuel : degSucc FK y < fuel)
    (hx : denote x = denote a0 * X0 + denote b0 * Y0)
    (hy : denote y = denote a1 * X0 + denote b1 * Y0)
    (hdvd : ∀ h : K[X], (h ∣ denote x ∧ h ∣ denote y) ↔ (h ∣ X0 ∧ h ∣ Y0)) :
    ∃ g a b, xgcdLoop FK fuel x y a0 a1 b0 b1 = some (g, a, b) ∧
      denote g = denote a * X0 + denote b * Y0 ∧ (∀ h : K[X], h ∣ denote g ↔ (h ∣ X0 ∧ h ∣ Y0)) := by
  induction fuel generalizing x y a0 a1 b0 b1 with
  | zero => omega
  | succ fuel ih =>
    by_cases hy0 : denote y = 0
    · refine ⟨x, a0, b0, ?_, hx, ?_⟩
      · simp only [xgcdLoop]
        rw [if_pos ((isZero_iff root y).2 hy0)]
      · intro h
        rw [← hdvd h, hy0]
        simp
    · obtain ⟨q, r, h1, h2, h3⟩ := naiveDivide_spec root x y hy0
      have hz : ¬ Model.Poly.isZero FK y = true := fun h => hy0 ((isZero_iff root y).1 h)
      have hlt := degSucc_lt_of_degree_lt root h3
      obtain ⟨g, a, b, e1, e2, e3⟩ := ih y r a1 (Model.Poly.sub FK a0 (Model.Poly.mul FK q a1)) b1
        (Model.Poly.sub FK b0 (Model.Poly.mul FK q b1)) (by omega) hy
        (by rw [denote_sub, denote_sub, denote_mul, denote_mul]
            linear_combination hx - h2 - (denote q) * hy)
        (by intro h
            rw [← hdvd h, h2]
            constructor
            · rintro ⟨hy', hr'⟩
              exact ⟨dvd_add (Dvd.dvd.mul_left hy' _) hr', hy'⟩
            · rintro ⟨hx', hy'⟩
              exact ⟨hy', (dvd_add_right (Dvd.dvd.mul_left hy' _)).1 hx'⟩)
      refine ⟨g, a, b, ?_, e2, e3⟩
      simp only [xgcdLoop]
      rw [if_neg hz, h1]
      exact e1

/-- `xgcd` on all inputs (zero, equal, any storage): never panics; the gcd is zero or monic, divides both inputs,
    satisfies Bézout (hence is a greatest common divisor) -/
theorem xgcd_spec (x y : List K) :
    ∃ g a b, xgcd FK x y = some (g, a, b) ∧
      (denote g = 0 ∨ (denote g).Monic) ∧
      denote g ∣ denote x ∧ denote g ∣ denote y ∧
      denote g = denote a * denote x + denote b * denote y := by
  obtain ⟨g, a, b, h1, h2, h3⟩ := xgcdLoop_spec root (denote x) (denote y) (degSucc FK y + 2) x y
    [1] [] [] [1] (by omega) (by simp) (by simp) (fun h => Iff.rfl)
  have hone : [(FK).one] = [(1 : K)] := rfl
  unfold xgcd
  rw [hone, h1]
  simp only [leadingCoefficient_spec root g, FieldOps.ofField_inv]
  have hgx := ((h3 (denote g)).1 dvd_rfl).1
  have hgy := ((h3 (denote g)).1 dvd_rfl).2
  by_cases hg : denote g = 0
  · rw [if_pos hg]
    refine ⟨_, _, _, rfl, ?_, ?_, ?_, ?_⟩
    · left; rw [denote_scalarMul, hg]; simp
    · rw [denote_scalarMul, hg]; simpa [hg] using hgx
    · rw [denote_scalarMul, hg]; simpa [hg] using hgy
    · simp only [denote_scalarMul]; rw [h2]; ring
  · rw [if_neg hg]
    have hlc : (denote g).leadingCoeff ≠ 0 := leadingCoeff_ne_zero.2 hg
    have hunit : IsUnit (C (denote g).leadingCoeff⁻¹ : K[X]) :=
      isUnit_C.2 (isUnit_iff_ne_zero.2 (inv_ne_zero hlc))
    refine ⟨_, _, _, rfl, ?_, ?_, ?_, ?_⟩
    · right; rw [denote_scalarMul]; exact monic_mul_leadingCoeff_inv hg
    · rw [denote_scalarMul]; exact (IsUnit.mul_right_dvd hunit).2 hgx
    · rw [denote_scalarMul]; exact (IsUnit.mul_right_dvd hunit).2 hgy
    · simp only [denote_scalarMul]; rw [h2]; ring

/-! ### `mod_x_to_the_n`, `truncate` -/

theorem denote_take_drop (p : List K) (m : Nat) (hm : m ≤ p.length) :
    denote (p.drop m) = denote p / X ^ m ∧ denote (p.take m) = denote p % X ^ m := by
  have hsplit : denote p = denote (p.drop m) * X ^ m + denote (p.take m) := by
    conv_lhs => rw [← List.take_append_drop m p]
    rw [denote_append, List.length_take, Nat.min_eq_left hm]; ring
  have hdeg : (denote (p.take m)).degree < (X ^ m : K[X]).degree := by
    rw [degree_X_pow]
    have := degree_denote_lt (p.take m)
    rwa [List.length_take, Nat.min_eq_left hm] at this
  exact div_mod_of_certificate hsplit hdeg

/-- `mod_x_to_the_n(n)` is the remainder modulo `X^n`, for every storage and every `n` -/
theorem modXToTheN_spec (p : List K) (n : Nat) : denote (modXToTheN p n) = denote p % X ^ n := by
  unfold modXToTheN
  by_cases hn : n ≤ p.length
  · exact (denote_take_drop p n hn).2
  · rw [List.take_of_length_le (by omega)]
    symm
    rw [mod_eq_self_iff (pow_ne_zero _ X_ne_zero), degree_X_pow]
    refine lt_of_lt_of_le (degree_denote_lt p) ?_
    exact_mod_cast (by omega : p.length ≤ n)

/-- `truncate(k)` keeps the `k+1` highest coefficients of the normalised polynomial: it is the quotient by
    `X^(deg+1-(k+1))` (by `X^0` when `k ≥ deg`) -/
theorem truncate_spec (p : List K) (k : Nat) :
    denote (truncate FK p k) = denote p / X ^ (degSucc FK p - (k + 1)) := by
  unfold truncate
  have h1 : revNorm FK p = (normalize FK p).reverse := by
    rw [normalize_eq_reverse_revNorm]; simp
  rw [h1, List.take_reverse, List.reverse_reverse]
  have := (denote_take_drop (normalize FK p) ((normalize FK p).length - (k + 1)) (by omega)).1
  rw [this, denote_normalize]
  rfl

/-! ### power series inverse, coefficient by coefficient -/

theorem coeff_denote_reverse_length (r : List K) : (denote r.reverse).coeff r.length = 0 := by
  rw [coeff_denote, getD_of_ge _ _ _ (by simp)]

/-- the inner product of the loop is the next coefficient of the product -/
theorem dot_eq_coeff (u r : List K) :
    dot FK u r = (X * denote u * denote r.reverse).coeff r.length := by
  induction r generalizing u with
  | nil => cases u <;> simp [dot]
  | cons r0 rs ih =>
    cases u with
    | nil => simp [dot]
    | cons u0 us =>
      simp only [dot, FieldOps.ofField_add, FieldOps.ofField_mul, ih us, denote_reverse_cons, denote_cons,
        List.length_cons]
      have e : X * (C u0 + X * denote us) * (denote rs.reverse + X ^ rs.length * C r0)
          = C u0 * denote rs.reverse * X + C (u0 * r0) * X ^ (rs.length + 1)
            + (X * denote us * denote rs.reverse) * X + (denote us * C r0 * X) * X ^ (rs.length + 1) := by
        rw [C_mul]; ring
      rw [e]
      simp only [coeff_add, coeff_mul_X, coeff_mul_X_pow', coeff_C_mul,
        coeff_denote_reverse_length]
      simp

theorem fpsLoop_spec (c0 : K) (hc0 : c0 ≠ 0) (ft : List K) (k : Nat) (grev : List K) (hne : grev ≠ [])
    (hinv : ∃ h : K[X], denote (c0 :: ft) * denote grev.reverse = 1 + X ^ grev.length * h) :
    (fpsLoop FK ft c0⁻¹ k grev).length = grev.length + k ∧
    ∃ h : K[X], denote (c0 :: ft) * denote (fpsLoop FK ft c0⁻¹ k grev).reverse
      = 1 + X ^ (grev.length + k) * h := by
  induction k generalizing grev with
  | zero => exact ⟨rfl, hinv⟩
  | succ k ih =>
    obtain ⟨h, hh⟩ := hinv
    have hpos : 0 < grev.length := List.length_pos_of_ne_nil hne
    -- the next coefficient of the product
    have hcoef : (denote (c0 :: ft) * denote grev.reverse).coeff grev.length = dot FK ft grev := by
      rw [dot_eq_coeff, denote_cons, add_mul, coeff_add, coeff_C_mul, coeff_denote_reverse_length]
      simp [mul_assoc]
    have hcoef2 : (denote (c0 :: ft) * denote grev.reverse).coeff grev.length = h.coeff 0 := by
      rw [hh, coeff_add, coeff_one, if_neg (by omega), coeff_X_pow_mul', if_pos le_rfl]
      simp
    set c := (FK).mul ((FK).neg (dot FK ft grev)) c0⁻¹ with hc
    have hcval : c = -(dot FK ft grev) * c0⁻¹ := rfl
    have hstep : ∃ h' : K[X], denote (c0 :: ft) * denote (c :: grev).reverse
        = 1 + X ^ (c :: grev).length * h' := by
      have hx : X ∣ h + C c * denote (c0 :: ft) := by
        rw [X_dvd_iff, coeff_add, coeff_C_mul, denote_cons, coeff_add, coeff_C_zero, mul_coeff_zero,
          coeff_X_zero, zero_mul, add_zero, ← hcoef2, hcoef, hcval]
        field_simp
        ring
      obtain ⟨h', hh'⟩ := hx
      refine ⟨h', ?_⟩
      rw [denote_reverse_cons, mul_add, hh, List.length_cons, pow_succ]
      linear_combination (X ^ grev.length) * hh'
    obtain ⟨hl, h'', e⟩ := ih (c :: grev) (by simp) hstep
    simp only [fpsLoop]
    rw [← hc]
    simp only [List.length_cons] at hl e
    refine ⟨by omega, ?_⟩
    have hk : grev.length + 1 + k = grev.length + (k + 1) := by omega
    rw [hk] at e
    exact ⟨h'', e⟩

/-- `formal_power_series_inverse_minimal(n)`: `n+1` coefficients `g` with `f·g ≡ 1 (mod X^(n+1))`, for every
    storage of `f` whose constant term is non-zero -/
theorem fpsInverseMinimal_spec (f : List K) (n : Nat) (h0 : (denote f).coeff 0 ≠ 0) :
    ∃ g, fpsInverseMinimal FK f n = some g ∧ g.length = n + 1 ∧
      (X ^ (n + 1) : K[X]) ∣ denote f * denote g - 1 := by
  cases f with
  | nil => simp at h0
  | cons c0 ft =>
    have hc0 : c0 ≠ 0 := by simpa using h0
    have hz : ¬ (FK).isZero c0 = true := by rw [FieldOps.ofField_isZero]; exact hc0
    have hinit : ∃ h : K[X], denote (c0 :: ft) * denote [c0⁻¹].reverse = 1 + X ^ [c0⁻¹].length * h := by
      refine ⟨denote ft * C c0⁻¹, ?_⟩
      have : (C c0 : K[X]) * C c0⁻¹ = 1 := by rw [← C_mul, mul_inv_cancel₀ hc0, C_1]
      simp only [List.reverse_cons, List.reverse_nil, List.nil_append, denote_cons, denote_nil, mul_zero,
        add_zero, List.length_cons, List.length_nil, zero_add, pow_one]
      linear_combination this
    obtain ⟨hl, h, hh⟩ := fpsLoop_spec root c0 hc0 ft n [c0⁻¹] (by simp) hinit
    refine ⟨(fpsLoop FK ft c0⁻¹ n [c0⁻¹]).reverse, ?_, ?_, ?_⟩
    · simp only [fpsInverseMinimal]
      rw [if_neg hz]
      rfl
    · simp [hl, Nat.add_comm]
    · rw [hh]
      simp only [List.length_cons, List.length_nil, zero_add]
      exact ⟨h, by rw [Nat.add_comm]; ring⟩

/-- `formal_power_series_inverse_minimal` panics exactly when the constant term is zero or missing -/
theorem fpsInverseMinimal_none (f : List K) (n : Nat) (h0 : (denote f).coeff 0 = 0) :
    fpsInverseMinimal FK f n = none := by
  cases f with
  | nil => rfl
  | cons c0 ft =>
    have hc0 : c0 = 0 := by simpa using h0
    simp only [fpsInverseMinimal]
    rw [if_pos ((FieldOps.ofField_isZero root c0).2 hc0)]

/-! ### the `reduce` dispatch -/

theorem degree_neg_iff (m : List K) : Model.Poly.degree FK m < 0 ↔ denote m = 0 := by
  rw [degree_spec]; split <;> simp_all

theorem degree_zero_iff (m : List K) : Model.Poly.degree FK m = 0 ↔ (denote m).degree = 0 := by
  rw [degree_spec]
  split
  · next h => simp [h]
  · next h => rw [degree_eq_natDegree h]; simp

theorem mod_of_degree_zero (a m : K[X]) (h : m.degree = 0) : a % m = 0 := by
  have hm : m ≠ 0 := by rintro rfl; simp at h
  have := degree_mod_lt a hm
  rw [h] at this
  exact degree_eq_bot.1 (by
    rcases hd : (a % m).degree with _ | n
    · rfl
    · rw [hd] at this
      exact absurd this (by simp [WithBot.some_eq_coe]))

/-- all four arms of `reduce` return the remainder, for every value of the thresholds, provided the fast arm does -/
theorem reduce_spec (N : NttOps K) (ms cutoff stage2 : Nat) (a m : List K) (hm : denote m ≠ 0)
    (hfast : Model.Poly.degree FK a > (ms : Int) * Model.Poly.degree FK m →
      ∃ r, fastReduce FK N cutoff stage2 a m = some r ∧ denote r = denote a % denote m) :
    ∃ r, reduce FK N ms cutoff stage2 a m = some r ∧ denote r = denote a % denote m := by
  unfold reduce
  rw [if_neg (by rw [degree_neg_iff]; exact hm)]
  split
  · next h0 =>
    exact ⟨[], rfl, by rw [mod_of_degree_zero _ _ ((degree_zero_iff root m).1 h0)]; rfl⟩
  · split
    · next _ hlt =>
      exact ⟨a, rfl, ((mod_eq_self_iff hm).2 ((degree_lt_iff root a m).1 hlt)).symm⟩
    · split
      · next hgt => exact hfast hgt
      · exact rem_spec root a m hm

theorem reduce_zero (N : NttOps K) (ms cutoff stage2 : Nat) (a m : List K) (hm : denote m = 0) :
    reduce FK N ms cutoff stage2 a m = none := by
  unfold reduce
  rw [if_pos ((degree_neg_iff root m).2 hm)]

/-! ### coefficient reversal and structured multiples -/

/-- the model's `reverse()` is Mathlib's `Polynomial.reverse` -/
theorem denote_reverse (p : List K) : denote (Model.Poly.reverse FK p) = (denote p).reverse := by
  unfold Model.Poly.reverse
  by_cases h0 : denote p = 0
  · rw [(normalize_eq_nil_iff root p).2 h0, h0]; simp
  · have hlen := length_normalize root p h0
    have hcoef : ∀ j, (denote p).coeff j = (normalize FK p).getD j 0 := by
      intro j; rw [← coeff_denote, denote_normalize]
    ext i
    rw [coeff_denote, coeff_reverse]
    by_cases hi : i < (normalize FK p).length
    · rw [getD_of_lt _ _ _ (by simpa using hi), List.getElem_reverse, revAt_le (by omega),
        hcoef, getD_of_lt _ _ _ (by omega)]
      congr 1; omega
    · rw [getD_of_ge _ _ _ (by simpa using hi), revAt_eq_self_of_lt (by omega),
        coeff_eq_zero_of_natDegree_lt (by omega)]

/-- shifting the reversal up to length `n+1` is reflection at `n` -/
theorem X_pow_mul_reverse (q : K[X]) (n : Nat) (hn : q.natDegree ≤ n) :
    X ^ (n - q.natDegree) * q.reverse = reflect n q := by
  ext i
  rw [coeff_X_pow_mul', coeff_reflect]
  split
  · next hk =>
    rw [coeff_reverse]
    by_cases hi : i ≤ n
    · rw [revAt_le hi, revAt_le (by omega)]; congr 1; omega
    · rw [revAt_eq_self_of_lt (by omega), revAt_eq_self_of_lt (by omega),
        coeff_eq_zero_of_natDegree_lt (by omega), coeff_eq_zero_of_natDegree_lt (by omega)]
  · next hk =>
    rw [revAt_le (by omega), coeff_eq_zero_of_natDegree_lt (by omega)]

/-- algebraic core of `structured_multiple_of_degree`: reflecting `rev(f)·g` with `rev(f)·g ≡ 1 mod X^(n-d+1)`
    gives the multiple of `f` of the form `X^n + (degree < d)` -/
theorem reflect_structured (f g : K[X]) (n : Nat) (_hf : f ≠ 0) (hn : f.natDegree ≤ n)
    (hg : g.natDegree ≤ n - f.natDegree) (hinv : (X ^ (n - f.natDegree + 1) : K[X]) ∣ f.reverse * g - 1) :
    reflect n (f.reverse * g) = f * reflect (n - f.natDegree) g ∧
    (reflect n (f.reverse * g)).Monic ∧ (reflect n (f.reverse * g)).natDegree = n ∧
    (reflect n (f.reverse * g) - X ^ n).degree < (f.natDegree : WithBot ℕ) ∧ (f.reverse * g).coeff 0 = 1 := by
  obtain ⟨h, hh⟩ := hinv
  have hpr : f.reverse * g = 1 + X ^ (n - f.natDegree + 1) * h := by linear_combination hh
  have hc0 : (f.reverse * g).coeff 0 = 1 := by
    rw [hpr, coeff_add, coeff_one_zero, coeff_X_pow_mul', if_neg (by omega), add_zero]
  have hmul : reflect n (f.reverse * g) = f * reflect (n - f.natDegree) g := by
    have := reflect_mul f.reverse g (F := f.natDegree) (G := n - f.natDegree) (reverse_natDegree_le f) hg
    rw [show f.natDegree + (n - f.natDegree) = n by omega] at this
    rw [this, Polynomial.reverse, reflect_reflect]
  have hdegpr : (f.reverse * g).natDegree ≤ n := by
    refine le_trans natDegree_mul_le ?_
    have := reverse_natDegree_le f
    omega
  have hcoef : ∀ i, (reflect n (f.reverse * g)).coeff i =
      if i = n then 1 else if f.natDegree ≤ i then 0 else (reflect n (f.reverse * g)).coeff i := by
    intro i
    split
    · next hi => rw [hi, coeff_reflect, revAt_le le_rfl, Nat.sub_self, hc0]
    · next hi =>
      split
      · next hd =>
        rw [coeff_reflect]
        by_cases hin : i ≤ n
        · rw [revAt_le hin, hpr, coeff_add, coeff_one, if_neg (by omega), coeff_X_pow_mul',
            if_neg (by omega), add_zero]
        · rw [revAt_eq_self_of_lt (by omega), coeff_eq_zero_of_natDegree_lt (by omega)]
      · rfl
  have hnat : (reflect n (f.reverse * g)).natDegree = n := by
    apply le_antisymm
    · rw [natDegree_le_iff_coeff_eq_zero]
      intro i hi
      rw [hcoef i, if_neg (by omega), if_pos (by omega)]
    · apply le_natDegree_of_ne_zero
      rw [hcoef n, if_pos rfl]; exact one_ne_zero
  refine ⟨hmul, ?_, hnat, ?_, hc0⟩
  · unfold Monic leadingCoeff
    rw [hnat, hcoef n, if_pos rfl]
  · rw [degree_lt_iff_coeff_zero]
    intro i hi
    have hi' : f.natDegree ≤ i := by exact_mod_cast hi
    rw [coeff_sub, coeff_X_pow, hcoef i]
    by_cases hin : i = n
    · simp [hin]
    · rw [if_neg hin, if_pos hi', if_neg hin, sub_zero]

theorem natDegree_denote_le (l : List K) (m : Nat) (h : l.length ≤ m + 1) : (denote l).natDegree ≤ m := by
  rw [natDegree_le_iff_coeff_eq_zero]
  intro i hi
  rw [coeff_denote, getD_of_ge _ _ _ (by omega)]

/-- `structured_multiple_of_degree(n)` for every non-zero `p` (any storage, any factor `X^k`) and every `n ≥ deg p`:
    a multiple of `p` of degree exactly `n`; for `deg p ≥ 1` it is monic and of the form `X^n + (degree < deg p)` -/
theorem structuredMultipleOfDegree_spec (p : List K) (n : Nat) (hp : denote p ≠ 0)
    (hn : (denote p).natDegree ≤ n) :
    ∃ s, structuredMultipleOfDegree FK p n = some s ∧ s.length = n + 1 ∧ denote p ∣ denote s ∧
      (denote s).natDegree = n ∧
      (1 ≤ (denote p).natDegree → (denote s).Monic ∧ (denote s - X ^ n).degree < (denote p).degree) := by
  unfold structuredMultipleOfDegree
  have hds := degSucc_spec root p
  rw [if_neg hp] at hds
  rw [hds]
  simp only
  rw [if_neg (by omega)]
  by_cases hd0 : (denote p).natDegree = 0
  · rw [if_pos hd0]
    cases p with
    | nil => exact absurd rfl hp
    | cons c0 ct =>
      have hc : denote (c0 :: ct) = C c0 := by
        have := eq_C_of_natDegree_eq_zero hd0
        rw [this]; simp
      have hc0 : c0 ≠ 0 := by
        intro h; apply hp; rw [hc, h]; simp
      refine ⟨_, rfl, by simp, ?_, ?_, by omega⟩
      · rw [hc]; exact (isUnit_C.2 (isUnit_iff_ne_zero.2 hc0)).dvd
      · simp only [FieldOps.ofField_zero, FieldOps.ofField_inv, denote_append, denote_replicate_zero,
          List.length_replicate, zero_add, denote_cons, denote_nil, mul_zero, add_zero]
        rw [mul_comm, natDegree_C_mul_X_pow _ _ (inv_ne_zero hc0)]
  · rw [if_neg hd0]
    set f := denote p with _hf
    have hrev : denote (Model.Poly.reverse FK p) = f.reverse := denote_reverse root p
    have hrev0 : (denote (Model.Poly.reverse FK p)).coeff 0 ≠ 0 := by
      rw [hrev, coeff_zero_reverse]; exact leadingCoeff_ne_zero.2 hp
    obtain ⟨g, hg1, hg2, hg3⟩ := fpsInverseMinimal_spec root (Model.Poly.reverse FK p) (n - f.natDegree) hrev0
    rw [hg1]
    simp only
    rw [hrev] at hg3
    have hgdeg : (denote g).natDegree ≤ n - f.natDegree := natDegree_denote_le g _ (by omega)
    obtain ⟨r1, r2, r3, r4, r5⟩ := reflect_structured f (denote g) n hp hn hgdeg hg3
    have hprod : denote (Model.Poly.reverse FK (Model.Poly.mul FK (Model.Poly.reverse FK p) g))
        = (f.reverse * denote g).reverse := by
      rw [denote_reverse, denote_mul, hrev]
    have hpr0 : f.reverse * denote g ≠ 0 := by
      intro h; rw [h] at r5; simp at r5
    have hprodne : (f.reverse * denote g).reverse ≠ 0 := by rw [Ne, reverse_eq_zero]; exact hpr0
    have hnd : (f.reverse * denote g).reverse.natDegree = (f.reverse * denote g).natDegree := by
      rw [reverse_natDegree]
      have : (f.reverse * denote g).natTrailingDegree = 0 := by
        rw [natTrailingDegree_eq_zero]; right; rw [r5]; exact one_ne_zero
      omega
    have hds2 := degSucc_spec root (Model.Poly.reverse FK (Model.Poly.mul FK (Model.Poly.reverse FK p) g))
    rw [hprod, if_neg hprodne, hnd] at hds2
    rw [hds2]
    simp only
    have hle : (f.reverse * denote g).natDegree ≤ n := by
      refine le_trans natDegree_mul_le ?_
      have := reverse_natDegree_le f
      omega
    rw [if_neg (by omega)]
    refine ⟨_, rfl, ?_, ?_⟩
    · have hl : (Model.Poly.reverse FK (Model.Poly.mul FK (Model.Poly.reverse FK p) g)).length
          = (f.reverse * denote g).natDegree + 1 := by
        have hy : denote (Model.Poly.mul FK (Model.Poly.reverse FK p) g) = f.reverse * denote g := by
          rw [denote_mul, hrev]
        have := degSucc_spec root (Model.Poly.mul FK (Model.Poly.reverse FK p) g)
        rw [hy, if_neg hpr0] at this
        rw [← this]; unfold Model.Poly.reverse degSucc; simp
      unfold Model.Poly.shiftCoefficients
      rw [List.length_append, List.length_replicate, hl]; omega
    rw [denote_shiftCoefficients, hprod, X_pow_mul_reverse _ n hle]
    refine ⟨by rw [r1]; exact dvd_mul_right _ _, r3, fun _ => ⟨r2, ?_⟩⟩
    rw [degree_eq_natDegree hp]
    exact r4

/-- `structured_multiple_of_degree` panics for the zero polynomial and for `n < deg p` -/
theorem structuredMultipleOfDegree_none (p : List K) (n : Nat)
    (h : denote p = 0 ∨ n < (denote p).natDegree) : structuredMultipleOfDegree FK p n = none := by
  unfold structuredMultipleOfDegree
  have hds := degSucc_spec root p
  rcases h with h | h
  · rw [if_pos h] at hds; rw [hds]
  · have hp : denote p ≠ 0 := by intro h0; rw [h0] at h; simp at h
    rw [if_neg hp] at hds
    rw [hds]
    simp only
    rw [if_pos h]

/-! ### chunk-wise reduction by a structured multiple (stage 2 of `fast_reduce`) -/

theorem subPadded_spec (w p : List K) :
    (subPadded FK w p).length = w.length ∧ denote (subPadded FK w p) = denote w - denote (p.take w.length) := by
  induction w generalizing p with
  | nil => simp [subPadded]
  | cons x xs ih =>
    cases p with
    | nil => simp [subPadded]
    | cons y ys =>
      obtain ⟨h1, h2⟩ := ih ys
      refine ⟨by simp [subPadded, h1], ?_⟩
      simp only [subPadded, FieldOps.ofField_sub, denote_cons, h2, List.length_cons, List.take_succ_cons, C_sub]
      ring

theorem denote_take_of_degree_lt (p : List K) (n : Nat) (h : (denote p).degree < n) :
    denote (p.take n) = denote p := by
  have := modXToTheN_spec p n
  unfold modXToTheN at this
  rw [this, mod_eq_self_iff (pow_ne_zero _ X_ne_zero), degree_X_pow]
  exact h

theorem resize_spec (l : List K) (n : Nat) (h : l.length ≤ n) :
    (resize FK l n).length = n ∧ denote (resize FK l n) = denote l := by
  unfold resize
  rw [List.take_of_length_le h]
  refine ⟨by simp; omega, ?_⟩
  exact denote_append_zeros l _

theorem divCeil_mul_ge (x c : Nat) (hc : 0 < c) : x ≤ divCeil x c * c := by
  unfold divCeil
  have h1 := Nat.div_add_mod (x + c - 1) c
  have h2 := Nat.mod_lt (x + c - 1) hc
  rw [Nat.mul_comm] at h1
  omega

theorem divCeil_mul_lt (x c : Nat) (hc : 0 < c) : divCeil x c * c < x + c := by
  unfold divCeil
  have h1 := Nat.div_mul_le_self (x + c - 1) c
  omega

theorem structReduceLoop_spec (a S : List K) (chunk tail : Nat) (hchunk : 0 < chunk)
    (hS : (denote S).degree < tail) (k : Nat) (ww : List K) (hww : ww.length = chunk + tail)
    (hk : k * chunk ≤ a.length) :
    ∃ r, structReduceLoop FK a S chunk tail k (k * chunk) ww = some r ∧ r.length = chunk + tail ∧
      (X ^ (chunk + tail) + denote S : K[X]) ∣
        (denote (a.take (k * chunk)) + X ^ (k * chunk) * denote ww) - denote r := by
  induction k generalizing ww with
  | zero => exact ⟨ww, by simp [structReduceLoop], hww, by simp⟩
  | succ k ih =>
    have hk' : k * chunk + chunk ≤ a.length := by rw [Nat.succ_mul] at hk; exact hk
    set H := denote (ww.drop tail) with hH
    set L := denote (ww.take tail) with hL
    have hWsplit : denote ww = L + X ^ tail * H := by
      conv_lhs => rw [← List.take_append_drop tail ww]
      rw [denote_append, List.length_take, Nat.min_eq_left (by omega)]
    have hHdeg : H.degree < chunk := by
      have := degree_denote_lt (ww.drop tail)
      rwa [List.length_drop, hww, Nat.add_sub_cancel] at this
    have hprod : denote (Model.Poly.mul FK (ww.drop tail) S) = H * denote S := denote_mul root _ _
    have hproddeg : (denote (Model.Poly.mul FK (ww.drop tail) S)).degree < ((chunk + tail : Nat) : WithBot ℕ) := by
      rw [hprod]
      by_cases hH0 : H = 0
      · rw [hH0, zero_mul, degree_zero]; exact WithBot.bot_lt_coe _
      by_cases hS0 : denote S = 0
      · rw [hS0, mul_zero, degree_zero]; exact WithBot.bot_lt_coe _
      rw [degree_mul, degree_eq_natDegree hH0, degree_eq_natDegree hS0]
      rw [degree_eq_natDegree hH0] at hHdeg
      rw [degree_eq_natDegree hS0] at hS
      have h1 : H.natDegree < chunk := by exact_mod_cast hHdeg
      have h2 : (denote S).natDegree < tail := by exact_mod_cast hS
      exact_mod_cast (by omega : H.natDegree + (denote S).natDegree < chunk + tail)
    set fresh := (a.drop (k * chunk)).take chunk with hfresh
    have hfl : fresh.length = chunk := by
      rw [hfresh, List.length_take, List.length_drop]; omega
    have hwl : (fresh ++ ww.take tail).length = chunk + tail := by
      rw [List.length_append, hfl, List.length_take]; omega
    obtain ⟨s1, s2⟩ := subPadded_spec root (fresh ++ ww.take tail) (Model.Poly.mul FK (ww.drop tail) S)
    rw [hwl] at s1 s2
    rw [denote_take_of_degree_lt _ _ hproddeg, hprod, denote_append, hfl] at s2
    obtain ⟨r, e1, e2, e3⟩ := ih (subPadded FK (fresh ++ ww.take tail) (Model.Poly.mul FK (ww.drop tail) S)) s1
      (by omega)
    refine ⟨r, ?_, e2, ?_⟩
    · simp only [structReduceLoop]
      rw [if_neg (by rw [Nat.succ_mul]; omega)]
      have hsub : (k + 1) * chunk - chunk = k * chunk := by rw [Nat.succ_mul]; omega
      simp only [hsub]
      rw [if_neg (by rw [← hfresh, hfl]; omega)]
      exact e1
    · have htake : denote (a.take ((k + 1) * chunk)) = denote (a.take (k * chunk)) + X ^ (k * chunk) * denote fresh := by
        rw [Nat.succ_mul, List.take_add, denote_append, List.length_take, Nat.min_eq_left (by omega)]
      have hdiff : (denote (a.take ((k + 1) * chunk)) + X ^ ((k + 1) * chunk) * denote ww) - denote r
          = ((denote (a.take (k * chunk)) + X ^ (k * chunk) *
              denote (subPadded FK (fresh ++ ww.take tail) (Model.Poly.mul FK (ww.drop tail) S))) - denote r)
            + X ^ (k * chunk) * H * (X ^ (chunk + tail) + denote S) := by
        rw [htake, s2, hWsplit, Nat.succ_mul, pow_add, pow_add]
        ring
      rw [hdiff]
      exact dvd_add e3 (Dvd.intro_left _ rfl)

theorem degSucc_le_of_degree_lt (p : List K) (t : Nat) (h : (denote p).degree < t) : degSucc FK p ≤ t := by
  rw [degSucc_spec]
  split
  · omega
  · next hp =>
    rw [degree_eq_natDegree hp] at h
    have : (denote p).natDegree < t := by exact_mod_cast h
    omega

theorem degree_lt_degSucc (p : List K) : (denote p).degree < (degSucc FK p : WithBot ℕ) := by
  rw [degSucc_spec]
  split
  · next hp => rw [hp, degree_zero]; exact WithBot.bot_lt_coe _
  · next hp => rw [degree_eq_natDegree hp]; exact_mod_cast Nat.lt_succ_self _

/-- `reduce_by_structured_modulus(multiple)` for a monic `multiple = X^md + (degree < md - 1)`: it does not panic
    and returns something congruent to the input modulo `multiple` -/
theorem reduceByStructuredModulus_spec (a multiple : List K) (md : Nat) (hmd : 1 ≤ md)
    (hmonic : (denote multiple).Monic) (hnat : (denote multiple).natDegree = md)
    (htail : (denote multiple - X ^ md).degree < ((md - 1 : ℕ) : WithBot ℕ)) :
    ∃ r, reduceByStructuredModulus FK a multiple = some r ∧ denote multiple ∣ denote a - denote r := by
  have hM0 : denote multiple ≠ 0 := hmonic.ne_zero
  have hds := degSucc_spec root multiple
  rw [if_neg hM0, hnat] at hds
  obtain ⟨k, rfl⟩ : ∃ k, md = k + 1 := ⟨md - 1, by omega⟩
  unfold reduceByStructuredModulus
  rw [hds]
  simp only
  rw [leadingCoefficient_spec root multiple, if_neg hM0]
  simp only
  have hbeq : (FK).beq (denote multiple).leadingCoeff (FK).one = true := by
    rw [FieldOps.ofField_beq]; exact hmonic
  rw [hbeq]
  simp only [Bool.not_true, Bool.false_eq_true, if_false]
  set S := Model.Poly.sub FK multiple (Model.Poly.xToThe FK (k + 1)) with hSdef
  have hS : denote S = denote multiple - X ^ (k + 1) := by rw [hSdef, denote_sub, denote_xToThe]
  have htl : degSucc FK S ≤ k := by
    apply degSucc_le_of_degree_lt
    rw [hS]; simpa using htail
  rw [if_neg (by omega)]
  set tail := degSucc FK S with htaildef
  have hMeq : (X ^ ((k + 1 - tail) + tail) + denote S : K[X]) = denote multiple := by
    rw [hS, Nat.sub_add_cancel (by omega)]; ring
  split
  · exact ⟨a, rfl, by simp⟩
  · next hlen =>
    rw [if_neg (by omega)]
    have hc : 0 < k + 1 - tail := by omega
    have hct : k + 1 - tail + tail = k + 1 := by omega
    set nc := divCeil (a.length - (tail + (k + 1 - tail))) (k + 1 - tail) with hnc
    have h1 := divCeil_mul_ge (a.length - (tail + (k + 1 - tail))) (k + 1 - tail) hc
    have h2 := divCeil_mul_lt (a.length - (tail + (k + 1 - tail))) (k + 1 - tail) hc
    rw [← hnc] at h1 h2
    have hws : tail + (k + 1 - tail) + nc * (k + 1 - tail) - (k + 1) = nc * (k + 1 - tail) := by omega
    rw [hws]
    rw [if_neg (by omega)]
    obtain ⟨rl, rd⟩ := resize_spec root (a.drop (nc * (k + 1 - tail))) (k + 1 - tail + tail)
      (by rw [List.length_drop]; omega)
    obtain ⟨r, e1, _, e3⟩ := structReduceLoop_spec root a S (k + 1 - tail) tail hc
      (degree_lt_degSucc root S) nc _ rl (by omega)
    refine ⟨r, e1, ?_⟩
    rw [hMeq, rd] at e3
    have hsplit : denote a = denote (a.take (nc * (k + 1 - tail)))
        + X ^ (nc * (k + 1 - tail)) * denote (a.drop (nc * (k + 1 - tail))) := by
      conv_lhs => rw [← List.take_append_drop (nc * (k + 1 - tail)) a]
      rw [denote_append, List.length_take, Nat.min_eq_left (by omega)]
    rw [hsplit]
    exact e3

/-! ### chunk-wise reduction in the NTT domain (stage 1 of `fast_reduce`) -/

/-- what the NTT-based strategies need from the transform pair: lengths are kept and the point-wise product of two
    transforms, transformed back, is the product of the polynomials whenever that product fits the domain.
    This is a consequence of "`ntt` is the DFT at a primitive root of unity and `intt` its inverse" (property C06)
    through the convolution theorem (property C07, `fast_multiply`). -/
structure NttConv (N : NttOps K) : Prop where
  length_ntt : ∀ u : List K, isPowerOfTwo u.length = true → (N.ntt u).length = u.length
  conv : ∀ u v : List K, u.length = v.length → isPowerOfTwo u.length = true →
    (denote u * denote v).degree < (u.length : WithBot ℕ) →
    (N.intt (List.zipWith (· * ·) (N.ntt u) (N.ntt v))).length = u.length ∧
    denote (N.intt (List.zipWith (· * ·) (N.ntt u) (N.ntt v))) = denote u * denote v

theorem degree_mul_lt_add {A B : K[X]} {a b : Nat} (hA : A.degree < a) (hB : B.degree < b) :
    (A * B).degree < ((a + b : Nat) : WithBot ℕ) := by
  by_cases hA0 : A = 0
  · rw [hA0, zero_mul, degree_zero]; exact WithBot.bot_lt_coe _
  by_cases hB0 : B = 0
  · rw [hB0, mul_zero, degree_zero]; exact WithBot.bot_lt_coe _
  rw [degree_mul, degree_eq_natDegree hA0, degree_eq_natDegree hB0]
  rw [degree_eq_natDegree hA0] at hA
  rw [degree_eq_natDegree hB0] at hB
  have h1 : A.natDegree < a := by exact_mod_cast hA
  have h2 : B.natDegree < b := by exact_mod_cast hB
  exact_mod_cast (by omega : A.natDegree + B.natDegree < a + b)

theorem nttReduceLoop_spec (N : NttOps K) (hN : NttConv N) (a low : List K) (chunk tail : Nat)
    (hchunk : 0 < chunk) (hpow : isPowerOfTwo (chunk + tail) = true) (hlow : low.length = chunk + tail)
    (hS : (denote low).degree < tail) (k : Nat) (ww : List K) (hww : ww.length = chunk + tail)
    (hk : k * chunk ≤ a.length) :
    ∃ r, nttReduceLoop FK N a (N.ntt low) chunk tail k ww = some r ∧ r.length = chunk + tail ∧
      (X ^ (chunk + tail) + denote low : K[X]) ∣
        (denote (a.take (k * chunk)) + X ^ (k * chunk) * denote ww) - denote r := by
  induction k generalizing ww with
  | zero => exact ⟨ww, by simp [nttReduceLoop], hww, by simp⟩
  | succ k ih =>
    have hk' : k * chunk + chunk ≤ a.length := by rw [Nat.succ_mul] at hk; exact hk
    set H := denote (ww.drop tail) with hH
    set L := denote (ww.take tail) with hL
    have hWsplit : denote ww = L + X ^ tail * H := by
      conv_lhs => rw [← List.take_append_drop tail ww]
      rw [denote_append, List.length_take, Nat.min_eq_left (by omega)]
    have hHdeg : H.degree < chunk := by
      have := degree_denote_lt (ww.drop tail)
      rwa [List.length_drop, hww, Nat.add_sub_cancel] at this
    set hp := ww.drop tail ++ List.replicate tail (FK).zero with hhp
    have hhpl : hp.length = chunk + tail := by
      rw [hhp, List.length_append, List.length_drop, List.length_replicate, hww]; omega
    have hhpd : denote hp = H := denote_append_zeros _ _
    have hc1 : nttChecked N hp = some (N.ntt hp) := by
      unfold nttChecked; rw [hhpl, hpow]; simp
    set prodl := N.intt (List.zipWith (FK).mul (N.ntt hp) (N.ntt low)) with hprodl
    have hzl : (List.zipWith (FK).mul (N.ntt hp) (N.ntt low)).length = chunk + tail := by
      rw [List.length_zipWith, hN.length_ntt _ (by rw [hhpl]; exact hpow),
        hN.length_ntt _ (by rw [hlow]; exact hpow), hhpl, hlow]; simp
    have hc2 : inttChecked N (List.zipWith (FK).mul (N.ntt hp) (N.ntt low)) = some prodl := by
      unfold inttChecked; rw [hzl, hpow]; simp [hprodl]
    have hconv := hN.conv hp low (by rw [hhpl, hlow]) (by rw [hhpl]; exact hpow)
        (by rw [hhpl, hhpd]; exact degree_mul_lt_add hHdeg hS)
    have hpl : prodl.length = chunk + tail := by rw [hprodl]; exact hconv.1.trans hhpl
    have hprod : denote prodl = H * denote low := by
      have := hconv.2
      rw [hhpd] at this
      exact this
    set fresh := (a.drop (k * chunk)).take chunk with hfresh
    have hfl : fresh.length = chunk := by
      rw [hfresh, List.length_take, List.length_drop]; omega
    have hwl : (fresh ++ ww.take tail).length = chunk + tail := by
      rw [List.length_append, hfl, List.length_take]; omega
    obtain ⟨s1, s2⟩ := subPadded_spec root (fresh ++ ww.take tail) prodl
    rw [hwl] at s1 s2
    have htk : prodl.take (chunk + tail) = prodl := List.take_of_length_le (by omega)
    rw [htk, hprod, denote_append, hfl] at s2
    obtain ⟨r, e1, e2, e3⟩ := ih (subPadded FK (fresh ++ ww.take tail) prodl) s1 (by omega)
    refine ⟨r, ?_, e2, ?_⟩
    · simp only [nttReduceLoop]
      rw [← hhp, hc1]
      simp only
      rw [hc2]
      simp only
      rw [← hfresh, if_neg (by rw [hfl]; omega), if_neg (by rw [hwl, hpl]; omega)]
      exact e1
    · have htake : denote (a.take ((k + 1) * chunk)) = denote (a.take (k * chunk)) + X ^ (k * chunk) * denote fresh := by
        rw [Nat.succ_mul, List.take_add, denote_append, List.length_take, Nat.min_eq_left (by omega)]
      have hdiff : (denote (a.take ((k + 1) * chunk)) + X ^ ((k + 1) * chunk) * denote ww) - denote r
          = ((denote (a.take (k * chunk)) + X ^ (k * chunk) *
              denote (subPadded FK (fresh ++ ww.take tail) prodl)) - denote r)
            + X ^ (k * chunk) * H * (X ^ (chunk + tail) + denote low) := by
        rw [htake, s2, hWsplit, Nat.succ_mul, pow_add, pow_add]
        ring
      rw [hdiff]
      exact dvd_add e3 (Dvd.intro_left _ rfl)

/-- `reduce_by_ntt_friendly_modulus(ntt(low), tail)` for `low` of power-of-two length `n` and degree `< tail < n`:
    it does not panic and returns something congruent to the input modulo `X^n + low` -/
theorem reduceByNttFriendlyModulus_spec (N : NttOps K) (hN : NttConv N) (a low : List K) (tail : Nat)
    (hpow : isPowerOfTwo low.length = true) (htail : tail < low.length) (hS : (denote low).degree < tail) :
    ∃ r, reduceByNttFriendlyModulus FK N a (N.ntt low) tail = some r ∧
      (X ^ low.length + denote low : K[X]) ∣ denote a - denote r := by
  unfold reduceByNttFriendlyModulus
  simp only [hN.length_ntt low hpow, hpow, Bool.not_true, Bool.false_eq_true, if_false]
  rw [if_neg (by omega)]
  have hct : low.length - tail + tail = low.length := by omega
  split
  · exact ⟨a, rfl, by simp⟩
  · next hlen =>
    have hc : 0 < low.length - tail := by omega
    rw [if_neg (by omega)]
    set chunk := low.length - tail with hchunk
    set nc := divCeil (a.length - (tail + chunk)) chunk with hnc
    have h1 := divCeil_mul_ge (a.length - (tail + chunk)) chunk hc
    have h2 := divCeil_mul_lt (a.length - (tail + chunk)) chunk hc
    rw [← hnc] at h1 h2
    rw [if_neg (by omega)]
    obtain ⟨rl, rd⟩ := resize_spec root (a.drop (nc * chunk)) (chunk + tail)
      (by rw [List.length_drop]; omega)
    obtain ⟨r, e1, _, e3⟩ := nttReduceLoop_spec root N hN a low chunk tail hc (by rw [hct]; exact hpow)
      (by omega) hS nc _ rl (by omega)
    refine ⟨r, e1, ?_⟩
    rw [rd, hct] at e3
    have hsplit : denote a = denote (a.take (nc * chunk)) + X ^ (nc * chunk) * denote (a.drop (nc * chunk)) := by
      conv_lhs => rw [← List.take_append_drop (nc * chunk) a]
      rw [denote_append, List.length_take, Nat.min_eq_left (by omega)]
    rw [hsplit]
    exact e3

/-! ### `shift_factor_ntt_with_tail_length`, `fast_reduce` -/

theorem isPowerOfTwo_nextPowerOfTwo (x : Nat) : isPowerOfTwo (nextPowerOfTwo x) = true := by
  unfold nextPowerOfTwo isPowerOfTwo
  split
  · decide
  · rw [Nat.log2_two_pow]
    simp

theorem le_nextPowerOfTwo (x : Nat) : x ≤ nextPowerOfTwo x := by
  unfold nextPowerOfTwo
  split
  · omega
  · have := @Nat.lt_log2_self (x - 1)
    omega

theorem mod_eq_of_dvd_sub {a b m : K[X]} (hm : m ≠ 0) (h : m ∣ a - b) : a % m = b % m := by
  obtain ⟨k, hk⟩ := h
  have h2 : b = (b / m) * m + b % m := by
    have := EuclideanDomain.div_add_mod b m
    rw [mul_comm] at this
    exact this.symm
  have hcert : a = (k + b / m) * m + b % m := by linear_combination hk + h2
  exact ((div_mod_of_certificate hcert (degree_mod_lt b hm)).2).symm

/-- `shift_factor_ntt_with_tail_length` for a modulus of degree ≥ 1: the transform of the low `n` coefficients of
    a monic multiple `X^n + low` (`n` a power of two), and a tail length with `deg low < tail < n` -/
theorem shiftFactorNtt_spec (N : NttOps K) (cutoff : Nat) (m : List K) (hm : denote m ≠ 0)
    (hd : 1 ≤ (denote m).natDegree) :
    ∃ low tail, shiftFactorNtt FK N cutoff m = some (N.ntt low, tail) ∧ isPowerOfTwo low.length = true ∧
      tail < low.length ∧ (denote low).degree < tail ∧ denote m ∣ X ^ low.length + denote low := by
  unfold shiftFactorNtt
  have hds := degSucc_spec root m
  rw [if_neg hm] at hds
  rw [hds]
  simp only
  set d := (denote m).natDegree with hdd
  set n := nextPowerOfTwo (max cutoff (d * 2)) with hn
  have hnge : d * 2 ≤ n := le_trans (le_max_right _ _) (le_nextPowerOfTwo _)
  obtain ⟨mult, h1, h2, h3, h4, h5⟩ := structuredMultipleOfDegree_spec root m n hm (by omega)
  obtain ⟨h5a, h5b⟩ := h5 hd
  rw [h1]
  simp only
  rw [if_neg (by omega)]
  have hlowlen : (mult.take n).length = n := by rw [List.length_take]; omega
  have hlow : denote (mult.take n) = denote mult - X ^ n := by
    rw [(denote_take_drop mult n (by omega)).2]
    have hcert : denote mult = 1 * X ^ n + (denote mult - X ^ n) := by ring
    have hdeg : (denote mult - X ^ n).degree < (X ^ n : K[X]).degree := by
      rw [degree_X_pow]
      refine lt_of_lt_of_le h5b ?_
      rw [degree_eq_natDegree hm]
      exact_mod_cast (by omega : d ≤ n)
    exact ((div_mod_of_certificate hcert hdeg).2).symm
  have hc : nttChecked N (mult.take n) = some (N.ntt (mult.take n)) := by
    unfold nttChecked; rw [hlowlen, isPowerOfTwo_nextPowerOfTwo]; simp
  rw [hc]
  have hdrop : mult.dropLast = mult.take n := by rw [List.dropLast_eq_take, h2]; rfl
  have hlowdeg : (denote (mult.take n)).degree < (d : WithBot ℕ) := by
    rw [hlow]; rw [degree_eq_natDegree hm] at h5b; exact h5b
  have hdsl : degSucc FK (mult.take n) ≤ d := degSucc_le_of_degree_lt root _ _ hlowdeg
  refine ⟨mult.take n, 1 + ((revNorm FK mult.dropLast).length - 1), rfl, ?_, ?_, ?_, ?_⟩
  · rw [hlowlen]; exact isPowerOfTwo_nextPowerOfTwo _
  · rw [hdrop, length_revNorm, hlowlen]; omega
  · rw [hdrop, length_revNorm]
    refine lt_of_lt_of_le (degree_lt_degSucc root _) ?_
    exact_mod_cast (by omega : degSucc FK (mult.take n) ≤ 1 + (degSucc FK (mult.take n) - 1))
  · rw [hlowlen, hlow]
    have : (X ^ n + (denote mult - X ^ n) : K[X]) = denote mult := by ring
    rw [this]; exact h3

theorem natDegree_pos_of_degree_ne_zero {m : K[X]} (hm : m ≠ 0) (h : m.degree ≠ 0) : 1 ≤ m.natDegree := by
  rw [degree_eq_natDegree hm] at h
  by_contra hlt
  have : m.natDegree = 0 := by omega
  rw [this] at h
  exact h rfl

/-- **`fast_reduce`** on every dividend and every non-zero modulus, any storage, every value of the two thresholds:
    it does not panic and returns the remainder, given a transform pair with the convolution property -/
theorem fastReduce_spec (N : NttOps K) (hN : NttConv N) (cutoff stage2 : Nat) (a m : List K)
    (hm : denote m ≠ 0) :
    ∃ r, fastReduce FK N cutoff stage2 a m = some r ∧ denote r = denote a % denote m := by
  unfold fastReduce
  split
  · next h0 =>
    exact ⟨[], rfl, by rw [mod_of_degree_zero _ _ ((degree_zero_iff root m).1 h0)]; rfl⟩
  · next h0 =>
    split
    · next hlt =>
      exact ⟨a, rfl, ((mod_eq_self_iff hm).2 ((degree_lt_iff root a m).1 hlt)).symm⟩
    · have hd : 1 ≤ (denote m).natDegree :=
        natDegree_pos_of_degree_ne_zero hm (fun h => h0 ((degree_zero_iff root m).2 h))
      obtain ⟨low, tail, s1, s2, s3, s4, s5⟩ := shiftFactorNtt_spec root N cutoff m hm hd
      rw [s1]
      simp only
      obtain ⟨ir, t1, t2⟩ := reduceByNttFriendlyModulus_spec root N hN a low tail s2 s3 s4
      rw [t1]
      simp only
      have hir : denote m ∣ denote a - denote ir := dvd_trans s5 t2
      -- stage 2
      have hstage2 : ∃ r2, fastReduceStage2 FK stage2 ir m = some r2 ∧ denote m ∣ denote a - denote r2 := by
        unfold fastReduceStage2
        split
        · unfold structuredMultiple
          have hds := degSucc_spec root m
          rw [if_neg hm] at hds
          rw [hds]
          simp only
          obtain ⟨sm, u1, _, u3, u4, u5⟩ := structuredMultipleOfDegree_spec root m
            (3 * (denote m).natDegree + 1) hm (by omega)
          obtain ⟨u5a, u5b⟩ := u5 hd
          rw [u1]
          simp only
          obtain ⟨r2, v1, v2⟩ := reduceByStructuredModulus_spec root ir sm (3 * (denote m).natDegree + 1)
            (by omega) u5a u4 (by
              refine lt_of_lt_of_le u5b ?_
              rw [degree_eq_natDegree hm]
              exact_mod_cast (by omega : (denote m).natDegree ≤ 3 * (denote m).natDegree + 1 - 1))
          refine ⟨r2, v1, ?_⟩
          have : denote a - denote r2 = (denote a - denote ir) + (denote ir - denote r2) := by ring
          rw [this]
          exact dvd_add hir (dvd_trans u3 v2)
        · exact ⟨ir, rfl, hir⟩
      obtain ⟨r2, w1, w2⟩ := hstage2
      rw [w1]
      simp only
      obtain ⟨r, x1, x2⟩ := rem_spec root r2 m hm
      exact ⟨r, x1, by rw [x2]; exact (mod_eq_of_dvd_sub hm w2).symm⟩

/-- "`ntt` is the DFT, `intt` its inverse" — the statement of property C06 as far as the evaluation-domain
    strategies (`formal_power_series_inverse_newton`, `clean_divide`) use it: `ω n` is the primitive `n`-th root of
    unity chosen for length `n`, the choices are compatible (`ω n ^ (n/m) = ω m`) -/
structure NttDft {L : Type} [Field L] (N : NttOps L) (ω : Nat → L) : Prop where
  ntt_eval : ∀ l : List L, isPowerOfTwo l.length = true →
    N.ntt l = List.ofFn (fun i : Fin l.length => (denote l).eval (ω l.length ^ (i : Nat)))
  intt_ntt : ∀ l : List L, isPowerOfTwo l.length = true → N.intt (N.ntt l) = l
  primitive : ∀ n, isPowerOfTwo n = true → ω n ^ n = 1 ∧ ∀ i, 0 < i → i < n → ω n ^ i ≠ 1
  compat : ∀ n m, isPowerOfTwo n = true → isPowerOfTwo m = true → m ∣ n → ω n ^ (n / m) = ω m

/-! ### Newton iteration, polynomial-arithmetic rounds -/

theorem newtonStandard_spec (f : List K) (k : Nat) (g : List K) (e : Nat)
    (h : (X ^ e : K[X]) ∣ denote f * denote g - 1) :
    (X ^ (e * 2 ^ k) : K[X]) ∣ denote f * denote (newtonStandard FK f k g) - 1 := by
  induction k generalizing g e with
  | zero => simpa [newtonStandard] using h
  | succ k ih =>
    simp only [newtonStandard]
    have hstep : (X ^ (e * 2) : K[X]) ∣ denote f * denote (Model.Poly.sub FK (Model.Poly.scalarMul FK g ((FK).ofNat 2))
        (Model.Poly.mul FK (Model.Poly.mul FK g g) f)) - 1 := by
      rw [denote_sub, denote_scalarMul, denote_mul, denote_mul]
      obtain ⟨c, hc⟩ := h
      refine ⟨-(c * c), ?_⟩
      have h2 : (C ((FK).ofNat 2) : K[X]) = 2 := by
        simp only [FieldOps.ofField_ofNat, Nat.cast_ofNat]; exact C_ofNat 2
      rw [h2, pow_mul, pow_two]
      linear_combination (-(denote f * denote g - 1) - X ^ e * c) * hc
    have := ih _ (e * 2) hstep
    rw [show e * 2 ^ (k + 1) = e * 2 * 2 ^ k by rw [pow_succ]; ring]
    exact this

theorem two_pow_log2_nextPowerOfTwo (p : Nat) : 2 ^ Nat.log2 (nextPowerOfTwo p) = nextPowerOfTwo p := by
  have := isPowerOfTwo_nextPowerOfTwo p
  unfold isPowerOfTwo at this
  simp only [Bool.and_eq_true, beq_iff_eq] at this
  exact this.2

/-- `formal_power_series_inverse_newton(precision)` in the arms that use polynomial arithmetic only (constant `f`;
    `switch_point ≥ num_rounds`): `f·g ≡ 1 (mod X^precision)` for every precision, every storage of `f` with non-zero
    constant term, every value of the cut-off -/
theorem fpsInverseNewton_standard_spec (N : NttOps K) (cutoff : Nat) (f : List K) (precision : Nat)
    (h0 : (denote f).coeff 0 ≠ 0)
    (harm : (denote f).natDegree = 0 ∨
      Nat.log2 (nextPowerOfTwo precision) ≤
        (if cutoff < (denote f).natDegree then 0 else Nat.log2 (cutoff / (denote f).natDegree))) :
    ∃ g, fpsInverseNewton FK N cutoff f precision = some g ∧
      (X ^ precision : K[X]) ∣ denote f * denote g - 1 := by
  have hf : denote f ≠ 0 := by intro h; rw [h] at h0; simp at h0
  cases f with
  | nil => simp at h0
  | cons cc ft =>
    have hcc : cc ≠ 0 := by simpa using h0
    have hdeg := degree_spec root (cc :: ft)
    rw [if_neg hf] at hdeg
    unfold fpsInverseNewton
    simp only [hdeg]
    by_cases hd0 : (denote (cc :: ft)).natDegree = 0
    · rw [if_pos (by exact_mod_cast hd0)]
      refine ⟨[cc⁻¹], rfl, ?_⟩
      have hc : denote (cc :: ft) = C cc := by
        have := eq_C_of_natDegree_eq_zero hd0
        rw [this]; simp
      rw [hc]
      have : (C cc : K[X]) * denote [cc⁻¹] - 1 = 0 := by
        simp only [denote_cons, denote_nil, mul_zero, add_zero]
        rw [← C_mul, mul_inv_cancel₀ hcc, C_1, sub_self]
      rw [this]; exact dvd_zero _
    · rw [if_neg (by exact_mod_cast hd0), if_neg (by omega)]
      have harm' := harm.resolve_left hd0
      simp only [Int.toNat_natCast]
      rw [if_neg (by rw [FieldOps.ofField_isZero]; exact hcc)]
      rw [if_pos harm', Nat.min_eq_left harm']
      refine ⟨_, rfl, ?_⟩
      have hinit : (X ^ 1 : K[X]) ∣ denote (cc :: ft) * denote [(FK).inv cc] - 1 := by
        refine ⟨denote ft * C cc⁻¹, ?_⟩
        have : (C cc : K[X]) * C cc⁻¹ = 1 := by rw [← C_mul, mul_inv_cancel₀ hcc, C_1]
        simp only [FieldOps.ofField_inv, denote_cons, denote_nil, mul_zero, add_zero, pow_one]
        linear_combination this
      have := newtonStandard_spec root (cc :: ft) (Nat.log2 (nextPowerOfTwo precision)) [(FK).inv cc] 1 hinit
      rw [one_mul, two_pow_log2_nextPowerOfTwo] at this
      exact dvd_trans (pow_dvd_pow X (le_nextPowerOfTwo precision)) this

/-- `formal_power_series_inverse_newton` panics when `f` is zero/empty or its constant term is zero (degree ≥ 1) -/
theorem fpsInverseNewton_none (N : NttOps K) (cutoff : Nat) (f : List K) (precision : Nat)
    (h : denote f = 0 ∨ (1 ≤ (denote f).natDegree ∧ (denote f).coeff 0 = 0)) :
    fpsInverseNewton FK N cutoff f precision = none := by
  unfold fpsInverseNewton
  have hdeg := degree_spec root f
  rcases h with h | ⟨h1, h2⟩
  · rw [if_pos h] at hdeg
    simp only [hdeg]
    rfl
  · have hf : denote f ≠ 0 := by intro h; rw [h] at h1; simp at h1
    rw [if_neg hf] at hdeg
    simp only [hdeg]
    rw [if_neg (by exact_mod_cast (by omega : (denote f).natDegree ≠ 0)), if_neg (by omega)]
    cases f with
    | nil => rfl
    | cons cc ft =>
      have hcc : cc = 0 := by simpa using h2
      simp only
      rw [if_pos ((FieldOps.ofField_isZero root cc).2 hcc)]

/-! ### `clean_divide`, the long-division arm -/

/-- below the cut-off `clean_divide` is long division: for a clean division it returns the exact quotient -/
theorem cleanDivide_below_cutoff {χ : Type} (FX : FieldOps χ) (E : ExtOps K χ) (NX : NttOps χ) (cutoff : Nat)
    (a d : List K) (hd : denote d ≠ 0) (hlt : (denote d).natDegree < cutoff) :
    ∃ q, cleanDivide FK FX E NX cutoff a d = some q ∧ denote q = denote a / denote d ∧
      (denote d ∣ denote a → denote q * denote d = denote a) := by
  unfold cleanDivide
  have hdeg := degree_spec root d
  rw [if_neg hd] at hdeg
  rw [if_pos (by rw [hdeg]; exact_mod_cast hlt)]
  obtain ⟨q, h1, h2⟩ := div_spec root a d hd
  refine ⟨q, h1, h2, fun hdvd => ?_⟩
  rw [h2, mul_comm]
  exact EuclideanDomain.mul_div_cancel' hd hdvd

end TF.Proofs.PolyD
