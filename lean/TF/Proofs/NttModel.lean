import TF.Proofs.NttInverse
import TF.Model.Ntt
import Mathlib.Tactic.Ring
import Mathlib.Tactic.Linarith
import Mathlib.Algebra.Order.Ring.Nat
/-!
Connects the executable array model `TF/Model/Ntt.lean` (instantiated with the operations of a commutative ring)
to the functional stage model of `TF/Proofs/NttDft.lean`.
-/
namespace TF.NttProofs
open TF.Model.Ntt TF.NttFn

/-! ### bit reversal -/

theorem bitrevAux_eq (l n r : Nat) : bitrevAux l n r = r * 2^l + bitrev l n := by
  induction l generalizing n r with
  | zero => simp [bitrevAux, bitrev]
  | succ l ih =>
    rw [bitrevAux, ih, bitrev, pow_succ]
    ring

theorem bitreverse_eq (n l : Nat) : bitreverse n l = bitrev l n := by
  simp [bitreverse, bitrevAux_eq]

theorem bitrev_lt (l n : Nat) : bitrev l n < 2^l := by
  induction l generalizing n with
  | zero => simp [bitrev]
  | succ l ih =>
    rw [bitrev, pow_succ]
    have h1 : n % 2 ≤ 1 := by omega
    have := ih (n / 2)
    nlinarith

/-- the dual recursion: peel the top bit -/
theorem bitrev_succ_top (l n : Nat) (hn : n < 2^(l+1)) :
    bitrev (l+1) n = 2 * bitrev l (n % 2^l) + n / 2^l := by
  induction l generalizing n with
  | zero =>
    simp [bitrev]
    omega
  | succ l ih =>
    rw [bitrev, ih (n/2) (by rw [pow_succ] at hn; omega)]
    rw [bitrev]
    have h2l : 0 < 2^l := by positivity
    have e1 : n % 2 ^ (l + 1) % 2 = n % 2 := by
      rw [pow_succ, Nat.mul_comm]; exact Nat.mod_mul_right_mod n 2 (2^l)
    have e2 : n % 2 ^ (l + 1) / 2 = n / 2 % 2 ^ l := by
      rw [pow_succ, Nat.mul_comm]
      exact Nat.mod_mul_right_div_self n 2 (2^l)
    have e3 : n / 2 / 2 ^ l = n / 2 ^ (l + 1) := by
      rw [Nat.div_div_eq_div_mul, pow_succ, Nat.mul_comm]
    rw [e1, e2, e3, pow_succ]
    ring

theorem bitrev_involutive (l n : Nat) (hn : n < 2^l) : bitrev l (bitrev l n) = n := by
  induction l generalizing n with
  | zero => simp [bitrev]; simp at hn; omega
  | succ l ih =>
    rw [bitrev_succ_top l _ (bitrev_lt _ _)]
    rw [bitrev]
    have hb := bitrev_lt l (n / 2)
    have h2l : 0 < 2^l := by positivity
    have hbit : n % 2 = 0 ∨ n % 2 = 1 := by omega
    have e1 : (n % 2 * 2 ^ l + bitrev l (n / 2)) % 2^l = bitrev l (n / 2) := by
      rw [Nat.add_comm, Nat.add_mul_mod_self_right, Nat.mod_eq_of_lt hb]
    have e2 : (n % 2 * 2 ^ l + bitrev l (n / 2)) / 2^l = n % 2 := by
      rw [Nat.add_comm, Nat.add_mul_div_right _ _ h2l, Nat.div_eq_of_lt hb]; simp
    rw [e1, e2, ih (n/2) (by rw [pow_succ] at hn; omega)]
    omega

/-! ### the swap loop computes the bit-reversal permutation -/

theorem swapLoop_spec {α : Type} (L : Nat) (a0 : Array α) :
    ∀ fuel k (a : Array α), a0.size = 2^L → a.size = 2^L → k + fuel = 2^L →
    (∀ i, i < 2^L → a[i]? = if (i < k ∨ bitrev L i < k) then a0[bitrev L i]? else a0[i]?) →
    ∃ b, swapLoop L fuel k a = some b ∧ b.size = 2^L ∧ ∀ i, i < 2^L → b[i]? = a0[bitrev L i]? := by
  intro fuel
  induction fuel with
  | zero =>
    intro k a h0 ha hk inv
    refine ⟨a, rfl, ha, ?_⟩
    intro i hi
    rw [inv i hi, if_pos (Or.inl (by omega))]
  | succ fuel ih =>
    intro k a h0 ha hk inv
    have hkn : k < 2^L := by omega
    have hrk : bitrev L k < 2^L := bitrev_lt L k
    have hinv : bitrev L (bitrev L k) = k := bitrev_involutive L k hkn
    rw [swapLoop]
    simp only [bitreverse_eq]
    by_cases hlt : k < bitrev L k
    · rw [if_pos hlt, dif_pos ⟨by omega, by omega⟩]
      apply ih (k+1) _ h0 (by simp [ha]) (by omega)
      intro i hi
      rw [Array.getElem?_swap]
      have hak := inv k hkn
      have hark := inv (bitrev L k) hrk
      rw [hinv] at hark
      rw [if_neg (by omega)] at hak hark
      have hk' : k < a.size := by omega
      have hrk' : bitrev L k < a.size := by omega
      by_cases h1 : k = i
      · subst h1
        rw [if_pos rfl, if_pos (Or.inl (by omega))]
        rw [← hark]; simp
      · rw [if_neg h1]
        by_cases h2 : bitrev L k = i
        · subst h2
          rw [if_pos rfl, hinv, if_pos (Or.inr (by omega))]
          rw [← hak]; simp
        · rw [if_neg h2, inv i hi]
          have h3 : bitrev L i ≠ k := by
            intro h; apply h2; rw [← h, bitrev_involutive L i hi]
          have : (i < k + 1 ∨ bitrev L i < k + 1) ↔ (i < k ∨ bitrev L i < k) := by omega
          simp only [this]
    · rw [if_neg hlt]
      apply ih (k+1) _ h0 ha (by omega)
      intro i hi
      rw [inv i hi]
      by_cases h1 : i = k
      · subst h1
        by_cases h2 : bitrev L i = i
        · simp [h2]
        · have : bitrev L i < i := by omega
          rw [if_pos (Or.inr this), if_pos (Or.inr (by omega))]
      · by_cases h3 : bitrev L i = k
        · have hik : i = bitrev L k := by rw [← h3, bitrev_involutive L i hi]
          have : i < k := by omega
          rw [if_pos (Or.inl this), if_pos (Or.inl (by omega))]
        · have : (i < k + 1 ∨ bitrev L i < k + 1) ↔ (i < k ∨ bitrev L i < k) := by omega
          simp only [this]

/-! ### butterfly stages with the operations of a commutative ring -/

variable {R : Type} [CommRing R]

/-- the operations of a commutative ring (twiddles and elements in the same ring) -/
def ringOps (R : Type) [CommRing R] (inv : R → Option R) (inv0 : R → R) : Ops R R where
  szero := 0
  sone := 1
  smul := (· * ·)
  spow := (· ^ ·)
  sinv := inv
  sinv0 := inv0
  sofNat := fun n => (n : R)
  zero := 0
  add := (· + ·)
  sub := (· - ·)
  scale := (· * ·)

variable (inv : R → Option R) (inv0 : R → R)

theorem powersAux_spec (w : R) : ∀ k (cur : R) (acc : Array R), cur = w^acc.size →
    (∀ j, j < acc.size → acc[j]? = some (w^j)) →
    (powersAux (ringOps R inv inv0) w k cur acc).size = acc.size + k ∧
    ∀ j, j < acc.size + k → (powersAux (ringOps R inv inv0) w k cur acc)[j]? = some (w^j) := by
  intro k
  induction k with
  | zero => intro cur acc _ h; exact ⟨rfl, fun j hj => h j hj⟩
  | succ k ih =>
    intro cur acc hc h
    rw [powersAux]
    have := ih ((ringOps R inv inv0).smul cur w) (acc.push cur)
      (by simp [ringOps, hc, pow_succ])
      (by
        intro j hj
        rw [Array.size_push] at hj
        rw [Array.getElem?_push]
        by_cases hjs : j = acc.size
        · simp [hjs, hc]
        · rw [if_neg hjs]; exact h j (by omega))
    rw [Array.size_push] at this
    constructor
    · omega
    · intro j hj; exact this.2 j (by omega)

theorem powers_spec (w : R) (m : Nat) :
    (powers (ringOps R inv inv0) w m).size = m ∧
    ∀ j, j < m → (powers (ringOps R inv inv0) w m)[j]? = some (w^j) := by
  have := powersAux_spec inv inv0 w m 1 (Array.mkEmpty m) (by simp) (by simp)
  simpa [powers, ringOps] using this

/-- an array as a total function -/
def toFn (x : Array R) : Nat → R := fun i => x.getD i 0

theorem stage_spec (m : Nat) (hm : 0 < m) (w : R) (x : Array R) :
    (stage (ringOps R inv inv0) m (powers (ringOps R inv inv0) w m) x).size = x.size ∧
    ∀ i, i < x.size →
      toFn (stage (ringOps R inv inv0) m (powers (ringOps R inv inv0) w m) x) i = TF.NttFn.stage m w (toFn x) i := by
  constructor
  · simp [TF.Model.Ntt.stage]
  · intro i hi
    have hj : i % m < m := Nat.mod_lt _ hm
    have htw := (powers_spec inv inv0 w m).2 (i % m) hj
    simp only [toFn, TF.Model.Ntt.stage, TF.NttFn.stage, Array.getD_eq_getD_getElem?, Array.getElem?_ofFn, hi, dite_true,
      htw, Option.getD_some]
    simp [ringOps]

theorem stageFn_congr (m n : Nat) (hm : 0 < m) (hdiv : 2*m ∣ n) (w : R) (f g : Nat → R)
    (h : ∀ i, i < n → f i = g i) (i : Nat) (hi : i < n) : TF.NttFn.stage m w f i = TF.NttFn.stage m w g i := by
  obtain ⟨q, rfl⟩ := hdiv
  have hd : i / (2*m) < q := Nat.div_lt_of_lt_mul hi
  have hdm := Nat.div_add_mod i (2*m)
  have hr : i % (2*m) < 2*m := Nat.mod_lt _ (by omega)
  have hj : i % m < m := Nat.mod_lt _ hm
  have hle : 2*m*(i/(2*m)) + 2*m ≤ 2*m*q := by
    have := Nat.mul_le_mul_left (2*m) (show i/(2*m) + 1 ≤ q by omega)
    rw [Nat.mul_add, Nat.mul_one] at this
    exact this
  have hbase : i - i % (2*m) = 2*m*(i/(2*m)) := by omega
  unfold TF.NttFn.stage
  simp only [hbase]
  rw [h (2*m*(i/(2*m)) + i % m) (by omega), h (2*m*(i/(2*m)) + i % m + m) (by omega)]

theorem stagesLoop_spec (L : Nat) (ω : R) (y0 : Nat → R) : ∀ f s (x : Array R), s + f ≤ L → x.size = 2^L →
    (∀ i, i < 2^L → toFn x i = nttStages L ω s y0 i) →
    (stagesLoop (ringOps R inv inv0) ω (2^L) f (2^s) x).size = 2^L ∧
    ∀ i, i < 2^L → toFn (stagesLoop (ringOps R inv inv0) ω (2^L) f (2^s) x) i = nttStages L ω (s+f) y0 i := by
  intro f
  induction f with
  | zero => intro s x _ hx h; exact ⟨hx, h⟩
  | succ f ih =>
    intro s x hs hx h
    rw [stagesLoop]
    have hpos : 0 < 2^s := by positivity
    have hexp : 2^L / (2 * 2^s) = 2^(L-s-1) := by
      rw [show 2 * 2^s = 2^(s+1) by rw [pow_succ]; ring, Nat.pow_div (by omega) (by norm_num)]
      congr 1
    have hst := stage_spec inv inv0 (2^s) hpos (ω^(2^(L-s-1))) x
    have hspow : (ringOps R inv inv0).spow ω (2^L / (2 * 2^s)) = ω^(2^(L-s-1)) := by
      rw [hexp]; rfl
    rw [hspow, show 2 * 2^s = 2^(s+1) by rw [pow_succ]; ring]
    have hdiv : 2 * 2^s ∣ 2^L := by
      rw [show 2 * 2^s = 2^(s+1) by rw [pow_succ]; ring]
      exact pow_dvd_pow 2 (by omega)
    have := ih (s+1) _ (by omega) (by rw [hst.1, hx]) (by
      intro i hi
      rw [hst.2 i (by omega)]
      rw [nttStages]
      exact stageFn_congr (2^s) (2^L) hpos hdiv _ _ _ h i hi)
    rw [show s + 1 + f = s + (f + 1) by omega] at this
    exact this

theorem toFn_eq_of_getElem? (a b : Array R) (i j : Nat) (h : a[i]? = b[j]?) : toFn a i = toFn b j := by
  simp [toFn, Array.getD_eq_getD_getElem?, h]

/-- `ntt_unchecked` with the operations of a commutative ring computes the DFT -/
theorem nttUnchecked_eq_dft (L : Nat) (ω : R) (hω : 0 < L → ω^(2^(L-1)) = -1) (x : Array R) (hx : x.size = 2^L) :
    ∃ y, nttUnchecked (ringOps R inv inv0) x ω L = some y ∧ y.size = 2^L ∧
      ∀ i, i < 2^L → toFn y i = dft (2^L) ω (toFn x) i := by
  obtain ⟨b, hb, hbs, hbi⟩ := swapLoop_spec L x (2^L) 0 x hx hx (by omega) (by intro i _; simp)
  have hst := stagesLoop_spec inv inv0 L ω (fun i => toFn x (bitrev L i)) L 0 b (by omega) hbs
    (by intro i hi; simp only [nttStages]; exact toFn_eq_of_getElem? _ _ _ _ (hbi i hi))
  refine ⟨stagesLoop (ringOps R inv inv0) ω (2^L) L 1 b, ?_, ?_, ?_⟩
  · simp [nttUnchecked, bitrevPermute, hx, hb]
  · simpa using hst.1
  · intro i hi
    have := hst.2 i hi
    simp only [pow_zero, Nat.zero_add] at this
    rw [this]
    exact ntt_eq_dft' L ω hω (toFn x) i hi

/-! ### the public functions `ntt`, `intt` and their round trips -/

omit inv inv0 in
theorem isPow2_two_pow (L : Nat) : TF.isPow2 (2^L) = true := by
  have h : 2^L &&& (2^L - 1) = 0 := by
    rw [Nat.and_two_pow_sub_one_eq_mod]; simp
  have hne : 2^L ≠ 0 := by positivity
  simp [TF.isPow2, h, hne]

omit [CommRing R] in
theorem ntt_unfold {σ α : Type} (ops : Ops σ α) (root : Nat → Option σ) (x : Array α) (L : Nat) (hL : L ≤ 31)
    (hx : x.size = 2^L) (ω : σ) (hr : root (2^L) = some ω) : ntt ops root x = nttUnchecked ops x ω L := by
  have hlt : ¬ 2^32 ≤ x.size := by
    rw [hx]; have := Nat.pow_le_pow_right (by norm_num : 0 < 2) hL; omega
  have hne : 2^L ≠ 0 := by positivity
  unfold ntt
  rw [if_neg hlt]
  simp only [hx, isPow2_two_pow, Nat.log2_two_pow, hr]
  simp [hne]

omit [CommRing R] in
theorem intt_unfold {σ α : Type} (ops : Ops σ α) (root : Nat → Option σ) (x : Array α) (L : Nat) (hL : L ≤ 31)
    (hx : x.size = 2^L) (ω ωi : σ) (hr : root (2^L) = some ω) (hi : ops.sinv ω = some ωi) :
    intt ops root x = (nttUnchecked ops x ωi L).map
      (fun y => y.map (ops.scale (ops.sinv0 (ops.sofNat (2^L))))) := by
  have hlt : ¬ 2^32 ≤ x.size := by
    rw [hx]; have := Nat.pow_le_pow_right (by norm_num : 0 < 2) hL; omega
  have hne : 2^L ≠ 0 := by positivity
  unfold intt
  rw [if_neg hlt]
  simp only [hx, isPow2_two_pow, Nat.log2_two_pow, hr, hi]
  simp [hne]
  cases nttUnchecked ops x ωi L <;> rfl


theorem toFn_map_scale (c : R) (y : Array R) (i : Nat) (hi : i < y.size) :
    toFn (y.map ((ringOps R inv inv0).scale c)) i = c * toFn y i := by
  simp [toFn, Array.getD_eq_getD_getElem?, hi, ringOps]

/-- `ntt` = DFT with the table's root -/
theorem ntt_eq_dft_model (root : Nat → Option R) (L : Nat) (hL : L ≤ 31) (ω : R) (hr : root (2^L) = some ω)
    (hω : 0 < L → ω^(2^(L-1)) = -1) (x : Array R) (hx : x.size = 2^L) :
    ∃ y, ntt (ringOps R inv inv0) root x = some y ∧ y.size = 2^L ∧
      ∀ i, i < 2^L → toFn y i = dft (2^L) ω (toFn x) i := by
  rw [ntt_unfold _ root x L hL hx ω hr]
  exact nttUnchecked_eq_dft inv inv0 L ω hω x hx

/-- `intt` = inverse DFT scaled by `n⁻¹` -/
theorem intt_eq_dft_model (root : Nat → Option R) (L : Nat) (hL : L ≤ 31) (ω ωi : R) (hr : root (2^L) = some ω)
    (hi : inv ω = some ωi) (hinv : ωi * ω = 1)
    (hω : 0 < L → ω^(2^(L-1)) = -1) (x : Array R) (hx : x.size = 2^L) :
    ∃ y, intt (ringOps R inv inv0) root x = some y ∧ y.size = 2^L ∧
      ∀ i, i < 2^L → toFn y i = inv0 ((2^L : ℕ) : R) * dft (2^L) ωi (toFn x) i := by
  rw [intt_unfold _ root x L hL hx ω ωi hr hi]
  have hωi : 0 < L → ωi^(2^(L-1)) = -1 := fun h => inv_pow_half L ω ωi (hω h) hinv
  obtain ⟨y, hy, hys, hyi⟩ := nttUnchecked_eq_dft inv inv0 L ωi hωi x hx
  refine ⟨_, by rw [hy]; rfl, by simp [hys], ?_⟩
  intro i hi'
  rw [toFn_map_scale inv inv0 _ y i (by omega), hyi i hi']
  rfl

theorem array_ext_toFn (a b : Array R) (n : Nat) (ha : a.size = n) (hb : b.size = n)
    (h : ∀ i, i < n → toFn a i = toFn b i) : a = b := by
  apply Array.ext (by omega)
  intro i h1 h2
  have := h i (by omega)
  simpa [toFn, Array.getD_eq_getD_getElem?, h1, h2] using this

theorem dft_congr (n : Nat) (z : R) (f g : Nat → R) (h : ∀ i, i < n → f i = g i) (j : Nat) : dft n z f j = dft n z g j := by
  unfold dft
  apply Finset.sum_congr rfl
  intro i hi; rw [h i (Finset.mem_range.1 hi)]

/-- `intt (ntt x) = x` -/
theorem intt_ntt_model (root : Nat → Option R) (L : Nat) (hL : L ≤ 31) (ω ωi : R) (hr : root (2^L) = some ω)
    (hi : inv ω = some ωi) (hinv : ωi * ω = 1) (hn : inv0 ((2^L : ℕ) : R) * ((2^L : ℕ) : R) = 1)
    (hω : 0 < L → ω^(2^(L-1)) = -1) (x : Array R) (hx : x.size = 2^L) :
    ∃ y, ntt (ringOps R inv inv0) root x = some y ∧ intt (ringOps R inv inv0) root y = some x := by
  obtain ⟨y, hy, hys, hyi⟩ := ntt_eq_dft_model inv inv0 root L hL ω hr hω x hx
  obtain ⟨z, hz, hzs, hzi⟩ := intt_eq_dft_model inv inv0 root L hL ω ωi hr hi hinv hω y hys
  refine ⟨y, hy, ?_⟩
  rw [hz]; congr 1
  apply array_ext_toFn z x (2^L) hzs hx
  intro i hi'
  rw [hzi i hi', dft_congr (2^L) ωi (toFn y) _ hyi, dft_inv L ω ωi hω hinv (toFn x) i hi', ← mul_assoc, hn, one_mul]

/-- `ntt (intt x) = x` -/
theorem ntt_intt_model (root : Nat → Option R) (L : Nat) (hL : L ≤ 31) (ω ωi : R) (hr : root (2^L) = some ω)
    (hi : inv ω = some ωi) (hinv : ωi * ω = 1) (hn : inv0 ((2^L : ℕ) : R) * ((2^L : ℕ) : R) = 1)
    (hω : 0 < L → ω^(2^(L-1)) = -1) (x : Array R) (hx : x.size = 2^L) :
    ∃ y, intt (ringOps R inv inv0) root x = some y ∧ ntt (ringOps R inv inv0) root y = some x := by
  obtain ⟨y, hy, hys, hyi⟩ := intt_eq_dft_model inv inv0 root L hL ω ωi hr hi hinv hω x hx
  obtain ⟨z, hz, hzs, hzi⟩ := ntt_eq_dft_model inv inv0 root L hL ω hr hω y hys
  refine ⟨y, hy, ?_⟩
  rw [hz]; congr 1
  apply array_ext_toFn z x (2^L) hzs hx
  intro i hi'
  have hωi : 0 < L → ωi^(2^(L-1)) = -1 := fun h => inv_pow_half L ω ωi (hω h) hinv
  have hinv' : ω * ωi = 1 := by rw [mul_comm]; exact hinv
  have hsc : ∀ j, dft (2^L) ω (fun k => inv0 ((2^L : ℕ) : R) * dft (2^L) ωi (toFn x) k) j
      = inv0 ((2^L : ℕ) : R) * dft (2^L) ω (dft (2^L) ωi (toFn x)) j := by
    intro j; unfold dft; rw [Finset.mul_sum]; apply Finset.sum_congr rfl; intro k _; ring
  rw [hzi i hi', dft_congr (2^L) ω (toFn y) _ hyi, hsc, dft_inv L ωi ω hωi hinv' (toFn x) i hi', ← mul_assoc, hn, one_mul]


/-! ### rejected lengths -/

theorem pow2_of_and_pred (n : Nat) (hn : n ≠ 0) (h : n &&& (n - 1) = 0) : ∃ k, n = 2^k := by
  induction n using Nat.strong_induction_on with
  | _ n ih =>
    have hdiv : n / 2 &&& (n - 1) / 2 = 0 := by
      have := congrArg (· / 2) h
      simpa [Nat.and_div_two] using this
    rcases Nat.even_or_odd n with ⟨m, hm⟩ | ⟨m, hm⟩
    · have hm0 : m ≠ 0 := by omega
      have h1 : n / 2 = m := by omega
      have h2 : (n - 1) / 2 = m - 1 := by omega
      rw [h1, h2] at hdiv
      obtain ⟨k, hk⟩ := ih m (by omega) hm0 hdiv
      exact ⟨k+1, by rw [pow_succ]; omega⟩
    · have h1 : n / 2 = m := by omega
      have h2 : (n - 1) / 2 = m := by omega
      rw [h1, h2, Nat.and_self] at hdiv
      exact ⟨0, by omega⟩

theorem isPow2_iff (n : Nat) : TF.isPow2 n = true ↔ ∃ k, n = 2^k := by
  constructor
  · intro h
    simp only [TF.isPow2, Bool.and_eq_true, bne_iff_ne, ne_eq, beq_iff_eq] at h
    exact pow2_of_and_pred n h.1 h.2
  · rintro ⟨k, rfl⟩; exact isPow2_two_pow k

/-- `ntt`/`intt` panic on every length that is not 0 or a power of two below `2^32` -/
theorem ntt_rejects {σ α : Type} (ops : Ops σ α) (root : Nat → Option σ) (x : Array α)
    (h : ¬ (x.size = 0 ∨ ∃ k, k ≤ 31 ∧ x.size = 2^k)) : ntt ops root x = none ∧ intt ops root x = none := by
  have key : 2^32 ≤ x.size ∨ (x.size == 0 || TF.isPow2 x.size) = false := by
    by_cases hbig : 2^32 ≤ x.size
    · exact Or.inl hbig
    · right
      rw [Bool.or_eq_false_iff]
      constructor
      · simp only [beq_eq_false_iff_ne]; intro h0; exact h (Or.inl h0)
      · rw [Bool.eq_false_iff]; intro hp
        obtain ⟨k, hk⟩ := (isPow2_iff _).1 hp
        apply h; right
        refine ⟨k, ?_, hk⟩
        by_contra hk31
        have : 2^32 ≤ 2^k := Nat.pow_le_pow_right (by norm_num) (by omega)
        omega
  unfold ntt intt
  rcases key with hbig | hnp
  · constructor <;> rw [if_pos hbig]
  · by_cases hbig : 2^32 ≤ x.size
    · constructor <;> rw [if_pos hbig]
    · constructor <;> rw [if_neg hbig] <;> simp only [hnp, Bool.not_false, if_true]


end TF.NttProofs
