import TF.Model.Tip5
import TF.Spec.Tip5
import TF.Proofs.BField
import Mathlib.Data.Nat.ModEq
import Mathlib.Tactic.Ring
import Mathlib.Tactic.IntervalCases
/-!
Lemmas for C02 (Tip5).  The word-level pieces (`LOOKUP_TABLE`, `ROUND_CONSTANTS`, `MDS_MATRIX_FIRST_COLUMN`,
`offset_fermat_cube_map`, `generated_function`, `mds_recombine`, `bfe_*`) are regenerated from the Rust source on
every run; the lemmas below are re-checked against them.

Sections: (A) tables, (B) split-and-lookup, (C) power map, (D) `generated_function` = 16 × circulant (one `grind`
per output lane; the literal rows are tied to `MDS_MATRIX_FIRST_COLUMN` by `decide`), (E) recombination and the
linear layer, (F) round constants / addition with a non-canonical left operand, (G) the round, (H) iteration.
-/
namespace TF.Tip5P
open TF.Gen TF.BF TF.Model.Tip5
open TF.Spec.Tip5 (dot mdsRow mdsEntry fermatCube)

/-! ### (A) tables -/

/-- the whole lookup table is the offset Fermat cube map (as translated from `offset_fermat_cube_map`, which never
    overflows on bytes, and as written in the specification), and its entries are bytes -/
theorem lookup_table_all : ∀ b : Fin 256,
    lookup b = offset_fermat_cube_map b.val ∧ offset_fermat_cube_map_ok b.val = true ∧
    lookup b = fermatCube b.val ∧ lookup b < 256 := by decide +kernel

/-- what canonicity preservation needs: `L` fixes `0x00`, and only `0xff` is mapped to `0xff` -/
theorem lookup_facts : ∀ b : Fin 256,
    lookup b < 256 ∧ (lookup b = 255 → b.val = 255) ∧ (b.val = 0 → lookup b = 0) := by decide +kernel

theorem lookup_table_nodup : LOOKUP_TABLE.Nodup := by decide +kernel

/-- the byte map is injective, hence a permutation of the 256 bytes -/
theorem lookup_injective (a b : Fin 256) (h : lookup a = lookup b) : a = b := by
  unfold lookup at h
  exact Fin.ext ((List.getElem_inj lookup_table_nodup).mp h)

/-- every round constant, as a raw word, is at most `P − 2^32 + 1 = 2P − 2^64`, its listed value is canonical and is
    the value of the raw word -/
theorem round_constants_all : ∀ r : Fin 5, ∀ i : Fin 16,
    roundConstant r i ≤ 18446744065119617026 ∧ TF.Spec.Tip5.roundConstant r i < P ∧
    bfe_value (roundConstant r i) = TF.Spec.Tip5.roundConstant r i := by decide +kernel

theorem mdsRow_sum : ∀ i : Fin 16, (mdsRow i).sum = 524757 := by decide

/-! ### (B) split-and-lookup -/

theorem split_and_lookup_canon (w : Nat) (hw : w < Pn) : split_and_lookup w < Pn := by
  simp only [split_and_lookup, mapBytes]
  have f0 := lookup_facts ⟨w % 256, Nat.mod_lt _ (by decide)⟩
  have f1 := lookup_facts ⟨w / 256 % 256, Nat.mod_lt _ (by decide)⟩
  have f2 := lookup_facts ⟨w / 256 / 256 % 256, Nat.mod_lt _ (by decide)⟩
  have f3 := lookup_facts ⟨w / 256 / 256 / 256 % 256, Nat.mod_lt _ (by decide)⟩
  have f4 := lookup_facts ⟨w / 256 / 256 / 256 / 256 % 256, Nat.mod_lt _ (by decide)⟩
  have f5 := lookup_facts ⟨w / 256 / 256 / 256 / 256 / 256 % 256, Nat.mod_lt _ (by decide)⟩
  have f6 := lookup_facts ⟨w / 256 / 256 / 256 / 256 / 256 / 256 % 256, Nat.mod_lt _ (by decide)⟩
  have f7 := lookup_facts ⟨w / 256 / 256 / 256 / 256 / 256 / 256 / 256 % 256, Nat.mod_lt _ (by decide)⟩
  generalize lookup ⟨w % 256, _⟩ = c0 at *
  generalize lookup ⟨w / 256 % 256, _⟩ = c1 at *
  generalize lookup ⟨w / 256 / 256 % 256, _⟩ = c2 at *
  generalize lookup ⟨w / 256 / 256 / 256 % 256, _⟩ = c3 at *
  generalize lookup ⟨w / 256 / 256 / 256 / 256 % 256, _⟩ = c4 at *
  generalize lookup ⟨w / 256 / 256 / 256 / 256 / 256 % 256, _⟩ = c5 at *
  generalize lookup ⟨w / 256 / 256 / 256 / 256 / 256 / 256 % 256, _⟩ = c6 at *
  generalize lookup ⟨w / 256 / 256 / 256 / 256 / 256 / 256 / 256 % 256, _⟩ = c7 at *
  simp only at f0 f1 f2 f3 f4 f5 f6 f7
  unfold Pn at *
  omega

/-- the model's table-driven byte map is the specification's formula-driven one -/
theorem mapBytes_eq (n w : Nat) : TF.Spec.Tip5.mapBytes fermatCube n w = mapBytes lookup n w := by
  induction n generalizing w with
  | zero => rfl
  | succ n ih =>
    simp only [TF.Spec.Tip5.mapBytes, mapBytes, ih]
    rw [(lookup_table_all ⟨w % 256, Nat.mod_lt _ (by decide)⟩).2.2.1]

theorem pow_two_64 : (2 : Nat) ^ 64 = W := by decide
theorem pow_two_128_mod : (2 : Nat) ^ 128 % Pn = Winv := by decide

/-- value-level meaning of the lookup S-box: it is the specification's `sboxL` of the value -/
theorem split_and_lookup_value (w : Nat) (hw : w < Pn) :
    bfe_value (split_and_lookup w) = TF.Spec.Tip5.sboxL (bfe_value w) := by
  have hc := split_and_lookup_canon w hw
  unfold TF.Spec.Tip5.sboxL TF.Spec.Tip5.toMont TF.Spec.Tip5.fromMont
  rw [pow_two_64, P_eq, value_mul_W w hw, mapBytes_eq, value_eq _ (Nat.lt_trans hc Pn_lt_W)]
  show split_and_lookup w * Winv % Pn = split_and_lookup w * 2 ^ 128 % Pn
  rw [Nat.mul_mod _ (2 ^ 128), pow_two_128_mod, Nat.mod_mul_mod]

/-! ### (C) the power map -/

theorem pow7_spec (x : Nat) (hx : canon x) :
    canon (pow7 x) ∧ bfe_value (pow7 x) = bfe_value x ^ 7 % Pn := by
  unfold pow7
  simp only
  obtain ⟨c1, v1⟩ := mul_spec x x hx hx
  obtain ⟨c2, v2⟩ := mul_spec _ _ c1 c1
  obtain ⟨c3, v3⟩ := mul_spec _ _ c1 c2
  obtain ⟨c4, v4⟩ := mul_spec _ _ hx c3
  refine ⟨c4, ?_⟩
  rw [v4, v3, v2, v1]
  generalize bfe_value x = v
  have h1 : v * v % Pn ≡ v * v [MOD Pn] := Nat.mod_modEq _ _
  have h2 : (v * v % Pn) * (v * v % Pn) % Pn ≡ (v * v) * (v * v) [MOD Pn] :=
    (Nat.mod_modEq _ _).trans (h1.mul h1)
  have h3 : (v * v % Pn) * ((v * v % Pn) * (v * v % Pn) % Pn) % Pn ≡ (v * v) * ((v * v) * (v * v)) [MOD Pn] :=
    (Nat.mod_modEq _ _).trans (h1.mul h2)
  have h4 : v * ((v * v % Pn) * ((v * v % Pn) * (v * v % Pn) % Pn) % Pn) ≡ v * ((v * v) * ((v * v) * (v * v))) [MOD Pn] :=
    (Nat.ModEq.refl v).mul h3
  have e : v * ((v * v) * ((v * v) * (v * v))) = v ^ 7 := by ring
  rw [e] at h4
  exact h4

/-- no multiplication inside the power map overflows `u128` -/
theorem pow7_ok (x : Nat) (hx : canon x) :
    bfe_mul_ok x x = true ∧ bfe_mul_ok (bfe_mul x x) (bfe_mul x x) = true ∧
    bfe_mul_ok (bfe_mul x x) (bfe_mul (bfe_mul x x) (bfe_mul x x)) = true ∧
    bfe_mul_ok x (bfe_mul (bfe_mul x x) (bfe_mul (bfe_mul x x) (bfe_mul x x))) = true := by
  obtain ⟨c1, _⟩ := mul_spec x x hx hx
  obtain ⟨c2, _⟩ := mul_spec _ _ c1 c1
  obtain ⟨c3, _⟩ := mul_spec _ _ c1 c2
  exact ⟨mul_ok _ _ hx hx, mul_ok _ _ c1 c1, mul_ok _ _ c1 c2, mul_ok _ _ hx c3⟩

/-! ### (D) `generated_function` -/

/-- `Σ cₖ·xₖ` in wrapping 64-bit arithmetic -/
def udot : List UInt64 → List UInt64 → UInt64
  | c :: cs, x :: xs => c * x + udot cs xs
  | _, _ => 0

/-- row `i` of `16·M` as machine words -/
def urow (i : Fin 16) : List UInt64 := (mdsRow i).map fun c => UInt64.ofNat (16 * c)

theorem lane_0 (x0 x1 x2 x3 x4 x5 x6 x7 x8 x9 x10 x11 x12 x13 x14 x15 : UInt64) :
    (generated_function x0 x1 x2 x3 x4 x5 x6 x7 x8 x9 x10 x11 x12 x13 x14 x15)[0]'(by rw [generated_function_len]; decide) =
      udot [982432, 285520, 428768, 955024, 192336, 654416, 661616, 440336, 911216, 192544, 861840, 691904, 119264, 541168, 460000, 17728] [x0, x1, x2, x3, x4, x5, x6, x7, x8, x9, x10, x11, x12, x13, x14, x15] := by
  simp only [generated_function, List.getElem_cons_zero, udot]
  grind

theorem lane_1 (x0 x1 x2 x3 x4 x5 x6 x7 x8 x9 x10 x11 x12 x13 x14 x15 : UInt64) :
    (generated_function x0 x1 x2 x3 x4 x5 x6 x7 x8 x9 x10 x11 x12 x13 x14 x15)[1]'(by rw [generated_function_len]; decide) =
      udot [17728, 982432, 285520, 428768, 955024, 192336, 654416, 661616, 440336, 911216, 192544, 861840, 691904, 119264, 541168, 460000] [x0, x1, x2, x3, x4, x5, x6, x7, x8, x9, x10, x11, x12, x13, x14, x15] := by
  simp only [generated_function, List.getElem_cons_succ, List.getElem_cons_zero, udot]
  grind

theorem lane_2 (x0 x1 x2 x3 x4 x5 x6 x7 x8 x9 x10 x11 x12 x13 x14 x15 : UInt64) :
    (generated_function x0 x1 x2 x3 x4 x5 x6 x7 x8 x9 x10 x11 x12 x13 x14 x15)[2]'(by rw [generated_function_len]; decide) =
      udot [460000, 17728, 982432, 285520, 428768, 955024, 192336, 654416, 661616, 440336, 911216, 192544, 861840, 691904, 119264, 541168] [x0, x1, x2, x3, x4, x5, x6, x7, x8, x9, x10, x11, x12, x13, x14, x15] := by
  simp only [generated_function, List.getElem_cons_succ, List.getElem_cons_zero, udot]
  grind

theorem lane_3 (x0 x1 x2 x3 x4 x5 x6 x7 x8 x9 x10 x11 x12 x13 x14 x15 : UInt64) :
    (generated_function x0 x1 x2 x3 x4 x5 x6 x7 x8 x9 x10 x11 x12 x13 x14 x15)[3]'(by rw [generated_function_len]; decide) =
      udot [541168, 460000, 17728, 982432, 285520, 428768, 955024, 192336, 654416, 661616, 440336, 911216, 192544, 861840, 691904, 119264] [x0, x1, x2, x3, x4, x5, x6, x7, x8, x9, x10, x11, x12, x13, x14, x15] := by
  simp only [generated_function, List.getElem_cons_succ, List.getElem_cons_zero, udot]
  grind

theorem lane_4 (x0 x1 x2 x3 x4 x5 x6 x7 x8 x9 x10 x11 x12 x13 x14 x15 : UInt64) :
    (generated_function x0 x1 x2 x3 x4 x5 x6 x7 x8 x9 x10 x11 x12 x13 x14 x15)[4]'(by rw [generated_function_len]; decide) =
      udot [119264, 541168, 460000, 17728, 982432, 285520, 428768, 955024, 192336, 654416, 661616, 440336, 911216, 192544, 861840, 691904] [x0, x1, x2, x3, x4, x5, x6, x7, x8, x9, x10, x11, x12, x13, x14, x15] := by
  simp only [generated_function, List.getElem_cons_succ, List.getElem_cons_zero, udot]
  grind

theorem lane_5 (x0 x1 x2 x3 x4 x5 x6 x7 x8 x9 x10 x11 x12 x13 x14 x15 : UInt64) :
    (generated_function x0 x1 x2 x3 x4 x5 x6 x7 x8 x9 x10 x11 x12 x13 x14 x15)[5]'(by rw [generated_function_len]; decide) =
      udot [691904, 119264, 541168, 460000, 17728, 982432, 285520, 428768, 955024, 192336, 654416, 661616, 440336, 911216, 192544, 861840] [x0, x1, x2, x3, x4, x5, x6, x7, x8, x9, x10, x11, x12, x13, x14, x15] := by
  simp only [generated_function, List.getElem_cons_succ, List.getElem_cons_zero, udot]
  grind

theorem lane_6 (x0 x1 x2 x3 x4 x5 x6 x7 x8 x9 x10 x11 x12 x13 x14 x15 : UInt64) :
    (generated_function x0 x1 x2 x3 x4 x5 x6 x7 x8 x9 x10 x11 x12 x13 x14 x15)[6]'(by rw [generated_function_len]; decide) =
      udot [861840, 691904, 119264, 541168, 460000, 17728, 982432, 285520, 428768, 955024, 192336, 654416, 661616, 440336, 911216, 192544] [x0, x1, x2, x3, x4, x5, x6, x7, x8, x9, x10, x11, x12, x13, x14, x15] := by
  simp only [generated_function, List.getElem_cons_succ, List.getElem_cons_zero, udot]
  grind

theorem lane_7 (x0 x1 x2 x3 x4 x5 x6 x7 x8 x9 x10 x11 x12 x13 x14 x15 : UInt64) :
    (generated_function x0 x1 x2 x3 x4 x5 x6 x7 x8 x9 x10 x11 x12 x13 x14 x15)[7]'(by rw [generated_function_len]; decide) =
      udot [192544, 861840, 691904, 119264, 541168, 460000, 17728, 982432, 285520, 428768, 955024, 192336, 654416, 661616, 440336, 911216] [x0, x1, x2, x3, x4, x5, x6, x7, x8, x9, x10, x11, x12, x13, x14, x15] := by
  simp only [generated_function, List.getElem_cons_succ, List.getElem_cons_zero, udot]
  grind

theorem lane_8 (x0 x1 x2 x3 x4 x5 x6 x7 x8 x9 x10 x11 x12 x13 x14 x15 : UInt64) :
    (generated_function x0 x1 x2 x3 x4 x5 x6 x7 x8 x9 x10 x11 x12 x13 x14 x15)[8]'(by rw [generated_function_len]; decide) =
      udot [911216, 192544, 861840, 691904, 119264, 541168, 460000, 17728, 982432, 285520, 428768, 955024, 192336, 654416, 661616, 440336] [x0, x1, x2, x3, x4, x5, x6, x7, x8, x9, x10, x11, x12, x13, x14, x15] := by
  simp only [generated_function, List.getElem_cons_succ, List.getElem_cons_zero, udot]
  grind

theorem lane_9 (x0 x1 x2 x3 x4 x5 x6 x7 x8 x9 x10 x11 x12 x13 x14 x15 : UInt64) :
    (generated_function x0 x1 x2 x3 x4 x5 x6 x7 x8 x9 x10 x11 x12 x13 x14 x15)[9]'(by rw [generated_function_len]; decide) =
      udot [440336, 911216, 192544, 861840, 691904, 119264, 541168, 460000, 17728, 982432, 285520, 428768, 955024, 192336, 654416, 661616] [x0, x1, x2, x3, x4, x5, x6, x7, x8, x9, x10, x11, x12, x13, x14, x15] := by
  simp only [generated_function, List.getElem_cons_succ, List.getElem_cons_zero, udot]
  grind

theorem lane_10 (x0 x1 x2 x3 x4 x5 x6 x7 x8 x9 x10 x11 x12 x13 x14 x15 : UInt64) :
    (generated_function x0 x1 x2 x3 x4 x5 x6 x7 x8 x9 x10 x11 x12 x13 x14 x15)[10]'(by rw [generated_function_len]; decide) =
      udot [661616, 440336, 911216, 192544, 861840, 691904, 119264, 541168, 460000, 17728, 982432, 285520, 428768, 955024, 192336, 654416] [x0, x1, x2, x3, x4, x5, x6, x7, x8, x9, x10, x11, x12, x13, x14, x15] := by
  simp only [generated_function, List.getElem_cons_succ, List.getElem_cons_zero, udot]
  grind

theorem lane_11 (x0 x1 x2 x3 x4 x5 x6 x7 x8 x9 x10 x11 x12 x13 x14 x15 : UInt64) :
    (generated_function x0 x1 x2 x3 x4 x5 x6 x7 x8 x9 x10 x11 x12 x13 x14 x15)[11]'(by rw [generated_function_len]; decide) =
      udot [654416, 661616, 440336, 911216, 192544, 861840, 691904, 119264, 541168, 460000, 17728, 982432, 285520, 428768, 955024, 192336] [x0, x1, x2, x3, x4, x5, x6, x7, x8, x9, x10, x11, x12, x13, x14, x15] := by
  simp only [generated_function, List.getElem_cons_succ, List.getElem_cons_zero, udot]
  grind

theorem lane_12 (x0 x1 x2 x3 x4 x5 x6 x7 x8 x9 x10 x11 x12 x13 x14 x15 : UInt64) :
    (generated_function x0 x1 x2 x3 x4 x5 x6 x7 x8 x9 x10 x11 x12 x13 x14 x15)[12]'(by rw [generated_function_len]; decide) =
      udot [192336, 654416, 661616, 440336, 911216, 192544, 861840, 691904, 119264, 541168, 460000, 17728, 982432, 285520, 428768, 955024] [x0, x1, x2, x3, x4, x5, x6, x7, x8, x9, x10, x11, x12, x13, x14, x15] := by
  simp only [generated_function, List.getElem_cons_succ, List.getElem_cons_zero, udot]
  grind

theorem lane_13 (x0 x1 x2 x3 x4 x5 x6 x7 x8 x9 x10 x11 x12 x13 x14 x15 : UInt64) :
    (generated_function x0 x1 x2 x3 x4 x5 x6 x7 x8 x9 x10 x11 x12 x13 x14 x15)[13]'(by rw [generated_function_len]; decide) =
      udot [955024, 192336, 654416, 661616, 440336, 911216, 192544, 861840, 691904, 119264, 541168, 460000, 17728, 982432, 285520, 428768] [x0, x1, x2, x3, x4, x5, x6, x7, x8, x9, x10, x11, x12, x13, x14, x15] := by
  simp only [generated_function, List.getElem_cons_succ, List.getElem_cons_zero, udot]
  grind

theorem lane_14 (x0 x1 x2 x3 x4 x5 x6 x7 x8 x9 x10 x11 x12 x13 x14 x15 : UInt64) :
    (generated_function x0 x1 x2 x3 x4 x5 x6 x7 x8 x9 x10 x11 x12 x13 x14 x15)[14]'(by rw [generated_function_len]; decide) =
      udot [428768, 955024, 192336, 654416, 661616, 440336, 911216, 192544, 861840, 691904, 119264, 541168, 460000, 17728, 982432, 285520] [x0, x1, x2, x3, x4, x5, x6, x7, x8, x9, x10, x11, x12, x13, x14, x15] := by
  simp only [generated_function, List.getElem_cons_succ, List.getElem_cons_zero, udot]
  grind

theorem lane_15 (x0 x1 x2 x3 x4 x5 x6 x7 x8 x9 x10 x11 x12 x13 x14 x15 : UInt64) :
    (generated_function x0 x1 x2 x3 x4 x5 x6 x7 x8 x9 x10 x11 x12 x13 x14 x15)[15]'(by rw [generated_function_len]; decide) =
      udot [285520, 428768, 955024, 192336, 654416, 661616, 440336, 911216, 192544, 861840, 691904, 119264, 541168, 460000, 17728, 982432] [x0, x1, x2, x3, x4, x5, x6, x7, x8, x9, x10, x11, x12, x13, x14, x15] := by
  simp only [generated_function, List.getElem_cons_succ, List.getElem_cons_zero, udot]
  grind

/-- every output lane of the translated `generated_function` is `16 ×` the circulant row applied to the input,
    modulo `2^64` -/
theorem genFn_getElem (x : Vector UInt64 16) (i : Fin 16) :
    (genFn x)[i] = udot (urow i)
      [x[0], x[1], x[2], x[3], x[4], x[5], x[6], x[7], x[8], x[9], x[10], x[11], x[12], x[13], x[14], x[15]] := by
  obtain ⟨i, hi⟩ := i
  unfold genFn
  simp only [Fin.getElem_fin, Vector.getElem_mk, List.getElem_toArray]
  interval_cases i
  · have hr : urow ⟨0, by decide⟩ = [982432, 285520, 428768, 955024, 192336, 654416, 661616, 440336, 911216, 192544, 861840, 691904, 119264, 541168, 460000, 17728] := by decide
    rw [hr]; exact lane_0 ..
  · have hr : urow ⟨1, by decide⟩ = [17728, 982432, 285520, 428768, 955024, 192336, 654416, 661616, 440336, 911216, 192544, 861840, 691904, 119264, 541168, 460000] := by decide
    rw [hr]; exact lane_1 ..
  · have hr : urow ⟨2, by decide⟩ = [460000, 17728, 982432, 285520, 428768, 955024, 192336, 654416, 661616, 440336, 911216, 192544, 861840, 691904, 119264, 541168] := by decide
    rw [hr]; exact lane_2 ..
  · have hr : urow ⟨3, by decide⟩ = [541168, 460000, 17728, 982432, 285520, 428768, 955024, 192336, 654416, 661616, 440336, 911216, 192544, 861840, 691904, 119264] := by decide
    rw [hr]; exact lane_3 ..
  · have hr : urow ⟨4, by decide⟩ = [119264, 541168, 460000, 17728, 982432, 285520, 428768, 955024, 192336, 654416, 661616, 440336, 911216, 192544, 861840, 691904] := by decide
    rw [hr]; exact lane_4 ..
  · have hr : urow ⟨5, by decide⟩ = [691904, 119264, 541168, 460000, 17728, 982432, 285520, 428768, 955024, 192336, 654416, 661616, 440336, 911216, 192544, 861840] := by decide
    rw [hr]; exact lane_5 ..
  · have hr : urow ⟨6, by decide⟩ = [861840, 691904, 119264, 541168, 460000, 17728, 982432, 285520, 428768, 955024, 192336, 654416, 661616, 440336, 911216, 192544] := by decide
    rw [hr]; exact lane_6 ..
  · have hr : urow ⟨7, by decide⟩ = [192544, 861840, 691904, 119264, 541168, 460000, 17728, 982432, 285520, 428768, 955024, 192336, 654416, 661616, 440336, 911216] := by decide
    rw [hr]; exact lane_7 ..
  · have hr : urow ⟨8, by decide⟩ = [911216, 192544, 861840, 691904, 119264, 541168, 460000, 17728, 982432, 285520, 428768, 955024, 192336, 654416, 661616, 440336] := by decide
    rw [hr]; exact lane_8 ..
  · have hr : urow ⟨9, by decide⟩ = [440336, 911216, 192544, 861840, 691904, 119264, 541168, 460000, 17728, 982432, 285520, 428768, 955024, 192336, 654416, 661616] := by decide
    rw [hr]; exact lane_9 ..
  · have hr : urow ⟨10, by decide⟩ = [661616, 440336, 911216, 192544, 861840, 691904, 119264, 541168, 460000, 17728, 982432, 285520, 428768, 955024, 192336, 654416] := by decide
    rw [hr]; exact lane_10 ..
  · have hr : urow ⟨11, by decide⟩ = [654416, 661616, 440336, 911216, 192544, 861840, 691904, 119264, 541168, 460000, 17728, 982432, 285520, 428768, 955024, 192336] := by decide
    rw [hr]; exact lane_11 ..
  · have hr : urow ⟨12, by decide⟩ = [192336, 654416, 661616, 440336, 911216, 192544, 861840, 691904, 119264, 541168, 460000, 17728, 982432, 285520, 428768, 955024] := by decide
    rw [hr]; exact lane_12 ..
  · have hr : urow ⟨13, by decide⟩ = [955024, 192336, 654416, 661616, 440336, 911216, 192544, 861840, 691904, 119264, 541168, 460000, 17728, 982432, 285520, 428768] := by decide
    rw [hr]; exact lane_13 ..
  · have hr : urow ⟨14, by decide⟩ = [428768, 955024, 192336, 654416, 661616, 440336, 911216, 192544, 861840, 691904, 119264, 541168, 460000, 17728, 982432, 285520] := by decide
    rw [hr]; exact lane_14 ..
  · have hr : urow ⟨15, by decide⟩ = [285520, 428768, 955024, 192336, 654416, 661616, 440336, 911216, 192544, 861840, 691904, 119264, 541168, 460000, 17728, 982432] := by decide
    rw [hr]; exact lane_15 ..

theorem vec16_toList {α : Type} (x : Vector α 16) :
    x.toList = [x[0], x[1], x[2], x[3], x[4], x[5], x[6], x[7], x[8], x[9], x[10], x[11], x[12], x[13], x[14], x[15]] := by
  apply List.ext_getElem
  · simp
  · intro i h1 h2
    have h3 : i < 16 := by simpa using h1
    interval_cases i <;> simp

theorem dot_scale (k : Nat) : ∀ cs xs : List Nat, dot (cs.map (k * ·)) xs = k * dot cs xs
  | [], _ => by simp [dot]
  | _ :: _, [] => by simp [dot]
  | c :: cs, x :: xs => by
    simp only [List.map_cons, dot, dot_scale k cs xs]; ring

theorem dot_split : ∀ cs ss : List Nat, dot cs (ss.map (· % H)) + H * dot cs (ss.map (· / H)) = dot cs ss
  | [], _ => by simp [dot]
  | _ :: _, [] => by simp [dot]
  | c :: cs, s :: ss => by
    have ih := dot_split cs ss
    simp only [List.map_cons, dot]
    have : s = s % H + H * (s / H) := (Nat.mod_add_div s H).symm
    calc c * (s % H) + dot cs (ss.map (· % H)) + H * (c * (s / H) + dot cs (ss.map (· / H)))
        = c * (s % H + H * (s / H)) + (dot cs (ss.map (· % H)) + H * dot cs (ss.map (· / H))) := by ring
      _ = c * s + dot cs ss := by rw [← this, ih]

theorem dot_le (B : Nat) : ∀ cs xs : List Nat, (∀ x ∈ xs, x ≤ B) → dot cs xs ≤ cs.sum * B
  | [], _, _ => by simp [dot]
  | _ :: _, [], _ => by simp [dot]
  | c :: cs, x :: xs, h => by
    have ih := dot_le B cs xs (fun y hy => h y (List.mem_cons_of_mem _ hy))
    have hx : x ≤ B := h x (List.mem_cons_self)
    simp only [dot, List.sum_cons, Nat.add_mul]
    exact Nat.add_le_add (Nat.mul_le_mul_left c hx) ih

theorem udot_toNat : ∀ cs xs : List UInt64,
    dot (cs.map UInt64.toNat) (xs.map UInt64.toNat) < 2 ^ 64 →
    (udot cs xs).toNat = dot (cs.map UInt64.toNat) (xs.map UInt64.toNat)
  | [], _, _ => by simp [udot, dot]
  | _ :: _, [], _ => by simp [udot, dot]
  | c :: cs, x :: xs, h => by
    simp only [List.map_cons, dot] at h
    have ih := udot_toNat cs xs (by omega)
    simp only [udot, List.map_cons, dot, UInt64.toNat_add, UInt64.toNat_mul, ih]
    have h1 : c.toNat * x.toNat < 2 ^ 64 := by omega
    rw [Nat.mod_eq_of_lt h1, Nat.mod_eq_of_lt h]

theorem urow_toNat : ∀ i : Fin 16, (urow i).map UInt64.toNat = (mdsRow i).map (16 * ·) := by decide

/-- `generated_function` on 32-bit inputs, without wrap-around: lane `i` is exactly `16 · Σⱼ M[i][j]·xⱼ` -/
theorem genFn_toNat (x : Vector UInt64 16) (hx : ∀ y ∈ x.toList, y.toNat < 2 ^ 32) (i : Fin 16) :
    (genFn x)[i].toNat = 16 * dot (mdsRow i) (x.toList.map UInt64.toNat) ∧
    dot (mdsRow i) (x.toList.map UInt64.toNat) < 4503599627370496 := by
  have hb : dot (mdsRow i) (x.toList.map UInt64.toNat) ≤ 524757 * 4294967295 := by
    rw [← mdsRow_sum i]
    apply dot_le
    intro y hy
    obtain ⟨z, hz, rfl⟩ := List.mem_map.mp hy
    have := hx z hz
    omega
  refine ⟨?_, by omega⟩
  rw [genFn_getElem, ← vec16_toList, udot_toNat, urow_toNat, dot_scale]
  rw [urow_toNat, dot_scale]
  omega

theorem udot_toNat_mod : ∀ cs xs : List UInt64,
    (udot cs xs).toNat = dot (cs.map UInt64.toNat) (xs.map UInt64.toNat) % 2 ^ 64
  | [], _ => by simp [udot, dot]
  | _ :: _, [] => by simp [udot, dot]
  | c :: cs, x :: xs => by
    have ih := udot_toNat_mod cs xs
    simp only [udot, List.map_cons, dot, UInt64.toNat_add, UInt64.toNat_mul, ih]
    omega

/-- lane `i` of the translated `generated_function`, for **all** 64-bit inputs, is `16 · Σⱼ M[i][j]·xⱼ` modulo `2^64` -/
theorem genFn_mod (x : Vector UInt64 16) (i : Fin 16) :
    (genFn x)[i].toNat = 16 * dot (mdsRow i) (x.toList.map UInt64.toNat) % 2 ^ 64 := by
  rw [genFn_getElem, ← vec16_toList, udot_toNat_mod, urow_toNat, dot_scale]

/-! ### (E) recombination, linear layer -/

theorem z_small (q : Nat) (h : q < 2097152) : q * 4294967295 % 18446744073709551616 = q * 4294967295 :=
  Nat.mod_eq_of_lt (by omega)

/-- the translated body of the `for r` loop of `mds_generated`, on `lo[r] = 16·A`, `hi[r] = 16·B` with
    `A, B < 2^52`: no overflow anywhere (in particular `res + 0xffffffff` in the `over` branch), a 64-bit result, and
    `result + k·P = A + 2^32·B` with `k = ⌊(A + 2^32 B)/2^64⌋` (no `over`) or `k + 1` (`over`) -/
theorem mds_recombine_lin (A B : Nat) (hA : A < 4503599627370496) (hB : B < 4503599627370496) :
    mds_recombine (16 * A) (16 * B) < W ∧ mds_recombine_ok (16 * A) (16 * B) = true ∧
    (mds_recombine (16 * A) (16 * B) + (A + H * B) / W * Pn = A + H * B ∨
     mds_recombine (16 * A) (16 * B) + ((A + H * B) / W + 1) * Pn = A + H * B) := by
  unfold mds_recombine mds_recombine_ok
  simp only [Bool.and_eq_true, decide_eq_true_eq, ge_iff_le, Bool.if_true_right, Bool.or_eq_true, Bool.not_eq_true',
    decide_eq_false_iff_not]
  have h1 : 16 * A / 16 = A := by omega
  have h2 : 16 * B * 268435456 % 340282366920938463463374607431768211456 = H * B := by unfold H; omega
  rw [h1, h2]
  have h3 : (A + H * B) % 340282366920938463463374607431768211456 = A + H * B := by unfold H; omega
  rw [h3]
  generalize hs : A + H * B = s
  have hsb : s < 38685626227668133590597632 := by unfold H at hs; omega
  have hq : s / 18446744073709551616 % 18446744073709551616 = s / 18446744073709551616 := by omega
  rw [hq]
  generalize hq' : s / 18446744073709551616 = q at *
  have hqb : q < 2097152 := by omega
  have hz := z_small q hqb
  rw [hz]
  generalize hl : s % 18446744073709551616 = l at *
  have hsl : s = l + 18446744073709551616 * q := by omega
  have hlb : l < 18446744073709551616 := by omega
  unfold W Pn H at *
  refine ⟨?_, ?_, ?_⟩
  · split <;> omega
  · omega
  · split <;> omega

theorem limbLo_toNat (w : Nat) : (limbLo w).toNat = w % H := by
  unfold limbLo H
  exact UInt64.toNat_ofNat_of_lt' (by unfold UInt64.size; omega)

theorem limbHi_toNat (w : Nat) (hw : w < W) : (limbHi w).toNat = w / H := by
  unfold limbHi H
  unfold W at hw
  exact UInt64.toNat_ofNat_of_lt' (by unfold UInt64.size; omega)

theorem forall_mem_toList {n : Nat} {p : Nat → Prop} (v : Vector Nat n) :
    (∀ x ∈ v.toList, p x) ↔ ∀ (i : Nat) (h : i < n), p v[i] := by
  constructor
  · intro hx i h
    apply hx
    rw [← Vector.getElem_toList (by simpa using h)]
    exact List.getElem_mem _
  · intro hi x hx
    obtain ⟨i, h, rfl⟩ := List.mem_iff_getElem.mp hx
    rw [Vector.getElem_toList]
    exact hi i (by simpa using h)

theorem mds_getElem (s : State) (i : Nat) (h : i < 16) :
    (mds_generated s)[i] =
      mds_recombine (genFn (s.map limbLo))[(⟨i, h⟩ : Fin 16)].toNat (genFn (s.map limbHi))[(⟨i, h⟩ : Fin 16)].toNat := by
  unfold mds_generated
  simp only [Vector.getElem_ofFn]

/-- the linear layer on any state of 64-bit words: every lane is a 64-bit word congruent to the circulant matrix row
    applied to the raw words, and the recombination never overflows -/
theorem mds_lane (s : State) (hs : ∀ (j : Nat) (h : j < 16), s[j] < W) (i : Nat) (h : i < 16) :
    (mds_generated s)[i] < W ∧ (mds_generated s)[i] ≡ dot (mdsRow ⟨i, h⟩) s.toList [MOD Pn] ∧
    mds_recombine_ok (genFn (s.map limbLo))[(⟨i, h⟩ : Fin 16)].toNat (genFn (s.map limbHi))[(⟨i, h⟩ : Fin 16)].toNat = true := by
  have hs' := (forall_mem_toList (p := fun x => x < W) s).mpr hs
  have elo : (s.map limbLo).toList.map UInt64.toNat = s.toList.map (· % H) := by
    rw [Vector.toList_map, List.map_map]
    exact List.map_congr_left (fun x _ => limbLo_toNat x)
  have ehi : (s.map limbHi).toList.map UInt64.toNat = s.toList.map (· / H) := by
    rw [Vector.toList_map, List.map_map]
    exact List.map_congr_left (fun x hx => limbHi_toNat x (hs' x hx))
  have hlo := genFn_toNat (s.map limbLo) (by
    intro y hy
    rw [Vector.toList_map] at hy
    obtain ⟨z, _, rfl⟩ := List.mem_map.mp hy
    rw [limbLo_toNat]; unfold H; omega) ⟨i, h⟩
  have hhi := genFn_toNat (s.map limbHi) (by
    intro y hy
    rw [Vector.toList_map] at hy
    obtain ⟨z, hz, rfl⟩ := List.mem_map.mp hy
    rw [limbHi_toNat z (hs' z hz)]
    have := hs' z hz
    unfold H; unfold W at this; omega) ⟨i, h⟩
  rw [elo] at hlo
  rw [ehi] at hhi
  rw [mds_getElem s i h, hlo.1, hhi.1]
  obtain ⟨r1, r2, r3⟩ := mds_recombine_lin _ _ hlo.2 hhi.2
  rw [dot_split] at r3
  refine ⟨r1, ?_, r2⟩
  rcases r3 with r3 | r3
  · have := congrArg (· % Pn) r3
    simp only [Nat.add_mul_mod_self_right] at this
    exact this
  · have := congrArg (· % Pn) r3
    simp only [Nat.add_mul_mod_self_right] at this
    exact this

/-- addition with a canonical right operand `c ≤ 2P − 2^64` and an *arbitrary 64-bit* left operand is still exact
    and canonical -/
theorem add_noncanonical_left (a c : Nat) (ha : a < W) (hc : c ≤ 18446744065119617026) :
    bfe_add a c = (a + c) % Pn ∧ bfe_add a c < Pn ∧ bfe_add_ok a c = true := by
  unfold bfe_add bfe_add_ok W Pn at *
  simp only [decide_eq_true_eq]
  refine ⟨?_, ?_, by omega⟩
  · split <;> omega
  · split <;> omega


/-! ### (G) the round -/

theorem nsl_eq : NUM_SPLIT_AND_LOOKUP = 4 := rfl

theorem sbox_getElem (s : State) (i : Nat) (h : i < 16) :
    (sbox_layer s)[i] = if i < 4 then split_and_lookup s[i] else pow7 s[i] := by
  unfold sbox_layer
  simp only [Vector.getElem_ofFn, nsl_eq, Fin.getElem_fin]
  rfl

theorem sbox_canon (s : State) (hs : ∀ (j : Nat) (h : j < 16), s[j] < Pn) (i : Nat) (h : i < 16) :
    (sbox_layer s)[i] < Pn := by
  rw [sbox_getElem s i h]
  split
  · exact split_and_lookup_canon _ (hs i h)
  · exact (pow7_spec _ (hs i h)).1

theorem spec_sbox_getElem (v : Vector Nat 16) (i : Nat) (h : i < 16) :
    (TF.Spec.Tip5.sbox v)[i] = if i < 4 then TF.Spec.Tip5.sboxL v[i] else TF.Spec.Tip5.sboxP v[i] := by
  unfold TF.Spec.Tip5.sbox
  rw [Vector.getElem_ofFn]
  rfl

theorem sbox_value (s : State) (hs : ∀ (j : Nat) (h : j < 16), s[j] < Pn) :
    (sbox_layer s).map bfe_value = TF.Spec.Tip5.sbox (s.map bfe_value) := by
  apply Vector.ext
  intro i h
  rw [Vector.getElem_map, spec_sbox_getElem, Vector.getElem_map, sbox_getElem s i h]
  split
  · exact split_and_lookup_value _ (hs i h)
  · rw [(pow7_spec _ (hs i h)).2]; unfold TF.Spec.Tip5.sboxP; rw [P_eq]

theorem dot_mul_mod (w : Nat) : ∀ cs us : List Nat,
    dot cs (us.map fun u => u * w % Pn) ≡ dot cs us * w [MOD Pn]
  | [], _ => by simp [dot]; rfl
  | _ :: _, [] => by simp [dot]; rfl
  | c :: cs, u :: us => by
    have ih := dot_mul_mod w cs us
    simp only [List.map_cons, dot]
    have h1 : c * (u * w % Pn) ≡ c * u * w [MOD Pn] := by
      rw [Nat.mul_assoc]
      exact (Nat.ModEq.refl c).mul (Nat.mod_modEq _ _)
    rw [Nat.add_mul]
    exact h1.add ih

theorem map_value_eq (us : List Nat) (hus : ∀ u ∈ us, u < W) :
    us.map bfe_value = us.map fun u => u * Winv % Pn :=
  List.map_congr_left (fun u hu => value_eq u (hus u hu))

/-- value of one output lane of a round, from the congruence of the linear layer -/
theorem lane_value (m c rcv : Nat) (row us : List Nat) (hm : m ≡ dot row us [MOD Pn])
    (hus : ∀ u ∈ us, u < W) (hc : c * Winv % Pn = rcv) :
    ((m + c) % Pn * Winv) % Pn = (dot row (us.map bfe_value) + rcv) % Pn := by
  rw [map_value_eq us hus]
  have h1 : (m + c) % Pn * Winv ≡ (m + c) * Winv [MOD Pn] := (Nat.mod_modEq _ _).mul_right _
  have h2 : (m + c) * Winv ≡ (dot row us + c) * Winv [MOD Pn] := (hm.add_right c).mul_right _
  have h3 : (dot row us + c) * Winv = dot row us * Winv + c * Winv := Nat.add_mul _ _ _
  have h4 : dot row us * Winv + c * Winv ≡ dot row (us.map fun u => u * Winv % Pn) + rcv [MOD Pn] := by
    apply Nat.ModEq.add (dot_mul_mod Winv row us).symm
    rw [← hc]
    exact (Nat.mod_modEq _ _).symm
  rw [h3] at h2
  exact (h1.trans h2).trans h4

theorem round_getElem (r : Fin 5) (s : State) (i : Nat) (h : i < 16) :
    (round r s)[i] = bfe_add (mds_generated (sbox_layer s))[i] (roundConstant r ⟨i, h⟩) := by
  unfold round
  simp only [Vector.getElem_ofFn, Fin.getElem_fin]

/-- one lane of one round on a canonical state: canonical result with the specification's value -/
theorem round_lane (r : Fin 5) (s : State) (hs : ∀ (j : Nat) (h : j < 16), s[j] < Pn) (i : Nat) (h : i < 16) :
    (round r s)[i] < Pn ∧
    bfe_value (round r s)[i] =
      (dot (mdsRow ⟨i, h⟩) ((sbox_layer s).toList.map bfe_value) + TF.Spec.Tip5.roundConstant r ⟨i, h⟩) % Pn := by
  have hu : ∀ (j : Nat) (h : j < 16), (sbox_layer s)[j] < W :=
    fun j hj => Nat.lt_trans (sbox_canon s hs j hj) Pn_lt_W
  obtain ⟨m1, m2, _⟩ := mds_lane (sbox_layer s) hu i h
  obtain ⟨k1, k2, k3⟩ := round_constants_all r ⟨i, h⟩
  obtain ⟨a1, a2, _⟩ := add_noncanonical_left _ _ m1 k1
  rw [round_getElem r s i h]
  refine ⟨a2, ?_⟩
  rw [value_eq _ (Nat.lt_trans a2 Pn_lt_W), a1]
  apply lane_value _ _ _ _ _ m2 ((forall_mem_toList (p := fun x => x < W) _).mpr hu)
  rw [← k3, value_eq _ (by unfold W; omega)]

theorem round_canon (r : Fin 5) (s : State) (hs : ∀ (j : Nat) (h : j < 16), s[j] < Pn) :
    ∀ (j : Nat) (h : j < 16), (round r s)[j] < Pn := fun j h => (round_lane r s hs j h).1

theorem round_refines (r : Fin 5) (s : State) (hs : ∀ (j : Nat) (h : j < 16), s[j] < Pn) :
    (round r s).map bfe_value = TF.Spec.Tip5.round r (s.map bfe_value) := by
  apply Vector.ext
  intro i h
  rw [Vector.getElem_map, (round_lane r s hs i h).2]
  unfold TF.Spec.Tip5.round
  simp only [Vector.getElem_ofFn]
  rw [← sbox_value s hs, Vector.toList_map]
  rfl


/-! ### (H) iteration -/

/-- every word of the vector is canonical -/
def CanonV {n : Nat} (v : Vector Nat n) : Prop := ∀ (j : Nat) (h : j < n), v[j] < Pn

theorem fold_refines (rs : List (Fin 5)) (s : State) (hs : CanonV s) :
    CanonV (rs.foldl (fun s r => round r s) s) ∧
    (rs.foldl (fun s r => round r s) s).map bfe_value =
      rs.foldl (fun v r => TF.Spec.Tip5.round r v) (s.map bfe_value) := by
  induction rs generalizing s with
  | nil => exact ⟨hs, rfl⟩
  | cons r rs ih =>
    simp only [List.foldl_cons]
    rw [← round_refines r s hs]
    exact ih (round r s) (round_canon r s hs)

theorem traceFrom_refines (rs : List (Fin 5)) (s : State) (hs : CanonV s) :
    (∀ t ∈ traceFrom rs s, CanonV t) ∧
    (traceFrom rs s).map (fun t => t.map bfe_value) = TF.Spec.Tip5.traceFrom rs (s.map bfe_value) := by
  induction rs generalizing s with
  | nil => exact ⟨fun t ht => by simp [traceFrom] at ht, rfl⟩
  | cons r rs ih =>
    obtain ⟨i1, i2⟩ := ih (round r s) (round_canon r s hs)
    constructor
    · intro t ht
      simp only [traceFrom, List.mem_cons] at ht
      rcases ht with rfl | ht
      · exact round_canon r s hs
      · exact i1 t ht
    · simp only [traceFrom, TF.Spec.Tip5.traceFrom, List.map_cons]
      rw [i2, round_refines r s hs]

theorem traceFrom_last (rs : List (Fin 5)) (s : State) :
    (s :: traceFrom rs s).getLast (List.cons_ne_nil _ _) = rs.foldl (fun s r => round r s) s := by
  induction rs generalizing s with
  | nil => rfl
  | cons r rs ih =>
    simp only [traceFrom, List.foldl_cons]
    rw [List.getLast_cons (List.cons_ne_nil _ _)]
    exact ih (round r s)

theorem traceFrom_length (rs : List (Fin 5)) (s : State) : (traceFrom rs s).length = rs.length := by
  induction rs generalizing s with
  | nil => rfl
  | cons r rs ih => simp only [traceFrom, List.length_cons, ih]

theorem value_one : bfe_value one = 1 := value_new 1 (by decide)
theorem value_zero : bfe_value zero = 0 := value_new 0 (by decide)
theorem one_canon : one < Pn := (new_spec 1 (by decide)).1
theorem zero_canon : zero < Pn := (new_spec 0 (by decide)).1

theorem fixedLengthState_canon (input : Vector Nat 10) (hi : CanonV input) : CanonV (fixedLengthState input) := by
  intro j h
  unfold fixedLengthState
  rw [Vector.getElem_ofFn]
  split
  · exact hi j _
  · exact one_canon

theorem fixedLengthState_value (input : Vector Nat 10) :
    (fixedLengthState input).map bfe_value =
      Vector.ofFn fun i : Fin 16 => if h : i.val < 10 then (input.map bfe_value)[i.val] else 1 := by
  apply Vector.ext
  intro j h
  unfold fixedLengthState
  rw [Vector.getElem_map, Vector.getElem_ofFn, Vector.getElem_ofFn]
  split
  · rw [Vector.getElem_map]
  · exact value_one

theorem hash_10_refines (input : Vector Nat 10) (hi : CanonV input) :
    CanonV (hash_10 input) ∧ (hash_10 input).map bfe_value = TF.Spec.Tip5.hash10 (input.map bfe_value) := by
  obtain ⟨c, v⟩ := fold_refines (List.finRange 5) (fixedLengthState input) (fixedLengthState_canon input hi)
  constructor
  · intro j h
    unfold hash_10
    simp only [Vector.getElem_ofFn]
    exact c j (by omega)
  · apply Vector.ext
    intro j h
    unfold hash_10 TF.Spec.Tip5.hash10
    simp only [Vector.getElem_map, Vector.getElem_ofFn]
    have := congrArg (fun w : Vector Nat 16 => w[j]'(by omega)) v
    simp only [Vector.getElem_map] at this
    unfold permutation TF.Spec.Tip5.permutation
    rw [this, fixedLengthState_value]
    simp only [Vector.getElem_map]


/-- `left ++ right` as the ten inputs of `hash_10` -/
def pairInput (l r : Vector Nat 5) : Vector Nat 10 :=
  Vector.ofFn fun i : Fin 10 => if h : i.val < 5 then l[i.val] else r[i.val - 5]

theorem hash_pair_eq (l r : Vector Nat 5) : hash_pair l r = hash_10 (pairInput l r) := rfl
theorem spec_hashPair_eq (l r : Vector Nat 5) : TF.Spec.Tip5.hashPair l r = TF.Spec.Tip5.hash10 (pairInput l r) := rfl

theorem pairInput_canon (l r : Vector Nat 5) (hl : CanonV l) (hr : CanonV r) : CanonV (pairInput l r) := by
  intro j h
  unfold pairInput
  rw [Vector.getElem_ofFn]
  split
  · exact hl j _
  · exact hr _ _

theorem pairInput_value (l r : Vector Nat 5) :
    (pairInput l r).map bfe_value = pairInput (l.map bfe_value) (r.map bfe_value) := by
  apply Vector.ext
  intro j h
  unfold pairInput
  rw [Vector.getElem_map, Vector.getElem_ofFn, Vector.getElem_ofFn]
  split <;> rw [Vector.getElem_map]

theorem hash_pair_refines (l r : Vector Nat 5) (hl : CanonV l) (hr : CanonV r) :
    CanonV (hash_pair l r) ∧
    (hash_pair l r).map bfe_value = TF.Spec.Tip5.hashPair (l.map bfe_value) (r.map bfe_value) := by
  rw [hash_pair_eq, spec_hashPair_eq, ← pairInput_value]
  exact hash_10_refines _ (pairInput_canon l r hl hr)

theorem zeros_canon : CanonV (Vector.replicate 5 zero) := by
  intro j h
  rw [Vector.getElem_replicate]
  exact zero_canon

theorem zeros_value : (Vector.replicate 5 zero).map bfe_value = Vector.replicate 5 0 := by
  apply Vector.ext
  intro j h
  rw [Vector.getElem_map, Vector.getElem_replicate, Vector.getElem_replicate]
  exact value_zero

theorem digest_hash_refines (d : Vector Nat 5) (hd : CanonV d) :
    CanonV (digest_hash d) ∧
    (digest_hash d).map bfe_value = TF.Spec.Tip5.hashPair (d.map bfe_value) (Vector.replicate 5 0) := by
  unfold digest_hash
  rw [← zeros_value]
  exact hash_pair_refines d _ hd zeros_canon

/-- entering the model with `BFieldElement::new` of canonical values -/
theorem new_canonV {n : Nat} (v : Vector Nat n) (hv : CanonV v) :
    CanonV (v.map bfe_new) ∧ (v.map bfe_new).map bfe_value = v := by
  constructor
  · intro j h
    rw [Vector.getElem_map]
    exact (new_spec _ (Nat.lt_trans (hv j h) Pn_lt_W)).1
  · apply Vector.ext
    intro j h
    rw [Vector.getElem_map, Vector.getElem_map]
    exact value_new _ (hv j h)

end TF.Tip5P
