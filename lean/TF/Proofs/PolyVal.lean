import TF.Model.PolyVal
import TF.Proofs.PolyMul
import Mathlib.Data.List.Forall2
/-!
Lemmas for C17 (value semantics): every operation of the polynomial models respects `denote`.
Operations that read their operands through `normalize`/`degree`/`resize` return *literally* the same result
(including the same panic behaviour) on two storages of the same polynomial; operations that copy raw storage
(`add`, `sub`, `scalar_mul`, …) return storages denoting the same polynomial.
-/
open Polynomial

namespace TF.Model.Poly
variable {K : Type} [Field K]
open Classical

variable (root : Nat → Option K)
local notation "FK" => FieldOps.ofField K root

theorem normalize_congr {a a' : List K} (h : denote a = denote a') : normalize FK a = normalize FK a' :=
  (denote_eq_iff root a a').1 h

theorem degree_congr {a a' : List K} (h : denote a = denote a') : degree FK a = degree FK a' := by
  unfold degree; rw [normalize_congr root h]

theorem resize_eq_coeffList (a : List K) (n : Nat) : resize a n 0 = coeffList (denote a) n := by
  apply List.ext_getElem
  · simp
  · intro i h1 h2
    have e1 : (resize a n 0)[i] = (resize a n 0).getD i 0 := (getD_of_lt _ _ _ h1).symm
    have e2 : (coeffList (denote a) n)[i] = (coeffList (denote a) n).getD i 0 := (getD_of_lt _ _ _ h2).symm
    rw [e1, e2, ← coeff_denote, coeff_denote_resize, getD_coeffList]

theorem resize_congr {a a' : List K} (h : denote a = denote a') (n : Nat) : resize a n 0 = resize a' n 0 := by
  rw [resize_eq_coeffList, resize_eq_coeffList, h]

/-! ### literal congruence -/

theorem naiveMultiply_congr {a a' b b' : List K} (ha : denote a = denote a') (hb : denote b = denote b') :
    naiveMultiply FK a b = naiveMultiply FK a' b' := by
  unfold naiveMultiply naiveMultiplyG
  rw [normalize_congr root ha, normalize_congr root hb]

theorem slowSquare_congr {a a' : List K} (h : denote a = denote a') : slowSquare FK a = slowSquare FK a' := by
  unfold slowSquare; rw [normalize_congr root h]

theorem fastSquare_congr (T : Transform K) {a a' : List K} (h : denote a = denote a') :
    fastSquare FK T a = fastSquare FK T a' := by
  unfold fastSquare
  simp only [FieldOps.ofField_zero]
  rw [normalize_congr root h]
  split <;> first | rfl | (simp only [resize_congr h])

theorem square_congr (cutoff : Nat) (T : Transform K) {a a' : List K} (h : denote a = denote a') :
    square FK cutoff T a = square FK cutoff T a' := by
  unfold square
  rw [normalize_congr root h, fastSquare_congr root T h]

theorem fastMultiply_congr (T : Transform K) {a a' b b' : List K} (ha : denote a = denote a')
    (hb : denote b = denote b') : fastMultiply FK T a b = fastMultiply FK T a' b' := by
  unfold fastMultiply fastMultiplyG
  simp only [FieldOps.ofField_zero]
  rw [degree_congr root ha, degree_congr root hb]
  simp only [resize_congr ha, resize_congr hb]

theorem multiply_congr (threshold : Int) (T : Transform K) {a a' b b' : List K} (ha : denote a = denote a')
    (hb : denote b = denote b') : multiply FK threshold T a b = multiply FK threshold T a' b' := by
  have h1 := fastMultiply_congr root T ha hb
  have h2 := naiveMultiply_congr root ha hb
  unfold multiply multiplyG
  unfold fastMultiply at h1
  unfold naiveMultiply at h2
  rw [degree_congr root ha, degree_congr root hb, h1, h2]

theorem powLoop_congr (sq m m' : List K → Option (List K)) (hm : ∀ acc, m acc = m' acc) (e bl n : Nat) (acc : List K) :
    powLoop sq m e bl n acc = powLoop sq m' e bl n acc := by
  have : m = m' := funext hm
  rw [this]

theorem pow_congr {a a' : List K} (h : denote a = denote a') (e : Nat) : pow FK a e = pow FK a' e := by
  unfold pow
  rw [degree_congr root h]
  have : (fun acc => some (mul FK acc a)) = (fun acc => some (mul FK acc a')) := by
    funext acc; unfold mul; rw [naiveMultiply_congr root rfl h]
  rw [this]

theorem fastPow_congr (sqCutoff : Nat) (threshold : Int) (T : Transform K) {a a' : List K}
    (h : denote a = denote a') (e : Nat) :
    fastPow FK sqCutoff threshold T a e = fastPow FK sqCutoff threshold T a' e := by
  unfold fastPow
  rw [degree_congr root h]
  have : (fun acc => multiply FK threshold T a acc) = (fun acc => multiply FK threshold T a' acc) := by
    funext acc; exact multiply_congr root threshold T h rfl
  rw [this]

/-! ### accessors, equality, hash, encoding, truncate -/

theorem eq_congr {a a' b b' : List K} (ha : denote a = denote a') (hb : denote b = denote b') :
    eq FK a b = eq FK a' b' := by
  rw [Bool.eq_iff_iff, eq_iff_denote, eq_iff_denote, ha, hb]

theorem truncate_congr {a a' : List K} (h : denote a = denote a') (k : Nat) : truncate FK a k = truncate FK a' k := by
  unfold truncate; rw [normalize_congr root h]

theorem getD_drop' (l : List K) (m i : Nat) : (l.drop m).getD i 0 = l.getD (i + m) 0 := by
  simp [List.getD_eq_getElem?_getD, Nat.add_comm]

/-- `truncate(k)` keeps the `k+1` highest coefficients of the polynomial: coefficient `i` of the result is coefficient
    `i + (L − (k+1))` of the argument, `L` = number of coefficients up to the leading one -/
theorem coeff_truncate (p : List K) (k i : Nat) :
    (denote (truncate FK p k)).coeff i = (denote p).coeff (i + ((normalize FK p).length - (k + 1))) := by
  unfold truncate
  simp only
  rw [coeff_denote, getD_drop', ← coeff_denote, denote_normalize]

theorem coeff_modXToTheN (p : List K) (n i : Nat) :
    (denote (modXToTheN p n)).coeff i = if i < n then (denote p).coeff i else 0 := by
  unfold modXToTheN
  rw [coeff_denote, coeff_denote]
  simp only [List.getD_eq_getElem?_getD, List.getElem?_take]
  split <;> simp

theorem denote_modXToTheN_congr {a a' : List K} (h : denote a = denote a') (n : Nat) :
    denote (modXToTheN a n) = denote (modXToTheN a' n) := by
  ext i; rw [coeff_modXToTheN, coeff_modXToTheN, h]

theorem denote_addAssign (a b : List K) : denote (addAssign FK a b) = denote a + denote b := by
  unfold addAssign
  induction a generalizing b with
  | nil => simp
  | cons x xs ih =>
    cases b with
    | nil => simp
    | cons y ys =>
      have := ih ys
      simp only [List.zipWith_cons_cons, List.length_cons, List.drop_succ_cons, List.cons_append,
        denote_cons, FieldOps.ofField_add, C_add] at this ⊢
      rw [this]; ring

theorem denote_formalDerivative (p : List K) : denote (formalDerivative FK p) = derivative (denote p) := by
  unfold formalDerivative
  have h := denote_formalDerivativeAux root p 0
  cases p with
  | nil => simp [formalDerivativeAux]
  | cons c cs =>
    simp only [formalDerivativeAux, denote_cons, FieldOps.ofField_mul, FieldOps.ofField_ofNat, Nat.cast_zero,
      zero_mul, map_zero, zero_add] at h
    simp only [formalDerivativeAux, List.drop_succ_cons, List.drop_zero]
    exact mul_left_cancel₀ X_ne_zero (by rw [h]; simp)

/-! ### batch products: related inputs give related outputs (same panic behaviour, same polynomial) -/

/-- two polynomials-or-panic are related when both panic or both denote the same polynomial -/
def RelO (p q : Option (List K)) : Prop :=
  match p, q with
  | none, none => True
  | some a, some b => denote a = denote b
  | _, _ => False

theorem RelO_refl_of_eq {p q : Option (List K)} (h : p = q) : RelO p q := by
  subst h; cases p <;> simp [RelO]

/-- a binary product that returns literally the same on storages of the same polynomials -/
def MulCongr (mulf : List K → List K → Option (List K)) : Prop :=
  ∀ a a' b b', denote a = denote a' → denote b = denote b' → mulf a b = mulf a' b'

theorem pairUp_rel {mulf : List K → List K → Option (List K)} (hm : MulCongr mulf)
    {ps qs : List (Option (List K))} (h : List.Forall₂ RelO ps qs) :
    List.Forall₂ RelO (pairUp mulf ps) (pairUp mulf qs) := by
  fun_induction pairUp mulf ps generalizing qs with
  | case1 => cases h; simp [pairUp]
  | case2 p => cases h with | cons h1 h2 => cases h2; simpa [pairUp] using h1
  | case3 p q rest ih =>
    match qs, h with
    | p' :: q' :: rest', .cons h1 (.cons h3 h4) =>
      simp only [pairUp]
      refine List.Forall₂.cons ?_ (ih h4)
      match p, p', h1, q, q', h3 with
      | none, none, _, _, _, _ => simp [RelO]
      | some a, some a', h1, none, none, _ => simp [RelO]
      | some a, some a', h1, some b, some b', h3 =>
        exact RelO_refl_of_eq (by simp [hm _ _ _ _ h1 h3])

theorem batchLoop_rel {mulf : List K → List K → Option (List K)} (hm : MulCongr mulf)
    {ps qs : List (Option (List K))} (h : List.Forall₂ RelO ps qs) :
    RelO (batchLoop mulf ps) (batchLoop mulf qs) := by
  induction ps using batchLoop.induct mulf generalizing qs with
  | case1 => cases h; simp [batchLoop, RelO]
  | case2 p => cases h with | cons h1 h2 => cases h2; simpa [batchLoop] using h1
  | case3 p q rest ih =>
    cases h with
    | cons h1 h2 =>
      cases h2 with
      | cons h3 h4 =>
        rw [batchLoop, batchLoop]
        exact ih (pairUp_rel hm (List.Forall₂.cons h1 (List.Forall₂.cons h3 h4)))

theorem batchMultiplyWith_rel {mulf : List K → List K → Option (List K)} (hm : MulCongr mulf)
    {ps qs : List (Option (List K))} (h : List.Forall₂ RelO ps qs) :
    RelO (batchMultiplyWith FK mulf ps) (batchMultiplyWith FK mulf qs) := by
  unfold batchMultiplyWith
  cases h with
  | nil => simp [RelO]
  | cons h1 h2 => simpa using batchLoop_rel hm (List.Forall₂.cons h1 h2)

theorem chunksAux_rel (n fuel : Nat) {xs ys : List (Option (List K))} (h : List.Forall₂ RelO xs ys) :
    List.Forall₂ (List.Forall₂ RelO) (chunksAux n fuel xs) (chunksAux n fuel ys) := by
  induction fuel generalizing xs ys with
  | zero => simp [chunksAux]
  | succ fuel ih =>
    unfold chunksAux
    cases h with
    | nil => simp
    | cons h1 h2 =>
      simp only [List.isEmpty_cons, Bool.false_eq_true, if_false]
      exact List.Forall₂.cons (List.forall₂_take n (List.Forall₂.cons h1 h2))
        (ih (List.forall₂_drop n (List.Forall₂.cons h1 h2)))

theorem parBatchLoop_rel {mulf : List K → List K → Option (List K)} (hm : MulCongr mulf) (numThreads : Nat)
    {ps qs : List (Option (List K))} (h : List.Forall₂ RelO ps qs) :
    RelO (parBatchLoop FK mulf numThreads ps) (parBatchLoop FK mulf numThreads qs) := by
  fun_induction parBatchLoop FK mulf numThreads ps generalizing qs with
  | case1 => cases h; simp [parBatchLoop, RelO]
  | case2 p => cases h with | cons h1 h2 => cases h2; simpa [parBatchLoop] using h1
  | case3 p q rest chunkSize =>
    rename_i ih
    match qs, h with
    | p' :: q' :: rest', .cons h1 (.cons h3 h4) =>
      have hall : List.Forall₂ RelO (p :: q :: rest) (p' :: q' :: rest') := .cons h1 (.cons h3 h4)
      have hlen : (p :: q :: rest).length = (p' :: q' :: rest').length := hall.length_eq
      rw [parBatchLoop]
      rw [← hlen]
      apply ih
      unfold chunks
      rw [← hlen]
      have := chunksAux_rel (max 2 ((p :: q :: rest).length / numThreads)) (p :: q :: rest).length hall
      rw [List.forall₂_map_left_iff, List.forall₂_map_right_iff]
      exact this.imp (fun _ _ hc => batchMultiplyWith_rel root hm hc)

theorem parBatchMultiplyWith_rel {mulf : List K → List K → Option (List K)} (hm : MulCongr mulf) (numThreads : Nat)
    {ps qs : List (Option (List K))} (h : List.Forall₂ RelO ps qs) :
    RelO (parBatchMultiplyWith FK mulf numThreads ps) (parBatchMultiplyWith FK mulf numThreads qs) := by
  unfold parBatchMultiplyWith
  cases h with
  | nil => simp [RelO]
  | cons h1 h2 => simpa using parBatchLoop_rel root hm numThreads (List.Forall₂.cons h1 h2)

theorem forall₂_map_some {fs gs : List (List K)} (h : List.Forall₂ (fun a b => denote a = denote b) fs gs) :
    List.Forall₂ RelO (fs.map some) (gs.map some) := by
  rw [List.forall₂_map_left_iff, List.forall₂_map_right_iff]
  exact h.imp (fun _ _ hab => hab)

end TF.Model.Poly
