import TF.Proofs.MmrMember
import TF.Proofs.MmrNodeIndex
import TF.Proofs.MmrForest
/-!
Helper lemmas for C05: `MmrMembershipProof::update_from_append` / `batch_update_from_append` compute the from-scratch
authentication path of the longer range.

Part 1: bit facts (`trailingOnes`, `locate` under an append).
Part 2: the index functions used by the routines in `nodeIdx` form (`node_indices_added_by_append`,
        `get_peak_heights_and_peak_node_indices`, `get_authentication_path_node_indices`, `get_peak_index_and_height`).
Part 3: the `HashMap` bookkeeping (`known_digests`): every entry is the digest of the block its key denotes
        (`Sound`), and the keys that are looked up are present.
Part 4: the routines.
-/
namespace TF.MmrE
open TF TF.Gen TF.Model.Mmr TF.Model.MmrE TF.Spec.MmrE

/-! ## Part 1: bit facts -/

theorem div_two_pow_succ (n k : Nat) : n / 2 ^ (k + 1) = n / 2 / 2 ^ k := by
  rw [Nat.div_div_eq_div_mul, Nat.pow_succ, Nat.mul_comm]

theorem div_two_pow_succ' (n k : Nat) : n / 2 ^ (k + 1) = n / 2 ^ k / 2 := by
  rw [Nat.div_div_eq_div_mul, Nat.pow_succ]

/-- the bits below the trailing-ones count are set -/
theorem trailingOnes_bit_lt : ∀ (k n : Nat), k < trailingOnes n → n / 2 ^ k % 2 = 1 := by
  intro k
  induction k with
  | zero =>
    intro n h
    have := (trailingOnes_ne_zero_iff n).mp (by omega)
    simpa using this
  | succ k ih =>
    intro n h
    have hodd : n % 2 = 1 := (trailingOnes_ne_zero_iff n).mp (by omega)
    rw [TF.Mmr.trailingOnes_odd n hodd] at h
    rw [div_two_pow_succ]
    exact ih (n / 2) (by omega)

/-- the bit at the trailing-ones count is clear -/
theorem trailingOnes_bit_eq : ∀ n : Nat, n / 2 ^ trailingOnes n % 2 = 0 := by
  intro n
  induction n using Nat.strongRecOn with
  | _ n ih =>
    by_cases h : n % 2 = 1
    · rw [TF.Mmr.trailingOnes_odd n h, div_two_pow_succ]
      exact ih (n / 2) (by omega)
    · rw [TF.Mmr.trailingOnes_even n (by omega)]
      simp; omega

/-- where leaf `i` sits: above bit `h` the leaf index and the leaf count agree, bit `h` of the count is set, of the
    index clear -/
theorem locate_bits (n i : Nat) (hlt : i < n) :
    i / 2 ^ ((locate n i).1 + 1) = n / 2 ^ ((locate n i).1 + 1) ∧ n / 2 ^ (locate n i).1 % 2 = 1 ∧
      i / 2 ^ (locate n i).1 % 2 = 0 := by
  rw [locate_eq_ideal n i hlt]
  exact TF.Mmr.xor_log2_facts i n hlt

/-- the height of the tree above an old leaf after an append: the merged trees (heights below `trailingOnes n`) end
    up in the new tree of height `trailingOnes n`, the others are untouched -/
theorem locate_succ_height : ∀ (n i : Nat), i < n →
    (locate (n + 1) i).1 = if (locate n i).1 < trailingOnes n then trailingOnes n else (locate n i).1 := by
  intro n
  induction n using Nat.strongRecOn with
  | _ n ih =>
    intro i hlt
    rw [locate_unfold n i (by omega), locate_unfold (n + 1) i (by omega)]
    have hne : ¬ ((n + 1) % 2 = 1 ∧ i = n + 1 - 1) := by omega
    rw [if_neg hne]
    by_cases h2 : n % 2 = 0
    · have e : (n + 1) / 2 = n / 2 := by omega
      have hc : ¬ (n % 2 = 1 ∧ i = n - 1) := by omega
      rw [if_neg hc, e, TF.Mmr.trailingOnes_even n h2]
      simp
    · have hodd : n % 2 = 1 := by omega
      have e : (n + 1) / 2 = n / 2 + 1 := by omega
      rw [e, TF.Mmr.trailingOnes_odd n hodd]
      by_cases hc : n % 2 = 1 ∧ i = n - 1
      · rw [if_pos hc]
        have hi : i / 2 = n / 2 := by omega
        simp only [hi, locate_succ_self]
        simp
      · rw [if_neg hc]
        have := ih (n / 2) (by omega) (i / 2) (by omega)
        simp only [this]
        split <;> split <;> omega

/-! ## Part 2: the index functions in `nodeIdx` form -/

theorem nodeIdx_zero (n : Nat) : nodeIdx 0 n = TF.Mmr.nodesOf n + 1 := by
  have := nodeIdx_eq 0 n
  have := pc_le n
  unfold TF.Mmr.nodesOf
  omega

/-- the right spine above the new leaf `n`: consecutive node indices -/
theorem nodeIdx_spine (n : Nat) : ∀ k, k ≤ trailingOnes n → nodeIdx k (n / 2 ^ k) = TF.Mmr.nodesOf n + 1 + k := by
  intro k
  induction k with
  | zero => intro _; simpa using nodeIdx_zero n
  | succ k ih =>
    intro hk
    have hbit := trailingOnes_bit_lt k n (by omega)
    have e : n / 2 ^ k = 2 * (n / 2 ^ (k + 1)) + 1 := by rw [div_two_pow_succ']; omega
    have := nodeIdx_right k (n / 2 ^ (k + 1))
    rw [← e] at this
    rw [this, ih (by omega)]
    omega

theorem nodesOf_succ_lt (n : Nat) (hn : n + 1 < 2 ^ 63) : TF.Mmr.nodesOf (n + 1) < 2 ^ 64 := by
  have := TF.Mmr.nodesOf_le (n + 1)
  omega

theorem spine_lt (n k : Nat) (hn : n + 1 < 2 ^ 63) (hk : k ≤ trailingOnes n) : nodeIdx k (n / 2 ^ k) < 2 ^ 64 := by
  rw [nodeIdx_spine n k hk]
  have := TF.Mmr.nodesOf_succ n
  have := nodesOf_succ_lt n hn
  omega

/-- **`node_indices_added_by_append`**: the new leaf and its new ancestors -/
theorem added_nodeIdx (n : Nat) (hn : n < 2 ^ 63) :
    node_indices_added_by_append n
      = some ((List.range (trailingOnes n + 1)).map fun k => nodeIdx k (n / 2 ^ k)) := by
  rw [TF.Mmr.added_spec n hn]
  congr 1
  apply List.map_congr_left
  intro k hk
  rw [nodeIdx_spine n k (by have := List.mem_range.mp hk; omega)]

/-- the peak of height `j` (a set bit of `n`) is the block `n / 2^j − 1` of level `j` -/
theorem peak_nodeIdx (n j : Nat) (hbit : n / 2 ^ j % 2 = 1) :
    TF.Mmr.nodesOf (n / 2 ^ j * 2 ^ j) = nodeIdx j (n / 2 ^ j - 1) := by
  generalize hm : n / 2 ^ j = m at *
  have h1 := nodeIdx_eq j (m - 1)
  have e1 : m - 1 + 1 = m := by omega
  rw [e1] at h1
  unfold TF.Mmr.nodesOf
  rw [TF.Mmr.popCount_mul_two_pow]
  have hp1 := popCount_unfold m
  have hp2 := popCount_unfold (m - 1)
  have e2 : (m - 1) / 2 = m / 2 := by omega
  have e3 : (m - 1) % 2 = 0 := by omega
  rw [e2, e3] at hp2
  have hX : 2 * (m * 2 ^ j) = m * 2 ^ (j + 1) := by rw [Nat.pow_succ]; ac_rfl
  have hle : m ≤ m * 2 ^ (j + 1) := Nat.le_mul_of_pos_right _ (Nat.pow_pos (by omega))
  have := pc_le m
  rw [hX]
  omega

theorem mem_bitsBelow (n : Nat) : ∀ K j, j ∈ TF.Spec.Mmr.bitsBelow K n ↔ j < K ∧ n / 2 ^ j % 2 = 1 := by
  intro K
  induction K with
  | zero => intro j; simp [TF.Spec.Mmr.bitsBelow]
  | succ K ih =>
    intro j
    rw [TF.Mmr.bitsBelow_succ]
    by_cases hb : n / 2 ^ K % 2 = 1
    · rw [if_pos hb, List.mem_cons, ih]
      constructor
      · rintro (rfl | ⟨h1, h2⟩)
        · exact ⟨by omega, hb⟩
        · exact ⟨by omega, h2⟩
      · rintro ⟨h1, h2⟩
        by_cases hj : j = K
        · exact Or.inl hj
        · exact Or.inr ⟨by omega, h2⟩
    · rw [if_neg hb, ih]
      constructor
      · rintro ⟨h1, h2⟩; exact ⟨by omega, h2⟩
      · rintro ⟨h1, h2⟩
        have : j ≠ K := by rintro rfl; exact hb h2
        exact ⟨by omega, h2⟩

/-- **`get_peak_heights_and_peak_node_indices`**, node indices in `nodeIdx` form -/
theorem peak_indices_nodeIdx (n : Nat) (hn : n < 2 ^ 63) :
    get_peak_heights_and_peak_node_indices n
      = some (TF.Spec.Mmr.bitsBelow 64 n, (TF.Spec.Mmr.bitsBelow 64 n).map fun j => nodeIdx j (n / 2 ^ j - 1)) := by
  rw [TF.Mmr.get_peaks_spec n hn]
  have h64 : n < 2 ^ 64 := by omega
  have := TF.Mmr.peakIdxScan_closed n 64
  rw [Nat.div_eq_of_lt h64, Nat.zero_mul, TF.Mmr.nodesOf_zero] at this
  rw [this]
  congr 2
  apply List.map_congr_left
  intro j hj
  exact peak_nodeIdx n j ((mem_bitsBelow n 64 j).mp hj).2

section P
variable {D : Type} (H : D → D → D)

/-- the from-scratch peaks, indexed by the set bits of the leaf count -/
theorem peaks_bitsBelow : ∀ (n K : Nat) (f : Nat → D), n < 2 ^ K →
    peaks H n f = (TF.Spec.Mmr.bitsBelow K n).map fun j => sub H f j (n / 2 ^ j - 1) := by
  intro n
  induction n using Nat.strongRecOn with
  | _ n ih =>
    intro K f hK
    by_cases hn : n = 0
    · subst hn; simp [peaks_zero, TF.Mmr.bitsBelow_zero_n]
    · cases K with
      | zero => simp at hK; omega
      | succ K =>
        rw [peaks_unfold H n f hn, TF.Mmr.bitsBelow_low, ih (n / 2) (by omega) K (pair H f) (by rw [Nat.pow_succ] at hK; omega)]
        rw [List.map_append, List.map_map]
        congr 1
        · apply List.map_congr_left
          intro j _
          simp only [Function.comp, sub_pair, div_two_pow_succ]
        · by_cases h : n % 2 = 1
          · simp [h, sub]
          · simp [h]

/-- the lowest `trailingOnes n` peaks (the ones an append merges), lowest first -/
theorem peaks_reverse_low : ∀ (n : Nat) (f : Nat → D), ∃ rest,
    (peaks H n f).reverse = (List.range (trailingOnes n)).map (fun k => sub H f k (n / 2 ^ k - 1)) ++ rest := by
  intro n
  induction n using Nat.strongRecOn with
  | _ n ih =>
    intro f
    by_cases h : n % 2 = 1
    · obtain ⟨rest, hr⟩ := ih (n / 2) (by omega) (pair H f)
      refine ⟨rest, ?_⟩
      rw [peaks_unfold H n f (by omega), TF.Mmr.trailingOnes_odd n h, List.reverse_append, hr,
        List.range_succ_eq_map, List.map_cons, List.map_map]
      simp only [h, if_true, List.reverse_cons, List.reverse_nil, List.nil_append,
        List.cons_append, sub, Nat.pow_zero, Nat.div_one]
      congr 2
      apply List.map_congr_left
      intro k _
      simp only [Function.comp, sub_pair, div_two_pow_succ, Nat.succ_eq_add_one]
    · exact ⟨(peaks H n f).reverse, by rw [TF.Mmr.trailingOnes_even n (by omega)]; simp⟩

theorem peaks_reverse_getElem? (n : Nat) (f : Nat → D) (k : Nat) (hk : k < trailingOnes n) :
    (peaks H n f).reverse[k]? = some (sub H f k (n / 2 ^ k - 1)) := by
  obtain ⟨rest, hr⟩ := peaks_reverse_low H n f
  rw [hr, List.getElem?_append_left (by simpa using hk)]
  simp [hk]

end P

/-! ### `get_authentication_path_node_indices` -/

/-- one round of the loop of `get_authentication_path_node_indices` is `siblingAndParent` -/
theorem authPathLoop_step (p nc f x : Nat) (acc : List Nat) :
    authPathLoop p nc (f + 1) x acc =
      if x ≤ nc ∧ x ≠ p then
        (match siblingAndParent x with
          | none => none
          | some r => authPathLoop p nc f r.2.2 (acc ++ [r.2.1]))
      else some (x, acc) := by
  rw [authPathLoop]
  unfold siblingAndParent
  cases right_lineage_length_and_own_height x with
  | none => rfl
  | some r =>
    obtain ⟨a, b⟩ := r
    simp only
    split
    · split <;> rfl
    · rfl

/-- the loop of `get_authentication_path_node_indices` from the node `(l, b)` to its ancestor `d` levels up collects
    the sibling blocks of the levels `l … l+d-1` -/
theorem authPathLoop_spec (peak nc : Nat) : ∀ (d l b fuel : Nat) (acc : List Nat), d < fuel → l + d ≤ 63 →
    nodeIdx (l + d) (b / 2 ^ d) < 2 ^ 64 → nodeIdx (l + d) (b / 2 ^ d) ≤ nc → peak = nodeIdx (l + d) (b / 2 ^ d) →
    authPathLoop peak nc fuel (nodeIdx l b) acc
      = some (peak, acc ++ (List.range d).map (fun k => nodeIdx (l + k) (sibBlk (b / 2 ^ k)))) := by
  intro d
  induction d with
  | zero =>
    intro l b fuel acc hf _ _ _ hp
    obtain ⟨f, rfl⟩ : ∃ f, fuel = f + 1 := ⟨fuel - 1, by omega⟩
    simp only [Nat.add_zero, Nat.pow_zero, Nat.div_one] at hp
    rw [authPathLoop_step, if_neg (by omega)]
    simp [hp]
  | succ d ih =>
    intro l b fuel acc hf hl hlt hnc hp
    obtain ⟨f, rfl⟩ : ∃ f, fuel = f + 1 := ⟨fuel - 1, by omega⟩
    have hanc := nodeIdx_lt_ancestor l b (d + 1) (by omega)
    have e1 : l + 1 + d = l + (d + 1) := by omega
    have ediv : b / 2 / 2 ^ d = b / 2 ^ (d + 1) := (div_two_pow_succ b d).symm
    have hle := nodeIdx_le_ancestor (l + 1) (b / 2) d
    rw [ediv, e1] at hle
    rw [authPathLoop_step, if_pos ⟨by omega, by omega⟩, siblingAndParent_spec l b (by omega) (by omega)]
    simp only
    rw [ih (l + 1) (b / 2) f _ (by omega) (by omega) (by rw [ediv, e1]; exact hlt) (by rw [ediv, e1]; exact hnc)
      (by rw [ediv, e1]; exact hp)]
    congr 2
    rw [List.append_assoc]
    congr 1
    rw [List.range_succ_eq_map, List.map_cons, List.map_map]
    simp only [List.singleton_append, Nat.pow_zero, Nat.div_one, Nat.add_zero, List.cons.injEq, true_and]
    apply List.map_congr_left
    intro t _
    simp only [Function.comp, Nat.succ_eq_add_one]
    have e : l + 1 + t = l + (t + 1) := by omega
    rw [← div_two_pow_succ, e]

/-- **`get_authentication_path_node_indices`** from the node `(l, b)` to its ancestor `d` levels up (which exists:
    its index is at most `node_count`): `Some` of the sibling blocks' node indices, bottom up -/
theorem get_auth_path_node_indices_spec (l b d nc : Nat) (hl : l + d ≤ 63)
    (hlt : nodeIdx (l + d) (b / 2 ^ d) < 2 ^ 64) (hnc : nodeIdx (l + d) (b / 2 ^ d) ≤ nc) :
    get_authentication_path_node_indices (nodeIdx l b) (nodeIdx (l + d) (b / 2 ^ d)) nc
      = some (some ((List.range d).map (fun k => nodeIdx (l + k) (sibBlk (b / 2 ^ k))))) := by
  unfold get_authentication_path_node_indices
  rw [authPathLoop_spec _ nc d l b (descentFuel + 1) [] (by unfold descentFuel; omega) hl hlt hnc rfl]
  simp

section Q
variable {D : Type} (H : D → D → D)

/-- **`get_peak_index_and_height`** on a from-scratch path: the node index of the leaf's peak and its height -/
theorem getPeakIndexAndHeight_spec (g : Nat → D) (n i : Nat) (hlt : i < n) (hn : n < 2 ^ 63) :
    getPeakIndexAndHeight (authPathOf H g n i) i
      = some (nodeIdx (locate n i).1 (i / 2 ^ (locate n i).1), (locate n i).1) := by
  have hh := height_lt_64 n i hlt (by omega)
  have hblk := locate_block_le n i hlt
  have hpos : 0 < 2 ^ (locate n i).1 := Nat.pow_pos (by omega)
  have hdm := Nat.div_add_mod i (2 ^ (locate n i).1)
  have hb : (i / 2 ^ (locate n i).1 + 1) * 2 ^ (locate n i).1 ≤ n := by
    rw [Nat.add_mul, Nat.one_mul, Nat.mul_comm]; omega
  have hidx := nodeIdx_lt_of_block _ _ n hb hn
  have hlen : (authPathOf H g n i).length = (locate n i).1 := by unfold authPathOf; rw [sibPath_length]
  unfold getPeakIndexAndHeight
  rw [hlen, get_direct_path_indices_spec i _ (by omega) (by omega) hidx]
  simp only [List.range_succ, List.map_append, List.map_cons, List.map_nil]
  have : (locate n i).1 % W32 = (locate n i).1 := by unfold W32; omega
  simp [this]

end Q

end TF.MmrE
