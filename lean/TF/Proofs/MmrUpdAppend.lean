import TF.Proofs.MmrMember
import TF.Proofs.MmrNodeIndex
import TF.Proofs.MmrForest
/-!
Helper lemmas for C05: `MmrMembershipProof::update_from_append` / `batch_update_from_append` compute the from-scratch
authentication path of the longer range.

Part 1: bit facts (`trailingOnes`, `locate` under an append).
Part 2: the index functions used by the routines in `nodeIdx` form (`node_indices_added_by_append`,
        `get_peak_heights_and_peak_node_indices`, `get_authentication_path_node_indices`, `get_peak_index_and_height`).
Part 3: the `HashMap` bookkeeping (`known_digests`): every entry is the digest of the block its key denotes
        (`Sound`), and the keys that are looked up are present.
Part 4: the routines.
-/
namespace TF.MmrE.UpdAppend
open TF TF.Gen TF.Model.Mmr TF.Model.MmrE TF.Spec.MmrE

/-! ## Part 1: bit facts -/

theorem div_two_pow_succ (n k : Nat) : n / 2 ^ (k + 1) = n / 2 / 2 ^ k := by
  rw [Nat.div_div_eq_div_mul, Nat.pow_succ, Nat.mul_comm]

theorem div_two_pow_succ' (n k : Nat) : n / 2 ^ (k + 1) = n / 2 ^ k / 2 := by
  rw [Nat.div_div_eq_div_mul, Nat.pow_succ]

/-- the bits below the trailing-ones count are set -/
theorem trailingOnes_bit_lt : ∀ (k n : Nat), k < trailingOnes n → n / 2 ^ k % 2 = 1 := by
  intro k
  induction k with
  | zero =>
    intro n h
    have := (trailingOnes_ne_zero_iff n).mp (by omega)
    simpa using this
  | succ k ih =>
    intro n h
    have hodd : n % 2 = 1 := (trailingOnes_ne_zero_iff n).mp (by omega)
    rw [TF.Mmr.trailingOnes_odd n hodd] at h
    rw [div_two_pow_succ]
    exact ih (n / 2) (by omega)

/-- the bit at the trailing-ones count is clear -/
theorem trailingOnes_bit_eq : ∀ n : Nat, n / 2 ^ trailingOnes n % 2 = 0 := by
  intro n
  induction n using Nat.strongRecOn with
  | _ n ih =>
    by_cases h : n % 2 = 1
    · rw [TF.Mmr.trailingOnes_odd n h, div_two_pow_succ]
      exact ih (n / 2) (by omega)
    · rw [TF.Mmr.trailingOnes_even n (by omega)]
      simp; omega

/-- where leaf `i` sits: above bit `h` the leaf index and the leaf count agree, bit `h` of the count is set, of the
    index clear -/
theorem locate_bits (n i : Nat) (hlt : i < n) :
    i / 2 ^ ((locate n i).1 + 1) = n / 2 ^ ((locate n i).1 + 1) ∧ n / 2 ^ (locate n i).1 % 2 = 1 ∧
      i / 2 ^ (locate n i).1 % 2 = 0 := by
  rw [locate_eq_ideal n i hlt]
  exact TF.Mmr.xor_log2_facts i n hlt

/-- the height of the tree above an old leaf after an append: the merged trees (heights below `trailingOnes n`) end
    up in the new tree of height `trailingOnes n`, the others are untouched -/
theorem locate_succ_height : ∀ (n i : Nat), i < n →
    (locate (n + 1) i).1 = if (locate n i).1 < trailingOnes n then trailingOnes n else (locate n i).1 := by
  intro n
  induction n using Nat.strongRecOn with
  | _ n ih =>
    intro i hlt
    rw [locate_unfold n i (by omega), locate_unfold (n + 1) i (by omega)]
    have hne : ¬ ((n + 1) % 2 = 1 ∧ i = n + 1 - 1) := by omega
    rw [if_neg hne]
    by_cases h2 : n % 2 = 0
    · have e : (n + 1) / 2 = n / 2 := by omega
      have hc : ¬ (n % 2 = 1 ∧ i = n - 1) := by omega
      rw [if_neg hc, e, TF.Mmr.trailingOnes_even n h2]
      simp
    · have hodd : n % 2 = 1 := by omega
      have e : (n + 1) / 2 = n / 2 + 1 := by omega
      rw [e, TF.Mmr.trailingOnes_odd n hodd]
      by_cases hc : n % 2 = 1 ∧ i = n - 1
      · rw [if_pos hc]
        have hi : i / 2 = n / 2 := by omega
        simp only [hi, locate_succ_self]
        simp
      · rw [if_neg hc]
        have := ih (n / 2) (by omega) (i / 2) (by omega)
        simp only [this]
        split <;> split <;> omega

/-! ## Part 2: the index functions in `nodeIdx` form -/

theorem nodeIdx_zero (n : Nat) : nodeIdx 0 n = TF.Mmr.nodesOf n + 1 := by
  have := nodeIdx_eq 0 n
  have := pc_le n
  unfold TF.Mmr.nodesOf
  omega

/-- the right spine above the new leaf `n`: consecutive node indices -/
theorem nodeIdx_spine (n : Nat) : ∀ k, k ≤ trailingOnes n → nodeIdx k (n / 2 ^ k) = TF.Mmr.nodesOf n + 1 + k := by
  intro k
  induction k with
  | zero => intro _; simpa using nodeIdx_zero n
  | succ k ih =>
    intro hk
    have hbit := trailingOnes_bit_lt k n (by omega)
    have e : n / 2 ^ k = 2 * (n / 2 ^ (k + 1)) + 1 := by rw [div_two_pow_succ']; omega
    have := nodeIdx_right k (n / 2 ^ (k + 1))
    rw [← e] at this
    rw [this, ih (by omega)]
    omega

theorem nodesOf_succ_lt (n : Nat) (hn : n + 1 < 2 ^ 63) : TF.Mmr.nodesOf (n + 1) < 2 ^ 64 := by
  have := TF.Mmr.nodesOf_le (n + 1)
  omega

theorem spine_lt (n k : Nat) (hn : n + 1 < 2 ^ 63) (hk : k ≤ trailingOnes n) : nodeIdx k (n / 2 ^ k) < 2 ^ 64 := by
  rw [nodeIdx_spine n k hk]
  have := TF.Mmr.nodesOf_succ n
  have := nodesOf_succ_lt n hn
  omega

/-- **`node_indices_added_by_append`**: the new leaf and its new ancestors -/
theorem added_nodeIdx (n : Nat) (hn : n < 2 ^ 63) :
    node_indices_added_by_append n
      = some ((List.range (trailingOnes n + 1)).map fun k => nodeIdx k (n / 2 ^ k)) := by
  rw [TF.Mmr.added_spec n hn]
  congr 1
  apply List.map_congr_left
  intro k hk
  rw [nodeIdx_spine n k (by have := List.mem_range.mp hk; omega)]

/-- the peak of height `j` (a set bit of `n`) is the block `n / 2^j − 1` of level `j` -/
theorem peak_nodeIdx (n j : Nat) (hbit : n / 2 ^ j % 2 = 1) :
    TF.Mmr.nodesOf (n / 2 ^ j * 2 ^ j) = nodeIdx j (n / 2 ^ j - 1) := by
  generalize hm : n / 2 ^ j = m at *
  have h1 := nodeIdx_eq j (m - 1)
  have e1 : m - 1 + 1 = m := by omega
  rw [e1] at h1
  unfold TF.Mmr.nodesOf
  rw [TF.Mmr.popCount_mul_two_pow]
  have hp1 := popCount_unfold m
  have hp2 := popCount_unfold (m - 1)
  have e2 : (m - 1) / 2 = m / 2 := by omega
  have e3 : (m - 1) % 2 = 0 := by omega
  rw [e2, e3] at hp2
  have hX : 2 * (m * 2 ^ j) = m * 2 ^ (j + 1) := by rw [Nat.pow_succ]; ac_rfl
  have hle : m ≤ m * 2 ^ (j + 1) := Nat.le_mul_of_pos_right _ (Nat.pow_pos (by omega))
  have := pc_le m
  rw [hX]
  omega

theorem mem_bitsBelow (n : Nat) : ∀ K j, j ∈ TF.Spec.Mmr.bitsBelow K n ↔ j < K ∧ n / 2 ^ j % 2 = 1 := by
  intro K
  induction K with
  | zero => intro j; simp [TF.Spec.Mmr.bitsBelow]
  | succ K ih =>
    intro j
    rw [TF.Mmr.bitsBelow_succ]
    by_cases hb : n / 2 ^ K % 2 = 1
    · rw [if_pos hb, List.mem_cons, ih]
      constructor
      · rintro (rfl | ⟨h1, h2⟩)
        · exact ⟨by omega, hb⟩
        · exact ⟨by omega, h2⟩
      · rintro ⟨h1, h2⟩
        by_cases hj : j = K
        · exact Or.inl hj
        · exact Or.inr ⟨by omega, h2⟩
    · rw [if_neg hb, ih]
      constructor
      · rintro ⟨h1, h2⟩; exact ⟨by omega, h2⟩
      · rintro ⟨h1, h2⟩
        have : j ≠ K := by rintro rfl; exact hb h2
        exact ⟨by omega, h2⟩

/-- **`get_peak_heights_and_peak_node_indices`**, node indices in `nodeIdx` form -/
theorem peak_indices_nodeIdx (n : Nat) (hn : n < 2 ^ 63) :
    get_peak_heights_and_peak_node_indices n
      = some (TF.Spec.Mmr.bitsBelow 64 n, (TF.Spec.Mmr.bitsBelow 64 n).map fun j => nodeIdx j (n / 2 ^ j - 1)) := by
  rw [TF.Mmr.get_peaks_spec n hn]
  have h64 : n < 2 ^ 64 := by omega
  have := TF.Mmr.peakIdxScan_closed n 64
  rw [Nat.div_eq_of_lt h64, Nat.zero_mul, TF.Mmr.nodesOf_zero] at this
  rw [this]
  congr 2
  apply List.map_congr_left
  intro j hj
  exact peak_nodeIdx n j ((mem_bitsBelow n 64 j).mp hj).2

section P
variable {D : Type} (H : D → D → D)

/-- the from-scratch peaks, indexed by the set bits of the leaf count -/
theorem peaks_bitsBelow : ∀ (n K : Nat) (f : Nat → D), n < 2 ^ K →
    peaks H n f = (TF.Spec.Mmr.bitsBelow K n).map fun j => sub H f j (n / 2 ^ j - 1) := by
  intro n
  induction n using Nat.strongRecOn with
  | _ n ih =>
    intro K f hK
    by_cases hn : n = 0
    · subst hn; simp [peaks_zero, TF.Mmr.bitsBelow_zero_n]
    · cases K with
      | zero => simp at hK; omega
      | succ K =>
        rw [peaks_unfold H n f hn, TF.Mmr.bitsBelow_low, ih (n / 2) (by omega) K (pair H f) (by rw [Nat.pow_succ] at hK; omega)]
        rw [List.map_append, List.map_map]
        congr 1
        · apply List.map_congr_left
          intro j _
          simp only [Function.comp, sub_pair, div_two_pow_succ]
        · by_cases h : n % 2 = 1
          · simp [h, sub]
          · simp [h]

/-- the lowest `trailingOnes n` peaks (the ones an append merges), lowest first -/
theorem peaks_reverse_low : ∀ (n : Nat) (f : Nat → D), ∃ rest,
    (peaks H n f).reverse = (List.range (trailingOnes n)).map (fun k => sub H f k (n / 2 ^ k - 1)) ++ rest := by
  intro n
  induction n using Nat.strongRecOn with
  | _ n ih =>
    intro f
    by_cases h : n % 2 = 1
    · obtain ⟨rest, hr⟩ := ih (n / 2) (by omega) (pair H f)
      refine ⟨rest, ?_⟩
      rw [peaks_unfold H n f (by omega), TF.Mmr.trailingOnes_odd n h, List.reverse_append, hr,
        List.range_succ_eq_map, List.map_cons, List.map_map]
      simp only [h, if_true, List.reverse_cons, List.reverse_nil, List.nil_append,
        List.cons_append, sub, Nat.pow_zero, Nat.div_one]
      congr 2
      apply List.map_congr_left
      intro k _
      simp only [Function.comp, sub_pair, div_two_pow_succ, Nat.succ_eq_add_one]
    · exact ⟨(peaks H n f).reverse, by rw [TF.Mmr.trailingOnes_even n (by omega)]; simp⟩

theorem peaks_reverse_getElem? (n : Nat) (f : Nat → D) (k : Nat) (hk : k < trailingOnes n) :
    (peaks H n f).reverse[k]? = some (sub H f k (n / 2 ^ k - 1)) := by
  obtain ⟨rest, hr⟩ := peaks_reverse_low H n f
  rw [hr, List.getElem?_append_left (by simpa using hk)]
  simp [hk]

end P

/-! ### `get_authentication_path_node_indices` -/

/-- one round of the loop of `get_authentication_path_node_indices` is `siblingAndParent` -/
theorem authPathLoop_step (p nc f x : Nat) (acc : List Nat) :
    authPathLoop p nc (f + 1) x acc =
      if x ≤ nc ∧ x ≠ p then
        (match siblingAndParent x with
          | none => none
          | some r => authPathLoop p nc f r.2.2 (acc ++ [r.2.1]))
      else some (x, acc) := by
  rw [authPathLoop]
  unfold siblingAndParent
  cases right_lineage_length_and_own_height x with
  | none => rfl
  | some r =>
    obtain ⟨a, b⟩ := r
    simp only
    split
    · split <;> rfl
    · rfl

/-- the loop of `get_authentication_path_node_indices` from the node `(l, b)` to its ancestor `d` levels up collects
    the sibling blocks of the levels `l … l+d-1` -/
theorem authPathLoop_spec (peak nc : Nat) : ∀ (d l b fuel : Nat) (acc : List Nat), d < fuel → l + d ≤ 63 →
    nodeIdx (l + d) (b / 2 ^ d) < 2 ^ 64 → nodeIdx (l + d) (b / 2 ^ d) ≤ nc → peak = nodeIdx (l + d) (b / 2 ^ d) →
    authPathLoop peak nc fuel (nodeIdx l b) acc
      = some (peak, acc ++ (List.range d).map (fun k => nodeIdx (l + k) (sibBlk (b / 2 ^ k)))) := by
  intro d
  induction d with
  | zero =>
    intro l b fuel acc hf _ _ _ hp
    obtain ⟨f, rfl⟩ : ∃ f, fuel = f + 1 := ⟨fuel - 1, by omega⟩
    simp only [Nat.add_zero, Nat.pow_zero, Nat.div_one] at hp
    rw [authPathLoop_step, if_neg (by omega)]
    simp [hp]
  | succ d ih =>
    intro l b fuel acc hf hl hlt hnc hp
    obtain ⟨f, rfl⟩ : ∃ f, fuel = f + 1 := ⟨fuel - 1, by omega⟩
    have hanc := nodeIdx_lt_ancestor l b (d + 1) (by omega)
    have e1 : l + 1 + d = l + (d + 1) := by omega
    have ediv : b / 2 / 2 ^ d = b / 2 ^ (d + 1) := (div_two_pow_succ b d).symm
    have hle := nodeIdx_le_ancestor (l + 1) (b / 2) d
    rw [ediv, e1] at hle
    rw [authPathLoop_step, if_pos ⟨by omega, by omega⟩, siblingAndParent_spec l b (by omega) (by omega)]
    simp only
    rw [ih (l + 1) (b / 2) f _ (by omega) (by omega) (by rw [ediv, e1]; exact hlt) (by rw [ediv, e1]; exact hnc)
      (by rw [ediv, e1]; exact hp)]
    congr 2
    rw [List.append_assoc]
    congr 1
    rw [List.range_succ_eq_map, List.map_cons, List.map_map]
    simp only [List.singleton_append, Nat.pow_zero, Nat.div_one, Nat.add_zero, List.cons.injEq, true_and]
    apply List.map_congr_left
    intro t _
    simp only [Function.comp, Nat.succ_eq_add_one]
    have e : l + 1 + t = l + (t + 1) := by omega
    rw [← div_two_pow_succ, e]

/-- **`get_authentication_path_node_indices`** from the node `(l, b)` to its ancestor `d` levels up (which exists:
    its index is at most `node_count`): `Some` of the sibling blocks' node indices, bottom up -/
theorem get_auth_path_node_indices_spec (l b d nc : Nat) (hl : l + d ≤ 63)
    (hlt : nodeIdx (l + d) (b / 2 ^ d) < 2 ^ 64) (hnc : nodeIdx (l + d) (b / 2 ^ d) ≤ nc) :
    get_authentication_path_node_indices (nodeIdx l b) (nodeIdx (l + d) (b / 2 ^ d)) nc
      = some (some ((List.range d).map (fun k => nodeIdx (l + k) (sibBlk (b / 2 ^ k))))) := by
  unfold get_authentication_path_node_indices
  rw [authPathLoop_spec _ nc d l b (descentFuel + 1) [] (by unfold descentFuel; omega) hl hlt hnc rfl]
  simp

section Q
variable {D : Type} (H : D → D → D)

/-- **`get_peak_index_and_height`** on a from-scratch path: the node index of the leaf's peak and its height -/
theorem getPeakIndexAndHeight_spec (g : Nat → D) (n i : Nat) (hlt : i < n) (hn : n < 2 ^ 63) :
    getPeakIndexAndHeight (authPathOf H g n i) i
      = some (nodeIdx (locate n i).1 (i / 2 ^ (locate n i).1), (locate n i).1) := by
  have hh := height_lt_64 n i hlt (by omega)
  have hblk := locate_block_le n i hlt
  have hpos : 0 < 2 ^ (locate n i).1 := Nat.pow_pos (by omega)
  have hdm := Nat.div_add_mod i (2 ^ (locate n i).1)
  have hb : (i / 2 ^ (locate n i).1 + 1) * 2 ^ (locate n i).1 ≤ n := by
    rw [Nat.add_mul, Nat.one_mul, Nat.mul_comm]; omega
  have hidx := nodeIdx_lt_of_block _ _ n hb hn
  have hlen : (authPathOf H g n i).length = (locate n i).1 := by unfold authPathOf; rw [sibPath_length]
  unfold getPeakIndexAndHeight
  rw [hlen, get_direct_path_indices_spec i _ (by omega) (by omega) hidx]
  simp only [List.range_succ, List.map_append, List.map_cons, List.map_nil]
  have : (locate n i).1 % W32 = (locate n i).1 := by unfold W32; omega
  simp [this]

end Q

/-! ## Part 3: the `HashMap` of known digests -/

section K
variable {D : Type} [DecidableEq D] (H : D → D → D) (g : Nat → D)

omit [DecidableEq D] in
theorem AMap.get?_mem : ∀ (m : AMap D) (k : Nat) (d : D), m.get? k = some d → (k, d) ∈ m := by
  intro m
  induction m with
  | nil => intro k d h; simp [AMap.get?] at h
  | cons p m ih =>
    intro k d h
    obtain ⟨k', v⟩ := p
    rw [AMap.get?] at h
    by_cases hk : k' = k
    · rw [if_pos hk] at h
      cases h; subst hk; exact List.mem_cons_self
    · rw [if_neg hk] at h
      exact List.mem_cons_of_mem _ (ih k d h)

omit [DecidableEq D] in
theorem AMap.get?_of_key : ∀ (m : AMap D) (k : Nat), k ∈ m.map (·.1) → ∃ d, m.get? k = some d := by
  intro m
  induction m with
  | nil => intro k h; simp at h
  | cons p m ih =>
    intro k h
    obtain ⟨k', v⟩ := p
    rw [AMap.get?]
    by_cases hk : k' = k
    · rw [if_pos hk]; exact ⟨v, rfl⟩
    · rw [if_neg hk]
      apply ih
      simp only [List.map_cons, List.mem_cons] at h
      rcases h with h | h
      · exact absurd h.symm hk
      · exact h

/-- every entry of the map is the digest of the block that its key denotes -/
def Sound (m : AMap D) : Prop :=
  ∀ x d, (x, d) ∈ m → ∃ l b, x = nodeIdx l b ∧ nodeIdx l b < 2 ^ 64 ∧ d = sub H g l b

omit [DecidableEq D] in
/-- a sound map that has the key of a block returns the digest of that block -/
theorem Sound.get? {m : AMap D} (hs : Sound H g m) (l b : Nat) (hk : nodeIdx l b ∈ m.map (·.1)) :
    m.get? (nodeIdx l b) = some (sub H g l b) := by
  obtain ⟨d, hd⟩ := AMap.get?_of_key m _ hk
  obtain ⟨l', b', he, hlt, hv⟩ := hs _ _ (AMap.get?_mem m _ _ hd)
  obtain ⟨rfl, rfl⟩ := nodeIdx_inj l' b' l b hlt he.symm
  rw [hd, hv]

omit [DecidableEq D] in
theorem Sound.insert {m : AMap D} (hs : Sound H g m) (l b : Nat) (hlt : nodeIdx l b < 2 ^ 64) :
    Sound H g (m.insert (nodeIdx l b) (sub H g l b)) := by
  intro x d hx
  unfold AMap.insert at hx
  rcases List.mem_cons.mp hx with h | h
  · cases h; exact ⟨l, b, rfl, hlt, rfl⟩
  · exact hs x d h

omit [DecidableEq D] in
theorem foldl_insert_eq (L : List (Nat × D)) : ∀ m0 : AMap D,
    L.foldl (fun m (x : Nat × D) => AMap.insert m x.1 x.2) m0 = L.reverse ++ m0 := by
  induction L with
  | nil => intro m0; rfl
  | cons p L ih =>
    intro m0
    obtain ⟨i, d⟩ := p
    rw [List.foldl_cons, ih]
    simp [AMap.insert]

/-- the map built from the old peaks -/
def knownPeaks (n : Nat) : AMap D :=
  ((TF.Spec.Mmr.bitsBelow 64 n).map fun j => (nodeIdx j (n / 2 ^ j - 1), sub H g j (n / 2 ^ j - 1))).reverse

omit [DecidableEq D] in
theorem known0_eq (n : Nat) (hn : n < 2 ^ 63) :
    ((((TF.Spec.Mmr.bitsBelow 64 n).map fun j => nodeIdx j (n / 2 ^ j - 1)).zip (peaks H n g)).foldl
      (fun m (x : Nat × D) => AMap.insert m x.1 x.2) ([] : AMap D)) = knownPeaks H g n := by
  rw [foldl_insert_eq, peaks_bitsBelow H n 64 g (by omega), List.zip_map', List.append_nil]
  rfl

omit [DecidableEq D] in
theorem knownPeaks_sound (n : Nat) (hn : n < 2 ^ 63) : Sound H g (knownPeaks H g n) := by
  intro x d hx
  unfold knownPeaks at hx
  rw [List.mem_reverse, List.mem_map] at hx
  obtain ⟨j, hj, he⟩ := hx
  cases he
  have hbit := ((mem_bitsBelow n 64 j).mp hj).2
  have e : n / 2 ^ j - 1 + 1 = n / 2 ^ j := by
    generalize n / 2 ^ j = q at hbit ⊢; omega
  refine ⟨j, n / 2 ^ j - 1, rfl, ?_, rfl⟩
  apply nodeIdx_lt_of_block _ _ n _ hn
  rw [e]
  exact Nat.div_mul_le_self n (2 ^ j)

omit [DecidableEq D] in
theorem knownPeaks_key (n j : Nat) (hj : j < 64) (hbit : n / 2 ^ j % 2 = 1) :
    nodeIdx j (n / 2 ^ j - 1) ∈ (knownPeaks H g n).map (·.1) := by
  unfold knownPeaks
  rw [List.mem_map]
  refine ⟨(nodeIdx j (n / 2 ^ j - 1), sub H g j (n / 2 ^ j - 1)), ?_, rfl⟩
  rw [List.mem_reverse, List.mem_map]
  exact ⟨j, (mem_bitsBelow n 64 j).mpr ⟨hj, hbit⟩, rfl⟩

omit [DecidableEq D] in
theorem knownFromAppend_nil_left (stop : List Nat) (stopAt : Option Nat) (pks : List D) (count : Nat) (acc : D)
    (known : AMap D) : knownFromAppend H stop stopAt [] pks count acc known = known := by
  rw [knownFromAppend]; intro _ _ _ _ h; cases h

omit [DecidableEq D] in
theorem knownFromAppend_nil_right (stop : List Nat) (stopAt : Option Nat) (nis : List Nat) (count : Nat) (acc : D)
    (known : AMap D) : knownFromAppend H stop stopAt nis [] count acc known = known := by
  rw [knownFromAppend]; intro _ _ _ _ _ h; cases h

omit [DecidableEq D] in
/-- the loop only adds entries -/
theorem knownFromAppend_keys_mono (stop : List Nat) (stopAt : Option Nat) (x : Nat) :
    ∀ (nis : List Nat) (pks : List D) (count : Nat) (acc : D) (known : AMap D),
    x ∈ known.map (·.1) → x ∈ (knownFromAppend H stop stopAt nis pks count acc known).map (·.1) := by
  intro nis
  induction nis with
  | nil => intro pks count acc known h; rw [knownFromAppend_nil_left]; exact h
  | cons ni nis ih =>
    intro pks count acc known h
    cases pks with
    | nil => rw [knownFromAppend_nil_right]; exact h
    | cons pk pks =>
      have h' : x ∈ (AMap.insert known ni acc).map (·.1) := by
        unfold AMap.insert; simp only [List.map_cons, List.mem_cons]; exact Or.inr h
      rw [knownFromAppend]
      simp only
      split
      · exact h'
      · split
        · exact h'
        · exact ih _ _ _ _ h'

omit [DecidableEq D] in
/-- the loop inserts the `m`-th added node index unless it stopped before -/
theorem knownFromAppend_reaches (stop : List Nat) (stopAt : Option Nat) (x : Nat) :
    ∀ (m : Nat) (nis : List Nat) (pks : List D) (count : Nat) (acc : D) (known : AMap D),
    nis[m]? = some x → m < pks.length → (∀ k, k < m → stopAt ≠ some (count + k)) →
    (∀ k y, k < m → nis[k]? = some y → y ∉ stop) →
    x ∈ (knownFromAppend H stop stopAt nis pks count acc known).map (·.1) := by
  intro m
  induction m with
  | zero =>
    intro nis pks count acc known hx hp _ _
    match nis, pks, hx, hp with
    | ni :: nis, pk :: pks, hx, _ =>
      simp only [List.getElem?_cons_zero, Option.some.injEq] at hx
      subst hx
      have h' : ni ∈ (AMap.insert known ni acc).map (·.1) := by
        unfold AMap.insert; simp
      rw [knownFromAppend]
      simp only
      split
      · exact h'
      · split
        · exact h'
        · exact knownFromAppend_keys_mono H stop stopAt ni _ _ _ _ _ h'
  | succ m ih =>
    intro nis pks count acc known hx hp hsa hst
    match nis, pks, hx, hp with
    | ni :: nis, pk :: pks, hx, hp =>
      simp only [List.getElem?_cons_succ] at hx
      simp only [List.length_cons, Nat.add_lt_add_iff_right] at hp
      have h1 : stopAt ≠ some count := by simpa using hsa 0 (by omega)
      have h2 : ni ∉ stop := hst 0 ni (by omega) (by simp)
      have h2' : stop.contains ni = false := by simpa using h2
      rw [knownFromAppend]
      simp only [h1, if_false, h2']
      apply ih nis pks (count + 1) _ _ hx hp
      · intro k hk
        have := hsa (k + 1) (by omega)
        rwa [Nat.add_assoc, Nat.add_comm 1 k]
      · intro k y hk hy
        exact hst (k + 1) y (by omega) (by simpa using hy)

omit [DecidableEq D] in
/-- soundness of the loop on the from-scratch peaks: it inserts the digests of the blocks `(k, n / 2^k)` on the right
    spine above the new leaf -/
theorem knownFromAppend_sound (stop : List Nat) (stopAt : Option Nat) (n : Nat) (hn : n + 1 < 2 ^ 63) :
    ∀ (m c : Nat) (pks : List D) (count : Nat) (known : AMap D), c + m ≤ trailingOnes n + 1 → Sound H g known →
    (∀ k p, pks[k]? = some p → c + k < trailingOnes n → p = sub H g (c + k) (n / 2 ^ (c + k) - 1)) →
    Sound H g (knownFromAppend H stop stopAt ((List.range' c m).map fun k => nodeIdx k (n / 2 ^ k)) pks count
      (sub H g c (n / 2 ^ c)) known) := by
  intro m
  induction m with
  | zero =>
    intro c pks count known _ hs _
    rw [List.range'_zero, List.map_nil, knownFromAppend_nil_left]; exact hs
  | succ m ih =>
    intro c pks count known hc hs hp
    rw [List.range'_succ, List.map_cons]
    cases pks with
    | nil => rw [knownFromAppend_nil_right]; exact hs
    | cons pk pks =>
      have hs' := Sound.insert H g hs c (n / 2 ^ c) (spine_lt n c hn (by omega))
      rw [knownFromAppend]
      simp only
      split
      · exact hs'
      · split
        · exact hs'
        · by_cases hct : c < trailingOnes n
          · have hpk := hp 0 pk (by simp) (by omega)
            simp only [Nat.add_zero] at hpk
            have hbit := trailingOnes_bit_lt c n hct
            have hacc : H pk (sub H g c (n / 2 ^ c)) = sub H g (c + 1) (n / 2 ^ (c + 1)) := by
              rw [hpk]
              conv => rhs; rw [sub]
              have e1 : 2 * (n / 2 ^ (c + 1)) = n / 2 ^ c - 1 := by rw [div_two_pow_succ']; omega
              have e2 : 2 * (n / 2 ^ (c + 1)) + 1 = n / 2 ^ c := by rw [div_two_pow_succ']; omega
              rw [e2, e1]
            rw [hacc]
            apply ih (c + 1) pks (count + 1) _ (by omega) hs'
            intro k p hk hlt
            have := hp (k + 1) p (by simpa using hk) (by omega)
            rw [this]
            have e : c + (k + 1) = c + 1 + k := by omega
            rw [e]
          · have hm : m = 0 := by omega
            subst hm
            rw [List.range'_zero, List.map_nil, knownFromAppend_nil_left]; exact hs'

omit [DecidableEq D] in
/-- looking up the sibling blocks of the levels `l … l+d-1` above block `b` gives the sibling path -/
theorem lookupAll_sibPath (M : AMap D) : ∀ (d l b : Nat),
    (∀ k, k < d → M.get? (nodeIdx (l + k) (sibBlk (b / 2 ^ k))) = some (sub H g (l + k) (sibBlk (b / 2 ^ k)))) →
    lookupAll M ((List.range d).map fun k => nodeIdx (l + k) (sibBlk (b / 2 ^ k))) = some (sibPath H g l d b) := by
  intro d
  induction d with
  | zero => intro l b _; simp [lookupAll, sibPath]
  | succ d ih =>
    intro l b hk
    rw [List.range_succ_eq_map, List.map_cons, List.map_map, lookupAll]
    have h0 := hk 0 (by omega)
    simp only [Nat.add_zero, Nat.pow_zero, Nat.div_one] at h0
    have hrest := ih (l + 1) (b / 2) (by
      intro k hkd
      have := hk (k + 1) (by omega)
      have e : l + (k + 1) = l + 1 + k := by omega
      rw [e, div_two_pow_succ] at this
      exact this)
    have hcongr : List.map ((fun k => nodeIdx (l + k) (sibBlk (b / 2 ^ k))) ∘ Nat.succ) (List.range d)
        = List.map (fun k => nodeIdx (l + 1 + k) (sibBlk (b / 2 / 2 ^ k))) (List.range d) := by
      apply List.map_congr_left
      intro k _
      simp only [Function.comp, Nat.succ_eq_add_one]
      have e : l + (k + 1) = l + 1 + k := by omega
      rw [e, div_two_pow_succ]
    rw [hcongr, hrest]
    simp only [Nat.add_zero, Nat.pow_zero, Nat.div_one, h0]
    rw [sibPath]

end K

/-! ## Part 4: the routines -/

/-- the sibling blocks between the old peak of leaf `i` (height `h`) and the new peak (height `trailingOnes n`):
    first the block of the new leaf's spine, then old peaks -/
theorem sib_above (n i : Nat) (hlt : i < n) (k : Nat) (hk : (locate n i).1 + k < trailingOnes n) :
    sibBlk (i / 2 ^ (locate n i).1 / 2 ^ k)
      = if k = 0 then n / 2 ^ (locate n i).1 else n / 2 ^ ((locate n i).1 + k) - 1 := by
  obtain ⟨h1, h2, h3⟩ := locate_bits n i hlt
  rw [Nat.div_div_eq_div_mul, ← Nat.pow_add]
  by_cases hk0 : k = 0
  · subst hk0
    rw [if_pos rfl, Nat.add_zero]
    rw [div_two_pow_succ', div_two_pow_succ'] at h1
    unfold sibBlk
    rw [if_pos h3]
    omega
  · rw [if_neg hk0]
    have he := TF.Mmr.div_pow_eq_of_le h1 (by omega : (locate n i).1 + 1 ≤ (locate n i).1 + k)
    have hbit := trailingOnes_bit_lt _ n hk
    rw [he]
    unfold sibBlk
    rw [if_neg (by omega)]

/-- the parent of the old peak of leaf `i`, as computed by the routines (`peak + (1 << (height + 1))`) -/
theorem peak_parent_eq (n i : Nat) (hlt : i < n) (hn : n < 2 ^ 63) :
    add64 (nodeIdx (locate n i).1 (i / 2 ^ (locate n i).1)) (shl1 (inc32 (locate n i).1))
      = nodeIdx ((locate n i).1 + 1) (n / 2 ^ ((locate n i).1 + 1)) ∧
    nodeIdx ((locate n i).1 + 1) (n / 2 ^ ((locate n i).1 + 1)) < 2 ^ 64 := by
  obtain ⟨h1, h2, h3⟩ := locate_bits n i hlt
  have hle := two_pow_height_le n i hlt
  generalize (locate n i).1 = h at *
  have hh : h < 63 := by
    by_contra hc
    have : 2 ^ 63 ≤ 2 ^ h := Nat.pow_le_pow_right (by omega) (by omega)
    omega
  have hinc : inc32 h = h + 1 := by unfold inc32 W32; omega
  have hshl : shl1 (h + 1) = 2 ^ (h + 1) := by
    unfold shl1; have : (h + 1) % 64 = h + 1 := by omega
    rw [this]
  have hleft := nodeIdx_left h (i / 2 ^ (h + 1))
  have e : 2 * (i / 2 ^ (h + 1)) = i / 2 ^ h := by rw [div_two_pow_succ']; omega
  rw [e, h1] at hleft
  -- the bound
  have hq : n / 2 ^ (h + 1) < 2 ^ (62 - h) := by
    apply Nat.div_lt_of_lt_mul
    rw [← Nat.pow_add]
    have : h + 1 + (62 - h) = 63 := by omega
    rw [this]; exact hn
  have hmul : (n / 2 ^ (h + 1) + 1) * 2 ^ (h + 1 + 1) ≤ 2 ^ 64 := by
    calc (n / 2 ^ (h + 1) + 1) * 2 ^ (h + 1 + 1) ≤ 2 ^ (62 - h) * 2 ^ (h + 1 + 1) := Nat.mul_le_mul_right _ (by omega)
      _ = 2 ^ 64 := by rw [← Nat.pow_add]; congr 1; omega
  have heq := nodeIdx_eq (h + 1) (n / 2 ^ (h + 1))
  have hlt64 : nodeIdx (h + 1) (n / 2 ^ (h + 1)) < 2 ^ 64 := by omega
  refine ⟨?_, hlt64⟩
  rw [hinc, hshl]
  unfold add64 W64
  omega

/-- membership in the list of added nodes -/
theorem added_contains (n : Nat) (l b : Nat) (hlt : nodeIdx l b < 2 ^ 64) :
    ((List.range (trailingOnes n + 1)).map fun k => nodeIdx k (n / 2 ^ k)).contains (nodeIdx l b) = true
      ↔ l ≤ trailingOnes n ∧ b = n / 2 ^ l := by
  rw [List.contains_iff_mem, List.mem_map]
  constructor
  · rintro ⟨k, hk, he⟩
    have hk' := List.mem_range.mp hk
    obtain ⟨rfl, rfl⟩ := nodeIdx_inj l b k (n / 2 ^ k) hlt he.symm
    exact ⟨by omega, rfl⟩
  · rintro ⟨h1, rfl⟩
    exact ⟨l, List.mem_range.mpr (by omega), rfl⟩

section R
variable {D : Type} [DecidableEq D] (H : D → D → D) (g : Nat → D)

omit [DecidableEq D] in
theorem trailingOnes_le_peaks_length (n : Nat) : trailingOnes n ≤ (peaks H n g).reverse.length := by
  obtain ⟨rest, hr⟩ := peaks_reverse_low H n g
  rw [hr]; simp

omit [DecidableEq D] in
/-- the map of known digests (either loop variant) answers every lookup of the digests missing from the proof of an
    old leaf whose peak was merged, provided the loop got as far as the leaf's old height -/
theorem known_lookup (n i : Nat) (hlt : i < n) (hn : n + 1 < 2 ^ 63) (hht : (locate n i).1 < trailingOnes n)
    (stop : List Nat) (stopAt : Option Nat)
    (hreach : nodeIdx (locate n i).1 (n / 2 ^ (locate n i).1) ∈
      (knownFromAppend H stop stopAt ((List.range (trailingOnes n + 1)).map fun k => nodeIdx k (n / 2 ^ k))
        (peaks H n g).reverse 0 (g n) (knownPeaks H g n)).map (·.1)) :
    lookupAll (knownFromAppend H stop stopAt ((List.range (trailingOnes n + 1)).map fun k => nodeIdx k (n / 2 ^ k))
        (peaks H n g).reverse 0 (g n) (knownPeaks H g n))
      ((List.range (trailingOnes n - (locate n i).1)).map fun k =>
        nodeIdx ((locate n i).1 + k) (sibBlk (i / 2 ^ (locate n i).1 / 2 ^ k)))
      = some (sibPath H g (locate n i).1 (trailingOnes n - (locate n i).1) (i / 2 ^ (locate n i).1)) := by
  have ht64 := TF.Mmr.trailingOnes_lt 64 n (by omega)
  have hsound : Sound H g (knownFromAppend H stop stopAt
      ((List.range (trailingOnes n + 1)).map fun k => nodeIdx k (n / 2 ^ k)) (peaks H n g).reverse 0 (g n)
      (knownPeaks H g n)) := by
    have h0 : g n = sub H g 0 (n / 2 ^ 0) := by simp [sub]
    rw [List.range_eq_range', h0]
    apply knownFromAppend_sound H g stop stopAt n hn (trailingOnes n + 1) 0 _ 0 _ (by omega)
      (knownPeaks_sound H g n (by omega))
    intro k p hk hkt
    rw [Nat.zero_add] at hkt ⊢
    rw [peaks_reverse_getElem? H n g k hkt] at hk
    exact (Option.some.inj hk).symm
  apply lookupAll_sibPath
  intro k hk
  apply Sound.get? H g hsound
  rw [sib_above n i hlt k (by omega)]
  by_cases hk0 : k = 0
  · subst hk0; rw [if_pos rfl, Nat.add_zero]; exact hreach
  · rw [if_neg hk0]
    apply knownFromAppend_keys_mono
    exact knownPeaks_key H g n _ (by omega) (trailingOnes_bit_lt _ n (by omega))

/-- **`update_from_append`** on the from-scratch path of an old leaf: the from-scratch path of the longer range, and
    `true` exactly if the path changed -/
theorem updateFromAppend_spec (n i : Nat) (hlt : i < n) (hn : n + 1 < 2 ^ 63) :
    updateFromAppend H (authPathOf H g n i) i n (g n) (peaks H n g)
      = some (authPathOf H g (n + 1) i, decide (authPathOf H g (n + 1) i ≠ authPathOf H g n i)) := by
  have hn' : n < 2 ^ 63 := by omega
  obtain ⟨hpp, hpplt⟩ := peak_parent_eq n i hlt hn'
  have hcont := added_contains n ((locate n i).1 + 1) (n / 2 ^ ((locate n i).1 + 1)) hpplt
  have hsucc := locate_succ_height n i hlt
  obtain ⟨_, happ⟩ := authPathOf_append H g n i hlt
  unfold updateFromAppend
  rw [getPeakIndexAndHeight_spec H g n i hlt hn', added_nodeIdx n hn']
  simp only [Option.bind_eq_bind, Option.bind_some, Option.pure_def, hpp]
  have hlen : (authPathOf H g n i).length = (locate n i).1 := by unfold authPathOf; rw [sibPath_length]
  by_cases hht : (locate n i).1 < trailingOnes n
  · have hc := hcont.mpr ⟨by omega, rfl⟩
    rw [hc]
    simp only [Bool.not_true, Bool.false_eq_true, if_false]
    have ht64 := TF.Mmr.trailingOnes_lt 64 n (by omega)
    have hlast : (List.map (fun k => nodeIdx k (n / 2 ^ k)) (List.range (trailingOnes n + 1))).getLast?
        = some (nodeIdx (trailingOnes n) (n / 2 ^ trailingOnes n)) := by
      simp [List.range_succ]
    have hspine := nodeIdx_spine n (trailingOnes n) (Nat.le_refl _)
    have hnc : num_leafs_to_num_nodes (add64 n 1) = nodeIdx (trailingOnes n) (n / 2 ^ trailingOnes n) := by
      have e : add64 n 1 = n + 1 := by unfold add64 W64; omega
      rw [e, (TF.Mmr.num_nodes_spec (n + 1) hn).1, hspine]
      have := TF.Mmr.nodesOf_succ n
      unfold TF.Mmr.nodesOf at this ⊢
      omega
    have hd : (locate n i).1 + (trailingOnes n - (locate n i).1) = trailingOnes n := by omega
    have hdiv : i / 2 ^ (locate n i).1 / 2 ^ (trailingOnes n - (locate n i).1) = n / 2 ^ trailingOnes n := by
      rw [Nat.div_div_eq_div_mul, ← Nat.pow_add, hd]
      exact TF.Mmr.div_pow_eq_of_le (locate_bits n i hlt).1 (by omega)
    have hauth := get_auth_path_node_indices_spec (locate n i).1 (i / 2 ^ (locate n i).1)
      (trailingOnes n - (locate n i).1) (nodeIdx (trailingOnes n) (n / 2 ^ trailingOnes n)) (by omega)
      (by rw [hd, hdiv]; exact spine_lt n _ hn (Nat.le_refl _)) (by rw [hd, hdiv])
    rw [hd, hdiv] at hauth
    rw [hlast]
    simp only [Option.bind_some]
    rw [hnc, hauth]
    simp only [Option.bind_some]
    rw [peak_indices_nodeIdx n hn']
    simp only [Option.bind_some]
    rw [known0_eq H g n hn', known_lookup H g n i hlt hn hht]
    · simp only [Option.bind_some]
      rw [happ, hsucc, if_pos hht]
      have hne : authPathOf H g n i ++ sibPath H g (locate n i).1 (trailingOnes n - (locate n i).1)
          (i / 2 ^ (locate n i).1) ≠ authPathOf H g n i := by
        intro he
        have := congrArg List.length he
        rw [List.length_append, sibPath_length] at this
        omega
      simp [hne]
    · -- the loop reaches the old height of the leaf
      apply knownFromAppend_reaches H _ none _ (locate n i).1
      · rw [List.getElem?_map, List.getElem?_range (by omega)]; rfl
      · have := trailingOnes_le_peaks_length H g n; omega
      · intro k _; simp
      · intro k y hk hy hmem
        rw [List.getElem?_map, List.getElem?_range (by omega)] at hy
        simp only [Option.map_some, Option.some.injEq] at hy
        rw [List.mem_map] at hmem
        obtain ⟨k', _, he⟩ := hmem
        rw [← hy] at he
        have := (nodeIdx_inj k (n / 2 ^ k) _ _ (spine_lt n k hn (by omega)) he.symm).1
        omega
  · have hc : ¬ ((List.map (fun k => nodeIdx k (n / 2 ^ k)) (List.range (trailingOnes n + 1))).contains
        (nodeIdx ((locate n i).1 + 1) (n / 2 ^ ((locate n i).1 + 1))) = true) := by
      intro h; have := (hcont.mp h).1; omega
    simp only [hc, Bool.not_false, if_true]
    rw [hsucc, if_neg hht, Nat.sub_self] at happ
    simp only [sibPath, List.append_nil] at happ
    rw [happ]
    simp

end R

end TF.MmrE.UpdAppend
