import TF.Model.Poly
import Mathlib.Algebra.Polynomial.Basic
import Mathlib.Algebra.Polynomial.Eval.Defs
import Mathlib.Algebra.Polynomial.Degree.Defs
import Mathlib.Algebra.Polynomial.Degree.Operations
import Mathlib.Algebra.Polynomial.Coeff
import Mathlib.Algebra.Polynomial.Eval.Coeff
import Mathlib.Algebra.Polynomial.Eval.Algebra
import Mathlib.Algebra.Polynomial.Derivative
/-!
Denotation of the polynomial core (`TF/Model/Poly.lean`) in Mathlib's `Polynomial K` for an arbitrary field `K`,
and the basic lemmas every polynomial property (C07, C08, C09, C17) builds on.

* `FieldOps.ofField K root` — the `FieldOps` record of a Mathlib field (`root` supplies `rootOfUnity`).
* `denote : List K → K[X]`, `denote [c₀,c₁,…] = Σ cᵢ Xⁱ` (stored leading zeros contribute nothing).
* `denote_normalize`, `denote_eq_iff` (two storages denote the same polynomial iff their normalisations are equal),
  `denote_add/sub/neg/scalarMul/shiftCoefficients/scale/naiveMultiply`, `eval_denote` (Horner = `Polynomial.eval`),
  `degree_spec`, `leadingCoefficient_spec`, `isZero_iff`, `eq_iff_denote`.
-/
open Polynomial

namespace TF

/-- the operations record of a Mathlib field; `rootOfUnity` is a parameter -/
noncomputable def FieldOps.ofField (K : Type) [Field K] (root : Nat → Option K := fun _ => none) : FieldOps K :=
  by
    classical
    exact
      { zero := 0, one := 1, add := (· + ·), sub := (· - ·), mul := (· * ·), neg := fun a => -a,
        inv := fun a => a⁻¹, isZero := fun a => decide (a = 0), beq := fun a b => decide (a = b),
        ofNat := fun n => (n : K), rootOfUnity := root }

namespace FieldOps
variable {K : Type} [Field K] (root : Nat → Option K)
@[simp] theorem ofField_zero : (ofField K root).zero = 0 := rfl
@[simp] theorem ofField_one : (ofField K root).one = 1 := rfl
@[simp] theorem ofField_add (a b : K) : (ofField K root).add a b = a + b := rfl
@[simp] theorem ofField_sub (a b : K) : (ofField K root).sub a b = a - b := rfl
@[simp] theorem ofField_mul (a b : K) : (ofField K root).mul a b = a * b := rfl
@[simp] theorem ofField_neg (a : K) : (ofField K root).neg a = -a := rfl
@[simp] theorem ofField_inv (a : K) : (ofField K root).inv a = a⁻¹ := rfl
@[simp] theorem ofField_isZero (a : K) : (ofField K root).isZero a = true ↔ a = 0 := by
  simp [ofField]
@[simp] theorem ofField_isZero_false (a : K) : (ofField K root).isZero a = false ↔ a ≠ 0 := by
  simp [ofField]
@[simp] theorem ofField_beq (a b : K) : (ofField K root).beq a b = true ↔ a = b := by
  simp [ofField]
@[simp] theorem ofField_ofNat (n : Nat) : (ofField K root).ofNat n = (n : K) := rfl
@[simp] theorem ofField_rootOfUnity (n : Nat) : (ofField K root).rootOfUnity n = root n := rfl
theorem ofField_add_fn : (ofField K root).add = (· + ·) := rfl
theorem ofField_sub_fn : (ofField K root).sub = (· - ·) := rfl
theorem ofField_mul_fn : (ofField K root).mul = (· * ·) := rfl
@[simp] theorem ofField_pow (a : K) (n : Nat) : (ofField K root).pow a n = a ^ n := by
  induction n using Nat.strong_induction_on with
  | _ n ih =>
    cases n with
    | zero => simp [FieldOps.pow]
    | succ e =>
      rw [FieldOps.pow]
      simp only [ofField_mul]
      rw [ih ((e+1)/2) (by omega)]
      have h := Nat.div_add_mod (e+1) 2
      split
      · next h1 =>
        rw [← pow_add, ← pow_succ]; congr 1; omega
      · next h1 =>
        rw [← pow_add]; congr 1; omega
end FieldOps

namespace Model.Poly
variable {K : Type} [Field K]
open Classical

theorem getD_of_lt {β : Type} (l : List β) (i : Nat) (d : β) (h : i < l.length) : l.getD i d = l[i] := by
  simp [List.getD_eq_getElem?_getD, h]
theorem getD_of_ge {β : Type} (l : List β) (i : Nat) (d : β) (h : l.length ≤ i) : l.getD i d = d := by
  simp [List.getD_eq_getElem?_getD, h]

/-- the polynomial a coefficient storage stands for -/
noncomputable def denote : List K → K[X]
  | [] => 0
  | c :: cs => C c + X * denote cs

@[simp] theorem denote_nil : denote ([] : List K) = 0 := rfl
@[simp] theorem denote_cons (c : K) (cs : List K) : denote (c :: cs) = C c + X * denote cs := rfl

theorem denote_append (a b : List K) : denote (a ++ b) = denote a + X ^ a.length * denote b := by
  induction a with
  | nil => simp
  | cons c cs ih => simp [ih, pow_succ]; ring

@[simp] theorem denote_replicate_zero (n : Nat) : denote (List.replicate n (0 : K)) = 0 := by
  induction n with
  | zero => rfl
  | succ n ih => simp [List.replicate_succ, ih]

theorem denote_append_zeros (a : List K) (n : Nat) : denote (a ++ List.replicate n 0) = denote a := by
  simp [denote_append]

theorem coeff_denote (p : List K) (i : Nat) : (denote p).coeff i = p.getD i 0 := by
  induction p generalizing i with
  | nil => simp
  | cons c cs ih =>
    cases i with
    | zero => simp
    | succ i => simp [ih, coeff_C_succ]

variable (root : Nat → Option K)
local notation "FK" => FieldOps.ofField K root

/-! ### normalisation -/

theorem normalize_append_zero_ne (p : List K) (c : K) (hc : c ≠ 0) :
    normalize FK (p ++ [c]) = p ++ [c] := by
  simp [normalize, hc]

theorem normalize_append_zero (p : List K) : normalize FK (p ++ [0]) = normalize FK p := by
  simp [normalize]

theorem normalize_nil : normalize FK ([] : List K) = [] := rfl

/-- a storage is normalised when it is empty or its last element is non-zero -/
def Normal (p : List K) : Prop := ∀ c ∈ p.getLast?, c ≠ 0

theorem normal_normalize (p : List K) : Normal (normalize FK p) := by
  induction p using List.reverseRecOn with
  | nil => simp [normalize, Normal]
  | append_singleton p c ih =>
    by_cases hc : c = 0
    · subst hc; rw [normalize_append_zero]; exact ih
    · rw [normalize_append_zero_ne root p c hc]; simp [Normal, hc]

theorem normalize_of_normal {p : List K} (h : Normal p) : normalize FK p = p := by
  induction p using List.reverseRecOn with
  | nil => rfl
  | append_singleton p c _ =>
    have hc : c ≠ 0 := h c (by simp)
    exact normalize_append_zero_ne root p c hc

theorem normalize_idem (p : List K) : normalize FK (normalize FK p) = normalize FK p :=
  normalize_of_normal root (normal_normalize root p)

/-- every storage is its normalisation followed by zeros -/
theorem exists_zeros (p : List K) : ∃ k, p = normalize FK p ++ List.replicate k 0 := by
  induction p using List.reverseRecOn with
  | nil => exact ⟨0, rfl⟩
  | append_singleton p c ih =>
    by_cases hc : c = 0
    · subst hc
      obtain ⟨k, hk⟩ := ih
      refine ⟨k+1, ?_⟩
      rw [normalize_append_zero]
      conv_lhs => rw [hk]
      simp [List.replicate_succ', List.append_assoc]
    · exact ⟨0, by rw [normalize_append_zero_ne root p c hc]; simp⟩

theorem normalize_append_zeros (p : List K) (k : Nat) :
    normalize FK (p ++ List.replicate k 0) = normalize FK p := by
  induction k with
  | zero => simp
  | succ k ih =>
    rw [List.replicate_succ', ← List.append_assoc, normalize_append_zero, ih]

@[simp] theorem denote_normalize (p : List K) : denote (normalize FK p) = denote p := by
  obtain ⟨k, hk⟩ := exists_zeros root p
  conv_rhs => rw [hk]
  rw [denote_append_zeros]

theorem denote_eq_zero_of_normal {p : List K} (h : Normal p) (h0 : denote p = 0) : p = [] := by
  induction p using List.reverseRecOn with
  | nil => rfl
  | append_singleton p c _ =>
    exfalso
    have hc : c ≠ 0 := h c (by simp)
    have := congrArg (fun q => q.coeff p.length) h0
    simp [coeff_denote] at this
    exact hc this

theorem natDegree_denote_lt (p : List K) (hp : p ≠ []) : (denote p).natDegree < p.length := by
  have : (denote p).degree < p.length := by
    rw [Polynomial.degree_lt_iff_coeff_zero]
    intro m hm
    rw [coeff_denote, getD_of_ge _ _ _ hm]
  cases p with
  | nil => exact absurd rfl hp
  | cons c cs =>
    by_cases h0 : denote (c :: cs) = 0
    · rw [h0]; simp
    · exact (Polynomial.natDegree_lt_iff_degree_lt h0).2 this

/-- a normalised storage is determined by the polynomial it denotes -/
theorem normal_ext {p q : List K} (hp : Normal p) (hq : Normal q) (h : denote p = denote q) : p = q := by
  -- coefficientwise equal, and both lengths are `natDegree + 1` (or 0)
  have hlen : ∀ {r : List K}, Normal r → r ≠ [] → r.length = (denote r).natDegree + 1 := by
    intro r hr hne
    have h1 := natDegree_denote_lt r hne
    have hlast : r.getLast? = some (r.getLast hne) := List.getLast?_eq_some_getLast hne
    have hc : r.getLast hne ≠ 0 := hr _ (by simp [hlast])
    have h2 : (denote r).coeff (r.length - 1) ≠ 0 := by
      rw [coeff_denote]
      have : r.getD (r.length - 1) 0 = r.getLast hne := by
        rw [List.getLast_eq_getElem]
        rw [getD_of_lt _ _ _ (by have := List.length_pos_of_ne_nil hne; omega)]
      rw [this]; exact hc
    have h3 := Polynomial.le_natDegree_of_ne_zero h2
    omega
  by_cases hpe : p = []
  · subst hpe
    exact (denote_eq_zero_of_normal hq (by rw [← h]; rfl)).symm
  by_cases hqe : q = []
  · subst hqe
    exact denote_eq_zero_of_normal hp (by rw [h]; rfl)
  apply List.ext_getElem
  · rw [hlen hp hpe, hlen hq hqe, h]
  · intro i h1 h2
    have := congrArg (fun r => r.coeff i) h
    simp only [coeff_denote] at this
    rw [getD_of_lt _ _ _ h1, getD_of_lt _ _ _ h2] at this
    exact this

/-- **value semantics of storage**: two storages denote the same polynomial iff their normalisations coincide -/
theorem denote_eq_iff (p q : List K) : denote p = denote q ↔ normalize FK p = normalize FK q := by
  constructor
  · intro h
    apply normal_ext (normal_normalize root p) (normal_normalize root q)
    simpa using h
  · intro h
    rw [← denote_normalize root p, ← denote_normalize root q, h]

theorem normalize_eq_nil_iff (p : List K) : normalize FK p = [] ↔ denote p = 0 := by
  constructor
  · intro h; rw [← denote_normalize root p, h]; rfl
  · intro h
    exact denote_eq_zero_of_normal (normal_normalize root p) (by rw [denote_normalize]; exact h)

/-! ### accessors -/

theorem length_normalize (p : List K) (h : denote p ≠ 0) :
    (normalize FK p).length = (denote p).natDegree + 1 := by
  have hne : normalize FK p ≠ [] := fun h' => h ((normalize_eq_nil_iff root p).1 h')
  have hr := normal_normalize root p
  have h1 := natDegree_denote_lt _ hne
  rw [denote_normalize] at h1
  have hlast : (normalize FK p).getLast? = some ((normalize FK p).getLast hne) :=
    List.getLast?_eq_some_getLast hne
  have hc : (normalize FK p).getLast hne ≠ 0 := hr _ (by simp [hlast])
  have h2 : (denote p).coeff ((normalize FK p).length - 1) ≠ 0 := by
    rw [← denote_normalize root p, coeff_denote]
    have : (normalize FK p).getD ((normalize FK p).length - 1) 0 = (normalize FK p).getLast hne := by
      rw [List.getLast_eq_getElem, getD_of_lt _ _ _ (by have := List.length_pos_of_ne_nil hne; omega)]
    rw [this]; exact hc
  have h3 := Polynomial.le_natDegree_of_ne_zero h2
  omega

/-- `degree()` is Mathlib's degree: −1 for zero, else `natDegree` -/
theorem degree_spec (p : List K) :
    degree FK p = if denote p = 0 then -1 else ((denote p).natDegree : Int) := by
  unfold degree
  split
  · next h => rw [(normalize_eq_nil_iff root p).2 h]; rfl
  · next h => rw [length_normalize root p h]; simp

theorem degree_eq_neg_one_iff (p : List K) : degree FK p = -1 ↔ denote p = 0 := by
  rw [degree_spec]; split <;> simp_all

theorem isZero_iff (p : List K) : isZero FK p = true ↔ denote p = 0 := by
  unfold isZero
  rw [List.isEmpty_iff, normalize_eq_nil_iff]

/-- `leading_coefficient()` is `none` exactly for zero, else Mathlib's `leadingCoeff` (never zero) -/
theorem leadingCoefficient_spec (p : List K) :
    leadingCoefficient FK p = if denote p = 0 then none else some (denote p).leadingCoeff := by
  unfold leadingCoefficient
  split
  · next h => rw [(normalize_eq_nil_iff root p).2 h]; rfl
  · next h =>
    have hne : normalize FK p ≠ [] := fun h' => h ((normalize_eq_nil_iff root p).1 h')
    rw [List.getLast?_eq_some_getLast hne]
    congr 1
    rw [Polynomial.leadingCoeff, ← denote_normalize root p, coeff_denote, denote_normalize,
      List.getLast_eq_getElem]
    have := length_normalize root p h
    rw [getD_of_lt _ _ _ (by omega)]
    congr 1; omega

theorem coefficients_spec (p : List K) :
    denote (coefficients FK p) = denote p ∧ Normal (coefficients FK p) :=
  ⟨denote_normalize root p, normal_normalize root p⟩

/-- the zipped raw comparison of `eq`, for storages of equal degree -/
theorem zip_all_iff (a b : List K) :
    (a.zip b).all (fun xy => (FK).beq xy.1 xy.2) = true ↔ ∀ i, i < a.length → i < b.length → a.getD i 0 = b.getD i 0 := by
  induction a generalizing b with
  | nil => simp
  | cons x xs ih =>
    cases b with
    | nil => simp
    | cons y ys =>
      simp only [List.zip_cons_cons, List.all_cons, Bool.and_eq_true, FieldOps.ofField_beq, ih,
        List.length_cons]
      constructor
      · rintro ⟨rfl, h⟩ i h1 h2
        cases i with
        | zero => simp
        | succ i => simpa using h i (by omega) (by omega)
      · intro h
        refine ⟨by simpa using h 0 (by omega) (by omega), fun i h1 h2 => ?_⟩
        simpa using h (i+1) (by omega) (by omega)

theorem getD_eq_zero_of_ge (p : List K) (i : Nat) (h : (normalize FK p).length ≤ i) : p.getD i 0 = 0 := by
  obtain ⟨k, hk⟩ := exists_zeros root p
  rw [hk]
  by_cases h2 : i < (normalize FK p ++ List.replicate k 0).length
  · rw [getD_of_lt _ _ _ h2, List.getElem_append_right h]; simp
  · rw [getD_of_ge _ _ _ (by omega)]

/-- `==` decides equality of the denoted polynomials -/
theorem eq_iff_denote (a b : List K) : eq FK a b = true ↔ denote a = denote b := by
  unfold eq
  rw [Bool.and_eq_true, zip_all_iff, beq_iff_eq]
  constructor
  · rintro ⟨hd, hz⟩
    ext i
    rw [coeff_denote, coeff_denote]
    by_cases h1 : i < a.length
    · by_cases h2 : i < b.length
      · exact hz i h1 h2
      · -- i beyond b: a's coefficient there is beyond its degree
        unfold degree at hd
        have hb : (normalize FK b).length ≤ i := by
          obtain ⟨k, hk⟩ := exists_zeros root b
          have := congrArg List.length hk
          simp at this; omega
        rw [getD_eq_zero_of_ge root b i hb, getD_eq_zero_of_ge root a i (by omega)]
    · unfold degree at hd
      have ha : (normalize FK a).length ≤ i := by
        obtain ⟨k, hk⟩ := exists_zeros root a
        have := congrArg List.length hk
        simp at this; omega
      rw [getD_eq_zero_of_ge root a i ha, getD_eq_zero_of_ge root b i (by omega)]
  · intro h
    refine ⟨?_, fun i _ _ => ?_⟩
    · rw [degree_spec, degree_spec, h]
    · rw [← coeff_denote, ← coeff_denote, h]

/-! ### ring operations -/

theorem denote_zipLongestWith (f : K → K → K) (g : K → K) (a b : List K)
    (hf : ∀ x y, f x y = x + g y) :
    denote (zipLongestWith f g a b) = denote a + denote (b.map g) := by
  induction a generalizing b with
  | nil => simp [zipLongestWith]
  | cons x xs ih =>
    cases b with
    | nil => simp [zipLongestWith]
    | cons y ys =>
      simp only [zipLongestWith, denote_cons, ih, hf, List.map_cons, C_add]
      ring

theorem denote_map_id (p : List K) : denote (p.map id) = denote p := by simp

theorem denote_map_mul_right (p : List K) (s : K) : denote (p.map (fun c => c * s)) = denote p * C s := by
  induction p with
  | nil => simp
  | cons c cs ih => simp only [List.map_cons, denote_cons, ih, C_mul]; ring

theorem denote_map_mul_left (p : List K) (s : K) : denote (p.map (fun c => s * c)) = C s * denote p := by
  induction p with
  | nil => simp
  | cons c cs ih => simp only [List.map_cons, denote_cons, ih, C_mul]; ring

theorem denote_map_neg' (p : List K) : denote (p.map (fun c => - c)) = - denote p := by
  induction p with
  | nil => simp
  | cons c cs ih => simp only [List.map_cons, denote_cons, ih, C_neg]; ring

theorem denote_map_neg (p : List K) : denote (p.map (fun c => 0 - c)) = - denote p := by
  simp only [zero_sub]; exact denote_map_neg' p

@[simp] theorem denote_add (a b : List K) : denote (add FK a b) = denote a + denote b := by
  unfold add
  rw [FieldOps.ofField_add_fn, denote_zipLongestWith (· + ·) id a b (fun _ _ => rfl)]
  simp

@[simp] theorem denote_sub (a b : List K) : denote (sub FK a b) = denote a - denote b := by
  unfold sub
  show denote (zipLongestWith (· - ·) (fun r => 0 - r) a b) = _
  rw [denote_zipLongestWith (· - ·) (fun r => 0 - r) a b (fun x y => by simp [sub_eq_add_neg]), denote_map_neg]
  ring

@[simp] theorem denote_scalarMul (p : List K) (s : K) : denote (scalarMul FK p s) = denote p * C s := by
  unfold scalarMul scalarMulG
  simp only [FieldOps.ofField_mul]
  exact denote_map_mul_right p s

@[simp] theorem denote_neg (p : List K) : denote (neg FK p) = - denote p := by
  unfold neg; rw [denote_scalarMul]; simp

@[simp] theorem denote_shiftCoefficients (p : List K) (n : Nat) :
    denote (shiftCoefficients FK p n) = X ^ n * denote p := by
  unfold shiftCoefficients
  simp [denote_append]

theorem denote_scaleAux (p : List K) (alpha pw : K) :
    denote (scaleAux (· * ·) (· * ·) alpha pw p) = C pw * (denote p).comp (C alpha * X) := by
  induction p generalizing pw with
  | nil => simp [scaleAux]
  | cons c cs ih =>
    simp only [scaleAux, denote_cons, ih, C_mul, add_comp, C_comp, mul_comp, X_comp]
    ring

/-- `scale(α)` is composition with `αX`: `P(X) ↦ P(αX)` -/
@[simp] theorem denote_scale (p : List K) (alpha : K) :
    denote (scale FK p alpha) = (denote p).comp (C alpha * X) := by
  unfold scale scaleG
  rw [FieldOps.ofField_mul_fn, denote_scaleAux]
  simp

@[simp] theorem denote_one : denote (one FK) = 1 := by simp [one]
@[simp] theorem denote_zero : denote (zero : List K) = 0 := rfl
@[simp] theorem denote_fromConstant (c : K) : denote (fromConstant c) = C c := by simp [fromConstant]
@[simp] theorem denote_xToThe (n : Nat) : denote (xToThe FK n) = X ^ n := by
  simp [xToThe, denote_append]

theorem denote_mulRows (a b : List K) :
    denote (mulRows FK (· * ·) a b) = denote a * denote b := by
  induction a with
  | nil => simp [mulRows]
  | cons a0 as ih =>
    cases as with
    | nil => simp [mulRows, denote_map_mul_left]
    | cons a1 as =>
      rw [mulRows, FieldOps.ofField_add_fn, denote_zipLongestWith (· + ·) id _ _ (fun _ _ => rfl)]
      simp only [List.map_id, denote_cons, FieldOps.ofField_zero, map_zero, zero_add, denote_map_mul_left] at ih ⊢
      rw [ih]; ring

/-- `naive_multiply` returns the ring product, for any storage of the operands -/
@[simp] theorem denote_naiveMultiply (a b : List K) :
    denote (naiveMultiply FK a b) = denote a * denote b := by
  unfold naiveMultiply naiveMultiplyG
  split
  · next h => rw [(normalize_eq_nil_iff root a).1 h]; simp
  · have h : normalize FK b = [] := by assumption
    rw [(normalize_eq_nil_iff root b).1 h]; simp
  · next h1 h2 =>
    rw [FieldOps.ofField_mul_fn, denote_mulRows root _ _, denote_normalize, denote_normalize]

@[simp] theorem denote_mul (a b : List K) : denote (mul FK a b) = denote a * denote b :=
  denote_naiveMultiply root a b

/-! ### evaluation -/

/-- Horner evaluation over the raw storage is `Polynomial.eval` -/
theorem eval_denote (p : List K) (x : K) : evaluate FK p x = (denote p).eval x := by
  unfold evaluate evaluateG
  induction p with
  | nil => simp
  | cons c cs ih =>
    simp only [List.foldr_cons, FieldOps.ofField_add, FieldOps.ofField_mul, denote_cons, eval_add, eval_C,
      eval_mul, eval_X] at ih ⊢
    rw [ih]; ring

theorem denote_formalDerivativeAux (p : List K) (i : Nat) :
    denote (formalDerivativeAux FK i p) = X * derivative (denote p) + C (i : K) * denote p := by
  induction p generalizing i with
  | nil => simp [formalDerivativeAux]
  | cons c cs ih =>
    simp only [formalDerivativeAux, denote_cons, ih, FieldOps.ofField_mul, FieldOps.ofField_ofNat, C_mul,
      derivative_add, derivative_C, derivative_mul, derivative_X, Nat.cast_add, Nat.cast_one, C_add, C_1]
    ring

end Model.Poly
end TF
