import TF.Proofs.MmrAcc
import TF.Proofs.MmrBatchMutate
/-!
# C11: batch mutation, histories with batch steps, `verify_batch_update` — bridges and proofs

* the two specification layers agree: `Spec.MmrAcc.peaks = Spec.MmrE.peaks`, `Spec.MmrAcc.authPath = some (Spec.MmrE.authPathOf …)`
* the two models of the mutation loop agree (`HashMap` as a function / as an association list)
* `batch_mutate_leaf_and_update_mps` (model `TF/Model/MmrAcc.lean`) refines the from-scratch peaks and paths
  (from `TF/Proofs/MmrBatchMutate.lean`)
-/
namespace TF.MmrAccBatch
open TF TF.Gen TF.Model.Mmr

section Spec
variable {D : Type} (H : D → D → D)

/-- the two copies of the from-scratch peaks are the same function -/
theorem peaks_eq (n : Nat) : ∀ f : Nat → D, Spec.MmrAcc.peaks H n f = Spec.MmrE.peaks H n f := by
  induction n using Nat.strongRecOn with
  | _ n ih =>
    intro f
    cases n with
    | zero => rw [Spec.MmrAcc.peaks, Spec.MmrE.peaks]
    | succ n =>
      rw [Spec.MmrAcc.peaks, Spec.MmrE.peaks, ih ((n + 1) / 2) (by omega)]
      rfl

theorem root_eq_sub (f : Nat → D) : ∀ (l j : Nat), Spec.MmrAcc.root H f l (j * 2 ^ l) = Spec.MmrE.sub H f l j := by
  intro l
  induction l with
  | zero => intro j; simp [Spec.MmrAcc.root, Spec.MmrE.sub]
  | succ l ih =>
    intro j
    have e1 : j * 2 ^ (l + 1) = (2 * j) * 2 ^ l := by rw [Nat.pow_succ]; ring
    have e2 : j * 2 ^ (l + 1) + 2 ^ l = (2 * j + 1) * 2 ^ l := by rw [Nat.pow_succ]; ring
    rw [Spec.MmrAcc.root, Spec.MmrE.sub, e2, e1, ih, ih]

theorem treePath_eq_sibPath (f : Nat → D) : ∀ (h c j : Nat), j < 2 ^ h →
    Spec.MmrAcc.treePath H f h (c * 2 ^ h) j = Spec.MmrE.sibPath H f 0 h (c * 2 ^ h + j) := by
  intro h
  induction h with
  | zero => intro c j _; simp [Spec.MmrAcc.treePath, Spec.MmrE.sibPath]
  | succ h ih =>
    intro c j hj
    have hp : 2 ^ (h + 1) = 2 * 2 ^ h := by rw [Nat.pow_succ]; omega
    have hpos : 0 < 2 ^ h := Nat.pow_pos (by omega)
    have e1 : c * 2 ^ (h + 1) = (2 * c) * 2 ^ h := by rw [Nat.pow_succ]; ring
    have e2 : c * 2 ^ (h + 1) + 2 ^ h = (2 * c + 1) * 2 ^ h := by rw [Nat.pow_succ]; ring
    rw [Spec.MmrAcc.treePath, MmrE.sibPath_split H f h 1 0 (c * 2 ^ (h + 1) + j)]
    simp only [Spec.MmrE.sibPath, Nat.zero_add]
    by_cases hlt : j < 2 ^ h
    · rw [if_pos hlt, e2, root_eq_sub, e1, ih (2 * c) j hlt]
      have hd : (2 * c * 2 ^ h + j) / 2 ^ h = 2 * c := by
        rw [Nat.mul_comm (2 * c), Nat.mul_add_div hpos, Nat.div_eq_of_lt hlt]; rfl
      have hs : Spec.MmrE.sibBlk (2 * c) = 2 * c + 1 := by unfold Spec.MmrE.sibBlk; rw [if_pos (by omega)]
      rw [hd, hs]
    · rw [if_neg hlt, e2, e1, root_eq_sub, ih (2 * c + 1) (j - 2 ^ h) (by omega)]
      have e3 : (2 * c + 1) * 2 ^ h + (j - 2 ^ h) = 2 * c * 2 ^ h + j := by
        have : (2 * c + 1) * 2 ^ h = 2 * c * 2 ^ h + 2 ^ h := by ring
        omega
      have hd : (2 * c * 2 ^ h + j) / 2 ^ h = 2 * c + 1 := by
        rw [← e3, Nat.mul_comm (2 * c + 1), Nat.mul_add_div hpos, Nat.div_eq_of_lt (by omega)]
      have hs : Spec.MmrE.sibBlk (2 * c + 1) = 2 * c := by unfold Spec.MmrE.sibBlk; rw [if_neg (by omega)]; rfl
      rw [e3, hd, hs]

/-- the from-scratch authentication path of `TF/Spec/MmrAcc.lean` is the one of `TF/Spec/MmrE.lean` -/
theorem authPath_eq (f : Nat → D) (n i : Nat) (hin : i < n) :
    Spec.MmrAcc.authPath H n f i = some (Spec.MmrE.authPathOf H f n i) := by
  have hnK := MmrAccP.lt_two_pow_log2_succ n
  have hl := TF.Mmr.leafPos_closed (Nat.log2 n + 1) n i hin hnK
  have hpath := MmrAccP.authPathAux_of_leafPos H f n i _ 0 0 _ _ _ (Nat.zero_le _) hl
  unfold Spec.MmrAcc.authPath
  rw [hpath]
  have hloc : (Spec.MmrE.locate n i).1 = (i ^^^ n).log2 := by rw [MmrE.locate_eq_ideal n i hin]; rfl
  unfold Spec.MmrE.authPathOf
  rw [hloc]
  generalize (i ^^^ n).log2 = h
  have hpos : 0 < 2 ^ h := Nat.pow_pos (by omega)
  have hdm := Nat.div_add_mod i (2 ^ h)
  have e : i - i % 2 ^ h = (i / 2 ^ h) * 2 ^ h := by rw [Nat.mul_comm]; omega
  rw [e, treePath_eq_sibPath H f h (i / 2 ^ h) (i % 2 ^ h) (Nat.mod_lt _ hpos)]
  congr 2
  rw [Nat.mul_comm]; omega

theorem update_eq (f : Nat → D) (i : Nat) (x : D) : Spec.MmrAcc.update f i x = Function.update f i x := by
  funext k
  unfold Spec.MmrAcc.update
  by_cases h : k = i
  · subst h; simp
  · simp [h]

end Spec
/-! ### the two models of the mutation loop agree -/

section Sim
variable {D : Type} (H : D → D → D)
open TF.Model.MmrAcc

/-- an association-list map read as a function -/
def toD (m : Model.MmrE.AMap D) : DMap D := fun k => m.get? k

theorem toD_insert (m : Model.MmrE.AMap D) (k : Nat) (v : D) :
    DMap.insert (toD m) k v = toD (Model.MmrE.AMap.insert m k v) := by
  funext k'
  unfold DMap.insert toD
  rw [MmrBM.AMap.get?_insert]
  by_cases h : k' = k
  · subst h; simp
  · have : ¬ k = k' := fun e => h e.symm
    simp [h, this]

theorem batchClimb_sim : ∀ (ap : List D) (ni : Nat) (acc : D) (m : Model.MmrE.AMap D),
    batchClimb H ap ni acc (toD m)
      = (Model.MmrE.deducible H none false true false ap ni acc m).map fun r => (r.2, toD r.1) := by
  intro ap
  induction ap with
  | nil => intro ni acc m; simp [batchClimb, Model.MmrE.deducible]
  | cons hash rest ih =>
    intro ni acc m
    rw [batchClimb, Model.MmrE.deducible]
    simp only [reduceCtorEq, if_false, Bool.false_and, Bool.false_eq_true]
    cases hsp : siblingAndParent ni with
    | none => rfl
    | some sp =>
      obtain ⟨isR, sib, par⟩ := sp
      simp only [Option.bind_some, batchRound, if_true]
      have hm : (if rest.isEmpty = true then toD m
            else DMap.insert (toD m) par (if isR = true then H (((toD m) sib).getD hash) acc else H acc (((toD m) sib).getD hash)))
          = toD (if (rest.isEmpty && !false) = true then m
            else Model.MmrE.AMap.insert m par (if isR = true then H ((m.get? sib).getD hash) acc else H acc ((m.get? sib).getD hash))) := by
        cases rest.isEmpty
        · simp only [Bool.false_eq_true, if_false, Bool.false_and]
          rw [toD_insert]; rfl
        · simp
      rw [hm]
      exact ih _ _ _

/-- the two records of a leaf mutation -/
def conv (mu : LeafMutation D) : Model.MmrE.LeafMutation D := ⟨mu.leaf_index, mu.new_leaf, mu.auth⟩

theorem batchMutateLoop_sim (n : Nat) : ∀ (L : List (LeafMutation D)) (pks : List D) (m : Model.MmrE.AMap D),
    batchMutateLoop H n L pks (toD m)
      = (Model.MmrE.mutationsLoop H true n (L.map conv) m pks).map fun r => (r.2, toD r.1) := by
  intro L
  induction L with
  | nil => intro pks m; simp [batchMutateLoop, Model.MmrE.mutationsLoop]
  | cons mu rest ih =>
    intro pks m
    rw [batchMutateLoop, List.map_cons, Model.MmrE.mutationsLoop]
    simp only [Bool.not_true, if_true, conv]
    have h1 : (toD m) (leaf_index_to_node_index mu.leaf_index) = m.get? (leaf_index_to_node_index mu.leaf_index) := rfl
    rw [h1]
    by_cases hs : (m.get? (leaf_index_to_node_index mu.leaf_index)).isSome = true
    · simp [hs]
    · simp only [hs, if_false, Bool.false_eq_true]
      rw [toD_insert, batchClimb_sim]
      cases hd : Model.MmrE.deducible H none false true false mu.auth (leaf_index_to_node_index mu.leaf_index) mu.new_leaf
          (Model.MmrE.AMap.insert m (leaf_index_to_node_index mu.leaf_index) mu.new_leaf) with
      | none => rfl
      | some r =>
        simp only [Option.map_some, Option.bind_some, Option.bind_eq_bind]
        by_cases hlt : mu.leaf_index < n
        · simp only [hlt, if_true, decide_true, Bool.not_true, Bool.false_eq_true, if_false, setAt?]
          by_cases hpk : (leaf_index_to_mt_index_and_peak_index mu.leaf_index n).2 < pks.length
          · simp only [hpk, if_true, Option.bind_some]
            exact ih _ _
          · simp [hpk]
        · simp [hlt]

end Sim

/-! ### `batch_mutate_leaf_and_update_mps` of `TF/Model/MmrAcc.lean` -/

section Batch
variable {D : Type} (H : D → D → D)
open TF.Model.MmrAcc TF.MmrE TF.MmrBM TF.Spec.MmrE

/-- apply `(index, value)` updates in order -/
def applyUpdates (f : Nat → D) : List (Nat × D) → Nat → D
  | [] => f
  | (i, x) :: rest => applyUpdates (Spec.MmrAcc.update f i x) rest

theorem applyUpdates_eq : ∀ (ms : List (Nat × D)) (f : Nat → D), applyUpdates f ms = applyL f ms := by
  intro ms
  induction ms with
  | nil => intro f; rfl
  | cons p rest ih =>
    intro f
    obtain ⟨i, x⟩ := p
    rw [applyUpdates, ih, update_eq]
    rfl

theorem toD_nil : (DMap.empty : DMap D) = toD [] := by
  funext k; unfold DMap.empty toD; rw [AMap.get?_nil]

theorem updateProof_cons [BEq D] (m : DMap D) (d : D) (ds : List D) (k : Nat) (ks : List Nat) :
    updateProof m (d :: ds) (k :: ks)
      = (match m k with
          | some d' => if d != d' then (d' :: (updateProof m ds ks).1, true)
                       else (d :: (updateProof m ds ks).1, (updateProof m ds ks).2)
          | none => (d :: (updateProof m ds ks).1, (updateProof m ds ks).2)) := by
  unfold updateProof
  simp only [List.zip_cons_cons, List.map_cons, List.any_cons]
  cases m k with
  | none => simp
  | some d' =>
    by_cases h : (d != d') = true
    · simp [h]
    · simp [h]

theorem bne_cons_same [BEq D] [LawfulBEq D] (a : D) (r r' : List D) : (a :: r != a :: r') = (r != r') := by
  simp [bne]

theorem updateProof_sibPath [BEq D] [LawfulBEq D] (g0 g : Nat → D) (m : Model.MmrE.AMap D) : ∀ (u l j : Nat),
    (∀ s, s < u → (m.get? (nodeIdx (l + s) (sibBlk (j / 2 ^ s)))).getD (sub H g0 (l + s) (sibBlk (j / 2 ^ s)))
        = sub H g (l + s) (sibBlk (j / 2 ^ s))) →
    updateProof (toD m) (sibPath H g0 l u j) ((List.range u).map fun t => nodeIdx (l + t) (sibBlk (j / 2 ^ t)))
      = (sibPath H g l u j, sibPath H g0 l u j != sibPath H g l u j) := by
  intro u
  induction u with
  | zero => intro l j _; simp [sibPath, updateProof]
  | succ u ih =>
    intro l j h
    have e1 : ∀ s, l + 1 + s = l + (s + 1) := by intro s; omega
    have e2 : ∀ s, j / 2 / 2 ^ s = j / 2 ^ (s + 1) := by
      intro s; rw [Nat.div_div_eq_div_mul, ← Nat.pow_succ']
    have h0 := h 0 (by omega)
    simp only [Nat.add_zero, Nat.pow_zero, Nat.div_one] at h0
    have ih' := ih (l + 1) (j / 2) (by
      intro s hs
      rw [e1, e2]
      exact h (s + 1) (by omega))
    have hr : (List.range (u + 1)).map (fun t => nodeIdx (l + t) (sibBlk (j / 2 ^ t)))
        = nodeIdx l (sibBlk j) :: (List.range u).map (fun t => nodeIdx (l + 1 + t) (sibBlk (j / 2 / 2 ^ t))) := by
      rw [List.range_succ_eq_map, List.map_cons, List.map_map]
      simp only [Nat.add_zero, Nat.pow_zero, Nat.div_one, List.cons.injEq, true_and]
      apply List.map_congr_left
      intro t _
      simp only [Function.comp, Nat.succ_eq_add_one]
      rw [e1, e2]
    rw [hr]
    simp only [sibPath]
    rw [updateProof_cons, ih']
    have htd : toD m (nodeIdx l (sibBlk j)) = m.get? (nodeIdx l (sibBlk j)) := rfl
    rw [htd]
    cases hget : m.get? (nodeIdx l (sibBlk j)) with
    | none =>
      rw [hget] at h0
      simp only [Option.getD_none] at h0
      simp [h0, bne_cons_same]
    | some v =>
      rw [hget] at h0
      simp only [Option.getD_some] at h0
      subst h0
      by_cases hd : sub H g0 l (sibBlk j) = sub H g l (sibBlk j)
      · simp [hd, bne_cons_same]
      · simp [hd]

theorem zip_map_self (P : Nat → List D) : ∀ lis : List Nat, (lis.map P).zip lis = lis.map fun t => (P t, t) := by
  intro lis
  induction lis with
  | nil => rfl
  | cons a r ih => simp [ih]

theorem updateProofs_spec [BEq D] [LawfulBEq D] {n : Nat} {g0 g : Nat → D} {S : List Nat} {m : Model.MmrE.AMap D}
    (inv : Inv H n g0 g S m.get?) (hn : n < 2 ^ 63) : ∀ (lis : List Nat) (i0 : Nat), (∀ i ∈ lis, i < n) →
    updateProofs (toD m) (lis.map fun t => (authPathOf H g0 n t, t)) i0
      = some (lis.map (authPathOf H g n),
          ((List.range lis.length).filter fun k =>
            authPathOf H g0 n (lis.getD k 0) != authPathOf H g n (lis.getD k 0)).map (· + i0)) := by
  intro lis
  induction lis with
  | nil => intro i0 _; simp [updateProofs]
  | cons τ rest ih =>
    intro i0 hlis
    have hτ : τ < n := hlis τ (by simp)
    have hh : (locate n τ).1 < 63 := by
      have h1 := two_pow_height_le n τ hτ
      by_contra hc
      have : 2 ^ 63 ≤ 2 ^ (locate n τ).1 := Nat.pow_le_pow_right (by omega) (by omega)
      omega
    have hlen : (authPathOf H g0 n τ).length = (locate n τ).1 := by unfold authPathOf; rw [sibPath_length]
    have hidx := get_node_indices_spec τ (locate n τ).1 (by omega) (by omega)
      (nodeIdx_lt_of_height n τ _ hτ hn (Nat.le_refl _))
    have hrep := updateProof_sibPath H g0 g m (locate n τ).1 0 τ (by
      intro s hs
      rw [Nat.zero_add]
      exact inv.sibling H hn τ s hτ hs)
    simp only [Nat.zero_add] at hrep
    have hrep' : updateProof (toD m) (authPathOf H g0 n τ)
        ((List.range (locate n τ).1).map fun t => nodeIdx t (sibBlk (τ / 2 ^ t)))
        = (authPathOf H g n τ, authPathOf H g0 n τ != authPathOf H g n τ) := hrep
    simp only [List.map_cons]
    rw [updateProofs, hlen, hidx]
    simp only [Option.bind_some]
    rw [hrep', ih (i0 + 1) (fun i hi => hlis i (by simp [hi]))]
    simp only [Option.bind_some, Option.some.injEq, Prod.mk.injEq, true_and]
    rw [List.length_cons, List.range_succ_eq_map, List.filter_cons, List.filter_map]
    have hf : ((fun k => authPathOf H g0 n ((τ :: rest).getD k 0) != authPathOf H g n ((τ :: rest).getD k 0)) ∘ Nat.succ)
        = fun k => authPathOf H g0 n (rest.getD k 0) != authPathOf H g n (rest.getD k 0) := by
      funext k; simp
    rw [hf]
    have hm : ((fun x => x + i0) ∘ Nat.succ) = fun x => x + (i0 + 1) := by
      funext k; simp only [Function.comp, Nat.succ_eq_add_one]; omega
    by_cases hc : (authPathOf H g0 n τ != authPathOf H g n τ) = true
    · simp [hc, hm, List.map_map]
    · simp [hc, hm, List.map_map]

/-- **batch mutation refines the from-scratch peaks and paths** (model of `TF/Model/MmrAcc.lean`, specification of
    `TF/Spec/MmrAcc.lean`) -/
theorem batch_mutate_refines_model [BEq D] [LawfulBEq D] (n : Nat) (f : Nat → D) (ms : List (Nat × D))
    (tracked : List Nat) (hn : n < 2 ^ 63) (hnd : (ms.map Prod.fst).Nodup) (hms : ∀ m ∈ ms, m.1 < n)
    (htr : ∀ t ∈ tracked, t < n) :
    batch_mutate_leaf_and_update_mps H { leaf_count := n, peaks := Spec.MmrAcc.peaks H n f }
        (tracked.map fun t => (Spec.MmrAcc.authPath H n f t).getD []) tracked
        (ms.map fun m => { leaf_index := m.1, new_leaf := m.2, auth := (Spec.MmrAcc.authPath H n f m.1).getD [] })
      = some ({ leaf_count := n, peaks := Spec.MmrAcc.peaks H n (applyUpdates f ms) },
              tracked.map (fun t => (Spec.MmrAcc.authPath H n (applyUpdates f ms) t).getD []),
              (List.range tracked.length).filter fun k =>
                (Spec.MmrAcc.authPath H n f (tracked.getD k 0)).getD []
                  != (Spec.MmrAcc.authPath H n (applyUpdates f ms) (tracked.getD k 0)).getD []) := by
  have hnd' : (ms.reverse.map (·.1)).Nodup := by rw [List.map_reverse]; exact nodup_rev _ hnd
  obtain ⟨m', hloop, inv⟩ := mutationsLoop_spec H n hn f ms.reverse [] f [] (Inv.empty H n f _ AMap.get?_nil)
    (fun p hp => ⟨hms p (List.mem_reverse.mp hp), by simp⟩) hnd'
  rw [applyL_reverse ms f hnd] at hloop inv
  have hrep := updateProofs_spec H inv hn tracked 0 htr
  have hall : tracked.all (fun x => decide (x < n)) = true := by
    rw [List.all_eq_true]; intro x hx; simpa using htr x hx
  -- the paths handed over
  have hp1 : (tracked.map fun t => (Spec.MmrAcc.authPath H n f t).getD []) = tracked.map (authPathOf H f n) :=
    List.map_congr_left fun t ht => by rw [authPath_eq H f n t (htr t ht)]; rfl
  have hp2 : (tracked.map fun t => (Spec.MmrAcc.authPath H n (applyUpdates f ms) t).getD [])
      = tracked.map (authPathOf H (applyL f ms) n) :=
    List.map_congr_left fun t ht => by rw [authPath_eq H _ n t (htr t ht), applyUpdates_eq]; rfl
  have hp3 : (ms.map fun m => ({ leaf_index := m.1, new_leaf := m.2, auth := (Spec.MmrAcc.authPath H n f m.1).getD [] } : LeafMutation D)).reverse
      = ms.reverse.map fun m => ({ leaf_index := m.1, new_leaf := m.2, auth := authPathOf H f n m.1 } : LeafMutation D) := by
    rw [← List.map_reverse]
    exact List.map_congr_left fun m hm => by rw [authPath_eq H f n m.1 (hms m (List.mem_reverse.mp hm))]; rfl
  have hp4 : ((List.range tracked.length).filter fun k =>
        (Spec.MmrAcc.authPath H n f (tracked.getD k 0)).getD []
          != (Spec.MmrAcc.authPath H n (applyUpdates f ms) (tracked.getD k 0)).getD [])
      = (List.range tracked.length).filter fun k =>
        authPathOf H f n (tracked.getD k 0) != authPathOf H (applyL f ms) n (tracked.getD k 0) := by
    apply List.filter_congr
    intro k hk
    have hk' : k < tracked.length := List.mem_range.mp hk
    have hmem : tracked.getD k 0 ∈ tracked := by
      rw [List.getD_eq_getElem _ _ hk']; exact List.getElem_mem hk'
    rw [authPath_eq H f n _ (htr _ hmem), authPath_eq H _ n _ (htr _ hmem), applyUpdates_eq]
    rfl
  have hsim := batchMutateLoop_sim H n
    (ms.reverse.map fun m => ({ leaf_index := m.1, new_leaf := m.2, auth := authPathOf H f n m.1 } : LeafMutation D))
    (Spec.MmrE.peaks H n f) []
  rw [List.map_map] at hsim
  have hloop' : Model.MmrE.mutationsLoop H true n
      (ms.reverse.map (conv ∘ fun m => ({ leaf_index := m.1, new_leaf := m.2, auth := authPathOf H f n m.1 } : LeafMutation D)))
      [] (Spec.MmrE.peaks H n f) = some (m', Spec.MmrE.peaks H n (applyL f ms)) := hloop
  rw [hloop'] at hsim
  unfold batch_mutate_leaf_and_update_mps
  simp only [List.length_map, ne_eq, not_true_eq_false, if_false, hall, Bool.not_true, Bool.false_eq_true]
  rw [hp1, hp2, hp3, hp4, peaks_eq, peaks_eq, applyUpdates_eq, toD_nil, hsim, zip_map_self]
  simp only [Option.map_some, Option.bind_some, hrep, Nat.add_zero, List.map_id']

end Batch

/-! ### a repeated leaf index panics -/

section Dup
variable {D : Type} (H : D → D → D)
open TF.Model.MmrAcc

theorem insert_keeps (m : DMap D) (k k' : Nat) (v : D) (h : (m k).isSome = true) : ((m.insert k' v) k).isSome = true := by
  unfold DMap.insert
  by_cases e : k = k'
  · simp [e]
  · simp [e, h]

theorem batchClimb_keeps (k : Nat) : ∀ (ap : List D) (ni : Nat) (acc : D) (m : DMap D) (r : D × DMap D),
    batchClimb H ap ni acc m = some r → (m k).isSome = true → (r.2 k).isSome = true := by
  intro ap
  induction ap with
  | nil =>
    intro ni acc m r h hk
    simp only [batchClimb, Option.some.injEq] at h
    subst h; exact hk
  | cons hash rest ih =>
    intro ni acc m r h hk
    rw [batchClimb] at h
    cases hsp : siblingAndParent ni with
    | none => rw [hsp] at h; cases h
    | some sp =>
      rw [hsp] at h
      simp only [Option.bind_some] at h
      apply ih _ _ _ r h
      unfold batchRound
      simp only
      split
      · exact hk
      · exact insert_keeps _ _ _ _ hk

theorem loop_none_of_key (n : Nat) : ∀ (L : List (LeafMutation D)) (pks : List D) (m : DMap D),
    (∃ mu ∈ L, (m (leaf_index_to_node_index mu.leaf_index)).isSome = true) → batchMutateLoop H n L pks m = none := by
  intro L
  induction L with
  | nil => intro pks m h; obtain ⟨mu, hmu, _⟩ := h; simp at hmu
  | cons mu rest ih =>
    intro pks m h
    rw [batchMutateLoop]
    by_cases hs : (m (leaf_index_to_node_index mu.leaf_index)).isSome = true
    · rw [if_pos hs]
    · rw [if_neg hs]
      obtain ⟨mu', hmu', hk'⟩ := h
      have hrest : mu' ∈ rest := by
        rcases List.mem_cons.mp hmu' with e | e
        · subst e; exact absurd hk' hs
        · exact e
      cases hc : batchClimb H mu.auth (leaf_index_to_node_index mu.leaf_index) mu.new_leaf
          (m.insert (leaf_index_to_node_index mu.leaf_index) mu.new_leaf) with
      | none => rfl
      | some r =>
        simp only [Option.bind_some]
        have hkeep := batchClimb_keeps H (leaf_index_to_node_index mu'.leaf_index) _ _ _ _ r hc
          (insert_keeps _ _ _ _ hk')
        split
        · cases hset : setAt? pks (leaf_index_to_mt_index_and_peak_index mu.leaf_index n).2 r.1 with
          | none => rfl
          | some pks' =>
            simp only [Option.bind_some]
            exact ih pks' r.2 ⟨mu', hrest, hkeep⟩
        · rfl

theorem loop_none_of_dup (n : Nat) : ∀ (L : List (LeafMutation D)) (pks : List D) (m : DMap D),
    ¬ (L.map (·.leaf_index)).Nodup → batchMutateLoop H n L pks m = none := by
  intro L
  induction L with
  | nil => intro pks m h; simp at h
  | cons mu rest ih =>
    intro pks m h
    simp only [List.map_cons, List.nodup_cons, not_and_or, not_not] at h
    rw [batchMutateLoop]
    split
    · rfl
    · cases hc : batchClimb H mu.auth (leaf_index_to_node_index mu.leaf_index) mu.new_leaf
          (m.insert (leaf_index_to_node_index mu.leaf_index) mu.new_leaf) with
      | none => rfl
      | some r =>
        simp only [Option.bind_some]
        split
        · cases hset : setAt? pks (leaf_index_to_mt_index_and_peak_index mu.leaf_index n).2 r.1 with
          | none => rfl
          | some pks' =>
            simp only [Option.bind_some]
            rcases h with h | h
            · obtain ⟨mu', hmu', he⟩ := List.mem_map.mp h
              apply loop_none_of_key
              refine ⟨mu', hmu', ?_⟩
              rw [he]
              apply batchClimb_keeps H _ _ _ _ _ r hc
              unfold DMap.insert
              simp
            · exact ih pks' r.2 h
        · rfl

/-- **a repeated leaf index in the batch panics** (`assert!(former_value.is_none())`), whatever else is passed -/
theorem batch_dup_panics [BEq D] (a : Acc D) (proofs : List (List D)) (idxs : List Nat) (muts : List (LeafMutation D))
    (h : ¬ (muts.map (·.leaf_index)).Nodup) : batch_mutate_leaf_and_update_mps H a proofs idxs muts = none := by
  unfold batch_mutate_leaf_and_update_mps
  split
  · rfl
  · split
    · rfl
    · rw [loop_none_of_dup H a.leaf_count muts.reverse a.peaks DMap.empty (by
        rw [List.map_reverse]
        intro hnd
        apply h
        have := MmrBM.nodup_rev _ hnd
        rwa [List.reverse_reverse] at this)]
      rfl

theorem loop_none_of_oob (n : Nat) : ∀ (L : List (LeafMutation D)) (pks : List D) (m : DMap D),
    (∃ mu ∈ L, n ≤ mu.leaf_index) → batchMutateLoop H n L pks m = none := by
  intro L
  induction L with
  | nil => intro pks m h; obtain ⟨mu, hmu, _⟩ := h; simp at hmu
  | cons mu rest ih =>
    intro pks m h
    rw [batchMutateLoop]
    split
    · rfl
    · cases hc : batchClimb H mu.auth (leaf_index_to_node_index mu.leaf_index) mu.new_leaf
          (m.insert (leaf_index_to_node_index mu.leaf_index) mu.new_leaf) with
      | none => rfl
      | some r =>
        simp only [Option.bind_some]
        by_cases hlt : mu.leaf_index < n
        · rw [if_pos hlt]
          cases hset : setAt? pks (leaf_index_to_mt_index_and_peak_index mu.leaf_index n).2 r.1 with
          | none => rfl
          | some pks' =>
            simp only [Option.bind_some]
            obtain ⟨mu', hmu', hoob⟩ := h
            rcases List.mem_cons.mp hmu' with e | e
            · subst e; omega
            · exact ih pks' r.2 ⟨mu', e, hoob⟩
        · rw [if_neg hlt]

/-- **an out-of-range index panics**: a mutated leaf index `≥ leaf_count` (`assert!` of
    `leaf_index_to_mt_index_and_peak_index`), a tracked leaf index `≥ leaf_count`, or lists of different lengths
    (the two `assert!`s at the top of the routine) -/
theorem batch_oob_panics [BEq D] (a : Acc D) (proofs : List (List D)) (idxs : List Nat) (muts : List (LeafMutation D))
    (h : (∃ mu ∈ muts, a.leaf_count ≤ mu.leaf_index) ∨ (∃ t ∈ idxs, a.leaf_count ≤ t) ∨ proofs.length ≠ idxs.length) :
    batch_mutate_leaf_and_update_mps H a proofs idxs muts = none := by
  unfold batch_mutate_leaf_and_update_mps
  split
  · rfl
  · rename_i hlen
    split
    · rfl
    · rename_i hall
      rcases h with ⟨mu, hmu, hoob⟩ | ⟨t, ht, hoob⟩ | hne
      · rw [loop_none_of_oob H a.leaf_count muts.reverse a.peaks DMap.empty ⟨mu, List.mem_reverse.mpr hmu, hoob⟩]
        rfl
      · exfalso
        apply hall
        simp only [Bool.not_eq_true', List.all_eq_false]
        exact ⟨t, ht, by simpa using hoob⟩
      · exact absurd hne hlen

end Dup

/-! ### histories with batch-mutation steps -/

section Hist
variable {D : Type} (H : D → D → D)
open TF.Model.MmrAcc TF.Spec.MmrAcc

/-- operations of a history; a batch step mutates the leafs `ms` (index, new value) and hands over the proofs of the
    leafs `tracked` -/
inductive OpB (D : Type) where
  | append (x : D)
  | mutate (i : Nat) (x : D)
  | batch (ms : List (Nat × D)) (tracked : List Nat)

/-- the leaf list (count, leaves) after an operation -/
def specStepB (st : Nat × (Nat → D)) : OpB D → Nat × (Nat → D)
  | .append x => (st.1 + 1, update st.2 st.1 x)
  | .mutate i x => (st.1, update st.2 i x)
  | .batch ms _ => (st.1, applyUpdates st.2 ms)

def specRunB (st : Nat × (Nat → D)) (ops : List (OpB D)) : Nat × (Nat → D) := ops.foldl specStepB st

/-- the operation is admissible on a list of `n` leaves -/
def opOkB (n : Nat) : OpB D → Prop
  | .append _ => n + 1 < 2^64
  | .mutate i _ => i < n ∧ n < 2^64
  | .batch ms tracked => n < 2^63 ∧ (ms.map Prod.fst).Nodup ∧ (∀ m ∈ ms, m.1 < n) ∧ (∀ t ∈ tracked, t < n)

/-- the leaf count after an operation -/
def nextCountB (n : Nat) : OpB D → Nat
  | .append _ => n + 1
  | .mutate _ _ => n
  | .batch _ _ => n

/-- all operations of the history are admissible at the moment they are carried out -/
def histOkB : (n : Nat) → List (OpB D) → Prop
  | _, [] => True
  | n, op :: rest => opOkB n op ∧ histOkB (nextCountB n op) rest

/-- one step of the accumulator; mutations are carried out with the from-scratch membership proofs of the moment
    (which exist for the in-range leafs, `authPath_isSome`) -/
def modelStepB [BEq D] (st : Nat × (Nat → D)) (a : Acc D) : OpB D → Option (Acc D)
  | .append x => (append H a x).map Prod.fst
  | .mutate i x =>
    match authPath H st.1 st.2 i with
    | some ap => mutate_leaf H a { leaf_index := i, new_leaf := x, auth := ap }
    | none => none
  | .batch ms tracked =>
    (batch_mutate_leaf_and_update_mps H a (tracked.map fun t => (authPath H st.1 st.2 t).getD []) tracked
      (ms.map fun m => { leaf_index := m.1, new_leaf := m.2, auth := (authPath H st.1 st.2 m.1).getD [] })).map (·.1)

def modelRunB [BEq D] : (st : Nat × (Nat → D)) → (a : Acc D) → List (OpB D) → Option (Acc D)
  | _, a, [] => some a
  | st, a, op :: rest =>
    match modelStepB H st a op with
    | some a' => modelRunB (specStepB st op) a' rest
    | none => none

theorem specStepB_count (n : Nat) (f : Nat → D) (op : OpB D) : (specStepB (n, f) op).1 = nextCountB n op := by
  cases op <;> rfl

theorem stepB_refines [BEq D] [LawfulBEq D] (n : Nat) (f : Nat → D) (op : OpB D) (hok : opOkB n op) :
    modelStepB H (n, f) { leaf_count := n, peaks := peaks H n f } op
      = some { leaf_count := (specStepB (n, f) op).1,
               peaks := peaks H (specStepB (n, f) op).1 (specStepB (n, f) op).2 } := by
  cases op with
  | append x => exact MmrAccP.step_refines_op H n f (.append x) hok
  | mutate i x => exact MmrAccP.step_refines_op H n f (.mutate i x) hok
  | batch ms tracked =>
    obtain ⟨hn, hnd, hms, htr⟩ := hok
    show (batch_mutate_leaf_and_update_mps H _ _ _ _).map (·.1) = _
    rw [batch_mutate_refines_model H n f ms tracked hn hnd hms htr]
    rfl

/-- **history theorem with batch steps**: after any admissible history of appends, leaf mutations and batch leaf
    mutations (all with the valid proofs of the moment) from an accumulator holding the from-scratch peaks of `n`
    leaves, the accumulator holds the leaf count and the from-scratch peaks of the current leaf list -/
theorem historyB_refines_model [BEq D] [LawfulBEq D] : ∀ (ops : List (OpB D)) (n : Nat) (f : Nat → D), histOkB n ops →
    modelRunB H (n, f) { leaf_count := n, peaks := peaks H n f } ops
      = some { leaf_count := (specRunB (n, f) ops).1,
               peaks := peaks H (specRunB (n, f) ops).1 (specRunB (n, f) ops).2 } := by
  intro ops
  induction ops with
  | nil => intro n f _; rfl
  | cons op rest ih =>
    intro n f hok
    obtain ⟨h1, h2⟩ := hok
    unfold modelRunB
    rw [stepB_refines H n f op h1]
    rw [← specStepB_count n f op] at h2
    exact ih (specStepB (n, f) op).1 (specStepB (n, f) op).2 h2

end Hist

end TF.MmrAccBatch
